(* The shape of the event list of regenerate (RegenerateID), generically in the
   save discipline: flushes K1-safe, the save under the new ID, flushes K2-safe,
   the reference save under the old ID. Arbitrary fault plans. *)
From Sessions Require Import Model.Base Model.Sess Model.Hist Proofs.SessDefs Proofs.CrashFault Proofs.CrashFault2.
From Coq Require Import Lia.

Lemma replay_snoc l e sg : replay (l ++ [e]) sg = apply_ev (replay l sg) e.
Proof. rewrite replay_app. reflexivity. Qed.

Lemma fst_apply_save sg k r : fst (apply_ev sg (EvSave k r true)) = upsert (fst sg) k r.
Proof. destruct sg. reflexivity. Qed.

Lemma fst_apply_save_false sg k r : fst (apply_ev sg (EvSave k r false)) = fst sg.
Proof. destruct sg. reflexivity. Qed.

Lemma ext_nil_r s s1 s2 l : ext s s1 l -> ext s1 s2 [] -> ext s s2 l.
Proof. intros A B. rewrite <- (app_nil_r l). eapply ext_trans; eassumption. Qed.

Lemma ext_nil_l s s1 s2 l : ext s s1 [] -> ext s1 s2 l -> ext s s2 l.
Proof. intros A B. change l with ([] ++ l). eapply ext_trans; eassumption. Qed.

Section Regen.
  Variables K1 K2 : key -> rec -> Prop.
  Hypothesis K1_codec : forall cf k r, K1 k r -> K1 k (codec cf r).
  Hypothesis K1_access : forall k r t, K1 k r -> K1 k (set_access r t).
  Hypothesis K1_created : forall k r t, K1 k r -> K1 k (set_created r t).
  Hypothesis K2_codec : forall cf k r, K2 k r -> K2 k (codec cf r).
  Hypothesis K2_access : forall k r t, K2 k r -> K2 k (set_access r t).
  Hypothesis K2_created : forall k r t, K2 k r -> K2 k (set_created r t).

  Lemma regenerate_safe s o ob s' res cks :
    J K1 s -> hget s o = Some ob -> regenerate s o = (s', res, cks) ->
    let nid := KGen (supply s) in
    (forall o', ~ In (nid, o') (cache s)) ->
    K1 nid (o_rec ob) -> K2 nid (o_rec ob) -> (forall k r, k <> nid -> K1 k r -> K2 k r) ->
    exists l1 b1,
      let r1 := codec (conf s) (set_access (set_created (o_rec ob) (now s)) (now s)) in
      Forall (QK K1) l1 /\ K1 nid r1 /\ K2 nid r1 /\
      ((b1 = false /\ ext s s' (EvDraw (supply s) :: l1 ++ [EvSave nid r1 false]) /\ res = Err ERegenSave /\ cks = []) \/
       (b1 = true /\ exists l2 rr b2, Forall (QK K2) l2 /\ r_ref rr = Some nid /\
          ext s s' (EvDraw (supply s) :: l1 ++ [EvSave nid r1 true] ++ l2 ++ [EvSave (o_id ob) rr b2]) /\
          (if b2 then res = Ok tt /\ cks = [CkLive nid] else res = Err ERegenRef /\ cks = []))).
  Proof.
    intros HJ Ho HR nid Hnc HK1 HK2 H12.
    pose proof (regenerate_spec _ _ _ _ _ _ Ho HR) as HS. cbv zeta in HS. fold nid in HS.
    set (ob1 := mkObj nid (set_created (o_rec ob) (now s))) in *.
    set (s0 := fst (gen_id s)) in *.
    set (s1 := hput s0 o ob1) in *.
    destruct HS as (s2 & b1 & EC1 & Ho1 & HS).
    assert (X0 : ext s s0 [EvDraw (supply s)]) by apply gen_id_spec.
    assert (HJ0 : J K1 s0) by (eapply J_same; [..|exact HJ]; reflexivity).
    assert (HJ1 : J K1 s1).
    { eapply J_hput; [exact HJ0 | exact Ho |]. intros k Hk. apply K1_created. exact Hk. }
    destruct (cache_set_safe K1 K1_codec K1_access _ _ _ _ _ HJ1 Ho1 EC1)
      as (l1 & X1 & HQ1 & Hp1 & Hcv2 & Hh2 & Hb1 & Hi2 & Hn2 & HJ2 & _ & HsK1).
    assert (Hprim : prim_save s1 ob1 b1 = EvSave nid (codec (conf s) (set_access (set_created (o_rec ob) (now s)) (now s))) b1)
      by reflexivity.
    rewrite Hprim in X1, HJ2.
    set (r1 := codec (conf s) (set_access (set_created (o_rec ob) (now s)) (now s))) in *.
    assert (HK1r : K1 nid r1) by (apply K1_codec, K1_access, K1_created, HK1).
    assert (HK2r : K2 nid r1) by (apply K2_codec, K2_access, K2_created, HK2).
    assert (X2 : ext s s2 (EvDraw (supply s) :: l1 ++ [EvSave nid r1 b1])).
    { change (EvDraw (supply s) :: l1 ++ [EvSave nid r1 b1]) with ([EvDraw (supply s)] ++ [] ++ (l1 ++ [EvSave nid r1 b1])).
      eapply ext_trans; [exact X0|]. eapply ext_trans; [apply ext_hput | exact X1]. }
    exists l1, b1. cbv zeta. split; [exact HQ1|]. split; [exact HK1r|]. split; [exact HK2r|].
    destruct b1.
    - right. split; [reflexivity|]. destruct HS as (Ho2 & s4 & b2 & EC2 & HS).
      destruct (HJ2 (K1_created _ _ _ HK1)) as [(_ & HcK2 & HsK2) _].
      (* the state after the first save is K2-safe *)
      assert (HJ2' : J K2 s2).
      { split; [exact Hcv2|]. split.
        - intros k' o' ob' Hin Ho'. destruct (Hi2 _ _ Hin) as [Hin'|[-> ->]].
          + apply H12; [|eapply HcK2; eassumption]. intros ->. eapply Hnc. exact Hin'.
          + rewrite Ho2 in Ho'. injection Ho' as <-. simpl. apply K2_access, K2_created. exact HK2.
        - intros k' r' Hl. destruct (key_eq_dec k' nid) as [->|Hne].
          + rewrite (store_of_ext _ _ _ X1), replay_snoc, fst_apply_save, lookup_upsert_same in Hl.
            injection Hl as <-. exact HK2r.
          + apply H12; [exact Hne|]. apply HsK2. exact Hl. }
      set (obr := mkObj (o_id ob) (ref_rec (o_rec (touch s1 ob1)) (now s2) nid)) in *.
      set (s3 := fst (halloc s2 obr)) in *.
      assert (HJ3 : J K2 s3) by (apply J_halloc; exact HJ2').
      assert (Hor : hget s3 (length (heap s2)) = Some obr) by apply (hget_halloc_new s2).
      destruct (cache_set_safe K2 K2_codec K2_access _ _ _ _ _ HJ3 Hor EC2)
        as (l2 & X4 & HQ2 & _).
      set (rr := codec (conf s3) (o_rec (touch s3 obr))) in *.
      exists l2, rr, b2. split; [exact HQ2|]. split; [reflexivity|].
      assert (X4' : ext s s4 (EvDraw (supply s) :: l1 ++ [EvSave nid r1 true] ++ l2 ++ [EvSave (o_id ob) rr b2])).
      { change (EvDraw (supply s) :: l1 ++ [EvSave nid r1 true] ++ l2 ++ [EvSave (o_id ob) rr b2])
          with ((EvDraw (supply s) :: l1) ++ [EvSave nid r1 true] ++ l2 ++ [EvSave (o_id ob) rr b2]).
        rewrite app_assoc. change ((EvDraw (supply s) :: l1) ++ [EvSave nid r1 true]) with (EvDraw (supply s) :: l1 ++ [EvSave nid r1 true]).
        eapply ext_trans; [exact X2|]. change (l2 ++ [EvSave (o_id ob) rr b2]) with ([] ++ l2 ++ [EvSave (o_id ob) rr b2]).
        eapply ext_trans; [apply ext_halloc | exact X4]. }
      destruct b2; destruct HS as (-> & -> & ->).
      + split; [|auto]. eapply ext_nil_r; [exact X4' | apply ext_set_pending].
      + split; [exact X4'|auto].
    - left. destruct HS as (-> & -> & ->). auto.
  Qed.
End Regen.

(* ------------------------------------------------ C10: no dangling reference *)

(* Every reference record of the store points at a stored ID, except for
   targets excused by X. *)
Definition nodangling_rel (X : key -> Prop) (stor : list (key * rec)) : Prop :=
  forall k r t, lookup stor k = Some r -> r_ref r = Some t -> lookup stor t <> None \/ X t.

Definition nodangling (stor : list (key * rec)) : Prop :=
  forall k r t, lookup stor k = Some r -> r_ref r = Some t -> lookup stor t <> None.

Lemma nodangling_of_rel stor : nodangling_rel (fun _ => False) stor -> nodangling stor.
Proof. intros H k r t H1 H2. destruct (H k r t H1 H2) as [?|[]]. assumption. Qed.

Lemma apply_draw sg n : apply_ev sg (EvDraw n) = sg.
Proof. destruct sg. reflexivity. Qed.

Lemma present_apply sg e t :
  lookup (fst sg) t <> None -> is_delete e = false -> lookup (fst (apply_ev sg e)) t <> None.
Proof.
  destruct sg as [stor gr]. intros H Hd. destruct e; try exact H; simpl in *; [|discriminate].
  destruct ok; [|exact H]. simpl. destruct (key_eq_dec t k) as [->|Hne].
  - rewrite lookup_upsert_same. discriminate.
  - rewrite lookup_upsert_other by exact Hne. exact H.
Qed.

Lemma present_replay l : forall sg t,
  lookup (fst sg) t <> None -> Forall (fun e => is_delete e = false) l -> lookup (fst (replay l sg)) t <> None.
Proof.
  induction l as [|e l IH]; intros sg t H HF; [exact H|]. inversion HF; subst. simpl.
  apply IH; [apply present_apply|]; assumption.
Qed.

(* the records whose reference target satisfies T *)
Definition ref_in (T : key -> Prop) (k : key) (r : rec) : Prop := forall t, r_ref r = Some t -> T t.

Lemma ref_in_codec T cf k r : ref_in T k r -> ref_in T k (codec cf r).
Proof. exact (fun H => H). Qed.
Lemma ref_in_access T k r t : ref_in T k r -> ref_in T k (set_access r t).
Proof. exact (fun H => H). Qed.
Lemma ref_in_created T k r t : ref_in T k r -> ref_in T k (set_created r t).
Proof. exact (fun H => H). Qed.
Lemma ref_in_user T k r u : ref_in T k r -> ref_in T k (set_user r u).
Proof. exact (fun H => H). Qed.

(* invariant of the store along a run of T-safe saves *)
Definition ndI (s : st) (T : key -> Prop) (sg : sgT) : Prop :=
  (forall t, lookup (store s) t <> None -> lookup (fst sg) t <> None) /\ storeK (ref_in T) (fst sg).

Lemma ndI_step s (T : key -> Prop) (sg : sgT) e : ndI s T sg -> QK (ref_in T) e -> ndI s T (apply_ev sg e).
Proof.
  intros [H1 H2] HQ. split.
  - intros t Ht. apply present_apply; [apply H1; exact Ht | apply HQ].
  - apply storeK_apply; assumption.
Qed.

Lemma ndI_nd s (X T : key -> Prop) (sg : sgT) :
  (forall t, T t -> lookup (store s) t <> None \/ X t \/ lookup (fst sg) t <> None) ->
  ndI s T sg -> nodangling_rel X (fst sg).
Proof.
  intros HT [H1 H2] k r t Hl Hr. destruct (HT t (H2 k r Hl t Hr)) as [H|[H|H]]; auto.
Qed.

Section RegenND.
  Variables (s : st) (X : key -> Prop).
  Let nid := KGen (supply s).
  Let T1 (t : key) : Prop := (lookup (store s) t <> None \/ X t) /\ t <> nid.
  Let T2 (t : key) : Prop := T1 t \/ t = nid.

  Lemma regenerate_nodangling_rel o ob s' res cks :
    J (ref_in T1) s -> hget s o = Some ob -> regenerate s o = (s', res, cks) ->
    ref_in T1 nid (o_rec ob) -> (forall o', ~ In (nid, o') (cache s)) ->
    exists l, ext s s' l /\ steps_ok (fun sg => nodangling_rel X (fst sg)) (sg_of s) l.
  Proof.
    intros HJ Ho HR Hob Hnc.
    destruct (regenerate_safe (ref_in T1) (ref_in T2)
                (ref_in_codec T1) (ref_in_access T1) (ref_in_created T1)
                (ref_in_codec T2) (ref_in_access T2) (ref_in_created T2)
                _ _ _ _ _ _ HJ Ho HR Hnc Hob)
      as (l1 & b1 & HQ1 & HK1 & HK2 & Hcase).
    { intros t Ht. left. apply Hob. exact Ht. }
    { intros k r _ H t Ht. left. apply H. exact Ht. }
    fold nid in Hcase, HK1, HK2.
    set (r1 := codec (conf s) (set_access (set_created (o_rec ob) (now s)) (now s))) in *.
    assert (HI0 : ndI s T1 (sg_of s)).
    { split; [auto|]. apply HJ. }
    assert (P1 : forall sg, ndI s T1 sg -> nodangling_rel X (fst sg)).
    { intro sg. apply ndI_nd. intros t [Ht _]. tauto. }
    assert (HQ1' : forall b, Forall (QK (ref_in T1)) (l1 ++ [EvSave nid r1 b])).
    { intro b. apply Forall_app. split; [exact HQ1|]. constructor; [|constructor]. apply QK_save. exact HK1. }
    destruct Hcase as [(-> & Xe & _)|(-> & l2 & rr & b2 & HQ2 & Hrr & Xe & _)].
    - exists (EvDraw (supply s) :: l1 ++ [EvSave nid r1 false]). split; [exact Xe|].
      cbn [steps_ok]. rewrite apply_draw. split; [apply P1; exact HI0|].
      eapply steps_ok_impl; [exact P1|]. eapply steps_inv; [apply ndI_step | exact HI0 | apply HQ1'].
    - exists (EvDraw (supply s) :: l1 ++ [EvSave nid r1 true] ++ l2 ++ [EvSave (o_id ob) rr b2]).
      split; [exact Xe|]. cbn [steps_ok]. rewrite apply_draw. split; [apply P1; exact HI0|].
      rewrite app_assoc. apply steps_ok_app.
      destruct (steps_inv (ndI s T1) (QK (ref_in T1)) (ndI_step s T1) _ _ HI0 (HQ1' true)) as [S1 E1].
      split; [eapply steps_ok_impl; [exact P1 | exact S1]|].
      set (sgA := replay (l1 ++ [EvSave nid r1 true]) (sg_of s)) in *.
      assert (HnidA : lookup (fst sgA) nid <> None).
      { unfold sgA. rewrite replay_snoc, fst_apply_save, lookup_upsert_same. discriminate. }
      assert (HI2 : ndI s T2 sgA).
      { destruct E1 as [E1 E2]. split; [exact E1|]. intros k r Hl t Ht. left. eapply E2; eassumption. }
      assert (HQ2' : Forall (QK (ref_in T2)) (l2 ++ [EvSave (o_id ob) rr b2])).
      { apply Forall_app. split; [exact HQ2|]. constructor; [|constructor]. apply QK_save.
        intros t Ht. right. congruence. }
      (* along phase 2 the new ID stays present *)
      set (I2 := fun sg => ndI s T2 sg /\ lookup (fst sg) nid <> None).
      assert (Hstep2 : forall sg e, I2 sg -> QK (ref_in T2) e -> I2 (apply_ev sg e)).
      { intros sg e [A B] HQ. split; [apply ndI_step; assumption | apply present_apply; [exact B | apply HQ]]. }
      destruct (steps_inv I2 (QK (ref_in T2)) Hstep2 _ sgA (conj HI2 HnidA) HQ2') as [S2 _].
      eapply steps_ok_impl; [|exact S2]. intros sg [A B]. eapply ndI_nd; [|exact A].
      intros t [[Ht _]| ->]; tauto.
  Qed.
End RegenND.

(* ------------------------------------------------ C10: the IDs keep resolving *)

(* Following replaced-ID records inside a store. *)
Fixpoint resolve (fuel : nat) (stor : list (key * rec)) (k : key) : option (key * rec) :=
  match lookup stor k with
  | None => None
  | Some r =>
    match r_ref r with
    | None => Some (k, r)
    | Some t => match fuel with O => None | S f => resolve f stor t end
    end
  end.

Definition uid (r : rec) : option N := match r_user r with Some (u, _) => Some u | None => None end.
Definition dat (r : rec) : list (N * N) := match r_data r with Some d => d | None => [] end.

(* the content of a session record: data D and user U *)
Definition full (D : list (N * N)) (U : option N) (r : rec) : Prop := dat r = D /\ uid r = U.

Lemma full_codec D U cf r : full D U r -> full D U (codec cf r).
Proof.
  intros (H2 & H3). unfold full, dat, uid in *. simpl. split.
  - destruct (r_data r); exact H2.
  - destruct (r_user r) as [[u v]|]; exact H3.
Qed.
Lemma full_access D U r t : full D U r -> full D U (set_access r t).
Proof. exact (fun H => H). Qed.
Lemma full_created D U r t : full D U r -> full D U (set_created r t).
Proof. exact (fun H => H). Qed.

(* key k resolves (at most one hop) to a non-reference record satisfying F *)
Definition resolves_to (F : rec -> Prop) (stor : list (key * rec)) (k : key) : Prop :=
  exists k' r, resolve 1 stor k = Some (k', r) /\ r_ref r = None /\ F r.

Definition at_keys (P : key -> Prop) (F : rec -> Prop) (k : key) (r : rec) : Prop := P k -> F r.

Section AtKeys.
  Variable F : rec -> Prop.
  Hypothesis F_codec : forall cf r, F r -> F (codec cf r).
  Hypothesis F_access : forall r t, F r -> F (set_access r t).
  Hypothesis F_created : forall r t, F r -> F (set_created r t).
  Lemma at_keys_codec P cf k r : at_keys P F k r -> at_keys P F k (codec cf r).
  Proof. intros H Hp. apply F_codec. apply H. exact Hp. Qed.
  Lemma at_keys_access P k r t : at_keys P F k r -> at_keys P F k (set_access r t).
  Proof. intros H Hp. apply F_access. apply H. exact Hp. Qed.
  Lemma at_keys_created P k r t : at_keys P F k r -> at_keys P F k (set_created r t).
  Proof. intros H Hp. apply F_created. apply H. exact Hp. Qed.
End AtKeys.

Section RegenRes.
  Variables (s : st) (old : key) (F0 : rec -> Prop).
  Hypothesis F0_codec : forall cf r, F0 r -> F0 (codec cf r).
  Hypothesis F0_access : forall r t, F0 r -> F0 (set_access r t).
  Hypothesis F0_created : forall r t, F0 r -> F0 (set_created r t).
  Let F (r : rec) : Prop := r_ref r = None /\ F0 r.
  Let nid := KGen (supply s).
  Let K1 := at_keys (fun k => k = old) F.
  Let K2 := at_keys (fun k => k = old \/ k = nid) F.

  Lemma F_codec cf r : F r -> F (codec cf r).
  Proof. intros [A B]. split; [exact A | apply F0_codec; exact B]. Qed.
  Lemma F_access r t : F r -> F (set_access r t).
  Proof. intros [A B]. split; [exact A | apply F0_access; exact B]. Qed.
  Lemma F_created r t : F r -> F (set_created r t).
  Proof. intros [A B]. split; [exact A | apply F0_created; exact B]. Qed.

  Lemma resolves_direct stor k r : lookup stor k = Some r -> F r -> resolves_to F0 stor k.
  Proof.
    intros Hl [Hr Hf]. exists k, r. split; [|split; assumption]. simpl. rewrite Hl, Hr. reflexivity.
  Qed.

  Lemma regenerate_resolves o ob s' res cks :
    J K1 s -> hget s o = Some ob -> o_id ob = old -> regenerate s o = (s', res, cks) ->
    F (o_rec ob) -> lookup (store s) old <> None -> old <> nid -> (forall o', ~ In (nid, o') (cache s)) ->
    exists l, ext s s' l /\
      steps_ok (fun sg => resolves_to F0 (fst sg) old) (sg_of s) l /\
      (res = Ok tt -> exists r rr, lookup (store s') nid = Some r /\ F r /\
                                   lookup (store s') old = Some rr /\ r_ref rr = Some nid).
  Proof.
    intros HJ Ho Hid HR Hfull Hold Hne Hnc.
    destruct (regenerate_safe K1 K2
                (at_keys_codec F F_codec _) (at_keys_access F F_access _) (at_keys_created F F_created _)
                (at_keys_codec F F_codec _) (at_keys_access F F_access _) (at_keys_created F F_created _)
                _ _ _ _ _ _ HJ Ho HR Hnc)
      as (l1 & b1 & HQ1 & HK1 & HK2 & Hcase).
    { intro H. fold nid in H. congruence. }
    { intros _. exact Hfull. }
    { intros k r Hk H [Hp|Hp]; [apply H; exact Hp | contradiction]. }
    fold nid in Hcase, HK1, HK2. rewrite Hid in Hcase.
    set (r1 := codec (conf s) (set_access (set_created (o_rec ob) (now s)) (now s))) in *.
    set (I1 := fun sg : sgT => storeK K1 (fst sg) /\ lookup (fst sg) old <> None).
    assert (Hstep1 : forall sg e, I1 sg -> QK K1 e -> I1 (apply_ev sg e)).
    { intros sg e [A B] HQ. split; [apply storeK_apply; assumption | apply present_apply; [exact B | apply HQ]]. }
    assert (HI0 : I1 (sg_of s)) by (split; [apply HJ | exact Hold]).
    assert (P1 : forall sg, I1 sg -> resolves_to F0 (fst sg) old).
    { intros sg [A B]. destruct (lookup (fst sg) old) as [r|] eqn:E; [|congruence].
      eapply resolves_direct; [exact E|]. apply (A _ _ E). reflexivity. }
    assert (HQ1' : forall b, Forall (QK K1) (l1 ++ [EvSave nid r1 b])).
    { intro b. apply Forall_app. split; [exact HQ1|]. constructor; [|constructor]. apply QK_save. exact HK1. }
    destruct Hcase as [(-> & Xe & -> & _)|(-> & l2 & rr & b2 & HQ2 & Hrr & Xe & Hres)].
    - exists (EvDraw (supply s) :: l1 ++ [EvSave nid r1 false]). split; [exact Xe|]. split; [|discriminate].
      cbn [steps_ok]. rewrite apply_draw. split; [apply P1; exact HI0|].
      eapply steps_ok_impl; [exact P1|]. eapply steps_inv; [exact Hstep1 | exact HI0 | apply HQ1'].
    - exists (EvDraw (supply s) :: l1 ++ [EvSave nid r1 true] ++ l2 ++ [EvSave old rr b2]).
      split; [exact Xe|].
      destruct (steps_inv I1 (QK K1) Hstep1 _ _ HI0 (HQ1' true)) as [S1 E1].
      set (sgA := replay (l1 ++ [EvSave nid r1 true]) (sg_of s)) in *.
      set (I2 := fun sg : sgT => storeK K2 (fst sg) /\ lookup (fst sg) old <> None /\ lookup (fst sg) nid <> None).
      assert (Hstep2 : forall sg e, I2 sg -> QK K2 e -> I2 (apply_ev sg e)).
      { intros sg e (A & B & C) HQ. split; [apply storeK_apply; assumption|].
        split; apply present_apply; try assumption; apply HQ. }
      assert (HI2 : I2 sgA).
      { destruct E1 as [E1 E2]. split; [|split; [exact E2|]].
        - intros k r Hl [Hp|Hp].
          + apply (E1 _ _ Hl). exact Hp.
          + subst k. unfold sgA in Hl. rewrite replay_snoc, fst_apply_save, lookup_upsert_same in Hl.
            injection Hl as <-. apply HK2. right. reflexivity.
        - unfold sgA. rewrite replay_snoc, fst_apply_save, lookup_upsert_same. discriminate. }
      assert (P2 : forall sg, I2 sg -> resolves_to F0 (fst sg) old).
      { intros sg (A & B & _). destruct (lookup (fst sg) old) as [r|] eqn:E; [|congruence].
        eapply resolves_direct; [exact E|]. apply (A _ _ E). left. reflexivity. }
      destruct (steps_inv I2 (QK K2) Hstep2 _ sgA HI2 HQ2) as [S2 E2].
      set (sgB := replay l2 sgA) in *.
      (* the last event: the reference save under the old ID *)
      assert (Plast : resolves_to F0 (fst (apply_ev sgB (EvSave old rr b2))) old /\
                      (b2 = true -> exists r, lookup (fst (apply_ev sgB (EvSave old rr b2))) nid = Some r /\ F r /\
                                      lookup (fst (apply_ev sgB (EvSave old rr b2))) old = Some rr)).
      { destruct b2.
        - rewrite fst_apply_save. destruct E2 as (A & B & C).
          destruct (lookup (fst sgB) nid) as [r|] eqn:E; [|congruence].
          assert (Hf : F r) by (apply (A _ _ E); right; reflexivity).
          assert (E' : lookup (upsert (fst sgB) old rr) nid = Some r).
          { rewrite lookup_upsert_other by (intro; apply Hne; congruence). exact E. }
          split.
          + exists nid, r. split; [|exact Hf]. simpl. rewrite lookup_upsert_same, Hrr, E'.
            destruct Hf as (-> & _). reflexivity.
          + intros _. exists r. rewrite lookup_upsert_same. auto.
        - rewrite fst_apply_save_false. split; [apply P2; exact E2 | discriminate]. }
      split.
      + cbn [steps_ok]. rewrite apply_draw. split; [apply P1; exact HI0|].
        rewrite app_assoc. apply steps_ok_app. split; [eapply steps_ok_impl; [exact P1 | exact S1]|].
        fold sgA. apply steps_ok_app. split; [eapply steps_ok_impl; [exact P2 | exact S2]|].
        fold sgB. cbn [steps_ok]. split; [apply P2; exact E2|]. split; [apply Plast | exact I].
      + intro Hok. destruct b2; [|destruct Hres; congruence].
        destruct Plast as [_ Pl]. destruct (Pl eq_refl) as (r & A & B & C).
        rewrite (store_of_ext _ _ _ Xe). cbn [replay fold_left]. rewrite apply_draw.
        change (fold_left apply_ev ?l ?x) with (replay l x).
        rewrite app_assoc, replay_app. fold sgA. rewrite replay_app. fold sgB.
        exists r, rr. auto.
  Qed.
End RegenRes.

(* ------------------------------------- exact store contents under one key *)

Lemma replay_Fl_keep hp cf C k0 r0 l :
  Forall (Fl hp cf C) l ->
  (forall o' ob', In (k0, o') C -> nth_error hp o' = Some ob' -> codec cf (o_rec ob') = r0) ->
  forall sg, lookup (fst sg) k0 = Some r0 -> lookup (fst (replay l sg)) k0 = Some r0.
Proof.
  intros HF HC. induction HF as [|e l He _ IH]; intros sg Hl; [exact Hl|]. simpl. apply IH.
  destruct He as (k & o & ob & b & -> & Hin & Hn). destruct b.
  - rewrite fst_apply_save. destruct (key_eq_dec k0 k) as [->|Hne].
    + rewrite lookup_upsert_same. f_equal. eapply HC; eassumption.
    + rewrite lookup_upsert_other by exact Hne. exact Hl.
  - rewrite fst_apply_save_false. exact Hl.
Qed.

(* cache_set leaves the stored record under k0 as it is when every cached
   object under k0, and the object being set if its ID is k0, encode to it *)
Lemma cache_set_exact s o ob s' b k0 r0 :
  hget s o = Some ob -> cache_set s o = (s', b) -> lookup (store s) k0 = Some r0 ->
  (forall o' ob', In (k0, o') (cache s) -> hget (hput s o (touch s ob)) o' = Some ob' -> codec (conf s) (o_rec ob') = r0) ->
  (o_id ob = k0 -> codec (conf s) (o_rec (touch s ob)) = r0) ->
  lookup (store s') k0 = Some r0.
Proof.
  intros Ho HS Hl HC Hown. apply cache_set_spec in HS. destruct HS as [(Hn & _)|(ob0 & Ho0 & HS)]; [congruence|].
  assert (ob0 = ob) by congruence. subst ob0. cbv zeta in HS.
  set (s1 := hput s o (touch s ob)) in *.
  set (req := (if has (cache s1) (o_id ob) then 0 else 1)%Z) in *.
  destruct (compact_flushes s1 req) as (l & X2 & HF & _).
  set (s2 := compact s1 req) in *.
  set (s3 := if (c_maxcache (conf s2) =? 0)%Z then s2 else set_cache s2 (upsert (cache s2) (o_id ob) o)) in *.
  assert (Hst3 : store s3 = store s2) by (unfold s3; destruct (_ =? _)%Z; reflexivity).
  assert (Hcf3 : conf s3 = conf s).
  { transitivity (conf s2); [unfold s3; destruct (_ =? _)%Z; reflexivity | apply (x_conf _ _ _ X2)]. }
  apply p_save_spec in HS. destruct HS as (_ & _ & _ & Hst & _).
  assert (H2 : lookup (store s2) k0 = Some r0).
  { rewrite (store_of_ext _ _ _ X2). eapply replay_Fl_keep; [exact HF | | exact Hl].
    intros o' ob' Hin Hn. apply (HC o' ob' Hin Hn). }
  rewrite Hst, Hst3, Hcf3. destruct b; [|exact H2].
  destruct (key_eq_dec k0 (o_id ob)) as [->|Hne].
  - rewrite lookup_upsert_same. f_equal. apply Hown. reflexivity.
  - rewrite lookup_upsert_other by exact Hne. exact H2.
Qed.

(* What a successful RegenerateID leaves in memory and in the store. *)
Lemma regenerate_ack s o ob s' cks :
  cv s -> hget s o = Some ob -> regenerate s o = (s', Ok tt, cks) ->
  let nid := KGen (supply s) in
  (forall o', ~ In (nid, o') (cache s)) -> o_id ob <> nid ->
  let r2 := set_access (set_created (o_rec ob) (now s)) (now s) in
  hget s' o = Some (mkObj nid r2) /\
  lookup (store s') nid = Some (codec (conf s) r2) /\
  lookup (store s') (o_id ob) = Some (codec (conf s) (ref_rec r2 (now s) nid)) /\
  cks = [CkLive nid] /\ conf s' = conf s /\ now s' = now s.
Proof.
  intros Hcv Ho HR nid Hnc Hne r2.
  pose proof (regenerate_spec _ _ _ _ _ _ Ho HR) as HS. cbv zeta in HS. fold nid in HS.
  set (ob1 := mkObj nid (set_created (o_rec ob) (now s))) in *.
  set (s1 := hput (fst (gen_id s)) o ob1) in *.
  destruct HS as (s2 & b1 & EC1 & Ho1 & HS).
  destruct b1; [|destruct HS as (_ & HS & _); discriminate].
  destruct HS as (Ho2 & s4 & b2 & EC2 & HS).
  destruct b2; [|destruct HS as (_ & HS & _); discriminate].
  destruct HS as (-> & _ & ->).
  assert (HJ1 : J (fun _ _ => True) s1).
  { split; [|split; intros ?; intros; exact I]. intros k' o' H. unfold s1. rewrite hput_len. eapply Hcv. exact H. }
  destruct (cache_set_safe (fun _ _ => True) (fun _ _ _ _ => I) (fun _ _ _ _ => I) _ _ _ _ _ HJ1 Ho1 EC1)
    as (l1 & X1 & _ & _ & Hcv2 & Hh2 & _ & Hi2 & _).
  change (touch s1 ob1) with (mkObj nid r2) in *.
  set (obr := mkObj (o_id ob) (ref_rec r2 (now s2) nid)) in *.
  set (s3 := fst (halloc s2 obr)) in *.
  assert (Hor : hget s3 (length (heap s2)) = Some obr) by apply (hget_halloc_new s2).
  assert (Hlt2 : o < length (heap s2)) by (eapply hget_Some_lt; exact Ho2).
  assert (Ho3 : hget s3 o = Some (mkObj nid r2)).
  { unfold s3. rewrite hget_halloc_old by exact Hlt2. exact Ho2. }
  assert (Hcf2 : conf s2 = conf s) by (rewrite (x_conf _ _ _ X1); reflexivity).
  assert (Hnow2 : now s2 = now s) by (rewrite (x_now _ _ _ X1); reflexivity).
  assert (Hst2 : lookup (store s2) nid = Some (codec (conf s) r2)).
  { rewrite (store_of_ext _ _ _ X1), replay_snoc. unfold prim_save. rewrite fst_apply_save.
    apply lookup_upsert_same. }
  pose proof (cache_set_heap _ _ _ _ _ Hor EC2) as Hh4.
  assert (HJ3 : J (fun _ _ => True) s3).
  { apply J_halloc. split; [exact Hcv2|]. split; intros ?; intros; exact I. }
  destruct (cache_set_safe (fun _ _ => True) (fun _ _ _ _ => I) (fun _ _ _ _ => I) _ _ _ _ _ HJ3 Hor EC2)
    as (l2 & X4 & _).
  assert (Hcf4 : conf s4 = conf s) by (rewrite (x_conf _ _ _ X4); exact Hcf2).
  assert (Hnow4 : now s4 = now s) by (rewrite (x_now _ _ _ X4); exact Hnow2).
  split; [|split; [|split; [|split; [reflexivity | split; assumption]]]].
  - change (hget s4 o = Some (mkObj nid r2)). rewrite (hget_eq _ _ _ Hh4).
    rewrite hget_hput_other by lia. exact Ho3.
  - change (lookup (store s4) nid = Some (codec (conf s) r2)).
    eapply (cache_set_exact s3 _ obr); [exact Hor | exact EC2 | exact Hst2 | | ].
    + intros o' ob' Hin Hg. simpl in Hin. destruct (Hi2 _ _ Hin) as [Hin'|[_ ->]].
      * exfalso. eapply Hnc. exact Hin'.
      * rewrite hget_hput_other in Hg by lia. rewrite Ho3 in Hg. injection Hg as <-.
        change (conf s3) with (conf s2). rewrite Hcf2. reflexivity.
    + simpl. intro E. contradiction.
  - change (lookup (store s4) (o_id ob) = Some (codec (conf s) (ref_rec r2 (now s) nid))).
    rewrite (store_of_ext _ _ _ X4), replay_snoc. unfold prim_save. rewrite fst_apply_save.
    change (o_id obr) with (o_id ob). rewrite lookup_upsert_same.
    unfold touch, obr, ref_rec, set_access. simpl.
    change (conf s3) with (conf s2). change (now s3) with (now s2). rewrite Hcf2, Hnow2. reflexivity.
Qed.
