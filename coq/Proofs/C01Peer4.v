(* C01, liveness half, the peer/agent frame, part 4: Start and the body of a
   request step, for a presented ID that resolves to a session or to nothing (the
   jar of a cookie-following client). Every other drawn ID keeps its recorded
   peer and agent (or dies); the ID the client's jar ends at resolves to a record
   whose peer and agent accept this request's: the request's own (noted by
   Start), or — when a rotation pushed the session out of a small cache before
   Start noted them — the ones it was accepted against. *)
From Sessions Require Import Model.Base Model.Sess Model.Hist Model.Corr Proofs.SessDefs
  Proofs.WriteThrough Proofs.WriteThrough2 Proofs.WriteThrough3 Proofs.WriteThrough4
  Proofs.RotateLaws Proofs.RotateLaws2 Proofs.RotateLaws3 Proofs.RotateLaws5 Proofs.RotateLaws6
  Proofs.C01Spec Proofs.C01Hist Proofs.C01Hist2 Proofs.C01Hist3 Proofs.C01Hist4 Proofs.C01Hist5
  Proofs.C01Hist6 Proofs.C01Hist8
  Proofs.C01Peer Proofs.C01Peer2 Proofs.C01Peer3.
From Sessions Require Proofs.HistInv3.
From Coq Require Import Lia.

Definition book (t : Z) (a : addr) (u : N) : rec -> rec := fun r => set_ua (set_ip (set_access r t) a) u.

Lemma pcont_book t a u r : pcont (book t a u r) = (a, u).
Proof. destruct r; reflexivity. Qed.

(* Start's bookkeeping: an ID resolves to the request's peer and agent, or as before *)
Lemma book_pv s o ob t a u id :
  hget s o = Some ob -> pv (hupd s o (book t a u)) id = Some (a, u) \/ pv (hupd s o (book t a u)) id = pv s id.
Proof.
  intro Hg. destruct (lookup (cache s) id) as [o'|] eqn:Ec.
  - destruct (Nat.eq_dec o o') as [<-|Hne].
    + left. rewrite (pv_cached _ id o (mkObj (o_id ob) (book t a u (o_rec ob)))).
      * cbn [o_rec]. rewrite pcont_book. reflexivity.
      * rewrite (hupd_eq _ _ _ _ Hg). exact Ec.
      * apply hget_hupd_same. exact Hg.
    + right. apply hupd_pv_other. rewrite Ec. congruence.
  - right. apply hupd_pv_other. rewrite Ec. discriminate.
Qed.

Definition pv_post (s0 : st) (q : request) (x : st * result (option nat) * list cookie) : Prop :=
  (forall k, CKey k <> q_cookie q -> key_drawn s0 k -> pv (fst (fst x)) k = pv s0 k) /\
  (forall o, snd (fst x) = Ok (Some o) ->
     ownp (c_acceptip (conf s0)) (c_acceptua (conf s0)) (q_addr q) (q_ua q) (fst (fst x)) o).

Lemma tail_pv s0 s1 q cks0 :
  Inv noex s1 -> supply s1 = supply s0 ->
  (forall k, CKey k <> q_cookie q -> key_drawn s0 k -> pv s1 k = pv s0 k) ->
  pv_post s0 q (if q_create q
                then let '(s, res, nck) := create_session s1 q in (s, res, cks0 ++ nck)
                else (s1, Ok None, cks0)).
Proof.
  intros HI Hu Hv. destruct (q_create q).
  - destruct (create_pv s1 q HI) as (A & B).
    destruct (create_ff s1 q (inv_plan _ _ HI) (inv_nodup _ _ HI) (Inv_next_uncached s1 HI)) as (s' & Hs & Hg & _).
    rewrite Hs in *. cbn [fst snd] in *. split.
    + intros k H1 H2. rewrite A; [apply Hv; assumption|]. rewrite Hu. apply key_drawn_not_next. exact H2.
    + intros o H. injection H as <-. eexists. split; [exact Hg|]. split; [reflexivity|].
      cbn [o_id]. intros p Hp. cbn [fst] in Hp. rewrite B in Hp. injection Hp as <-. apply okp_same.
  - split; [exact Hv|]. intros o H. discriminate H.
Qed.

Lemma start_pv s q :
  Inv noex s -> GR s ->
  (forall k, q_cookie q = CKey k ->
     (forall dd, ~ In (dd, k) (pending s)) /\ (view s k = None \/ exists d, view s k = Some (None, d))) ->
  pv_post s q (start s q).
Proof.
  intros HI HG Hjar. unfold start.
  destruct (q_cookie q) as [|k|m] eqn:Eq.
  - cbv beta iota. apply tail_pv; auto.
  - destruct (Hjar k eq_refl) as (Hkp & Hkv).
    destruct (cache_get_view s k (inv_plan _ _ HI) (inv_nodup _ _ HI) (Inv_cache_heap s HI))
      as (Gv & Gpe & Gg & Gu & Gc & Gn & Gnd).
    destruct (cache_get_pv s k (inv_plan _ _ HI) (inv_nodup _ _ HI) (Inv_cache_heap s HI)) as (Pv & _).
    destruct (cache_get s k) as [s1 r1] eqn:Hcg. cbn [fst] in *.
    destruct (cache_get_spec s k s1 r1 HI Hcg) as (HI1 & _ & ro & -> & Hro).
    assert (HG1 : GR s1).
    { apply (GR_pres s s1 (fun _ => False) HG).
      - exact Gg.
      - intros d k'. rewrite Gpe. auto.
      - rewrite Gu. lia.
      - intros k' _. apply Gv.
      - intros k' x [].
      - apply Gnd. apply HG. }
    destruct ro as [o|]; cbv beta iota.
    + destruct (Hro o eq_refl) as (HH1 & ob & Hg1 & Hid). rewrite Hg1.
      destruct (cache_get_obj s k s1 o (inv_plan _ _ HI) (inv_nodup _ _ HI) (Inv_cache_heap s HI) Hcg)
        as (ob' & Hg1' & HL0). assert (ob' = ob) by congruence. subst ob'.
      assert (Hpv1 : pv s1 k = Some (pcont (o_rec ob))) by (rewrite Pv; unfold pv; rewrite HL0; reflexivity).
      assert (Hvk1 : view s k = Some (cont (o_rec ob))).
      { rewrite <- (Gv k), <- Hid. apply (Held_view s1 o ob HH1 Hg1). }
      destruct Hkv as [Hkv|(d & Hkv)]; [congruence|].
      assert (Hco : cont (o_rec ob) = (None, d)) by congruence.
      assert (Hrf : r_ref (o_rec ob) = None) by (apply (f_equal fst) in Hco; exact Hco).
      match goal with |- context [negb ?v] => destruct v eqn:Ev end; cbn [negb].
      * (* valid: the recorded peer and agent accept the request's *)
        apply andb_prop in Ev. destruct Ev as [Ev Hua]. apply andb_prop in Ev. destruct Ev as [_ Hip].
        assert (Hokp : okp (c_acceptip (conf s)) (c_acceptua (conf s)) (q_addr q) (q_ua q) (pcont (o_rec ob)))
          by (split; assumption).
        rewrite Hrf. cbn [negb andb].
        destruct (c_idexpiry (conf s) <=? since (r_created (o_rec ob)) (now s1))%Z.
        -- (* rotation *)
           destruct (regenerate_eff s1 o ob HI1 HG1 HH1 Hg1)
             as (s2 & Hs2 & HI2 & _ & _ & (ob2 & Hg2 & Hid2 & _) & _).
           destruct (regenerate_pv s1 o ob HI1 Hg1) as (Rk & Rn & _).
           rewrite Hs2 in *. cbn [fst] in *. cbv beta iota.
           change (fun r : rec => set_ua (set_ip (set_access r (now s2)) (q_addr q)) (q_ua q))
             with (book (now s2) (q_addr q) (q_ua q)).
           split; cbn [fst snd].
           ++ intros k' H1 H2. rewrite hupd_pv_other.
              ** rewrite Rk; [apply Pv | rewrite Hid; congruence |].
                 rewrite Gu. apply key_drawn_not_next. exact H2.
              ** intro Hck. pose proof (Inv_cached_id s2 k' o ob2 HI2 Hck Hg2) as E. rewrite Hid2 in E.
                 rewrite <- E, Gu in H2. cbn in H2. lia.
           ++ intros o' H. injection H as <-.
              exists (mkObj (o_id ob2) (book (now s2) (q_addr q) (q_ua q) (o_rec ob2))).
              split; [apply hget_hupd_same; exact Hg2|]. split; [cbn [o_rec]; apply pcont_book|].
              cbn [o_id]. intros p Hp.
              destruct (book_pv s2 o ob2 (now s2) (q_addr q) (q_ua q) (o_id ob2) Hg2) as [H|H]; rewrite H in Hp.
              ** injection Hp as <-. apply okp_same.
              ** rewrite Hid2, Rn in Hp. injection Hp as <-. exact Hokp.
        -- destruct (_ <=? _)%Z.
           ++ destruct (cache_delete_pv s1 k (inv_plan _ _ HI1)) as (_ & Dk & _).
              destruct (cache_delete s1 k) as [s2 ok]. cbn [fst snd] in *.
              destruct ok; (split; cbn [fst snd];
                [intros k' H1 H2; rewrite Dk by congruence; apply Pv | intros o' H; discriminate H]).
           ++ (* the plain case *)
              change (fun r : rec => set_ua (set_ip (set_access r (now s1)) (q_addr q)) (q_ua q))
                with (book (now s1) (q_addr q) (q_ua q)).
              split; cbn [fst snd].
              ** intros k' H1 H2. rewrite hupd_pv_other; [apply Pv|].
                 intro Hck. pose proof (Inv_cached_id s1 k' o ob HI1 Hck Hg1) as E. congruence.
              ** intros o' H. injection H as <-.
                 exists (mkObj (o_id ob) (book (now s1) (q_addr q) (q_ua q) (o_rec ob))).
                 split; [apply hget_hupd_same; exact Hg1|]. split; [cbn [o_rec]; apply pcont_book|].
                 cbn [o_id]. intros p Hp.
                 destruct (book_pv s1 o ob (now s1) (q_addr q) (q_ua q) (o_id ob) Hg1) as [H|H]; rewrite H in Hp.
                 --- injection Hp as <-. apply okp_same.
                 --- rewrite Hid, Hpv1 in Hp. injection Hp as <-. exact Hokp.
      * (* anomaly or idle too long: destroyed, perhaps a new session *)
        unfold destroy. rewrite Hg1, Hid.
        destruct (cache_delete_eff s1 k HI1 HG1) as (Hok & HI2 & _ & _ & _ & _ & _ & Fu & _).
        destruct (cache_delete_pv s1 k (inv_plan _ _ HI1)) as (_ & Dk & _).
        destruct (cache_delete s1 k) as [s2 ok]. cbn [fst snd] in *. subst ok. cbn [negb].
        pose proof (tail_pv s s2 q ([] ++ [CkDelete]) HI2) as HT. cbn [app] in HT |- *.
        apply HT; [congruence|].
        intros k' H1 H2. rewrite Dk by (rewrite Eq in H1; congruence). apply Pv.
    + apply tail_pv; auto.
  - cbv beta iota. apply tail_pv; auto.
Qed.

(* the body of a request step *)
Lemma req_body_pv s1 q script s3 rc st0 sr fin cks :
  Inv noex s1 -> GR s1 ->
  (forall k, q_cookie q = CKey k ->
     (forall dd, ~ In (dd, k) (pending s1)) /\ (view s1 k = None \/ exists d, view s1 k = Some (None, d))) ->
  req_body s1 q script = (s3, rc, st0, sr, fin, cks) ->
  (forall k, CKey k <> q_cookie q -> key_drawn s1 k -> pv s3 k = None \/ pv s3 k = pv s1 k) /\
  (st0 <> None -> forall id', apply_cookies (q_cookie q) cks = CKey id' ->
     forall p, pv s3 id' = Some p -> okp (c_acceptip (conf s1)) (c_acceptua (conf s1)) (q_addr q) (q_ua q) p).
Proof.
  intros HI HG Hjar. unfold req_body, HistInv3.req_body.
  pose proof (start_eff s1 q HI HG Hjar) as HS. pose proof (start_pv s1 q HI HG Hjar) as HP.
  destruct (start s1 q) as [[s2 res] cks0]. unfold start_post in HS. unfold pv_post in HP. cbn [fst snd] in *.
  destruct HS as (HI2 & HG2 & Hc2 & Hu2 & _ & _ & Hres). destruct HP as (Pk & Po).
  destruct (fire_due_eff s2 HI2 HG2) as (HI2' & HG2' & _ & _ & Fu & _).
  assert (Pk2 : forall k, CKey k <> q_cookie q -> key_drawn s1 k -> pv (fire_due s2) k = None \/ pv (fire_due s2) k = pv s1 k).
  { intros k H1 H2. destruct (fire_due_pv_view s2 k (inv_plan _ _ HI2)) as [H|H]; [left; exact H|].
    right. rewrite H. apply Pk; assumption. }
  destruct res as [[o|]|e|e]; cbn [start_res] in Hres.
  - destruct Hres as (id & d0 & HD & Hck0 & Horg).
    assert (HD' : hand (fire_due s2) o id d0) by (apply hand_fire_due; assumption).
    pose proof (ownp_fire_due _ _ _ _ s2 o (inv_plan _ _ HI2) (Po o eq_refl)) as Po2.
    destruct (run_script_pv (c_acceptip (conf s1)) (c_acceptua (conf s1)) (q_addr q) (q_ua q) script
                (fire_due s2) o id d0 (had_cookie q) HI2' HG2' HD') as (Rk & Ro).
    destruct (run_script (fire_due s2) o (had_cookie q) script) as [[s3' sr'] cks'] eqn:Hr. cbn [fst] in *.
    intros [= <- <- <- <- <- <-].
    destruct (run_script_eff script (fire_due s2) o id d0 _ s3' sr' cks' HI2' HG2' HD' Hr)
      as (_ & _ & _ & _ & gfin & U & _ & _ & _ & Hfin).
    split.
    + intros k H1 H2.
      assert (Hk : k <> id).
      { intros ->. destruct Horg as [[Hn _]|(k0 & Hq & _ & [->|Hn])]; [contradiction | | contradiction].
        apply H1. symmetry. exact Hq. }
      assert (Hk2 : key_drawn (fire_due s2) k) by (apply (key_drawn_mono s1); [lia | exact H2]).
      destruct (Rk k Hk Hk2) as [H|H]; [left; exact H|]. rewrite H. apply Pk2; assumption.
    + intros _ id' Hjar' p Hp. rewrite apply_cookies_app, Hck0 in Hjar'.
      destruct gfin as [d'|]; [|congruence].
      destruct Hfin as (id2 & HD3 & Hck3 & _). assert (id2 = id') by congruence. subst id2.
      destruct (Ro Po2) as (ob3 & Hg3 & _ & Hok3).
      destruct HD3 as (ob3' & Hg3' & Hid3 & _). assert (ob3' = ob3) by congruence. subst ob3'.
      apply Hok3. rewrite Hid3. exact Hp.
  - intros [= <- <- <- <- <- <-]. split; [exact Pk2|]. intro H. contradiction.
  - intros [= <- <- <- <- <- <-]. split; [exact Pk2|]. intro H. contradiction.
  - contradiction.
Qed.
