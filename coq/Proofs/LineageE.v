(* Round 4, task R4(a), C07: the persistence calls of a request step respect the
   lineage - part 1: the notions and the building blocks.

   For a set D of IDs (the lineage of an ended session):
   K D k r        what may be written under ID k: if k is in D, only a
                  replaced-ID record naming an ID of D; and a replaced-ID record
                  names a generated ID with a larger ordinal than k (the
                  store-side of RWs of HistLift4.v). K reads only the reference
                  field of r.
   EL D e         the event e is fine: every save (successful or not) writes a
                  record satisfying K under its key. Loads, deletions, draws: no
                  condition.
   evs_ok D s s'  the call that led from s to s' appended events (CrashFault.ext:
                  store and graves of s' are those of s with the events replayed)
                  all of which satisfy EL D.

   From a state satisfying the invariant Gb b (Q1 D) (G of Lineage.v for any heap
   mark b, HistLiftB.v; between API operations) every building block of the model is evs_ok: cache.Get, cache.Set
   of an object whose record may be written under its ID, cache.Delete, creation,
   RegenerateID, a direct save, following replaced-ID records, the clean-up pass,
   LogOut(userID). The safe-save lemmas of CrashFault2/3/4.v (arbitrary fault
   plans) do the work inside each call, flush by flush.

   No axioms; standard library only. *)
From Sessions Require Import Model.Base Model.Sess Model.Hist Proofs.SessDefs
  Proofs.HistInv Proofs.HistInv2 Proofs.HistInv3 Proofs.HistLift Proofs.HistLift2 Proofs.HistLift3
  Proofs.HistLift4 Proofs.HistLiftB Proofs.Lineage Proofs.Lineage2.
From Sessions Require Proofs.CrashFault Proofs.CrashFault2 Proofs.CrashFault3 Proofs.CrashFault4.
From Coq Require Import Lia.

Section Ev.
  Variable hb : nat.    (* the heap mark *)
  Variable D : key -> Prop.
  Notation Q1 := (Q1 D).

  Definition K (k : key) (r : rec) : Prop :=
    (D k -> exists t, r_ref r = Some t /\ D t) /\
    (forall x, r_ref r = Some x -> exists m, x = KGen m /\ forall j, k = KGen j -> (j < m)%N).

  Definition EL (e : ev) : Prop := match e with EvSave k r _ => K k r | _ => True end.

  Definition evs_ok (s s' : st) : Prop := exists l, CrashFault.ext s s' l /\ Forall EL l.

  Lemma K_ref k r r' : r_ref r' = r_ref r -> K k r -> K k r'.
  Proof. intros E H. unfold K. rewrite E. exact H. Qed.

  Lemma K_codec cf k r : K k r -> K k (codec cf r).
  Proof. apply K_ref. reflexivity. Qed.
  Lemma K_access k r t : K k r -> K k (set_access r t).
  Proof. apply K_ref. reflexivity. Qed.
  Lemma K_created k r t : K k r -> K k (set_created r t).
  Proof. apply K_ref. reflexivity. Qed.
  Lemma K_user k r u : K k r -> K k (set_user r u).
  Proof. apply K_ref. reflexivity. Qed.

  Lemma K_sess k r : ~ D k -> r_ref r = None -> K k r.
  Proof. intros Hn Hr. split; [intro H; contradiction | intros x Hx; rewrite Hr in Hx; discriminate]. Qed.

  Lemma QK_EL e : CrashFault2.QK K e -> EL e.
  Proof. intros (_ & _ & H). destruct e; try exact Logic.I. cbn [EL]. eapply H. reflexivity. Qed.

  Lemma QKs_EL l : Forall (CrashFault2.QK K) l -> Forall EL l.
  Proof. apply Forall_impl. exact QK_EL. Qed.

  Lemma evs_ok_refl s : evs_ok s s.
  Proof. exists []. split; [apply CrashFault.ext_refl | constructor]. Qed.

  Lemma evs_ok_trans s1 s2 s3 : evs_ok s1 s2 -> evs_ok s2 s3 -> evs_ok s1 s3.
  Proof.
    intros (l1 & X1 & H1) (l2 & X2 & H2). exists (l1 ++ l2).
    split; [eapply CrashFault.ext_trans; eassumption | apply Forall_app; split; assumption].
  Qed.

  Lemma evs_ok_mem s s' : CrashFault.ext s s' [] -> evs_ok s s'.
  Proof. intro X. exists []. split; [exact X | constructor]. Qed.

  Lemma evs_ok_hupd s o f : evs_ok s (hupd s o f).
  Proof. apply evs_ok_mem. apply CrashFault.ext_hupd. Qed.

  (* ------------------------------------------------ what G gives *)

  Lemma G_cok base s : Gb hb Q1 base s -> CrashFault4.cok s.
  Proof.
    intros (I & _) k o ob Hin Ho.
    pose proof (CrashFault.NoDup_lookup _ _ _ (i_ndc _ _ _ _ _ I) Hin) as Hl.
    destruct (i_cok _ _ _ _ _ I k o Hl) as (ob' & Ho' & [E|[]]). congruence.
  Qed.

  Lemma sref_K s k x : QD D s -> RWs s -> sref s k = Some x -> forall r, r_ref r = x -> K k r.
  Proof.
    intros Hq Hw Hs r Hr. split.
    - intro Hk. destruct (QD_found D s k x Hq Hk Hs) as (t & -> & Ht). exists t. split; assumption.
    - intros y Hy. rewrite Hr in Hy. subst x. rewrite Hy in Hs. destruct (Hw k y Hs) as (m & -> & _ & Hj). exists m. split; [reflexivity | exact Hj].
  Qed.

  Lemma G_J base s : Gb hb Q1 base s -> CrashFault2.J K s.
  Proof.
    intros (I & Kc & _ & [[Hw _] Hq]). split; [|split].
    - intros k o Hin. pose proof (CrashFault.NoDup_lookup _ _ _ (i_ndc _ _ _ _ _ I) Hin) as Hl.
      destruct (i_cok _ _ _ _ _ I k o Hl) as (ob & Ho & _). eapply hget_Some_lt. exact Ho.
    - intros k o ob Hin Ho. pose proof (CrashFault.NoDup_lookup _ _ _ (i_ndc _ _ _ _ _ I) Hin) as Hl.
      exact (sref_K s k _ Hq Hw (Kc k o ob Hl Ho) _ eq_refl).
    - intros k r Hl. exact (sref_K s k _ Hq Hw (sref_lookup _ _ _ Hl) _ eq_refl).
  Qed.

  (* the next ID is not in D *)
  Lemma G_fresh base s : Gb hb Q1 base s -> ~ D (KGen (supply s)).
  Proof. intros (_ & _ & _ & [_ Hq]). apply (QD_nfresh D s _ Hq). lia. Qed.

  (* the handler's session may be written under its ID, and that ID is drawn *)
  Lemma hg_K base s o ob : Gb hb Q1 base s -> hg s o -> hget s o = Some ob ->
    K (o_id ob) (o_rec ob) /\ ~ D (o_id ob) /\ key_drawn s (o_id ob).
  Proof.
    intros Hg (ob' & Ho' & Hr & Hs) Ho. rewrite Ho in Ho'. injection Ho' as <-.
    pose proof Hg as (I & _ & _ & [_ Hq]).
    assert (Hn : ~ D (o_id ob)) by exact (QD_nsess D s _ Hq Hs).
    split; [apply K_sess; assumption|]. split; [exact Hn|].
    unfold sref in Hs. destruct (lookup (store s) (o_id ob)) as [r|] eqn:Hl; [|discriminate].
    apply lookup_In in Hl. apply (i_fs _ _ _ _ _ I _ _ Hl).
  Qed.

  (* ------------------------------------------------ the building blocks *)

  Lemma E_cache_get base s k s' r : Gb hb Q1 base s -> cache_get s k = (s', r) -> evs_ok s s'.
  Proof.
    intros Hg E. destruct (CrashFault2.cache_get_safe K K_codec s k s' r (G_J _ _ Hg) E) as (l & X & HQ & _).
    exists l. split; [exact X | apply QKs_EL; exact HQ].
  Qed.

  Lemma E_cache_delete s k s' b : cache_delete s k = (s', b) -> evs_ok s s'.
  Proof.
    unfold cache_delete. intro E. apply CrashFault.p_delete_spec in E. destruct E as (_ & X & _).
    exists ([] ++ [EvDelete k b]). split; [eapply CrashFault.ext_trans; [apply CrashFault.ext_set_cache | exact X]|].
    repeat constructor.
  Qed.

  Lemma E_cache_set base s o ob s' b : Gb hb Q1 base s -> hget s o = Some ob -> K (o_id ob) (o_rec ob) ->
    cache_set s o = (s', b) -> evs_ok s s'.
  Proof.
    intros Hg Ho HK E.
    destruct (CrashFault2.cache_set_safe K K_codec K_access s o ob s' b (G_J _ _ Hg) Ho E)
      as (l & X & HQ & _ & _ & _ & _ & _ & _ & HJ & _).
    destruct (HJ HK) as [_ HQp].
    exists (l ++ [CrashFault2.prim_save s ob b]). split; [exact X|].
    apply Forall_app. split; [apply QKs_EL; exact HQ | constructor; [apply QK_EL; exact HQp | constructor]].
  Qed.

  Lemma E_save_direct s o ob s' r : hget s o = Some ob -> K (o_id ob) (o_rec ob) ->
    save_direct s o = (s', r) -> evs_ok s s'.
  Proof.
    intros Ho HK. unfold save_direct. rewrite Ho.
    destruct (p_save s (o_id ob) (o_rec ob)) as [s1 ok] eqn:E. intro E'. injection E' as <- _.
    apply CrashFault.p_save_spec in E. destruct E as (_ & X & _).
    eexists. split; [exact X|]. constructor; [|constructor]. cbn [EL]. apply K_codec. exact HK.
  Qed.

  Lemma E_regenerate base s o s' res cks : Gb hb Q1 base s -> hg s o -> regenerate s o = (s', res, cks) -> evs_ok s s'.
  Proof.
    intros Hg Hh E. pose proof Hh as (ob & Ho & Hr & Hs). pose proof Hg as (I & _).
    destruct (hg_K _ _ _ _ Hg Hh Ho) as (HK & HnD & Hkd).
    assert (Hnc : forall o', ~ In (KGen (supply s), o') (cache s)).
    { intros o' Hin. destruct (i_fc _ _ _ _ _ I _ _ Hin) as [Hk _]. cbn [kd] in Hk. lia. }
    assert (HKn : K (KGen (supply s)) (o_rec ob)) by (apply K_sess; [exact (G_fresh _ _ Hg) | exact Hr]).
    destruct (CrashFault3.regenerate_safe K K K_codec K_access K_created K_codec K_access K_created
                s o ob s' res cks (G_J _ _ Hg) Ho E Hnc HKn HKn (fun _ _ _ H => H)) as (l1 & b1 & HQ1 & HK1 & _ & Hcase).
    cbv zeta in Hcase.
    destruct Hcase as [(_ & X & _)|(_ & l2 & rr & b2 & HQ2 & Hrr & X & _)].
    - eexists. split; [exact X|]. constructor; [exact Logic.I|].
      apply Forall_app. split; [apply QKs_EL; exact HQ1 | constructor; [exact HK1 | constructor]].
    - eexists. split; [exact X|]. constructor; [exact Logic.I|].
      apply Forall_app. split; [apply QKs_EL; exact HQ1|]. constructor; [exact HK1|].
      apply Forall_app. split; [apply QKs_EL; exact HQ2|]. constructor; [|constructor].
      cbn [EL]. split; [intro HD; contradiction|].
      intros x Hx. rewrite Hrr in Hx. injection Hx as <-. exists (supply s). split; [reflexivity|].
      intros j Hj. unfold key_drawn in Hkd. rewrite Hj in Hkd. exact Hkd.
  Qed.

  Lemma E_create base s q s' res cks : Gb hb Q1 base s -> create_session s q = (s', res, cks) -> evs_ok s s'.
  Proof.
    intros Hg E. pose proof Hg as (I & _). assert (F : ffnd s) by (eapply inv_ffnd; exact I).
    rewrite (create_session_ff s q F) in E. injection E as <- _ _.
    (* events: the draw, then cache.Set of the new object *)
    set (s1 := drawn1 s). set (s2 := fst (halloc s1 (newobj s q))).
    assert (X1 : CrashFault.ext s s1 [EvDraw (supply s)]) by apply (CrashFault.gen_id_spec s).
    assert (HJ2 : CrashFault2.J K s2).
    { apply CrashFault2.J_halloc. eapply CrashFault2.J_same; [| | |exact (G_J _ _ Hg)]; reflexivity. }
    assert (H2 : hget s2 (length (heap s)) = Some (newobj s q)) by (unfold s2, s1; rewrite hget_halloc; sst; rewrite Nat.eqb_refl; reflexivity).
    assert (F2 : ffnd s2) by exact F.
    pose proof (cache_set_ff s2 _ _ F2 H2) as E2.
    destruct (CrashFault2.cache_set_safe K K_codec K_access s2 _ _ _ _ HJ2 H2 E2)
      as (l & X & HQ & _ & _ & _ & _ & _ & _ & HJ & _).
    assert (HKn : K (KGen (supply s)) (o_rec (newobj s q))) by (apply K_sess; [exact (G_fresh _ _ Hg) | reflexivity]).
    destruct (HJ HKn) as [_ HQp].
    eexists. split.
    - eapply CrashFault.ext_trans; [exact X1|]. eapply CrashFault.ext_trans; [apply CrashFault.ext_halloc | exact X].
    - constructor; [exact Logic.I|]. cbn [app]. apply Forall_app.
      split; [apply QKs_EL; exact HQ | constructor; [apply QK_EL; exact HQp | constructor]].
  Qed.

  Lemma E_fire : forall l s s' rest, fire s l = (s', rest) -> evs_ok s s'.
  Proof.
    induction l as [|[due k] t IH]; intros s s' rest E; cbn [fire] in E.
    - injection E as <- _. apply evs_ok_refl.
    - destruct (due <=? now s)%Z.
      + destruct (cache_delete s k) as [s1 b] eqn:Ed. eapply evs_ok_trans; [exact (E_cache_delete _ _ _ _ Ed) | exact (IH _ _ _ E)].
      + destruct (fire s t) as [s1 r1] eqn:Ef. injection E as <- _. exact (IH _ _ _ Ef).
  Qed.

  Lemma E_fire_due s : evs_ok s (fire_due s).
  Proof.
    unfold fire_due. destruct (fire (set_pending s []) (pending s)) as [s1 rest] eqn:E.
    eapply evs_ok_trans; [apply evs_ok_mem; apply CrashFault.ext_set_pending|].
    eapply evs_ok_trans; [exact (E_fire _ _ _ _ E) | apply evs_ok_mem; apply CrashFault.ext_set_pending].
  Qed.

  (* following replaced-ID records *)
  Lemma E_follow base : forall fuel s o lk, Gb hb Q1 base s -> hok hb ND s o -> sc s o ->
    evs_ok s (fst (follow fuel s o lk)).
  Proof.
    induction fuel as [|f IH]; intros s o lk Hg Hok Hsc; pose proof Hok as [_ [ob [Ho _]]]; cbn [follow]; rewrite Ho.
    - destruct (r_ref (o_rec ob)); apply evs_ok_refl.
    - destruct (r_ref (o_rec ob)) as [t|] eqn:Hr; [|apply evs_ok_refl].
      pose proof Hg as (I & Kc & _).
      destruct (cache_get_inv _ _ _ _ _ t I) as (s1 & r & E & I1 & Hres).
      destruct (cache_get_qt _ _ _ _ t I Kc) as (Qt & K1 & Hobj).
      pose proof (E_cache_get _ _ _ _ _ Hg E) as Ev1. rewrite E in *. cbn [fst snd] in *.
      assert (G1 : Gb hb Q1 base s1) by (eapply (Gb_qt hb Q1 (Q1_qt D)); eassumption).
      destruct r as [o'|]; [|exact Ev1].
      destruct Hres as [Hbo (ob' & Ho' & _ & Hn & _)]. destruct (Hobj o' eq_refl) as (ob2 & Ho2 & Hid & Hs).
      eapply evs_ok_trans; [exact Ev1|]. apply IH; [exact G1 | split; [exact Hbo | exists ob'; split; [exact Ho' | intros []]]|].
      exists ob2. split; [exact Ho2 | rewrite Hid; exact Hs].
  Qed.

  (* LogOut(userID) (also inside an exclusive LogIn) *)
  Lemma E_logout_user base s u s' r : Gb hb Q1 base s -> logout_user s u = (s', r) -> evs_ok s s'.
  Proof.
    intros Hg E.
    destruct (CrashFault4.logout_user_safe K K_codec K_access K_user s u s' r (G_J _ _ Hg) (G_cok _ _ Hg) E) as (l & X & HQ & _).
    exists l. split; [exact X | apply QKs_EL; exact HQ].
  Qed.
  (* RefreshUser(user) *)
  Lemma E_refresh_user base s u s' r : Gb hb Q1 base s -> refresh_user s u = (s', r) -> evs_ok s s'.
  Proof.
    intros Hg E. unfold refresh_user in E. destruct (p_usersessions s (fst u)) as [s1 lst] eqn:EU.
    apply CrashFault.p_usersessions_spec in EU. destruct EU as ((Hh & Hca & _) & Hst & _ & ok & X & _).
    assert (Ev1 : evs_ok s s1) by (exists [EvUserSessions (fst u) ok]; split; [exact X | repeat constructor]).
    destruct lst as [ids|]; [|injection E as <- _; exact Ev1].
    assert (HJ1 : CrashFault2.J K s1) by (eapply CrashFault2.J_same; [exact Hh | exact Hca | exact Hst | exact (G_J _ _ Hg)]).
    assert (Hc1 : CrashFault4.cok s1).
    { intros k0 o0 ob0 H H0. rewrite Hca in H. unfold hget in H0. rewrite Hh in H0. exact (G_cok _ _ Hg k0 o0 ob0 H H0). }
    destruct (CrashFault4.each_user_session_safe K K_codec K_access K_user ids (Some u) s1 s' r HJ1 Hc1 E) as (l & X2 & HQ & _).
    eapply evs_ok_trans; [exact Ev1|]. exists l. split; [exact X2 | apply QKs_EL; exact HQ].
  Qed.
End Ev.
