(* C05: replaced-ID records along histories with user-wide calls. Part 3: the
   stale user index. GA: every ID the store's index of deleted IDs (graves)
   holds was drawn and is not stored. Kept by every fault-free operation: an ID
   that was drawn and is absent from store and cache is never saved under again
   (PF's invariant with that ID in the dead set; the handler's session is stored,
   hence not dead), and an ID enters graves when it leaves the store. With GA the
   hypothesis GR of Proofs/C05RUser2.v holds. *)
From Sessions Require Import Model.Base Model.Sess Model.Hist Proofs.SessDefs Proofs.HistInv Proofs.HistInv2 Proofs.HistInv3
  Proofs.HistLift Proofs.HistLift2 Proofs.HistLift3 Proofs.HistLift4 Proofs.C05RUser Proofs.C05RUser2.
From Coq Require Import Lia.

Definition GA (s : st) : Prop := forall k g, In (k, g) (graves s) -> kd (supply s) k /\ sref s k = None.

Lemma GA_GR s : GA s -> GR s.
Proof. intros H k v Hin t Hs. destruct (H k _ Hin) as [_ E]. rewrite E in Hs. discriminate. Qed.

(* the IDs that are drawn and absent from store and cache *)
Definition Zs (s : st) : key -> Prop :=
  fun k => kd (supply s) k /\ lookup (store s) k = None /\ lookup (cache s) k = None.

Lemma sref_None s k : sref s k = None <-> lookup (store s) k = None.
Proof. unfold sref. destruct (lookup (store s) k); cbn; split; congruence. Qed.

(* PF's invariant continues with all of them in the dead set *)
Lemma inv_dead_all b base s : inv b base NX ND s -> inv b (supply s, evs s) NX (Zs s) s.
Proof.
  intro I. dinv I. constructor; try assumption.
  - exists []. cbn [fst snd app draws wf_evs]. split; [reflexivity|]. split; [exact Logic.I | lia].
  - intros k (Hk & _). exact Hk.
  - intros k (_ & Hs & _). exact Hs.
  - intros k k' o ob (_ & _ & Hcn) Hl Ho. destruct (Hc k' o Hl) as [ob' [Ho' [Hid|[]]]].
    assert (ob' = ob) by congruence. subst ob'. split; [intro E; subst k'; congruence | rewrite Hid; intro E; subst k'; congruence].
Qed.

(* graved IDs are among them, given that cached IDs are stored *)
Lemma GA_Zs s k g : Kcs s -> cache_valid s -> GA s -> In (k, g) (graves s) -> Zs s k.
Proof.
  intros K V H Hin. destruct (H k g Hin) as [Hk Hs]. split; [exact Hk|]. split; [apply sref_None; exact Hs|].
  destruct (lookup (cache s) k) as [o|] eqn:Hl; [|reflexivity]. destruct (hget s o) as [ob|] eqn:Ho; [|exfalso; eapply V; eauto].
  rewrite (K k o ob Hl Ho) in Hs. discriminate.
Qed.

(* an operation that leaves graves alone and keeps PF's invariant for any dead
   set keeps GA *)
Lemma GA_via b base s s' : inv b base NX ND s -> Kcs s -> GA s -> graves s' = graves s ->
  (exists base', inv b base' NX (Zs s) s') -> GA s'.
Proof.
  intros I K H Hg [base' I'] k g Hin. rewrite Hg in Hin.
  pose proof (GA_Zs s k g K (inv_cache_valid _ _ _ _ _ I) H Hin) as Hz.
  split; [apply (i_Dd _ _ _ _ _ I'); exact Hz | apply sref_None; apply (i_Ds _ _ _ _ _ I'); exact Hz].
Qed.

(* a deletion *)
Lemma GA_cdel b base s k : inv b base NX ND s -> GA s -> GA (fst (cache_delete s k)).
Proof.
  intros I H. rewrite cache_delete_ff by apply (i_plan _ _ _ _ _ I). cbn [fst]. unfold deleted. intros k' g Hin. sst.
  assert (Hold : In (k', g) (graves s) -> kd (supply s) k' /\ sref (log (set_graves (set_store (set_cache s (remove (cache s) k)) (remove (store s) k))
            (match lookup (store s) k with Some r => upsert (graves s) k (match r_user r with Some (u, _) => Some u | None => None end) | None => graves s end)) (EvDelete k true)) k' = None).
  { intro Ho. destruct (H k' g Ho) as [Hk Hs]. split; [exact Hk|]. apply sref_None. sst. apply sref_None in Hs.
    destruct (key_eq_dec k' k) as [->|Hne]; [apply lookup_remove_same | rewrite lookup_remove_other by exact Hne; exact Hs]. }
  destruct (lookup (store s) k) as [r|] eqn:El; [|exact (Hold Hin)].
  apply In_upsert in Hin. destruct Hin as [[-> _]|Hin]; [|exact (Hold Hin)].
  split; [apply (i_fs _ _ _ _ _ I k r); apply lookup_In; exact El|]. apply sref_None. sst. apply lookup_remove_same.
Qed.

(* ---- graves is left alone by everything but deletions (fault-free) ---- *)

Lemma graves_cache_get s k : ffnd s -> graves (fst (cache_get s k)) = graves s.
Proof.
  intro F. pose proof (cache_get_ff s k (proj1 F)) as Hff. destruct (lookup (cache s) k); [rewrite Hff; reflexivity|].
  destruct Hff as [es [_ Hff]]. destruct (lookup (store s) k) as [r0|]; rewrite Hff; [|reflexivity]. cbn [fst].
  rewrite loaded_eq. cbv zeta. destruct (c_maxcache (conf s) =? 0)%Z; [reflexivity|]. sst.
  destruct (compact_frame (set_heap (set_evs s (es ++ evs s)) (heap s ++ [mkObj k r0])) 1 F) as (_ & _ & _ & _ & _ & _ & ->). reflexivity.
Qed.

Lemma graves_cset s o ob : ffnd s -> graves (cset s o ob) = graves s.
Proof. intro F. apply (cset_frame s o ob F). Qed.

Lemma graves_hupd s o f : graves (hupd s o f) = graves s.
Proof. unfold hupd. destruct (hget s o); reflexivity. Qed.

Lemma graves_eus b base D u : forall ids s, inv b base NX D s -> graves (fst (each_user_session s ids u)) = graves s.
Proof.
  induction ids as [|k t IH]; intros s I; cbn [each_user_session]; [reflexivity|].
  destruct (cache_get_inv _ _ _ _ _ k I) as (s1 & r & E & I1 & Hr).
  pose proof (graves_cache_get s k (inv_ffnd _ _ _ _ _ I)) as G1. rewrite E in *. cbn [fst] in G1.
  destruct r as [o|].
  - destruct Hr as [Hbo [ob (Ho & _ & HnD & _)]].
    assert (H1 : hok b D s1 o) by (split; [exact Hbo | exists ob; split; assumption]).
    destruct (inv_hupd_hok _ _ _ _ o (fun r => set_user r u) I1 H1) as [I2 H2]; [reflexivity|].
    destruct H2 as [_ [ob2 [Ho2 HnD2]]].
    assert (F2 : ffnd (hupd s1 o (fun r => set_user r u))) by (eapply inv_ffnd; exact I2).
    rewrite (cache_set_ff _ _ _ F2 Ho2). cbv iota beta.
    rewrite IH by (apply inv_cset; assumption). rewrite graves_cset by exact F2. rewrite graves_hupd. exact G1.
  - rewrite IH by exact I1. exact G1.
Qed.

Lemma graves_logout_user b base D s u : inv b base NX D s -> graves (fst (logout_user s u)) = graves s.
Proof.
  intro I. unfold logout_user. rewrite p_usersessions_ff by apply (i_plan _ _ _ _ _ I).
  rewrite (graves_eus b base D) by (apply inv_quiet; [repeat constructor | exact I]). reflexivity.
Qed.

Lemma graves_refresh_user b base D s u : inv b base NX D s -> graves (fst (refresh_user s u)) = graves s.
Proof.
  intro I. unfold refresh_user. rewrite p_usersessions_ff by apply (i_plan _ _ _ _ _ I).
  rewrite (graves_eus b base D) by (apply inv_quiet; [repeat constructor | exact I]). reflexivity.
Qed.

Lemma graves_regen s o ob : ffnd s -> graves (regen s o ob) = graves s.
Proof.
  intro F. unfold regen. sst. unfold rg_s4.
  assert (F1 : ffnd (rg_s1 s o ob)) by exact F.
  assert (F2 : ffnd (rg_s2 s o ob)) by (apply cset_ffnd; exact F1).
  assert (F3 : ffnd (rg_s3 s o ob)) by (unfold rg_s3; apply ffnd_halloc; exact F2).
  rewrite graves_cset by exact F3. unfold rg_s3, halloc. sst. unfold rg_s2. rewrite graves_cset by exact F1. reflexivity.
Qed.

Lemma graves_created s q : ffnd s -> graves (created s q) = graves s.
Proof.
  intro F. unfold created. rewrite graves_cset; [reflexivity|]. apply ffnd_halloc. exact F.
Qed.

Lemma GA_same s s' : graves s' = graves s -> store s' = store s -> supply s' = supply s -> GA s -> GA s'.
Proof.
  intros Hg Hs Hn H k g Hin. rewrite Hg in Hin. destruct (H k g Hin) as [A B]. rewrite Hn. split; [exact A|].
  unfold sref in *. rewrite Hs. exact B.
Qed.

Lemma GA_hupd s o f : GA s -> GA (hupd s o f).
Proof. apply GA_same; unfold hupd; destruct (hget s o); reflexivity. Qed.

(* the clean-up pass *)
Lemma GA_fire b base : forall l s, inv b base NX ND s -> GA s -> GA (fst (fire s l)).
Proof.
  induction l as [|[due k] t IH]; intros s I H; cbn [fire]; [exact H|].
  destruct (due <=? now s)%Z.
  - pose proof (GA_cdel _ _ s k I H) as H1. pose proof (inv_cache_delete _ _ _ _ s k I) as I1.
    destruct (cache_delete s k) as [s1 x]. cbn [fst] in *. apply IH; assumption.
  - specialize (IH s I H). destruct (fire s t) as [s1 rest]. exact IH.
Qed.

Lemma GA_fire_due b base s : inv b base NX ND s -> GA s -> GA (fire_due s).
Proof.
  intros I H. unfold fire_due.
  assert (I0 : inv b base NX ND (set_pending s [])) by (apply inv_set_pending; [exact I | intros d k []]).
  assert (H0 : GA (set_pending s [])) by (eapply GA_same; [| | |exact H]; reflexivity).
  pose proof (GA_fire _ _ (pending s) _ I0 H0) as H1.
  destruct (fire (set_pending s []) (pending s)) as [s' rest]. cbn [fst] in H1.
  eapply GA_same; [| | |exact H1]; reflexivity.
Qed.

(* ---- handler operations ---- *)

Lemma graves_save_direct s o : plan s = [] -> graves (fst (save_direct s o)) = graves s.
Proof. intro Hp. unfold save_direct. destruct (hget s o); [rewrite p_save_ff by exact Hp|]; reflexivity. Qed.

Lemma graves_logout s o : plan s = [] -> graves (fst (logout s o)) = graves s.
Proof.
  intro Hp. unfold logout. destruct (hget s o) as [ob|]; [|reflexivity]. destruct (r_user (o_rec ob)); [|reflexivity].
  rewrite graves_save_direct by (rewrite hupd_plan; exact Hp). apply graves_hupd.
Qed.

Lemma graves_login b base D s o u ex : inv b base NX D s -> hok b D s o ->
  graves (fst (fst (login s o u ex))) = graves s.
Proof.
  intros I H. unfold login.
  assert (Hpre : exists s1, (if ex then logout_user s (fst u) else let '(s0, _) := logout s o in (s0, Ok tt)) = (s1, Ok tt)
                            /\ inv b base NX D s1 /\ hok b D s1 o /\ graves s1 = graves s).
  { destruct ex.
    - destruct (logout_user_inv _ _ _ _ (fst u) I) as (s1 & E & I1 & Hi). exists s1. split; [exact E|].
      split; [exact I1|]. split; [eapply hok_ids; eassumption|].
      pose proof (graves_logout_user _ _ _ s (fst u) I) as G1. rewrite E in G1. exact G1.
    - destruct (logout_inv _ _ _ _ _ I H) as (s1 & E & I1 & Hi). exists s1. rewrite E. split; [reflexivity|].
      split; [exact I1|]. split; [eapply hok_ids; eassumption|].
      pose proof (graves_logout s o (i_plan _ _ _ _ _ I)) as G1. rewrite E in G1. exact G1. }
  destruct Hpre as (s1 & E1 & I1 & H1 & G1). rewrite E1.
  destruct (inv_hupd_hok _ _ _ _ o (fun r => set_user r (Some u)) I1 H1) as [I2 H2]; [reflexivity|].
  pose proof H2 as [Hbo [ob2 [Ho2 HnD2]]].
  assert (F2 : ffnd (hupd s1 o (fun r => set_user r (Some u)))) by (eapply inv_ffnd; exact I2).
  rewrite (cache_set_ff _ _ _ F2 Ho2). cbn [negb].
  assert (I3 : inv b base NX D (cset (hupd s1 o (fun r => set_user r (Some u))) o ob2)) by (apply inv_cset; assumption).
  assert (H3 : hok b D (cset (hupd s1 o (fun r => set_user r (Some u))) o ob2) o).
  { eapply hok_ids; [apply ids_pres_cset; eassumption | exact H2]. }
  pose proof H3 as [_ [ob3 [Ho3 _]]].
  assert (F3 : ffnd (cset (hupd s1 o (fun r => set_user r (Some u))) o ob2)) by (eapply inv_ffnd; exact I3).
  rewrite (regenerate_ff _ _ _ F3 Ho3). cbn [fst].
  rewrite graves_regen by exact F3. rewrite graves_cset by exact F2. rewrite graves_hupd. exact G1.
Qed.

Lemma graves_do_sop b base D s o hc op : inv b base NX D s -> hok b D s o -> op <> SDestroy ->
  graves (fst (fst (do_sop s o hc op))) = graves s.
Proof.
  intros I H Hop. pose proof (i_plan _ _ _ _ _ I) as Hp. pose proof H as [Hbo [ob [Ho HnD]]].
  destruct op as [k v|k|k|k|u ex| | |]; cbn [do_sop]; try congruence.
  - destruct (data_of s o) as [d|]; [|reflexivity].
    pose proof (graves_save_direct (hupd s o (fun r => set_data r (Some (kv_set d k v)))) o) as G1.
    destruct (save_direct _ o) as [s2 r2]. cbn [fst] in *. rewrite G1 by (rewrite hupd_plan; exact Hp). apply graves_hupd.
  - set (s1 := match data_of s o with Some d => hupd s o (fun r => set_data r (Some (kv_del d k))) | None => s end).
    assert (G0 : graves s1 = graves s /\ plan s1 = []).
    { unfold s1. destruct (data_of s o); [split; [apply graves_hupd | rewrite hupd_plan; exact Hp] | split; [reflexivity | exact Hp]]. }
    pose proof (graves_save_direct s1 o (proj2 G0)) as G1. destruct (save_direct s1 o) as [s2 r2]. cbn [fst] in *.
    rewrite G1. apply G0.
  - reflexivity.
  - destruct (data_of s o) as [d|]; [|reflexivity]. destruct (kv_get d k); [|reflexivity].
    pose proof (graves_save_direct (hupd s o (fun r => set_data r (Some (kv_del d k)))) o) as G1.
    destruct (save_direct _ o) as [s2 r2]. cbn [fst] in *. rewrite G1 by (rewrite hupd_plan; exact Hp). apply graves_hupd.
  - pose proof (graves_login _ _ _ s o u ex I H) as G1. destruct (login s o u ex) as [[s1 r1] c1]. exact G1.
  - pose proof (graves_logout s o Hp) as G1. destruct (logout s o) as [s1 r1]. exact G1.
  - rewrite (regenerate_ff _ _ _ (inv_ffnd _ _ _ _ _ I) Ho). cbn [fst]. apply graves_regen. eapply inv_ffnd; exact I.
Qed.

Lemma sop_eq_destroy op : op = SDestroy \/ op <> SDestroy.
Proof. destruct op; (left; reflexivity) || (right; discriminate). Qed.

(* the handle is stored, hence not dead *)
Lemma hg_hok_Zs s0 s o : hg s o -> (forall k, Zs s0 k -> lookup (store s) k = None) -> hok 0 (Zs s0) s o.
Proof.
  intros (ob & Ho & _ & Hs) Hz. split; [lia|]. exists ob. split; [exact Ho|]. intro HZ.
  apply Hz in HZ. apply sref_None in HZ. rewrite HZ in Hs. discriminate.
Qed.

Lemma GA_do_sop base s o hc op : inv 0 base NX ND s -> Kcs s -> hg s o -> GA s ->
  GA (fst (fst (do_sop s o hc op))).
Proof.
  intros I K Hh H. destruct (sop_eq_destroy op) as [->|Hop].
  - cbn [do_sop]. destruct Hh as (ob & Ho & _). rewrite (destroy_ff _ _ _ _ (i_plan _ _ _ _ _ I) Ho). cbn [fst].
    eapply GA_cdel; eassumption.
  - pose proof (inv_dead_all _ _ _ I) as IZ.
    assert (HZ : hok 0 (Zs s) s o) by (apply hg_hok_Zs; [exact Hh | intros k (_ & A & _); exact A]).
    destruct (do_sop_inv _ _ _ _ _ hc op IZ HZ) as (s' & r & cks & E & I' & _).
    pose proof (graves_do_sop _ _ _ s o hc op I (hg_hok _ _ Hh) Hop) as G1. rewrite E in *. cbn [fst] in *.
    eapply GA_via; [exact I | exact K | exact H | exact G1 | eexists; exact I'].
Qed.

(* ---- Start ---- *)

Lemma graves_follow b base D : forall fuel s o lk, inv b base NX D s -> hok b D s o ->
  graves (fst (follow fuel s o lk)) = graves s.
Proof.
  induction fuel as [|f IH]; intros s o lk I [Hbo [ob [Ho HnD]]]; cbn [follow]; rewrite Ho.
  - destruct (r_ref (o_rec ob)); reflexivity.
  - destruct (r_ref (o_rec ob)) as [t|]; [|reflexivity].
    destruct (cache_get_inv _ _ _ _ _ t I) as (s1 & r & E & I1 & Hr).
    pose proof (graves_cache_get s t (inv_ffnd _ _ _ _ _ I)) as G1. rewrite E in *. cbn [fst] in G1.
    destruct r as [o'|]; [|exact G1].
    destruct Hr as [Hbo' [ob' (Ho' & _ & HnD' & _)]]. rewrite IH; [exact G1 | exact I1|].
    split; [exact Hbo' | exists ob'; split; assumption].
Qed.

Lemma GA_created base s q : inv 0 base NX ND s -> Kcs s -> GA s -> GA (created s q).
Proof.
  intros I K H. eapply GA_via; [exact I | exact K | exact H | apply graves_created; eapply inv_ffnd; exact I|].
  eexists. apply (created_inv _ _ _ _ q (inv_dead_all _ _ _ I)).
Qed.

Lemma GA_start_none base s q cks : inv 0 base NX ND s -> Kcs s -> GA s -> GA (fst (fst (start_none s q cks))).
Proof.
  intros I K H. unfold start_none. destruct (q_create q); [|exact H].
  rewrite create_session_ff by (eapply inv_ffnd; exact I). cbn [fst]. eapply GA_created; eassumption.
Qed.

Lemma GA_start_found base c s q k o ob cks :
  inv 0 base NX ND s -> Kcs s -> PRs s -> GA s -> hget s o = Some ob -> o_id ob = k -> sref s k <> None ->
  GA (fst (fst (start_found c s q k o ob cks))).
Proof.
  intros I K P H Ho Hidk Hst. assert (F : ffnd s) by (eapply inv_ffnd; exact I). assert (Hp : plan s = []) by apply F.
  pose proof (inv_dead_all _ _ _ I) as IZ.
  assert (HnZ : ~ Zs s (o_id ob)).
  { rewrite Hidk. intros (_ & A & _). apply Hst. apply sref_None. exact A. }
  destruct (rec_valid c (now s) q (o_rec ob)) eqn:Hv.
  - destruct (r_ref (o_rec ob)) as [t|] eqn:Hr.
    + destruct (sat_add (c_idexpiry c) (c_grace c) <=? since (r_created (o_rec ob)) (now s))%Z eqn:Hb.
      * rewrite sf_backstop; [| exact Hp | exact Hv | unfold isref; rewrite Hr; reflexivity | exact Hb].
        cbn [fst]. eapply GA_cdel; eassumption.
      * rewrite (sf_ref _ _ _ _ _ _ _ t Hv Hr Hb).
        assert (HoZ : hok 0 (Zs s) s o) by (split; [lia | exists ob; split; assumption]).
        destruct (follow_inv 0 _ (Zs s) (S (N.to_nat (supply s))) s o k IZ HoZ) as (s1 & fr & E & I1 & Hfr).
        pose proof (graves_follow 0 _ (Zs s) (S (N.to_nat (supply s))) s o k IZ HoZ) as G1. rewrite E in *. cbn [fst] in G1.
        assert (H1 : GA s1) by (eapply GA_via; [exact I | exact K | exact H | exact G1 | eexists; exact I1]).
        destruct fr as [[o' lk']|e|e]; cbn [fst]; [apply GA_hupd; exact H1 | exact H1 | contradiction].
    + destruct (c_idexpiry c <=? since (r_created (o_rec ob)) (now s))%Z eqn:Ha.
      * rewrite (sf_rotate _ _ _ _ _ _ _ F Ho Hv Hr Ha). cbn [fst]. apply GA_hupd.
        eapply GA_via; [exact I | exact K | exact H | apply graves_regen; exact F|].
        eexists. apply (regen_inv _ _ _ _ _ _ IZ Ho (Nat.le_0_l o) HnZ).
      * destruct (sat_add (c_idexpiry c) (c_grace c) <=? since (r_created (o_rec ob)) (now s))%Z eqn:Hb.
        -- rewrite sf_backstop; [| exact Hp | exact Hv | rewrite Ha; apply andb_false_r | exact Hb].
           cbn [fst]. eapply GA_cdel; eassumption.
        -- rewrite (sf_plain _ _ _ _ _ _ _ Hv Hr Ha Hb). cbn [fst]. apply GA_hupd. exact H.
  - rewrite (sf_invalid _ _ _ _ _ _ _ Hp Ho Hv).
    assert (I1 : inv 0 base NX ND (fst (cache_delete s (o_id ob)))) by (apply inv_cache_delete; exact I).
    pose proof (GA_cdel _ _ s (o_id ob) I H) as H1.
    destruct (cdel_eff s (o_id ob) Hp K P) as (K1 & _).
    destruct (q_create q); [|exact H1].
    rewrite create_session_ff by (eapply inv_ffnd; exact I1). cbn [fst]. eapply GA_created; eassumption.
Qed.

Lemma GA_start base s q : inv 0 base NX ND s -> Kcs s -> PRs s -> GA s -> GA (fst (fst (start s q))).
Proof.
  intros I K P H. rewrite start_eq. destruct (q_cookie q) as [|k|n]; try (eapply GA_start_none; eassumption).
  destruct (cache_get_inv _ _ _ _ _ k I) as (s1 & r & E & I1 & Hr).
  destruct (cache_get_qt _ _ _ _ k I K) as (Q1 & K1 & Hobj).
  destruct (cache_get_inv _ _ _ _ _ k (inv_dead_all _ _ _ I)) as (s1' & r' & E' & IZ1 & _).
  pose proof (graves_cache_get s k (inv_ffnd _ _ _ _ _ I)) as G1.
  rewrite E in *. cbn [fst snd] in *. injection E' as <- <-.
  assert (H1 : GA s1) by (eapply GA_via; [exact I | exact K | exact H | exact G1 | eexists; exact IZ1]).
  pose proof (PRs_qt _ _ Q1 P) as P1.
  destruct r as [o|]; [|eapply GA_start_none; eassumption].
  destruct (Hobj o eq_refl) as (ob & Ho & Hid & Hs). rewrite Ho.
  eapply GA_start_found; try eassumption. rewrite Hs. discriminate.
Qed.
