(* Round 4, task R4(a), C07, part 4: a crash at ANY point of a step - what is
   proved, and the exact obligation that is left.

   ev_lin D e        the persistence call e respects the lineage D: if it is a
                     successful save under an ID of D, the saved record is a
                     replaced-ID record naming an ID of D. (Deletions, loads,
                     draws, failed calls: no condition.)
   QDs D stor        the store-side of the lineage invariant (QD of Lineage.v):
                     under an ID of D the store holds nothing, or a replaced-ID
                     record naming an ID of D.
   mid_crash_store   CONDITIONAL: from a world satisfying LN D, a request step
                     that stops after ANY number n of persistence calls, provided
                     every persistence call the step makes when run to completion
                     satisfies ev_lin D: afterwards (cache empty) every ID of D is
                     still drawn and resolves to nothing or to a replaced-ID
                     record naming an ID of D, and the clean-up queue is empty.
   events_statement  the residual obligation (NOT proved; holds in every test of
                     LineageKEx.v): every fault-free request step from a world
                     satisfying LN D makes only persistence calls satisfying
                     ev_lin D. Together with a version of HistLift3.v for an
                     arbitrary heap mark it would give the full statement of
                     Properties/C07K.v.

   No axioms; standard library only. *)
From Sessions Require Import Model.Base Model.Sess Model.Hist Proofs.SessDefs
  Proofs.HistInv Proofs.HistInv2 Proofs.HistInv3 Proofs.HistLift Proofs.HistLift2 Proofs.HistLift3
  Proofs.HistLift4 Proofs.Lineage Proofs.Lineage2 Proofs.Lineage3 Proofs.LineageK Proofs.LineageK2 Proofs.LineageK3.
From Sessions Require Proofs.CrashFault13.
From Coq Require Import Lia.

Section MidCrash.
  Variable D : key -> Prop.

  Definition ev_lin (e : ev) : Prop :=
    match e with
    | EvSave k r true => D k -> exists t, r_ref r = Some t /\ D t
    | _ => True
    end.

  Definition QDs (stor : list (key * rec)) : Prop :=
    forall k, D k -> lookup stor k = None \/ exists r t, lookup stor k = Some r /\ r_ref r = Some t /\ D t.

  Lemma QDs_apply sg e : QDs (fst sg) -> ev_lin e -> QDs (fst (apply_ev sg e)).
  Proof.
    destruct sg as [stor gr]. intros H He. destruct e as [k ok|u ok|k r ok|k ok|u ok|d]; try exact H; cbn [apply_ev].
    - destruct ok; [|exact H]. cbn [fst]. intros k' Hk'. destruct (key_eq_dec k' k) as [->|Hne].
      + right. destruct (He Hk') as (t & Hr & Ht). exists r, t. split; [apply lookup_upsert_same | split; assumption].
      + rewrite lookup_upsert_other by exact Hne. exact (H k' Hk').
    - destruct ok; [|exact H]. cbn [fst]. intros k' Hk'. destruct (key_eq_dec k' k) as [->|Hne].
      + left. apply lookup_remove_same.
      + rewrite lookup_remove_other by exact Hne. exact (H k' Hk').
  Qed.

  Lemma QDs_replay : forall l sg, QDs (fst sg) -> Forall ev_lin l -> QDs (fst (fold_left apply_ev l sg)).
  Proof.
    induction l as [|e l IH]; intros sg H HF; [exact H|]. inversion HF; subst. cbn [fold_left].
    apply IH; [apply QDs_apply; assumption | assumption].
  Qed.

  Lemma QD_QDs s : QD D s -> QDs (store s).
  Proof.
    intros H k Hk. destruct (H k Hk) as [_ [Hn|(t & Hs & Ht)]]; unfold sref in *.
    - left. destruct (lookup (store s) k); [discriminate | reflexivity].
    - right. destruct (lookup (store s) k) as [r|]; [|discriminate]. cbn [option_map] in Hs. injection Hs as Hs.
      exists r, t. auto.
  Qed.

  (* the world a request step leaves when the process stops after n persistence
     calls, in terms of the events of the same step run to completion *)
  Lemma crash_store w r n : rq_crash r = Some n ->
    let s' := w_st (fst (step w (HReq r))) in
    cache s' = [] /\ pending s' = [] /\ (supply (w_st w) <= supply s')%N /\
    store s' = fst (fold_left apply_ev (ev_prefix (ob_evs (snd (step w (HReq (nocrash r))))) n)
                              (store (w_st w), graves (w_st w))).
  Proof.
    intro Hcr. cbv zeta. rewrite <- req_final_evs. unfold req_final, pre_of, req_of, presents.
    rewrite step_req_eq. cbv zeta. rewrite Hcr.
    destruct (req_body _ _ (rq_script r)) as [[[[[s3 rc] st0] sr] fin] cks]. cbn [fst]. sst.
    destruct (fold_left apply_ev _ _) as [stor gr]. unfold restart. cbn [fst w_st]. sst.
    repeat split. lia.
  Qed.

  Theorem mid_crash_store w r n :
    LN D (w_st w) -> rq_crash r = Some n ->
    Forall ev_lin (ob_evs (snd (step w (HReq (nocrash r))))) ->
    pending (w_st (fst (step w (HReq r)))) = [] /\
    forall k, D k ->
      key_drawn (w_st (fst (step w (HReq r)))) k /\
      (L (w_st (fst (step w (HReq r)))) k = None \/
       exists rk t, L (w_st (fst (step w (HReq r)))) k = Some rk /\ r_ref rk = Some t /\ D t).
  Proof.
    intros Hl Hcr Hev. destruct (crash_store w r n Hcr) as (Hc & Hp & Hs & Hst). split; [exact Hp|].
    intros k Hk. pose proof (LN_QD D _ Hl) as Hq. split.
    - destruct (Hq k Hk) as [Hd _]. unfold key_drawn. eapply kd_mono; [exact Hs | exact Hd].
    - unfold L. rewrite Hc. cbn [lookup]. rewrite Hst.
      apply QDs_replay; [exact (QD_QDs _ Hq) | apply CrashFault13.ev_prefix_Forall; exact Hev | exact Hk].
  Qed.
End MidCrash.

(* the obligation that is left (see the header) *)
Definition events_statement : Prop :=
  forall D w r, LN D (w_st w) -> rq_plan r = [] ->
  Forall (ev_lin D) (ob_evs (snd (step w (HReq (nocrash r))))).

(* executable form for a finite set of generated IDs, for the tests *)
Definition ev_linb (ids : list N) (e : ev) : bool :=
  match e with
  | EvSave (KGen n) r true =>
    if existsb (N.eqb n) ids
    then match r_ref r with Some (KGen t) => existsb (N.eqb t) ids | _ => false end
    else true
  | _ => true
  end.

Lemma ev_linb_sound ids e : ev_linb ids e = true -> ev_lin (fun k => exists n, k = KGen n /\ In n ids) e.
Proof.
  destruct e as [k ok|u ok|k r ok|k ok|u ok|d]; try (intros _; exact Logic.I). cbn [ev_linb ev_lin].
  destruct ok; [|destruct k; intros _; exact Logic.I]. destruct k as [n|j]; [|intros _ (m & E & _); discriminate].
  intros H (m & E & Hin). injection E as <-.
  assert (Hex : existsb (N.eqb n) ids = true) by (apply existsb_exists; exists n; split; [exact Hin | apply N.eqb_refl]).
  rewrite Hex in H. destruct (r_ref r) as [[t|j]|]; try discriminate.
  apply existsb_exists in H. destruct H as (x & Hx & Ex). apply N.eqb_eq in Ex. subst x.
  exists (KGen t). split; [reflexivity | exists t; split; [reflexivity | exact Hx]].
Qed.
