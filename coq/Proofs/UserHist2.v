(* C08 at the level of histories, part 2: what was stored about users survives
   the loss of the cache (HDropCache, HRestart) and is what the IDs resolve to
   afterwards (L), and what a later request is handed. *)
From Sessions Require Import Model.Base Model.Sess Model.Hist Proofs.SessDefs
  Proofs.HistInv Proofs.HistInv2 Proofs.HistInv3 Proofs.UserLaws Proofs.UserHist.
From Sessions Require Proofs.LiveHist4 Proofs.LiveHist5 Proofs.LiveHist6 Proofs.LiveHist8 Proofs.RotateLaws6 Proofs.CrashFault3
  Proofs.CrashFault6 Proofs.CrashRestart Proofs.WriteThrough Proofs.WriteThrough5.
From Coq Require Import Lia.
Import LiveHist4.

(* --------------------------------------------------- the cache is lost *)

Definition loses_cache (h : hop) : Prop := h = HDropCache \/ h = HRestart.

Lemma loss_state w h : loses_cache h ->
  let s := w_st w in let s' := w_st (fst (step w h)) in
  store s' = store s /\ cache s' = [] /\ conf s' = conf s /\ now s' = now s /\ plan s' = plan s /\
  heap s' = heap s /\ w_jars (fst (step w h)) = w_jars w /\
  (forall k, L s' k = lookup (store s) k).
Proof. intros [-> | ->]; cbn [step fst w_st w_jars]; repeat split. Qed.

(* a fact about the stored user field of k is, after the loss, a fact about
   what k resolves to *)
Theorem stored_user_survives w h k (P : option user -> Prop) : loses_cache h ->
  (forall rr, lookup (store (w_st w)) k = Some rr -> P (r_user rr)) ->
  forall rr, L (w_st (fst (step w h))) k = Some rr -> P (r_user rr).
Proof.
  intros Hl HP rr E. destruct (loss_state w h Hl) as (_ & _ & _ & _ & _ & _ & _ & HL). rewrite HL in E. exact (HP rr E).
Qed.

Theorem nouser_survives w h k : loses_cache h -> nouser_at (w_st w) k ->
  nouser_at (w_st (fst (step w h))) k.
Proof.
  intros Hl [A _]. destruct (loss_state w h Hl) as (Hs & _ & _ & _ & _ & _ & _ & HL). cbv zeta in *.
  split; [rewrite Hs; exact A | intros rr E; rewrite HL in E; exact (A rr E)].
Qed.

(* with write-through (PB's invariant WT, C09_loss): whatever user ID an ID
   resolved to before the loss it resolves to afterwards — also for sessions
   that were only cached *)
Theorem user_id_survives_wt w h k rr : loses_cache h -> WriteThrough.WT (w_st w) ->
  L (w_st w) k = Some rr ->
  exists rr', L (w_st (fst (step w h))) k = Some rr' /\ CrashFault3.uid rr' = CrashFault3.uid rr /\
              CrashFault3.dat rr' = CrashFault3.dat rr.
Proof.
  intros Hl HW E. pose proof (WriteThrough5.cache_loss _ HW k) as H. rewrite E in H. cbn [option_map] in H.
  assert (HL : L (w_st (fst (step w h))) k = L (set_cache (w_st w) []) k).
  { destruct Hl as [-> | ->]; reflexivity. }
  rewrite HL. destruct (L (set_cache (w_st w) []) k) as [rr'|]; [|discriminate].
  exists rr'. split; [reflexivity|]. apply (f_equal (fun x => match x with Some y => y | None => durable rr' end)) in H. cbn beta iota in H.
  destruct (CrashFault6.durable_content _ _ _ H) as [A B]. split; assumption.
Qed.

(* ---------------------------------- a request whose script ends with LogIn *)

Lemma store_delete_other s k k' : plan s = [] -> k <> k' ->
  lookup (store (fst (cache_delete s k'))) k = lookup (store s) k.
Proof.
  intros Hp Hne. rewrite cache_delete_ff by exact Hp. unfold deleted. cbn [fst]. sst.
  apply lookup_remove_other. exact Hne.
Qed.

Lemma store_fire k : forall l s, plan s = [] -> (forall d, ~ In (d, k) l) ->
  plan (fst (fire s l)) = [] /\ lookup (store (fst (fire s l))) k = lookup (store s) k.
Proof.
  induction l as [|[due k'] t IH]; intros s Hp Hn; cbn [fire]; [split; [exact Hp | reflexivity]|].
  assert (Hn' : forall d, ~ In (d, k) t) by (intros d Hin; apply (Hn d); right; exact Hin).
  destruct (due <=? now s)%Z.
  - assert (Hne : k <> k') by (intro E; subst k'; apply (Hn due); left; reflexivity).
    pose proof (store_delete_other s k k' Hp Hne) as H1.
    assert (Hp1 : plan (fst (cache_delete s k')) = []) by (rewrite cache_delete_ff by exact Hp; exact Hp).
    destruct (cache_delete s k') as [s1 x]. cbn [fst] in *. destruct (IH s1 Hp1 Hn') as [A B].
    split; [exact A | rewrite B; exact H1].
  - specialize (IH s Hp Hn'). destruct (fire s t) as [s1 rest]. exact IH.
Qed.

Lemma store_fire_due s k : plan s = [] -> (forall d, ~ In (d, k) (pending s)) ->
  lookup (store (fire_due s)) k = lookup (store s) k.
Proof.
  intros Hp Hn. unfold fire_due.
  destruct (store_fire k (pending s) (set_pending s []) Hp Hn) as [_ H].
  destruct (fire (set_pending s []) (pending s)) as [s' rest]. exact H.
Qed.

Lemma apply_cookies_last jar cks k : apply_cookies jar (cks ++ [CkLive k]) = CKey k.
Proof. unfold apply_cookies. rewrite fold_left_app. reflexivity. Qed.

(* the end of a fault-free, crash-free request step whose last operation is op *)
Lemma step_last_op w r pre s o op :
  handler_at w r pre s o -> rq_plan r = [] -> rq_crash r = None -> rq_script r = pre ++ [op] ->
  exists s' x ck cks0,
    do_sop s o (had_cookie (req_q w r)) op = (s', x, ck) /\
    w_st (fst (step w (HReq r))) = set_tb (set_plan (fire_due s') []) [] /\
    jar_of (w_jars (fst (step w (HReq r)))) (rq_client r) = jar_after w r (cks0 ++ ck).
Proof.
  intros (s2 & cks & rs & cks' & E & Er & Hr) Hpl Hcr Hsc.
  rewrite step_req_eq. cbv zeta. rewrite Hpl, Hcr. unfold req_body.
  unfold req_s1, req_q, pres in E, Er. rewrite E. cbv zeta. rewrite Hsc.
  rewrite (run_script_app _ _ _ _ _ _ _ [op] Er Hr). rewrite run_script_cons. unfold req_q, pres.
  destruct (do_sop s o _ op) as [[s' x] ck]. exists s', x, ck, (cks ++ cks').
  split; [reflexivity|]. unfold jar_after.
  destruct (stops op x); cbn [run_script fst snd w_st w_jars]; rewrite LiveHist6.jar_of_set_same;
    rewrite ?app_nil_r, <- ?app_assoc; split; reflexivity.
Qed.

Theorem login_survives w r pre s o u ex h :
  sess_inv (w_st w) -> handler_at w r pre s o ->
  rq_plan r = [] -> rq_crash r = None -> rq_script r = pre ++ [SLogIn u ex] -> loses_cache h ->
  let n := supply s in
  let w1 := fst (step w (HReq r)) in let w2 := fst (step w1 h) in
  (exists rr, lookup (store (w_st w1)) (KGen n) = Some rr /\ r_user rr = Some (fst u, 0%N) /\
              L (w_st w2) (KGen n) = Some rr) /\
  cache (w_st w2) = [] /\
  (rq_present r = PJar -> jar_of (w_jars w2) (rq_client r) = CKey (KGen n)) /\
  (forall ob, hget s o = Some ob -> nouser_at (w_st w2) (o_id ob)) /\
  (ex = true -> forall k, In k (listed s (fst u)) -> k <> KGen n -> nouser_at (w_st w2) k).
Proof.
  intros Hinv Hat Hpl Hcr Hsc Hl. cbv zeta.
  destruct (handler_at_inv w r pre s o Hinv Hat) as [(Hp & Hc & Hn & Hf) [ob Ho]].
  destruct (login_at w r pre s o Hinv Hat u ex) as (ob0 & s' & n & ob' & Ho0 & E & Hs' & Ho' & Hid & Hne & Hu & (rr & Hrr & Hur) & Hold & Hex).
  rewrite Ho in Ho0. injection Ho0 as <-.
  destruct (RotateLaws6.login_C04 s o ob u ex Hp Hc Hn Hf Ho) as (s'' & r' & E2 & _ & _ & _ & _ & _ & _ & _ & _ & _ & _ & _ & Hpend).
  rewrite E in E2. injection E2 as <- En. subst n.
  destruct (step_last_op w r pre s o (SLogIn u ex) Hat Hpl Hcr Hsc) as (s1 & x & ck & cks0 & Ed & Hst & Hjar).
  cbn [do_sop] in Ed. rewrite E in Ed. injection Ed as <- <- <-.
  assert (Hp' : plan s' = []) by apply Hs'.
  assert (Hnp : forall d, ~ In (d, KGen (supply s)) (pending s')).
  { intros d Hin. rewrite Hpend in Hin. apply in_app_iff in Hin. destruct Hin as [Hin|[Hin|[]]].
    - exact (LiveHist5.fresh_pending_ne s d _ Hf Hin eq_refl).
    - injection Hin as _ Hx. apply Hne. symmetry. exact Hx. }
  assert (Hend : lookup (store (w_st (fst (step w (HReq r))))) (KGen (supply s)) = Some rr).
  { rewrite Hst. cbn [store set_tb set_plan]. rewrite store_fire_due; assumption. }
  destruct (loss_state (fst (step w (HReq r))) h Hl) as (L1 & L2 & _ & _ & _ & _ & L7 & L8). cbv zeta in *.
  assert (Hno : forall k, nouser_at s' k -> nouser_at (w_st (fst (step (fst (step w (HReq r))) h))) k).
  { intros k Hk. apply nouser_survives; [exact Hl|]. rewrite Hst.
    assert (Hk2 : nouser_at (fire_due s') k).
    { apply ufact_nouser. apply ufact_fire_due; [exact Hp'|]. apply nouser_to_ufact; [apply Hs' | exact Hk]. }
    exact Hk2. }
  split; [exists rr; split; [exact Hend|]; split; [exact Hur | rewrite L8; exact Hend]|].
  split; [exact L2|]. split.
  - intro HP. rewrite L7, Hjar. unfold jar_after. rewrite HP. apply apply_cookies_last.
  - split.
    + intros ob1 Ho1. rewrite Ho in Ho1. injection Ho1 as <-. apply Hno. exact Hold.
    + intros Hx k Hin Hk. apply Hno. apply Hex; assumption.
Qed.

(* ------------------------------- a later request presenting a stored ID *)

(* with an empty cache (after the loss), a request presenting an ID whose stored
   record is a session record satisfying F and acceptable: that is the session
   it gets *)
Theorem probe_step_gen (F : rec -> Prop) w r k :
  (forall rr t, F rr -> F (set_access rr t)) -> (forall rr t, F rr -> F (set_created rr t)) ->
  (forall rr a, F rr -> F (set_ip rr a)) -> (forall rr a, F rr -> F (set_ua rr a)) ->
  plan (w_st w) = [] -> cache (w_st w) = [] ->
  rq_plan r = [] -> rq_crash r = None -> pres w r = CKey k ->
  CrashFault3.resolves_to F (store (w_st w)) k ->
  (forall rk, lookup (store (w_st w)) k = Some rk ->
     CrashRestart.probe_ok (conf (w_st w)) (now (w_st w)) (mkReq (CKey k) (rq_create r) (rq_addr r) (rq_ua r)) rk) ->
  ob_res (snd (step w (HReq r))) = RSess /\
  exists id rc, ob_start (snd (step w (HReq r))) = Some (id, rc) /\ r_ref rc = None /\ F rc.
Proof.
  intros F1 F2 F3 F4 Hp Hc Hpl Hcr Hk Hres Hok.
  assert (Hok' : forall rk, lookup (store (w_st w)) k = Some rk ->
     CrashRestart.probe_ok (conf (w_st w)) (now (w_st w)) (req_q w r) rk).
  { unfold req_q. rewrite Hk. exact Hok. }
  destruct (CrashRestart.probe_start F F1 F2 F3 F4 (req_s1 w r) (req_q w r) k eq_refl Hc Hk Hres Hok')
    as (s2 & o & ob' & cks & E & Ho & Hr & HF).
  destruct (CrashRestart.step_reports w r s2 o ob' cks Hpl Hcr E Ho) as [R1 R2]. split; [exact R1|].
  exists (o_id ob'), (o_rec ob'). split; [exact R2 | split; assumption].
Qed.

(* after LogIn and the loss of the cache: the client's next request (its jar
   holds the new ID) is handed a session carrying the user's ID *)
Theorem login_then_request w r pre s o u ex h r3 :
  sess_inv (w_st w) -> handler_at w r pre s o ->
  rq_plan r = [] -> rq_crash r = None -> rq_script r = pre ++ [SLogIn u ex] -> loses_cache h ->
  let n := supply s in
  let w1 := fst (step w (HReq r)) in let w2 := fst (step w1 h) in
  rq_plan r3 = [] -> rq_crash r3 = None -> pres w2 r3 = CKey (KGen n) ->
  (forall rk, lookup (store (w_st w1)) (KGen n) = Some rk ->
     r_ref rk = None /\
     CrashRestart.probe_ok (conf (w_st w1)) (now (w_st w1)) (mkReq (CKey (KGen n)) (rq_create r3) (rq_addr r3) (rq_ua r3)) rk) ->
  ob_res (snd (step w2 (HReq r3))) = RSess /\
  exists id rc, ob_start (snd (step w2 (HReq r3))) = Some (id, rc) /\ r_ref rc = None /\
                CrashFault3.uid rc = Some (fst u).
Proof.
  intros Hinv Hat Hpl Hcr Hsc Hl. cbv zeta. intros Hpl3 Hcr3 Hk3 Hok.
  destruct (login_survives w r pre s o u ex h Hinv Hat Hpl Hcr Hsc Hl) as ((rr & Hrr & Hur & _) & Hc2 & _).
  destruct (loss_state (fst (step w (HReq r))) h Hl) as (L1 & L2 & L3 & L4 & L5 & _). cbv zeta in *.
  assert (Hp1 : plan (w_st (fst (step w (HReq r)))) = []).
  { apply (step_sess_inv w (HReq r) Hinv Hpl Hcr). }
  destruct (Hok rr Hrr) as [Href Hpk].
  apply (probe_step_gen (fun x => CrashFault3.uid x = Some (fst u)) _ r3 (KGen (supply s))); try assumption; try (intros; assumption).
  - rewrite L5. exact Hp1.
  - rewrite L1. exists (KGen (supply s)), rr. cbn [CrashFault3.resolve]. rewrite Hrr, Href.
    split; [reflexivity|]. split; [reflexivity|]. unfold CrashFault3.uid. rewrite Hur. reflexivity.
  - rewrite L1, L3, L4. intros rk Hlk. apply Hok. exact Hlk.
Qed.
