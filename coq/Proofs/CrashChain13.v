(* C10C (audit task A9), part 13: the request after the crash comes later - a
   wait of d in between (nothing is pending after a crash, the store is
   untouched): the presented ID is still served, as long as the stored record
   under it makes the request acceptable at the later instant. *)
From Sessions Require Import Model.Base Model.Sess Model.Hist Proofs.SessDefs
  Proofs.HistInv Proofs.HistInv2 Proofs.HistInv3.
From Sessions Require Proofs.CrashFault3 Proofs.CrashFault5 Proofs.CrashFault6 Proofs.LiveHist4.
From Sessions Require Import Proofs.CrashRestart Proofs.CrashRestart2 Proofs.CrashRestart3 Proofs.CrashRestart4
  Proofs.CrashChain Proofs.CrashChain2 Proofs.CrashChain3 Proofs.CrashChain4 Proofs.CrashChain5.
From Coq Require Import Lia.
Import CrashFault3 CrashFault5 CrashFault6 LiveHist4.
Local Open Scope Z_scope.

Theorem chain_restart_old_later w r n k0 rest D U d r2 :
  chain_crash w r n k0 rest D U [SRegen] ->
  let w' := fst (step w (HReq r)) in let w2 := fst (step w' (HWait d)) in
  rq_plan r2 = [] -> rq_crash r2 = None -> pres w2 r2 = CKey k0 ->
  (forall rk, lookup (store (w_st w')) k0 = Some rk ->
     probe_ok (conf (w_st w)) (now (w_st w) + d) (probe_q k0 r2) rk) ->
  ob_res (snd (step w2 (HReq r2))) = RSess /\
  exists id rc, ob_start (snd (step w2 (HReq r2))) = Some (id, rc) /\ r_ref rc = None /\ full D U rc.
Proof.
  intros Hcc w' w2 Hpl Hcr Hk Hok.
  destruct (crash_store_chain w r n k0 rest D U Hcc)
    as (l & _ & C1 & C2 & Cp & C3 & C4 & C5 & _ & (tl & Htl & Hsp) & _).
  fold w' in C1, C2, Cp, C3, C4, C5, Hsp.
  destruct (wait_after_crash w' d C2 C1 Cp) as (W1 & W2 & W3 & W4 & W5 & W6). fold w2 in W1, W2, W3, W4, W5, W6.
  pose proof (step_supply_mono w' (HWait d)) as Hs. fold w2 in Hs.
  pose proof (cc_fuel _ _ _ _ _ _ _ _ Hcc) as Hfuel.
  apply (probe_chain_step (full D U) w2 r2 k0 (rest ++ tl) (full_codec D U) (full_access D U) (full_created D U)
           (full_ip D U) (full_ua D U) W1 W2 Hpl Hcr Hk).
  - rewrite W3. exact Hsp.
  - rewrite app_length. lia.
  - rewrite W3, W4, W5, C3, C4. exact Hok.
Qed.
