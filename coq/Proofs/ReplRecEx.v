(* Non-vacuity of replrec_partial / expired_ref_hist_partial (ReplRec.v): a
   history with a failing save inside RegenerateID, rotations by Start,
   RegenerateID and a non-exclusive LogIn, a purge, a restart that loses the
   clean-ups, replaced IDs presented before and after it. *)
From Sessions Require Import Model.Base Model.Sess Model.Hist Proofs.SessDefs Proofs.HistInv3
  Proofs.ReplRecStmt Proofs.ReplRec.
Local Open Scope Z_scope.

Definition hist_P : list hop :=
  [ rq 1 true [SSet 1 2; SLogIn (5, 1)%N false]; HWait (10 * sec + 7); rqf 1 [SRegen] [false; true];
    HWait (5 * sec); rq 1 false [SRegen]; forge 3 (KGen 1); HPurge [] []; rq 2 true [SLogIn (5, 2)%N false];
    HRestart; HWait (20 * sec + 3); forge 3 (KGen 1); rq 1 false [SLogOut; SRegen]; HDropCache; forge 3 (KGen 2) ].

Example hist_P_nuw : Forall nuw hist_P.
Proof. repeat constructor. Qed.

Example hist_P_applies :
  forall k r, lookup (store (w_st (reach (cfT 0 3 true) hist_P))) k = Some r -> r_ref r <> None ->
              r_created r = r_access r.
Proof. exact (proj1 (proj2 (replrec_partial (cfT 0 3 true) hist_P hist_P_nuw))). Qed.

(* the store of that run does hold replaced-ID records, one of them written
   after the failed save; the third step did fail (in Start's own rotation) *)
Example hist_P_run :
  map (fun kr => (fst kr, r_ref (snd kr), r_created (snd kr), r_access (snd kr)))
      (filter (fun kr => match r_ref (snd kr) with Some _ => true | None => false end)
              (store (w_st (reach (cfT 0 3 true) hist_P)))) <> [] /\
  nth 2 (map ob_res (run (cfT 0 3 true) hist_P)) RVoid = RErr ERegenRef.
Proof. vm_compute. split; [discriminate | reflexivity]. Qed.
