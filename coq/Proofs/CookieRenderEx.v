(* Non-vacuity of Proofs/CookieRender.v and CookieRender2.v: concrete templates,
   request contexts, browser jars and one history on which the hypotheses of
   each theorem hold; the conclusions are read off by computation. *)
From Coq Require Import String.
From Sessions Require Import Model.Base Model.Sess Model.Hist Model.Cookie Proofs.SessDefs
  Proofs.HistInv3 Proofs.HistLift3 Proofs.HistLiftEx Proofs.CookieRender Proofs.CookieRender2.
Local Open Scope string_scope.

(* a production template: Domain, Path, Secure, HttpOnly, SameSite=Lax, one hour *)
Definition tA : template := mkTmpl "example.com" "/app" true true false 2 3600 None.
(* answered on a sub-domain, for a URI below another directory *)
Definition xA : ctx := mkCtx "www.example.com" "/other".
Definition xB : ctx := mkCtx "shop.example.com" "/".
Definition KA : ckey := mkKey "sid" "example.com" "/app".

(* a cookie of another application on the same host, and a cookie with the same
   name under another path *)
Definition foreign : http_cookie := mkHC "lang" (VText "en") "" "/" false false false 0 0 None.
Definition samename : http_cookie := mkHC "sid" (VText "zzz") "example.com" "/" false false false 0 0 None.
Definition jA : bjar := [(key_of xA foreign, foreign); (key_of xA samename, samename)].

(* (a) *)
Example render_live_ex :
  render "sid" tA (CkLive (KGen 5)) =
  Some (mkHC "sid" (VId (KGen 5)) "example.com" "/app" true true false 2 3600 None).
Proof. reflexivity. Qed.

(* (b) *)
Example render_delete_ex :
  render "sid" tA CkDelete =
  Some (mkHC "sid" (VText "deleted") "example.com" "/app" true true false 2 (-1) (Some 0%Z)) /\
  key_of xA (delete_cookie "sid" tA) = KA /\ key_of xA (live_cookie "sid" tA (KGen 5)) = KA.
Proof. repeat split. Qed.

(* the identity does not depend on the request for this template; it does for
   the package's default template (no Domain, no Path) *)
Example key_fixed_ex : session_key xA "sid" tA = session_key xB "sid" tA.
Proof. apply session_key_fixed; [discriminate | reflexivity]. Qed.

Example key_moves_ex :
  session_key xA "id" (mkTmpl "" "" false true false 0 315360000 None) <>
  session_key xB "id" (mkTmpl "" "" false true false 0 315360000 None).
Proof. discriminate. Qed.

(* the template is usable in both contexts; it is not for a foreign host, and a
   template that is itself expired is not usable anywhere *)
Example usable_ex :
  tmpl_usable xA 1000 "sid" tA = true /\ tmpl_usable xB 1000 "sid" tA = true /\
  tmpl_usable (mkCtx "example.org" "/") 1000 "sid" tA = false /\
  tmpl_usable (mkCtx "badexample.com" "/") 1000 "sid" tA = false /\
  tmpl_usable xA 1000 "sid" (mkTmpl "" "/" false true false 0 0 (Some 999%Z)) = false.
Proof. repeat split. Qed.

(* (c) one response that deletes and then sets (Start on a dead ID with
   createIfNew), on a jar that holds other cookies: they stay, the session
   cookie is stored with every attribute *)
Example jar_refines_ex :
  let cs := [CkDelete; CkLive (KGen 3)] in
  let j' := jar_apply_all xA 1000 jA (render_all "sid" tA cs) in
  no_bad cs /\ jar_nodup jA = true /\
  abs_jar xA "sid" tA jA = CNone /\ apply_cookies CNone cs = CKey (KGen 3) /\
  j' = (jA ++ [(KA, live_cookie "sid" tA (KGen 3))])%list /\
  abs_jar xA "sid" tA j' = CKey (KGen 3).
Proof.
  cbv zeta. split; [intros n [H|[H|[]]]; discriminate|]. repeat split.
Qed.

(* two responses in different contexts: rotation, then Destroy *)
Example browse_ex :
  let rs := [(xA, 1000%Z, [CkLive (KGen 1)]); (xB, 2000%Z, [CkDelete])] in
  Forall (resp_ok "sid" tA KA) rs /\
  browse "sid" tA ((jA ++ [(KA, live_cookie "sid" tA (KGen 0))])%list) rs = jA /\
  abs_browse (CKey (KGen 0)) rs = CNone.
Proof.
  cbv zeta. split; [|split; reflexivity].
  repeat constructor; cbn; intros n H; repeat (destruct H as [H|H]; [discriminate|]); exact H.
Qed.

(* a history: client 1 creates a session, rotates it, logs in and destroys it;
   client 2 presents the first, replaced ID in between (a forged request: no
   browser). The browser of client 1 follows the abstract jar step by step. *)
Definition g1 := (h1, xA, 1000%Z).
Definition g2 := (h2, xB, 1001%Z).
Definition g4 := (h4, xA, 1002%Z).
Definition g5 := (h5, xA, 1003%Z).
Definition g9 := (HReq (rqX 1 PJar false [SDestroy]), xB, 1004%Z).
Definition gX := [g1; g2; g4; g5; g9].

Lemma gX_ok : Forall (hop_ok "sid" tA KA) gX.
Proof. repeat constructor. Qed.

Example brun_ex :
  snd (brun "sid" tA (mkWorld (init_st cX) []) [] [g1; g2; g4; g5]) = [(1%N, [(KA, live_cookie "sid" tA (KGen 2))])] /\
  jar_of (w_jars (fst (brun "sid" tA (mkWorld (init_st cX) []) [] [g1; g2; g4; g5]))) 1 = CKey (KGen 2) /\
  snd (brun "sid" tA (mkWorld (init_st cX) []) [] gX) = [(1%N, [])] /\
  jar_of (w_jars (fst (brun "sid" tA (mkWorld (init_st cX) []) [] gX))) 1 = CNone.
Proof. vm_compute. repeat split. Qed.

Example browser_sim_ex :
  jars_agree KA (reach cX (map (fun hx => fst (fst hx)) gX)) (snd (brun "sid" tA (mkWorld (init_st cX) []) [] gX)).
Proof. apply (browser_sim_init "sid" tA KA cX gX gX_ok). Qed.

(* the hypotheses of browser_session at the LogIn step, and what it gives *)
Example browser_session_ex :
  let w := reach cX [h1; h2; h3; h4] in
  let o := snd (step w h5) in
  let j := (jA ++ [(KA, live_cookie "sid" tA (KGen 1))])%list in
  ob_res o = RSess /\ abs_jar xA "sid" tA j = jar_of (w_jars w) 1 /\
  jar_apply_all xA 1003 j (render_all "sid" tA (ob_cookies o)) = (jA ++ [(KA, live_cookie "sid" tA (KGen 2))])%list.
Proof. vm_compute. repeat split. Qed.

(* the hypotheses of browser_emptied at the Destroy step *)
Example browser_emptied_ex :
  let w := reach cX [h1; h2; h4; h5] in
  let r := rqX 1 PJar false [SDestroy] in
  let j := (jA ++ [(KA, live_cookie "sid" tA (KGen 2))])%list in
  abs_jar xB "sid" tA j = jar_of (w_jars w) 1 /\ ob_jar (snd (step w (HReq r))) = CNone /\
  ob_cookies (snd (step w (HReq r))) = [CkDelete] /\
  jar_apply_all xB 1004 j (render_all "sid" tA (ob_cookies (snd (step w (HReq r))))) = jA.
Proof. vm_compute. repeat split. Qed.

(* (d) with the pre-7b26151 deletion cookie the same Destroy leaves the live
   cookie in the browser *)
Example old_delete_ex :
  let j := (jA ++ [(KA, live_cookie "sid" tA (KGen 2))])%list in
  jar_apply_all xB 1004 j (render_all_old "sid" tA true [CkDelete]) = j.
Proof. vm_compute. reflexivity. Qed.
