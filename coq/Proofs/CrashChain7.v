(* C10, orphan copies (audit task A9), part 7: where the IDs in Set-Cookie
   headers come from - for EVERY state, fault plan, cache size.
   - RegenerateID, LogIn and the creation of a session announce the ID they
     drew: the supply's ordinal at that moment, which is never below the supply
     at the beginning of the call;
   - the only other live cookie is Start's redirect after following replaced-ID
     records, and its value is the target of a reference record Start read from
     the cache or the store (or the presented value itself).
   Hence, in a state whose cached objects and stored records hold no reference
   to an ID v below the supply, a request that does not itself present v is
   never answered with a cookie for v (start_never_names, do_sop_cookies_fresh).
   This is the mechanism behind "nobody who follows cookies reaches the orphan";
   see Properties/C10C.v for what is and what is not proved of that claim. *)
From Sessions Require Import Model.Base Model.Sess Model.Hist Proofs.SessDefs Proofs.CrashFault
  Proofs.CrashFault2 Proofs.CrashFault3 Proofs.CrashFault4 Proofs.CrashFault5 Proofs.CrashFault8
  Proofs.CrashFault9 Proofs.CrashFault13.
From Coq Require Import Lia.

(* ------------------------------------------- cookies that announce a new ID *)

Lemma create_cookies s q s' res nck :
  create_session s q = (s', res, nck) -> forall k, In (CkLive k) nck -> k = KGen (supply s).
Proof.
  unfold create_session, gen_id, halloc. cbv beta iota zeta.
  destruct (cache_set _ _) as [s1 ok]. destruct ok; cbn [negb]; intro E; injection E as <- <- <-; intros k Hin;
    [|destruct Hin]. destruct Hin as [H|[]]. injection H as <-. reflexivity.
Qed.

Lemma regenerate_cookies s o s' res cks :
  regenerate s o = (s', res, cks) -> forall k, In (CkLive k) cks -> k = KGen (supply s).
Proof.
  unfold regenerate.
  destruct (hget s o) as [ob|]; [|intro E; injection E as <- <- <-; intros k []].
  unfold gen_id. cbv beta iota zeta. destruct (cache_set _ o) as [s1 ok1]. destruct ok1; cbn [negb].
  - destruct (hget s1 o) as [ob1|]; [|intro E; injection E as <- <- <-; intros k []].
    unfold halloc. cbv beta iota zeta. destruct (cache_set _ _) as [s2 ok2].
    destruct ok2; cbn [negb]; intro E; injection E as <- <- <-; intros k Hin; [|destruct Hin].
    destruct Hin as [H|[]]. injection H as <-. reflexivity.
  - intro E; injection E as <- <- <-; intros k [].
Qed.

Lemma destroy_cookies s o hc s' res cks :
  destroy s o hc = (s', res, cks) -> forall k, ~ In (CkLive k) cks.
Proof.
  unfold destroy. destruct (hget s o) as [ob|]; [|intro E; injection E as <- <- <-; intros k []].
  destruct (cache_delete s (o_id ob)) as [s1 ok]. destruct ok; cbn [negb]; intro E; injection E as <- <- <-; intros k Hin;
    [|destruct Hin]. destruct Hin as [H|[]]. discriminate.
Qed.

Lemma keeps_supply' s s' : keeps s s' -> (supply s <= supply s')%N.
Proof. intros ([l X] & _). rewrite (x_supply _ _ _ X). lia. Qed.

Lemma login_cookies s o u ex s' res cks :
  login s o u ex = (s', res, cks) -> forall k, In (CkLive k) cks -> exists j, k = KGen j /\ (supply s <= j)%N.
Proof.
  unfold login.
  assert (HA : forall sA r1, (if ex then logout_user s (fst u) else let '(s0, _) := logout s o in (s0, Ok tt)) = (sA, r1) ->
                             (supply s <= supply sA)%N).
  { intros sA r1. destruct ex.
    - intro E. apply keeps_supply'. eapply keeps_logout_user. exact E.
    - destruct (logout s o) as [s0 r0] eqn:E. intro H. injection H as <- _. apply keeps_supply'. eapply keeps_logout. exact E. }
  destruct (if ex then logout_user s (fst u) else let '(s0, _) := logout s o in (s0, Ok tt)) as [sA r1] eqn:EA.
  pose proof (HA _ _ eq_refl) as H1.
  destruct r1 as [[]|e|e]; try (intro E; injection E as <- <- <-; intros k []).
  destruct (cache_set (hupd sA o (fun r => set_user r (Some u))) o) as [sC b] eqn:ES.
  pose proof (keeps_supply' _ _ (keeps_cache_set _ _ _ _ ES)) as H2.
  assert (H0 : supply (hupd sA o (fun r => set_user r (Some u))) = supply sA) by (unfold hupd; destruct (hget sA o); reflexivity).
  destruct b; cbn [negb]; [|intro E; injection E as <- <- <-; intros k []].
  destruct (regenerate sC o) as [[s2 r2] cks2] eqn:ER.
  intro E. assert (cks = cks2) by (destruct r2; injection E as _ _ <-; reflexivity). subst cks2.
  intros k Hin. exists (supply sC). split; [eapply regenerate_cookies; eassumption | lia].
Qed.

(* every live cookie set by a handler operation carries an ID drawn during the
   operation *)
Theorem do_sop_cookies_fresh s o hc op s' r cks :
  do_sop s o hc op = (s', r, cks) -> forall k, In (CkLive k) cks -> exists j, k = KGen j /\ (supply s <= j)%N.
Proof.
  destruct op; cbn [do_sop].
  - destruct (data_of s o); [destruct (save_direct _ o) as [s1 r1]|]; intro E; injection E as <- <- <-; intros k0 [].
  - destruct (save_direct _ o) as [s1 r1]. intro E; injection E as <- <- <-; intros k0 [].
  - intro E; injection E as <- <- <-; intros k0 [].
  - destruct (data_of s o) as [d|]; [destruct (kv_get d k) as [v|]; [destruct (save_direct _ o) as [s1 r1]|]|];
      intro E; injection E as <- <- <-; intros k0 [].
  - destruct (login s o u exclusive) as [[s1 r1] c1] eqn:E. intro H. injection H as <- <- <-.
    eapply login_cookies. exact E.
  - destruct (logout s o) as [s1 r1]. intro E; injection E as <- <- <-; intros k0 [].
  - destruct (regenerate s o) as [[s1 r1] c1] eqn:E. intro H. injection H as <- <- <-.
    intros k Hin. exists (supply s). split; [eapply regenerate_cookies; eassumption | lia].
  - destruct (destroy s o hc) as [[s1 r1] c1] eqn:E. intro H. injection H as <- <- <-.
    intros k Hin. exfalso. eapply destroy_cookies; eassumption.
Qed.

(* ------------------------------------------------ Start's redirect cookie *)

Section Names.
  Variable v : key.
  Let K : key -> rec -> Prop := fun _ r => r_ref r <> Some v.

  Lemma K_codec_v cf k r : K k r -> K k (codec cf r). Proof. exact (fun H => H). Qed.

  (* the key follow reports is the one it was given or the target of a
     reference it read *)
  Lemma follow_key : forall fuel s o lk s' o' lk',
    J K s -> (forall ob, hget s o = Some ob -> r_ref (o_rec ob) <> Some v) ->
    follow fuel s o lk = (s', Ok (o', lk')) -> lk' = lk \/ lk' <> v.
  Proof.
    induction fuel as [|f IH]; intros s o lk s' o' lk' HJ Hob HF; cbn [follow] in HF;
      destruct (hget s o) as [ob|] eqn:Ho; try discriminate;
      destruct (r_ref (o_rec ob)) as [t|] eqn:Hr; try discriminate;
      try (injection HF as _ _ <-; left; reflexivity).
    destruct (cache_get s t) as [s1 g] eqn:EG.
    destruct (cache_get_safe K K_codec_v _ _ _ _ HJ EG) as (l & _ & _ & HJ1 & _ & _ & _ & _ & Hr1).
    destruct g as [[o1|]|]; try discriminate.
    destruct Hr1 as (ob1 & Ho1 & HK1 & _).
    destruct (IH s1 o1 t s' o' lk' HJ1) as [->|H]; [|exact HF| |right; exact H].
    - intros ob' Ho'. assert (ob' = ob1) by congruence. subst. exact HK1.
    - right. intros ->. apply (Hob ob eq_refl). exact Hr.
  Qed.

  Lemma start_none_names s q cks0 s' res cks m :
    v = KGen m -> (m < supply s)%N -> ~ In (CkLive v) cks0 ->
    start_none s q cks0 = (s', res, cks) -> ~ In (CkLive v) cks.
  Proof.
    intros -> Hm H0. unfold start_none. destruct (q_create q).
    - destruct (create_session s q) as [[s1 r1] nck] eqn:E. intro H. injection H as <- <- <-.
      intro Hin. apply in_app_iff in Hin. destruct Hin as [Hin|Hin]; [exact (H0 Hin)|].
      pose proof (create_cookies _ _ _ _ _ E _ Hin) as E'. injection E' as E'. lia.
    - intro H. injection H as <- <- <-. exact H0.
  Qed.

  (* Start in a state whose cache and store hold no reference to v, an ID below
     the supply, presented with anything but v: no cookie for v *)
  Theorem start_never_names s q s' res cks m :
    v = KGen m -> (m < supply s)%N -> J K s -> q_cookie q <> CKey v ->
    start s q = (s', res, cks) -> ~ In (CkLive v) cks.
  Proof.
    intros Hv Hm HJ Hq HS. rewrite start_unfold in HS.
    destruct (q_cookie q) as [|k|x] eqn:Eq;
      try (eapply start_none_names; [exact Hv | exact Hm | | exact HS]; intros []).
    destruct (cache_get s k) as [s1 g] eqn:EG.
    destruct (cache_get_safe K K_codec_v _ _ _ _ HJ EG) as (l & X1 & HQ1 & HJ1 & _ & _ & _ & _ & Hr1).
    pose proof (supply_ext _ _ _ _ X1 HQ1) as Hsup1.
    destruct g as [[o|]|].
    - unfold start_found in HS. destruct Hr1 as (ob & Ho & HK & _). rewrite Ho in HS.
      destruct (negb (rec_valid (conf s) (o_rec ob) q (now s1))).
      + destruct (destroy s1 o (had_cookie q)) as [[s2 r2] dck] eqn:ED.
        pose proof (keeps_supply' _ _ (keeps_destroy _ _ _ _ _ _ ED)) as H2.
        destruct r2 as [[]|e|e]; try (injection HS as _ _ <-; intros []).
        eapply start_none_names; [exact Hv | | | exact HS]; [lia|]. eapply destroy_cookies. exact ED.
      + destruct (negb (is_ref (o_rec ob)) && (c_idexpiry (conf s) <=? since (r_created (o_rec ob)) (now s1))%Z) eqn:Erot.
        * destruct (regenerate s1 o) as [[s2 r2] rck] eqn:ER.
          assert (Hrck : ~ In (CkLive v) rck).
          { intro Hin. pose proof (regenerate_cookies _ _ _ _ _ ER _ Hin) as E'. subst v. injection E' as E'. lia. }
          apply andb_true_iff in Erot. destruct Erot as [Enr _]. apply negb_true_iff in Enr.
          destruct r2 as [[]|e|e]; try (injection HS as _ _ <-; exact Hrck).
          unfold start_finish in HS. rewrite Enr in HS. injection HS as _ _ <-. exact Hrck.
        * destruct (sat_add _ _ <=? _)%Z.
          { destruct (cache_delete s1 k) as [s2 b]. injection HS as _ _ <-. intros []. }
          unfold start_finish in HS. destruct (is_ref (o_rec ob)) eqn:Eref.
          -- destruct (follow (S (N.to_nat (supply s1))) s1 o k) as [s2 fr] eqn:EF.
             destruct fr as [[o' lk]|e|e]; [|injection HS as _ _ <-; intros [] ..].
             injection HS as _ _ <-. cbn [app]. intros [H|[]]. injection H as H.
             assert (Hob : forall ob', hget s1 o = Some ob' -> r_ref (o_rec ob') <> Some v).
             { intros ob' Ho'. assert (ob' = ob) by congruence. subst ob'. exact HK. }
             destruct (follow_key _ _ _ _ _ _ _ HJ1 Hob EF) as [E|E].
             ++ apply Hq. congruence.
             ++ exact (E H).
          -- injection HS as _ _ <-. intros [].
    - eapply start_none_names; [exact Hv | | | exact HS]; [lia|]. intros [H|[]]. discriminate.
    - injection HS as _ _ <-. intros [].
  Qed.
End Names.
