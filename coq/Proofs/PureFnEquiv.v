(* The decision code of the package, translated from the Go AST on every run
   (Gen/PureFn.v, translator/purefn.go), equals the decisions the hand-written
   model takes (Model/Sess.v: expired, sat_add, is_idle, and the conditions
   inside start).

   The proofs do not look at the shape of the generated terms: every wrap64 and
   every saturating subtraction is replaced by a variable with its arithmetic
   specification, the conditionals are split, and linear integer arithmetic
   over the booleans (lia with ZifyBool) closes the goal. A harmless rewrite of
   the Go source (conjuncts reordered, !(a < b) for a >= b, a local variable
   introduced) leaves them valid; a change of meaning does not.

   gen_addDurations wraps like Go; the model's sat_add saturates. They agree on
   int64 durations of which at least one is non-negative (dur_cfg; implied by
   RotateLaws3.cfg_ok - the one-sided bounds 0 <= grace, idexpiry <= max64 the
   session theorems assume - together with the int64 range: cfg_ok_dur_cfg),
   and differ when both are negative (gen_addDurations_differs_negative).

   Reading conventions of the translation (trusted): several time.Since calls
   inside one function are translated with one `now` (the model's request reads
   the clock once; in Go successive readings differ by the nanoseconds between
   them), and Go's int is taken as 64-bit. *)
From Sessions Require Import Model.Base Model.Sess Gen.PureFn Proofs.RotateLaws3.
From Coq Require Import Lia ZifyBool ZifyN.
Local Open Scope Z_scope.

(* SessionIDExpiry and SessionIDGracePeriod are int64 durations, not both negative *)
Definition dur_cfg (c : cfg) : Prop :=
  (min64 <= c_idexpiry c <= max64 /\ min64 <= c_grace c <= max64) /\
  (0 <= c_idexpiry c \/ 0 <= c_grace c).

(* the bounds the session theorems assume (RotateLaws3.cfg_ok), within int64 *)
Lemma cfg_ok_dur_cfg (c : cfg) :
  cfg_ok c -> min64 <= c_idexpiry c -> c_grace c <= max64 -> dur_cfg c.
Proof. unfold cfg_ok, dur_cfg, min64, max64. lia. Qed.

Lemma wrap64_spec (z : Z) : exists k, wrap64 z = z + k * two64 /\ min64 <= wrap64 z <= max64.
Proof.
  unfold wrap64. exists (- ((z + two63) / two64)).
  assert (H := Z.div_mod (z + two63) two64).
  assert (H' := Z.mod_pos_bound (z + two63) two64).
  unfold two63, two64, min64, max64 in *. lia.
Qed.

Lemma clamp64_spec (z : Z) :
  (z < min64 /\ clamp64 z = min64) \/ (max64 < z /\ clamp64 z = max64) \/
  (min64 <= z <= max64 /\ clamp64 z = z).
Proof. unfold clamp64. destruct (z <? min64) eqn:H1; [lia|]. destruct (max64 <? z) eqn:H2; lia. Qed.

Ltac wrap_elim :=
  repeat match goal with
         | |- context [wrap64 ?z] =>
           let k := fresh "k" in let Hk := fresh "Hk" in let Hr := fresh "Hr" in let w := fresh "w" in
           destruct (wrap64_spec z) as (k & Hk & Hr); set (w := wrap64 z) in *; clearbody w
         end.

Ltac clamp_elim :=
  repeat match goal with
         | |- context [clamp64 ?z] =>
           let H := fresh "Hc" in let w := fresh "w" in
           assert (H := clamp64_spec z); set (w := clamp64 z) in *; clearbody w
         end.

Ltac split_ifs :=
  repeat match goal with
         | |- context [if ?b then _ else _] => destruct b eqn:?
         | H : context [if ?b then _ else _] |- _ => destruct b eqn:?
         end.

Ltac split_refs :=
  repeat match goal with
         | |- context [match r_ref ?r with _ => _ end] => destruct (r_ref r)
         end.

Ltac pure_solve :=
  cbv zeta; unfold since, sat_add in *; clamp_elim; wrap_elim; split_refs; split_ifs;
  unfold max64, min64, two64 in *; lia.

(* ---- addDurations ---- *)

Theorem gen_addDurations_sat (a b : Z) :
  min64 <= a <= max64 -> min64 <= b <= max64 -> 0 <= a \/ 0 <= b ->
  gen_addDurations a b = sat_add a b.
Proof. intros Ha Hb Hor. unfold gen_addDurations. pure_solve. Qed.

Theorem gen_addDurations_differs_negative :
  gen_addDurations (-1) min64 = max64 /\ sat_add (-1) min64 = min64.
Proof. vm_compute. split; reflexivity. Qed.

(* ---- Expired ---- *)

Theorem gen_Expired_eq (c : cfg) (r : rec) (now : Z) :
  dur_cfg c -> gen_Expired c r now = expired c r now.
Proof. intros [[Hi Hg] Hor]. unfold gen_Expired, expired, gen_addDurations. pure_solve. Qed.

(* outside dur_cfg they differ: the Go sum wraps to "forever", the model's
   saturates to the most negative duration *)
Theorem gen_Expired_differs_negative :
  let c := mkCfg 0 (-1) min64 0 0 1 true false in
  let r := mkRec 0 0 (AOther 0) 0 None None None in
  gen_Expired c r 0 = false /\ expired c r 0 = true.
Proof. vm_compute. split; reflexivity. Qed.

(* ---- the conditions of Start ---- *)

(* the model's expressions at those points of Sess.start, copied *)
Definition m_stale (c : cfg) (r : rec) (now : Z) : bool := (c_expiry c <=? since (r_access r) now).
Definition m_isref (r : rec) : bool := match r_ref r with Some _ => true | None => false end.
Definition m_rotate (c : cfg) (r : rec) (now : Z) : bool :=
  negb (m_isref r) && (c_idexpiry c <=? since (r_created r) now).
Definition m_backstop (c : cfg) (r : rec) (now : Z) : bool :=
  (sat_add (c_idexpiry c) (c_grace c) <=? since (r_created r) now).

Theorem gen_stale_eq (c : cfg) (r : rec) (now : Z) : gen_stale c r now = m_stale c r now.
Proof. unfold gen_stale, m_stale. pure_solve. Qed.

Theorem gen_rotate_eq (c : cfg) (r : rec) (now : Z) : gen_rotate c r now = m_rotate c r now.
Proof. unfold gen_rotate, m_rotate, m_isref. pure_solve. Qed.

Theorem gen_backstop_eq (c : cfg) (r : rec) (now : Z) :
  dur_cfg c -> gen_backstop c r now = m_backstop c r now.
Proof. intros [[Hi Hg] Hor]. unfold gen_backstop, m_backstop, gen_addDurations. pure_solve. Qed.

(* valid after the user-agent block = valid before && the model's ua_ok *)
Theorem gen_ua_ok_eq (c : cfg) (r : rec) (now : Z) (valid : bool) (h : N) :
  gen_ua_ok c r now valid h = valid && ua_ok (c_acceptua c) (r_ua r) h.
Proof. unfold gen_ua_ok, ua_ok. pure_solve. Qed.

(* ---- the idle test of compact ---- *)

Theorem gen_idle_eq (s : st) (e : key * nat) (ob : obj) :
  hget s (snd e) = Some ob -> is_idle s e = gen_idle (conf s) (o_rec ob) (now s).
Proof. intro H. unfold is_idle, obj_access, gen_idle. rewrite H. pure_solve. Qed.

(* ---- Sess.start takes its decisions with the translated conditions ---- *)

(* Sess.start with gen_stale / gen_ua_ok / gen_rotate / gen_backstop in the
   place of its own expressions; nothing else differs *)
Definition start_gen (s : st) (q : request) : st * result (option nat) * list cookie :=
  let c := conf s in
  let '(s, found, cks, failed) :=
    match q_cookie q with
    | CKey k =>
      let '(s, r) := cache_get s k in
      match r with
      | None => (s, None, [], true)
      | Some None => (s, None, [CkDelete], false)
      | Some (Some o) => (s, Some (k, o), [], false)
      end
    | _ => (s, None, [], false)
    end in
  if failed then (s, Err EGet, [])
  else
    match found with
    | Some (k, o) =>
      match hget s o with
      | None => (s, Panic EGet, [])
      | Some ob =>
        let r := o_rec ob in
        let valid := gen_ua_ok c r (now s)
                       (negb (gen_stale c r (now s)) && ip_ok (c_acceptip c) (r_ip r) (q_addr q))
                       (q_ua q) in
        if negb valid then
          let '(s, res, dck) := destroy s o (had_cookie q) in
          match res with
          | Ok _ =>
            if q_create q then
              let '(s, res, nck) := create_session s q in (s, res, cks ++ dck ++ nck)
            else (s, Ok None, cks ++ dck)
          | Err e => (s, Err e, cks)
          | Panic e => (s, Panic e, cks)
          end
        else
          let isref := match r_ref r with Some _ => true | None => false end in
          let '(s, step, cks) :=
            if gen_rotate c r (now s) then
              let '(s, res, rck) := regenerate s o in (s, res, cks ++ rck)
            else if gen_backstop c r (now s) then
              let '(s, ok) := cache_delete s k in
              (s, if ok then Err EExpiredID else Err EDeleteExpired, cks)
            else (s, Ok tt, cks) in
          match step with
          | Err e => (s, Err e, cks)
          | Panic e => (s, Panic e, cks)
          | Ok _ =>
            let '(s, fr) := if isref then follow (S (N.to_nat (supply s))) s o k else (s, Ok (o, k)) in
            match fr with
            | Err e => (s, Err e, cks)
            | Panic e => (s, Panic e, cks)
            | Ok (o', lk) =>
              let cks := if isref then cks ++ [CkLive lk] else cks in
              let s := hupd s o' (fun r => set_ua (set_ip (set_access r (now s)) (q_addr q)) (q_ua q)) in
              (s, Ok (Some o'), cks)
            end
          end
      end
    | None =>
      if q_create q then
        let '(s, res, nck) := create_session s q in (s, res, cks ++ nck)
      else (s, Ok None, cks)
    end.

Theorem start_uses_gen (s : st) (q : request) : dur_cfg (conf s) -> start s q = start_gen s q.
Proof.
  intro Hc. unfold start, start_gen.
  destruct (q_cookie q) as [|k|n]; try reflexivity.
  destruct (cache_get s k) as [s1 res]. destruct res as [[o|]|]; try reflexivity.
  cbv beta iota zeta. destruct (hget s1 o) as [ob|]; [|reflexivity].
  rewrite gen_ua_ok_eq, gen_stale_eq, gen_rotate_eq, (gen_backstop_eq _ _ _ Hc).
  unfold m_stale, m_rotate, m_backstop, m_isref. reflexivity.
Qed.

(* ---- the generated functions at the thresholds ---- *)

Definition ex_cfg : cfg := mkCfg 1000 300 60 500 10 1 false false.
Definition ex_rec (created access : Z) (ref : option key) : rec := mkRec created access (AOther 0) 5 ref None None.

Example ex_stale_threshold :
  gen_stale ex_cfg (ex_rec 0 0 None) 999 = false /\ gen_stale ex_cfg (ex_rec 0 0 None) 1000 = true.
Proof. vm_compute. split; reflexivity. Qed.

Example ex_rotate_threshold :
  gen_rotate ex_cfg (ex_rec 0 0 None) 299 = false /\ gen_rotate ex_cfg (ex_rec 0 0 None) 300 = true /\
  gen_rotate ex_cfg (ex_rec 0 0 (Some (KGen 1))) 300 = false.
Proof. vm_compute. repeat split; reflexivity. Qed.

Example ex_backstop_threshold :
  gen_backstop ex_cfg (ex_rec 0 0 None) 359 = false /\ gen_backstop ex_cfg (ex_rec 0 0 None) 360 = true.
Proof. vm_compute. split; reflexivity. Qed.

Example ex_idle_threshold :
  gen_idle ex_cfg (ex_rec 0 0 None) 500 = false /\ gen_idle ex_cfg (ex_rec 0 0 None) 501 = true.
Proof. vm_compute. split; reflexivity. Qed.

Example ex_expired_threshold :
  gen_Expired ex_cfg (ex_rec 0 0 (Some (KGen 1))) 59 = false /\ gen_Expired ex_cfg (ex_rec 0 0 (Some (KGen 1))) 60 = true /\
  gen_Expired ex_cfg (ex_rec 0 0 None) 999 = false /\ gen_Expired ex_cfg (ex_rec 0 0 None) 1000 = true.
Proof. vm_compute. repeat split; reflexivity. Qed.

(* "forever": the sum is limited to the maximum duration, not wrapped *)
Example ex_forever :
  gen_addDurations max64 60 = max64 /\ gen_addDurations max64 max64 = max64 /\
  gen_addDurations 300 60 = 360 /\ gen_addDurations 0 max64 = max64 /\
  gen_backstop (mkCfg 1000 max64 60 500 10 1 false false) (ex_rec 0 0 None) (max64 - 1) = false.
Proof. vm_compute. repeat split; reflexivity. Qed.

Example ex_ua :
  gen_ua_ok ex_cfg (ex_rec 0 0 None) 0 true 5 = true /\ gen_ua_ok ex_cfg (ex_rec 0 0 None) 0 true 6 = false /\
  gen_ua_ok ex_cfg (ex_rec 0 0 None) 0 true 0 = false /\ gen_ua_ok ex_cfg (ex_rec 0 0 None) 0 false 5 = false /\
  gen_ua_ok (mkCfg 1000 300 60 500 10 1 true false) (ex_rec 0 0 None) 0 true 6 = true.
Proof. vm_compute. repeat split; reflexivity. Qed.
