(* C12, part 5: the statements in the form Properties/C12.v quotes them (the
   standing assumptions spelled out), and non-vacuity examples on states built
   by running the model. *)
From Sessions Require Import Model.Base Model.Sess Model.Hist Proofs.SessDefs
  Proofs.CacheInv Proofs.CacheInv2 Proofs.CacheInv3 Proofs.CacheInv4.
From Coq Require Import Lia.
Local Open Scope Z_scope.

Lemma mk_cinv s : plan s = [] -> cache_live s -> NoDup (map fst (cache s)) -> cinv s.
Proof. intros. repeat split; assumption. Qed.

Local Ltac by_cinv L := intros; eapply L; eauto using mk_cinv.

(* ------------------------------------------------------------------ bound *)

Lemma c12_bound_set_new s o ob :
  plan s = [] -> cache_live s -> NoDup (map fst (cache s)) ->
  hget s o = Some ob -> 0 < c_maxcache (conf s) -> lookup (cache s) (o_id ob) = None ->
  Z.of_nat (length (cache (fst (cache_set s o)))) <= c_maxcache (conf s).
Proof. by_cinv set_bound_new. Qed.

Lemma c12_bound_set_cached s o ob o0 :
  plan s = [] -> cache_live s -> NoDup (map fst (cache s)) ->
  hget s o = Some ob -> 0 < c_maxcache (conf s) -> lookup (cache s) (o_id ob) = Some o0 ->
  (Z.of_nat (length (cache s)) <= c_maxcache (conf s) \/
   Z.of_nat (length (rivals s o ob o0)) < c_maxcache (conf s)) ->
  Z.of_nat (length (cache (fst (cache_set s o)))) <= c_maxcache (conf s).
Proof. by_cinv set_bound_cached. Qed.

Lemma c12_bound_set_weak s o ob :
  plan s = [] -> cache_live s -> NoDup (map fst (cache s)) ->
  hget s o = Some ob -> 0 <= c_maxcache (conf s) ->
  Z.of_nat (length (cache (fst (cache_set s o)))) <= c_maxcache (conf s) + 1.
Proof. by_cinv set_bound_weak. Qed.

Lemma c12_bound_get s k r :
  plan s = [] -> cache_live s -> NoDup (map fst (cache s)) ->
  lookup (cache s) k = None -> lookup (store s) k = Some r -> 0 < c_maxcache (conf s) ->
  Z.of_nat (length (cache (fst (cache_get s k)))) <= c_maxcache (conf s).
Proof. by_cinv get_bound. Qed.

(* ------------------------------------------------------- zero / unbounded *)

Lemma c12_zero_set s o ob :
  plan s = [] -> cache_live s -> NoDup (map fst (cache s)) ->
  hget s o = Some ob -> c_maxcache (conf s) = 0 -> cache (fst (cache_set s o)) = [].
Proof. by_cinv set_zero. Qed.

Lemma c12_unbounded_compact s r :
  plan s = [] -> cache_live s -> NoDup (map fst (cache s)) -> c_maxcache (conf s) < 0 ->
  cache (compact s r) = filter (fun e => negb (is_idle s e)) (cache s).
Proof. intros. apply compact_unbounded; auto using mk_cinv. Qed.

Lemma c12_unbounded_set s o ob :
  plan s = [] -> cache_live s -> NoDup (map fst (cache s)) ->
  hget s o = Some ob -> c_maxcache (conf s) < 0 ->
  cache (fst (cache_set s o)) =
  upsert (filter (fun e => negb (is_idle (touch s o) e)) (cache s)) (o_id ob) o.
Proof. by_cinv set_unbounded. Qed.

Lemma c12_unbounded_get s k r :
  plan s = [] -> cache_live s -> NoDup (map fst (cache s)) ->
  lookup (cache s) k = None -> lookup (store s) k = Some r -> c_maxcache (conf s) < 0 ->
  cache (fst (cache_get s k)) =
  upsert (filter (fun e => negb (is_idle s e)) (cache s)) k (length (heap s)).
Proof. intros. apply (get_unbounded' s k r); auto using mk_cinv. lia. Qed.

(* -------------------------------------------------------------------- lru *)

Lemma c12_lru_victim s k o :
  pick_victim s = Some (k, o) ->
  In (k, o) (cache s) /\ forall e, In e (cache s) -> obj_access s o <= obj_access s (snd e).
Proof. intro H. pose proof (pick_victim_spec s) as Hv. rewrite H in Hv. exact Hv. Qed.

Lemma c12_lru_evict fuel s req :
  plan s = [] -> cache_live s -> NoDup (map fst (cache s)) ->
  (length (cache s) <= fuel)%nat -> req <= c_maxcache (conf s) ->
  exists D s',
    evict fuel s req = (s', true) /\ drops Pmin s D s' /\
    Z.of_nat (length (cache s')) + req <= c_maxcache (conf s) /\
    (c_maxcache (conf s) < Z.of_nat (length (cache s)) + req ->
     Z.of_nat (length (cache s')) + req = c_maxcache (conf s)) /\
    (Z.of_nat (length (cache s)) + req <= c_maxcache (conf s) -> D = [] /\ s' = s).
Proof. intros. apply evict_spec; assumption. Qed.

Lemma c12_lru_get s k r k' o' e :
  plan s = [] -> cache_live s -> NoDup (map fst (cache s)) ->
  lookup (cache s) k = None -> lookup (store s) k = Some r -> c_maxcache (conf s) <> 0 ->
  lookup (cache s) k' = Some o' -> lookup (cache (fst (cache_get s k))) k' = None ->
  In e (cache (fst (cache_get s k))) -> fst e <> k ->
  obj_access s o' <= obj_access s (snd e).
Proof. intros. eapply (get_lru s k r); eauto using mk_cinv. Qed.

(* ------------------------------------------------------------------- idle *)

Lemma c12_idle_sweep s r :
  plan s = [] -> cache_live s -> NoDup (map fst (cache s)) ->
  compact s r = size_phase (sweep_phase s) r /\
  cache (sweep_phase s) = filter (fun e => negb (is_idle s e)) (cache s).
Proof.
  intros Hp Hl Hnd. split; [apply compact_phases; assumption|].
  destruct (sweep_phase_spec s Hp Hl Hnd) as [D [_ [_ [Hc _]]]]. exact Hc.
Qed.

Lemma c12_idle_compact s r :
  plan s = [] -> cache_live s -> NoDup (map fst (cache s)) ->
  (forall e, In e (cache (compact s r)) -> In e (cache s) /\ is_idle s e = false) /\
  (forall k o, lookup (cache s) k = Some o -> is_idle s (k, o) = true ->
               lookup (cache (compact s r)) k = None).
Proof.
  intros Hp Hl Hnd. pose proof (mk_cinv s Hp Hl Hnd) as Hi. split.
  - intros e He. exact (compact_survivor s r e Hi He).
  - intros k o. apply compact_idle_gone. exact Hi.
Qed.

Lemma c12_idle_forever s :
  plan s = [] -> cache_live s -> NoDup (map fst (cache s)) -> c_cacheexpiry (conf s) = max64 ->
  (forall e, is_idle s e = false) /\ cache (sweep_phase s) = cache s.
Proof.
  intros Hp Hl Hnd H. split; [intro e; apply is_idle_forever; exact H|].
  apply sweep_forever; auto using mk_cinv.
Qed.

Lemma c12_idle_get s k r e :
  plan s = [] -> cache_live s -> NoDup (map fst (cache s)) ->
  lookup (cache s) k = None -> lookup (store s) k = Some r -> c_maxcache (conf s) <> 0 ->
  In e (cache (fst (cache_get s k))) -> fst e <> k -> In e (cache s) /\ is_idle s e = false.
Proof. intros. eapply (get_survivor s k r); eauto using mk_cinv. Qed.

(* ------------------------------------------------------------------ flush *)

Lemma c12_flush_compact s r k o ob :
  plan s = [] -> cache_live s -> NoDup (map fst (cache s)) ->
  lookup (cache s) k = Some o -> hget s o = Some ob -> lookup (cache (compact s r)) k = None ->
  lookup (store (compact s r)) k = Some (codec (conf s) (o_rec ob)) /\
  hget (compact s r) o = Some ob.
Proof.
  intros Hp Hl Hnd Hk Hob Hgone. pose proof (mk_cinv s Hp Hl Hnd) as Hi. split.
  - exact (compact_flush s r k o ob Hi Hk Hob Hgone).
  - destruct (compact_inv s r Hi) as [_ Hf]. rewrite (hget_heap s) by (apply Hf). exact Hob.
Qed.

Lemma c12_flush_purge s k o ob :
  plan s = [] -> cache_live s -> NoDup (map fst (cache s)) ->
  lookup (cache s) k = Some o -> hget s o = Some ob ->
  cache (purge s) = [] /\ lookup (store (purge s)) k = Some (codec (conf s) (o_rec ob)).
Proof.
  intros Hp Hl Hnd Hk Hob. pose proof (mk_cinv s Hp Hl Hnd) as Hi.
  destruct (purge_spec s Hi) as [_ [Hc _]]. split; [exact Hc|].
  exact (proj2 (purge_flush s k o ob Hi Hk Hob)).
Qed.

Lemma c12_flush_get s k r k' o' ob' :
  plan s = [] -> cache_live s -> NoDup (map fst (cache s)) ->
  lookup (cache s) k = None -> lookup (store s) k = Some r -> c_maxcache (conf s) <> 0 ->
  lookup (cache s) k' = Some o' -> hget s o' = Some ob' ->
  lookup (cache (fst (cache_get s k))) k' = None ->
  lookup (store (fst (cache_get s k))) k' = Some (codec (conf s) (o_rec ob')).
Proof. intros. eapply (get_flush s k r); eauto using mk_cinv. Qed.

Lemma c12_Lc_compact s r :
  plan s = [] -> cache_live s -> NoDup (map fst (cache s)) ->
  (forall k, Lc (compact s r) k = Lc s k) /\ (store_norm s -> store_norm (compact s r)).
Proof.
  intros Hp Hl Hnd. pose proof (mk_cinv s Hp Hl Hnd) as Hi. split.
  - intro k. exact (compact_Lc s r k Hi).
  - exact (compact_store_norm s r Hi).
Qed.

Lemma c12_Lc_purge s :
  plan s = [] -> cache_live s -> NoDup (map fst (cache s)) ->
  (forall k, Lc (purge s) k = Lc s k) /\ (store_norm s -> store_norm (purge s)).
Proof.
  intros Hp Hl Hnd. pose proof (mk_cinv s Hp Hl Hnd) as Hi. split.
  - intro k. exact (purge_Lc s k Hi).
  - exact (purge_store_norm s Hi).
Qed.

Lemma c12_Lc_get s k r :
  plan s = [] -> cache_live s -> NoDup (map fst (cache s)) ->
  lookup (cache s) k = None -> lookup (store s) k = Some r ->
  forall k', Lc (fst (cache_get s k)) k' = Lc s k'.
Proof. intros. eapply (get_Lc s k r); eauto using mk_cinv. Qed.

(* Set leaves the logical contents of every other ID alone (evictions copy
   memory to the store, nothing else changes) *)
Lemma c12_Lc_set s o ob k' :
  plan s = [] -> cache_ok s -> NoDup (map fst (cache s)) -> hget s o = Some ob ->
  k' <> o_id ob -> Lc (fst (cache_set s o)) k' = Lc s k'.
Proof.
  intros Hp Hok Hnd Hob Hne. pose proof (cinv_of_ok s Hp Hok Hnd) as Hi.
  pose proof (set_s1_inv s o Hi) as Hi1.
  set (k := o_id ob) in *. set (rq := if has (cache s) k then 0 else 1).
  set (s2 := compact (touch s o) rq).
  destruct (touch_frame s o) as [Hc1 [Hst1 [Hcf1 _]]].
  assert (H1 : Lc (touch s o) k' = Lc s k').
  { unfold Lc, L. rewrite Hc1, Hst1, Hcf1. destruct (lookup (cache s) k') as [o'|] eqn:Hk'; [|reflexivity].
    rewrite hget_touch_other; [reflexivity|]. exact (ok_other_obj s o ob k' o' Hok Hob Hk' Hne). }
  assert (H2 : Lc s2 k' = Lc (touch s o) k') by (exact (compact_Lc (touch s o) rq k' Hi1)).
  rewrite <- H1, <- H2. rewrite (cache_set_eq s o ob Hob). fold k.
  destruct (compact_inv (touch s o) rq Hi1) as [[Hp2 _] _]. fold s2 in Hp2.
  assert (Hp3 : plan (set_mid s o k) = []).
  { unfold set_mid. fold rq s2. destruct (c_maxcache (conf s2) =? 0); exact Hp2. }
  rewrite p_save_ff by exact Hp3. unfold Lc, L. cbn [fst log set_store set_evs store cache conf].
  change (hget (set_evs (set_store (set_mid s o k) (upsert (store (set_mid s o k)) k
            (codec (conf (set_mid s o k)) (set_access (o_rec ob) (now s)))))
            (EvSave k (codec (conf (set_mid s o k)) (set_access (o_rec ob) (now s))) true :: evs (set_mid s o k))))
    with (hget (set_mid s o k)).
  rewrite lookup_upsert_other by exact Hne.
  unfold set_mid. fold rq s2. destruct (c_maxcache (conf s2) =? 0); [reflexivity|].
  cbn [set_cache cache conf store]. rewrite lookup_upsert_other by exact Hne. reflexivity.
Qed.

(* what the codec does to the access time *)
Lemma codec_access c r :
  r_access (codec c r) = if c_json c then r_access r - r_access r mod second else r_access r.
Proof. reflexivity. Qed.

(* with the store normalised and an uncached key, Lc is just L *)
Lemma Lc_L_uncached s k : store_norm s -> lookup (cache s) k = None -> Lc s k = L s k.
Proof.
  intros Hn Hc. unfold Lc, L. rewrite Hc. destruct (lookup (store s) k) as [r|] eqn:E; [|reflexivity].
  simpl. rewrite (Hn k r E). reflexivity.
Qed.

(* ----------------------------------------------------------- no overevict *)

Lemma c12_exact s r :
  plan s = [] -> cache_live s -> NoDup (map fst (cache s)) ->
  (Z.of_nat (length (cache (sweep_phase s))) + r <= c_maxcache (conf s) ->
   compact s r = sweep_phase s) /\
  (0 <= c_maxcache (conf s) ->
   c_maxcache (conf s) < Z.of_nat (length (cache (sweep_phase s))) + r ->
   Z.of_nat (length (cache (compact s r))) + Z.min r (c_maxcache (conf s)) = c_maxcache (conf s)).
Proof.
  intros Hp Hl Hnd. pose proof (mk_cinv s Hp Hl Hnd) as Hi. split.
  - apply compact_room. exact Hi.
  - apply compact_exact. exact Hi.
Qed.

(* -------------------------------------------------------------- sequences *)

Lemma c12_nogrow s0 ops op :
  plan s0 = [] -> cache_live s0 -> NoDup (map fst (cache s0)) ->
  let s := run_cops s0 ops in
  is_write s op = false -> (length (cache (step_cop s op)) <= length (cache s))%nat.
Proof.
  intros Hp Hl Hnd s. apply step_cop_nogrow. apply run_cops_cinv. apply mk_cinv; assumption.
Qed.

Lemma c12_seq_inv s0 ops :
  plan s0 = [] -> cache_live s0 -> NoDup (map fst (cache s0)) ->
  let s := run_cops s0 ops in plan s = [] /\ cache_live s /\ NoDup (map fst (cache s)).
Proof. intros Hp Hl Hnd. apply run_cops_cinv. apply mk_cinv; assumption. Qed.

Lemma c12_seq_set_bound s0 ops o ob :
  plan s0 = [] -> cache_live s0 -> NoDup (map fst (cache s0)) ->
  let s := run_cops s0 ops in
  hget s o = Some ob -> 0 < c_maxcache (conf s) ->
  Z.of_nat (length (cache (step_cop s (OSet o)))) <= c_maxcache (conf s) + 1 /\
  (lookup (cache s) (o_id ob) = None \/ within s \/
   (exists o0, lookup (cache s) (o_id ob) = Some o0 /\
               Z.of_nat (length (rivals s o ob o0)) < c_maxcache (conf s)) ->
   Z.of_nat (length (cache (step_cop s (OSet o)))) <= c_maxcache (conf s)).
Proof. intros Hp Hl Hnd. apply seq_set_bound. apply mk_cinv; assumption. Qed.

Lemma c12_seq_get_bound s0 ops k r :
  plan s0 = [] -> cache_live s0 -> NoDup (map fst (cache s0)) ->
  let s := run_cops s0 ops in
  lookup (cache s) k = None -> lookup (store s) k = Some r -> 0 < c_maxcache (conf s) ->
  Z.of_nat (length (cache (step_cop s (OGet k)))) <= c_maxcache (conf s).
Proof. intros Hp Hl Hnd. apply seq_get_bound. apply mk_cinv; assumption. Qed.

Lemma c12_seq_within s0 ops :
  plan s0 = [] -> cache_live s0 -> NoDup (map fst (cache s0)) -> within s0 ->
  (forall pre c post, ops = pre ++ OCfg c :: post -> within (set_conf (run_cops s0 pre) c)) ->
  within (run_cops s0 ops).
Proof. intros Hp Hl Hnd. apply run_cops_within. apply mk_cinv; assumption. Qed.

Lemma c12_seq_zero s0 ops :
  plan s0 = [] -> cache_live s0 -> NoDup (map fst (cache s0)) ->
  let s := run_cops s0 ops in
  c_maxcache (conf s) = 0 ->
  (forall o, hget s o <> None -> cache (step_cop s (OSet o)) = []) /\
  (forall k, cache (step_cop s (OGet k)) = cache s).
Proof.
  intros Hp Hl Hnd s Hmx. pose proof (mk_cinv s0 Hp Hl Hnd) as Hi. split.
  - intro o. exact (seq_zero s0 ops (OSet o) Hi Hmx).
  - intro k. exact (seq_zero s0 ops (OGet k) Hi Hmx).
Qed.

(* ------------------------------------------------------------------------ *)
(* Examples: states reached by running the model *)

Definition rec0 (t : Z) : rec := mkRec t t (AOther 0) 0 None None (Some []).
Definition cN (n : Z) (j : bool) : cfg := mkCfg 1000 1000 100 50 n 4 true j.
Definition nw (n : N) := ONew (mkObj (KGen n) (rec0 0)).

(* two sessions cached at instants 0 and 10, a third object not yet cached,
   clock at 20 *)
Definition fill := [nw 0; OSet 0%nat; OTick 10; nw 1; OSet 1%nat; OTick 10; nw 2].
Definition s_full := run_cops (init_st (cN 2 false)) fill.

Lemma s_full_cinv : cinv s_full.
Proof. apply run_cops_cinv. apply cinv_init. Qed.

Lemma cache_ok_b s :
  forallb (fun e => match hget s (snd e) with Some ob => key_eqb (o_id ob) (fst e) | None => false end)
          (cache s) = true -> cache_ok s.
Proof.
  intros H k o Hk. apply lookup_In in Hk. rewrite forallb_forall in H. specialize (H (k, o) Hk).
  cbn [fst snd] in H. destruct (hget s o) as [ob|]; [|discriminate]. exists ob.
  split; [reflexivity | apply key_eqb_eq; exact H].
Qed.

(* C12_bound (uncached), C12_lru, C12_flush: writing the third session into
   the full cache evicts the oldest one, whose record the store then holds *)
Example ex_set_new :
  cinv s_full /\ hget s_full 2 = Some (mkObj (KGen 2) (rec0 0)) /\
  lookup (cache s_full) (KGen 2) = None /\ c_maxcache (conf s_full) = 2 /\
  map fst (cache s_full) = [KGen 0; KGen 1] /\
  map fst (cache (fst (cache_set s_full 2))) = [KGen 1; KGen 2] /\
  lookup (store (fst (cache_set s_full 2))) (KGen 0) = Some (rec0 0).
Proof. split; [exact s_full_cinv|]. vm_compute. repeat split; reflexivity. Qed.

(* the evicted session's logical contents are the same before and after *)
Example ex_Lc_set :
  cache_ok s_full /\
  lookup (cache s_full) (KGen 0) = Some 0%nat /\
  lookup (cache (fst (cache_set s_full 2))) (KGen 0) = None /\
  Lc (fst (cache_set s_full 2)) (KGen 0) = Some (rec0 0) /\ Lc s_full (KGen 0) = Some (rec0 0).
Proof. split; [apply cache_ok_b; reflexivity|]. vm_compute. repeat split; reflexivity. Qed.

(* access times known only to memory reach the store at eviction: the first
   session's access time is refreshed in memory (as Start does) to 15; it is
   now the newest, the second is evicted; later the first is evicted too and
   the store receives 15 *)
Definition s_touch :=
  run_cops s_full [OPut 0%nat (mkObj (KGen 0) (rec0 15)); OSet 2%nat; OTick 10; nw 3].

Example ex_flush_access :
  cinv s_touch /\
  map fst (cache s_touch) = [KGen 0; KGen 2] /\
  option_map r_access (lookup (store s_touch) (KGen 0)) = Some 0 /\
  option_map r_access (L s_touch (KGen 0)) = Some 15 /\
  map fst (cache (fst (cache_set s_touch 3))) = [KGen 2; KGen 3] /\
  option_map r_access (lookup (store (fst (cache_set s_touch 3))) (KGen 0)) = Some 15.
Proof.
  split; [apply run_cops_cinv; exact s_full_cinv|]. vm_compute. repeat split; reflexivity.
Qed.

(* C12_idle: after 100 more time units both entries are older than the limit
   of 50 and are swept by the next write, although there would be room *)
Example ex_idle :
  let s := run_cops s_full [OTick 100] in
  cinv s /\ map (is_idle s) (cache s) = [true; true] /\
  map fst (cache (fst (cache_set s 2))) = [KGen 2] /\
  map fst (store (fst (cache_set s 2))) = [KGen 0; KGen 1; KGen 2].
Proof.
  split; [apply run_cops_cinv; exact s_full_cinv|]. vm_compute. repeat split; reflexivity.
Qed.

(* C12_bound for Get: the evicted session is loaded again; the older of the
   two cached ones makes room; the loaded one keeps its stored access time *)
Example ex_get_load :
  let s := run_cops s_full [OSet 2%nat; OTick 5] in
  cinv s /\ lookup (cache s) (KGen 0) = None /\ lookup (store s) (KGen 0) = Some (rec0 0) /\
  map fst (cache s) = [KGen 1; KGen 2] /\
  map fst (cache (fst (cache_get s (KGen 0)))) = [KGen 2; KGen 0] /\
  map (fun e => obj_access (fst (cache_get s (KGen 0))) (snd e)) (cache (fst (cache_get s (KGen 0)))) = [20; 0].
Proof.
  split; [apply run_cops_cinv; exact s_full_cinv|]. vm_compute. repeat split; reflexivity.
Qed.

(* C12_bound (cached), the tie: N lowered from 3 to 1 with two entries of the
   same access time; the write of the second at that very instant may evict the
   written entry itself (tie-break list), which is then put back: N + 1 *)
Definition tie := [nw 0; OSet 0%nat; nw 1; OSet 1%nat; OCfg (cN 1 false); OTb [KGen 1]].
Definition s_tie := run_cops (init_st (cN 3 false)) tie.

Lemma s_tie_ok : plan s_tie = [] /\ cache_ok s_tie /\ NoDup (map fst (cache s_tie)).
Proof.
  split; [reflexivity|]. split; [apply cache_ok_b; reflexivity|].
  apply (run_cops_cinv tie (init_st (cN 3 false)) (cinv_init _)).
Qed.

Lemma c12_bound_cached_tie_refuted :
  exists s o ob,
    plan s = [] /\ cache_ok s /\ NoDup (map fst (cache s)) /\
    hget s o = Some ob /\ lookup (cache s) (o_id ob) = Some o /\ 0 < c_maxcache (conf s) /\
    Z.of_nat (length (cache (fst (cache_set s o)))) = c_maxcache (conf s) + 1.
Proof.
  exists s_tie, 1%nat, (mkObj (KGen 1) (rec0 0)). destruct s_tie_ok as [H1 [H2 H3]].
  split; [exact H1|]. split; [exact H2|]. split; [exact H3|]. vm_compute. repeat split; reflexivity.
Qed.

(* ... and the same write one time unit later evicts the other entry *)
Example ex_set_cached_spaced :
  let s := run_cops s_tie [OTick 1] in
  plan s = [] /\ cache_ok s /\ NoDup (map fst (cache s)) /\
  lookup (cache s) (KGen 1) = Some 1%nat /\ c_maxcache (conf s) = 1 /\
  (forall k' o', lookup (cache s) k' = Some o' -> k' <> KGen 1 -> obj_access s o' < now s) /\
  map fst (cache (fst (cache_set s 1))) = [KGen 1].
Proof.
  split; [reflexivity|]. split; [apply cache_ok_b; reflexivity|].
  split; [apply (run_cops_cinv [OTick 1] s_tie); apply mk_cinv; try apply s_tie_ok; apply cache_ok_live; apply s_tie_ok|].
  split; [reflexivity|]. split; [reflexivity|]. split; [|reflexivity].
  intros k' o' Hk Hne. vm_compute in Hk.
  destruct k' as [[|p]|n]; try discriminate.
  - injection Hk as <-. vm_compute. reflexivity.
  - destruct p; try discriminate. exfalso. apply Hne. reflexivity.
Qed.

(* C12_zero *)
Example ex_zero :
  let s := run_cops (init_st (cN 0 false)) fill in
  cinv s /\ c_maxcache (conf s) = 0 /\ cache s = [] /\
  map fst (store s) = [KGen 0; KGen 1] /\
  cache (fst (cache_get s (KGen 0))) = [] /\ snd (cache_get s (KGen 0)) = Some (Some 3%nat) /\
  cache (fst (cache_set s 2)) = [].
Proof.
  split; [apply run_cops_cinv; apply cinv_init|]. vm_compute. repeat split; reflexivity.
Qed.

(* N lowered to 0 with a non-empty cache: the next Set empties it (flushing),
   a Get leaves it alone *)
Example ex_zero_lowered :
  let s := run_cops s_full [OCfg (cN 0 false)] in
  cinv s /\ length (cache s) = 2%nat /\
  cache (fst (cache_set s 2)) = [] /\ length (cache (fst (cache_get s (KGen 5)))) = 2%nat.
Proof.
  split; [apply run_cops_cinv; exact s_full_cinv|]. vm_compute. repeat split; reflexivity.
Qed.

(* C12_unbounded: N = -1; three entries, only the idle one leaves *)
Example ex_unbounded :
  let s := run_cops (init_st (cN (-1) false)) (fill ++ [OSet 2%nat; OTick 35]) in
  cinv s /\ map fst (cache s) = [KGen 0; KGen 1; KGen 2] /\
  map (is_idle s) (cache s) = [true; false; false] /\
  map fst (cache (fst (cache_set s 2))) = [KGen 1; KGen 2].
Proof.
  split; [apply run_cops_cinv; apply cinv_init|]. vm_compute. repeat split; reflexivity.
Qed.

(* C12_flush for PurgeSessions, and why the invariant is on Lc, not L: with
   the JSON codec the store keeps instants to the second *)
Definition s_json := run_cops (init_st (cN 2 true)) [nw 0; OTick 1500000000; OSet 0%nat; OTick 10].

Example ex_purge_json :
  cinv s_json /\ store_norm s_json /\
  option_map r_access (L s_json (KGen 0)) = Some 1500000000 /\
  cache (purge s_json) = [] /\
  option_map r_access (L (purge s_json) (KGen 0)) = Some 1000000000 /\
  Lc (purge s_json) (KGen 0) = Lc s_json (KGen 0).
Proof.
  split; [apply run_cops_cinv; apply cinv_init|]. split.
  - intros k r Hk. vm_compute in Hk. destruct k as [[|p]|n]; try discriminate.
    injection Hk as <-. vm_compute. reflexivity.
  - vm_compute. repeat split; reflexivity.
Qed.

(* "forever": SessionCacheExpiry = MaxInt64, an entry from the distant past *)
Example ex_forever :
  let s := run_cops (init_st (mkCfg 1000 1000 100 max64 2 4 true false))
                    [nw 0; OSet 0%nat; OTick max64; OTick max64; nw 1] in
  cinv s /\ c_cacheexpiry (conf s) = max64 /\ now s = 2 * max64 /\
  map fst (cache (fst (cache_set s 1))) = [KGen 0; KGen 1].
Proof.
  split; [apply run_cops_cinv; apply cinv_init|]. vm_compute. repeat split; reflexivity.
Qed.

(* sequences: the bound is broken by lowering N and restored by the next
   write of an uncached ID *)
Example ex_seq :
  let s := run_cops (init_st (cN 3 false)) (fill ++ [OSet 2%nat; OTick 1; OCfg (cN 1 false); nw 3]) in
  cinv s /\ length (cache s) = 3%nat /\ c_maxcache (conf s) = 1 /\ ~ within s /\
  map fst (cache (step_cop s (OSet 3%nat))) = [KGen 3] /\ within (step_cop s (OSet 3%nat)).
Proof.
  split; [apply run_cops_cinv; apply cinv_init|]. split; [reflexivity|]. split; [reflexivity|].
  split; [|split; [reflexivity|]].
  - intro H. unfold within in H. vm_compute in H. specialize (H (fun E => match E with eq_refl => I end)).
    apply H. reflexivity.
  - unfold within. vm_compute. intros _ E. discriminate.
Qed.
