(* C19, part 1: source constants; session IDs (base64 of 16 bytes, cookie
   safety); RandomID. CUID is in IdsLaws2.v. *)
From Coq Require Import String.
From Sessions Require Import Model.Base Model.Ids Gen.Consts Proofs.BaseLemmas.
From Coq Require Import Lia ZifyBool ZifyNat ZifyN.
Local Open Scope N_scope.

(* ------------------------------------------------------------------------ *)
(* The source constants this development was written against, re-checked
   against the regenerated Gen/Consts.v on every run. *)

(* "0123456789ABCDEFGHIJKLMNOPQRSTUVWXYZabcdefghijklmnopqrstuvwxyz" *)
Definition b62_v1 : bytes :=
  [48;49;50;51;52;53;54;55;56;57;
   65;66;67;68;69;70;71;72;73;74;75;76;77;78;79;80;81;82;83;84;85;86;87;88;89;90;
   97;98;99;100;101;102;103;104;105;106;107;108;109;110;111;112;113;114;115;116;
   117;118;119;120;121;122].

Definition cuid_literals_v1 : list N :=
  [1000; 1000000; 1; 40; 1; 0; 255; 5; 8; 0; 65535; 24; 8; 0; 11].

Lemma ids_consts_pinned :
  ids_reference_date = 1483228800000 /\ ids_session_bytes = 16 /\
  ids_start_guard_len = 24 /\
  ids_rid_chars = b62_v1 /\ ids_rid_modulus = 62 /\
  ids_cuid_chars = b62_v1 /\ ids_cuid_base = 62 /\
  ids_cuid_literals = cuid_literals_v1 /\ ids_cuid_digits = 11.
Proof. repeat split; reflexivity. Qed.

(* Where the random bytes come from, and that CUID's state is only touched
   under its mutex (syntactic facts extracted by the translator). *)
Lemma ids_sources_pinned :
  ids_rand_import = "crypto/rand"%string /\
  ids_session_source = "rand.Read(b);"%string /\
  ids_session_encoding = "base64.StdEncoding"%string /\
  ids_rid_source = "rand.Reader.Read(b[:]);"%string /\
  ids_cuid_locked = true.
Proof. repeat split; reflexivity. Qed.

(* ------------------------------------------------------------------------ *)
(* helpers: finite checks over 0..n-1                                        *)

Definition nrange (n : nat) : list N := map N.of_nat (seq 0 n).

Lemma nrange_in (n : nat) (i : N) : i < N.of_nat n -> In i (nrange n).
Proof.
  intro Hi. unfold nrange. apply in_map_iff. exists (N.to_nat i). split.
  - apply N2Nat.id.
  - apply in_seq. lia.
Qed.

Lemma forall_below (P : N -> bool) (n : nat) :
  forallb P (nrange n) = true -> forall i, i < N.of_nat n -> P i = true.
Proof.
  intros Hall i Hi. rewrite forallb_forall in Hall. apply Hall, nrange_in, Hi.
Qed.

Lemma list_ind3 {A} (P : list A -> Prop) :
  P [] -> (forall a, P [a]) -> (forall a b, P [a; b]) ->
  (forall a b c t, P t -> P (a :: b :: c :: t)) -> forall l, P l.
Proof.
  intros H0 H1 H2 H3.
  assert (Hall : forall l, P l /\ (forall a, P (a :: l)) /\ (forall a b, P (a :: b :: l))).
  { induction l as [|x l [IHa [IHb IHc]]].
    - repeat split; auto.
    - repeat split; auto. }
  intro l. apply Hall.
Qed.

Lemma all_bytes_cons (a : N) (s : bytes) :
  all_bytes (a :: s) = true <-> a < 256 /\ all_bytes s = true.
Proof.
  unfold all_bytes, is_byte. cbn [forallb]. rewrite andb_true_iff, N.ltb_lt. tauto.
Qed.

(* ------------------------------------------------------------------------ *)
(* base64                                                                    *)

Lemma b64_index_char (i : N) : i < 64 -> b64_index (b64_char i) = Some i.
Proof.
  intro Hi.
  assert (Hall : forallb (fun i => match b64_index (b64_char i) with
                                   | Some j => j =? i | None => false end) (nrange 64) = true)
    by (vm_compute; reflexivity).
  pose proof (forall_below _ _ Hall i Hi) as H. cbv beta in H.
  destruct (b64_index (b64_char i)) as [j|]; [|discriminate].
  apply N.eqb_eq in H. congruence.
Qed.

Lemma b64_char_not_pad (i : N) : i < 64 -> (b64_char i =? b64_pad) = false.
Proof.
  intro Hi.
  assert (Hall : forallb (fun i => negb (b64_char i =? b64_pad)) (nrange 64) = true)
    by (vm_compute; reflexivity).
  pose proof (forall_below _ _ Hall i Hi) as H. cbv beta in H.
  apply negb_true_iff in H. exact H.
Qed.

Lemma b64_char_in (i : N) : i < 64 -> In (b64_char i) b64_alphabet.
Proof.
  intro Hi. unfold b64_char. apply nth_In.
  change (length b64_alphabet) with 64%nat. lia.
Qed.

(* The four 6-bit groups of three bytes, and back. *)
Lemma sextets (a b c : N) :
  a < 256 -> b < 256 -> c < 256 ->
  a / 4 < 64 /\ (a mod 4) * 16 + b / 16 < 64 /\ (b mod 16) * 4 + c / 64 < 64 /\ c mod 64 < 64 /\
  (a / 4) * 4 + ((a mod 4) * 16 + b / 16) / 16 = a /\
  (((a mod 4) * 16 + b / 16) mod 16) * 16 + ((b mod 16) * 4 + c / 64) / 4 = b /\
  (((b mod 16) * 4 + c / 64) mod 4) * 64 + c mod 64 = c.
Proof. intros Ha Hb Hc. repeat split; lia. Qed.

Lemma b64_decode_quad (c0 c1 c2 c3 : N) (t r : bytes) (i0 i1 i2 i3 : N) :
  b64_index c0 = Some i0 -> b64_index c1 = Some i1 ->
  b64_index c2 = Some i2 -> b64_index c3 = Some i3 ->
  (c2 =? b64_pad) = false -> (c3 =? b64_pad) = false ->
  b64_decode t = Some r ->
  b64_decode (c0 :: c1 :: c2 :: c3 :: t) =
  Some ((i0 * 4 + i1 / 16) :: ((i1 mod 16) * 16 + i2 / 4) :: ((i2 mod 4) * 64 + i3) :: r).
Proof.
  intros H0 H1 H2 H3 P2 P3 Ht. cbn [b64_decode].
  rewrite H0, H1, P2, H2, P3, H3, Ht. reflexivity.
Qed.

Lemma b64_decode_two (c0 c1 c2 : N) (i0 i1 i2 : N) :
  b64_index c0 = Some i0 -> b64_index c1 = Some i1 -> b64_index c2 = Some i2 ->
  (c2 =? b64_pad) = false ->
  b64_decode [c0; c1; c2; b64_pad] = Some [i0 * 4 + i1 / 16; (i1 mod 16) * 16 + i2 / 4].
Proof.
  intros H0 H1 H2 P2. cbn [b64_decode].
  rewrite H0, H1, P2, H2, N.eqb_refl. reflexivity.
Qed.

Lemma b64_decode_one (c0 c1 : N) (i0 i1 : N) :
  b64_index c0 = Some i0 -> b64_index c1 = Some i1 ->
  b64_decode [c0; c1; b64_pad; b64_pad] = Some [i0 * 4 + i1 / 16].
Proof.
  intros H0 H1. cbn [b64_decode]. rewrite H0, H1, N.eqb_refl. reflexivity.
Qed.

(* The decoder is a left inverse of the encoder on byte strings of every
   length. *)
Lemma b64_decode_encode (s : bytes) :
  all_bytes s = true -> b64_decode (b64_encode s) = Some s.
Proof.
  induction s as [|a|a b|a b c t IH] using list_ind3; intro Hs.
  - reflexivity.
  - apply all_bytes_cons in Hs as [Ha _].
    destruct (sextets a 0 0 Ha) as (L0 & L1 & _ & _ & E0 & _); try lia.
    cbn [b64_encode].
    replace ((a mod 4) * 16) with ((a mod 4) * 16 + 0 / 16) by (cbn; lia).
    rewrite (b64_decode_one _ _ _ _ (b64_index_char _ L0) (b64_index_char _ L1)).
    rewrite E0. reflexivity.
  - apply all_bytes_cons in Hs as [Ha Hs]. apply all_bytes_cons in Hs as [Hb _].
    destruct (sextets a b 0 Ha Hb) as (L0 & L1 & L2 & _ & E0 & E1 & _); try lia.
    cbn [b64_encode].
    replace ((b mod 16) * 4) with ((b mod 16) * 4 + 0 / 64) by (cbn; lia).
    rewrite (b64_decode_two _ _ _ _ _ _ (b64_index_char _ L0) (b64_index_char _ L1)
               (b64_index_char _ L2) (b64_char_not_pad _ L2)).
    rewrite E0, E1. reflexivity.
  - apply all_bytes_cons in Hs as [Ha Hs]. apply all_bytes_cons in Hs as [Hb Hs].
    apply all_bytes_cons in Hs as [Hc Hs].
    destruct (sextets a b c Ha Hb Hc) as (L0 & L1 & L2 & L3 & E0 & E1 & E2).
    cbn [b64_encode].
    rewrite (b64_decode_quad _ _ _ _ _ t _ _ _ _
               (b64_index_char _ L0) (b64_index_char _ L1) (b64_index_char _ L2)
               (b64_index_char _ L3) (b64_char_not_pad _ L2) (b64_char_not_pad _ L3) (IH Hs)).
    rewrite E0, E1, E2. reflexivity.
Qed.

Lemma b64_encode_injective (s t : bytes) :
  all_bytes s = true -> all_bytes t = true -> b64_encode s = b64_encode t -> s = t.
Proof.
  intros Hs Ht E. apply b64_decode_encode in Hs, Ht. rewrite E in Hs. congruence.
Qed.

Lemma b64_encode_length (s : bytes) : length (b64_encode s) = (4 * ((length s + 2) / 3))%nat.
Proof.
  induction s as [|a|a b|a b c t IH] using list_ind3; try reflexivity.
  cbn [b64_encode length]. rewrite IH. lia.
Qed.

(* 16 bytes give 24 characters. *)
Lemma b64_length (s : bytes) : length s = 16%nat -> length (b64_encode s) = 24%nat.
Proof. intro H. rewrite b64_encode_length, H. reflexivity. Qed.

(* Every character of an encoding is one of the 65 characters of the
   alphabet and the padding. *)
Lemma b64_encode_chars (s : bytes) :
  all_bytes s = true -> forall ch, In ch (b64_encode s) -> In ch (b64_alphabet ++ [b64_pad]).
Proof.
  assert (Hal : forall i, i < 64 -> In (b64_char i) (b64_alphabet ++ [b64_pad]))
    by (intros i Hi; apply in_or_app; left; apply b64_char_in, Hi).
  assert (Hpad : In b64_pad (b64_alphabet ++ [b64_pad]))
    by (apply in_or_app; right; left; reflexivity).
  induction s as [|a|a b|a b c t IH] using list_ind3; intros Hs ch Hin.
  - destruct Hin.
  - apply all_bytes_cons in Hs as [Ha _]. cbn [b64_encode In] in Hin.
    destruct Hin as [<-|[<-|[<-|[<-|[]]]]]; auto; apply Hal; lia.
  - apply all_bytes_cons in Hs as [Ha Hs]. apply all_bytes_cons in Hs as [Hb _].
    cbn [b64_encode In] in Hin.
    destruct Hin as [<-|[<-|[<-|[<-|[]]]]]; auto; apply Hal; lia.
  - apply all_bytes_cons in Hs as [Ha Hs]. apply all_bytes_cons in Hs as [Hb Hs].
    apply all_bytes_cons in Hs as [Hc Hs].
    cbn [b64_encode In] in Hin.
    destruct Hin as [<-|[<-|[<-|[<-|Hin]]]]; try (apply Hal; lia).
    apply IH; assumption.
Qed.

(* All 65 satisfy net/http's predicate for cookie-value bytes and are neither
   space nor comma (finite check). *)
Lemma b64_alphabet_cookie_safe : forallb cookie_safe_byte (b64_alphabet ++ [b64_pad]) = true.
Proof. vm_compute. reflexivity. Qed.

Lemma b64_cookie_safe (s : bytes) :
  all_bytes s = true -> forallb cookie_safe_byte (b64_encode s) = true.
Proof.
  intro Hs. apply forallb_forall. intros ch Hin.
  pose proof b64_alphabet_cookie_safe as Hall. rewrite forallb_forall in Hall.
  apply Hall, b64_encode_chars with (s := s); assumption.
Qed.

(* ------------------------------------------------------------------------ *)
(* cookie values made of safe bytes pass http.SetCookie and the request
   parser unchanged                                                          *)

Lemma filter_all {A} (f : A -> bool) (l : list A) : forallb f l = true -> filter f l = l.
Proof.
  induction l as [|x l IH]; cbn [forallb filter]; intro H; [reflexivity|].
  apply andb_true_iff in H as [Hx Hl]. rewrite Hx, IH by assumption. reflexivity.
Qed.

Lemma cookie_safe_split (v : bytes) :
  forallb cookie_safe_byte v = true ->
  forallb valid_cookie_value_byte v = true /\ existsb cookie_needs_quotes v = false.
Proof.
  induction v as [|x v IH]; cbn [forallb existsb]; intro H; [split; reflexivity|].
  apply andb_true_iff in H as [Hx Hv]. destruct (IH Hv) as [IH1 IH2].
  unfold cookie_safe_byte in Hx. apply andb_true_iff in Hx as [Hx1 Hx2].
  apply negb_true_iff in Hx2. rewrite Hx1, Hx2, IH1, IH2. split; reflexivity.
Qed.

Lemma cookie_safe_roundtrip (v : bytes) :
  forallb cookie_safe_byte v = true ->
  sanitize_cookie_value v = v /\ parse_cookie_value v = Some v.
Proof.
  intro H. destruct (cookie_safe_split v H) as [Hvalid Hnq]. split.
  - unfold sanitize_cookie_value. rewrite (filter_all _ _ Hvalid), Hnq. reflexivity.
  - unfold parse_cookie_value.
    assert (Hq : ((1 <? N.of_nat (length v)) && (hd 0 v =? 34) && (last v 0 =? 34)) = false).
    { destruct v as [|x v]; [reflexivity|].
      cbn [forallb] in Hvalid. apply andb_true_iff in Hvalid as [Hx _].
      unfold valid_cookie_value_byte in Hx.
      cbn [hd]. destruct (x =? 34) eqn:E.
      - rewrite !andb_true_iff in Hx. cbn in Hx. intuition discriminate.
      - rewrite andb_false_r. reflexivity. }
    rewrite Hq, Hvalid. reflexivity.
Qed.

(* ------------------------------------------------------------------------ *)
(* generateSessionID                                                         *)

Lemma all_bytes_firstn (n : nat) (s : bytes) : all_bytes s = true -> all_bytes (firstn n s) = true.
Proof.
  unfold all_bytes. rewrite !forallb_forall. intros H x Hx. apply H.
  rewrite <- (firstn_skipn n s). apply in_or_app. left. exact Hx.
Qed.

Lemma generate_session_id_spec (stream id rest : bytes) :
  generate_session_id stream = Some (id, rest) ->
  (16 <= length stream)%nat /\ id = b64_encode (firstn 16 stream) /\ rest = skipn 16 stream.
Proof.
  unfold generate_session_id. change ids_session_bytes with 16. change (N.to_nat 16) with 16%nat.
  destruct (N.of_nat (length stream) <? 16) eqn:E; [discriminate|].
  intro H. injection H as <- <-. apply N.ltb_ge in E. repeat split. lia.
Qed.

(* Exactly 16 bytes are taken, the ID has 24 characters, and it passes the
   length guard of Start. *)
Lemma session_id_shape (stream id rest : bytes) :
  generate_session_id stream = Some (id, rest) ->
  length id = 24%nat /\ (length rest + 16 = length stream)%nat /\ start_guard id = true.
Proof.
  intro H. apply generate_session_id_spec in H as (Hlen & -> & ->).
  assert (L : length (b64_encode (firstn 16 stream)) = 24%nat)
    by (apply b64_length, firstn_length_le, Hlen).
  repeat split.
  - exact L.
  - rewrite skipn_length. lia.
  - unfold start_guard. rewrite L. reflexivity.
Qed.

Lemma session_id_total (stream : bytes) :
  (16 <= length stream)%nat -> exists id rest, generate_session_id stream = Some (id, rest).
Proof.
  intro H. unfold generate_session_id. change ids_session_bytes with 16.
  destruct (N.of_nat (length stream) <? 16) eqn:E.
  - apply N.ltb_lt in E. lia.
  - eauto.
Qed.

(* Different 16 bytes give different IDs: the ID set is an injective image of
   the 2^128 byte strings. *)
Lemma session_id_injective (s1 s2 id r1 r2 : bytes) :
  all_bytes s1 = true -> all_bytes s2 = true ->
  generate_session_id s1 = Some (id, r1) -> generate_session_id s2 = Some (id, r2) ->
  firstn 16 s1 = firstn 16 s2.
Proof.
  intros B1 B2 H1 H2.
  apply generate_session_id_spec in H1 as (_ & E1 & _).
  apply generate_session_id_spec in H2 as (_ & E2 & _).
  apply b64_encode_injective; try (apply all_bytes_firstn; assumption). congruence.
Qed.

(* Every ID survives Set-Cookie rendering and Cookie parsing unchanged. *)
Lemma session_id_cookie_roundtrip (stream id rest : bytes) :
  all_bytes stream = true ->
  generate_session_id stream = Some (id, rest) ->
  forallb cookie_safe_byte id = true /\
  sanitize_cookie_value id = id /\ parse_cookie_value id = Some id.
Proof.
  intros B H. apply generate_session_id_spec in H as (_ & -> & _).
  assert (S : forallb cookie_safe_byte (b64_encode (firstn 16 stream)) = true)
    by (apply b64_cookie_safe, all_bytes_firstn, B).
  split; [exact S | apply cookie_safe_roundtrip, S].
Qed.

(* ------------------------------------------------------------------------ *)
(* RandomID                                                                  *)

Lemma random_id_loop_some (n : nat) (stream acc : bytes) :
  (n <= length stream)%nat ->
  random_id_loop n stream acc =
  Some (rev (map rid_symbol (firstn n stream)) ++ acc, skipn n stream).
Proof.
  revert stream acc. induction n as [|n IH]; intros stream acc Hn.
  - reflexivity.
  - destruct stream as [|b rest]; [cbn in Hn; lia|].
    cbn [random_id_loop firstn skipn map rev]. rewrite IH by (cbn in Hn; lia).
    rewrite <- app_assoc. reflexivity.
Qed.

Lemma random_id_loop_none (n : nat) (stream acc : bytes) :
  (length stream < n)%nat -> random_id_loop n stream acc = None.
Proof.
  revert stream acc. induction n as [|n IH]; intros stream acc Hn; [lia|].
  destruct stream as [|b rest]; [reflexivity|].
  cbn [random_id_loop]. apply IH. cbn in Hn. lia.
Qed.

(* The result, when there is one, is the symbols of the first n bytes of the
   stream in reverse order of reading, and exactly n bytes were taken. *)
Lemma random_id_spec (n : nat) (stream id rest : bytes) :
  random_id n stream = Some (id, rest) ->
  (n <= length stream)%nat /\ id = rev (map rid_symbol (firstn n stream)) /\ rest = skipn n stream.
Proof.
  unfold random_id. intro H.
  destruct (Nat.le_gt_cases n (length stream)) as [Hle|Hgt].
  - rewrite random_id_loop_some in H by assumption. rewrite app_nil_r in H.
    injection H as <- <-. auto.
  - rewrite random_id_loop_none in H by assumption. discriminate.
Qed.

Lemma random_id_total (n : nat) (stream : bytes) :
  (n <= length stream)%nat -> exists id rest, random_id n stream = Some (id, rest).
Proof. intro H. unfold random_id. rewrite random_id_loop_some by assumption. eauto. Qed.

(* exactly n characters, for every n; exactly n bytes consumed *)
Lemma rid_length (n : nat) (stream id rest : bytes) :
  random_id n stream = Some (id, rest) ->
  length id = n /\ (length rest + n = length stream)%nat.
Proof.
  intro H. apply random_id_spec in H as (Hn & -> & ->).
  rewrite rev_length, map_length, firstn_length_le, skipn_length by assumption. lia.
Qed.

Lemma rid_symbol_in (b : N) : In (rid_symbol b) ids_rid_chars.
Proof.
  unfold rid_symbol. apply nth_In.
  change ids_rid_modulus with 62. change (length ids_rid_chars) with 62%nat.
  assert (b mod 62 < 62) by (apply N.mod_lt; discriminate). lia.
Qed.

(* every character is one of the 62 symbols, whatever the reader delivers *)
Lemma rid_alphabet (n : nat) (stream id rest : bytes) :
  random_id n stream = Some (id, rest) -> forall ch, In ch id -> In ch ids_rid_chars.
Proof.
  intros H ch Hin. apply random_id_spec in H as (_ & -> & _).
  apply in_rev, in_map_iff in Hin as (b & <- & _). apply rid_symbol_in.
Qed.

(* every one of the 62 symbols is the image of some byte *)
Lemma rid_surjective (ch : N) :
  In ch ids_rid_chars -> exists b, b < 256 /\ rid_symbol b = ch.
Proof.
  intro Hin.
  assert (Hall : forallb (fun ch => existsb (fun b => rid_symbol b =? ch) (nrange 256))
                         ids_rid_chars = true) by (vm_compute; reflexivity).
  rewrite forallb_forall in Hall. apply Hall in Hin.
  apply existsb_exists in Hin as (b & Hb & E). apply N.eqb_eq in E.
  exists b. split; [|exact E].
  unfold nrange in Hb. apply in_map_iff in Hb as (k & <- & Hk). apply in_seq in Hk. lia.
Qed.

(* ... and therefore occurs in IDs of every positive length *)
Lemma rid_every_symbol_occurs (ch : N) (n : nat) :
  In ch ids_rid_chars -> (0 < n)%nat ->
  exists stream id, all_bytes stream = true /\ random_id n stream = Some (id, []) /\ In ch id.
Proof.
  intros Hin Hn. destruct (rid_surjective ch Hin) as (b & Hb & E).
  exists (repeat b n), (rev (map rid_symbol (repeat b n))). repeat split.
  - unfold all_bytes. apply forallb_forall. intros x Hx. apply repeat_spec in Hx. subst x.
    unfold is_byte. apply N.ltb_lt, Hb.
  - unfold random_id. rewrite random_id_loop_some by (rewrite repeat_length; lia).
    rewrite app_nil_r, firstn_all2, skipn_all2 by (rewrite repeat_length; lia). reflexivity.
  - apply -> in_rev. apply in_map_iff. exists b. split; [exact E|].
    destruct n; [lia|]. left. reflexivity.
Qed.

(* the 62 symbols are distinct, and are exactly the digits and letters *)
Definition alnum (b : N) : bool :=
  ((48 <=? b) && (b <=? 57)) || ((65 <=? b) && (b <=? 90)) || ((97 <=? b) && (b <=? 122)).

Lemma rid_symbols :
  length ids_rid_chars = 62%nat /\ NoDup ids_rid_chars /\
  forall b, In b ids_rid_chars <-> alnum b = true.
Proof.
  split; [reflexivity|]. split.
  - change ids_rid_chars with b62_v1. unfold b62_v1.
    repeat (constructor; [cbn [In]; intro H; repeat (destruct H as [H|H]; [discriminate|]); exact H|]).
    constructor.
  - intro b. split.
    + intro H. assert (Hall : forallb alnum ids_rid_chars = true) by (vm_compute; reflexivity).
      rewrite forallb_forall in Hall. apply Hall, H.
    + intro H. destruct (N.lt_ge_cases b 123) as [Hlt|Hge].
      * assert (Hall : forallb (fun b => negb (alnum b) || existsb (N.eqb b) ids_rid_chars)
                               (nrange 123) = true) by (vm_compute; reflexivity).
        pose proof (forall_below _ _ Hall b Hlt) as Hb. cbv beta in Hb.
        rewrite H in Hb. cbn [negb orb] in Hb.
        apply existsb_exists in Hb as (x & Hx & E). apply N.eqb_eq in E. subst x. exact Hx.
      * unfold alnum in H. lia.
Qed.

(* ------------------------------------------------------------------------ *)
(* non-vacuity                                                               *)

(* bytes 0..14, 255 encode to "AAECAwQFBgcICQoLDA0O/w==", which decodes back *)
Example b64_example :
  let s := [0;1;2;3;4;5;6;7;8;9;10;11;12;13;14;255] in
  all_bytes s = true /\ length s = 16%nat /\
  b64_encode s = [65;65;69;67;65;119;81;70;66;103;99;73;67;81;111;76;68;65;48;79;47;119;61;61] /\
  b64_decode (b64_encode s) = Some s /\
  generate_session_id (s ++ [7; 7]) = Some (b64_encode s, [7; 7]).
Proof. vm_compute. repeat split. Qed.

(* too short a stream gives no ID; the hypotheses of the cookie lemmas matter:
   a value with a space is quoted, one with a semicolon is altered *)
Example session_id_counterexamples :
  generate_session_id [1; 2; 3] = None /\
  sanitize_cookie_value [97; 32; 98] = [34; 97; 32; 98; 34] /\
  sanitize_cookie_value [97; 59; 98] = [97; 98] /\
  parse_cookie_value [97; 59; 98] = None /\
  parse_cookie_value [34; 97; 32; 98; 34] = Some [97; 32; 98].
Proof. vm_compute. repeat split. Qed.

(* bytes 0, 61, 62, 63 map to '0', 'z', '0', '1'; the first byte read is last *)
Example rid_example :
  random_id 3 [0; 61; 62; 63] = Some ([48; 122; 48], [63]) /\
  random_id 0 [9] = Some ([], [9]) /\
  random_id 2 [5] = None /\
  rid_symbol 255 = 55 /\ rid_symbol 61 = 122.
Proof. vm_compute. repeat split. Qed.
