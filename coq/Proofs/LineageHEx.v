(* Round 4, task R4(a), second follow-up: non-vacuity of the theorems of
   Proofs/LineageG2.v and LineageH2.v (Properties/C07L.v). The example of
   LineageEx.v in which the ending request itself changes the ID twice (Start
   rotates ID 1 to ID 2, the handler calls RegenerateID: ID 3, then Destroy) while
   the chain 0 -> 1 existed before it; afterwards client 3's step with three ID
   changes stops after 3 of its 7 persistence calls, the process restarts, and
   the oldest ID is presented.

   Everything below is checked by computation on the model or by applying the
   theorems; nothing here is a general claim. *)
From Sessions Require Import Model.Base Model.Sess Model.Hist Model.Corr Proofs.SessDefs
  Proofs.HistInv Proofs.HistInv2 Proofs.HistInv3 Proofs.HistLift3 Proofs.HistLift4 Proofs.IsoLaws Proofs.DeadLaws
  Proofs.Lineage Proofs.Lineage3 Proofs.Lineage4 Proofs.Lineage5 Proofs.LineageEx
  Proofs.LineageK Proofs.LineageK2 Proofs.LineageF Proofs.LineageKEx Proofs.LineageG2 Proofs.LineageH2.

Definition lh_h2 : list hop := [HReq (lk_other (Some 3)); HRestart].

Example lh_presented_chain :
  lineage (w_st lx_w1c) (KGen 3) (KGen 0) /\ lineage (w_st lx_w1c) (KGen 3) (KGen 1) /\
  dead_answer (snd (step (after lx_w1c lh_h2) (lx_forge 0 true))) /\
  ~ late_hist lx_w1c lh_h2.
Proof.
  destruct lx_changing_hyps as (Hpr & (r0 & HL) & Hne & Hn & _ & Hfin & _ & Hch).
  assert (F1 : Forall ff_hop lx_h1c) by (repeat constructor).
  destruct (destroyed_presented_chain_any lx_cfg lx_h1c lx_endc (KGen 1) r0 F1 eq_refl eq_refl Hpr HL Hne Hn)
    as (kn & rcf & A1 & A2 & A3).
  assert (kn = KGen 3).
  { rewrite A1 in Hfin. cbn [option_map fst] in Hfin. congruence. }
  subst kn. split; [apply A2; exact Hch|]. split; [apply A2; constructor|].
  assert (F2 : Forall ff_hop lh_h2) by (repeat constructor).
  split; [exact (A3 (KGen 0) lh_h2 (lx_rq 2 (PForge (CKey (KGen 0))) true []) Hch F2 eq_refl eq_refl eq_refl)|].
  intros [H _]. vm_compute in H. discriminate H.
Qed.

Example lh_answers :
  map (fun o => (ob_res o, option_map fst (ob_start o), ob_cookies o))
      (run_from lx_w1c (lh_h2 ++ [lx_forge 0 true; lx_forge 1 false; lx_forge 2 false; lx_forge 3 true])) =
  [(RCrashed, None, []); (RVoid, None, []);
   (RErr ERefMissing, None, []); (RErr ERefMissing, None, []); (RErr ERefMissing, None, []);
   (RSess, Some (KGen 6), [CkDelete; CkLive (KGen 6)])].
Proof. vm_compute. reflexivity. Qed.

(* a replaced-ID record through a crash that cuts off saves: 0 -> 1 stays or goes *)
Example lh_ref_fate :
  let w := after lx_early (skipn 1 lx_h1 ++ [HReq lx_end] ++ lh_h2) in
  L (w_st w) (KGen 0) = None \/ exists r', L (w_st w) (KGen 0) = Some r' /\ r_ref r' = Some (KGen 1).
Proof.
  cbv zeta.
  destruct (ref_fate_any lx_early (skipn 1 lx_h1 ++ [HReq lx_end] ++ lh_h2) (KGen 0) (KGen 1)
              (mkRec 0 0 (AOther 0) 7 (Some (KGen 1)) None None)) as (_ & _ & H).
  - apply LIx_reach. repeat constructor.
  - vm_compute. reflexivity.
  - reflexivity.
  - repeat constructor.
  - exact H.
Qed.
