(* C15 (a): the lockset discipline excludes data races. For all traces — any
   number of threads, objects, locks. *)
From Coq Require Import List Arith Lia Bool String NArith.
From Sessions Require Import Model.Base Model.Lockset.
Import ListNotations.

Lemma hb_lt : forall tr i j, hb tr i j -> i < j.
Proof. induction 1; lia. Qed.

(* ---- facts about holding a lock ---- *)

Lemma holds_mono : forall tr a p q t l m,
  a < p -> ev tr a = Some (Acq t l m) ->
  (forall r m', a < r -> r < q -> ev tr r <> Some (Rel t l m')) ->
  p <= q -> holds tr p t l m.
Proof.
  intros tr a p q t l m Hap Hacq Hno Hpq.
  exists a. repeat split; auto. intros r m' H1 H2. apply Hno; lia.
Qed.

(* An acquisition that succeeds contradicts a conflicting holder. *)
Lemma acq_excl : forall tr a t u l m1 m2,
  wf_locks tr -> ev tr a = Some (Acq u l m2) -> holds tr a t l m1 ->
  (t <> u \/ True) -> (m1 = Ex \/ m2 = Ex \/ t = u) -> False.
Proof.
  intros tr a t u l m1 m2 Hwf Hacq Hh _ Hm.
  specialize (Hwf a). rewrite Hacq in Hwf.
  destruct m2.
  - destruct Hwf as [HnoEx Hself].
    destruct Hm as [-> | [Hm | ->]]; [ exact (HnoEx _ Hh) | discriminate | exact (Hself _ Hh) ].
  - exact (Hwf _ _ Hh).
Qed.

Lemma holds_excl : forall tr p t u l m1 m2,
  wf_locks tr -> holds tr p t l m1 -> holds tr p u l m2 -> t <> u ->
  (m1 = Ex \/ m2 = Ex) -> False.
Proof.
  intros tr p t u l m1 m2 Hwf [at_ [Hat [Eat Nat_]]] [au [Hau [Eau Nau]]] Hne Hm.
  destruct (lt_eq_lt_dec at_ au) as [[Hlt | Heq] | Hgt].
  - (* u acquired while t was holding *)
    apply (acq_excl tr au t u l m1 m2 Hwf Eau); [ | auto | tauto ].
    exists at_. repeat split; auto. intros q m' H1 H2. apply Nat_; lia.
  - subst. rewrite Eat in Eau. inversion Eau. contradiction.
  - apply (acq_excl tr at_ u t l m2 m1 Hwf Eat); [ | auto | tauto ].
    exists au. repeat split; auto. intros q m' H1 H2. apply Nau; lia.
Qed.

(* A thread holds a lock in one mode only. *)
Lemma holds_fun : forall tr p t l m m',
  wf_locks tr -> holds tr p t l m -> holds tr p t l m' -> m = m'.
Proof.
  intros tr p t l m m' Hwf [a [Ha [Ea Na]]] [b [Hb [Eb Nb]]].
  destruct (lt_eq_lt_dec a b) as [[Hlt | Heq] | Hgt].
  - exfalso. apply (acq_excl tr b t t l m m' Hwf Eb); [ | auto | tauto ].
    exists a. repeat split; auto. intros q m0 H1 H2. apply Na; lia.
  - subst. rewrite Ea in Eb. now inversion Eb.
  - exfalso. apply (acq_excl tr a t t l m' m Hwf Ea); [ | auto | tauto ].
    exists b. repeat split; auto. intros q m0 H1 H2. apply Nb; lia.
Qed.

Definition is_rel (t : thread) (l : lock) (e : option event) : Prop :=
  exists m, e = Some (Rel t l m).

Lemma is_rel_dec : forall t l e, {is_rel t l e} + {~ is_rel t l e}.
Proof.
  intros t l [[t' l' m | t' l' m | | |] |]; try (right; intros [m0 H]; discriminate).
  destruct (Nat.eq_dec t t') as [-> | Hn]; [ | right; intros [m0 H]; congruence ].
  destruct (Nat.eq_dec l l') as [-> | Hn]; [ | right; intros [m0 H]; congruence ].
  left. now exists m.
Qed.

(* The first release of l by t strictly between lo and hi, if there is one. *)
Lemma first_rel : forall tr t l lo hi,
  (exists q, lo < q /\ q < hi /\ is_rel t l (ev tr q) /\
             forall r, lo < r -> r < q -> ~ is_rel t l (ev tr r)) \/
  (forall r, lo < r -> r < hi -> ~ is_rel t l (ev tr r)).
Proof.
  intros tr t l lo hi. induction hi as [| hi IH].
  - right. intros; lia.
  - destruct IH as [[q [H1 [H2 [H3 H4]]]] | Hnone].
    + left. exists q. repeat split; auto.
    + destruct (le_lt_dec hi lo) as [Hle | Hlt].
      * right. intros r H1 H2. lia.
      * destruct (is_rel_dec t l (ev tr hi)) as [Hr | Hr].
        -- left. exists hi. repeat split; auto.
        -- right. intros r H1 H2. destruct (Nat.eq_dec r hi) as [-> | Hn]; auto. apply Hnone; lia.
Qed.

(* Two accesses made under one lock, at least one of them exclusively, by
   different threads, are ordered. *)
Lemma locked_accesses_ordered : forall tr i j t u o o' f f' k k' l m1 m2,
  wf_locks tr -> i < j ->
  ev tr i = Some (Acc t o f k) -> ev tr j = Some (Acc u o' f' k') ->
  t <> u -> holds tr i t l m1 -> holds tr j u l m2 -> (m1 = Ex \/ m2 = Ex) ->
  hb tr i j.
Proof.
  intros tr i j t u o o' f f' k k' l m1 m2 Hwf Hij Ei Ej Hne Ht Hu Hm.
  destruct Hu as [au [Hau [Eau Nau]]].
  destruct (lt_eq_lt_dec au i) as [[Hlt | Heq] | Hgt].
  - (* u already held l at i: impossible *)
    exfalso. apply (holds_excl tr i t u l m1 m2 Hwf Ht); auto.
    exists au. repeat split; auto. intros q m' H1 H2. apply Nau; lia.
  - subst. rewrite Ei in Eau. discriminate.
  - destruct Ht as [at_ [Hat [Eat Nat_]]].
    destruct (first_rel tr t l i au) as [[q [Hq1 [Hq2 [[mq Eq] Hfirst]]]] | Hnone].
    + (* t released at q, for the first time since i *)
      assert (Hholdq : holds tr q t l m1).
      { exists at_. repeat split; auto; try lia. intros r m' H1 H2 Er.
        destruct (lt_eq_lt_dec r i) as [[Hri | Hri] | Hri].
        - now apply (Nat_ r m').
        - subst. rewrite Ei in Er. discriminate.
        - apply (Hfirst r); auto. now exists m'. }
      assert (Hwfq := Hwf q). rewrite Eq in Hwfq.
      assert (mq = m1) by (eapply holds_fun; eauto). subst mq.
      apply hb_trans with q.
      { eapply hb_po; eauto. }
      apply hb_trans with au.
      { eapply hb_sync; eauto. }
      eapply hb_po; eauto.
    + (* t never released before u acquired: impossible *)
      exfalso. apply (acq_excl tr au t u l m1 m2 Hwf Eau); [ | auto | tauto ].
      exists at_. repeat split; auto; try lia. intros r m' H1 H2 Er.
      destruct (lt_eq_lt_dec r i) as [[Hri | Hri] | Hri].
      * now apply (Nat_ r m').
      * subst. rewrite Ei in Er. discriminate.
      * apply (Hnone r); auto. now exists m'.
Qed.

(* ---- the theorem ---- *)

Theorem lockset_sound : forall (g : obj -> field -> guard) (tr : trace),
  wf_trace tr -> disciplined g tr ->
  forall i j, i < j -> conflict tr i j -> hb tr i j.
Proof.
  intros g tr [Hwf Hpub] Hdisc i j Hij [t [u [o [f [k [k' [Ei [Ej [Hne Hw]]]]]]]]].
  destruct (Hdisc _ _ _ _ _ Ei) as [Hinit_i | [Hpub_i Hg_i]];
  destruct (Hdisc _ _ _ _ _ Ej) as [Hinit_j | [Hpub_j Hg_j]].
  - (* both before publication by their own thread: two publishers *)
    destruct Hinit_i as [q [_ Eq]]. destruct Hinit_j as [q' [_ Eq']].
    assert (q = q') by (eapply Hpub; eauto). subst q'.
    rewrite Eq in Eq'. inversion Eq'. contradiction.
  - (* i initialises, j comes after the publication *)
    destruct Hinit_i as [q [Hiq Eq]].
    apply hb_trans with q; [ | eapply Hpub_j; eauto ].
    eapply hb_po; eauto.
  - (* j initialises although i, by another thread, is already after the publication *)
    destruct Hinit_j as [q [Hjq Eq]].
    assert (Hlt := hb_lt _ _ _ (Hpub_i _ _ Eq)). lia.
  - destruct (g o f) as [l | | c].
    + (* lock-protected *)
      destruct Hw as [-> | ->].
      * destruct k'.
        -- destruct Hg_j as [m2 Hj]. eapply locked_accesses_ordered; eauto.
        -- eapply locked_accesses_ordered; eauto.
      * destruct k.
        -- destruct Hg_i as [m1 Hi]. eapply locked_accesses_ordered; eauto.
        -- eapply locked_accesses_ordered; eauto.
    + (* immutable: neither is a write *)
      destruct Hw as [-> | ->]; discriminate.
    + (* confined: same thread *)
      subst. contradiction.
Qed.

Corollary lockset_race_free : forall g tr,
  wf_trace tr -> disciplined g tr -> race_free tr.
Proof.
  intros g tr Hwf Hd i j [Hij [Hc Hn]]. apply Hn. eapply lockset_sound; eauto.
Qed.

(* ---- non-vacuity ---- *)

(* Two threads write and read field 0 of object 0 under lock 0; the object was
   created and published by thread 1. *)
Definition ex_trace : trace :=
  [ Acc 1 0 0 Wr; Pub 1 0; Fork 1 2;
    Acq 1 0 Ex; Acc 1 0 0 Wr; Rel 1 0 Ex;
    Acq 2 0 Sh; Acc 2 0 0 Rd; Rel 2 0 Sh ].

Lemma nth_error_None_ge : forall (tr : trace) p, p >= length tr -> ev tr p = None.
Proof. intros. apply nth_error_None. lia. Qed.

Ltac cases_pos p n :=
  match n with
  | O => idtac
  | S ?n' => destruct p as [| p]; [ | cases_pos p n' ]
  end.

Example ex_trace_wf : wf_trace ex_trace.
Proof.
  split.
  - intro p. cases_pos p 9; cbn; auto.
    + (* Acq 1 0 Ex at 3 *)
      intros u m [a [Ha [Ea _]]]. cases_pos a 3; cbn in Ea; try discriminate; lia.
    + (* Rel 1 0 Ex at 5 *)
      exists 3. repeat split; auto. intros q m' H1 H2. assert (q = 4) by lia. subst. cbn. discriminate.
    + (* Acq 2 0 Sh at 6 *)
      split.
      * intros u [a [Ha [Ea Na]]]. cases_pos a 6; cbn in Ea; try discriminate; try lia.
        inversion Ea; subst. apply (Na 5 Ex); cbn; auto; lia.
      * intros m [a [Ha [Ea _]]]. cases_pos a 6; cbn in Ea; try discriminate; lia.
    + (* Rel 2 0 Sh at 8 *)
      exists 6. repeat split; auto. intros q m' H1 H2. assert (q = 7) by lia. subst. cbn. discriminate.
    + destruct p; cbn; exact I.
  - intros p q t u o Ep Eq.
    assert (p = 1).
    { cases_pos p 9; cbn in Ep; try discriminate; auto.
      destruct p; discriminate. }
    assert (q = 1).
    { cases_pos q 9; cbn in Eq; try discriminate; auto.
      destruct q; discriminate. }
    lia.
Qed.

Example ex_trace_disciplined : disciplined (fun _ _ => GLock 0) ex_trace.
Proof.
  intros p t o f k Ep.
  assert (Hpub : forall q c, ev ex_trace q = Some (Pub c 0) -> q = 1 /\ c = 1).
  { intros q c Eq. cases_pos q 9; cbn in Eq; try discriminate.
    - inversion Eq; auto.
    - destruct q; discriminate. }
  cases_pos p 9; cbn in Ep; try discriminate.
  - (* the initialising write *)
    inversion Ep; subst. left. exists 1. split; auto.
  - (* thread 1 writes under the lock *)
    inversion Ep; subst. right. split.
    + intros q c Eq. destruct (Hpub _ _ Eq) as [-> ->].
      eapply hb_po with (ei := Pub 1 0) (ej := Acc 1 0 0 Wr); cbn; auto; lia.
    + cbn. exists 3. repeat split; auto. intros q m' H1 H2. lia.
  - (* thread 2 reads under the shared lock *)
    inversion Ep; subst. right. split.
    + intros q c Eq. destruct (Hpub _ _ Eq) as [-> ->].
      apply hb_trans with 2.
      * eapply hb_po with (ei := Pub 1 0) (ej := Fork 1 2); cbn; auto; lia.
      * eapply hb_fork with (t := 1) (u := 2) (ej := Acc 2 0 0 Rd); cbn; auto; lia.
    + cbn. exists Sh. exists 6. repeat split; auto. intros q m' H1 H2. lia.
  - destruct p; discriminate.
Qed.

(* The theorem applies and orders the conflicting write (4) and read (7). *)
Example ex_trace_ordered : hb ex_trace 4 7.
Proof.
  apply (lockset_sound _ _ ex_trace_wf ex_trace_disciplined); [ lia | ].
  exists 1, 2, 0, 0, Wr, Rd. cbn. repeat split; auto.
Qed.

(* The D7 pattern: a write under the lock and an unlocked read by another
   thread is a race — the definition is not vacuous. *)
Definition d7_trace : trace :=
  [ Acq 1 0 Ex; Acc 1 0 0 Wr; Rel 1 0 Ex; Acc 2 0 0 Rd ].

Example d7_trace_races : race d7_trace 1 3.
Proof.
  split; [ lia | split ].
  - exists 1, 2, 0, 0, Wr, Rd. cbn. repeat split; auto.
  - (* nothing orders anything with position 3: it is the only event of thread 2,
       no acquisition follows a release, nobody forks *)
    assert (H : forall i j, hb d7_trace i j -> j <> 3).
    { induction 1 as [i j ei ej Hij Ei Ej Ht | i j t u l m m' Hij Ei Ej _ | i j t u ej Hij Ei _ _ | ]; auto.
      - intros ->. cases_pos i 3; cbn in Ei, Ej; try lia;
          inversion Ei; inversion Ej; subst; cbn in Ht; discriminate.
      - intros ->. cbn in Ej. discriminate.
      - intros ->. cases_pos i 3; cbn in Ei; try discriminate; lia. }
    intro Hhb. exact (H _ _ Hhb eq_refl).
Qed.

(* ------------------------------------------------------------------ *)
(* From the table to the discipline                                     *)
(* ------------------------------------------------------------------ *)

(* What a syntactic table can give. A run of the program is a trace together
   with, for every access event, the table row of the source location that
   performed it. The lemma below derives the discipline from access_ok on
   every row under the following assumptions, each of which is outside what
   Coq sees:

   READING   the translator's reading of the syntax: the row's kind of access
             is the event's, and the locks listed in r_held are really held at
             that point (denote p x is the run-time lock the expression x
             denotes when the function evaluates it);
   HELPER    inside a function documented "caller holds the lock", the
             receiver's lock is held exclusively (what C15_calls checks at
             every call site, transported across the call);
   IDENTITY  the guard of the accessed field is the lock the policy names:
             the receiver's embedded mutex belongs to the receiver object, a
             named package-level mutex is one run-time lock, a lock table's
             itemsMutex guards its own items, an item belongs to the lock
             table whose itemsMutex the function holds;
   CONFINED  a goroutine-confined field is touched by one thread only (one
             manager goroutine per lock table);
   UNPUBLISHED  accesses in composite literals, in the decode methods, through
             a fresh local, and during package initialisation precede the
             publication of the object by the same thread;
   PUBLICATION  every other access comes after the publication in
             happens-before (objects reach other goroutines through the cache
             under its mutex, through a go statement, or through the caller's
             own synchronisation). *)
Lemma event_eq_dec : forall a b : event, {a = b} + {a <> b}.
Proof. repeat decide equality. Qed.

Lemma initialising_dec : forall tr p t o, initialising tr p t o \/ ~ initialising tr p t o.
Proof.
  intros tr p t o.
  assert (H : forall n, (exists q, p < q /\ q < n /\ ev tr q = Some (Pub t o)) \/
                        (forall q, p < q -> q < n -> ev tr q <> Some (Pub t o))).
  { induction n as [| n IH].
    - right. intros; lia.
    - destruct IH as [[q [H1 [H2 H3]]] | Hnone].
      + left. exists q. repeat split; auto.
      + destruct (le_lt_dec n p) as [Hle | Hlt]; [ right; intros; lia | ].
        destruct (ev tr n) as [e |] eqn:En.
        * destruct (event_eq_dec e (Pub t o)) as [-> | Hne].
          -- left. exists n. repeat split; auto.
          -- right. intros q H1 H2. destruct (Nat.eq_dec q n) as [-> | Hq].
             ++ rewrite En. intro E. inversion E. contradiction.
             ++ apply Hnone; lia.
        * right. intros q H1 H2. destruct (Nat.eq_dec q n) as [-> | Hq].
          -- rewrite En. discriminate.
          -- apply Hnone; lia. }
  destruct (H (length tr)) as [[q [H1 [H2 H3]]] | Hnone].
  - left. exists q. auto.
  - right. intros [q [H1 H2]]. destruct (le_lt_dec (length tr) q) as [Hge | Hlt].
    + unfold ev in H2. rewrite (proj2 (nth_error_None tr q) Hge) in H2. discriminate.
    + exact (Hnone q H1 Hlt H2).
Qed.

Section TableTie.
  Variable tr : trace.
  Variable g : obj -> field -> guard.
  Variable tbl : list row.
  Variable row_at : nat -> option row.
  Variable denote : nat -> string -> lock.

  Hypothesis READING_row : forall p t o f k,
    ev tr p = Some (Acc t o f k) -> exists r, row_at p = Some r /\ In r tbl /\ r_rw r = k.
  Hypothesis READING_held : forall p t o f k r x m s,
    ev tr p = Some (Acc t o f k) -> row_at p = Some r ->
    In (x, m, s) (r_held r) -> holds tr p t (denote p x) m.
  Hypothesis HELPER : forall p t o f k r,
    ev tr p = Some (Acc t o f k) -> row_at p = Some r ->
    r_onrecv r = true -> mem_str (r_func r) caller_holds = true ->
    holds tr p t (denote p (r_recv r)) Ex.
  Hypothesis IDENTITY : forall p t o f k r,
    ev tr p = Some (Acc t o f k) -> row_at p = Some r ->
    match policy_of (r_struct r) (r_field r) with
    | Some PRecv => g o f = GLock (denote p (r_recv r))
    | Some (PRecvSuffix s) => g o f = GLock (denote p (r_recv r ++ s))
    | Some (PNamed l) => g o f = GLock (denote p l)
    | Some (PSuffix s) => forall x m st, In (x, m, st) (r_held r) -> is_suffix s x = true ->
                                         g o f = GLock (denote p x)
    | Some PImmutable => g o f = GImmutable
    | Some (PConfined fn go) => exists c, g o f = GConfined c /\
                                          (r_func r = fn -> r_go r = go -> t = c)
    | None => True
    end.
  Hypothesis UNPUBLISHED : forall p t o f k r,
    ev tr p = Some (Acc t o f k) -> row_at p = Some r -> exempt r = true ->
    initialising tr p t o.
  Hypothesis PUBLICATION : forall p t o f k,
    ev tr p = Some (Acc t o f k) -> ~ initialising tr p t o ->
    forall q c, ev tr q = Some (Pub c o) -> hb tr q p.

  Lemma lookup_held_in : forall x h m s, lookup_held x h = Some (m, s) -> In (x, m, s) h.
  Proof.
    induction h as [| [[y m0] s0] h IH]; cbn; intros m s H; [ discriminate | ].
    destruct (String.eqb x y) eqn:E.
    - apply String.eqb_eq in E. subst. inversion H; subst. now left.
    - right. auto.
  Qed.

  Lemma lookup_suffix_in : forall sfx h m s,
    lookup_suffix sfx h = Some (m, s) -> exists x, In (x, m, s) h /\ is_suffix sfx x = true.
  Proof.
    induction h as [| [[y m0] s0] h IH]; cbn; intros m s H; [ discriminate | ].
    destruct (is_suffix sfx y) eqn:E.
    - inversion H; subst. exists y. split; auto.
    - destruct (IH _ _ H) as [x [Hin Hs]]. exists x. split; auto.
  Qed.

  Lemma mode_ok_holds : forall k (h : option (mode * N)) (P : mode -> Prop),
    mode_ok k h = true ->
    (forall m s, h = Some (m, s) -> P m) ->
    match k with Wr => P Ex | Rd => exists m, P m end.
  Proof.
    intros k h P Hok HP. destruct k, h as [[[|] s] |]; cbn in Hok; try discriminate.
    - exists Sh. eapply HP; eauto.
    - exists Ex. eapply HP; eauto.
    - eapply HP; eauto.
  Qed.

  Theorem table_discipline : forallb access_ok tbl = true -> disciplined g tr.
  Proof.
    intros Hall p t o f k Ep.
    destruct (READING_row _ _ _ _ _ Ep) as [r [Hrow [Hin Hrw]]].
    assert (Hok : access_ok r = true) by (eapply forallb_forall in Hall; eauto).
    destruct (initialising_dec tr p t o) as [Hi | Hni]; [ now left | right ].
    split; [ eapply PUBLICATION; eauto | ].
    unfold access_ok in Hok. apply orb_true_iff in Hok. destruct Hok as [Hex | Hlk].
    { exfalso. apply Hni. eapply UNPUBLISHED; eauto. }
    assert (Hid := IDENTITY _ _ _ _ _ _ Ep Hrow).
    unfold locked_ok in Hlk.
    destruct (policy_of (r_struct r) (r_field r)) as [[ | sfx | l | sfx | | fn go] |]; try discriminate.
    - (* the receiver's own lock *)
      rewrite Hid, <- Hrw.
      apply (mode_ok_holds _ _ (fun m => holds tr p t (denote p (r_recv r)) m) Hlk).
      intros m s Hl. unfold eff_held in Hl.
      destruct (r_onrecv r && mem_str (r_func r) caller_holds) eqn:Eh.
      + apply andb_true_iff in Eh. destruct Eh as [E1 E2].
        cbn in Hl. rewrite String.eqb_refl in Hl. inversion Hl; subst.
        eapply HELPER; eauto.
      + eapply READING_held; eauto. eapply lookup_held_in; eauto.
    - rewrite Hid, <- Hrw.
      apply (mode_ok_holds _ _ (fun m => holds tr p t (denote p (r_recv r ++ sfx)) m) Hlk).
      intros m s Hl. eapply READING_held; eauto. eapply lookup_held_in; eauto.
    - rewrite Hid, <- Hrw.
      apply (mode_ok_holds _ _ (fun m => holds tr p t (denote p l) m) Hlk).
      intros m s Hl. eapply READING_held; eauto. eapply lookup_held_in; eauto.
    - (* some held lock with the given suffix *)
      destruct (lookup_suffix sfx (r_held r)) as [[m s] |] eqn:El;
        [ | destruct (r_rw r); discriminate ].
      destruct (lookup_suffix_in _ _ _ _ El) as [x [Hinx Hsx]].
      rewrite (Hid _ _ _ Hinx Hsx), <- Hrw.
      apply (mode_ok_holds _ _ (fun m => holds tr p t (denote p x) m) Hlk).
      intros m' s' Hl. inversion Hl; subst. eapply READING_held; eauto.
    - rewrite Hid, <- Hrw. destruct (r_rw r); [ reflexivity | discriminate ].
    - destruct Hid as [c [Hg Hc]]. rewrite Hg.
      apply andb_true_iff in Hlk. destruct Hlk as [E1 E2].
      apply String.eqb_eq in E1. apply N.eqb_eq in E2. auto.
  Qed.

  Corollary table_race_free :
    wf_trace tr -> forallb access_ok tbl = true -> race_free tr.
  Proof. intros Hwf Hall. eapply lockset_race_free; eauto using table_discipline. Qed.
End TableTie.

(* Non-vacuity of table_discipline: its hypotheses are jointly satisfiable.
   One write to `data` through the receiver s of Session.Set, inside s.Lock(). *)
Definition tie_trace : trace := [ Acq 1 0 Ex; Acc 1 0 0 Wr; Rel 1 0 Ex ].
Definition tie_row : row :=
  mkRow "Session.Set"%string "session.go"%string 620 "s"%string "Session"%string "data"%string Wr
        [("s"%string, Ex, 619002%N)] false false false 0 true false false.

Example table_discipline_applies :
  disciplined (fun _ _ => GLock 0) tie_trace.
Proof.
  assert (Hacc : forall p t o f k, ev tie_trace p = Some (Acc t o f k) ->
                                   p = 1 /\ t = 1 /\ o = 0 /\ f = 0 /\ k = Wr).
  { intros p t o f k E. cases_pos p 3; cbn in E; try discriminate.
    - inversion E; auto.
    - destruct p; discriminate. }
  assert (Hnopub : forall q c o, ev tie_trace q <> Some (Pub c o)).
  { intros q c o E. cases_pos q 3; cbn in E; try discriminate. destruct q; discriminate. }
  apply (table_discipline tie_trace (fun _ _ => GLock 0) [tie_row]
                          (fun p => if Nat.eqb p 1 then Some tie_row else None) (fun _ _ => 0)).
  - intros p t o f k E. destruct (Hacc _ _ _ _ _ E) as [-> [-> [-> [-> ->]]]].
    exists tie_row. cbn. auto.
  - intros p t o f k r x m s E Hr Hin. destruct (Hacc _ _ _ _ _ E) as [-> [-> [-> [-> ->]]]].
    cbn in Hr. inversion Hr; subst r. cbn in Hin. destruct Hin as [Hin | []]. inversion Hin; subst.
    exists 0. repeat split; auto. intros q m' H1 H2. lia.
  - intros p t o f k r E Hr _ Hm. destruct (Hacc _ _ _ _ _ E) as [-> [-> [-> [-> ->]]]].
    cbn in Hr. inversion Hr; subst r. cbn in Hm. discriminate.
  - intros p t o f k r E Hr. destruct (Hacc _ _ _ _ _ E) as [-> [-> [-> [-> ->]]]].
    cbn in Hr. inversion Hr; subst r. cbn. reflexivity.
  - intros p t o f k r E Hr Hex. destruct (Hacc _ _ _ _ _ E) as [-> [-> [-> [-> ->]]]].
    cbn in Hr. inversion Hr; subst r. cbn in Hex. discriminate.
  - intros p t o f k E _ q c Eq. exfalso. exact (Hnopub _ _ _ Eq).
  - vm_compute. reflexivity.
Qed.
