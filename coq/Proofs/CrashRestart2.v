(* C10 at the level of histories, part 2: the world a crashing request step
   leaves (Hist.step's crash branch) and the rotation-in-Start scenario: the
   request's Start rotated the presented ID, the process stopped after n
   persistence calls; afterwards the old ID — and the new one when n covers all
   calls — is served with the session's content. *)
From Sessions Require Import Model.Base Model.Sess Model.Hist Proofs.SessDefs
  Proofs.HistInv Proofs.HistInv2 Proofs.HistInv3.
From Sessions Require Proofs.CrashFault3 Proofs.CrashFault5 Proofs.CrashFault6 Proofs.LiveHist4 Proofs.LiveHist8
  Proofs.CacheInv3 Proofs.CacheInv4.
From Sessions Require Import Proofs.CrashRestart.
From Coq Require Import Lia.
Import CrashFault3 CrashFault5 CrashFault6 LiveHist4.

(* ------------------------------------------------- the world after a crash *)

(* the state the API calls of the step reached when the process stopped *)
Definition req_end (w : world) (r : reqstep) : st :=
  fst (fst (fst (fst (fst (req_body (set_tb (set_plan (set_evs (w_st w) []) (rq_plan r)) (rq_tb r))
                                    (req_q w r) (rq_script r)))))).

Lemma crash_world w r n : rq_crash r = Some n ->
  let w' := fst (step w (HReq r)) in let s' := w_st w' in
  w_jars w' = w_jars w /\ cache s' = [] /\ plan s' = [] /\ pending s' = [] /\
  now s' = now (req_end w r) /\ conf s' = conf (req_end w r) /\
  store s' = frozen (w_st w) (rev (evs (req_end w r))) n.
Proof.
  intro Hcr. cbv zeta. rewrite step_req_eq. cbv zeta. unfold req_end, req_q, pres, frozen. rewrite Hcr.
  destruct (req_body _ _ (rq_script r)) as [[[[[s3 rc] st0] sr] fin] cks]. cbn [fst].
  change (evs (set_tb (set_plan s3 []) [])) with (evs s3).
  change (store (set_evs (w_st w) [])) with (store (w_st w)).
  change (graves (set_evs (w_st w) [])) with (graves (w_st w)).
  destruct (fold_left apply_ev (ev_prefix (rev (evs s3)) n) (store (w_st w), graves (w_st w))) as [stor gr].
  cbn [fst w_st w_jars]. repeat split.
Qed.

(* ------------------------------------------- clean-ups that are not yet due *)

Lemma fire_quiet : forall l s, (forall d k, In (d, k) l -> (now s < d)%Z) -> fire s l = (s, l).
Proof.
  induction l as [|[due k] t IH]; intros s H; cbn [fire]; [reflexivity|].
  assert (Hd : (due <=? now s)%Z = false) by (apply Z.leb_gt; apply (H due k); left; reflexivity).
  rewrite Hd, IH; [reflexivity|]. intros d k' Hin. apply (H d k'). right. exact Hin.
Qed.

Lemma fire_due_quiet s : (forall d k, In (d, k) (pending s) -> (now s < d)%Z) ->
  evs (fire_due s) = evs s /\ now (fire_due s) = now s /\ conf (fire_due s) = conf s.
Proof.
  intro H. unfold fire_due. rewrite fire_quiet; [repeat split | exact H].
Qed.

Lemma cache_get_frame s k : ffnd s ->
  pending (fst (cache_get s k)) = pending s /\ now (fst (cache_get s k)) = now s /\
  conf (fst (cache_get s k)) = conf s.
Proof.
  intro F. pose proof (cache_get_ff s k (proj1 F)) as H. destruct (lookup (cache s) k).
  - rewrite H. repeat split.
  - destruct H as [es [_ H]]. destruct (lookup (store s) k) as [r|]; rewrite H; cbn [fst]; [|repeat split].
    rewrite loaded_eq. cbv zeta. destruct (c_maxcache (conf s) =? 0)%Z; [repeat split|].
    destruct (compact_frame (fst (halloc (set_evs s (es ++ evs s)) (mkObj k r))) 1 F) as (_ & _ & A1 & A2 & A3 & _).
    sst. rewrite A1, A2, A3. repeat split.
Qed.

Lemma hupd_fields s o f : pending (hupd s o f) = pending s /\ conf (hupd s o f) = conf s /\ now (hupd s o f) = now s.
Proof. unfold hupd. destruct (hget s o); repeat split. Qed.

(* ----------------------------------------- the rotating Start, fault-free *)

Lemma rot_due_parts c r q t : rot_due c r q t = true ->
  rec_valid c t q r = true /\ r_ref r = None /\ (c_idexpiry c <=? since (r_created r) t)%Z = true.
Proof.
  unfold rot_due, rec_valid. intro H.
  apply andb_true_iff in H. destruct H as [H H3]. apply andb_true_iff in H. destruct H as [H H2].
  split; [exact H|]. split; [destruct (r_ref r); [discriminate | reflexivity] | exact H3].
Qed.

Lemma rotating_start s q k :
  plan s = [] -> cache_ok s -> NoDup (map fst (cache s)) -> q_cookie q = CKey k -> start_rotates s q = true ->
  exists s2 o cks,
    start s q = (s2, Ok (Some o), cks) /\
    pending s2 = pending s ++ [((now s + c_grace (conf s))%Z, k)] /\ now s2 = now s /\ conf s2 = conf s.
Proof.
  intros Hp Hc Hn Hq Hrot. unfold start_rotates in Hrot. rewrite Hq in Hrot.
  assert (Hi : CacheInv3.cinv s) by (apply CacheInv3.cinv_of_ok; assumption).
  pose proof (CacheInv4.get_cinv_all s k Hi) as [Hp1 [_ Hn1]].
  pose proof (cache_get_frame s k (conj Hp Hn)) as (B1 & B2 & B3).
  assert (Hid : forall o ob, cache_get s k = (fst (cache_get s k), Some (Some o)) -> hget (fst (cache_get s k)) o = Some ob -> o_id ob = k).
  { intros o ob Eg Ho. pose proof (cache_get_ff s k Hp) as H. destruct (lookup (cache s) k) as [o0|] eqn:Hl.
    - rewrite H in Eg, Ho. cbn [fst] in Ho. injection Eg as <-. destruct (Hc k o0 Hl) as [ob0 [Ho0 Hid0]]. congruence.
    - destruct H as [es [_ H]]. destruct (lookup (store s) k) as [r|]; rewrite H in Eg, Ho; [|discriminate].
      cbn [fst] in Ho. injection Eg as <-. rewrite (loaded_hget s k r es (conj Hp Hn)) in Ho. injection Ho as <-. reflexivity. }
  rewrite start_eq, Hq.
  destruct (cache_get s k) as [s1 [[o|]|]] eqn:Eg; try discriminate. cbn [fst] in *.
  destruct (hget s1 o) as [ob|] eqn:Ho; [|discriminate].
  destruct (rot_due_parts _ _ _ _ Hrot) as (Hv & Hr & Hd).
  assert (F1 : ffnd s1) by (split; assumption).
  rewrite (sf_rotate (conf s) s1 q k o ob [] F1 Ho Hv Hr Hd).
  do 3 eexists. split; [reflexivity|].
  destruct (hupd_fields (regen s1 o ob) o (upd_req (regen s1 o ob) q)) as (-> & -> & ->).
  destruct (regen_frames s1 o ob F1) as [_ (A1 & A2 & A3 & A4 & A5 & A6 & A7)].
  unfold regen. sst. rewrite A6, A2, A3, B1, B2, B3, (Hid o ob eq_refl Ho). repeat split.
Qed.

(* ------------------------------------------------------------ the scenario *)

(* the first request: fault-free, presenting k, stopped after n persistence
   calls; its Start rotated k; no handler script; no clean-up came due *)
Record rot_crash (w : world) (r : reqstep) (n : nat) (k : key) (D : list (N * N)) (U : option N) : Prop := mkRC {
  rc_inv : sess_inv (w_st w);
  rc_plan : rq_plan r = [];
  rc_crash : rq_crash r = Some n;
  rc_script : rq_script r = [];
  rc_pres : pres w r = CKey k;
  rc_content : presented (w_st w) k D U;
  rc_rot : start_rotates (req_s1 w r) (req_q w r) = true;
  rc_grace : (0 < c_grace (conf (w_st w)))%Z;
  rc_pending : forall d k', In (d, k') (pending (w_st w)) -> (now (w_st w) < d)%Z }.

Theorem crash_store_rot w r n k D U :
  rot_crash w r n k D U ->
  let s' := w_st (fst (step w (HReq r))) in
  exists l s2 o cks,
    start (req_s1 w r) (req_q w r) = (s2, Ok (Some o), cks) /\ l = rev (evs s2) /\
    length l = length (evs (req_end w r)) /\
    store s' = frozen (req_s1 w r) l n /\
    cache s' = [] /\ plan s' = [] /\ now s' = now (w_st w) /\ conf s' = conf (w_st w) /\
    w_jars (fst (step w (HReq r))) = w_jars w /\
    resolves_to (full D U) (store s') k /\
    (length l <= n -> resolves_to (full D U) (store s') (KGen (supply (w_st w)))).
Proof.
  intros [Hinv Hpl Hcr Hsc Hk Hcont Hrot Hg Hpend]. cbv zeta.
  destruct (LiveHist8.req_s1_sess_inv w r Hinv) as (Hp1 & Hc1 & Hn1 & Hf1).
  assert (Hq : q_cookie (req_q w r) = CKey k) by exact Hk.
  destruct (rotating_start (req_s1 w r) (req_q w r) k Hp1 Hc1 (proj1 Hn1) Hq Hrot) as (s2 & o & cks & E & Hpe & Hnow & Hconf).
  destruct (resolves_start (req_s1 w r) (req_q w r) k D U s2 (Ok (Some o)) cks Hc1 Hn1 Hf1 Hq Hcont Hrot E)
    as (l & Hl & Hold & Hnew).
  assert (El : l = rev (evs s2)).
  { unfold appended in Hl. change (evs (req_s1 w r)) with (@nil ev) in Hl. rewrite app_nil_r in Hl.
    rewrite Hl, rev_involutive. reflexivity. }
  assert (Hend : req_end w r = fire_due s2).
  { unfold req_end. rewrite Hpl, Hsc. unfold req_body. fold (req_s1 w r). rewrite E. reflexivity. }
  assert (Hev : evs (fire_due s2) = evs s2 /\ now (fire_due s2) = now s2 /\ conf (fire_due s2) = conf s2).
  { apply fire_due_quiet. intros d k' Hin. rewrite Hpe in Hin. rewrite Hnow. apply in_app_iff in Hin.
    destruct Hin as [Hin|[Hin|[]]].
    - exact (Hpend d k' Hin).
    - injection Hin as <- _. change (now (req_s1 w r)) with (now (w_st w)).
      change (conf (req_s1 w r)) with (conf (w_st w)). lia. }
  destruct (crash_world w r n Hcr) as (J & C1 & C2 & C3 & C4 & C5 & C6). cbv zeta in *.
  destruct Hev as (Hev & Hfn & Hfc). rewrite Hend in C4, C5, C6. rewrite Hev in C6.
  assert (Hst : store (w_st (fst (step w (HReq r)))) = frozen (req_s1 w r) l n).
  { rewrite C6, El. reflexivity. }
  exists l, s2, o, cks. split; [exact E|]. split; [exact El|].
  split; [rewrite Hend, Hev, El; apply rev_length|]. split; [exact Hst|].
  split; [exact C1|]. split; [exact C2|].
  split; [rewrite C4, Hfn, Hnow; reflexivity|].
  split; [rewrite C5, Hfc, Hconf; reflexivity|].
  split; [exact J|]. split; [rewrite Hst; apply Hold|].
  intro Hle. destruct (Hnew o eq_refl) as (Hfz & Hres & _). rewrite Hst.
  unfold frozen. rewrite ev_prefix_all by exact Hle. rewrite <- (ev_prefix_all l (length l)) by lia.
  fold (frozen (req_s1 w r) l (length l)). rewrite Hfz. exact Hres.
Qed.
