(* C11, part 1: a failed flush keeps the entry cached and ends the compaction
   (C11_flush); compaction and cache_get never change the logical content
   modulo the codec, whatever fails (used by C11_load). Arbitrary fault plans. *)
From Sessions Require Import Model.Base Model.Sess Model.Hist Proofs.SessDefs Proofs.CrashFault
  Proofs.CrashFault2 Proofs.CrashFault3.
From Coq Require Import Lia.

(* ------------------------------------------------------ codec is idempotent *)

Lemma floor_second_idem t : ((t - t mod second) - (t - t mod second) mod second = t - t mod second)%Z.
Proof.
  assert (H : ((t - t mod second) mod second = 0)%Z).
  { assert (Hs : (second <> 0)%Z) by (unfold second; lia).
    pose proof (Z.div_mod t second Hs) as E.
    replace (t - t mod second)%Z with (t / second * second)%Z by lia.
    apply Z_mod_mult. }
  rewrite H. lia.
Qed.

Lemma codec_idem cf r : codec cf (codec cf r) = codec cf r.
Proof.
  unfold codec. simpl. destruct (c_json cf).
  - rewrite !floor_second_idem. destruct (r_user r) as [[u v]|], (r_data r); reflexivity.
  - destruct (r_user r) as [[u v]|], (r_data r); reflexivity.
Qed.

(* the logical content modulo the codec's normalisation *)
Definition Lc (s : st) (k : key) : option rec := option_map (codec (conf s)) (L s k).

Lemma L_same s s' k : heap s' = heap s -> cache s' = cache s -> store s' = store s -> L s' k = L s k.
Proof. intros Hh Hc Hs. unfold L, hget. rewrite Hh, Hc, Hs. reflexivity. Qed.

(* ------------------------------------------------------------- C11_flush *)

Definition saved_ok (e : ev) : Prop := exists k r, e = EvSave k r true.

Definition flush_rel (C : list (key * nat)) (b : bool) (s s' : st) : Prop :=
  NoDup (map fst C) -> NoDup (map fst (cache s)) ->
  exists l, ext s s' l /\ heap s' = heap s /\ NoDup (map fst (cache s')) /\
    (forall k o, lookup (cache s') k = Some o -> lookup (cache s) k = Some o) /\
    (forall k o, lookup (cache s) k = Some o ->
       lookup (cache s') k = Some o \/
       (lookup (cache s') k = None /\ exists ob, hget s o = Some ob /\ In (EvSave k (codec (conf s) (o_rec ob)) true) l)) /\
    (forall k, Lc s' k = Lc s k) /\
    (if b then Forall saved_ok l
     else exists l' k r, l = l' ++ [EvSave k r false] /\ Forall saved_ok l' /\
                         lookup (cache s') k <> None /\ lookup (cache s') k = lookup (cache s) k).

Lemma flush_rel_refl C s : flush_rel C true s s.
Proof.
  intros _ Hn. exists []. split; [apply ext_refl|]. split; [reflexivity|]. split; [exact Hn|].
  split; [auto|]. split; [auto|]. split; [reflexivity | constructor].
Qed.

Lemma flush_rel_trans C b s1 s2 s3 : flush_rel C true s1 s2 -> flush_rel C b s2 s3 -> flush_rel C b s1 s3.
Proof.
  intros H1 H2 HC Hn. destruct (H1 HC Hn) as (l1 & X1 & Hh1 & N1 & C1 & A1 & L1 & F1).
  destruct (H2 HC N1) as (l2 & X2 & Hh2 & N2 & C2 & A2 & L2 & F2).
  exists (l1 ++ l2). split; [eapply ext_trans; eassumption|]. split; [congruence|]. split; [exact N2|].
  split; [auto|]. split; [|split].
  - intros k o Hl. destruct (A1 _ _ Hl) as [Hl'|(Hl' & ob & Ho & Hi)].
    + destruct (A2 _ _ Hl') as [?|(? & ob & Ho & Hi)]; [left; assumption|].
      right. split; [assumption|]. exists ob. rewrite (hget_eq _ _ _ Hh1) in Ho. split; [exact Ho|].
      rewrite (x_conf _ _ _ X1) in Hi. apply in_or_app. right. exact Hi.
    + right. split.
      * destruct (lookup (cache s3) k) as [o'|] eqn:E; [|reflexivity]. apply C2 in E. congruence.
      * exists ob. split; [exact Ho|]. apply in_or_app. left. exact Hi.
  - intro k. rewrite L2. apply L1.
  - destruct b.
    + apply Forall_app. split; assumption.
    + destruct F2 as (l' & k & r & -> & F2 & Hne & Heq). exists (l1 ++ l'), k, r.
      split; [rewrite app_assoc; reflexivity|]. split; [apply Forall_app; split; assumption|].
      split; [exact Hne|]. destruct (lookup (cache s3) k) as [o|] eqn:E; [|congruence].
      symmetry in Heq. apply C1 in Heq. congruence.
Qed.

Lemma flush_rel_flush C s k o ob tb' s1 b :
  (NoDup (map fst C) -> lookup (cache s) k = Some o) -> hget s o = Some ob ->
  p_save (set_tb s tb') k (o_rec ob) = (s1, b) -> flush_rel C b s (flush_result s1 k b).
Proof.
  intros Hlk Ho HS HC Hn. specialize (Hlk HC). apply p_save_spec in HS.
  destruct HS as ((Hh & Hc & _ & _) & X & _ & Hst & _). simpl in *.
  assert (X' : ext s (flush_result s1 k b) [EvSave k (codec (conf s) (o_rec ob)) b]).
  { eapply ext_nil_l; [apply (ext_set_tb s tb')|]. eapply ext_nil_r; [exact X|].
    unfold flush_result. destruct b; [apply ext_set_cache | apply ext_refl]. }
  exists [EvSave k (codec (conf s) (o_rec ob)) b]. split; [exact X'|].
  unfold flush_result. destruct b; simpl.
  - rewrite Hh, Hc. split; [reflexivity|]. split; [apply NoDup_remove; exact Hn|].
    split; [intros k' o' H; apply lookup_remove_Some in H; tauto|]. split; [|split].
    + intros k' o' Hl. destruct (key_eq_dec k' k) as [->|Hne].
      * right. split; [apply lookup_remove_same|]. assert (o' = o) by congruence. subst o'.
        exists ob. split; [exact Ho | left; reflexivity].
      * left. rewrite lookup_remove_other by exact Hne. exact Hl.
    + intro k'. unfold Lc, L. simpl. unfold hget. simpl. rewrite ?Hh, ?Hc, ?Hst.
      rewrite (x_conf _ _ _ X). simpl.
      destruct (key_eq_dec k' k) as [->|Hne].
      * rewrite lookup_remove_same, lookup_upsert_same, Hlk. unfold hget in Ho. rewrite Ho. simpl.
        rewrite codec_idem. reflexivity.
      * rewrite lookup_remove_other, lookup_upsert_other by exact Hne. reflexivity.
    + constructor; [eexists; eexists; reflexivity | constructor].
  - split; [exact Hh|]. rewrite Hc. split; [exact Hn|]. split; [auto|]. split; [auto|]. split.
    + intro k'. unfold Lc. rewrite (x_conf _ _ _ X). simpl. f_equal. apply L_same; assumption.
    + exists [], k, (codec (conf s) (o_rec ob)). split; [reflexivity|]. split; [constructor|].
      rewrite Hlk. split; [discriminate | reflexivity].
Qed.

Lemma compact_flush_rel s req : exists b, flush_rel (cache s) b s (compact s req).
Proof.
  destruct (compact_R (flush_rel (cache s)) (cache s)) with (s := s) (req := req) as [b H]; auto.
  - apply flush_rel_refl.
  - apply flush_rel_trans.
  - intros. eapply flush_rel_flush; eassumption.
  - exists b. exact H.
Qed.

(* C11_flush: a failed flush save is the last thing compaction does and its
   entry is still cached; every entry that left the cache was saved
   successfully with the fields it had; the logical content is unchanged. *)
Theorem flush_failed_stays s req :
  NoDup (map fst (cache s)) ->
  exists l, evs (compact s req) = rev l ++ evs s /\
    (forall k r, In (EvSave k r false) l ->
       exists l', l = l' ++ [EvSave k r false] /\ Forall saved_ok l' /\
                  lookup (cache (compact s req)) k = lookup (cache s) k /\ lookup (cache s) k <> None) /\
    (forall k o, lookup (cache s) k = Some o ->
       lookup (cache (compact s req)) k = Some o \/
       exists ob, hget s o = Some ob /\ In (EvSave k (codec (conf s) (o_rec ob)) true) l) /\
    (forall k, Lc (compact s req) k = Lc s k).
Proof.
  intro Hn. destruct (compact_flush_rel s req) as [b H].
  destruct (H Hn Hn) as (l & X & _ & _ & _ & A & HL & F).
  exists l. split; [apply (x_evs _ _ _ X)|]. split; [|split; [|exact HL]].
  - intros k r Hi. destruct b.
    + exfalso. rewrite Forall_forall in F. destruct (F _ Hi) as (k' & r' & E). discriminate.
    + destruct F as (l' & k0 & r0 & -> & F & Hne & Heq). apply in_app_or in Hi. destruct Hi as [Hi|[Hi|[]]].
      * exfalso. rewrite Forall_forall in F. destruct (F _ Hi) as (k' & r' & E). discriminate.
      * injection Hi as -> ->. exists l'. split; [reflexivity|]. split; [exact F|]. split; [exact Heq|].
        rewrite <- Heq. exact Hne.
  - intros k o Hl. destruct (A _ _ Hl) as [?|(_ & ob & Ho & Hi)]; [left; assumption|].
    right. exists ob. auto.
Qed.
