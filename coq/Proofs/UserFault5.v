(* Task A6, C11/C08, part 5: the user-wide calls as steps of a history. From
   every world a fault-free, crash-free history reaches (sess_inv), the steps
   HLogoutUser / HRefreshUser with an ARBITRARY fault plan, and the exclusive
   LogIn at a handler position with an arbitrary plan from there on: what the
   observation's result class acknowledges about the world after the step
   (including the clean-ups fired after the call). *)
From Sessions Require Import Model.Base Model.Sess Model.Hist Proofs.SessDefs
  Proofs.HistInv Proofs.HistInv2 Proofs.HistInv3 Proofs.UserLaws Proofs.UserHist Proofs.UserHist2.
From Sessions Require Proofs.LiveHist4 Proofs.LiveHist8.
From Sessions Require Import Proofs.CrashFault2 Proofs.CrashFault11 Proofs.UserFault Proofs.UserFault2 Proofs.UserFault3 Proofs.UserFault4.
Import LiveHist4.

Lemma sess_inv_wfc s pl tbl : sess_inv s -> wfc (set_tb (set_plan (set_evs s []) pl) tbl).
Proof. intros (_ & Hc & Hn & _). apply (wfc_same s); [reflexivity | reflexivity | apply wfc_of_ok; assumption]. Qed.

(* the state a user-wide step leaves: plan and tie-breaks reset, clean-ups fired *)
Definition settle (s1 : st) : st := fire_due (set_tb (set_plan s1 []) []).

Lemma uc_settle Ps Pm s1 k : uc Ps Pm s1 k -> uc Ps Pm (settle s1) k.
Proof.
  intro H. unfold settle. apply (ufact_fire_due Ps Pm); [reflexivity|].
  revert H. apply uc_same; try reflexivity. intros o ob _ Ho. exists ob. auto.
Qed.

Definition rclass_of (r : result unit) : rclass :=
  match r with Ok _ => RVoid | Err e => RErr e | Panic e => RPanic e end.

Lemma step_logout_user w u tbl pl :
  step w (HLogoutUser u tbl pl) =
  let s0 := set_tb (set_plan (set_evs (w_st w) []) pl) tbl in
  (mkWorld (settle (fst (logout_user s0 u))) (w_jars w),
   mk_obs (rclass_of (snd (logout_user s0 u))) None [] [] None (settle (fst (logout_user s0 u))) CNone).
Proof. cbn [step]. cbv zeta. destruct (logout_user _ u) as [s1 r]. destruct r; reflexivity. Qed.

Lemma step_refresh_user w u tbl pl :
  step w (HRefreshUser u tbl pl) =
  let s0 := set_tb (set_plan (set_evs (w_st w) []) pl) tbl in
  (mkWorld (settle (fst (refresh_user s0 u))) (w_jars w),
   mk_obs (rclass_of (snd (refresh_user s0 u))) None [] [] None (settle (fst (refresh_user s0 u))) CNone).
Proof. cbn [step]. cbv zeta. destruct (refresh_user _ u) as [s1 r]. destruct r; reflexivity. Qed.

(* what an error class of the step means for the world after it *)
Definition step_stopped (Ps Pm : option user -> Prop) (s : st) (i : N) (s' : st) (e : site) : Prop :=
  (e = EUserSessions /\ forall Qs Qm, codec_closed Qs Qm -> forall k, uc Qs Qm s k -> uc Qs Qm s' k) \/
  (exists pre k post, listed s i = pre ++ k :: post /\
     (forall k', In k' pre -> uc Ps Pm s' k') /\
     (e = ECacheGet \/ e = ECacheSet) /\
     (forall Qs Qm, codec_closed Qs Qm ->
        forall k', ~ In k' pre -> (e = ECacheSet -> k' <> k) -> uc Qs Qm s k' -> uc Qs Qm s' k')).

Lemma uc_evs Qs Qm s pl tbl k : uc Qs Qm s k -> uc Qs Qm (set_tb (set_plan (set_evs s []) pl) tbl) k.
Proof. apply uc_same; try reflexivity. intros o ob _ Ho. exists ob. auto. Qed.

Section Step.
  Variables (Ps Pm : option user -> Prop).
  Hypothesis Pcodec : codec_closed Ps Pm.

  Lemma user_call_step s i uw pl tbl :
    sess_inv s -> Pm uw ->
    let s0 := set_tb (set_plan (set_evs s []) pl) tbl in
    let s' := settle (fst (user_call s0 i uw)) in
    let rc := rclass_of (snd (user_call s0 i uw)) in
    (forall e, rc <> RPanic e) /\
    (forall k, uc Ps Pm s k -> uc Ps Pm s' k) /\
    (rc = RVoid ->
       (forall k, In k (listed s i) -> uc Ps Pm s' k) /\
       (forall Qs Qm, codec_closed Qs Qm -> forall k, ~ In k (listed s i) -> uc Qs Qm s k -> uc Qs Qm s' k)) /\
    (forall e, rc = RErr e -> pl <> [] /\ step_stopped Ps Pm s i s' e).
  Proof.
    intros Hinv Hu s0 s' rc. pose proof (sess_inv_wfc s pl tbl Hinv) as W0. fold s0 in W0.
    unfold s', rc. destruct (user_call s0 i uw) as [s1 r] eqn:EC. cbn [fst snd].
    destruct (user_call_fault Ps Pm _ _ _ _ _ Pcodec W0 Hu EC) as (W1 & Hk & Hr).
    split; [destruct r; [discriminate | discriminate | contradiction]|].
    split; [intros k H; apply uc_settle, Hk, uc_evs, H|].
    split.
    - destruct r as [a|e|e]; try discriminate. intros _. destruct Hr as [Hl Hf]. split.
      + intros k Hin. apply uc_settle, Hl. exact Hin.
      + intros Qs Qm Qc k Hnin H. apply uc_settle. apply (Hf Qs Qm Qc k Hnin). apply uc_evs. exact H.
    - intros e E. destruct r as [a|e0|e0]; try discriminate. injection E as ->. split.
      + intros ->. destruct (user_call_ok_ff s0 i uw (proj1 W0) eq_refl) as (s2 & E2). congruence.
      + destruct Hr as [(-> & OL & _)|(pre & k & post & Hids & Hpre & Hcase & Hfr)].
        * left. split; [reflexivity|]. intros Qs Qm Qc k H. apply uc_settle. eapply uc_only_logged; [exact OL|]. apply uc_evs. exact H.
        * right. exists pre, k, post. split; [exact Hids|]. split; [intros k' Hin; apply uc_settle, Hpre, Hin|].
          split; [destruct Hcase as [->|[-> _]]; auto|].
          intros Qs Qm Qc k' Hnin Hne H. apply uc_settle. apply (Hfr Qs Qm Qc k' Hnin Hne). apply uc_evs. exact H.
  Qed.
End Step.

Theorem logout_user_step_fault w u tbl pl :
  sess_inv (w_st w) ->
  let w' := fst (step w (HLogoutUser u tbl pl)) in
  let rc := ob_res (snd (step w (HLogoutUser u tbl pl))) in
  (forall e, rc <> RPanic e) /\
  (forall k, uc no_user no_user (w_st w) k -> uc no_user no_user (w_st w') k) /\
  (rc = RVoid ->
     (forall k, In k (listed (w_st w) u) -> uc no_user no_user (w_st w') k /\ nouser_at (w_st w') k) /\
     (forall Qs Qm, codec_closed Qs Qm -> forall k, ~ In k (listed (w_st w) u) -> uc Qs Qm (w_st w) k -> uc Qs Qm (w_st w') k)) /\
  (forall e, rc = RErr e -> pl <> [] /\ step_stopped no_user no_user (w_st w) u (w_st w') e).
Proof.
  intros Hinv. rewrite step_logout_user. cbv zeta. cbn [fst snd w_st ob_res mk_obs].
  destruct (user_call_step no_user no_user no_user_closed (w_st w) u None pl tbl Hinv eq_refl) as (A & B & C & D).
  split; [exact A|]. split; [exact B|]. split; [|exact D].
  intro E. destruct (C E) as [C1 C2]. split; [|exact C2].
  intros k Hin. split; [apply C1; exact Hin|]. apply ufact_nouser. apply C1. exact Hin.
Qed.

Theorem refresh_user_step_fault w u tbl pl :
  sess_inv (w_st w) ->
  let w' := fst (step w (HRefreshUser u tbl pl)) in
  let rc := ob_res (snd (step w (HRefreshUser u tbl pl))) in
  (forall e, rc <> RPanic e) /\
  (forall k, uc (user_stored u) (user_cached u) (w_st w) k -> uc (user_stored u) (user_cached u) (w_st w') k) /\
  (rc = RVoid ->
     (forall k, In k (listed (w_st w) (fst u)) -> uc (user_stored u) (user_cached u) (w_st w') k) /\
     (forall Qs Qm, codec_closed Qs Qm -> forall k, ~ In k (listed (w_st w) (fst u)) -> uc Qs Qm (w_st w) k -> uc Qs Qm (w_st w') k)) /\
  (forall e, rc = RErr e -> pl <> [] /\ step_stopped (user_stored u) (user_cached u) (w_st w) (fst u) (w_st w') e).
Proof.
  intros Hinv. rewrite step_refresh_user. cbv zeta. cbn [fst snd w_st ob_res mk_obs].
  exact (user_call_step (user_stored u) (user_cached u) (user_closed u) (w_st w) (fst u) (Some u) pl tbl Hinv eq_refl).
Qed.

(* after an acknowledged LogOut(userID) under any fault plan, then the loss of
   the cache: no listed ID carries a user *)
Theorem logout_user_fault_survives w u tbl pl h k :
  sess_inv (w_st w) -> loses_cache h ->
  ob_res (snd (step w (HLogoutUser u tbl pl))) = RVoid -> In k (listed (w_st w) u) ->
  nouser_at (w_st (fst (step (fst (step w (HLogoutUser u tbl pl))) h))) k.
Proof.
  intros Hinv Hl E Hin. apply nouser_survives; [exact Hl|].
  destruct (logout_user_step_fault w u tbl pl Hinv) as (_ & _ & C & _). destruct (C E) as [C1 _]. apply C1. exact Hin.
Qed.

(* along fault-free, crash-free histories *)
Section Reach.
  Variables (c : cfg) (hs : list hop).
  Hypothesis Hff : Forall ff_hop hs.
  Hypothesis Hcf : Forall crash_free hs.
  Let w := reach c hs.

  Lemma reach_inv' : sess_inv (w_st w).
  Proof. apply LiveHist8.reach_sess_inv; assumption. Qed.

  Theorem logout_user_fault_hist u tbl pl :
    let w' := fst (step w (HLogoutUser u tbl pl)) in
    let rc := ob_res (snd (step w (HLogoutUser u tbl pl))) in
    (forall e, rc <> RPanic e) /\
    (forall k, uc no_user no_user (w_st w) k -> uc no_user no_user (w_st w') k) /\
    (rc = RVoid ->
       (forall k, In k (listed (w_st w) u) -> uc no_user no_user (w_st w') k /\ nouser_at (w_st w') k) /\
       (forall Qs Qm, codec_closed Qs Qm -> forall k, ~ In k (listed (w_st w) u) -> uc Qs Qm (w_st w) k -> uc Qs Qm (w_st w') k)) /\
    (forall e, rc = RErr e -> pl <> [] /\ step_stopped no_user no_user (w_st w) u (w_st w') e).
  Proof. exact (logout_user_step_fault w u tbl pl reach_inv'). Qed.

  Theorem refresh_user_fault_hist u tbl pl :
    let w' := fst (step w (HRefreshUser u tbl pl)) in
    let rc := ob_res (snd (step w (HRefreshUser u tbl pl))) in
    (forall e, rc <> RPanic e) /\
    (forall k, uc (user_stored u) (user_cached u) (w_st w) k -> uc (user_stored u) (user_cached u) (w_st w') k) /\
    (rc = RVoid ->
       (forall k, In k (listed (w_st w) (fst u)) -> uc (user_stored u) (user_cached u) (w_st w') k) /\
       (forall Qs Qm, codec_closed Qs Qm -> forall k, ~ In k (listed (w_st w) (fst u)) -> uc Qs Qm (w_st w) k -> uc Qs Qm (w_st w') k)) /\
    (forall e, rc = RErr e -> pl <> [] /\ step_stopped (user_stored u) (user_cached u) (w_st w) (fst u) (w_st w') e).
  Proof. exact (refresh_user_step_fault w u tbl pl reach_inv'). Qed.

  Theorem logout_user_fault_survives_hist u tbl pl h k :
    loses_cache h -> ob_res (snd (step w (HLogoutUser u tbl pl))) = RVoid -> In k (listed (w_st w) u) ->
    nouser_at (w_st (fst (step (fst (step w (HLogoutUser u tbl pl))) h))) k.
  Proof. exact (logout_user_fault_survives w u tbl pl h k reach_inv'). Qed.

  (* the exclusive LogIn at a script position, every persistence call from
     there on may fail (plan pl) *)
  Theorem login_excl_fault_hist r pre s o u pl s' cks :
    handler_at w r pre s o -> login (set_plan s pl) o u true = (s', Ok tt, cks) ->
    exists ob, hget s o = Some ob /\
      let i := o_id ob in
      let nid := KGen (supply s) in
      written s' o /\
      (exists ob', hget s' o = Some ob' /\ o_id ob' = nid /\ r_user (o_rec ob') = Some u) /\
      (exists rr, lookup (store s') nid = Some rr /\ r_user rr = Some (fst u, 0%N)) /\
      cks = [CkLive nid] /\
      (exists rr, lookup (store s') i = Some rr /\ r_ref rr = Some nid /\ r_user rr = None) /\
      (forall k, In k (listed s (fst u)) -> k <> i -> k <> nid -> uc no_user no_user s' k).
  Proof.
    intros Hat HL. destruct (handler_at_inv w r pre s o reach_inv' Hat) as ((_ & Hc & Hn & Hf) & ob & Ho).
    exists ob. split; [exact Ho|].
    destruct (ack_login_excl (set_plan s pl) o ob u s' cks Hc Hn Hf Ho HL) as (A & B & C & D & E & F & _).
    cbv zeta. auto 10.
  Qed.
End Reach.
