(* The address pattern of Start, part 3: C06's clause on strings of the
   net/http shape, the anchors, uniqueness of the decomposition of such a
   string, and the session-level theorems of C06 restated with the string-level
   decision. *)
From Sessions Require Import Model.Base Model.Codec Model.Sess Model.Hist Model.AddrRe
  Proofs.BaseLemmas Proofs.AddrRe Proofs.AddrRe2
  Proofs.SessDefs Proofs.StartLaws Proofs.StartLaws2 Proofs.StartLaws3.
From Coq Require Import Lia ZifyBool ZifyN ZifyNat.
Local Open Scope N_scope.

(* digits c1 digits c2 digits c3 digits ":" digits, the c's single bytes that
   are neither digits nor the newline (net/http's RemoteAddr for an IPv4 peer
   has c1 = c2 = c3 = "."); g1..g4 are the octets as written *)
Definition plain (s g1 g2 g3 g4 : bytes) : Prop :=
  exists c1 c2 c3 ds,
    s = g1 ++ c1 :: g2 ++ c2 :: g3 ++ c3 :: g4 ++ 58 :: ds /\
    (digs g1 /\ digs g2 /\ digs g3 /\ digs g4 /\ digs ds) /\
    (is_digit c1 = false /\ is_digit c2 = false /\ is_digit c3 = false) /\
    (c1 <> 10 /\ c2 <> 10 /\ c3 <> 10).

Lemma plain_submatch s g1 g2 g3 g4 : plain s g1 g2 g3 g4 -> submatch s = Some (g1, g2, g3, g4).
Proof.
  intros (c1 & c2 & c3 & ds & -> & (H1 & H2 & H3 & H4 & H5) & (D1 & D2 & D3) & (N1 & N2 & N3)).
  apply submatch_plain; assumption.
Qed.

Lemma plain_render a b c d p : plain (render (V4 a b c d p)) (dec a) (dec b) (dec c) (dec d).
Proof.
  exists 46, 46, 46, (dec p). split; [reflexivity|].
  repeat split; try apply digs_dec; discriminate.
Qed.

(* C06's clause on strings *)
Theorem ip_ok_str_plain n s s' g1 g2 g3 g4 h1 h2 h3 h4 :
  (2 <= n <= 4)%Z -> plain s g1 g2 g3 g4 -> plain s' h1 h2 h3 h4 ->
  (ip_ok_str n s s' = true <->
   firstn (Z.to_nat (n - 1)) [g1; g2; g3; g4] = firstn (Z.to_nat (n - 1)) [h1; h2; h3; h4]).
Proof.
  intros Hn Hs Hs'. apply ip_ok_str_firstn; [exact Hn | apply plain_submatch; exact Hs | apply plain_submatch; exact Hs'].
Qed.

Theorem ip_ok_str_plain_octets n s s' g1 g2 g3 g4 h1 h2 h3 h4 :
  (2 <= n <= 4)%Z -> plain s g1 g2 g3 g4 -> plain s' h1 h2 h3 h4 ->
  (ip_ok_str n s s' = true <->
   (2 <= n -> g1 = h1)%Z /\ (3 <= n -> g2 = h2)%Z /\ (4 <= n -> g3 = h3)%Z).
Proof.
  intros Hn Hs Hs'. apply (ip_ok_str_groups n s s' g1 g2 g3 g4 h1 h2 h3 h4); [exact Hn | apply plain_submatch; exact Hs | apply plain_submatch; exact Hs'].
Qed.

(* the last octet and the port are never compared *)
Theorem ip_ok_str_last_free n s s' g1 g2 g3 g4 h4 :
  plain s g1 g2 g3 g4 -> plain s' g1 g2 g3 h4 -> ip_ok_str n s s' = true.
Proof.
  intros Hs Hs'. destruct (Z_le_gt_dec n 1) as [H1|H1]; [apply ip_ok_str_off; exact H1|].
  destruct (Z_le_gt_dec 5 n) as [H5|H5]; [apply ip_ok_str_ge5; exact H5|].
  apply (ip_ok_str_plain_octets n s s' g1 g2 g3 g4 g1 g2 g3 h4); [lia | exact Hs | exact Hs' | auto].
Qed.

(* anchors *)
Lemma digs_last (ds : bytes) : digs ds -> exists ds0 d, ds = ds0 ++ [d] /\ is_digit d = true.
Proof.
  intros [Hne Hall]. destruct (exists_last Hne) as [ds0 [d ->]]. exists ds0, d. split; [reflexivity|].
  rewrite forallb_app in Hall. cbn in Hall. lia.
Qed.

Theorem submatch_anchored (s : bytes) m :
  submatch s = Some m ->
  (exists d t, s = d :: t /\ is_digit d = true) /\ (exists s0 d, s = s0 ++ [d] /\ is_digit d = true).
Proof.
  destruct m as [[[g1 g2] g3] g4]. intro H.
  apply submatch_some in H as [(x1 & x2 & x3 & ds & -> & (Hg1 & _ & _ & _ & Hds) & _) _]. split.
  - apply digs_head. exact Hg1.
  - destruct (digs_last ds Hds) as [ds0 [d [-> Hd]]].
    exists (g1 ++ x1 ++ g2 ++ x2 ++ g3 ++ x3 ++ g4 ++ 58 :: ds0), d. split; [|exact Hd].
    rewrite <- !app_assoc. cbn [app]. reflexivity.
Qed.

Lemma submatch_nodigit_last (s0 : bytes) (c : N) : is_digit c = false -> submatch (s0 ++ [c]) = None.
Proof.
  intro Hc. destruct (submatch (s0 ++ [c])) as [m|] eqn:H; [|reflexivity].
  apply submatch_anchored in H as [_ (s1 & d & He & Hd)].
  apply app_inj_tail in He as [_ ->]. congruence.
Qed.

(* the refinement for any way of writing the non-IPv4 addresses that the pattern
   does not match (the harness writes AOther 0 as "" and AOther n as
   "[2001:db8::n]:port") *)
Theorem ip_ok_str_any_render (rd : addr -> bytes) :
  (forall a b c d p, rd (V4 a b c d p) = render (V4 a b c d p)) ->
  (forall x, submatch (rd (AOther x)) = None) ->
  forall n a b, ip_ok_str n (rd a) (rd b) = ip_ok n a b.
Proof.
  intros Hv Ho n a b. rewrite <- ip_ok_str_render.
  destruct a as [a1 a2 a3 a4 ap|x], b as [b1 b2 b3 b4 bp|y]; rewrite ?Hv.
  - reflexivity.
  - rewrite !ip_ok_str_nomatch_r; [reflexivity | apply submatch_render_other | apply Ho].
  - rewrite !ip_ok_str_nomatch_l; [reflexivity | apply submatch_render_other | apply Ho].
  - rewrite !ip_ok_str_nomatch_l; [reflexivity | apply submatch_render_other | apply Ho].
Qed.

(* ---- the session-level theorems of C06 with the string-level decision ---- *)

Theorem anomaly_destroys_str s q k r :
  plan s = [] -> cache_ok s -> nodup_ok s -> fresh_ok s ->
  q_cookie q = CKey k -> L s k = Some r ->
  ip_ok_str (c_acceptip (conf s)) (render (r_ip r)) (render (q_addr q)) = false ->
  exists s' res nck,
    start s q = (s', res, CkDelete :: nck) /\
    no_session s q s' res nck /\
    lookup (cache s') k = None /\ lookup (store s') k = None /\
    (forall k', k' <> k -> k' <> KGen (supply s) -> Lc s' k' = Lc s k') /\
    (store_norm s -> store_norm s') /\
    ok s' /\ conf s' = conf s.
Proof.
  intros Hp Hc Hn Hf Hq HL Hs. rewrite ip_ok_str_render in Hs.
  apply (anomaly_destroys s q k r Hp Hc Hn Hf Hq HL). left. exact Hs.
Qed.
