(* B2 (C05), part (b), cache off, continued: the reference loop and Start. *)
From Sessions Require Import Model.Base Model.Sess Model.Hist Model.StartSteps Proofs.SessDefs
  Proofs.RotateLaws Proofs.RotateLaws2 Proofs.RotateLaws3 Proofs.RotateLaws4 Proofs.StartSteps
  Proofs.StartSteps2 Proofs.StartSteps3 Proofs.StartSteps4 Proofs.StartSteps5 Proofs.StartSteps9.
From Sessions Require Proofs.StartLaws Proofs.CacheInv.
From Coq Require Import Lia.

Lemma cache_get_conf_off a j : c_maxcache (conf a) = 0%Z -> conf (fst (cache_get a j)) = conf a.
Proof.
  destruct a. cbn. intro Hm. unfold cache_get, p_load, next_fault, halloc. cbn.
  destruct (lookup cache j); [reflexivity|].
  destruct plan as [|[|] p]; cbn; try reflexivity.
  - destruct (lookup store j) as [r|]; cbn; [|reflexivity].
    destruct (r_user r) as [[u v]|]; cbn; rewrite Hm; reflexivity.
  - destruct (lookup store j) as [r|]; cbn; [|reflexivity].
    destruct (r_user r) as [[u v]|]; cbn; [|rewrite Hm; reflexivity].
    destruct p as [|[|] p']; cbn; rewrite ?Hm; reflexivity.
Qed.

(* the loop does not read the log *)
Lemma follow_ne fuel : forall a b o lk, ne a = ne b -> c_maxcache (conf a) = 0%Z ->
  ne (fst (follow fuel a o lk)) = ne (fst (follow fuel b o lk)) /\
  snd (follow fuel a o lk) = snd (follow fuel b o lk).
Proof.
  induction fuel as [|f IH]; intros a b o lk H Hm; cbn [follow];
    destruct (ne_fields a b H) as (Hh & _); unfold hget; rewrite Hh;
    destruct (nth_error (heap b) o) as [ob|]; try (split; [exact H | reflexivity]);
    destruct (r_ref (o_rec ob)) as [t|]; try (split; [exact H | reflexivity]).
  destruct (cache_get_ne a b t H Hm) as [H1 H2]. pose proof (cache_get_conf_off a t Hm) as Hc.
  destruct (cache_get a t) as [a1 ra], (cache_get b t) as [b1 rb]. cbn [fst snd] in *. subst rb.
  destruct ra as [[o1|]|]; try (split; [exact H1 | reflexivity]).
  apply IH; [exact H1 | rewrite Hc; exact Hm].
Qed.

(* r heads a chain of replaced-ID records through the IDs in rest, as stored *)
Fixpoint stored_chain (s : st) (r : rec) (rest : list key) : Prop :=
  match rest with
  | [] => r_ref r = None
  | k' :: t => r_ref r = Some k' /\ exists r', lookup (store s) k' = Some r' /\ stored_chain s r' t
  end.

Lemma stored_chain_keep s s' rest : (forall k, In k rest -> lookup (store s') k = lookup (store s) k) ->
  forall r, stored_chain s r rest -> stored_chain s' r rest.
Proof.
  induction rest as [|k' t IH]; intros Hk r H; cbn [stored_chain] in *; [exact H|].
  destruct H as [Hr (r' & Hl & Hc)]. split; [exact Hr|]. exists r'.
  split; [rewrite (Hk k' (or_introl eq_refl)); exact Hl|]. apply IH; [intros k Hin; apply Hk; right; exact Hin | exact Hc].
Qed.

(* fault-free, cache off and empty *)
Definition offst (s : st) : Prop := plan s = [] /\ c_maxcache (conf s) = 0%Z /\ nocache s.

Lemma offst_fired s : offst s -> offst (fire_due s).
Proof.
  intros (Hp & Hm & Hn). pose proof (fire_due_fired s Hp) as F.
  split; [exact (fd_plan _ _ F)|]. split; [rewrite (fd_conf _ _ F); exact Hm | exact (nocache_fired s _ F Hn)].
Qed.

Lemma stored_chain_fired s rest r : plan s = [] -> (forall k, In k rest -> notdue s k) ->
  stored_chain s r rest -> stored_chain (fire_due s) r rest.
Proof.
  intros Hp Hd. apply stored_chain_keep. intros k Hk. rewrite (fired_lookup_store s _ k (fire_due_fired s Hp)).
  pose proof (Hd k Hk) as H. apply due_in_false in H. rewrite H. reflexivity.
Qed.

(* one load on a stored chain *)
Lemma get_stored s k' r' : offst s -> lookup (store s) k' = Some r' ->
  exists l, cache_get s k' = (loaded s l k' r', Some (Some (length (heap s)))) /\
            offst (loaded s l k' r') /\
            hget (loaded s l k' r') (length (heap s)) = Some (mkObj k' r') /\
            pending (loaded s l k' r') = pending s /\ now (loaded s l k' r') = now s /\
            store (loaded s l k' r') = store s.
Proof.
  intros (Hp & Hm & Hn) Hl. destruct (cache_get_off s k' Hp Hm (Hn k')) as (l & E). rewrite Hl in E.
  exists l. split; [exact E|]. split; [split; [exact Hp | split; [exact Hm | exact Hn]]|].
  split; [|repeat split]. unfold hget, loaded. cbn [heap set_heap]. rewrite nth_error_app2 by lia.
  rewrite Nat.sub_diag. reflexivity.
Qed.

(* the loop on a stored chain ends at its last ID *)
Lemma follow_off_ok rest : forall fuel s o ob lk,
  length rest <= fuel -> offst s -> hget s o = Some ob -> stored_chain s (o_rec ob) rest ->
  exists o', snd (follow fuel s o lk) = Ok (o', last rest lk).
Proof.
  induction rest as [|k' t IH]; intros fuel s o ob lk Hf Ho Hg Hc.
  - cbn in Hc. exists o. destruct fuel; cbn; rewrite Hg, Hc; reflexivity.
  - destruct Hc as [Hr (r' & Hl & Hc)]. destruct fuel as [|f]; [cbn in Hf; lia|].
    cbn [follow]. rewrite Hg, Hr. destruct (get_stored s k' r' Ho Hl) as (l & E & Ho1 & Hg1 & _ & _ & Hs1).
    rewrite E. rewrite last_cons. apply (IH f _ _ (mkObj k' r') k'); [cbn in Hf; lia | exact Ho1 | exact Hg1|].
    cbn [o_rec]. apply (stored_chain_keep s); [intros k _; rewrite Hs1; reflexivity | exact Hc].
Qed.

(* the loop, then the clean-up pass = the clean-up pass, then the loop (up to the log) *)
Lemma follow_fire_comm rest : forall fuel s o ob lk,
  length rest <= fuel -> offst s -> (forall k, In k rest -> notdue s k) ->
  hget s o = Some ob -> stored_chain s (o_rec ob) rest ->
  ne (fst (follow fuel (fire_due s) o lk)) = ne (fire_due (fst (follow fuel s o lk))) /\
  snd (follow fuel (fire_due s) o lk) = snd (follow fuel s o lk).
Proof.
  induction rest as [|k' t IH]; intros fuel s o ob lk Hf Ho Hd Hg Hc.
  - cbn in Hc. pose proof (fired_hget s _ o (fire_due_fired s (proj1 Ho))) as Hg'.
    destruct fuel; cbn; rewrite Hg', Hg, Hc; split; reflexivity.
  - destruct Hc as [Hr (r' & Hl & Hc)]. destruct fuel as [|f]; [cbn in Hf; lia|].
    pose proof Ho as (Hp & Hm & Hn). pose proof (fire_due_fired s Hp) as F.
    cbn [follow]. rewrite (fired_hget s _ o F), Hg, Hr.
    destruct (get_fire_comm s k' Hp Hm Hn (Hd k' (or_introl eq_refl))) as [C1 C2].
    destruct (get_stored s k' r' Ho Hl) as (l & E & Ho1 & Hg1 & Hp1 & Hn1 & Hs1).
    rewrite E in C1, C2 |- *. cbn [fst snd] in C1, C2.
    destruct (cache_get (fire_due s) k') as [X rx] eqn:EX. cbn [fst snd] in C1, C2. subst rx.
    set (Y := loaded s l k' r') in *.
    assert (HmX : c_maxcache (conf X) = 0%Z).
    { destruct (ne_fields _ _ C1) as (_ & _ & _ & _ & _ & _ & Hc' & _). rewrite Hc'.
      exact (proj1 (proj2 (offst_fired Y Ho1))). }
    destruct (follow_ne f X (fire_due Y) (length (heap s)) k' C1 HmX) as [N1 N2].
    destruct (IH f Y (length (heap s)) (mkObj k' r') k') as [I1 I2].
    + cbn in Hf. lia.
    + exact Ho1.
    + intros k Hk d Hin. rewrite Hn1. apply (Hd k (or_intror Hk)). rewrite <- Hp1. exact Hin.
    + exact Hg1.
    + cbn [o_rec]. apply (stored_chain_keep s); [intros k _; rewrite Hs1; reflexivity | exact Hc].
    + split; [rewrite N1; exact I1 | rewrite N2; exact I2].
Qed.

(* the loop with the clean-ups firing after the i-th cache operation *)
Lemma follow_h_off i rest : forall n fuel s o ob lk,
  length rest <= fuel -> offst s -> (forall k, In k rest -> notdue s k) ->
  hget s o = Some ob -> stored_chain s (o_rec ob) rest ->
  ne (fst (follow_h (fire_at i) n fuel s o lk)) =
    ne (if (n <? i) && (i <=? n + length rest) then fire_due (fst (follow fuel s o lk)) else fst (follow fuel s o lk)) /\
  snd (follow_h (fire_at i) n fuel s o lk) = snd (follow fuel s o lk).
Proof.
  induction rest as [|k' t IH]; intros n fuel s o ob lk Hf Ho Hd Hg Hc.
  - cbn in Hc. cbn [length].
    replace ((n <? i) && (i <=? n + 0)) with false
      by (symmetry; destruct (Nat.ltb_spec n i), (Nat.leb_spec i (n + 0)); try lia; reflexivity).
    destruct fuel; cbn; rewrite Hg, Hc; split; reflexivity.
  - destruct Hc as [Hr (r' & Hl & Hc)]. destruct fuel as [|f]; [cbn in Hf; lia|].
    cbn [follow_h follow]. rewrite Hg, Hr.
    destruct (get_stored s k' r' Ho Hl) as (l & E & Ho1 & Hg1 & Hp1 & Hn1 & Hs1). rewrite E.
    set (Y := loaded s l k' r') in *.
    assert (Hd1 : forall k, In k t -> notdue Y k).
    { intros k Hk d Hin. rewrite Hn1. apply (Hd k (or_intror Hk)). rewrite <- Hp1. exact Hin. }
    assert (Hc1 : stored_chain Y r' t).
    { apply (stored_chain_keep s); [intros k _; rewrite Hs1; reflexivity | exact Hc]. }
    cbn [length]. rewrite andb_window.
    change (fire_at i (S n) Y) with (if Nat.eqb (S n) i then fire_due Y else Y).
    destruct (Nat.eqb (S n) i) eqn:Ei; cbn [orb].
    + apply Nat.eqb_eq in Ei.
      destruct (IH (S n) f (fire_due Y) (length (heap s)) (mkObj k' r') k') as [I1 I2].
      * cbn in Hf. lia.
      * exact (offst_fired Y Ho1).
      * intros k Hk. apply (notdue_fired Y _ k (fire_due_fired Y (proj1 Ho1))). apply Hd1. exact Hk.
      * rewrite (fired_hget Y _ _ (fire_due_fired Y (proj1 Ho1))). exact Hg1.
      * cbn [o_rec]. apply (stored_chain_fired Y t r' (proj1 Ho1) Hd1 Hc1).
      * replace ((S n <? i) && (i <=? S n + length t)) with false in I1
          by (symmetry; apply andb_false_iff; left; apply Nat.ltb_ge; lia).
        destruct (follow_fire_comm t f Y (length (heap s)) (mkObj k' r') k') as [B1 B2];
          [cbn in Hf; lia | exact Ho1 | exact Hd1 | exact Hg1 | exact Hc1 |].
        split; [rewrite I1; exact B1 | rewrite I2; exact B2].
    + apply (IH (S n) f Y (length (heap s)) (mkObj k' r') k'); [cbn in Hf; lia | exact Ho1 | exact Hd1 | exact Hg1 | exact Hc1].
Qed.

Lemma offst_def s : offst s <-> plan s = [] /\ c_maxcache (conf s) = 0%Z /\ forall j, lookup (cache s) j = None.
Proof. reflexivity. Qed.
