(* Bridge Sess.codec <-> Model/Codec.v, part 3: the persistence layer of the
   session model. What SaveSession leaves in the store (p_save) and what
   LoadSession hands back (p_load) is what the codec model yields for the
   embedded record - whatever the fault plan, whenever the calls succeed.
   Statements: Properties/C09B.v. *)
From Sessions Require Import Model.Base Model.Codec Model.CodecBridge Proofs.CodecDefs
  Proofs.CodecBridge Proofs.CodecBridge2.
From Sessions Require Import Model.Sess Proofs.SessDefs.

(* a successful save puts Sess.codec of the record under the key; the
   configuration is untouched *)
Lemma p_save_stores (s : st) (k : key) (r : rec) (s1 : st) :
  p_save s k r = (s1, true) ->
  lookup (store s1) k = Some (Sess.codec (conf s) r) /\ conf s1 = conf s.
Proof.
  unfold p_save, next_fault.
  destruct (plan s) as [|[|] p]; intro H; inversion H; subst s1; clear H;
    cbn [store conf log set_evs set_store set_plan];
    rewrite lookup_upsert_same; split; reflexivity.
Qed.

Lemma next_fault_store (s : st) : store (snd (next_fault s)) = store s.
Proof. unfold next_fault. destruct (plan s) as [|b p]; reflexivity. Qed.

(* a load that yields a record yields the stored one *)
Lemma p_load_yields_stored (s1 : st) (k : key) (s2 : st) (r' : rec) :
  p_load s1 k = (s2, Some (Some r')) -> lookup (store s1) k = Some r'.
Proof.
  unfold p_load. assert (Hst := next_fault_store s1).
  destruct (next_fault s1) as [f s']. cbn [snd] in Hst.
  destruct f; [intro H; discriminate H|].
  cbn [store log set_evs]. rewrite Hst.
  destruct (lookup (store s1) k) as [r|]; [|intro H; discriminate H].
  destruct (r_user r) as [[u v]|]; [|intro H; inversion H; reflexivity].
  destruct (next_fault (log s' (EvLoad k true))) as [f2 s'']. destruct f2; intro H; inversion H; reflexivity.
Qed.

(* SaveSession then LoadSession: the record that comes back is the one the
   codec model computes - encode with session.go's encoder for the configured
   codec, decode with its decoder, on the embedded record. *)
Lemma save_load_bridge (s : st) (k : key) (r : rec) (s1 s2 : st) (r' : rec) :
  (c_json (conf s) = true -> json_da_null_ok = true) ->
  bridge_dom (conf s) r = true ->
  p_save s k r = (s1, true) ->
  p_load s1 k = (s2, Some (Some r')) ->
  decode_encode (conf s) (emb_rec r) = Codec.Ok (emb_rec r') /\
  proj_result (decode_encode (conf s) (emb_rec r)) = Some r'.
Proof.
  intros Hok Hd Hs Hl.
  destruct (p_save_stores s k r s1 Hs) as [Hst _].
  apply p_load_yields_stored in Hl. rewrite Hst in Hl. inversion Hl; subst r'.
  split; [apply bridge_bytes | apply bridge_proj]; assumption.
Qed.

(* what the store holds after a successful save, stated on the store alone *)
Lemma save_store_bridge (s : st) (k : key) (r : rec) (s1 : st) :
  (c_json (conf s) = true -> json_da_null_ok = true) ->
  bridge_dom (conf s) r = true ->
  p_save s k r = (s1, true) ->
  lookup (store s1) k = proj_result (decode_encode (conf s) (emb_rec r)).
Proof.
  intros Hok Hd Hs. destruct (p_save_stores s k r s1 Hs) as [Hst _].
  rewrite Hst. symmetry. apply bridge_proj; assumption.
Qed.

(* without faults both calls do succeed *)
Lemma save_load_succeeds (s : st) (k : key) (r : rec) :
  plan s = [] ->
  exists s1 s2, p_save s k r = (s1, true) /\ p_load s1 k = (s2, Some (Some (Sess.codec (conf s) r))).
Proof.
  intro Hp.
  pose (s1 := log (set_store s (upsert (store s) k (Sess.codec (conf s) r)))
                  (EvSave k (Sess.codec (conf s) r) true)).
  assert (Hs : p_save s k r = (s1, true)) by (unfold p_save, next_fault; rewrite Hp; reflexivity).
  assert (Hp1 : plan s1 = []) by exact Hp.
  assert (Hst : lookup (store s1) k = Some (Sess.codec (conf s) r)) by apply lookup_upsert_same.
  exists s1. unfold p_load, next_fault. rewrite Hp1.
  change (store (log s1 (EvLoad k true))) with (store s1). rewrite Hst.
  destruct (r_user (Sess.codec (conf s) r)) as [[u v]|].
  - change (plan (log s1 (EvLoad k true))) with (plan s1). rewrite Hp1.
    eexists. split; [exact Hs | reflexivity].
  - eexists. split; [exact Hs | reflexivity].
Qed.
