(* Task PD, part 3: the look-up phase of Start and C04 for Start: a valid
   current ID is rotated exactly when it is at least SessionIDExpiry old. *)
From Sessions Require Import Model.Base Model.Sess Model.Hist Proofs.SessDefs
  Proofs.RotateLaws Proofs.RotateLaws2.
From Coq Require Import Lia.

(* L is preserved up to the codec (flushes write the encoded record) *)
Definition Lpres (s s' : st) : Prop :=
  forall k, L s' k = L s k \/ L s' k = option_map (codec (conf s)) (L s k).

Lemma Lpres_refl s : Lpres s s.
Proof. intro k. left. reflexivity. Qed.

Lemma Lpres_of_keys s s' k0 :
  cache_heap s -> conf s' = conf s ->
  (forall o ob, hget s o = Some ob -> hget s' o = Some ob) ->
  L s' k0 = L s k0 ->
  (forall k, k <> k0 -> key_kept s s' k \/ key_flushed s s' k) ->
  Lpres s s'.
Proof.
  intros Hh Hc Hext H0 Hk k. destruct (key_eq_dec k k0) as [->|Hne]; [left; exact H0|].
  destruct (Hk k Hne) as [[K1 K2]|[K1 [o [ob [K2 [K3 K4]]]]]].
  - left. unfold L. rewrite K1, K2. destruct (lookup (cache s) k) as [o|] eqn:E; [|reflexivity].
    apply lookup_In in E. destruct (Hh k o E) as [ob Hg]. rewrite Hg, (Hext _ _ Hg). reflexivity.
  - right. rewrite (L_uncached s' k K1), K4.
    pose proof (lookup_In _ _ _ K2) as Hin. destruct (Hh k o Hin) as [ob' Hg].
    pose proof (Hext _ _ Hg) as Hg'. assert (ob' = ob) by congruence. subst ob'.
    rewrite (L_cached s k o ob K2 Hg). rewrite Hc. reflexivity.
Qed.

Lemma Lpres_trans s s1 s2 : conf s1 = conf s -> Lpres s s1 -> Lpres s1 s2 -> Lpres s s2.
Proof.
  intros Hc H1 H2 k. destruct (H2 k) as [E2|E2]; destruct (H1 k) as [E1|E1]; rewrite E2, E1, ?Hc.
  - left. reflexivity.
  - right. reflexivity.
  - right. reflexivity.
  - right. destruct (L s k); cbn; [rewrite codec_idem|]; reflexivity.
Qed.

(* Only loads and flushes happened between s and s'. *)
Record quiet (s s' : st) : Prop := mkQuiet {
  qu_ext : forall o ob, hget s o = Some ob -> hget s' o = Some ob;
  qu_plan : plan s' = [];
  qu_ndc : NoDup (map fst (cache s'));
  qu_cok : cache_ok s';
  qu_now : now s' = now s;
  qu_conf : conf s' = conf s;
  qu_supply : supply s' = supply s;
  qu_pending : pending s' = pending s;
  qu_draws : draws (evs s') = draws (evs s);
  qu_next : lookup (cache s) (KGen (supply s)) = None -> lookup (cache s') (KGen (supply s)) = None;
  qu_L : Lpres s s' }.

Lemma quiet_refl s : plan s = [] -> NoDup (map fst (cache s)) -> cache_ok s -> quiet s s.
Proof. intros. constructor; auto. apply Lpres_refl. Qed.

Lemma quiet_trans s s1 s2 : quiet s s1 -> quiet s1 s2 -> quiet s s2.
Proof.
  intros [A1 A2 A3 A4 A5 A6 A7 A8 A9 A10 A11] [B1 B2 B3 B4 B5 B6 B7 B8 B9 B10 B11].
  constructor; try congruence; auto.
  - intro H. rewrite <- A7. apply B10. rewrite A7. apply A10. exact H.
  - eapply Lpres_trans; eassumption.
Qed.

(* ----------------------------------------------------- the look-up phase *)

Record found_post (s : st) (k : key) (r : rec) (s1 : st) (o0 : nat) : Prop := mkFoundPost {
  fp_quiet : quiet s s1;
  fp_obj : hget s1 o0 = Some (mkObj k r);
  fp_cache : lookup (cache s1) k = Some o0 \/
             (lookup (cache s1) k = None /\ lookup (cache s) k = None /\ lookup (store s1) k = Some r);
  fp_Lk : L s1 k = Some r }.

Lemma draws_loads k r : draws (load_evs k r) = [].
Proof. destruct r as [r|]; cbn; [destruct (r_user r) as [[u v]|]|]; reflexivity. Qed.

Lemma L_drawn s k r : fresh_ok s -> L s k = Some r -> key_drawn s k.
Proof.
  intros [F1 [F2 _]] H. unfold L in H. destruct (lookup (cache s) k) as [o|] eqn:E.
  - apply lookup_In in E. apply (F1 _ _ E).
  - apply lookup_In in H. apply (F2 _ _ H).
Qed.

Lemma drawn_not_next s k : key_drawn s k -> k <> KGen (supply s).
Proof. intros H E. subst k. cbn in H. lia. Qed.

Lemma lookup_found s k r :
  plan s = [] -> cache_ok s -> NoDup (map fst (cache s)) -> k <> KGen (supply s) -> L s k = Some r ->
  exists s1 o0, cache_get s k = (s1, Some (Some o0)) /\ found_post s k r s1 o0.
Proof.
  intros Hp Hco Hnd Hkj HL.
  pose proof (cache_ok_heap s Hco Hnd) as Hh.
  destruct (lookup (cache s) k) as [o0|] eqn:Ec.
  - exists s, o0. split; [apply cache_get_hit; exact Ec|].
    destruct (Hco k o0 Ec) as [ob [Hg Hid]].
    rewrite (L_cached s k o0 ob Ec Hg) in HL. injection HL as HL.
    assert (ob = mkObj k r) by (destruct ob; cbn in *; congruence). subst ob.
    constructor; auto.
    + apply quiet_refl; assumption.
    + apply (L_cached s k o0 _ Ec Hg).
  - rewrite (L_uncached s k Ec) in HL.
    destruct (cache_get_load s k r Hp Hnd Ec HL) as [Hres P].
    destruct (cache_get s k) as [s1 res]. cbn [fst snd] in *. subst res.
    exists s1, (length (heap s)). split; [reflexivity|].
    destruct P as [Gh Gg Gp Gn Gsu Gc Gpl [l [Ge Gl]] Gndc Gnds Gst Gca Gsub Gk].
    assert (Hobj : hget s1 (length (heap s)) = Some (mkObj k r)).
    { unfold hget. rewrite Gh. rewrite nth_error_app2 by lia. rewrite Nat.sub_diag. reflexivity. }
    assert (Hext : forall o ob, hget s o = Some ob -> hget s1 o = Some ob).
    { intros o ob Hg. eapply hget_app_old; [exact Gh | exact Hg]. }
    assert (HLk : L s1 k = Some r).
    { destruct Gca as [[_ Hc]|[_ Hc]].
      - apply (L_cached s1 k _ _ Hc Hobj).
      - rewrite (L_uncached s1 k Hc). exact Gst. }
    constructor; auto.
    + constructor; auto.
      * intros k' o' Hl. apply lookup_In in Hl. apply Gsub in Hl as [Hl|Hl].
        -- apply In_lookup_nodup in Hl; [|exact Hnd]. destruct (Hco k' o' Hl) as [ob [Hg Hid]].
           exists ob. split; [apply Hext; exact Hg | exact Hid].
        -- injection Hl as -> ->. exists (mkObj k r). split; [exact Hobj | reflexivity].
      * rewrite Ge, !draws_app, (draws_saves l Gl), draws_loads. reflexivity.
      * intro Hn. destruct (lookup (cache s1) (KGen (supply s))) as [x|] eqn:E; [|reflexivity].
        apply lookup_In in E. apply Gsub in E as [E|E].
        -- apply In_lookup_nodup in E; [|exact Hnd]. rewrite Hn in E. discriminate.
        -- congruence.
      * apply (Lpres_of_keys s s1 k Hh Gc Hext); [|exact Gk].
        rewrite HLk, (L_uncached s k Ec). symmetry. exact HL.
    + destruct Gca as [[_ Hc]|[_ Hc]]; [left; exact Hc | right; auto].
Qed.

(* ------------------------------------------------------------- validity *)

Definition valid_for (c : cfg) (r : rec) (t : Z) (q : request) : bool :=
  negb (c_expiry c <=? since (r_access r) t)%Z
  && ip_ok (c_acceptip c) (r_ip r) (q_addr q)
  && ua_ok (c_acceptua c) (r_ua r) (q_ua q).

(* the bookkeeping of an accepted request *)
Definition seen_rec (r : rec) (t : Z) (q : request) : rec :=
  set_ua (set_ip (set_access r t) (q_addr q)) (q_ua q).

Lemma hget_hupd_same s o ob f : hget s o = Some ob ->
  hget (hupd s o f) o = Some (mkObj (o_id ob) (f (o_rec ob))).
Proof.
  intro H. rewrite (hupd_hget s o ob f H). apply hget_hput_same. eapply hget_Some_lt. exact H.
Qed.

Lemma hget_hupd_other s o o' f : o <> o' -> hget (hupd s o f) o' = hget s o'.
Proof.
  intro H. unfold hupd. destruct (hget s o); [apply hget_hput_other; exact H | reflexivity].
Qed.

Lemma hupd_fields s o f :
  cache (hupd s o f) = cache s /\ store (hupd s o f) = store s /\ pending (hupd s o f) = pending s /\
  evs (hupd s o f) = evs s /\ supply (hupd s o f) = supply s /\ now (hupd s o f) = now s /\
  conf (hupd s o f) = conf s /\ plan (hupd s o f) = plan s.
Proof. unfold hupd. destruct (hget s o); repeat split. Qed.

(* Durations are int64 values and the grace period is not negative. *)
Definition cfg_ok (c : cfg) : Prop := (0 <= c_grace c)%Z /\ (c_idexpiry c <= max64)%Z.

Lemma since_le_max t n : (since t n <= max64)%Z.
Proof.
  unfold since, clamp64. destruct (Z.ltb_spec (n - t) min64); [unfold min64, max64; lia|].
  destruct (Z.ltb_spec max64 (n - t)); lia.
Qed.

(* below max64 the backstop age is at least SessionIDExpiry *)
Lemma backstop_ge c : cfg_ok c ->
  (c_idexpiry c <= sat_add (c_idexpiry c) (c_grace c))%Z.
Proof.
  intros [Hg Hi]. unfold sat_add, clamp64.
  destruct (Z.ltb_spec (c_idexpiry c + c_grace c) min64); [unfold min64, max64 in *; lia|].
  destruct (Z.ltb_spec max64 (c_idexpiry c + c_grace c)); lia.
Qed.

(* ------------------------------------------------ C04: no rotation due *)

Theorem start_keep s q k r :
  plan s = [] -> cache_ok s -> nodup_ok s -> fresh_ok s ->
  cfg_ok (conf s) ->
  q_cookie q = CKey k -> L s k = Some r -> r_ref r = None ->
  valid_for (conf s) r (now s) q = true ->
  (since (r_created r) (now s) < c_idexpiry (conf s))%Z ->
  exists s' o,
    start s q = (s', Ok (Some o), []) /\
    draws (evs s') = draws (evs s) /\ supply s' = supply s /\
    hget s' o = Some (mkObj k (seen_rec r (now s) q)) /\
    L s' k = Some (if cached s' k then seen_rec r (now s) q else r) /\
    pending s' = pending s.
Proof.
  intros Hp Hco [Hndc Hnds] Hf Hcfg Hq HL Href Hvalid Hage.
  pose proof (drawn_not_next s k (L_drawn s k r Hf HL)) as Hkj.
  destruct (lookup_found s k r Hp Hco Hndc Hkj HL) as [s1 [o0 [Eg P]]].
  pose proof (fp_quiet _ _ _ _ _ P) as Q.
  unfold start. rewrite Hq, Eg. cbn [negb]. rewrite (fp_obj _ _ _ _ _ P). cbn [o_rec].
  rewrite (qu_now _ _ Q).
  unfold valid_for in Hvalid. rewrite Hvalid. cbn [negb]. rewrite Href. cbn [negb andb].
  replace (c_idexpiry (conf s) <=? since (r_created r) (now s))%Z with false
    by (symmetry; apply Z.leb_gt; exact Hage).
  destruct (sat_add (c_idexpiry (conf s)) (c_grace (conf s)) <=? since (r_created r) (now s))%Z eqn:Eb.
  { (* the backstop lies above SessionIDExpiry *)
    exfalso. apply Z.leb_le in Eb. pose proof (backstop_ge _ Hcfg). lia. }
  cbn [app].
  exists (hupd s1 o0 (fun r0 => set_ua (set_ip (set_access r0 (now s1)) (q_addr q)) (q_ua q))), o0.
  split; [reflexivity|].
  destruct (hupd_fields s1 o0 (fun r0 => set_ua (set_ip (set_access r0 (now s1)) (q_addr q)) (q_ua q)))
    as (Hc & Hs & Hpe & He & Hsu & Hn & Hcf & Hpl).
  assert (Ho : hget (hupd s1 o0 (fun r0 => set_ua (set_ip (set_access r0 (now s1)) (q_addr q)) (q_ua q))) o0
               = Some (mkObj k (seen_rec r (now s) q))).
  { rewrite (hget_hupd_same s1 o0 _ _ (fp_obj _ _ _ _ _ P)). cbn [o_id o_rec].
    rewrite (qu_now _ _ Q). reflexivity. }
  repeat split.
  - rewrite He. exact (qu_draws _ _ Q).
  - rewrite Hsu. exact (qu_supply _ _ Q).
  - exact Ho.
  - unfold cached, has. rewrite Hc.
    destruct (fp_cache _ _ _ _ _ P) as [Hk|[Hk [_ Hst]]]; rewrite Hk.
    + rewrite <- Hc in Hk. rewrite (L_cached _ _ _ _ Hk Ho). reflexivity.
    + rewrite <- Hc in Hk. rewrite (L_uncached _ _ Hk). rewrite Hs. exact Hst.
  - rewrite Hpe. exact (qu_pending _ _ Q).
Qed.

(* -------------------------------------------------- C04: rotation is due *)

Theorem start_rotate s q k r :
  plan s = [] -> cache_ok s -> nodup_ok s -> fresh_ok s ->
  q_cookie q = CKey k -> L s k = Some r -> r_ref r = None ->
  valid_for (conf s) r (now s) q = true ->
  (c_idexpiry (conf s) <= since (r_created r) (now s))%Z ->
  let j := KGen (supply s) in
  let t := now s in
  exists s' o,
    start s q = (s', Ok (Some o), [CkLive j]) /\
    draws (evs s') = supply s :: draws (evs s) /\ supply s' = (supply s + 1)%N /\
    hget s' o = Some (mkObj j (seen_rec (rot_rec r t) t q)) /\
    L s' j = Some (if cached s' j then seen_rec (rot_rec r t) t q else codec (conf s) (rot_rec r t)) /\
    L s' k = Some (if cached s' k then ref_rec r t j else codec (conf s) (ref_rec r t j)) /\
    lookup (store s') j = Some (codec (conf s) (rot_rec r t)) /\
    lookup (store s') k = Some (codec (conf s) (ref_rec r t j)) /\
    pending s' = pending s ++ [((t + c_grace (conf s))%Z, k)].
Proof.
  intros Hp Hco [Hndc Hnds] Hf Hq HL Href Hvalid Hage j t.
  pose proof (drawn_not_next s k (L_drawn s k r Hf HL)) as Hkj.
  destruct (lookup_found s k r Hp Hco Hndc Hkj HL) as [s1 [o0 [Eg P]]].
  destruct P as [[Pext Ppl Pndc Pcok Pn Pc Psu Ppe Pdr Pfr PL] Pobj Pca PLk].
  assert (Hfr1 : lookup (cache s1) (KGen (supply s1)) = None)
    by (rewrite Psu; apply Pfr; apply fresh_cache_none; exact Hf).
  assert (Hid1 : o_id (mkObj k r) <> KGen (supply s1)) by (rewrite Psu; exact Hkj).
  destruct (regenerate_ff s1 o0 (mkObj k r) Ppl Pndc (cache_ok_heap s1 Pcok Pndc) Pobj Hfr1 Hid1)
    as [s2 [Er R]].
  unfold start. rewrite Hq, Eg. cbn [negb]. rewrite Pobj. cbn [o_rec]. rewrite Pn.
  unfold valid_for in Hvalid. rewrite Hvalid. cbn [negb]. rewrite Href. cbn [negb andb].
  replace (c_idexpiry (conf s) <=? since (r_created r) (now s))%Z with true
    by (symmetry; apply Z.leb_le; exact Hage).
  rewrite Er. cbn [app]. rewrite Psu. fold j.
  set (s' := hupd s2 o0 _).
  exists s', o0. split; [reflexivity|].
  destruct R as [Rh Rg Rpe Rn Rsu Rc Rpl [l [Re Rl]] Rndc Rnds Rsn Rso Rcn Rco Rsub].
  cbn [o_id o_rec] in *. rewrite Psu, Pn, Pc in *. fold j in Rh, Rsn, Rso, Rcn, Rsub. fold t in Rh, Rsn, Rso, Rpe.
  pose proof (hget_Some_lt _ _ _ Pobj) as Hlt.
  assert (Ho2 : hget s2 o0 = Some (mkObj j (rot_rec r t))).
  { unfold hget. rewrite Rh. rewrite nth_error_app1 by (rewrite replace_nth_length; exact Hlt).
    apply nth_replace_nth_same. exact Hlt. }
  assert (Hr2 : hget s2 (length (heap s1)) = Some (mkObj k (ref_rec r t j))).
  { unfold hget. rewrite Rh. rewrite nth_error_app2 by (rewrite replace_nth_length; lia).
    rewrite replace_nth_length, Nat.sub_diag. reflexivity. }
  destruct (hupd_fields s2 o0 (fun r0 => set_ua (set_ip (set_access r0 (now s2)) (q_addr q)) (q_ua q)))
    as (Hc & Hs & Hpe & He & Hsu & Hn & Hcf & Hpl).
  fold s' in Hc, Hs, Hpe, He, Hsu, Hn, Hcf, Hpl.
  assert (Ho : hget s' o0 = Some (mkObj j (seen_rec (rot_rec r t) t q))).
  { unfold s'. rewrite (hget_hupd_same s2 o0 _ _ Ho2). cbn [o_id o_rec]. rewrite Rn. reflexivity. }
  assert (Hr : hget s' (length (heap s1)) = Some (mkObj k (ref_rec r t j))).
  { unfold s'. rewrite hget_hupd_other by lia. exact Hr2. }
  repeat split.
  - rewrite He, Re, draws_app, (draws_saves l Rl).
    change (draws (EvDraw (supply s) :: evs s1)) with (supply s :: draws (evs s1)). rewrite Pdr. reflexivity.
  - rewrite Hsu. exact Rsu.
  - exact Ho.
  - unfold cached, has. rewrite Hc. destruct Rcn as [Hk|Hk]; rewrite Hk; rewrite <- Hc in Hk.
    + rewrite (L_cached _ _ _ _ Hk Ho). reflexivity.
    + rewrite (L_uncached _ _ Hk). rewrite Hs. exact Rsn.
  - unfold cached, has. rewrite Hc. destruct Rco as [Hk|Hk]; rewrite Hk; rewrite <- Hc in Hk.
    + rewrite (L_cached _ _ _ _ Hk Hr). reflexivity.
    + rewrite (L_uncached _ _ Hk). rewrite Hs. exact Rso.
  - rewrite Hs. exact Rsn.
  - rewrite Hs. exact Rso.
  - rewrite Hpe, Rpe, Ppe. reflexivity.
Qed.

(* Instances: SessionIDExpiry = 0 rotates on every accepted request (of a
   record not created in the future); SessionIDExpiry = max64 never does. *)
Lemma since_nonneg t n : (t <= n)%Z -> (0 <= since t n)%Z.
Proof.
  intro H. unfold since, clamp64.
  destruct (Z.ltb_spec (n - t) min64); [unfold min64 in *; lia|].
  destruct (Z.ltb_spec max64 (n - t)); [unfold max64; lia | lia].
Qed.

Lemma since_lt_max t n : (n - max64 + 1 <= t)%Z -> (since t n < max64)%Z.
Proof.
  intro H. unfold since, clamp64.
  destruct (Z.ltb_spec (n - t) min64); [unfold min64, max64 in *; lia|].
  destruct (Z.ltb_spec max64 (n - t)); lia.
Qed.

Corollary rotate_always s r : c_idexpiry (conf s) = 0%Z -> (r_created r <= now s)%Z ->
  (c_idexpiry (conf s) <= since (r_created r) (now s))%Z.
Proof. intros -> H. apply since_nonneg. exact H. Qed.

Corollary rotate_never s r : c_idexpiry (conf s) = max64 -> (now s - max64 + 1 <= r_created r)%Z ->
  (since (r_created r) (now s) < c_idexpiry (conf s))%Z.
Proof. intros -> H. apply since_lt_max. exact H. Qed.

