(* Task A6: non-vacuity of the theorems of UserFault4.v (concrete states reached
   by running the model, fault plans under which the calls return Ok although a
   compaction flush failed, or stop half-way), and the refutation of the
   acknowledgement of LogOut(userID) from a state in which a cached object sits
   under a key that is not its own ID (left by a failed RegenerateID). *)
From Sessions Require Import Model.Base Model.Sess Model.Hist Proofs.SessDefs Proofs.CrashFault
  Proofs.CrashFault2 Proofs.CrashFault3 Proofs.CrashFault4 Proofs.CrashFault5 Proofs.CrashFault6
  Proofs.CrashFault9 Proofs.CrashFault11 Proofs.UserFault Proofs.UserFault2 Proofs.UserFault3 Proofs.UserFault4.
From Coq Require Import Lia.

(* ------------------------------------------- boolean well-formedness checks *)
Fixpoint nodupb (l : list key) : bool :=
  match l with [] => true | k :: t => negb (existsb (key_eqb k) t) && nodupb t end.

Lemma nodupb_sound l : nodupb l = true -> NoDup l.
Proof.
  induction l as [|k t IH]; cbn [nodupb]; intro H; [constructor|].
  apply andb_prop in H. destruct H as [H1 H2]. constructor; [|apply IH; exact H2].
  intro Hin. apply Bool.negb_true_iff in H1. assert (existsb (key_eqb k) t = true); [|congruence].
  apply existsb_exists. exists k. split; [exact Hin | apply key_eqb_refl].
Qed.

Definition cache_okb (s : st) : bool :=
  forallb (fun e => match hget s (snd e) with Some ob => key_eqb (o_id ob) (fst e) | None => false end) (cache s).

Lemma cache_okb_sound s : cache_okb s = true -> cache_ok s.
Proof.
  intros H k o Hl. apply lookup_In in Hl. unfold cache_okb in H. rewrite forallb_forall in H.
  specialize (H _ Hl). cbn [fst snd] in H. destruct (hget s o) as [ob|]; [|discriminate].
  exists ob. split; [reflexivity|]. apply key_eqb_eq. exact H.
Qed.

Definition drawnb (s : st) (k : key) : bool := match k with KGen n => (n <? supply s)%N | KJunk _ => true end.
Lemma drawnb_sound s k : drawnb s k = true -> key_drawn s k.
Proof. destruct k; cbn; [intro H; apply N.ltb_lt; exact H | auto]. Qed.
Definition refdrawnb (s : st) (r : rec) : bool := match r_ref r with Some t => drawnb s t | None => true end.
Lemma refdrawnb_sound s r : refdrawnb s r = true -> match r_ref r with Some t => key_drawn s t | None => True end.
Proof. unfold refdrawnb. destruct (r_ref r); [apply drawnb_sound | auto]. Qed.

Definition fresh_okb (s : st) : bool :=
  forallb (fun e : key * nat => drawnb s (fst e)) (cache s) &&
  forallb (fun e : key * rec => drawnb s (fst e) && refdrawnb s (snd e)) (store s) &&
  forallb (fun ob => drawnb s (o_id ob) && refdrawnb s (o_rec ob)) (heap s) &&
  forallb (fun e : Z * key => drawnb s (snd e)) (pending s).

Lemma fresh_okb_sound s : fresh_okb s = true -> fresh_ok s.
Proof.
  unfold fresh_okb. intro H. apply andb_prop in H. destruct H as [H H4]. apply andb_prop in H. destruct H as [H H3].
  apply andb_prop in H. destruct H as [H1 H2]. rewrite forallb_forall in H1, H2, H3, H4.
  split; [|split; [|split]].
  - intros k v Hi. apply drawnb_sound. apply (H1 _ Hi).
  - intros k r Hi. specialize (H2 _ Hi). cbn [fst snd] in H2. apply andb_prop in H2. destruct H2.
    split; [apply drawnb_sound | apply refdrawnb_sound]; assumption.
  - intros o ob Ho. apply nth_error_In in Ho. specialize (H3 _ Ho). apply andb_prop in H3. destruct H3.
    split; [apply drawnb_sound | apply refdrawnb_sound]; assumption.
  - intros d k Hi. apply drawnb_sound. apply (H4 _ Hi).
Qed.

Definition okb (s : st) : bool :=
  cache_okb s && nodupb (map fst (cache s)) && nodupb (map fst (store s)) && fresh_okb s.

Lemma okb_sound s : okb s = true -> cache_ok s /\ nodup_ok s /\ fresh_ok s.
Proof.
  unfold okb. intro H. apply andb_prop in H. destruct H as [H H4]. apply andb_prop in H. destruct H as [H H3].
  apply andb_prop in H. destruct H as [H1 H2].
  split; [apply cache_okb_sound; exact H1|]. split; [split; apply nodupb_sound; assumption | apply fresh_okb_sound; exact H4].
Qed.

Lemma okb_wfc s : okb s = true -> wfc s.
Proof. intro H. destruct (okb_sound _ H) as (A & B & _). apply wfc_of_ok; assumption. Qed.

(* well-formedness does not mention the fault plan *)
Lemma okb_plan s pl : okb (set_plan s pl) = okb s.
Proof. reflexivity. Qed.

(* ----------------------------------------------------- the example states *)
Definition cfgE (mx : Z) : cfg := mkCfg 3600000000000 600000000000 60000000000 max64 mx 1 true false.
Definition rqE (c : N) (sc : list sop) (pl : list bool) : hop :=
  HReq (mkReqStep c PJar true (V4 1 2 3 4 5) 7 sc [] pl None).
Fixpoint run_w (w : world) (h : list hop) : world :=
  match h with [] => w | x :: t => run_w (fst (step w x)) t end.
Definition st_of (c : cfg) (h : list hop) : st := set_evs (w_st (run_w (mkWorld (init_st c) []) h)) [].

(* clients 1, 2, 3 log in as user 5, client 4 as user 6, client 3 destroys its
   session (its ID stays in the index of user 5); cache size 1 *)
Definition hE : list hop :=
  [ rqE 1 [SLogIn (5,0)%N false] []; rqE 2 [SLogIn (5,0)%N false] []; rqE 3 [SLogIn (5,0)%N false] [];
    rqE 4 [SLogIn (6,0)%N false] []; rqE 3 [SDestroy] []; HWait 1000 ].
Definition sE : st := Eval vm_compute in st_of (cfgE 1) hE.

Lemma sE_reached : st_of (cfgE 1) hE = sE.
Proof. vm_compute. reflexivity. Qed.

Definition failed_saves (s : st) : nat :=
  length (filter (fun e => match e with EvSave _ _ false => true | _ => false end) (evs s)).

(* (a): the 8th persistence call, the flush that makes room for the last
   session, fails; the error is dropped by cache.Set; LogOut(5) returns nil and
   every listed ID (one of them gone) is logged out in store and cache *)
Definition plE : list bool := [false; false; false; false; false; false; false; true].

Example ack_logout_user_nonvacuous :
  wfc (set_plan sE plE) /\ ulisted sE 5 = [KGen 5; KGen 1; KGen 3] /\
  exists s', logout_user (set_plan sE plE) 5 = (s', Ok tt) /\ failed_saves s' = 1 /\
             lookup (store s') (KGen 5) = None /\
             option_map r_user (lookup (store s') (KGen 1)) = Some None /\
             option_map r_user (lookup (store s') (KGen 3)) = Some None /\
             map fst (cache s') = [KGen 3].
Proof.
  split; [apply okb_wfc; vm_compute; reflexivity|]. split; [vm_compute; reflexivity|].
  eexists. split; [vm_compute; reflexivity|]. repeat split; vm_compute; reflexivity.
Qed.

(* (b): the same plan for RefreshUser with a new user object (version 3) *)
Example ack_refresh_user_nonvacuous :
  wfc (set_plan sE plE) /\
  exists s', refresh_user (set_plan sE plE) (5, 3)%N = (s', Ok tt) /\ failed_saves s' = 1 /\
             option_map r_user (lookup (store s') (KGen 1)) = Some (Some (5, 0)%N) /\
             option_map r_user (lookup (store s') (KGen 3)) = Some (Some (5, 0)%N) /\
             map (fun e => option_map (fun ob => r_user (o_rec ob)) (hget s' (snd e))) (cache s')
             = [Some (Some (5, 3)%N)].
Proof.
  split; [apply okb_wfc; vm_compute; reflexivity|].
  eexists. split; [vm_compute; reflexivity|]. repeat split; vm_compute; reflexivity.
Qed.

(* (d), (e): the three error results *)
Example err_logout_user_nonvacuous :
  wfc sE /\
  (exists s', logout_user (set_plan sE [true]) 5 = (s', Err EUserSessions)) /\
  (exists s', logout_user (set_plan sE [false; false; false; false; false; true]) 5 = (s', Err ECacheGet) /\
              option_map r_user (lookup (store s') (KGen 1)) = Some None /\
              option_map r_user (lookup (store s') (KGen 3)) = Some (Some (5, 0)%N)) /\
  (exists s', logout_user (set_plan sE [false; false; false; false; true]) 5 = (s', Err ECacheSet) /\
              option_map r_user (lookup (store s') (KGen 1)) = Some (Some (5, 0)%N) /\
              map (fun e => option_map (fun ob => r_user (o_rec ob)) (hget s' (snd e))) (cache s') = [Some None]).
Proof.
  split; [apply okb_wfc; vm_compute; reflexivity|].
  split; [eexists; vm_compute; reflexivity|].
  split; eexists; (split; [vm_compute; reflexivity|]); split; vm_compute; reflexivity.
Qed.

(* (c): clients 1 and 2 are logged in as user 5 (cache size 2); client 3 has a
   session (object 4 of the heap, ID KGen 4) and logs in exclusively as user 5 *)
Definition hL : list hop :=
  [ rqE 1 [SLogIn (5,0)%N false] []; rqE 2 [SLogIn (5,0)%N false] []; rqE 3 [] [] ].
Definition sL : st := Eval vm_compute in st_of (cfgE 2) hL.
Lemma sL_reached : st_of (cfgE 2) hL = sL.
Proof. vm_compute. reflexivity. Qed.
Definition obL : obj := Eval vm_compute in match hget sL 4 with Some ob => ob | None => mkObj (KJunk 0) (mkRec 0 0 (AOther 0) 0 None None None) end.

(* the first flush of the call fails (dropped); LogIn returns nil *)
Example ack_login_excl_nonvacuous :
  cache_ok (set_plan sL [false; false; false; true]) /\ nodup_ok (set_plan sL [false; false; false; true]) /\
  fresh_ok (set_plan sL [false; false; false; true]) /\
  hget sL 4 = Some obL /\ o_id obL = KGen 4 /\ ulisted sL 5 = [KGen 1; KGen 3] /\
  exists s', login (set_plan sL [false; false; false; true]) 4 (5, 1)%N true = (s', Ok tt, [CkLive (KGen 5)]) /\
             failed_saves s' = 1 /\
             option_map r_user (lookup (store s') (KGen 1)) = Some None /\
             option_map r_user (lookup (store s') (KGen 3)) = Some None /\
             option_map r_user (lookup (store s') (KGen 5)) = Some (Some (5, 0)%N) /\
             option_map r_ref (lookup (store s') (KGen 4)) = Some (Some (KGen 5)).
Proof.
  assert (H : okb (set_plan sL [false; false; false; true]) = true) by (vm_compute; reflexivity).
  destruct (okb_sound _ H) as (A & B & C). split; [exact A|]. split; [exact B|]. split; [exact C|].
  split; [reflexivity|]. split; [reflexivity|]. split; [vm_compute; reflexivity|].
  eexists. split; [vm_compute; reflexivity|]. repeat split; vm_compute; reflexivity.
Qed.

(* (d) for LogIn: the index call fails; the write-through save of the session
   fails (11th call); the first save of RegenerateID fails (13th call). In the
   last two cases the other sessions of the user are logged out already. *)
Example err_login_excl_nonvacuous :
  wfc sL /\ hget sL 4 = Some obL /\
  (exists s', login (set_plan sL [true]) 4 (5, 1)%N true = (s', Err ELoginLogout, []) /\ store s' = store sL) /\
  (exists s', login (set_plan sL (repeat false 10 ++ [true])) 4 (5, 1)%N true = (s', Err ELoginSave, []) /\
              option_map r_user (lookup (store s') (KGen 1)) = Some None /\
              option_map r_user (lookup (store s') (KGen 3)) = Some None /\
              option_map r_user (lookup (store s') (KGen 4)) = Some None /\
              option_map (fun ob => r_user (o_rec ob)) (hget s' 4) = Some (Some (5, 1)%N)) /\
  (exists s', login (set_plan sL (repeat false 12 ++ [true])) 4 (5, 1)%N true = (s', Err ELoginRegen, []) /\
              option_map r_user (lookup (store s') (KGen 1)) = Some None /\
              option_map r_user (lookup (store s') (KGen 3)) = Some None /\
              option_map r_user (lookup (store s') (KGen 4)) = Some (Some (5, 0)%N) /\
              lookup (store s') (KGen 5) = None).
Proof.
  split; [apply okb_wfc; vm_compute; reflexivity|]. split; [reflexivity|].
  split; [eexists; split; vm_compute; reflexivity|].
  split; eexists; (split; [vm_compute; reflexivity|]); repeat split; vm_compute; reflexivity.
Qed.

(* ------------------------------------------------------------------------
   The hypothesis cok (every cached object's own ID is the key it is cached
   under) cannot be dropped, and faulty histories do not keep it.

   History: client 1 gets a session (ID KGen 0) and calls LogIn(user 5,
   non-exclusive); LogIn's write-through save succeeds (the store now holds
   KGen 0 with user 5) and the first save of its RegenerateID fails: LogIn
   returns an error, the object has the new ID KGen 1 and is cached under both
   KGen 0 and KGen 1, the client keeps the cookie KGen 0. Then LogOut(5) with no
   fault at all: UserSessions lists KGen 0, sessions.Get(KGen 0) returns the
   cached object, whose ID is KGen 1, and sessions.Set saves it under KGen 1.
   LogOut(5) returns nil; the stored record under KGen 0 still carries user 5.
   After a cache loss the client's cookie yields a session logged in as 5. *)
Definition cfgB : cfg := cfgE 10.
Definition hB1 : hop := rqE 1 [SLogIn (5,0)%N false] [false; false; true].
Definition sB : st := Eval vm_compute in st_of cfgB [hB1].
Lemma sB_reached : st_of cfgB [hB1] = sB.
Proof. vm_compute. reflexivity. Qed.

Definition ack_logout_user_nocok_statement : Prop :=
  forall s u s', cv s -> NoDup (map fst (cache s)) -> plan s = [] ->
    logout_user s u = (s', Ok tt) -> forall k, In k (ulisted s u) -> uc no_user no_user s' k.

Lemma sB_facts :
  cv sB /\ NoDup (map fst (cache sB)) /\ plan sB = [] /\ ~ cok sB /\ ulisted sB 5 = [KGen 0] /\
  exists s' r, logout_user sB 5 = (s', Ok tt) /\ lookup (store s') (KGen 0) = Some r /\ r_user r = Some (5, 0)%N /\
               evs s' = [EvSave (KGen 1) (codec cfgB (mkRec 0 0 (V4 1 2 3 4 5) 7 None None (Some []))) true; EvUserSessions 5 true].
Proof.
  split.
  { intros k o H. cbn in H. destruct H as [H|[H|[]]]; injection H as <- <-; cbn; lia. }
  split; [apply nodupb_sound; vm_compute; reflexivity|]. split; [reflexivity|]. split.
  { intro H. specialize (H (KGen 0) 0 (mkObj (KGen 1) (mkRec 0 0 (V4 1 2 3 4 5) 7 None (Some (5, 0)%N) (Some [])))).
    assert (E : KGen 1 = KGen 0) by (apply H; [left; reflexivity | reflexivity]). discriminate. }
  split; [vm_compute; reflexivity|].
  eexists. eexists. split; [vm_compute; reflexivity|]. split; [vm_compute; reflexivity|]. split; reflexivity.
Qed.

Theorem ack_logout_user_nocok_refuted : ~ ack_logout_user_nocok_statement.
Proof.
  intro H. destruct sB_facts as (A & B & C & _ & D & s' & r & E & F & G & _).
  assert (Hin : In (KGen 0) (ulisted sB 5)) by (rewrite D; left; reflexivity).
  destruct (H sB 5%N s' A B C E (KGen 0) Hin) as [HS _]. specialize (HS r F). unfold no_user in HS. congruence.
Qed.

(* what the client sees *)
Definition hB : list hop := [hB1; HLogoutUser 5 [] []; HDropCache; rqE 1 [] []].

Theorem logout_user_stale_history :
  map ob_res (run cfgB hB) = [RSess; RVoid; RVoid; RSess] /\
  map ob_script (run cfgB hB) = [[SErr ELoginRegen]; []; []; []] /\
  map ob_jar (run cfgB hB) = [CKey (KGen 0); CNone; CNone; CKey (KGen 0)] /\
  map (fun o => option_map (fun kr => (fst kr, r_user (snd kr))) (ob_start o)) (run cfgB hB)
  = [Some (KGen 0, None); None; None; Some (KGen 0, Some (5, 0)%N)] /\
  map (fun o => length (filter (fun e => match e with EvSave _ _ false | EvLoad _ false | EvLoadUser _ false
                                                     | EvDelete _ false | EvUserSessions _ false => true | _ => false end) (ob_evs o)))
      (run cfgB hB) = [1; 0; 0; 0].
Proof. repeat split; vm_compute; reflexivity. Qed.

(* the same pre-state defeats the exclusive LogIn: client 2 logs in exclusively
   as user 5 and gets nil; after a cache loss client 1's cookie still yields a
   session of user 5 *)
Definition hX : list hop := [hB1; rqE 2 [SLogIn (5,1)%N true] []; HDropCache; rqE 1 [] []].

Theorem login_exclusive_stale_history :
  map ob_res (run cfgB hX) = [RSess; RSess; RVoid; RSess] /\
  map ob_script (run cfgB hX) = [[SErr ELoginRegen]; [SOk]; []; []] /\
  map ob_jar (run cfgB hX) = [CKey (KGen 0); CKey (KGen 3); CNone; CKey (KGen 0)] /\
  map (fun o => option_map (fun kr => (fst kr, r_user (snd kr))) (ob_start o)) (run cfgB hX)
  = [Some (KGen 0, None); Some (KGen 2, None); None; Some (KGen 0, Some (5, 0)%N)] /\
  map (fun o => map (fun kr => (fst kr, r_user (snd kr))) (ob_store o)) (run cfgB hX)
  = [[(KGen 0, Some (5, 0)%N)];
     [(KGen 0, Some (5, 0)%N); (KGen 1, None); (KGen 2, None); (KGen 3, Some (5, 0)%N)];
     [(KGen 0, Some (5, 0)%N); (KGen 1, None); (KGen 2, None); (KGen 3, Some (5, 0)%N)];
     [(KGen 0, Some (5, 0)%N); (KGen 1, None); (KGen 2, None); (KGen 3, Some (5, 0)%N)]].
Proof. repeat split; vm_compute; reflexivity. Qed.
