(* C01, liveness half, part 4: the bridges between the jar invariant of the
   safety half (C01Hist*.v) and C03H's "owns" (LiveHist*.v):
   - after any request of a cookie-following client that is given a session, with
     the cache enabled and no Destroy in the script, the client holds (owns) the
     ID in its jar with access time now;
   - a request of another cookie-following client respects that ID;
   - a holder whose request comes soon enough, with a peer and agent the recorded
     ones accept, is served (Start returns the presented ID's own session). *)
From Sessions Require Import Model.Base Model.Sess Model.Hist Model.Corr Proofs.SessDefs
  Proofs.WriteThrough Proofs.WriteThrough3 Proofs.WriteThrough4 Proofs.WriteThrough5
  Proofs.RotateLaws3
  Proofs.C01Spec Proofs.C01Hist Proofs.C01Hist4 Proofs.C01Hist5 Proofs.C01Hist6 Proofs.C01Hist7 Proofs.C01Hist9
  Proofs.C01Live Proofs.C01Live2 Proofs.C01Live3.
From Sessions Require Proofs.HistInv Proofs.HistInv3 Proofs.IsoLaws Proofs.StartLaws4
  Proofs.LiveHist Proofs.LiveHist4 Proofs.LiveHist5 Proofs.LiveHist6.
From Coq Require Import Lia.

Notation owns := LiveHist6.owns.
Notation W := LiveHist4.W.

Lemma wf_req_parts r : wf_req r = true ->
  rq_plan r = [] /\ rq_crash r = None.
Proof.
  unfold wf_req. intro H. apply andb_prop in H. destruct H as [Hpl Hcr].
  split; [destruct (rq_plan r); [reflexivity | discriminate]|].
  destruct (rq_crash r); [discriminate | reflexivity].
Qed.

Lemma req_q_pjar w r : rq_present r = PJar ->
  LiveHist4.req_q w r = mkReq (jar_of (w_jars w) (rq_client r)) (rq_create r) (rq_addr r) (rq_ua r).
Proof. intro H. unfold LiveHist4.req_q, LiveHist4.pres. rewrite H. reflexivity. Qed.

(* what Start is run on in a request step of a cookie-following client *)
Lemma jar_hyp w g r :
  JI w g ->
  let q := mkReq (jar_of (w_jars w) (rq_client r)) (rq_create r) (rq_addr r) (rq_ua r) in
  forall k, q_cookie q = CKey k ->
    (forall dd, ~ In (dd, k) (pending (prep w r))) /\
    (view (prep w r) k = None \/ exists d, view (prep w r) k = Some (None, d)).
Proof.
  intros HJ q k Hq. cbn in Hq. pose proof (ji_jar _ _ HJ (rq_client r)) as Hjc. rewrite Hq in Hjc.
  destruct (g_get g (rq_client r)) as [d|]; cbn in Hjc; [|discriminate Hjc].
  destruct Hjc as (k' & E & _ & Hpe & Hvk). injection E as <-. split; [exact Hpe|].
  assert (Hv : view (prep w r) k = view (w_st w) k) by (apply view_ext; reflexivity). rewrite Hv.
  destruct Hvk as [H|H]; [left; exact H | right; eauto].
Qed.

Lemma prep_Inv w g r : JI w g -> Inv noex (prep w r) /\ GR (prep w r).
Proof.
  intro HJ. pose proof (ji_inv _ _ HJ) as HI.
  assert (Hc : WriteThrough.core (w_st w) = WriteThrough.core (prep w r)) by (apply core_prep; apply (inv_plan _ _ HI)).
  split; [apply (Inv_core noex _ _ Hc HI) | apply (GR_core _ _ Hc); auto; apply (ji_gr _ _ HJ)].
Qed.

(* the step reports a session exactly when Start returned one *)
Lemma ob_start_start w r x :
  rq_plan r = [] -> rq_crash r = None -> rq_present r = PJar ->
  ob_start (snd (step w (HReq r))) = Some x ->
  exists s2 o ck, start (prep w r) (mkReq (jar_of (w_jars w) (rq_client r)) (rq_create r) (rq_addr r) (rq_ua r))
                  = (s2, Ok (Some o), ck).
Proof.
  intros Hpl Hcr Hpj. rewrite (step_req_shape w r Hpl Hcr Hpj). cbv zeta.
  unfold req_body, HistInv3.req_body. fold (prep w r).
  destruct (start (prep w r) _) as [[s2 res] ck]. destruct res as [[o|]|e|e].
  - intros _. eauto.
  - cbn. discriminate.
  - cbn. discriminate.
  - cbn. discriminate.
Qed.

(* After any request of a cookie-following client that is given a session —
   its own, under the same or a rotated ID, or a new one —, cache enabled, no
   Destroy in the script: the client holds the ID now in its jar. *)
Theorem own_any j w g r x :
  JI w g -> W j w -> wf_req r = true -> rq_present r = PJar ->
  existsb LiveHist5.is_destroy (rq_script r) = false -> c_maxcache (conf (w_st w)) <> 0%Z ->
  ob_start (snd (step w (HReq r))) = Some x ->
  exists k', ob_jar (snd (step w (HReq r))) = CKey k' /\
             owns j (rq_client r) k' (fl j (now (w_st w))) (fst (step w (HReq r))).
Proof.
  intros HJ HW Hwf Hpj Hnd Hm Hst. destruct (wf_req_parts r Hwf) as (Hpl & Hcr).
  destruct (ob_start_start w r x Hpl Hcr Hpj Hst) as (s2 & o & ck & Est).
  set (q := mkReq (jar_of (w_jars w) (rq_client r)) (rq_create r) (rq_addr r) (rq_ua r)) in *.
  destruct (prep_Inv w g r HJ) as (HI1 & HG1).
  pose proof (jar_hyp w g r HJ) as Hjar. cbv zeta in Hjar. fold q in Hjar.
  assert (Hj : c_json (conf (prep w r)) = j) by (destruct HW as (_ & H & _); exact H).
  pose proof (start_eff (prep w r) q HI1 HG1 Hjar) as HS. rewrite Est in HS.
  destruct HS as (HI2 & _ & _ & _ & _ & _ & Hres). cbn [fst snd start_res] in *.
  destruct Hres as (id & d & HD & Hck & _).
  pose proof (start_acc (prep w r) q j HI1 HG1 Hj Hm Hjar) as HA. rewrite Est in HA.
  destruct (HA o eq_refl) as (ob2 & r2 & Hg2 & HL2 & Hlb). cbn [fst snd] in *.
  destruct HD as (ob2' & Hg2' & Hid & Hco & HH & Hpe). assert (ob2' = ob2) by congruence. subst ob2'.
  assert (Hrf : r_ref (o_rec ob2) = None) by (apply (f_equal fst) in Hco; exact Hco).
  destruct (StartLaws4.start_moves _ _ _ _ _ Est) as ((obm & Hgm & _ & _ & Hacc) & Hnow).
  assert (obm = ob2) by congruence. subst obm.
  assert (Hr2 : r_ref r2 = None).
  { pose proof (Held_view s2 o ob2 HH Hg2) as Hv. unfold view in Hv. rewrite HL2 in Hv. cbn in Hv.
    injection Hv as Hv _. congruence. }
  assert (HG2 : LiveHist.G (LiveHist4.Pk true j (o_id ob2) (fl j (now (w_st w)))) (LiveHist4.Kk true (o_id ob2)) s2).
  { apply LiveHist5.G_adopt.
    - intros k' o' Hl. destruct (inv_heap _ _ HI2 k' o' Hl) as (ob' & Hg'). congruence.
    - exists r2. split; [exact HL2|]. split; [exact Hr2 | exact Hlb].
    - intros dd k' Hin ->. rewrite Hid in Hin. apply (Hpe dd Hin). }
  destruct (LiveHist6.own_finish j (rq_client r) w r s2 o ck ob2 HW eq_refl Hpj Hpl Hcr Hnd) as (_ & k' & Hjar' & Hown & _).
  - rewrite (req_q_pjar w r Hpj). exact Est.
  - exact Hg2.
  - exact Hrf.
  - rewrite Hacc, Hnow. reflexivity.
  - cbn [q_cookie q] in Hck. rewrite Hck, Hid. reflexivity.
  - exact HG2.
  - exists k'. auto.
Qed.

(* a request of another cookie-following client respects the ID *)
Lemma respects_other w g r k :
  JI w g -> rq_plan r = [] -> rq_present r = PJar ->
  jar_of (w_jars w) (rq_client r) <> CKey k -> key_drawn (w_st w) k ->
  LiveHist4.respects (LiveHist4.Kk true k) w (HReq r).
Proof.
  intros HJ Hpl Hpj Hne Hdr. split.
  - intros k' Hp [_ ->]. unfold LiveHist4.pres in Hp. rewrite Hpj in Hp. contradiction.
  - intros _ k' rc Hst [_ ->].
    destruct (IsoLaws.step_isolated_winv 0 w r (ji_pf _ _ HJ) Hpl k rc Hst) as (_ & [(_ & E & _)|(k0 & Hk0 & Hres)]).
    + rewrite E in Hdr. cbn in Hdr. lia.
    + unfold IsoLaws.presented in Hk0. rewrite Hpj in Hk0.
      destruct Hres as (r0 & HL0 & [(_ & _ & _ & [E|E])|(t & Hrf & _)]); cbn [o_id] in *.
      * subst k0. contradiction.
      * rewrite E in Hdr. cbn in Hdr. lia.
      * pose proof (ji_jar _ _ HJ (rq_client r)) as Hjc. rewrite Hk0 in Hjc.
        destruct (g_get g (rq_client r)) as [d|]; cbn in Hjc; [|discriminate Hjc].
        destruct Hjc as (k1 & E & _ & _ & Hvk). injection E as <-. unfold view in Hvk. rewrite HL0 in Hvk.
        cbn in Hvk. destruct Hvk as [Hvk|Hvk]; [discriminate Hvk|]. injection Hvk as Hvk _. congruence.
Qed.

(* a holder whose request comes soon enough from an acceptable peer is served *)
Lemma served_owner j w g r k t0 :
  JI w g -> owns j (rq_client r) k (fl j t0) w -> wf_req r = true -> rq_present r = PJar ->
  (0 <= c_grace (conf (w_st w)))%Z -> (c_idexpiry (conf (w_st w)) <= max64)%Z ->
  (now (w_st w) - t0 + StartLaws4.slack (conf (w_st w)) < c_expiry (conf (w_st w)))%Z ->
  (forall r0, L (w_st w) k = Some r0 ->
     ip_ok (c_acceptip (conf (w_st w))) (r_ip r0) (rq_addr r) = true /\
     ua_ok (c_acceptua (conf (w_st w))) (r_ua r0) (rq_ua r) = true) ->
  served w r = true.
Proof.
  intros HJ HO Hwf Hpj Hgr Hid Hgap Hpeer.
  destruct (LiveHist6.owns_L j _ k _ w HO) as (r0 & HL & Hrf & Hlb & _).
  destruct HO as ((_ & Hj & _) & Hjar & _ & Hle).
  destruct (Hpeer r0 HL) as [Hip Hua].
  refine (proj1 (live_step w g r k r0 HJ Hwf Hpj Hjar HL Hrf _ _)); [|split; assumption].
  unfold valid_for. cbn [q_addr q_ua]. rewrite Hip, Hua.
  rewrite (LiveHist5.not_stale (conf (w_st w)) r0 (now (w_st w)) (fl j t0) j Hlb Hle); [reflexivity|].
  pose proof (LiveHist4.fl_slack j t0) as Hs. unfold StartLaws4.slack in Hgap. rewrite Hj in Hgap. lia.
Qed.
