(* Task PD: non-vacuity. Boolean checkers for the invariants the theorems
   assume, and concrete states (built by running the model) on which the
   hypotheses hold and the conclusions can be read off. *)
From Sessions Require Import Model.Base Model.Sess Model.Hist Proofs.SessDefs
  Proofs.RotateLaws Proofs.RotateLaws2 Proofs.RotateLaws3 Proofs.RotateLaws4 Proofs.RotateLaws5
  Proofs.RotateLaws6 Proofs.RotateLaws7.
From Coq Require Import Lia.

(* ------------------------------------------------------------- checkers *)

Definition cache_okb (s : st) : bool :=
  forallb (fun e => match hget s (snd e) with Some ob => key_eqb (o_id ob) (fst e) | None => false end)
          (cache s).

Lemma cache_ok_b s : cache_okb s = true -> cache_ok s.
Proof.
  intros H k o Hk. apply lookup_In in Hk. unfold cache_okb in H. rewrite forallb_forall in H.
  specialize (H (k, o) Hk). cbn [fst snd] in H. destruct (hget s o) as [ob|]; [|discriminate].
  exists ob. split; [reflexivity | apply key_eqb_eq; exact H].
Qed.

Fixpoint nodupb (l : list key) : bool :=
  match l with [] => true | k :: t => negb (existsb (key_eqb k) t) && nodupb t end.

Lemma nodup_b l : nodupb l = true -> NoDup l.
Proof.
  induction l as [|k t IH]; cbn; intro H; [constructor|].
  apply andb_true_iff in H as [H1 H2]. constructor; [|apply IH; exact H2].
  intro Hin. apply negb_true_iff in H1. assert (existsb (key_eqb k) t = true); [|congruence].
  apply existsb_exists. exists k. split; [exact Hin | apply key_eqb_refl].
Qed.

Definition key_drawnb (s : st) (k : key) : bool :=
  match k with KGen n => (n <? supply s)%N | KJunk _ => true end.

Lemma key_drawn_b s k : key_drawnb s k = true -> key_drawn s k.
Proof. destruct k; cbn; [intro H; apply N.ltb_lt; exact H | auto]. Qed.

Definition ref_drawnb (s : st) (r : rec) : bool :=
  match r_ref r with Some t => key_drawnb s t | None => true end.

Lemma ref_drawn_b s r : ref_drawnb s r = true -> match r_ref r with Some t => key_drawn s t | None => True end.
Proof. unfold ref_drawnb. destruct (r_ref r); [apply key_drawn_b | auto]. Qed.

Definition fresh_okb (s : st) : bool :=
  forallb (fun e => key_drawnb s (fst e)) (cache s) &&
  forallb (fun e => key_drawnb s (fst e) && ref_drawnb s (snd e)) (store s) &&
  forallb (fun ob => key_drawnb s (o_id ob) && ref_drawnb s (o_rec ob)) (heap s) &&
  forallb (fun e => key_drawnb s (snd e)) (pending s).

Lemma fresh_ok_b s : fresh_okb s = true -> fresh_ok s.
Proof.
  unfold fresh_okb. rewrite !andb_true_iff, !forallb_forall. intros [[[H1 H2] H3] H4].
  split; [|split; [|split]].
  - intros k v Hin. apply key_drawn_b. apply (H1 (k, v) Hin).
  - intros k r Hin. specialize (H2 (k, r) Hin). apply andb_true_iff in H2 as [A B].
    split; [apply key_drawn_b; exact A | apply ref_drawn_b; exact B].
  - intros o ob Hg. apply nth_error_In in Hg. specialize (H3 ob Hg). apply andb_true_iff in H3 as [A B].
    split; [apply key_drawn_b; exact A | apply ref_drawn_b; exact B].
  - intros d k Hin. apply key_drawn_b. apply (H4 (d, k) Hin).
Qed.

Definition ref_wfb (s : st) : bool :=
  forallb (fun k => match L s k with
                    | Some r => match r_ref r with
                                | Some t => match t with
                                            | KGen m => (m <? supply s)%N &&
                                                        match k with KGen n => (n <? m)%N | KJunk _ => true end
                                            | KJunk _ => false
                                            end
                                | None => true
                                end
                    | None => true
                    end) (map fst (cache s) ++ map fst (store s)).

Lemma ref_wf_b s : ref_wfb s = true -> ref_wf s.
Proof.
  unfold ref_wfb. rewrite forallb_forall. intros H k r t Hl Hr.
  assert (Hin : In k (map fst (cache s) ++ map fst (store s))).
  { apply in_or_app. unfold L in Hl. destruct (lookup (cache s) k) as [o|] eqn:E.
    - left. apply lookup_In in E. apply (in_map fst) in E. exact E.
    - right. apply lookup_In in Hl. apply (in_map fst) in Hl. exact Hl. }
  specialize (H k Hin). rewrite Hl, Hr in H. destruct t as [m|m]; [|discriminate].
  apply andb_true_iff in H as [A B]. apply N.ltb_lt in A.
  exists m. split; [reflexivity|]. split; [exact A|]. intros n ->. apply N.ltb_lt. exact B.
Qed.

Definition okb (s : st) : bool :=
  match plan s with [] => true | _ => false end && cache_okb s &&
  nodupb (map fst (cache s)) && nodupb (map fst (store s)) && fresh_okb s.

Lemma ok_b s : okb s = true -> plan s = [] /\ cache_ok s /\ nodup_ok s /\ fresh_ok s.
Proof.
  unfold okb. rewrite !andb_true_iff. intros [[[[H1 H2] H3] H4] H5].
  split; [destruct (plan s); [reflexivity | discriminate]|].
  split; [apply cache_ok_b; exact H2|].
  split; [split; apply nodup_b; assumption | apply fresh_ok_b; exact H5].
Qed.

(* -------------------------------------------------------- example states *)

(* durations in ns: a session lives 10^15, IDs are replaced after idx, the
   grace period is 5 * 10^9, cache size mx *)
Definition cfgE (idx : Z) (mx : Z) (json : bool) : cfg := mkCfg 1000000000000000 idx 5000000000 max64 mx 1 true json.
Definition reqE (c : cval) : request := mkReq c true (V4 1 2 3 4 5) 7.
Definition st_of (x : st * result (option nat) * list cookie) : st := fst (fst x).
Definition st_of' (x : st * result unit * list cookie) : st := fst (fst x).
Definition tick (s : st) (d : Z) : st := set_now s (now s + d).

(* one session KGen 0 created at 0; 20 s later *)
Definition sE (idx mx : Z) (json : bool) : st := tick (st_of (start (init_st (cfgE idx mx json)) (reqE CNone))) 20000000000.

Ltac by_compute := vm_compute; repeat split; try reflexivity; try (let H := fresh in intro H; discriminate H).

Definition recE (t : Z) : rec := mkRec t t (V4 1 2 3 4 5) 7 None None (Some []).

(* C04, rotation due: SessionIDExpiry 10 s, the ID is 20 s old *)
Example start_rotate_ex :
  let s := sE 10000000000 10 false in
  let q := reqE (CKey (KGen 0)) in
  (plan s = [] /\ cache_ok s /\ nodup_ok s /\ fresh_ok s) /\
  L s (KGen 0) = Some (recE 0) /\ valid_for (conf s) (recE 0) (now s) q = true /\
  (c_idexpiry (conf s) <= since (r_created (recE 0)) (now s))%Z /\
  snd (start s q) = [CkLive (KGen 1)] /\
  L (st_of (start s q)) (KGen 1) = Some (recE 20000000000) /\
  option_map r_ref (L (st_of (start s q)) (KGen 0)) = Some (Some (KGen 1)).
Proof. split; [apply ok_b; vm_compute; reflexivity|]. by_compute. Qed.

(* the same with a cache of size 1 behind JSON: the session leaves the cache *)
Example start_rotate_ex_size1 :
  let s := sE 10000000000 1 true in
  let q := reqE (CKey (KGen 0)) in
  (plan s = [] /\ cache_ok s /\ nodup_ok s /\ fresh_ok s) /\
  snd (start s q) = [CkLive (KGen 1)] /\
  cached (st_of (start s q)) (KGen 1) = false /\ cached (st_of (start s q)) (KGen 0) = true /\
  option_map r_created (L (st_of (start s q)) (KGen 1)) = Some 20000000000%Z /\
  draws (evs (st_of (start s q))) = [1; 0]%N.
Proof. split; [apply ok_b; vm_compute; reflexivity|]. by_compute. Qed.

(* C04, no rotation due: SessionIDExpiry 30 s *)
Example start_keep_ex :
  let s := sE 30000000000 10 false in
  let q := reqE (CKey (KGen 0)) in
  (plan s = [] /\ cache_ok s /\ nodup_ok s /\ fresh_ok s) /\ cfg_ok (conf s) /\
  L s (KGen 0) = Some (recE 0) /\ valid_for (conf s) (recE 0) (now s) q = true /\
  (since (r_created (recE 0)) (now s) < c_idexpiry (conf s))%Z /\
  snd (start s q) = [] /\ draws (evs (st_of (start s q))) = [0%N] /\
  option_map r_access (L (st_of (start s q)) (KGen 0)) = Some 20000000000%Z.
Proof. split; [apply ok_b; vm_compute; reflexivity|]. by_compute. Qed.

(* SessionIDExpiry = 0 rotates at once, = max64 never *)
Example rotate_always_never_ex :
  snd (start (sE 0 10 false) (reqE (CKey (KGen 0)))) = [CkLive (KGen 1)] /\
  snd (start (tick (sE max64 10 false) 900000000000000) (reqE (CKey (KGen 0)))) = [].
Proof. by_compute. Qed.

(* C04 for RegenerateID and LogIn *)
Example regenerate_ex :
  let s := sE 30000000000 10 true in
  (plan s = [] /\ cache_ok s /\ nodup_ok s /\ fresh_ok s) /\
  hget s 0 = Some (mkObj (KGen 0) (recE 0)) /\
  snd (regenerate s 0) = [CkLive (KGen 1)] /\
  pending (st_of' (regenerate s 0)) = [(25000000000%Z, KGen 0)].
Proof. split; [apply ok_b; vm_compute; reflexivity|]. by_compute. Qed.

Example login_ex :
  let s := sE 30000000000 10 true in
  let s' := st_of' (login s 0 (5, 1)%N true) in
  snd (login s 0 (5, 1)%N true) = [CkLive (KGen 1)] /\
  option_map r_user (L s' (KGen 1)) = Some (Some (5, 1)%N) /\
  option_map r_user (lookup (store s') (KGen 1)) = Some (Some (5, 0)%N) /\
  option_map r_ref (L s' (KGen 0)) = Some (Some (KGen 1)).
Proof. by_compute. Qed.

(* C05: two ID changes one second apart, then the oldest ID is presented
   inside the grace period; cache of size 1 behind JSON, so every hop is
   loaded from the store *)
Definition sC (mx : Z) (json : bool) : st :=
  let s0 := sE 1000000000000000 mx json in
  let s1 := tick (st_of' (regenerate s0 0)) 1000000000 in
  tick (st_of' (regenerate s1 0)) 1000000000.

Example start_chain_ex :
  let s := sC 1 true in
  let q := reqE (CKey (KGen 0)) in
  (plan s = [] /\ cache_ok s /\ nodup_ok s /\ fresh_ok s) /\ ref_wf s /\
  (exists r, L s (KGen 0) = Some r /\ chain_rec s r [KGen 1; KGen 2] /\
             valid_for (conf s) r (now s) q = true /\
             (since (r_created r) (now s) < sat_add (c_idexpiry (conf s)) (c_grace (conf s)))%Z) /\
  snd (start s q) = [CkLive (KGen 2)] /\ snd (fst (start s q)) = Ok (Some 5%nat) /\
  option_map o_id (hget (st_of (start s q)) 5) = Some (KGen 2) /\
  option_map (fun ob => r_ref (o_rec ob)) (hget (st_of (start s q)) 5) = Some None.
Proof.
  split; [apply ok_b; vm_compute; reflexivity|]. split; [apply ref_wf_b; vm_compute; reflexivity|].
  split.
  - eexists. split; [vm_compute; reflexivity|]. split.
    + cbn [chain_rec]. split; [reflexivity|]. eexists. split; [vm_compute; reflexivity|].
      split; [reflexivity|]. eexists. split; [vm_compute; reflexivity | reflexivity].
    + by_compute.
  - by_compute.
Qed.

(* C05_grace_dead: when the grace period is over the clean-up removes the ID *)
Example fire_due_ex :
  let s := tick (st_of' (regenerate (sE 30000000000 10 true) 0)) 5000000000 in
  pending s = [(25000000000%Z, KGen 0)] /\ now s = 25000000000%Z /\
  L s (KGen 0) <> None /\ L (fire_due s) (KGen 0) = None /\ pending (fire_due s) = [] /\
  L (fire_due (tick s (-1))) (KGen 0) <> None.
Proof. by_compute. Qed.

(* C05_backstop: after a restart lost the clean-up, the replaced ID is refused
   once SessionIDExpiry + grace have passed (here 30 s + 5 s) *)
Example start_backstop_ex :
  let s := tick (restart (st_of' (regenerate (sE 30000000000 10 false) 0))) 35000000000 in
  let q := reqE (CKey (KGen 0)) in
  (plan s = [] /\ cache_ok s /\ nodup_ok s /\ fresh_ok s) /\
  (exists r, L s (KGen 0) = Some r /\ r_ref r = Some (KGen 1) /\ valid_for (conf s) r (now s) q = true /\
             (sat_add (c_idexpiry (conf s)) (c_grace (conf s)) <= since (r_created r) (now s))%Z) /\
  snd (fst (start s q)) = Err EExpiredID /\ L (st_of (start s q)) (KGen 0) = None /\
  snd (fst (start (tick s (-1)) q)) = Ok (Some 3%nat).
Proof.
  split; [apply ok_b; vm_compute; reflexivity|]. split; [eexists; split; [vm_compute; reflexivity | by_compute]|].
  by_compute.
Qed.

(* C05_expired_ref on the record RegenerateID wrote *)
Example expired_ref_ex :
  let s := st_of' (regenerate (sE 30000000000 10 true) 0) in
  exists r, lookup (store s) (KGen 0) = Some r /\ r_ref r = Some (KGen 1) /\ r_created r = r_access r /\
    expired (conf s) r (now s + 4999999999) = false /\ expired (conf s) r (now s + 5000000000) = true.
Proof. eexists. split; [vm_compute; reflexivity|]. by_compute. Qed.

(* D10: with SessionExpiry shorter than the grace period the replaced ID is
   refused (and destroyed) inside the grace period: Start judges the
   placeholder's own age against SessionExpiry *)
Example short_expiry_witness :
  let c := mkCfg 2000000000 30000000000 5000000000 max64 10 1 true false in
  let qn := mkReq (CKey (KGen 1)) false (V4 1 2 3 4 5) 7 in
  let s0 := tick (st_of (start (init_st c) (reqE CNone))) 1000000000 in
  let s1 := tick (st_of' (regenerate s0 0)) 1500000000 in
  let s := tick (st_of (start s1 qn)) 1000000000 in
  let q := mkReq (CKey (KGen 0)) false (V4 1 2 3 4 5) 7 in
  (plan s = [] /\ cache_ok s /\ nodup_ok s /\ fresh_ok s) /\
  pending s = [(6000000000%Z, KGen 0)] /\ now s = 3500000000%Z /\
  option_map r_ref (L s (KGen 0)) = Some (Some (KGen 1)) /\
  option_map r_access (L s (KGen 1)) = Some 2500000000%Z /\
  start s q = (st_of (start s q), Ok None, [CkDelete]) /\
  snd (fst (start s qn)) = Ok (Some 0%nat).
Proof. split; [apply ok_b; vm_compute; reflexivity|]. by_compute. Qed.

(* C18: a request on an idle-expired session destroys it and gets a new one: a
   deletion cookie followed by the live cookie of the new session *)
Example cookies_ex :
  let s := tick (sE 30000000000 10 false) 1000000000000000 in
  let q := reqE (CKey (KGen 0)) in
  (plan s = [] /\ cache_ok s /\ nodup_ok s /\ fresh_ok s) /\ q_cookie q <> CKey (KGen (supply s)) /\
  snd (start s q) = [CkDelete; CkLive (KGen 1)] /\
  L (st_of (start s q)) (KGen 0) = None /\
  option_map r_ref (L (st_of (start s q)) (KGen 1)) = Some None.
Proof. split; [apply ok_b; vm_compute; reflexivity|]. by_compute. Qed.

(* D10 as a statement: inside the grace period, with the live session valid
   and recently used, a replaced ID can be refused and its record destroyed,
   because Start judges the placeholder's own lastAccess against SessionExpiry
   (possible exactly when SessionExpiry < SessionIDGracePeriod). *)
Lemma short_expiry_refuted :
  exists s q k r tgt d rt,
    (plan s = [] /\ cache_ok s /\ nodup_ok s /\ fresh_ok s) /\
    q_cookie q = CKey k /\ L s k = Some r /\ r_ref r = Some tgt /\
    In (d, k) (pending s) /\ (now s < d)%Z /\
    L s tgt = Some rt /\ r_ref rt = None /\
    valid_for (conf s) rt (now s) (mkReq (CKey tgt) false (q_addr q) (q_ua q)) = true /\
    exists s', start s q = (s', Ok None, [CkDelete]) /\ L s' k = None.
Proof.
  set (c := mkCfg 2000000000 30000000000 5000000000 max64 10 1 true false).
  set (qn := mkReq (CKey (KGen 1)) false (V4 1 2 3 4 5) 7).
  set (s0 := tick (st_of (start (init_st c) (reqE CNone))) 1000000000).
  set (s1 := tick (st_of' (regenerate s0 0)) 1500000000).
  set (s := tick (st_of (start s1 qn)) 1000000000).
  exists s, (mkReq (CKey (KGen 0)) false (V4 1 2 3 4 5) 7), (KGen 0).
  eexists _, (KGen 1), 6000000000%Z, _.
  split; [apply ok_b; vm_compute; reflexivity|].
  split; [reflexivity|]. split; [vm_compute; reflexivity|]. split; [reflexivity|].
  split; [vm_compute; left; reflexivity|]. split; [vm_compute; reflexivity|].
  split; [vm_compute; reflexivity|]. split; [reflexivity|]. split; [vm_compute; reflexivity|].
  eexists. split; vm_compute; reflexivity.
Qed.

(* why C04_seq_keep assumes a non-negative grace period: with a negative one
   the backstop age lies below SessionIDExpiry, and a current ID younger than
   SessionIDExpiry is refused as expired and deleted *)
Example negative_grace_witness :
  let c := mkCfg 1000000000000000 30000000000 (-15000000000) max64 10 1 true false in
  let s := tick (st_of (start (init_st c) (reqE CNone))) 20000000000 in
  (plan s = [] /\ cache_ok s /\ nodup_ok s /\ fresh_ok s) /\
  (since 0 (now s) < c_idexpiry (conf s))%Z /\
  snd (fst (start s (reqE (CKey (KGen 0))))) = Err EExpiredID /\
  L (st_of (start s (reqE (CKey (KGen 0))))) (KGen 0) = None.
Proof. split; [apply ok_b; vm_compute; reflexivity|]. by_compute. Qed.

(* C05_grace_live: 3 s after the ID change (grace 5 s) the replaced ID still
   returns the live session and moves the cookie; at 5 s it is gone *)
Example grace_live_ex :
  let s := sE 30000000000 10 false in
  let q := mkReq (CKey (KGen 0)) false (V4 1 2 3 4 5) 7 in
  let d := 3000000000%Z in
  (plan s = [] /\ cache_ok s /\ nodup_ok s /\ fresh_ok s) /\ ref_wf s /\ pending s = [] /\
  (forall r', r' = ref_rec (recE 0) (now s) (KGen 1) \/ r' = codec (conf s) (ref_rec (recE 0) (now s) (KGen 1)) ->
     valid_for (conf s) r' (now s + d) q = true /\
     (since (r_created r') (now s + d) < sat_add (c_idexpiry (conf s)) (c_grace (conf s)))%Z) /\
  (let s2 := fire_due (set_now (st_of' (regenerate s 0)) (now s + d)) in
   snd (start s2 q) = [CkLive (KGen 1)] /\ snd (fst (start s2 q)) = Ok (Some 0%nat)) /\
  (let s2 := fire_due (set_now (st_of' (regenerate s 0)) (now s + 5000000000)) in
   start s2 q = (st_of (start s2 q), Ok None, [CkDelete])).
Proof.
  split; [apply ok_b; vm_compute; reflexivity|]. split; [apply ref_wf_b; vm_compute; reflexivity|].
  split; [reflexivity|]. split.
  - apply grace_live_checks_gob; try reflexivity; by_compute.
  - by_compute.
Qed.
