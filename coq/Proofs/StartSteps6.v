(* B2 (C05): (b) in exact form when every ID of the chain is cached, and (c) the
   request presenting the current ID while clean-ups fire. *)
From Sessions Require Import Model.Base Model.Sess Model.Hist Model.StartSteps Proofs.SessDefs
  Proofs.RotateLaws Proofs.RotateLaws2 Proofs.RotateLaws3 Proofs.RotateLaws4 Proofs.StartSteps
  Proofs.StartSteps2 Proofs.StartSteps3 Proofs.StartSteps4 Proofs.StartSteps5.
From Sessions Require Proofs.StartLaws Proofs.StartLaws3.
From Coq Require Import Lia.

Lemma cached_chain_rec s : cache_ok s -> forall rest o o' ob,
  cached_chain s o rest o' -> hget s o = Some ob -> chain_rec s (o_rec ob) rest.
Proof.
  intro Hc. induction rest as [|k' t IH]; intros o o' ob H Hg; cbn [cached_chain chain_rec] in *.
  - destruct H as (ob0 & Hg0 & Hr & _). congruence.
  - destruct H as (ob0 & o1 & Hg0 & Hr & Hl & Hch). assert (ob0 = ob) by congruence. subst ob0.
    split; [exact Hr|]. destruct (Hc k' o1 Hl) as (ob1 & Hg1 & _). exists (o_rec ob1).
    split; [exact (L_cached s k' o1 ob1 Hl Hg1) | exact (IH o1 o' ob1 Hch Hg1)].
Qed.

(* (b), exact: the presented ID and every ID of its chain are cached (the usual
   case in a running process: RegenerateID has just written them through the
   cache). Wherever the clean-up pass falls inside the request - after any of
   its 1 + length rest cache operations - the request returns what Start
   returns and ends in exactly the state "Start, then the clean-up pass",
   event log included. *)
Theorem start_interrupted_cached s q k o0 ob rest o' i :
  plan s = [] -> cache_ok s -> ref_wf s ->
  q_cookie q = CKey k -> lookup (cache s) k = Some o0 -> hget s o0 = Some ob ->
  cached_chain s o0 rest o' -> rest <> [] ->
  valid_for (conf s) (o_rec ob) (now s) q = true ->
  (since (r_created (o_rec ob)) (now s) < sat_add (c_idexpiry (conf s)) (c_grace (conf s)))%Z ->
  (forall k', In k' rest -> notdue s k') ->
  1 <= i <= S (length rest) ->
  exists s', start s q = (s', Ok (Some o'), [CkLive (last rest k)]) /\
             start_interrupted s q (Some i) = (fire_due s', Ok (Some o'), [CkLive (last rest k)]).
Proof.
  intros Hp Hco Hw Hq Hl Hg Hch Hne Hvalid Hage Hdue Hi.
  pose proof (cached_chain_rec s Hco rest o0 o' ob Hch Hg) as Hcr.
  assert (Href : exists k1, r_ref (o_rec ob) = Some k1).
  { destruct rest as [|k1 t]; [congruence|]. exists k1. apply Hcr. }
  destruct Href as [k1 Href].
  assert (Hlen : length rest <= N.to_nat (supply s)).
  { destruct rest as [|k1' t']; [congruence|].
    destruct (chain_len s Hw t' k (o_rec ob) k1' (L_cached s k o0 ob Hl Hg) Hcr) as [m1 [_ Hl1]]. lia. }
  pose proof (fire_due_fired s Hp) as F.
  destruct (follow_h_cached i rest 1 (S (N.to_nat (supply s))) s o0 o' k) as (E1 & E2); [lia | exact Hp | exact Hdue | exact Hch |].
  set (f := fun r0 : rec => set_ua (set_ip (set_access r0 (now s)) (q_addr q)) (q_ua q)).
  exists (hupd s o' f). split.
  - unfold start. rewrite Hq, (cache_get_hit s k o0 Hl). cbn [negb]. rewrite Hg.
    unfold valid_for in Hvalid. rewrite Hvalid. cbn [negb]. rewrite Href. cbn [negb andb].
    replace (sat_add (c_idexpiry (conf s)) (c_grace (conf s)) <=? since (r_created (o_rec ob)) (now s))%Z with false
      by (symmetry; apply Z.leb_gt; exact Hage).
    rewrite E1. reflexivity.
  - rewrite fire_due_hupd.
    assert (Hfire0 : fire_at i 0 s = s).
    { unfold fire_at. destruct (Nat.eqb 0 i) eqn:E0; [apply Nat.eqb_eq in E0; lia | reflexivity]. }
    unfold start_interrupted, start_h. rewrite Hfire0. unfold start_body.
    rewrite Hq, (cache_get_hit s k o0 Hl).
    change (fire_at i 1 s) with (if Nat.eqb 1 i then fire_due s else s).
    destruct (Nat.eqb 1 i) eqn:Ei.
    + apply Nat.eqb_eq in Ei. subst i.
      destruct (follow_h_cached 1 rest 1 (S (N.to_nat (supply (fire_due s)))) (fire_due s) o0 o' k) as (_ & E3).
      * rewrite (fd_supply _ _ F). lia.
      * exact (fd_plan _ _ F).
      * intros k' Hk. apply (notdue_fired s _ k' F). apply Hdue. exact Hk.
      * apply (cached_chain_fired s _ rest F Hdue). exact Hch.
      * cbn [negb]. rewrite (fired_hget s _ o0 F), Hg. rewrite (fd_now _ _ F).
        unfold valid_for in Hvalid. rewrite Hvalid. cbn [negb]. rewrite Href. cbn [negb andb].
        replace (sat_add (c_idexpiry (conf s)) (c_grace (conf s)) <=? since (r_created (o_rec ob)) (now s))%Z with false
          by (symmetry; apply Z.leb_gt; exact Hage).
        rewrite E3. cbn [Nat.ltb Nat.leb andb]. rewrite (fd_now _ _ F). reflexivity.
    + apply Nat.eqb_neq in Ei. cbn [negb]. rewrite Hg.
      unfold valid_for in Hvalid. rewrite Hvalid. cbn [negb]. rewrite Href. cbn [negb andb].
      replace (sat_add (c_idexpiry (conf s)) (c_grace (conf s)) <=? since (r_created (o_rec ob)) (now s))%Z with false
        by (symmetry; apply Z.leb_gt; exact Hage).
      rewrite E2.
      replace ((1 <? i) && (i <=? 1 + length rest)) with true
        by (symmetry; apply andb_true_iff; split; [apply Nat.ltb_lt | apply Nat.leb_le]; lia).
      rewrite (fd_now _ _ F). reflexivity.
Qed.

(* (c) the request presents the session's current ID (not a replaced-ID record),
   no rotation is due: Start makes one cache operation. Whatever clean-ups are
   due - those of its predecessors - the interrupted request is one of the two
   serial orders, exactly, and both return the same session. *)
Theorem start_interrupted_current s q k r :
  plan s = [] -> cache_ok s -> nodup_ok s -> fresh_ok s -> cfg_ok (conf s) ->
  q_cookie q = CKey k -> L s k = Some r -> r_ref r = None ->
  valid_for (conf s) r (now s) q = true ->
  (since (r_created r) (now s) < c_idexpiry (conf s))%Z ->
  exists s' o,
    start s q = (s', Ok (Some o), []) /\
    hget s' o = Some (mkObj k (seen_rec r (now s) q)) /\
    start_interrupted s q (Some 1) = (fire_due s', Ok (Some o), []) /\
    (forall i, 2 <= i -> start_interrupted s q (Some i) = (s', Ok (Some o), [])) /\
    start_interrupted s q (Some 0) = start (fire_due s) q /\
    (notdue s k -> exists s0 o0,
       start (fire_due s) q = (s0, Ok (Some o0), []) /\
       hget s0 o0 = Some (mkObj k (seen_rec r (now s) q))).
Proof.
  intros Hp Hco Hnd Hf Hcfg Hq HL Href Hvalid Hage.
  destruct Hnd as [Hndc Hnds].
  pose proof (drawn_not_next s k (L_drawn s k r Hf HL)) as Hkj.
  destruct (lookup_found s k r Hp Hco Hndc Hkj HL) as [s1 [o0 [Eg P]]].
  pose proof (fp_quiet _ _ _ _ _ P) as Q. pose proof (fp_obj _ _ _ _ _ P) as Pobj.
  assert (Eb : (sat_add (c_idexpiry (conf s)) (c_grace (conf s)) <=? since (r_created r) (now s))%Z = false).
  { apply Z.leb_gt. pose proof (backstop_ge _ Hcfg). lia. }
  assert (Ea : (c_idexpiry (conf s) <=? since (r_created r) (now s))%Z = false) by (apply Z.leb_gt; exact Hage).
  set (f := fun r0 : rec => set_ua (set_ip (set_access r0 (now s)) (q_addr q)) (q_ua q)).
  assert (Es : start s q = (hupd s1 o0 f, Ok (Some o0), [])).
  { unfold start. rewrite Hq, Eg. cbn [negb]. rewrite Pobj. cbn [o_rec]. rewrite (qu_now _ _ Q).
    unfold valid_for in Hvalid. rewrite Hvalid. cbn [negb]. rewrite Href. cbn [negb andb]. rewrite Ea, Eb.
    cbv zeta. rewrite ?(qu_now _ _ Q). reflexivity. }
  assert (Hgen : forall i, 1 <= i -> start_interrupted s q (Some i) = (hupd (fire_at i 1 s1) o0 f, Ok (Some o0), [])).
  { intros i Hi.
    assert (Hfire0 : fire_at i 0 s = s).
    { unfold fire_at. destruct (Nat.eqb 0 i) eqn:E0; [apply Nat.eqb_eq in E0; lia | reflexivity]. }
    unfold start_interrupted, start_h. rewrite Hfire0. unfold start_body. rewrite Hq, Eg.
    assert (Hhn : heap (fire_at i 1 s1) = heap s1 /\ now (fire_at i 1 s1) = now s1).
    { unfold fire_at. destruct (Nat.eqb 1 i); [apply fire_due_heap_now | split; reflexivity]. }
    destruct Hhn as [Hh Hn]. cbn [negb]. unfold hget at 1. rewrite Hh. fold (hget s1 o0). rewrite Pobj. cbn [o_rec].
    rewrite Hn, (qu_now _ _ Q).
    unfold valid_for in Hvalid. rewrite Hvalid. cbn [negb]. rewrite Href. cbn [negb andb]. rewrite Ea, Eb.
    cbv zeta. rewrite ?Hn, ?(qu_now _ _ Q). reflexivity. }
  exists (hupd s1 o0 f), o0. split; [exact Es|]. split.
  { rewrite (hget_hupd_same s1 o0 _ _ Pobj). reflexivity. }
  split.
  { rewrite (Hgen 1 (le_n 1)). change (fire_at 1 1 s1) with (fire_due s1). rewrite fire_due_hupd. reflexivity. }
  split.
  { intros i Hi. rewrite (Hgen i) by lia. unfold fire_at. replace (Nat.eqb 1 i) with false; [reflexivity|].
    symmetry. apply Nat.eqb_neq. lia. }
  split; [apply start_interrupted_before|].
  intro Hnd. pose proof (fire_due_fired s Hp) as F.
  destruct (start_keep (fire_due s) q k r) as (s0 & o1 & E0 & _ & _ & Hg0 & _).
  - exact (fd_plan _ _ F).
  - exact (fired_cache_ok _ _ F Hco).
  - exact (fired_nodup _ _ F (conj Hndc Hnds)).
  - exact (fired_fresh _ _ F Hf).
  - rewrite (fd_conf _ _ F). exact Hcfg.
  - exact Hq.
  - rewrite (fired_L_keep _ _ k F Hnd). exact HL.
  - exact Href.
  - rewrite (fd_conf _ _ F), (fd_now _ _ F). exact Hvalid.
  - rewrite (fd_conf _ _ F), (fd_now _ _ F). exact Hage.
  - exists s0, o1. split; [exact E0|]. rewrite (fd_now _ _ F) in Hg0. exact Hg0.
Qed.

(* (b), i = 0: the clean-up of the presented ID runs first; the request finds
   nothing under it: the deletion cookie, and no session or a new empty one. *)
Theorem start_interrupted_before_dead s q k d :
  plan s = [] -> cache_ok s -> nodup_ok s -> fresh_ok s ->
  q_cookie q = CKey k -> In (d, k) (pending s) -> (d <= now s)%Z ->
  exists s' res nck,
    start_interrupted s q (Some 0) = (s', res, CkDelete :: nck) /\
    start (fire_due s) q = (s', res, CkDelete :: nck) /\
    StartLaws3.no_session (fire_due s) q s' res nck /\
    L s' k = None.
Proof.
  intros Hp Hco Hnd Hf Hq Hin Hd. pose proof (fire_due_fired s Hp) as F.
  destruct (fired_due_gone s _ d k F Hin Hd) as (_ & _ & G & _).
  destruct (StartLaws3.unknown_cookie (fire_due s) q k (fd_plan _ _ F) (fired_cache_ok _ _ F Hco)
              (fired_nodup _ _ F Hnd) (fired_fresh _ _ F Hf) Hq G)
    as (s' & res & nck & new & E & Hno & _ & _ & _ & _ & _ & Hk).
  exists s', res, nck. rewrite start_interrupted_before. split; [exact E|]. split; [exact E|]. split; [exact Hno|].
  destruct Hf as (_ & _ & _ & F4). apply Hk. unfold key_drawn. rewrite (fd_supply _ _ F). exact (F4 d k Hin).
Qed.
