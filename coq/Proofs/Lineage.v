(* Audit task A5, C07: every former ID of an ended session stays useless.
   Part 1: the lineage invariant and its preservation.

   D         a set of IDs ("the lineage of an ended session": its last ID, the
             replaced-ID records that lead to it, former IDs already cleaned up);
   dref x    what the store may say about an ID of D: no record, or a
             replaced-ID record naming another ID of D;
   QD s      every ID of D was drawn and the store's reference view (sref,
             HistLift.v) of it is dref: never a session's own record;
   LN s      the invariant between steps: C05H's LI (PF's winv with heap mark 0,
             cached objects agree with the store on the reference field, Kcs;
             IDs awaiting clean-up are not stored as sessions, PRs; references
             point upwards, RWs; no ID queued twice, Kp) together with QD.

   QD rides on the generic lifting of Proofs/HistLift3.v (Section Rider): it is
   kept by quiet transitions, creation, RegenerateID, deletion and the clean-up
   pass, hence (LN_step) by every fault-free, crash-free step of every hop kind:
   requests by anybody presenting anything with any script, waits, purges, cache
   loss, restarts, user-wide logout/refresh, reconfiguration. Because Kcs is part
   of the invariant, what holds of the store's view holds of the cache too: an
   ID of D never resolves to a session, cached or stored.

   No axioms; standard library only. *)
From Sessions Require Import Model.Base Model.Sess Model.Hist Proofs.SessDefs
  Proofs.HistInv Proofs.HistInv2 Proofs.HistInv3 Proofs.HistLift Proofs.HistLift2 Proofs.HistLift3
  Proofs.HistLift4.
From Coq Require Import Lia.

Section Lin.
  Variable D : key -> Prop.

  Definition dref (x : option (option key)) : Prop :=
    x = None \/ exists t, x = Some (Some t) /\ D t.

  Definition QD (s : st) : Prop := forall k, D k -> kd (supply s) k /\ dref (sref s k).

  (* an ID not drawn yet is not in D *)
  Lemma QD_nfresh s n : QD s -> (supply s <= n)%N -> ~ D (KGen n).
  Proof. intros Hq Hn HD. destruct (Hq _ HD) as [Hk _]. cbn [kd] in Hk. lia. Qed.

  (* an ID stored as a session's own record is not in D *)
  Lemma QD_nsess s k : QD s -> sref s k = Some None -> ~ D k.
  Proof.
    intros Hq Hs HD. destruct (Hq _ HD) as [_ [H|(t & H & _)]]; rewrite Hs in H; discriminate.
  Qed.

  (* whatever is found under an ID of D is a replaced-ID record into D *)
  Lemma QD_found s k x : QD s -> D k -> sref s k = Some x -> exists t, x = Some t /\ D t.
  Proof.
    intros Hq HD Hs. destruct (Hq _ HD) as [_ [H|(t & H & Ht)]]; rewrite Hs in H; [discriminate|].
    injection H as ->. exists t. split; [reflexivity | exact Ht].
  Qed.

  Lemma QD_same s s' : (forall k, sref s' k = sref s k) -> supply s' = supply s -> QD s -> QD s'.
  Proof. intros Hs Hn Hq k HD. rewrite Hs, Hn. exact (Hq k HD). Qed.

  Lemma QD_qt s s' : qt s s' -> QD s -> QD s'.
  Proof. intros Qt. apply QD_same; [exact (qt_sref _ _ Qt) | exact (qt_supply _ _ Qt)]. Qed.

  Lemma QD_new s s' k : eff_new s s' k -> QD s -> QD s'.
  Proof.
    intros E Hq k' HD. destruct (Hq k' HD) as [Hk Hd]. split.
    - eapply kd_mono; [|exact Hk]. rewrite (en_supply _ _ _ E). lia.
    - rewrite (en_oth _ _ _ E); [exact Hd|]. intro Heq. subst k'. rewrite (en_key _ _ _ E) in HD.
      exact (QD_nfresh s _ Hq (N.le_refl _) HD).
  Qed.

  Lemma QD_repl s s' old : eff_repl s s' old -> QD s -> QD s'.
  Proof.
    intros E Hq k' HD. destruct (Hq k' HD) as [Hk Hd]. split.
    - eapply kd_mono; [|exact Hk]. rewrite (er_supply _ _ _ E). lia.
    - rewrite (er_oth _ _ _ E); [exact Hd | |].
      + intro Heq. subst k'. exact (QD_nsess s old Hq (er_old _ _ _ E) HD).
      + intro Heq. subst k'. exact (QD_nfresh s _ Hq (N.le_refl _) HD).
  Qed.

  Lemma QD_del s s' k : eff_del s s' k -> QD s -> QD s'.
  Proof.
    intros E Hq k' HD. destruct (Hq k' HD) as [Hk Hd]. split; [rewrite (ed_supply _ _ _ E); exact Hk|].
    destruct (key_eq_dec k' k) as [->|Hne]; [left; exact (ed_gone _ _ _ E)|].
    rewrite (ed_oth _ _ _ E) by exact Hne. exact Hd.
  Qed.

  Lemma QD_fire s s' : eff_fire s s' -> QD s -> QD s'.
  Proof.
    intros E Hq k HD. destruct (Hq k HD) as [Hk Hd]. split; [rewrite (ef_supply _ _ E); exact Hk|].
    destruct (ef_sref _ _ E k) as [->|[H _]]; [exact Hd | left; exact H].
  Qed.

  (* ----------------------------------------- riding with C05H's invariant *)

  Definition Q1 (s : st) : Prop := Q0 s /\ QD s.

  Lemma Q1_qt s s' : qt s s' -> Q1 s -> Q1 s'.
  Proof. intros Qt [A B]. split; [eapply Q0_qt | eapply QD_qt]; eassumption. Qed.
  Lemma Q1_new s s' k : eff_new s s' k -> Q1 s -> Q1 s'.
  Proof. intros E [A B]. split; [eapply Q0_new | eapply QD_new]; eassumption. Qed.
  Lemma Q1_repl s s' k : eff_repl s s' k -> Q1 s -> Q1 s'.
  Proof. intros E [A B]. split; [eapply Q0_repl | eapply QD_repl]; eassumption. Qed.
  Lemma Q1_del s s' k : eff_del s s' k -> DEL0 s k -> Q1 s -> Q1 s'.
  Proof. intros E Hd [A B]. split; [eapply Q0_del | eapply QD_del]; eassumption. Qed.
  Lemma Q1_fire s s' : eff_fire s s' -> FOK0 (now s) -> Q1 s -> Q1 s'.
  Proof. intros E Hf [A B]. split; [eapply Q0_fire | eapply QD_fire]; eassumption. Qed.
  Lemma Q1_same s s' : (forall k, sref s' k = sref s k) -> pending s' = pending s -> supply s' = supply s ->
    Q1 s -> Q1 s'.
  Proof. intros Hs Hp Hn [A B]. split; [eapply Q0_same | eapply QD_same]; eassumption. Qed.

  Definition LN (s : st) : Prop := GW Q1 s.

  Lemma LN_LI s : LN s -> LI s.
  Proof. intros (W & K & P & [A _]). split; [exact W|]. split; [exact K|]. split; [exact P | exact A]. Qed.

  Lemma LN_QD s : LN s -> QD s.
  Proof. intros (_ & _ & _ & [_ B]). exact B. Qed.

  Lemma LI_LN s : LI s -> QD s -> LN s.
  Proof. intros (W & K & P & A) B. split; [exact W|]. split; [exact K|]. split; [exact P | split; assumption]. Qed.

  (* the hops outside the generic part: waiting, reconfiguration, restart *)
  Lemma LN_step_wait w d : LN (w_st w) -> LN (w_st (fst (step w (HWait d)))).
  Proof.
    intros (W & K & P & Hq). cbn [step fst w_st].
    set (s0 := set_now (set_evs (w_st w) []) (now (set_evs (w_st w) []) + d)).
    assert (G0 : G Q1 (supply (w_st w), []) s0).
    { split; [apply inv_set_now; exact W|]. split; [eapply Kcs_same; [| | |exact K]; reflexivity|].
      split; [intros d' k Hin; exact (P d' k Hin) | eapply Q1_same; [| | |exact Hq]; reflexivity]. }
    destruct (fire_due_G Q1 FOK0 Q1_fire _ _ G0 Logic.I) as (G1 & _).
    exact (G_GW' _ _ _ G1).
  Qed.

  Lemma LN_step_cfg w c : LN (w_st w) -> LN (w_st (fst (step w (HSetCfg c)))).
  Proof.
    intros (W & K & P & Hq). cbn [step fst w_st].
    split; [eapply winv_of_inv'; apply inv_set_conf; exact W|].
    split; [eapply Kcs_same; [| | |exact K]; reflexivity|].
    split; [intros d' k Hin; exact (P d' k Hin) | eapply Q1_same; [| | |exact Hq]; reflexivity].
  Qed.

  Lemma LN_step_restart w : LN (w_st w) -> LN (w_st (fst (step w HRestart))).
  Proof.
    intros (W & K & P & [[R Kq] Hd]). cbn [step fst w_st].
    split; [eapply winv_of_inv'; unfold restart; apply inv_set_pending; [apply inv_set_cache_nil; exact W | intros d k []]|].
    split; [intros k o ob Hl; discriminate|]. split; [intros d k []|].
    split; [split; [exact R | constructor] | exact Hd].
  Qed.

  (* every fault-free, crash-free step preserves LN *)
  Theorem LN_step w h : LN (w_st w) -> ff_hop h -> crash_free h -> LN (w_st (fst (step w h))).
  Proof.
    intros Hl Hff Hcf. destruct h as [r|d|tbl pl| | |u tbl pl|u tbl pl|c].
    - apply (step_req_GW Q1 DEL0 FOK0 Q1_qt Q1_new Q1_repl Q1_del Q1_fire w r Hl Hff Hcf Logic.I).
      + intros; exact Logic.I.
      + intros o _ s ob _ _ _. exact Logic.I.
    - apply LN_step_wait. exact Hl.
    - apply (step_gen_GW Q1 FOK0 Q1_qt Q1_fire w _ Hl Hff Logic.I Logic.I).
    - apply (step_gen_GW Q1 FOK0 Q1_qt Q1_fire w _ Hl Hff Logic.I Logic.I).
    - apply LN_step_restart. exact Hl.
    - apply (step_gen_GW Q1 FOK0 Q1_qt Q1_fire w _ Hl Hff Logic.I Logic.I).
    - apply (step_gen_GW Q1 FOK0 Q1_qt Q1_fire w _ Hl Hff Logic.I Logic.I).
    - apply LN_step_cfg. exact Hl.
  Qed.

  Theorem LN_after : forall hs w, LN (w_st w) -> Forall ff_hop hs -> Forall crash_free hs -> LN (w_st (after w hs)).
  Proof.
    induction hs as [|h t IH]; intros w Hl Hff Hcf; cbn [after]; [exact Hl|].
    inversion Hff; inversion Hcf; subst. apply IH; [apply LN_step; assumption | assumption | assumption].
  Qed.

  (* what LN says about an ID of D in terms of L (cache over store): it
     resolves to nothing, or to a replaced-ID record naming an ID of D *)
  Lemma LN_resolves s k : LN s -> D k ->
    L s k = None \/ exists r t, L s k = Some r /\ r_ref r = Some t /\ D t.
  Proof.
    intros Hl HD. pose proof Hl as (W & K & _ & [_ Hq]).
    destruct (winv_sessdefs _ _ _ W) as (_ & Hc & _).
    destruct (L s k) as [r|] eqn:HL; [right | left; reflexivity].
    assert (Hs : sref s k = Some (r_ref r)).
    { unfold L in HL. destruct (lookup (cache s) k) as [o|] eqn:Hlk.
      - destruct (Hc _ _ Hlk) as (ob & Ho & _). rewrite Ho in HL. injection HL as <-. exact (K _ _ _ Hlk Ho).
      - apply sref_lookup. exact HL. }
    destruct (QD_found s k _ Hq HD Hs) as (t & Hr & Ht). exists r, t. auto.
  Qed.
End Lin.
