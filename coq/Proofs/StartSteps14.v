(* B2 (C05), part (b), several clean-up goroutines: each queued clean-up that is
   due may fire after a different cache operation of the request, or not at
   all. A schedule sc says which IDs' clean-ups fire after which operation;
   fire_sel runs exactly those (if due). As long as no later member of the
   presented ID's chain is due, every schedule gives the result of the
   uninterrupted request. The proof is generic in the hook: it uses only that
   the hook keeps the heap, keeps what every ID that is not due resolves to, and
   relates the states by qx (Proofs/StartSteps3.v). *)
From Sessions Require Import Model.Base Model.Sess Model.Hist Model.StartSteps Proofs.SessDefs
  Proofs.RotateLaws Proofs.RotateLaws2 Proofs.RotateLaws3 Proofs.RotateLaws4 Proofs.StartSteps
  Proofs.StartSteps2 Proofs.StartSteps3 Proofs.StartSteps4 Proofs.StartSteps7.
From Sessions Require Proofs.StartLaws Proofs.C01Spec.
From Coq Require Import Lia.

(* run the due clean-ups of the IDs selected by p; the others stay queued *)
Definition fire_sel (p : key -> bool) (s : st) : st :=
  let sel := filter (fun e => p (snd e)) (pending s) in
  let oth := filter (fun e => negb (p (snd e))) (pending s) in
  let '(s', rest) := fire (set_pending s []) sel in
  set_pending s' (pending s' ++ rest ++ oth).

(* after the n-th cache operation the clean-ups of the IDs sc n fire *)
Definition fire_sched (sc : nat -> key -> bool) : hook := fun n s => fire_sel (sc n) s.

(* selecting everything is the clean-up pass *)
Lemma fire_sel_all s : fire_sel (fun _ => true) s = fire_due s.
Proof.
  unfold fire_sel, fire_due. cbn [negb].
  assert (E1 : forall l : list (Z * key), filter (fun e => true) l = l).
  { induction l as [|e l IH]; cbn; [reflexivity | rewrite IH; reflexivity]. }
  assert (E2 : forall l : list (Z * key), filter (fun e => false) l = []).
  { induction l as [|e l IH]; cbn; [reflexivity | exact IH]. }
  rewrite E1, E2. destruct (fire (set_pending s []) (pending s)) as [s' rest]. rewrite app_nil_r. reflexivity.
Qed.

(* selecting nothing does nothing *)
Lemma fire_sel_none s : fire_sel (fun _ => false) s = s.
Proof.
  unfold fire_sel. cbn [negb].
  assert (E1 : forall l : list (Z * key), filter (fun e => true) l = l).
  { induction l as [|e l IH]; cbn; [reflexivity | rewrite IH; reflexivity]. }
  assert (E2 : forall l : list (Z * key), filter (fun e => false) l = []).
  { induction l as [|e l IH]; cbn; [reflexivity | exact IH]. }
  rewrite E1, E2. cbn [fire]. destruct s; reflexivity.
Qed.

(* the schedule "everything after operation i, nothing elsewhere" is the hook of
   start_interrupted *)
Lemma fire_sched_at i n s : fire_sched (fun n' _ => Nat.eqb n' i) n s = fire_at i n s.
Proof. unfold fire_sched, fire_at. destruct (Nat.eqb n i); [apply fire_sel_all | apply fire_sel_none]. Qed.

(* what a selective pass leaves behind: l is what it went through *)
Record sfired (l : list (Z * key)) (s s' : st) : Prop := mkSFired {
  sf_sub : forall e, In e l -> In e (pending s);
  sf_cache : cache s' = rm_due (now s) l (cache s);
  sf_store : store s' = rm_due (now s) l (store s);
  sf_heap : heap s' = heap s;
  sf_plan : plan s' = [];
  sf_now : now s' = now s;
  sf_conf : conf s' = conf s;
  sf_supply : supply s' = supply s;
  sf_pending : forall e, In e (pending s') -> In e (pending s) }.

Lemma fire_sel_sfired p s : plan s = [] ->
  sfired (filter (fun e => p (snd e)) (pending s)) s (fire_sel p s).
Proof.
  intro Hp. unfold fire_sel.
  pose proof (fire_exact (filter (fun e => p (snd e)) (pending s)) (set_pending s []) Hp) as H. cbv zeta in H.
  destruct (fire (set_pending s []) _) as [s1 rest]. cbn [fst snd] in H.
  destruct H as (I1 & I2 & I3 & I4 & I5 & I6 & I7 & I8 & I9). cbn in I1, I2, I3, I5, I6, I7, I8, I9.
  constructor; cbn; try assumption.
  - intros e H. apply filter_In in H. exact (proj1 H).
  - intros e H. rewrite I8 in H. cbn in H. apply in_app_or in H. destruct H as [H|H].
    + rewrite I9 in H. apply filter_In in H. destruct H as [H _]. apply filter_In in H. exact (proj1 H).
    + apply filter_In in H. exact (proj1 H).
Qed.

Lemma sfired_notdue l s s' k : sfired l s s' -> notdue s k -> due_in (now s) l k = false.
Proof. intros F H. apply due_in_false. intros d Hin. apply H. apply (sf_sub _ _ _ F). exact Hin. Qed.

Lemma sfired_hget l s s' o : sfired l s s' -> hget s' o = hget s o.
Proof. intro F. unfold hget. rewrite (sf_heap _ _ _ F). reflexivity. Qed.

Lemma sfired_L_keep l s s' k : sfired l s s' -> notdue s k -> L s' k = L s k.
Proof.
  intros F Hn. unfold L. rewrite (sf_cache _ _ _ F), (sf_store _ _ _ F), !lookup_rm_due.
  rewrite (sfired_notdue l s s' k F Hn). destruct (lookup (cache s) k); [rewrite (sfired_hget l s s' _ F)|]; reflexivity.
Qed.

Lemma sfired_qx l s s' : plan s = [] -> cache_ok s -> NoDup (map fst (cache s)) -> sfired l s s' -> qx s s'.
Proof.
  intros Hp Hc Hn F. constructor.
  - intros o ob H. rewrite (sfired_hget l s s' o F). exact H.
  - exact (sf_plan _ _ _ F).
  - rewrite (sf_cache _ _ _ F). apply nodup_rm_due. exact Hn.
  - intros k o H. rewrite (sf_cache _ _ _ F), lookup_rm_due in H.
    destruct (due_in _ _ _); [discriminate|]. destruct (Hc k o H) as (ob & Ho & Hid).
    exists ob. split; [rewrite (sfired_hget l s s' o F); exact Ho | exact Hid].
  - exact (sf_now _ _ _ F).
  - exact (sf_conf _ _ _ F).
  - exact (sf_supply _ _ _ F).
  - exact (sf_pending _ _ _ F).
  - intros k H. left. exact (sfired_L_keep l s s' k F H).
  - intros k H. destruct (StartLaws.L_None_lookups s k Hc H) as [H1 H2]. unfold L.
    rewrite (sf_cache _ _ _ F), (sf_store _ _ _ F), !lookup_rm_due, H1, H2. destruct (due_in _ _ _); reflexivity.
Qed.

(* what the generic proof needs of a hook *)
Definition good_hook (h : hook) : Prop :=
  forall n s, plan s = [] -> cache_ok s -> NoDup (map fst (cache s)) ->
    qx s (h n s) /\ (forall k, notdue s k -> L (h n s) k = L s k) /\ heap (h n s) = heap s.

Lemma good_fire_sched sc : good_hook (fire_sched sc).
Proof.
  intros n s Hp Hc Hn. pose proof (fire_sel_sfired (sc n) s Hp) as F. unfold fire_sched.
  split; [eapply sfired_qx; eassumption|]. split; [intros k H; eapply sfired_L_keep; eassumption | exact (sf_heap _ _ _ F)].
Qed.

Lemma good_fire_at i : good_hook (fire_at i).
Proof. intros n s Hp Hc Hn. destruct (hook_qx i n s Hp Hc Hn) as (A & B & C & _). auto. Qed.

Section Good.
  Variable h : hook.
  Hypothesis Hgood : good_hook h.

  Lemma follow_h_chain_good rest : forall n fuel s o ob lk,
    length rest <= fuel ->
    plan s = [] -> cache_ok s -> NoDup (map fst (cache s)) ->
    (forall k, In k rest -> k <> KGen (supply s)) ->
    (forall k, In k rest -> notdue s k) ->
    hget s o = Some ob -> chain_rec s (o_rec ob) rest ->
    exists s' o' ob',
      follow_h h n fuel s o lk = (s', Ok (o', last rest lk)) /\ qx s s' /\
      hget s' o' = Some ob' /\ r_ref (o_rec ob') = None /\ o_id ob' = last rest (o_id ob) /\
      (rest = [] -> o' = o /\ s' = s) /\
      (rest <> [] -> L s' (o_id ob') = Some (o_rec ob') /\
                     exists rn, L s (o_id ob') = Some rn /\
                                (o_rec ob' = rn \/ o_rec ob' = codec (conf s) rn)).
  Proof.
    induction rest as [|k' t IH]; intros n fuel s o ob lk Hfuel Hp Hco Hnd Hnj Hdue Hg Hch.
    - cbn in Hch. exists s, o, ob.
      assert (E : follow_h h n fuel s o lk = (s, Ok (o, lk))) by (destruct fuel; cbn; rewrite Hg, Hch; reflexivity).
      split; [exact E|]. split; [apply qx_refl; assumption|].
      split; [exact Hg|]. split; [exact Hch|]. split; [reflexivity|]. split; [auto | congruence].
    - destruct Hch as [Hr [r' [Hl Hc]]]. destruct fuel as [|f]; [cbn in Hfuel; lia|].
      cbn [follow_h]. rewrite Hg, Hr.
      destruct (lookup_found s k' r' Hp Hco Hnd (Hnj k' (or_introl eq_refl)) Hl) as [s1 [o1 [Eg P]]].
      rewrite Eg. destruct P as [Q Pobj Pca PLk].
      destruct (Hgood (S n) s1 (qu_plan _ _ Q) (qu_cok _ _ Q) (qu_ndc _ _ Q)) as (X1 & X2 & X3).
      set (s1' := h (S n) s1) in *.
      assert (Hdue1 : forall k, In k (k' :: t) -> notdue s1 k).
      { intros k Hk. apply (notdue_qx s s1 k (qx_of_quiet _ _ Q)). apply Hdue. exact Hk. }
      assert (Hobj' : hget s1' o1 = Some (mkObj k' r')) by (apply (qx_ext _ _ X1); exact Pobj).
      destruct (IH (S n) f s1' o1 (mkObj k' r') k') as [s' [o' [ob' (E & Q' & Hg' & Hr' & Hid' & Hnil & Hcons)]]].
      + cbn in Hfuel. lia.
      + exact (qx_plan _ _ X1).
      + exact (qx_cok _ _ X1).
      + exact (qx_ndc _ _ X1).
      + intros k Hin. rewrite (qx_supply _ _ X1), (qu_supply _ _ Q). apply Hnj. right. exact Hin.
      + intros k Hin. apply (notdue_qx s1 s1' k X1). apply Hdue1. right. exact Hin.
      + exact Hobj'.
      + cbn [o_rec]. apply (chain_rec_qx s1 s1' t X1); [intros k Hk; apply Hdue1; right; exact Hk|].
        eapply chain_rec_pres; [exact (qu_L _ _ Q) | exact Hc].
      + exists s', o', ob'. split; [rewrite last_cons; exact E|].
        split; [eapply qx_trans; [apply qx_of_quiet; exact Q | eapply qx_trans; eassumption]|].
        split; [exact Hg'|]. split; [exact Hr'|].
        split; [rewrite last_cons; exact Hid'|]. split; [discriminate|].
        intros _. destruct t as [|k2 t'].
        * destruct (Hnil eq_refl) as [-> ->].
          assert (ob' = mkObj k' r') by congruence. subst ob'. cbn [o_id o_rec].
          split; [rewrite (X2 k' (Hdue1 k' (or_introl eq_refl))); exact PLk|].
          exists r'. split; [exact Hl | left; reflexivity].
        * destruct (Hcons ltac:(discriminate)) as [HL' [rn [Hrn Hcase]]]. split; [exact HL'|].
          assert (Hin : In (o_id ob') (k' :: k2 :: t')).
          { rewrite Hid'. cbn [o_id]. right. apply last_in. discriminate. }
          rewrite (X2 _ (Hdue1 _ Hin)) in Hrn. rewrite (qx_conf _ _ X1) in Hcase.
          destruct (qu_L _ _ Q (o_id ob')) as [EL|EL]; rewrite EL in Hrn.
          -- exists rn. split; [exact Hrn|]. rewrite <- (qu_conf _ _ Q). exact Hcase.
          -- destruct (L s (o_id ob')) as [r0|] eqn:E0; [|discriminate]. cbn in Hrn. injection Hrn as <-.
             exists r0. split; [reflexivity|]. right.
             destruct Hcase as [Hcase|Hcase]; rewrite Hcase; [reflexivity|].
             rewrite (qu_conf _ _ Q). apply StartLaws.codec_idem.
  Qed.

  (* Start from its first cache operation on, with any good hook *)
  Theorem start_body_chain_good s q k r rest :
    plan s = [] -> cache_ok s -> nodup_ok s -> fresh_ok s -> ref_wf s ->
    q_cookie q = CKey k -> L s k = Some r -> chain_rec s r rest -> rest <> [] ->
    valid_for (conf s) r (now s) q = true ->
    (since (r_created r) (now s) < sat_add (c_idexpiry (conf s)) (c_grace (conf s)))%Z ->
    (forall k', In k' rest -> notdue s k') ->
    let kn := last rest k in
    exists rn s' o',
      L s kn = Some rn /\ r_ref rn = None /\
      start_body h s q = (s', Ok (Some o'), [CkLive kn]) /\
      handed s' o' kn (C01Spec.content_of rn) (now s) q /\
      (exists rk, L s' kn = Some rk /\ r_ref rk = None).
  Proof.
    intros Hp Hco [Hndc Hnds] Hf Hw Hq HL Hch Hne Hvalid Hage Hdue kn.
    pose proof (drawn_not_next s k (L_drawn s k r Hf HL)) as Hkj.
    destruct (lookup_found s k r Hp Hco Hndc Hkj HL) as [s1 [o0 [Eg [Q Pobj Pca PLk]]]].
    assert (Href : exists k1, r_ref r = Some k1).
    { destruct rest as [|k1 t]; [congruence|]. exists k1. apply Hch. }
    destruct Href as [k1 Href].
    destruct (Hgood 1 s1 (qu_plan _ _ Q) (qu_cok _ _ Q) (qu_ndc _ _ Q)) as (X1 & X2 & X3).
    set (s1' := h 1 s1) in *.
    assert (Hobj' : hget s1' o0 = Some (mkObj k r)) by (apply (qx_ext _ _ X1); exact Pobj).
    assert (Hnow' : now s1' = now s) by (rewrite (qx_now _ _ X1); exact (qu_now _ _ Q)).
    assert (Hdue1 : forall k', In k' rest -> notdue s1 k').
    { intros k' Hk. apply (notdue_qx s s1 k' (qx_of_quiet _ _ Q)). apply Hdue. exact Hk. }
    assert (Hlen : length rest <= N.to_nat (supply s)).
    { destruct rest as [|k1' t']; [congruence|].
      destruct (chain_len s Hw t' k r k1' HL Hch) as [m1 [_ Hl1]]. lia. }
    assert (Hsup' : supply s1' = supply s) by (rewrite (qx_supply _ _ X1); exact (qu_supply _ _ Q)).
    destruct (follow_h_chain_good rest 1 (S (N.to_nat (supply s1'))) s1' o0 (mkObj k r) k)
      as [s2 [o' [ob' (Ef & Q2 & Hg2 & Hr2 & Hid2 & _ & Hcons)]]].
    { rewrite Hsup'. lia. }
    { exact (qx_plan _ _ X1). }
    { exact (qx_cok _ _ X1). }
    { exact (qx_ndc _ _ X1). }
    { intros k' Hin. rewrite Hsup'. destruct (chain_rec_L s rest r k' Hch Hin) as [r0 Hl'].
      apply drawn_not_next. eapply L_drawn; eassumption. }
    { intros k' Hin. apply (notdue_qx s1 s1' k' X1). apply Hdue1. exact Hin. }
    { exact Hobj'. }
    { cbn [o_rec]. apply (chain_rec_qx s1 s1' rest X1 Hdue1). eapply chain_rec_pres; [exact (qu_L _ _ Q) | exact Hch]. }
    assert (Elhs : start_body h s q =
                   (hupd s2 o' (fun r0 => set_ua (set_ip (set_access r0 (now s2)) (q_addr q)) (q_ua q)),
                    Ok (Some o'), [CkLive kn])).
    { unfold start_body. rewrite Hq, Eg.
      fold s1'. cbn [negb]. rewrite Hobj'. cbn [o_rec]. rewrite Hnow'.
      unfold valid_for in Hvalid. rewrite Hvalid. cbn [negb]. rewrite Href. cbn [negb andb].
      replace (sat_add (c_idexpiry (conf s)) (c_grace (conf s)) <=? since (r_created r) (now s))%Z with false
        by (symmetry; apply Z.leb_gt; exact Hage).
      rewrite Ef. fold kn. reflexivity. }
    cbn [o_id] in Hid2. fold kn in Hid2.
    destruct (Hcons Hne) as [HL2 [rn1 [Hrn1 Hcase1]]]. rewrite Hid2 in HL2, Hrn1.
    assert (Hkn : In kn rest) by (apply last_in; exact Hne).
    assert (Hrn : exists rn, L s kn = Some rn /\ (o_rec ob' = rn \/ o_rec ob' = codec (conf s) rn)).
    { rewrite (X2 kn (Hdue1 kn Hkn)) in Hrn1. rewrite (qx_conf _ _ X1) in Hcase1.
      destruct (qu_L _ _ Q kn) as [EL|EL]; rewrite EL in Hrn1.
      - exists rn1. split; [exact Hrn1|]. rewrite <- (qu_conf _ _ Q). exact Hcase1.
      - destruct (L s kn) as [r0|] eqn:E0; [|discriminate]. cbn in Hrn1. injection Hrn1 as <-.
        exists r0. split; [reflexivity|]. right.
        destruct Hcase1 as [Hc1|Hc1]; rewrite Hc1; [reflexivity|].
        rewrite (qu_conf _ _ Q). apply StartLaws.codec_idem. }
    destruct Hrn as [rn [Hrn Hcase]].
    set (s' := hupd s2 o' _) in Elhs.
    assert (Hrn0 : r_ref rn = None).
    { destruct Hcase as [Hc0|Hc0]; rewrite Hc0 in Hr2; exact Hr2. }
    exists rn, s', o'. split; [exact Hrn|]. split; [exact Hrn0|]. split; [exact Elhs|].
    destruct (hupd_fields s2 o' (fun r0 => set_ua (set_ip (set_access r0 (now s2)) (q_addr q)) (q_ua q)))
      as (Hc & Hs & _).
    fold s' in Hc, Hs.
    assert (Ho : hget s' o' = Some (mkObj kn (seen_rec (o_rec ob') (now s) q))).
    { unfold s'. rewrite (hget_hupd_same s2 o' _ _ Hg2). rewrite Hid2.
      rewrite (qx_now _ _ Q2), Hnow'. reflexivity. }
    split; [exact (handed_of _ _ _ _ _ _ _ _ Ho Hrn0 Hcase)|].
    unfold L. rewrite Hc, Hs. unfold L in HL2.
    destruct (lookup (cache s2) kn) as [ox|] eqn:Ecx.
    + destruct (Nat.eq_dec o' ox) as [<-|Hnx].
      * rewrite Ho. eexists. split; [reflexivity|]. exact Hr2.
      * unfold s'. rewrite hget_hupd_other by exact Hnx.
        destruct (hget s2 ox) as [obx|]; [|discriminate]. injection HL2 as HL2.
        eexists. split; [reflexivity|]. rewrite HL2. exact Hr2.
    + exists (o_rec ob'). split; [exact HL2 | exact Hr2].
  Qed.
End Good.

(* every schedule of the due clean-ups over the cache operations of the request *)
Theorem scheduled_served sc s q k r rest :
  plan s = [] -> cache_ok s -> nodup_ok s -> fresh_ok s -> ref_wf s ->
  q_cookie q = CKey k -> L s k = Some r -> chain_rec s r rest -> rest <> [] ->
  valid_for (conf s) r (now s) q = true ->
  (since (r_created r) (now s) < sat_add (c_idexpiry (conf s)) (c_grace (conf s)))%Z ->
  (forall k', In k' rest -> notdue s k') ->
  let kn := last rest k in
  exists rn s' o',
    L s kn = Some rn /\ r_ref rn = None /\
    start_body (fire_sched sc) s q = (s', Ok (Some o'), [CkLive kn]) /\
    handed s' o' kn (C01Spec.content_of rn) (now s) q /\
    (exists rk, L s' kn = Some rk /\ r_ref rk = None).
Proof. apply start_body_chain_good. apply good_fire_sched. Qed.
