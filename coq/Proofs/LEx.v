(* Worked examples (non-vacuity) for the theorems of Properties/C08L.v, C05L.v,
   C10L.v and C18L.v: concrete histories in which the hypotheses hold, with the
   outcomes computed by the model. *)
From Sessions Require Import Model.Base Model.Sess Model.Hist Proofs.SessDefs
  Proofs.HistInv Proofs.HistInv2 Proofs.HistInv3 Proofs.UserLaws Proofs.UserHist Proofs.UserHist2 Proofs.UserHistEx
  Proofs.HistLift Proofs.HistLift3 Proofs.HistLift4 Proofs.HistLift6 Proofs.HistLift9
  Proofs.UserSurv Proofs.CookieTrace Proofs.BackstopHist.
From Sessions Require Proofs.CrashFault3 Proofs.CrashRestart Proofs.CrashRestart2 Proofs.CrashRestart3 Proofs.CrashRestart4
  Proofs.CrashRestart5 Proofs.CrashRestart6 Proofs.LiveHist4 Proofs.LiveHist8 Proofs.RotateLaws3.

(* ------------------------------------------------------------------ C08L *)

(* the second browser of user 5 (UserHistEx.v) sets a value, logs in
   exclusively, sets another value, regenerates its ID and reads-and-deletes a
   value; then the process restarts and the browser comes back *)
Definition rU2 : reqstep := rqu 2 [SSet 1 1; SLogIn (5%N, 2%N) true; SSet 2 2; SRegen; SGetDel 1].

Lemma wU_LI : LI (w_st wU).
Proof. rewrite wU_eq. apply LI_reach; repeat (constructor; try exact I; try reflexivity). Qed.

Example handler_at_ex2 : handler_at wU rU2 [SSet 1 1] sU 2.
Proof. do 4 eexists. split; [vm_compute; reflexivity|]. split; vm_compute; reflexivity. Qed.

Example login_script_survives_ex :
  let w1 := fst (step wU (HReq rU2)) in let w2 := fst (step w1 HRestart) in
  rq_script rU2 = [SSet 1 1] ++ SLogIn (5%N, 2%N) true :: [SSet 2 2; SRegen; SGetDel 1] /\
  forallb keeps_user [SSet 2 2; SRegen; SGetDel 1] = true /\
  ob_script (snd (step wU (HReq rU2))) = [SOk; SOk; SOk; SOk; SVal (Some 1%N)] /\
  ob_cookies (snd (step wU (HReq rU2))) = [CkLive (KGen 3); CkLive (KGen 4)] /\
  option_map fst (ob_final (snd (step wU (HReq rU2)))) = Some (KGen 4) /\
  option_map r_user (L (w_st w2) (KGen 4)) = Some (Some (5%N, 0%N)) /\
  jar_of (w_jars w2) 2 = CKey (KGen 4) /\
  option_map (fun x => (fst x, r_user (snd x))) (ob_start (snd (step w2 (HReq (rqu 2 []))))) =
    Some (KGen 4, Some (5%N, 0%N)).
Proof. vm_compute. repeat split. Qed.

(* ------------------------------------------------------------------ C05L *)

(* SessionExpiry 1 h, SessionIDExpiry 30 s, grace 5 s. Client 1 creates a session
   (KGen 0) and regenerates its ID at instant 0 (KGen 0 -> KGen 1, clean-up
   queued for instant 5 s); the process restarts (the clean-up is lost) *)
Definition cB : cfg := mkCfg 3600000000000 30000000000 5000000000 max64 10 1 true false.
Definition rqB (c : N) (p : present) (cr : bool) (sc : list sop) : reqstep :=
  mkReqStep c p cr (V4 1 2 3 4 5) 7 sc [] [] None.
Definition hB : list hop := [HReq (rqB 1 PJar true [SSet 1 2]); HReq (rqB 1 PJar false [SRegen])].
Definition wB : world := Eval vm_compute in reach cB hB.
Lemma wB_eq : wB = reach cB hB.
Proof. vm_compute. reflexivity. Qed.
Lemma wB_LI : LI (w_st wB).
Proof. rewrite wB_eq. apply LI_reach; repeat (constructor; try exact I; try reflexivity). Qed.

Definition probeB : reqstep := rqB 2 (PForge (CKey (KGen 0))) false [].
Definition rkB : rec := mkRec 0 0 (V4 1 2 3 4 5) 7 (Some (KGen 1)) None (Some []).

(* the hypotheses of backstop_after_restart and live_after_restart hold ... *)
Example backstop_hyps_ex :
  pending (w_st wB) = [(5000000000%Z, KGen 0)] /\
  lookup (store (w_st wB)) (KGen 0) = Some rkB /\ schain (w_st wB) (KGen 0) [KGen 1] /\
  (let w2 := fst (step (fst (step wB HRestart)) (HWait 34000000000)) in
   presents w2 probeB = CKey (KGen 0) /\
   RotateLaws3.valid_for (conf (w_st wB)) rkB (now (w_st wB) + 34000000000) (req_of w2 probeB) = true /\
   (since (r_created rkB) (now (w_st wB) + 34000000000) < sat_add (c_idexpiry (conf (w_st wB))) (c_grace (conf (w_st wB))))%Z) /\
  (let w3 := fst (step (fst (step wB HRestart)) (HWait 35000000000)) in
   presents w3 probeB = CKey (KGen 0) /\
   RotateLaws3.valid_for (conf (w_st wB)) rkB (now (w_st wB) + 35000000000) (req_of w3 probeB) = true /\
   (sat_add (c_idexpiry (conf (w_st wB))) (c_grace (conf (w_st wB))) <= since (r_created rkB) (now (w_st wB) + 35000000000))%Z).
Proof.
  split; [vm_compute; reflexivity|]. split; [vm_compute; reflexivity|].
  split; [split; vm_compute; reflexivity|].
  split; (split; [vm_compute; reflexivity|]; split; [vm_compute; reflexivity|]; vm_compute; congruence).
Qed.

(* ... and the outcomes: 34 s after the replacement — long after the grace
   period — the replaced ID still leads to the session; at 35 s it is refused
   and removed *)
Example backstop_outcomes_ex :
  let w2 := fst (step (fst (step wB HRestart)) (HWait 34000000000)) in
  let w3 := fst (step (fst (step wB HRestart)) (HWait 35000000000)) in
  ob_res (snd (step w2 (HReq probeB))) = RSess /\
  ob_cookies (snd (step w2 (HReq probeB))) = [CkLive (KGen 1)] /\
  option_map fst (ob_start (snd (step w2 (HReq probeB)))) = Some (KGen 1) /\
  ob_res (snd (step w3 (HReq probeB))) = RErr EExpiredID /\
  ob_cookies (snd (step w3 (HReq probeB))) = [] /\
  lookup (store (w_st (fst (step w3 (HReq probeB))))) (KGen 0) = None.
Proof. vm_compute. repeat split. Qed.

(* ------------------------------------------------------------------ C10L *)

Import CrashRestart3 CrashRestart4 CrashRestart5 CrashRestart6 CrashFault3.

(* the client of CrashRestart4.v (logged in as user 5, session KGen 1 with data
   {1: 2}) logs in as user 6, not exclusively; the process stops after n
   persistence calls. The step makes 5 of them: the save without user (LogOut),
   the save with user 6, a flush, the save of the new record, the save of the
   replaced-ID record. *)
Definition r1L (n : nat) : reqstep :=
  mkReqStep 1 PJar true (V4 1 2 3 4 5) 7 [SLogIn (6%N, 1%N) false] [] [] (Some n).

Lemma login_crash_ex n : hcrash wG (r1L n) n (KGen 1) 0 obG [SLogIn (6%N, 1%N) false].
Proof.
  apply mkHC; try (vm_compute; reflexivity).
  - rewrite wG_eq. apply LiveHist8.reach_sess_inv; repeat (constructor; try exact I; try reflexivity).
  - eexists. split; vm_compute; reflexivity.
  - intros d k' H. vm_compute in H. destruct H as [H|[]]. injection H as <- _. vm_compute. reflexivity.
Qed.

Definition outcomeL (n : nat) :=
  let w' := fst (step wG (HReq (r1L n))) in
  (LiveHist4.pres w' r2X, ob_res (snd (step w' (HReq r2X))),
   option_map (fun x => (dat (snd x), uid (snd x))) (ob_start (snd (step w' (HReq r2X))))).

Example restart_login_ex :
  map pcalls [[]; [EvSave (KGen 1) (mkRec 0 0 (AOther 0) 0 None None None) true]] = [0; 1]%nat /\
  length (evs (CrashRestart2.req_end wG (r1L 0))) = 6%nat /\
  map outcomeL [0; 1; 2; 3; 4; 5; 6]%nat =
  [(CKey (KGen 1), RSess, Some ([(1%N, 2%N)], Some 5%N));
   (CKey (KGen 1), RSess, Some ([(1%N, 2%N)], None));
   (CKey (KGen 1), RSess, Some ([(1%N, 2%N)], Some 6%N));
   (CKey (KGen 1), RSess, Some ([(1%N, 2%N)], Some 6%N));
   (CKey (KGen 1), RSess, Some ([(1%N, 2%N)], Some 6%N));
   (CKey (KGen 1), RSess, Some ([(1%N, 2%N)], Some 6%N));
   (CKey (KGen 1), RSess, Some ([(1%N, 2%N)], Some 6%N))].
Proof. vm_compute. repeat split. Qed.

(* the acceptability hypothesis of the theorems holds at every crash point *)
Example restart_login_probe_ex :
  Forall (fun n => forall rk, lookup (store (w_st (fst (step wG (HReq (r1L n)))))) (KGen 1) = Some rk ->
                   CrashRestart.probe_ok (conf (w_st wG)) (now (w_st wG)) (probe_q (KGen 1) r2X) rk)
         [0; 1; 2; 3; 4; 5; 6]%nat.
Proof.
  repeat (apply Forall_cons;
    [intros rk Hl; vm_compute in Hl; injection Hl as <-;
     split; [vm_compute; reflexivity | intros [H|H]; vm_compute in H; try discriminate H; vm_compute; reflexivity] |]).
  apply Forall_nil.
Qed.

(* the new ID after the last call *)
Definition r3L : reqstep := mkReqStep 9 (PForge (CKey (KGen 2))) false (V4 1 2 3 4 5) 7 [] [] [] None.
Example restart_login_new_ex :
  let w' := fst (step wG (HReq (r1L 6))) in
  supply (w_st wG) = 2%N /\ ob_res (snd (step w' (HReq r3L))) = RSess /\
  option_map (fun x => (fst x, dat (snd x), uid (snd x))) (ob_start (snd (step w' (HReq r3L)))) =
    Some (KGen 2, [(1%N, 2%N)], Some 6%N).
Proof. vm_compute. repeat split. Qed.

(* the same client sets a value, regenerates its ID, deletes a value; the
   process stops after n persistence calls (the step makes 5: the save of Set, the
   new record, a flush, the replaced-ID record, the save of Delete) *)
Definition r1S (n : nat) : reqstep :=
  mkReqStep 1 PJar true (V4 1 2 3 4 5) 7 [SSet 3 4; SRegen; SDel 1] [] [] (Some n).

Lemma script_crash_ex n : hcrash wG (r1S n) n (KGen 1) 0 obG ([SSet 3 4] ++ SRegen :: [SDel 1]).
Proof.
  apply mkHC; try (vm_compute; reflexivity).
  - rewrite wG_eq. apply LiveHist8.reach_sess_inv; repeat (constructor; try exact I; try reflexivity).
  - eexists. split; vm_compute; reflexivity.
  - intros d k' H. vm_compute in H. destruct H as [H|[]]. injection H as <- _. vm_compute. reflexivity.
Qed.

Definition outcomeS (n : nat) :=
  let w' := fst (step wG (HReq (r1S n))) in
  (ob_res (snd (step w' (HReq r2X))),
   option_map (fun x => (fst x, dat (snd x), uid (snd x))) (ob_start (snd (step w' (HReq r2X))))).

Example restart_script_ex :
  r_data (o_rec obG) = Some [(1%N, 2%N)] /\
  map (fun j => dafter [(1%N, 2%N)] (firstn j ([SSet 3 4] ++ [SDel 1]))) [0; 1; 2]%nat =
    [[(1%N, 2%N)]; [(1%N, 2%N); (3%N, 4%N)]; [(3%N, 4%N)]] /\
  map outcomeS [0; 1; 2; 3; 4; 5; 6]%nat =
  [(RSess, Some (KGen 1, [(1%N, 2%N)], Some 5%N));
   (RSess, Some (KGen 1, [(1%N, 2%N); (3%N, 4%N)], Some 5%N));
   (RSess, Some (KGen 1, [(1%N, 2%N); (3%N, 4%N)], Some 5%N));
   (RSess, Some (KGen 1, [(1%N, 2%N); (3%N, 4%N)], Some 5%N));
   (RSess, Some (KGen 2, [(1%N, 2%N); (3%N, 4%N)], Some 5%N));
   (RSess, Some (KGen 2, [(3%N, 4%N)], Some 5%N));
   (RSess, Some (KGen 2, [(3%N, 4%N)], Some 5%N))].
Proof. vm_compute. repeat split. Qed.

(* the same with GetAndDelete in place of Delete (it writes through: one save,
   like Delete), and a GetAndDelete of an absent key before the ID change (no
   persistence call): the same five calls, the same outcomes *)
Definition r1G (n : nat) : reqstep :=
  mkReqStep 1 PJar true (V4 1 2 3 4 5) 7 [SGetDel 9; SSet 3 4; SRegen; SGetDel 1] [] [] (Some n).

Lemma script_crash_ex_getdel n :
  hcrash wG (r1G n) n (KGen 1) 0 obG ([SGetDel 9; SSet 3 4] ++ SRegen :: [SGetDel 1]).
Proof.
  apply mkHC; try (vm_compute; reflexivity).
  - rewrite wG_eq. apply LiveHist8.reach_sess_inv; repeat (constructor; try exact I; try reflexivity).
  - eexists. split; vm_compute; reflexivity.
  - intros d k' H. vm_compute in H. destruct H as [H|[]]. injection H as <- _. vm_compute. reflexivity.
Qed.

Definition outcomeG (n : nat) :=
  let w' := fst (step wG (HReq (r1G n))) in
  (ob_res (snd (step w' (HReq r2X))),
   option_map (fun x => (fst x, dat (snd x), uid (snd x))) (ob_start (snd (step w' (HReq r2X))))).

Example restart_script_ex_getdel :
  forallb plainop [SGetDel 9; SSet 3 4] = true /\ forallb plainop [SGetDel 1] = true /\
  map (fun j => dafter [(1%N, 2%N)] (firstn j ([SGetDel 9; SSet 3 4] ++ [SGetDel 1]))) [0; 1; 2; 3]%nat =
    [[(1%N, 2%N)]; [(1%N, 2%N)]; [(1%N, 2%N); (3%N, 4%N)]; [(3%N, 4%N)]] /\
  map outcomeG [0; 1; 2; 3; 4; 5; 6]%nat = map outcomeS [0; 1; 2; 3; 4; 5; 6]%nat.
Proof. vm_compute. repeat split. Qed.

(* ------------------------------------------------------------------ C18L *)

Definition wC : world := Eval vm_compute in reach cB [HReq (rqB 1 PJar true [SSet 1 2])].
Lemma wC_eq : wC = reach cB [HReq (rqB 1 PJar true [SSet 1 2])].
Proof. vm_compute. reflexivity. Qed.
Lemma wC_LI : LI (w_st wC).
Proof. rewrite wC_eq. apply LI_reach; repeat (constructor; try exact I; try reflexivity). Qed.

(* the client's next request: six operations, the fifth destroys the session *)
Definition rC : reqstep :=
  rqB 1 PJar false [SSet 1 2; SRegen; SLogIn (7%N, 1%N) false; SGet 1; SDestroy; SSet 3 3].
(* a forged unknown value, createIfNew, then RegenerateID *)
Definition rC2 : reqstep := rqB 3 (PForge (CKey (KJunk 5))) true [SRegen].

Example all_cookies_ex :
  supply (w_st wC) = 1%N /\
  ob_res (snd (step wC (HReq rC))) = RSess /\
  option_map fst (ob_start (snd (step wC (HReq rC)))) = Some (KGen 0) /\
  ob_script (snd (step wC (HReq rC))) = [SOk; SOk; SOk; SVal (Some 2%N); SOk] /\
  ob_cookies (snd (step wC (HReq rC))) =
    [] ++ trace_cks (rq_script rC) [KGen 0; KGen 1; KGen 2; KGen 2; KGen 2] /\
  trace_cks (rq_script rC) [KGen 0; KGen 1; KGen 2; KGen 2; KGen 2] = [CkLive (KGen 1); CkLive (KGen 2); CkDelete] /\
  trace_ok 1 (KGen 0) (rq_script rC) [KGen 0; KGen 1; KGen 2; KGen 2; KGen 2] /\
  option_map fst (ob_final (snd (step wC (HReq rC)))) = Some (KGen 2) /\
  ob_drawn (snd (step wC (HReq rC))) = 3%N /\
  ob_res (snd (step wC (HReq rC2))) = RSess /\
  ob_cookies (snd (step wC (HReq rC2))) = [CkDelete; CkLive (KGen 1)] ++ trace_cks (rq_script rC2) [KGen 2] /\
  trace_ok 2 (KGen 1) (rq_script rC2) [KGen 2] /\
  option_map fst (ob_final (snd (step wC (HReq rC2)))) = Some (KGen 2).
Proof. vm_compute. repeat split; intro H; discriminate H. Qed.
