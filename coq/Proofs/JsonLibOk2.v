(* Laws of the concrete JSON library of Model/JsonLib.v, part 2: parsing
   what the printer wrote for a tree yields exactly `reparse u8_coerce` of
   the tree - the function Model/Codec.v uses for "a Go value through
   json.Marshal and json.Unmarshal into interface{}" - and Marshal fails
   exactly when reparse does (NaN, infinities). Audit task A8. *)
From Sessions Require Import Model.Base Model.Codec Model.JsonLib Proofs.BaseLemmas Proofs.CodecText
  Proofs.CodecLaws4 Proofs.JsonLibOk.
From Coq Require Import Lia ZifyBool ZifyN ZifyNat.
Local Open Scope N_scope.

(* ---------------------------------------------- reparse as a total function *)

Fixpoint rp (d : dval) : dval :=
  match d with
  | DInt z => DFloat (f64_of_Z z)
  | DStr s => DStr (u8_coerce s)
  | DList l => DList (map rp l)
  | DMap m => DMap (map (fun kv => (u8_coerce (fst kv), rp (snd kv))) m)
  | _ => d
  end.

Definition rp_map (m : list (bytes * dval)) : list (bytes * dval) :=
  map (fun kv => (u8_coerce (fst kv), rp (snd kv))) m.

Fixpoint reparse_list (l : list dval) : option (list dval) :=
  match l with
  | [] => Some []
  | x :: t => match reparse u8_coerce x, reparse_list t with
              | Some x', Some t' => Some (x' :: t')
              | _, _ => None
              end
  end.

Lemma reparse_DList' (l : list dval) :
  reparse u8_coerce (DList l) =
  match reparse_list l with Some l' => Some (DList l') | None => None end.
Proof.
  cbn [reparse].
  match goal with |- match ?f l with _ => _ end = _ => assert (E : f l = reparse_list l) end.
  { induction l as [|x t IH]; [reflexivity|]. cbn [reparse_list]. rewrite <- IH. reflexivity. }
  rewrite E. reflexivity.
Qed.

Lemma jok_DList (l : list dval) : jok (DList l) = forallb jok l.
Proof. cbn [jok]. induction l as [|x t IH]; [reflexivity|]. cbn [forallb]. rewrite <- IH. reflexivity. Qed.

Lemma jok_DMap (m : list (bytes * dval)) : jok (DMap m) = forallb (fun kv => jok (snd kv)) m.
Proof. cbn [jok]. induction m as [|x t IH]; [reflexivity|]. cbn [forallb]. rewrite <- IH. reflexivity. Qed.

Lemma num_wf_DList (l : list dval) : num_wf (DList l) = forallb num_wf l.
Proof. cbn [num_wf]. induction l as [|x t IH]; [reflexivity|]. cbn [forallb]. rewrite <- IH. reflexivity. Qed.

Lemma num_wf_DMap (m : list (bytes * dval)) : num_wf (DMap m) = forallb (fun kv => num_wf (snd kv)) m.
Proof. cbn [num_wf]. induction m as [|x t IH]; [reflexivity|]. cbn [forallb]. rewrite <- IH. reflexivity. Qed.

(* reparse, decided by jok *)
Lemma reparse_rp (d : dval) : reparse u8_coerce d = if jok d then Some (rp d) else None.
Proof.
  revert d. apply (dval_ind' (fun d => reparse u8_coerce d = if jok d then Some (rp d) else None));
    try reflexivity.
  - intros l IH. rewrite reparse_DList', jok_DList. cbn [rp].
    assert (E : reparse_list l = if forallb jok l then Some (map rp l) else None).
    { induction IH as [|x t Hx Ht IHt]; [reflexivity|].
      cbn [reparse_list forallb map]. rewrite Hx, IHt.
      destruct (jok x); [|reflexivity]. destruct (forallb jok t); reflexivity. }
    rewrite E. destruct (forallb jok l); reflexivity.
  - intros m IH. rewrite reparse_DMap, jok_DMap. cbn [rp].
    assert (E : reparse_map u8_coerce m =
                if forallb (fun kv => jok (snd kv)) m then Some (rp_map m) else None).
    { induction IH as [|[k x] t Hx Ht IHt]; [reflexivity|].
      cbn [reparse_map forallb rp_map map fst snd]. cbn [snd] in Hx. rewrite Hx, IHt.
      destruct (jok x); [|reflexivity]. cbn [andb].
      destruct (forallb (fun kv => jok (snd kv)) t); reflexivity. }
    rewrite E. destruct (forallb (fun kv => jok (snd kv)) m); reflexivity.
Qed.

Lemma reparse_map_rp (m : list (bytes * dval)) :
  reparse_map u8_coerce m = if jok (DMap m) then Some (rp_map m) else None.
Proof.
  assert (H := reparse_rp (DMap m)). rewrite reparse_DMap in H. cbn [rp] in H. fold (rp_map m) in H.
  destruct (reparse_map u8_coerce m) as [m'|]; destruct (jok (DMap m)); congruence.
Qed.

(* ------------------------------------------------------ the printer, unfolded *)

Fixpoint ptl (l : list dval) : bytes :=
  match l with
  | [] => [93]
  | y :: u => 44 :: jprint y ++ ptl u
  end.

Fixpoint pmtl (m : list (bytes * dval)) : bytes :=
  match m with
  | [] => [125]
  | kw :: u => 44 :: jquote (u8_coerce (fst kw)) ++ 58 :: jprint (snd kw) ++ pmtl u
  end.

Lemma ptl_fix (t : list dval) :
  (fix tl (l : list dval) : bytes :=
     match l with
     | [] => [93]
     | y :: u => 44 :: jprint y ++ tl u
     end) t = ptl t.
Proof. induction t as [|y u IH]; [reflexivity|]. cbn [ptl]. rewrite <- IH. reflexivity. Qed.

Lemma pmtl_fix (t : list (bytes * dval)) :
  (fix tl (m : list (bytes * dval)) : bytes :=
     match m with
     | [] => [125]
     | kw :: u => 44 :: jquote (u8_coerce (fst kw)) ++ 58 :: jprint (snd kw) ++ tl u
     end) t = pmtl t.
Proof. induction t as [|y u IH]; [reflexivity|]. cbn [pmtl]. rewrite <- IH. reflexivity. Qed.

Lemma jprint_DList (l : list dval) :
  jprint (DList l) = 91 :: match l with [] => [93] | x :: t => jprint x ++ ptl t end.
Proof. destruct l as [|x t]; [reflexivity|]. rewrite <- ptl_fix. reflexivity. Qed.

Lemma jprint_DMap (m : list (bytes * dval)) :
  jprint (DMap m) =
  123 :: match m with
         | [] => [125]
         | kv :: t => jquote (u8_coerce (fst kv)) ++ 58 :: jprint (snd kv) ++ pmtl t
         end.
Proof. destruct m as [|kv t]; [reflexivity|]. rewrite <- pmtl_fix. reflexivity. Qed.

Lemma ptl_term (l : list dval) (rest : bytes) : term_ok (ptl l ++ rest) = true.
Proof. destruct l; reflexivity. Qed.

Lemma pmtl_term (m : list (bytes * dval)) (rest : bytes) : term_ok (pmtl m ++ rest) = true.
Proof. destruct m; reflexivity. Qed.

Lemma ptl_len (l : list dval) : (1 <= length (ptl l))%nat.
Proof. destruct l; cbn [ptl length]; lia. Qed.

Lemma pmtl_len (m : list (bytes * dval)) : (1 <= length (pmtl m))%nat.
Proof. destruct m; cbn [pmtl length]; lia. Qed.

(* ------------------------------------------------------------- parser steps *)

Lemma pval_S f s : pval (S f) s = pval_body (pval f) (ptail f) (pmtail f) s.
Proof. reflexivity. Qed.
Lemma ptail_S f s acc : ptail (S f) s acc = ptail_body (pval f) (ptail f) s acc.
Proof. reflexivity. Qed.
Lemma pmtail_S f s acc : pmtail (S f) s acc = pmtail_body (pval f) (pmtail f) s acc.
Proof. reflexivity. Qed.

(* a closing bracket or brace is not a value *)
Lemma pval_close (f : nat) (c : N) (r : bytes) : c = 93 \/ c = 125 -> pval f (c :: r) = None.
Proof. intros [-> | ->]; destruct f; reflexivity. Qed.

Lemma read_key_close (r : bytes) : read_key (125 :: r) = None.
Proof. reflexivity. Qed.

(* a number literal at the head *)
Lemma pval_body_num pv pt pm (c : N) (r : bytes) :
  c = 45 \/ 48 <= c <= 57 ->
  pval_body pv pt pm (c :: r) =
  match read_number (c :: r) with Some (b, r') => Some (DFloat b, r') | None => None end.
Proof.
  intro H. unfold pval_body.
  replace (c =? 110) with false by lia. replace (c =? 116) with false by lia.
  replace (c =? 102) with false by lia. replace (c =? 34) with false by lia.
  replace (c =? 91) with false by lia. replace (c =? 123) with false by lia. reflexivity.
Qed.

(* --------------------------------------------------------- the main lemma *)

Definition parses (d : dval) : Prop :=
  num_wf d = true -> jok d = true ->
  forall fuel rest, (length (jprint d) < fuel)%nat -> term_ok rest = true ->
    pval fuel (jprint d ++ rest) = Some (rp d, rest).

Lemma ptail_ok (l : list dval) :
  Forall parses l -> forallb num_wf l = true -> forallb jok l = true ->
  forall fuel rest acc, (length (ptl l) < fuel)%nat -> term_ok rest = true ->
    ptail fuel (ptl l ++ rest) acc = Some (DList (rev acc ++ map rp l), rest).
Proof.
  intro HF. induction HF as [|x t Hx Ht IH]; intros Hwf Hok fuel rest acc Hlen Hrest.
  - destruct fuel as [|f]; [cbn in Hlen; lia|]. cbn [ptl app map]. rewrite app_nil_r. reflexivity.
  - cbn [forallb] in Hwf, Hok. apply andb_true_iff in Hwf as [Hwx Hwt]. apply andb_true_iff in Hok as [Hox Hot].
    destruct fuel as [|f]; [cbn in Hlen; lia|].
    cbn [ptl length] in Hlen. rewrite app_length in Hlen. assert (Hl := ptl_len t).
    cbn [ptl app]. rewrite <- app_assoc. rewrite ptail_S. unfold ptail_body.
    change (44 =? 93) with false. change (44 =? 44) with true. cbv iota.
    rewrite (Hx Hwx Hox f (ptl t ++ rest)) by (first [lia | apply ptl_term]).
    rewrite (IH Hwt Hot f rest (rp x :: acc)) by (first [lia | exact Hrest]).
    cbn [rev map]. rewrite <- app_assoc. reflexivity.
Qed.

Lemma pmtail_ok (m : list (bytes * dval)) :
  Forall (fun kv => parses (snd kv)) m ->
  forallb (fun kv => num_wf (snd kv)) m = true -> forallb (fun kv => jok (snd kv)) m = true ->
  forall fuel rest acc, (length (pmtl m) < fuel)%nat -> term_ok rest = true ->
    pmtail fuel (pmtl m ++ rest) acc = Some (DMap (rev acc ++ rp_map m), rest).
Proof.
  intro HF. induction HF as [|[k x] t Hx Ht IH]; intros Hwf Hok fuel rest acc Hlen Hrest.
  - destruct fuel as [|f]; [cbn in Hlen; lia|]. cbn [pmtl app rp_map map]. rewrite app_nil_r. reflexivity.
  - cbn [forallb snd] in Hwf, Hok. cbn [snd] in Hx.
    apply andb_true_iff in Hwf as [Hwx Hwt]. apply andb_true_iff in Hok as [Hox Hot].
    destruct fuel as [|f]; [cbn in Hlen; lia|].
    cbn [pmtl length fst snd] in Hlen. rewrite app_length in Hlen. cbn [length] in Hlen.
    rewrite app_length in Hlen. assert (Hl := pmtl_len t).
    cbn [pmtl app fst snd]. rewrite <- app_assoc. cbn [app]. rewrite <- app_assoc.
    rewrite pmtail_S. unfold pmtail_body.
    change (44 =? 125) with false. change (44 =? 44) with true. cbv iota.
    rewrite read_key_quote.
    rewrite (Hx Hwx Hox f (pmtl t ++ rest)) by (first [lia | apply pmtl_term]).
    rewrite (IH Hwt Hot f rest ((u8_coerce k, rp x) :: acc)) by (first [lia | exact Hrest]).
    cbn [rev rp_map map fst snd]. rewrite <- app_assoc. reflexivity.
Qed.

Lemma parses_all (d : dval) : parses d.
Proof.
  revert d. apply (dval_ind' parses); [| intro b | intro z | intro b | intro s | intros l IH | intros m IH];
    unfold parses; intros Hwf Hok fuel rest Hlen Hrest; (destruct fuel as [|f]; [lia|]).
  - reflexivity.
  - destruct b; reflexivity.
  - cbn [jprint rp]. cbn [num_wf] in Hwf.
    assert (Hzb : (- 2 ^ 63 <= z <= 2 ^ 63)%Z).
    { change (2 ^ 63)%Z with 9223372036854775808%Z in *. lia. }
    destruct (print_int_head z) as [c [r [Hp Hc]]].
    rewrite pval_S. rewrite Hp at 1. cbn [app]. rewrite pval_body_num by exact Hc.
    change (c :: r ++ rest) with ((c :: r) ++ rest). rewrite <- Hp.
    rewrite read_number_int by (first [exact Hzb | exact Hrest]). reflexivity.
  - cbn [jprint rp]. cbn [num_wf jok] in Hwf, Hok. destruct (f64_print_head b) as [c [r [Hp Hc]]].
    rewrite pval_S. rewrite Hp at 1. cbn [app]. rewrite pval_body_num by exact Hc.
    change (c :: r ++ rest) with ((c :: r) ++ rest). rewrite <- Hp.
    rewrite read_number_float by (first [lia | assumption]). reflexivity.
  - cbn [jprint rp]. destruct (read_str_quote (u8_coerce s) rest) as [body [Hq Hr]].
    rewrite Hq, pval_S. unfold pval_body.
    change (34 =? 110) with false. change (34 =? 116) with false. change (34 =? 102) with false.
    change (34 =? 34) with true. cbv iota. rewrite Hr. reflexivity.
  - rewrite num_wf_DList in Hwf. rewrite jok_DList in Hok. rewrite jprint_DList in *. cbn [rp].
    rewrite pval_S. destruct l as [|x t].
    + cbn [app]. unfold pval_body.
      change (91 =? 110) with false. change (91 =? 116) with false. change (91 =? 102) with false.
      change (91 =? 34) with false. change (91 =? 91) with true. cbv iota.
      rewrite pval_close by (left; reflexivity). reflexivity.
    + inversion IH as [|? ? Hx Ht]; subst.
      cbn [forallb] in Hwf, Hok. apply andb_true_iff in Hwf as [Hwx Hwt]. apply andb_true_iff in Hok as [Hox Hot].
      cbn [length] in Hlen. rewrite app_length in Hlen. assert (Hl := ptl_len t).
      cbn [app]. rewrite <- app_assoc. unfold pval_body.
      change (91 =? 110) with false. change (91 =? 116) with false. change (91 =? 102) with false.
      change (91 =? 34) with false. change (91 =? 91) with true. cbv iota.
      rewrite (Hx Hwx Hox f (ptl t ++ rest)) by (first [lia | apply ptl_term]).
      rewrite (ptail_ok t Ht Hwt Hot f rest [rp x]) by (first [lia | exact Hrest]).
      reflexivity.
  - rewrite num_wf_DMap in Hwf. rewrite jok_DMap in Hok. rewrite jprint_DMap in *. cbn [rp].
    rewrite pval_S. destruct m as [|[k x] t].
    + cbn [app]. unfold pval_body.
      change (123 =? 110) with false. change (123 =? 116) with false. change (123 =? 102) with false.
      change (123 =? 34) with false. change (123 =? 91) with false. change (123 =? 123) with true. cbv iota.
      rewrite read_key_close. reflexivity.
    + inversion IH as [|? ? Hx Ht]; subst. cbn [snd] in Hx.
      cbn [forallb snd] in Hwf, Hok. apply andb_true_iff in Hwf as [Hwx Hwt]. apply andb_true_iff in Hok as [Hox Hot].
      cbn [length fst snd] in Hlen. rewrite app_length in Hlen. cbn [length] in Hlen.
      rewrite app_length in Hlen. assert (Hl := pmtl_len t).
      cbn [app fst snd]. rewrite <- app_assoc. cbn [app]. rewrite <- app_assoc. unfold pval_body.
      change (123 =? 110) with false. change (123 =? 116) with false. change (123 =? 102) with false.
      change (123 =? 34) with false. change (123 =? 91) with false. change (123 =? 123) with true. cbv iota.
      rewrite read_key_quote.
      rewrite (Hx Hwx Hox f (pmtl t ++ rest)) by (first [lia | apply pmtl_term]).
      rewrite (pmtail_ok t Ht Hwt Hot f rest [(u8_coerce k, rp x)]) by (first [lia | exact Hrest]).
      reflexivity.
Qed.

(* json.Unmarshal after json.Marshal is reparse *)
Theorem jparse_jmarshal (d : dval) :
  num_wf d = true ->
  match jmarshal d with
  | Some b => jparse b
  | None => None
  end = reparse u8_coerce d.
Proof.
  intro Hwf. rewrite reparse_rp. unfold jmarshal. destruct (jok d) eqn:Hok; [|reflexivity].
  unfold jparse.
  assert (H := parses_all d Hwf Hok (S (length (jprint d))) [] (Nat.lt_succ_diag_r _) eq_refl).
  rewrite app_nil_r in H. rewrite H. reflexivity.
Qed.

Lemma jmarshal_none (d : dval) : jmarshal d = None <-> reparse u8_coerce d = None.
Proof. rewrite reparse_rp. unfold jmarshal. destruct (jok d); split; congruence. Qed.

Example jparse_examples :
  let d := DMap [([107], DStr [118; 255; 10; 34]); ([110], DInt (-7));
                 ([120], DList [DFloat 4591870180066957722; DNull; DBool true; DList []; DMap [];
                                DFloat (2 ^ 63); DFloat 1; DFloat 18442240474082181119])] in
  firstn 32 (match jmarshal d with Some b => b | None => [] end) =
    [123;34;107;34;58;34;118;239;191;189;92;117;48;48;48;97;92;34;34;44;34;110;34;58;45;55;44;34;120;34;58;91] /\
  match jmarshal d with Some b => jparse b | None => None end = reparse u8_coerce d /\
  reparse u8_coerce d <> None /\
  jmarshal (DList [DFloat 9218868437227405312]) = None /\                       (* +Inf *)
  jparse [91; 49; 44; 93] = None /\ jparse [91; 49; 93; 32] = None /\ jparse [123; 34; 97; 34; 125] = None /\
  jparse [91; 49; 46; 53; 44; 34; 92; 117; 48; 48; 101; 57; 34; 44; 123; 34; 97; 34; 58; 110; 117; 108; 108; 125; 93] =
    Some (DList [DFloat 4609434218613702656; DStr [195; 169]; DMap [([97], DNull)]]).
Proof.
  cbv zeta. repeat match goal with |- _ /\ _ => split end;
    first [vm_compute; reflexivity | vm_compute; discriminate].
Qed.
