(* C19, part 3: CUID never returns the same value twice, for every sequence of
   calls in which a millisecond, once left, does not come back, and no
   millisecond is used more than 2^24 times. What happens otherwise. *)
From Sessions Require Import Model.Base Model.Ids Gen.Consts Proofs.BaseLemmas
  Proofs.IdsLaws Proofs.IdsLaws2.
From Coq Require Import Lia ZifyBool ZifyNat ZifyN.
Local Open Scope N_scope.

(* ------------------------------------------------------------------------ *)
(* hypotheses on the sequence of (masked) timestamps                         *)

(* Each element is followed by an equal one or never occurs again: the calls
   of one millisecond are consecutive. (The counter is reset whenever the
   timestamp differs from the previous one, also when it is smaller.) *)
Fixpoint contiguous (l : list N) : Prop :=
  match l with
  | [] => True
  | t :: r => match r with [] => True | u :: _ => u = t \/ ~ In t r end /\ contiguous r
  end.

Fixpoint nondecreasing (l : list N) : Prop :=
  match l with
  | [] => True
  | t :: r => (forall u, In u r -> t <= u) /\ nondecreasing r
  end.

Definition occurrences (l : list N) (t : N) : N := N.of_nat (count_occ N.eq_dec l t).

(* "fewer than 2^24 repeats": at most 2^24 calls in any one millisecond *)
Definition bounded_repeats (l : list N) : Prop := forall t, occurrences l t <= p24.

Lemma nondecreasing_contiguous (l : list N) : nondecreasing l -> contiguous l.
Proof.
  induction l as [|t r IH]; [exact (fun _ => I)|].
  intros [Hle Hr]. split; [|apply IH, Hr].
  destruct r as [|u r']; [exact I|].
  destruct (N.eq_dec u t) as [E|NE]; [left; exact E|right].
  destruct Hr as [Hu _]. intros [E|Hin].
  - congruence.
  - assert (t <= u) by (apply Hle; left; reflexivity).
    assert (u <= t) by (apply Hu, Hin). lia.
Qed.

Lemma occurrences_cons (t u : N) (r : list N) :
  occurrences (t :: r) u = (if N.eq_dec t u then 1 else 0) + occurrences r u.
Proof.
  unfold occurrences. cbn [count_occ]. destruct (N.eq_dec t u); lia.
Qed.

Lemma bounded_repeats_tail (t : N) (r : list N) : bounded_repeats (t :: r) -> bounded_repeats r.
Proof.
  intros H u. specialize (H u). rewrite occurrences_cons in H. destruct (N.eq_dec t u); lia.
Qed.

(* ------------------------------------------------------------------------ *)
(* the counters of a run                                                     *)

Fixpoint counters (st : cuid_state) (tss : list N) : list (N * N) :=
  match tss with
  | [] => []
  | ts :: r =>
    let c := next_counter st ts in
    (ts, c) :: counters {| cs_last_time := ts; cs_last_counter := c |} r
  end.

Definition ts_of (t : Z * N) : N := cuid_timestamp (fst t) (snd t).
Definition word_string (mac : bytes) (p : N * N) : bytes := cuid_string (cuid_bits mac (fst p) (snd p)).

Lemma cuid_run_counters (mac : bytes) (st : cuid_state) (times : list (Z * N)) :
  cuid_run mac st times = map (word_string mac) (counters st (map ts_of times)).
Proof.
  revert st. induction times as [|[sec nsec] r IH]; intro st; [reflexivity|].
  cbn [cuid_run map counters]. rewrite cuid_step_eq, IH. reflexivity.
Qed.

Lemma counters_fst (st : cuid_state) (tss : list N) : map fst (counters st tss) = tss.
Proof.
  revert st. induction tss as [|t r IH]; intro st; [reflexivity|].
  cbn [counters map fst]. rewrite IH. reflexivity.
Qed.

(* Later calls with the timestamp of the current state have the counters
   c+1, c+2, ... (mod 2^64), as many as that timestamp still occurs. *)
Lemma counters_same_ts (r : list N) (t c d : N) :
  contiguous (t :: r) ->
  In (t, d) (counters {| cs_last_time := t; cs_last_counter := c |} r) ->
  exists j, 1 <= j /\ j <= occurrences r t /\ d = (c + j) mod pow64.
Proof.
  revert c. induction r as [|u r IH]; intros c Hc Hin; [destruct Hin|].
  destruct Hc as [Hhead Hc]. destruct Hhead as [E|Hnot].
  - subst u. cbn [counters] in Hin. unfold next_counter in Hin. cbn [cs_last_time cs_last_counter] in Hin.
    rewrite N.eqb_refl in Hin. rewrite occurrences_cons.
    destruct (N.eq_dec t t) as [_|NE]; [|congruence].
    destruct Hin as [E|Hin].
    + injection E as <-. exists 1. unfold u64. repeat split; lia.
    + destruct (IH _ Hc Hin) as (j & Hj1 & Hj2 & ->).
      exists (j + 1). unfold u64, pow64. repeat split; lia.
  - exfalso. apply Hnot.
    rewrite <- (counters_fst {| cs_last_time := t; cs_last_counter := c |} (u :: r)).
    apply in_map_iff. exists (t, d). split; [reflexivity|exact Hin].
Qed.

(* the key under which two calls collide *)
Definition key (p : N * N) : N * N := (fst p, snd p mod p24).

Lemma counters_keys_nodup (st : cuid_state) (tss : list N) :
  contiguous tss -> bounded_repeats tss -> NoDup (map key (counters st tss)).
Proof.
  revert st. induction tss as [|t r IH]; intros st Hc Hb; [constructor|].
  cbn [counters map]. set (c := next_counter st t). clearbody c. constructor.
  - intro Hin. apply in_map_iff in Hin as ([t' d] & Hk & Hin).
    unfold key in Hk. cbn [fst snd] in Hk. injection Hk as -> Hmod.
    destruct (counters_same_ts r t c d Hc Hin) as (j & Hj1 & Hj2 & ->).
    specialize (Hb t). rewrite occurrences_cons in Hb.
    destruct (N.eq_dec t t) as [_|NE]; [|congruence].
    unfold p24, pow64 in *. lia.
  - apply IH; [apply Hc | eapply bounded_repeats_tail, Hb].
Qed.

Lemma nodup_map_key {A B C} (f : A -> B) (k : A -> C) (l : list A) :
  (forall x y, In x l -> In y l -> f x = f y -> k x = k y) ->
  NoDup (map k l) -> NoDup (map f l).
Proof.
  induction l as [|x l IH]; intros Hinj Hnd; [constructor|].
  cbn [map] in *. inversion Hnd as [|? ? Hnot Hnd']; subst. constructor.
  - intro Hin. apply in_map_iff in Hin as (y & Hy & Hin). apply Hnot.
    apply in_map_iff. exists y. split; [|exact Hin].
    apply Hinj; [right; exact Hin | left; reflexivity | exact Hy].
  - apply IH; [|exact Hnd']. intros a b Ha Hb. apply Hinj; right; assumption.
Qed.

(* ------------------------------------------------------------------------ *)
(* uniqueness                                                                *)

(* For every MAC address, every generator state, and every sequence of calls
   in which the calls of one masked millisecond are consecutive and at most
   2^24 in number, all results are distinct. *)
Theorem cuid_unique_contiguous (mac : bytes) (st : cuid_state) (times : list (Z * N)) :
  contiguous (map ts_of times) -> bounded_repeats (map ts_of times) ->
  NoDup (cuid_run mac st times).
Proof.
  intros Hc Hb. rewrite cuid_run_counters.
  apply nodup_map_key with (k := key); [|apply counters_keys_nodup; assumption].
  intros [t1 c1] [t2 c2] H1 H2 E. unfold word_string in E. cbn [fst snd] in E.
  assert (B : forall t c, In (t, c) (counters st (map ts_of times)) -> t < p40).
  { intros t c Hin.
    assert (Ht : In t (map ts_of times)).
    { rewrite <- (counters_fst st). apply in_map_iff. exists (t, c). auto. }
    apply in_map_iff in Ht as ([sec nsec] & <- & _). apply cuid_timestamp_lt. }
  destruct (cuid_word_injective mac t1 t2 c1 c2 (B _ _ H1) (B _ _ H2) E) as [-> Hm].
  unfold key. cbn [fst snd]. rewrite Hm. reflexivity.
Qed.

(* The form named in the property: masked timestamps never decrease. *)
Theorem cuid_unique (mac : bytes) (st : cuid_state) (times : list (Z * N)) :
  nondecreasing (map ts_of times) -> bounded_repeats (map ts_of times) ->
  NoDup (cuid_run mac st times).
Proof.
  intros Hn Hb. apply cuid_unique_contiguous; [apply nondecreasing_contiguous, Hn | exact Hb].
Qed.

(* ------------------------------------------------------------------------ *)
(* the same in wall-clock terms                                              *)

Definition ms_of (t : Z * N) : Z := wall_ms (fst t) (snd t).
Definition epoch_of (t : Z * N) : Z := (ms_of t / 1099511627776)%Z.
Definition nsec_ok (t : Z * N) : Prop := snd t < 1000000000.

Fixpoint znondecreasing (l : list Z) : Prop :=
  match l with
  | [] => True
  | t :: r => (forall u, In u r -> (t <= u)%Z) /\ znondecreasing r
  end.

Definition zoccurrences (l : list Z) (m : Z) : N := N.of_nat (count_occ Z.eq_dec l m).

Lemma ts_of_ms (t : Z * N) : nsec_ok t -> Z.of_N (ts_of t) = (ms_of t mod 1099511627776)%Z.
Proof. destruct t as [sec nsec]. apply cuid_timestamp_spec. Qed.

(* within one epoch, masked timestamps compare as the wall-clock milliseconds *)
Lemma ts_of_le (a b : Z * N) :
  nsec_ok a -> nsec_ok b -> epoch_of a = epoch_of b ->
  (ms_of a <= ms_of b)%Z -> ts_of a <= ts_of b.
Proof.
  intros Na Nb He Hle. pose proof (ts_of_ms a Na) as Sa. pose proof (ts_of_ms b Nb) as Sb.
  unfold epoch_of in He. set (x := ms_of a) in *. set (y := ms_of b) in *. clearbody x y. lia.
Qed.

Lemma ts_of_eq_iff (a b : Z * N) :
  nsec_ok a -> nsec_ok b -> epoch_of a = epoch_of b ->
  (ts_of a = ts_of b <-> ms_of a = ms_of b).
Proof.
  intros Na Nb He. pose proof (ts_of_ms a Na) as Sa. pose proof (ts_of_ms b Nb) as Sb.
  unfold epoch_of in He. set (x := ms_of a) in *. set (y := ms_of b) in *. clearbody x y.
  split; intro H; lia.
Qed.

Lemma wall_nondecreasing (times : list (Z * N)) :
  (forall t, In t times -> nsec_ok t) ->
  (forall a b, In a times -> In b times -> epoch_of a = epoch_of b) ->
  znondecreasing (map ms_of times) -> nondecreasing (map ts_of times).
Proof.
  induction times as [|a r IH]; intros Hns Hep H; [exact I|].
  destruct H as [Hle Hr]. split.
  - intros u Hu. apply in_map_iff in Hu as (b & <- & Hb).
    apply ts_of_le; [apply Hns; left; reflexivity | apply Hns; right; exact Hb
                    | apply Hep; [left; reflexivity | right; exact Hb] |].
    apply Hle. apply in_map_iff. exists b. auto.
  - apply IH; [| |exact Hr].
    + intros t Ht. apply Hns. right. exact Ht.
    + intros x y Hx Hy. apply Hep; right; assumption.
Qed.

Lemma wall_occurrences (times : list (Z * N)) (a : Z * N) :
  (forall t, In t times -> nsec_ok t) ->
  (forall a b, In a times -> In b times -> epoch_of a = epoch_of b) ->
  In a times -> occurrences (map ts_of times) (ts_of a) = zoccurrences (map ms_of times) (ms_of a).
Proof.
  intros Hns Hep Ha. unfold occurrences, zoccurrences. f_equal.
  assert (G : forall l, (forall t, In t l -> In t times) ->
              count_occ N.eq_dec (map ts_of l) (ts_of a) = count_occ Z.eq_dec (map ms_of l) (ms_of a)).
  { induction l as [|b l IHl]; intro Hsub; [reflexivity|].
    cbn [map count_occ].
    assert (Hb : In b times) by (apply Hsub; left; reflexivity).
    pose proof (ts_of_eq_iff b a (Hns b Hb) (Hns a Ha) (Hep b a Hb Ha)) as Hiff.
    rewrite IHl by (intros t Ht; apply Hsub; right; exact Ht).
    destruct (N.eq_dec (ts_of b) (ts_of a)) as [E|NE], (Z.eq_dec (ms_of b) (ms_of a)) as [E'|NE'];
      try reflexivity; exfalso; tauto. }
  apply G. auto.
Qed.

Lemma wall_bounded (times : list (Z * N)) :
  (forall t, In t times -> nsec_ok t) ->
  (forall a b, In a times -> In b times -> epoch_of a = epoch_of b) ->
  (forall m, zoccurrences (map ms_of times) m <= p24) -> bounded_repeats (map ts_of times).
Proof.
  intros Hns Hep H t. destruct (in_dec N.eq_dec t (map ts_of times)) as [Hin|Hnot].
  - apply in_map_iff in Hin as (a & <- & Ha). rewrite (wall_occurrences times a Hns Hep Ha). apply H.
  - unfold occurrences. rewrite (proj1 (count_occ_not_In N.eq_dec _ _) Hnot). unfold p24. lia.
Qed.

(* While the wall clock does not step backwards, stays within one 2^40 ms
   epoch, and no millisecond sees more than 2^24 calls, all CUIDs of a process
   are distinct. *)
Theorem cuid_unique_wallclock (mac : bytes) (st : cuid_state) (times : list (Z * N)) :
  (forall t, In t times -> nsec_ok t) ->
  (forall a b, In a times -> In b times -> epoch_of a = epoch_of b) ->
  znondecreasing (map ms_of times) ->
  (forall m, zoccurrences (map ms_of times) m <= p24) ->
  NoDup (cuid_run mac st times).
Proof.
  intros Hns Hep Hnd Hocc. apply cuid_unique.
  - apply wall_nondecreasing; assumption.
  - apply wall_bounded; assumption.
Qed.

(* ------------------------------------------------------------------------ *)
(* outside those hypotheses                                                  *)

(* The clock steps back to a millisecond that was already used (10:00:00.000,
   .001, .000 on 2020-01-01): the first and third results are equal. Every
   millisecond is used at most twice, so only contiguity fails. *)
Lemma cuid_clock_back_refuted :
  exists mac st times,
    bounded_repeats (map ts_of times) /\ ~ contiguous (map ts_of times) /\
    ~ NoDup (cuid_run mac st times).
Proof.
  exists [2; 4; 6; 8; 10; 12], {| cs_last_time := 0; cs_last_counter := 0 |},
         [(1577872800%Z, 0); (1577872800%Z, 1000000); (1577872800%Z, 0)].
  assert (T : map ts_of [(1577872800%Z, 0); (1577872800%Z, 1000000); (1577872800%Z, 0)]
              = [94644000000; 94644000001; 94644000000]) by (vm_compute; reflexivity).
  rewrite T. repeat split.
  - intro t. unfold occurrences, p24. cbn [count_occ].
    repeat match goal with |- context [N.eq_dec ?a ?b] => destruct (N.eq_dec a b) end; lia.
  - cbn [contiguous In]. intros [[E|Hn] _]; [discriminate|]. apply Hn. right. left. reflexivity.
  - assert (R : exists a b, cuid_run [2; 4; 6; 8; 10; 12] {| cs_last_time := 0; cs_last_counter := 0 |}
                  [(1577872800%Z, 0); (1577872800%Z, 1000000); (1577872800%Z, 0)] = [a; b; a])
      by (vm_compute; eauto).
    destruct R as (a & b & ->). intro Hnd. inversion Hnd as [|? ? Hnot _]; subst.
    apply Hnot. right. left. reflexivity.
Qed.

(* More than 2^24 calls in one millisecond: call number 2^24 + 1 repeats the
   first (stated on states, since 2^24 steps are not evaluated here). *)
Lemma cuid_burst_refuted (mac : bytes) (t : N) (c : N) (sec : Z) (nsec : N) :
  cuid_timestamp sec nsec = t -> c + p24 + 1 < pow64 ->
  snd (cuid_step mac {| cs_last_time := t; cs_last_counter := c |} sec nsec) =
  snd (cuid_step mac {| cs_last_time := t; cs_last_counter := c + p24 |} sec nsec).
Proof.
  intros Ht Hc. rewrite !cuid_step_eq. cbn [snd]. rewrite Ht.
  unfold next_counter. cbn [cs_last_time cs_last_counter]. rewrite N.eqb_refl.
  unfold u64. rewrite !N.mod_small by (unfold pow64, p24 in *; lia).
  replace (c + p24 + 1) with (c + 1 + p24) by lia.
  rewrite cuid_bits_period; [reflexivity|]. subst t. apply cuid_timestamp_lt.
Qed.

(* ------------------------------------------------------------------------ *)
(* non-vacuity: three calls in one millisecond, then one in the next, then a
   jump back to a millisecond not used before (allowed by contiguity) *)
Example cuid_unique_example :
  let times := [(1577872800%Z, 5); (1577872800%Z, 6); (1577872800%Z, 999999);
                (1577872800%Z, 1000000); (1577872700%Z, 0)] in
  map ts_of times = [94644000000; 94644000000; 94644000000; 94644000001; 94643900000] /\
  contiguous (map ts_of times) /\ bounded_repeats (map ts_of times) /\
  nondecreasing (map ts_of (firstn 4 times)) /\
  length (cuid_run [2; 4; 6; 8; 10; 12] {| cs_last_time := 0; cs_last_counter := 0 |} times) = 5%nat.
Proof.
  cbv zeta.
  assert (T : map ts_of [(1577872800%Z, 5); (1577872800%Z, 6); (1577872800%Z, 999999);
                         (1577872800%Z, 1000000); (1577872700%Z, 0)]
              = [94644000000; 94644000000; 94644000000; 94644000001; 94643900000])
    by (vm_compute; reflexivity).
  assert (T4 : map ts_of (firstn 4 [(1577872800%Z, 5); (1577872800%Z, 6); (1577872800%Z, 999999);
                         (1577872800%Z, 1000000); (1577872700%Z, 0)])
              = [94644000000; 94644000000; 94644000000; 94644000001])
    by (vm_compute; reflexivity).
  rewrite T, T4. repeat split; auto.
  - right. cbn [In]. intros [E|[E|[]]]; discriminate.
  - right. cbn [In]. intros [E|[]]; discriminate.
  - intro t. unfold occurrences, p24. cbn [count_occ].
    repeat match goal with |- context [N.eq_dec ?a ?b] => destruct (N.eq_dec a b) end; lia.
  - cbn [In]. intros u Hu. repeat (destruct Hu as [<-|Hu]; [lia|]). destruct Hu.
  - cbn [In]. intros u Hu. repeat (destruct Hu as [<-|Hu]; [lia|]). destruct Hu.
  - cbn [In]. intros u Hu. repeat (destruct Hu as [<-|Hu]; [lia|]). destruct Hu.
  - cbn [In]. intros u Hu. destruct Hu.
Qed.
