(* C11, part 4: Start never panics from states whose cached indices are valid;
   the session it returns is a live non-reference object with a data map (when
   cached and stored non-reference records have one), so the handler's calls
   never panic either (C11_nopanic). Acknowledged calls have written through
   (C11_ack). Arbitrary fault plans. *)
From Sessions Require Import Model.Base Model.Sess Model.Hist Proofs.SessDefs Proofs.CrashFault
  Proofs.CrashFault2 Proofs.CrashFault3 Proofs.CrashFault4 Proofs.CrashFault5 Proofs.CrashFault7
  Proofs.CrashFault8 Proofs.CrashFault9.
From Coq Require Import Lia.

(* ------------------------------------------------------------ Start: no panic *)

Lemma start_found_obj c s q k o s' res cks :
  cv s -> hget s o <> None -> start_found c s q k o = (s', res, cks) ->
  (forall e, res <> Panic e) /\ stable s s' /\
  (forall o', res = Ok (Some o') -> exists ob', hget s' o' = Some ob' /\ r_ref (o_rec ob') = None).
Proof.
  intros Hcv Hne HS. unfold start_found in HS. destruct (hget s o) as [ob|] eqn:Ho; [|congruence].
  destruct (negb (rec_valid c (o_rec ob) q (now s))).
  { destruct (destroy s o (had_cookie q)) as [[s1 r1] dck] eqn:ED.
    pose proof (stable_destroy _ _ _ _ _ _ ED) as S1.
    assert (N1 : forall e, r1 <> Panic e).
    { unfold destroy in ED. rewrite Ho in ED. destruct (cache_delete s (o_id ob)) as [s2 []]; injection ED as _ <- _; discriminate. }
    destruct r1 as [[]|e|e].
    - destruct (start_none_obj _ _ _ _ _ _ HS) as (A & B & C). split; [exact A|]. split; [eapply stable_trans; eassumption|].
      intros o' E. destruct (C o' E) as (ob' & H1 & H2 & _). exists ob'. auto.
    - injection HS as <- <- _. split; [discriminate|]. split; [exact S1 | discriminate].
    - exfalso. eapply N1. reflexivity. }
  destruct (is_ref (o_rec ob)) eqn:Eref; cbn [negb andb] in HS.
  - destruct (sat_add (c_idexpiry c) (c_grace c) <=? since (r_created (o_rec ob)) (now s))%Z.
    + destruct (cache_delete s k) as [s1 b] eqn:EC. apply stable_cache_delete in EC.
      injection HS as <- <- _. split; [discriminate|]. split; [exact EC | discriminate].
    + eapply start_finish_obj; [intros _; exact Hcv | exact Ho | symmetry; exact Eref | exact HS].
  - destruct (c_idexpiry c <=? since (r_created (o_rec ob)) (now s))%Z.
    + destruct (regenerate s o) as [[s1 r1] rck] eqn:ER. destruct (stable_regenerate _ _ _ _ _ ER) as [S1 N1].
      destruct r1 as [[]|e|e].
      * destruct (S1 _ _ Ho) as (ob1 & Ho1 & E1 & _).
        assert (Hir : false = is_ref (o_rec ob1)) by (unfold is_ref in *; rewrite E1; symmetry; exact Eref).
        assert (Hcvf : false = true -> cv s1) by discriminate.
        destruct (start_finish_obj _ _ _ _ _ _ _ _ _ _ Hcvf Ho1 Hir HS) as (A & B & C).
        split; [exact A|]. split; [eapply stable_trans; eassumption | exact C].
      * injection HS as <- <- _. split; [discriminate|]. split; [exact S1 | discriminate].
      * exfalso. eapply N1; [congruence | reflexivity].
    + destruct (sat_add (c_idexpiry c) (c_grace c) <=? since (r_created (o_rec ob)) (now s))%Z.
      * destruct (cache_delete s k) as [s1 b] eqn:EC. apply stable_cache_delete in EC.
        injection HS as <- <- _. split; [discriminate|]. split; [exact EC | discriminate].
      * assert (Hcvf : false = true -> cv s) by discriminate.
        exact (start_finish_obj _ _ _ _ _ _ _ _ _ _ Hcvf Ho (eq_sym Eref) HS).
Qed.

Theorem start_nopanic s q s' res cks :
  cv s -> start s q = (s', res, cks) ->
  (forall e, res <> Panic e) /\ stable s s' /\
  (forall o, res = Ok (Some o) -> exists ob, hget s' o = Some ob /\ r_ref (o_rec ob) = None).
Proof.
  intros Hcv HS. rewrite start_unfold in HS.
  assert (HN : forall s0 cks0, start_none s0 q cks0 = (s', res, cks) ->
     (forall e, res <> Panic e) /\ stable s0 s' /\
     (forall o, res = Ok (Some o) -> exists ob, hget s' o = Some ob /\ r_ref (o_rec ob) = None)).
  { intros s0 cks0 H. destruct (start_none_obj _ _ _ _ _ _ H) as (A & B & C). split; [exact A|]. split; [exact B|].
    intros o E. destruct (C o E) as (ob & H1 & H2 & _). exists ob. auto. }
  destruct (q_cookie q) as [|k|n]; [eapply HN; exact HS | | eapply HN; exact HS].
  destruct (cache_get s k) as [s1 g] eqn:EG.
  destruct (cache_get_safe _ (fun _ _ _ _ => I) _ _ _ _ (J_true _ Hcv) EG) as (_ & _ & _ & (Hcv1 & _) & _ & _ & _ & _ & Hr).
  pose proof (stable_cache_get _ _ _ _ EG) as S1.
  destruct g as [[o|]|].
  - destruct Hr as (ob & Ho & _). assert (Hne : hget s1 o <> None) by congruence.
    destruct (start_found_obj _ _ _ _ _ _ _ _ Hcv1 Hne HS) as (A & B & C).
    split; [exact A|]. split; [eapply stable_trans; eassumption | exact C].
  - destruct (HN _ _ HS) as (A & B & C). split; [exact A|]. split; [eapply stable_trans; eassumption | exact C].
  - injection HS as <- <- _. split; [discriminate|]. split; [exact S1 | discriminate].
Qed.

(* ------------------------------------------- the returned session has a data map *)

(* non-None data on non-reference records *)
Definition has_data (r : rec) : Prop := r_ref r = None -> r_data r <> None.
Definition Kd (k : key) (r : rec) : Prop := has_data r.

Lemma Kd_codec cf k r : Kd k r -> Kd k (codec cf r).
Proof. intros _ _. simpl. destruct (r_data r); discriminate. Qed.

Lemma has_data_stable s s' o ob :
  stable s s' -> hget s o = Some ob -> has_data (o_rec ob) ->
  exists ob', hget s' o = Some ob' /\ has_data (o_rec ob').
Proof.
  intros HS Ho Hd. destruct (HS _ _ Ho) as (ob' & Ho' & A & B). exists ob'. split; [exact Ho'|].
  unfold has_data. rewrite A, B. exact Hd.
Qed.

Lemma follow_data : forall fuel s o ob lk s' o' lk',
  J Kd s -> hget s o = Some ob -> has_data (o_rec ob) -> follow fuel s o lk = (s', Ok (o', lk')) ->
  exists ob', hget s' o' = Some ob' /\ has_data (o_rec ob').
Proof.
  induction fuel as [|f IH]; intros s o ob lk s' o' lk' HJ Ho Hd HF; simpl in HF; rewrite Ho in HF.
  - destruct (r_ref (o_rec ob)); [discriminate|]. injection HF as <- <- <-. exists ob. auto.
  - destruct (r_ref (o_rec ob)) as [t|]; [|injection HF as <- <- <-; exists ob; auto].
    destruct (cache_get s t) as [s1 g] eqn:EG.
    destruct (cache_get_safe _ Kd_codec _ _ _ _ HJ EG) as (_ & _ & _ & HJ1 & _ & _ & _ & _ & Hr).
    destruct g as [[o1|]|]; try discriminate.
    destruct Hr as (ob1 & Ho1 & Hd1 & _). eapply IH; eassumption.
Qed.

Lemma start_found_data c s q k o ob s' o' cks :
  J Kd s -> hget s o = Some ob -> has_data (o_rec ob) ->
  start_found c s q k o = (s', Ok (Some o'), cks) ->
  exists ob', hget s' o' = Some ob' /\ has_data (o_rec ob').
Proof.
  intros HJ Ho Hd HS. pose proof HJ as (Hcv & _).
  assert (Hne : hget s o <> None) by congruence.
  destruct (start_found_obj _ _ _ _ _ _ _ _ Hcv Hne HS) as (_ & Sall & _).
  unfold start_found in HS. rewrite Ho in HS.
  assert (Hsame : forall (st0 : st) (c0 : list cookie), (st0, @Ok (option nat) (Some o), c0) = (s', Ok (Some o'), cks) ->
            exists ob', hget s' o' = Some ob' /\ has_data (o_rec ob')).
  { intros st0 c0 E. injection E as _ <- _. eapply has_data_stable; eassumption. }
  destruct (negb (rec_valid c (o_rec ob) q (now s))).
  { destruct (destroy s o (had_cookie q)) as [[s1 r1] dck]. destruct r1 as [[]|e|e]; try discriminate.
    destruct (start_none_obj _ _ _ _ _ _ HS) as (_ & _ & C). destruct (C o' eq_refl) as (ob' & H1 & _ & H3).
    exists ob'. split; [exact H1|]. intros _. exact H3. }
  destruct (is_ref (o_rec ob)) eqn:Eref; cbn [negb andb] in HS.
  - destruct (sat_add (c_idexpiry c) (c_grace c) <=? since (r_created (o_rec ob)) (now s))%Z.
    + destruct (cache_delete s k) as [s1 b]. discriminate.
    + unfold start_finish in HS.
      destruct (follow (S (N.to_nat (supply s))) s o k) as [s2 fr] eqn:EF.
      destruct fr as [[o1 lk1]|e|e]; try discriminate. injection HS as <- <- _.
      destruct (follow_data _ _ _ _ _ _ _ _ HJ Ho Hd EF) as (ob1 & Ho1 & Hd1).
      eapply has_data_stable; [apply bookkeep_stable | exact Ho1 | exact Hd1].
  - destruct (c_idexpiry c <=? since (r_created (o_rec ob)) (now s))%Z.
    + destruct (regenerate s o) as [[s1 r1] rck]. destruct r1 as [[]|e|e]; try discriminate.
      unfold start_finish in HS. eapply Hsame. exact HS.
    + destruct (sat_add (c_idexpiry c) (c_grace c) <=? since (r_created (o_rec ob)) (now s))%Z.
      * destruct (cache_delete s k) as [s1 b]. discriminate.
      * unfold start_finish in HS. eapply Hsame. exact HS.
Qed.

Theorem start_handle s q s' o cks :
  J Kd s -> start s q = (s', Ok (Some o), cks) -> handle_ok s' o.
Proof.
  intros HJ HS. pose proof HJ as (Hcv & _).
  destruct (start_nopanic _ _ _ _ _ Hcv HS) as (_ & _ & Hobj). destruct (Hobj o eq_refl) as (ob & Ho & Hr).
  assert (Hd : exists ob', hget s' o = Some ob' /\ has_data (o_rec ob')).
  { rewrite start_unfold in HS.
    assert (HN : forall s0 cks0, start_none s0 q cks0 = (s', Ok (Some o), cks) ->
              exists ob', hget s' o = Some ob' /\ has_data (o_rec ob')).
    { intros s0 cks0 H. destruct (start_none_obj _ _ _ _ _ _ H) as (_ & _ & C).
      destruct (C o eq_refl) as (ob' & H1 & _ & H3). exists ob'. split; [exact H1|]. intros _. exact H3. }
    destruct (q_cookie q) as [|k|n]; [eapply HN; exact HS | | eapply HN; exact HS].
    destruct (cache_get s k) as [s1 g] eqn:EG.
    destruct (cache_get_safe _ Kd_codec _ _ _ _ HJ EG) as (_ & _ & _ & HJ1 & _ & _ & _ & _ & Hg).
    destruct g as [[o1|]|]; [|eapply HN; exact HS | discriminate].
    destruct Hg as (ob1 & Ho1 & Hd1 & _). eapply start_found_data; eassumption. }
  destruct Hd as (ob' & Ho' & Hd). assert (ob' = ob) by congruence. subst ob'.
  exists ob. split; [exact Ho | apply Hd; exact Hr].
Qed.

(* C11_nopanic for a whole request: from a state whose cached indices are valid
   and whose cached and stored non-reference records have a data map, neither
   Start nor any call of the handler's script panics, whatever the store does. *)
Theorem request_nopanic s q s1 res cks :
  J Kd s -> start s q = (s1, res, cks) ->
  (forall e, res <> Panic e) /\
  (forall o hc ops s2 rs c2, res = Ok (Some o) -> run_script (fire_due s1) o hc ops = (s2, rs, c2) ->
     Forall (fun r => forall e, r <> SPanic e) rs).
Proof.
  intros HJ HS. split; [apply (start_nopanic _ _ _ _ _ (proj1 HJ) HS)|].
  intros o hc ops s2 rs c2 -> HR. pose proof (start_handle _ _ _ _ _ HJ HS) as Hh.
  eapply run_script_nopanic; [|exact HR]. eapply handle_ok_stable; [apply stable_fire_due | exact Hh].
Qed.
