(* The per-cache-operation system of Model/StartConcOps.v: refutation and
   non-vacuity, on the world wC of Proofs/StartConcEx.v (cache of 10 holding
   the session, JSON, grace 5 s; three goroutines carrying the due ID).
   - ops_unlocked_cache_refuted: WITHOUT the lock, look-up 0, look-up 1, then
     alternately read under RLock 0 / 1 and read of referenceID 0 / 1, then
     goroutine 0's two sessions.Set of RegenerateID, its bookkeeping and end,
     then goroutine 1's: two IDs drawn with the cache on.
   - ops_locked_ex: an admissible run of the locked system in which every
     goroutine works through its program node by node (5 nodes for the one that
     rotates: read, read referenceID, Set, Set, bookkeeping; 6 for one that
     follows: read, read referenceID, read supply, read referenceID + Get, read
     referenceID, bookkeeping); all hypotheses of ops_one_new_id;
     ops_locked_reports_ex: one draw, all on KGen 2. *)
From Sessions Require Import Model.Base Model.Mutex Model.StartConc Model.StartConcFine Model.StartConcOps
  Proofs.MutexBasics Proofs.MutexTheorems Proofs.StartConc Proofs.StartConc2 Proofs.StartConc3
  Proofs.StartConcOps Proofs.StartConcOps2 Proofs.StartConcOps3 Proofs.StartConcEx.
From Sessions Require Import Model.Sess Model.Hist Proofs.SessDefs
  Proofs.HistLift3 Proofs.HistLift4 Proofs.HistLift8 Proofs.C04Conc2 Proofs.C04Conc3 Proofs.C04ConcEx.
From Sessions Require Proofs.StartLaws4 Proofs.C01Spec.
From Coq Require Import Lia.

Lemma oadmb_run_sound locked reqs : forall ls os,
  oadmb_run locked reqs os ls = true -> oadm_run locked reqs os ls.
Proof.
  induction ls as [|l ls IH]; intros os H; cbn [oadmb_run oadm_run] in *; [exact Logic.I|].
  apply andb_true_iff in H as [H1 H2]. split.
  - destruct l; cbn [oadmb oadm] in *; try exact Logic.I. apply admb_adm. exact H1.
  - destruct (ostep locked reqs os l); [apply IH; exact H2 | exact Logic.I].
Qed.

Definition oreports (os : ostate) :=
  map (fun p => match p with ODone o => Some (summ o) | _ => None end) (o_ph os).

(* ---- without the lock, the cache on ---- *)
Definition runUO : list olabel :=
  [OLook 0; OLook 1; OStep 0; OStep 1; OStep 0; OStep 1;
   OStep 0; OStep 0; OStep 0; OFin 0; OStep 1; OStep 1; OStep 1; OFin 1].
Definition osU : ostate :=
  match orun false reqsK (oinit kkE reqsK wC 0) runUO with Some os => os | None => oinit kkE reqsK wC 0 end.

Theorem ops_unlocked_cache_refuted :
  exists reqs k rc w ls os,
    LI (w_st w) /\ L (w_st w) k = Some rc /\ r_ref rc = None /\
    (c_idexpiry (conf (w_st w)) <= since (r_created rc) (now (w_st w)))%Z /\
    (0 < c_grace (conf (w_st w)))%Z /\
    (since (r_access rc) (now (w_st w)) < c_expiry (conf (w_st w)))%Z /\
    Forall (acc_req k rc (conf (w_st w))) reqs /\
    c_maxcache (conf (w_st w)) = 10%Z /\ map fst (cache (w_st w)) = [k] /\
    orun false reqs (oinit (key_code k) reqs w 0) ls = Some os /\
    request_first (o_acts os) /\ ticks (o_acts os) = 0%Z /\
    let n := supply (w_st w) in
    exists o0 o1,
      nth_error (o_ph os) 0 = Some (ODone o0) /\ nth_error (o_ph os) 1 = Some (ODone o1) /\
      ob_res o0 = RSess /\ ob_res o1 = RSess /\
      ob_cookies o0 = [CkLive (KGen n)] /\ ob_cookies o1 = [CkLive (KGen (n + 1))] /\
      option_map fst (ob_start o0) = Some (KGen n) /\ option_map fst (ob_start o1) = Some (KGen (n + 1)) /\
      supply (o_st os) = (n + 2)%N.
Proof.
  destruct state_hyps_cache_ex as (rc & H1 & H2 & H3 & H4 & H5 & H6 & H7 & _ & H9 & H10).
  exists reqsK, kE, rc, wC, runUO, osU.
  split; [exact H1|]. split; [exact H2|]. split; [exact H3|]. split; [exact H4|]. split; [exact H5|].
  split; [exact H6|]. split; [exact H7|]. split; [exact H9|]. split; [exact H10|].
  split; [vm_compute; reflexivity|]. split; [vm_compute; exact Logic.I|]. split; [vm_compute; reflexivity|].
  cbv zeta. eexists. eexists. split; [vm_compute; reflexivity|]. split; [vm_compute; reflexivity|].
  vm_compute. repeat split.
Qed.

(* ---- the locked system, the cache on ---- *)
Definition ops_of (l : clabel) : list olabel :=
  match l with
  | CL l => [OL l]
  | CLook g => OLook g :: repeat (OStep g) (if Nat.eqb g 1 then 5 else 6)
  | CRest g => [OFin g]
  | CTick d => [OTick d]
  end.
Definition runKO : list olabel := flat_map ops_of runK.
Definition osK : ostate :=
  match orun true reqsK (oinit kkE reqsK wC 0) runKO with Some os => os | None => oinit kkE reqsK wC 0 end.

Example ops_locked_ex :
  OI0 kkE reqsK wC (oinit kkE reqsK wC 0) /\
  orun true reqsK (oinit kkE reqsK wC 0) runKO = Some osK /\
  oadm_run true reqsK (oinit kkE reqsK wC 0) runKO /\
  length (filter (fun l => match l with OStep _ => true | _ => false end) runKO) = 17 /\
  o_acts osK = [AReq 0; ATick 1000000000; ATick 0; AReq 2; ATick 1500000000; AReq 1] /\
  request_first (o_acts osK) /\ Forall tick_nonneg (o_acts osK) /\
  (ticks (o_acts osK) < c_grace (conf (w_st wC)))%Z /\
  (ticks (o_acts osK) + StartLaws4.slack (conf (w_st wC)) < c_expiry (conf (w_st wC)))%Z /\
  (ticks (o_acts osK) + StartLaws4.slack (conf (w_st wC)) <
     sat_add (c_idexpiry (conf (w_st wC))) (c_grace (conf (w_st wC))))%Z /\
  o_all_done osK = true.
Proof.
  split; [apply oinit_oi0; exact reqsK_plain|]. split; [vm_compute; reflexivity|].
  split; [apply oadmb_run_sound; vm_compute; reflexivity|]. split; [vm_compute; reflexivity|].
  assert (E : o_acts osK = [AReq 0; ATick 1000000000; ATick 0; AReq 2; ATick 1500000000; AReq 1])
    by (vm_compute; reflexivity).
  split; [exact E|]. rewrite E. split; [exact Logic.I|].
  split; [repeat constructor; cbn [tick_nonneg]; lia|].
  split; [vm_compute; reflexivity|]. split; [vm_compute; reflexivity|]. split; [vm_compute; reflexivity|].
  vm_compute; reflexivity.
Qed.

Example ops_locked_reports_ex :
  oreports osK =
    [Some (RSess, [CkLive (KGen 2)], Some (KGen 2, ([(1, 2)]%N, Some 7%N)), [], 3%N);
     Some (RSess, [CkLive (KGen 2)], Some (KGen 2, ([(1, 2)]%N, Some 7%N)), [2%N], 3%N);
     Some (RSess, [CkLive (KGen 2)], Some (KGen 2, ([(1, 2)]%N, Some 7%N)), [], 3%N)] /\
  supply (o_st osK) = 3%N /\
  map fst (snd (serial reqsK wC (o_acts osK))) = [0; 2; 1].
Proof. vm_compute. repeat split. Qed.

(* a state in the middle of goroutine 1's RegenerateID: the new ID is cached (beside the old entry),
   the reference record not yet; the coarse system still sees the state right
   after the look-up; 2 and 0 wait for the lock. (Stated through projections:
   the state holds goroutine 1's remaining program, a function.) *)
Example ops_mid_ex :
  option_map (fun os => (map o_is_mid (o_ph os), supply (o_st os), supply (o_snap os),
                         map fst (cache (o_st os)), map fst (cache (o_snap os)),
                         holds_key (o_lock os) 1 kkE, cA (o_lock os) kkE))
             (orun true reqsK (oinit kkE reqsK wC 0) (firstn 17 runKO)) =
  Some ([false; true; false], 3%N, 2%N, [KGen 1; KGen 2], [KGen 1], true, 2).
Proof. vm_compute. reflexivity. Qed.
