(* Laws of Start, part 2: fault-free characterisation of cache_delete,
   cache_get, cache_set on a fresh object and create_session (results, frames,
   invariants), and the equations that split Start into its phases. *)
From Sessions Require Import Model.Base Model.Sess Model.Hist Proofs.SessDefs Proofs.StartLaws.
From Coq Require Import Lia ZifyBool.

(* neither cached nor stored *)
Definition absent (s : st) (k : key) : Prop := lookup (cache s) k = None /\ lookup (store s) k = None.

(* what the per-call lemmas need of a state and re-establish *)
Definition ok (s : st) : Prop := plan s = [] /\ cache_ok s /\ NoDup (map fst (cache s)).

Lemma absent_L s k : absent s k -> L s k = None.
Proof. intros [H1 H2]. apply lookups_None_L; assumption. Qed.

Lemma L_absent s k : cache_ok s -> L s k = None -> absent s k.
Proof. intros Hc H. apply L_None_lookups; assumption. Qed.

Lemma L_frame s s' k :
  cache_ok s -> (forall o ob, hget s o = Some ob -> hget s' o = Some ob) ->
  lookup (cache s') k = lookup (cache s) k -> lookup (store s') k = lookup (store s) k ->
  L s' k = L s k.
Proof.
  intros Hc Hh Hca Hst. unfold L. rewrite Hca, Hst.
  destruct (lookup (cache s) k) as [o|] eqn:E; [|reflexivity].
  destruct (Hc k o E) as (ob & Ho & _). rewrite (Hh _ _ Ho), Ho. reflexivity.
Qed.

Lemma Lc_of_L s s' k : conf s' = conf s -> L s' k = L s k -> Lc s' k = Lc s k.
Proof. intros Hc HL. unfold Lc. rewrite Hc, HL. reflexivity. Qed.

Lemma fresh_absent s : fresh_ok s -> absent s (KGen (supply s)).
Proof.
  intros (Hc & Hs & _). split.
  - destruct (lookup (cache s) (KGen (supply s))) as [o|] eqn:E; [|reflexivity].
    apply lookup_In in E. apply Hc in E. simpl in E. lia.
  - destruct (lookup (store s) (KGen (supply s))) as [r|] eqn:E; [|reflexivity].
    apply lookup_In in E. apply Hs in E. destruct E as [E _]. simpl in E. lia.
Qed.

Lemma drawn_not_next s k : key_drawn s k -> k <> KGen (supply s).
Proof. intros H ->. simpl in H. lia. Qed.

Lemma present_drawn s k r : fresh_ok s -> cache_ok s -> L s k = Some r -> key_drawn s k.
Proof.
  intros (Hc & Hs & _) Hok H. unfold L in H. destruct (lookup (cache s) k) as [o|] eqn:E.
  - apply lookup_In in E. eapply Hc. exact E.
  - apply lookup_In in H. apply Hs in H. tauto.
Qed.

(* =========================================================== cache_delete *)

Definition deleted (s : st) (k : key) : st :=
  log (set_graves (set_store (set_cache s (remove (cache s) k)) (remove (store s) k)) (graves_after s k))
      (EvDelete k true).

Lemma cache_delete_ok s k : plan s = [] -> cache_delete s k = (deleted s k, true).
Proof. intro Hp. unfold cache_delete. rewrite p_delete_ok by exact Hp. reflexivity. Qed.

Lemma deleted_absent s k : absent (deleted s k) k.
Proof. split; cbn; apply lookup_remove_same. Qed.

Lemma deleted_L s k k' : k' <> k -> L (deleted s k) k' = L s k'.
Proof.
  intro Hne. unfold L, hget. cbn. rewrite !lookup_remove_other by exact Hne. reflexivity.
Qed.

Lemma deleted_ok s k : ok s -> ok (deleted s k).
Proof.
  intros (Hp & Hc & Hn). split; [exact Hp|]. split.
  - intros k' o H. cbn in H. apply lookup_remove_Some in H as [H _]. apply Hc in H. exact H.
  - cbn. apply nodup_remove. exact Hn.
Qed.

Lemma deleted_norm s k : store_norm s -> store_norm (deleted s k).
Proof.
  intros Hn k' r H. cbn in H. apply lookup_remove_Some in H as [H _]. apply Hn in H. exact H.
Qed.

(* ============================================================== cache_get *)

Lemma cache_get_cached s k o : lookup (cache s) k = Some o -> cache_get s k = (s, Some (Some o)).
Proof. intro H. unfold cache_get. rewrite H. reflexivity. Qed.

Lemma cache_get_absent s k :
  plan s = [] -> absent s k -> cache_get s k = (log s (EvLoad k true), Some None).
Proof.
  intros Hp [Hc Hs]. unfold cache_get. rewrite Hc, p_load_ok by exact Hp.
  unfold load_evs. rewrite Hs. reflexivity.
Qed.

(* the state after inserting a loaded object *)
Definition inserted (s : st) (k : key) (o : nat) : st :=
  if (c_maxcache (conf s) =? 0)%Z then s
  else let s := compact s 1 in set_cache s (upsert (cache s) k o).

Lemma cache_get_load s k r :
  plan s = [] -> lookup (cache s) k = None -> lookup (store s) k = Some r ->
  cache_get s k =
  (inserted (fst (halloc (set_evs s (load_evs s k ++ evs s)) (mkObj k r))) k (length (heap s)),
   Some (Some (length (heap s)))).
Proof.
  intros Hp Hc Hs. unfold cache_get. rewrite Hc, p_load_ok by exact Hp. rewrite Hs. reflexivity.
Qed.

Record get_post (s : st) (k : key) (r : rec) (s1 : st) (o : nat) : Prop := mkGP {
  gp_obj : hget s1 o = Some (mkObj k r);
  gp_heap : forall o' ob', hget s o' = Some ob' -> hget s1 o' = Some ob';
  gp_ok : ok s1;
  gp_conf : conf s1 = conf s;
  gp_now : now s1 = now s;
  gp_supply : supply s1 = supply s;
  gp_Lc : forall k', Lc s1 k' = Lc s k';
  gp_norm : store_norm s -> store_norm s1;
  gp_cached : lookup (cache s) k <> None \/ c_maxcache (conf s) <> 0%Z -> lookup (cache s1) k = Some o;
  gp_uncached : lookup (cache s) k = None -> c_maxcache (conf s) = 0%Z ->
                heap s1 = heap s ++ [mkObj k r] /\ o = length (heap s) /\
                cache s1 = cache s /\ store s1 = store s }.

Lemma cache_ok_index s k o : cache_ok s -> lookup (cache s) k = Some o -> o < length (heap s).
Proof. intros Hc H. destruct (Hc k o H) as (ob & Ho & _). eapply hget_Some_lt. exact Ho. Qed.

Lemma cache_get_found s k r :
  ok s -> L s k = Some r ->
  exists s1 o, cache_get s k = (s1, Some (Some o)) /\ get_post s k r s1 o.
Proof.
  intros (Hp & Hc & Hn) HL. unfold L in HL. destruct (lookup (cache s) k) as [o|] eqn:E.
  - (* cached *)
    exists s, o. split; [apply cache_get_cached; exact E|].
    destruct (Hc k o E) as (ob & Ho & Hid). rewrite Ho in HL. injection HL as HL.
    constructor; try reflexivity.
    + rewrite Ho. destruct ob; simpl in *. subst. reflexivity.
    + auto.
    + repeat split; assumption.
    + auto.
    + intros _. exact E.
    + intros H. congruence.
  - (* loaded from the store *)
    eexists _, _. split; [apply cache_get_load; eassumption|].
    set (s0 := set_evs s (load_evs s k ++ evs s)).
    set (sa := fst (halloc s0 (mkObj k r))).
    set (o := length (heap s)).
    assert (Hha : heap sa = heap s ++ [mkObj k r]) by reflexivity.
    assert (Hoa : hget sa o = Some (mkObj k r)).
    { unfold hget. rewrite Hha. unfold o. rewrite nth_error_app2 by lia. rewrite Nat.sub_diag. reflexivity. }
    assert (Hold : forall o' ob', hget s o' = Some ob' -> hget sa o' = Some ob').
    { intros o' ob' H. unfold hget. rewrite Hha. rewrite nth_error_app1; [exact H|].
      eapply hget_Some_lt. exact H. }
    assert (HLa : forall k', L sa k' = L s k') by (intro k'; apply L_frame; auto).
    assert (Hca : cache_ok sa).
    { intros k' o' H. change (cache sa) with (cache s) in H. destruct (Hc k' o' H) as (ob & Ho & Hid).
      exists ob. split; [apply Hold; exact Ho | exact Hid]. }
    unfold inserted. change (conf sa) with (conf s).
    destruct (c_maxcache (conf s) =? 0)%Z eqn:Emx.
    + constructor; auto.
      * repeat split; assumption.
      * intro k'. apply Lc_of_L; [reflexivity | apply HLa].
      * intros [H|H]; [congruence | lia].
    + assert (Hfr : flush_frame sa (compact sa 1)) by (apply compact_frame; assumption).
      destruct Hfr as [h1 h2 h3 h4 h5 h6 h7 h8 h9 h9' h10 h10' h11 h12 h13].
      set (sb := compact sa 1) in *.
      assert (Hob : hget (set_cache sb (upsert (cache sb) k o)) o = Some (mkObj k r)).
      { unfold hget. cbn [heap set_cache]. rewrite h1. exact Hoa. }
      constructor; auto.
      * intros o' ob' H. apply Hold in H. unfold hget in *. cbn [heap set_cache]. rewrite h1. exact H.
      * split; [exact h7|]. split.
        -- intros k' o' H. cbn [cache set_cache] in H. destruct (key_eq_dec k' k) as [->|Hne].
           ++ rewrite lookup_upsert_same in H. injection H as <-. eexists. split; [exact Hob | reflexivity].
           ++ rewrite lookup_upsert_other in H by exact Hne. apply h9 in H.
              destruct (Hca k' o' H) as (ob & Ho & Hid). exists ob. split; [|exact Hid].
              unfold hget in *. cbn [heap set_cache]. rewrite h1. exact Ho.
        -- cbn [cache set_cache]. apply nodup_upsert. apply h10. exact Hn.
      * intro k'. unfold Lc. cbn [conf set_cache]. rewrite h6. change (conf sa) with (conf s).
        destruct (key_eq_dec k' k) as [->|Hne].
        -- unfold L at 1. cbn [cache set_cache]. rewrite lookup_upsert_same, Hob.
           unfold L. rewrite E, HL. reflexivity.
        -- transitivity (option_map (codec (conf s)) (L sb k')).
           ++ f_equal. unfold L, hget. cbn [cache store heap set_cache].
              rewrite lookup_upsert_other by exact Hne. reflexivity.
           ++ specialize (h8 k'). unfold Lc in h8. rewrite h6 in h8. change (conf sa) with (conf s) in h8.
              rewrite h8, HLa. reflexivity.
      * intros _. cbn [cache set_cache]. apply lookup_upsert_same.
      * intros _ H. lia.
Qed.

(* ================================== cache_set of a fresh, touched object *)

Definition set_state (sb : st) (o : nat) (ob : obj) : st :=
  let s3 := if (c_maxcache (conf sb) =? 0)%Z then sb else set_cache sb (upsert (cache sb) (o_id ob) o) in
  log (set_store s3 (upsert (store s3) (o_id ob) (codec (conf s3) (o_rec ob))))
      (EvSave (o_id ob) (codec (conf s3) (o_rec ob)) true).

Lemma cache_set_touched s o ob :
  plan s = [] -> NoDup (map fst (cache s)) -> hget s o = Some ob -> r_access (o_rec ob) = now s ->
  exists sb, flush_frame s sb /\ cache_set s o = (set_state sb o ob, true).
Proof.
  intros Hp Hn Ho Ha. unfold cache_set. rewrite Ho.
  rewrite (hupd_id s o ob) by (try exact Ho; destruct ob as [i [c a p u rf us d]]; simpl in *; subst; reflexivity).
  rewrite Ho.
  set (req := if has (cache s) (o_id ob) then 0%Z else 1%Z).
  exists (compact s req). split; [apply compact_frame; assumption|].
  assert (Hfr : flush_frame s (compact s req)) by (apply compact_frame; assumption).
  set (sb := compact s req) in *.
  unfold set_state. destruct (c_maxcache (conf sb) =? 0)%Z.
  - apply p_save_ok. apply Hfr.
  - apply p_save_ok. cbn [plan set_cache]. apply Hfr.
Qed.

(* ========================================================= create_session *)

Definition fresh_rec (s : st) (q : request) : rec :=
  mkRec (now s) (now s) (q_addr q) (q_ua q) None None (Some []).

Definition creation_ev (s : st) (e : ev) : Prop :=
  e = EvDraw (supply s) \/ saves_of_present s e \/ exists r, e = EvSave (KGen (supply s)) r true.

Record create_post (s : st) (q : request) (s' : st) (o : nat) : Prop := mkCP {
  cp_obj : hget s' o = Some (mkObj (KGen (supply s)) (fresh_rec s q));
  cp_new : hget s o = None;
  cp_ok : ok s';
  cp_conf : conf s' = conf s;
  cp_now : now s' = now s;
  cp_supply : supply s' = (supply s + 1)%N;
  cp_Lc : forall k, k <> KGen (supply s) -> Lc s' k = Lc s k;
  cp_absent : forall k, k <> KGen (supply s) -> absent s k -> absent s' k;
  cp_norm : store_norm s -> store_norm s';
  cp_stored : lookup (store s') (KGen (supply s)) = Some (codec (conf s) (fresh_rec s q));
  cp_cached : c_maxcache (conf s) <> 0%Z -> lookup (cache s') (KGen (supply s)) = Some o;
  cp_evs : exists new, evs s' = new ++ evs s /\ Forall (creation_ev s) new }.

Lemma create_session_ok s q :
  ok s ->
  exists s' o, create_session s q = (s', Ok (Some o), [CkLive (KGen (supply s))]) /\ create_post s q s' o.
Proof.
  intros (Hp & Hc & Hn). unfold create_session, gen_id.
  set (s1 := log (set_supply s (supply s + 1)%N) (EvDraw (supply s))).
  change (now s1) with (now s).
  set (ob := mkObj (KGen (supply s)) (mkRec (now s) (now s) (q_addr q) (q_ua q) None None (Some []))).
  unfold halloc. set (s2 := set_heap s1 (heap s1 ++ [ob])). change (heap s1) with (heap s).
  set (o := length (heap s)).
  assert (Ho2 : hget s2 o = Some ob).
  { unfold hget, s2. cbn [heap set_heap]. change (heap s1) with (heap s). unfold o.
    rewrite nth_error_app2 by lia. rewrite Nat.sub_diag. reflexivity. }
  assert (Hold : forall o' ob', hget s o' = Some ob' -> hget s2 o' = Some ob').
  { intros o' ob' H. unfold hget, s2. cbn [heap set_heap]. change (heap s1) with (heap s).
    rewrite nth_error_app1; [exact H|]. eapply hget_Some_lt. exact H. }
  destruct (cache_set_touched s2 o ob) as (sb & Hfr & Hcs); auto.
  rewrite Hcs. cbn [negb]. eexists _, _. split; [reflexivity|].
  destruct Hfr as [h1 h2 h3 h4 h5 h6 h7 h8 h9 h9' h10 h10' h11 h12 h13].
  change (conf s2) with (conf s) in h6. change (cache s2) with (cache s) in *.
  change (store s2) with (store s) in *. change (now s2) with (now s) in h4.
  assert (HL2 : forall k, L s2 k = L s k) by (intro k; apply L_frame; auto).
  assert (Hc2 : cache_ok s2).
  { intros k' o' H. change (cache s2) with (cache s) in H. destruct (Hc k' o' H) as (ob' & Ho' & Hid).
    exists ob'. split; [apply Hold; exact Ho' | exact Hid]. }
  assert (Hcb : cache_ok sb).
  { intros k' o' H. apply h9 in H. destruct (Hc2 k' o' H) as (ob' & Ho' & Hid). exists ob'.
    split; [|exact Hid]. unfold hget in *. rewrite h1. exact Ho'. }
  assert (Hob : hget sb o = Some ob) by (unfold hget in *; rewrite h1; exact Ho2).
  unfold set_state. cbn [o_id o_rec ob]. fold ob. rewrite h6.
  set (nid := KGen (supply s)) in *.
  destruct (c_maxcache (conf s) =? 0)%Z eqn:Emx.
  - (* no caching *)
    constructor.
    + exact Hob.
    + unfold hget, o. apply nth_error_None. lia.
    + split; [exact h7|]. split; [exact Hcb | apply h10; exact Hn].
    + cbn. exact h6.
    + cbn. exact h4.
    + cbn. rewrite h5. reflexivity.
    + intros k Hne. unfold Lc. cbn [conf log set_store set_evs]. rewrite h6.
      transitivity (option_map (codec (conf s)) (L sb k)).
      * f_equal. unfold L, hget. cbn. rewrite lookup_upsert_other by exact Hne. reflexivity.
      * specialize (h8 k). unfold Lc in h8. rewrite h6 in h8. change (conf s2) with (conf s) in h8.
        rewrite h8, HL2. reflexivity.
    + intros k Hne [Ha1 Ha2]. destruct (h11 k Ha1 Ha2) as [Hb1 Hb2]. split; cbn.
      * exact Hb1.
      * rewrite lookup_upsert_other by exact Hne. exact Hb2.
    + intros Hnm k r. cbn. rewrite h6. destruct (key_eq_dec k nid) as [->|Hne].
      * rewrite lookup_upsert_same. intro H. injection H as <-. apply codec_idem.
      * rewrite lookup_upsert_other by exact Hne. intro H. specialize (h12 Hnm k r H). rewrite h6 in h12. exact h12.
    + cbn. rewrite h6. apply lookup_upsert_same.
    + intro H. lia.
    + destruct h13 as (new & Hnew & Hall). cbn. rewrite h6.
      exists (EvSave nid (codec (conf s) (o_rec ob)) true :: new ++ [EvDraw (supply s)]). split.
      * rewrite Hnew. cbn. rewrite <- app_assoc. reflexivity.
      * constructor; [right; right; eexists; reflexivity|]. apply Forall_app. split.
        -- eapply Forall_impl; [|exact Hall]. intros e (k1 & r1 & -> & Hk1). right. left. exists k1, r1.
           split; [reflexivity|]. unfold Lc in *. rewrite HL2 in Hk1. exact Hk1.
        -- constructor; [left; reflexivity | constructor].
  - (* inserted into the cache *)
    constructor.
    + unfold hget in *. cbn. exact Hob.
    + unfold hget, o. apply nth_error_None. lia.
    + split; [exact h7|]. split.
      * intros k' o' H. cbn in H. destruct (key_eq_dec k' nid) as [->|Hne].
        -- rewrite lookup_upsert_same in H. injection H as <-. exists ob. split; [exact Hob | reflexivity].
        -- rewrite lookup_upsert_other in H by exact Hne. apply Hcb in H. exact H.
      * cbn. apply nodup_upsert. apply h10. exact Hn.
    + cbn. exact h6.
    + cbn. exact h4.
    + cbn. rewrite h5. reflexivity.
    + intros k Hne. unfold Lc. cbn [conf log set_store set_evs set_cache]. rewrite h6.
      transitivity (option_map (codec (conf s)) (L sb k)).
      * f_equal. unfold L, hget. cbn. rewrite !lookup_upsert_other by exact Hne. reflexivity.
      * specialize (h8 k). unfold Lc in h8. rewrite h6 in h8. change (conf s2) with (conf s) in h8.
        rewrite h8, HL2. reflexivity.
    + intros k Hne [Ha1 Ha2]. destruct (h11 k Ha1 Ha2) as [Hb1 Hb2]. split; cbn.
      * rewrite lookup_upsert_other by exact Hne. exact Hb1.
      * rewrite lookup_upsert_other by exact Hne. exact Hb2.
    + intros Hnm k r. cbn. rewrite h6. destruct (key_eq_dec k nid) as [->|Hne].
      * rewrite lookup_upsert_same. intro H. injection H as <-. apply codec_idem.
      * rewrite lookup_upsert_other by exact Hne. intro H. specialize (h12 Hnm k r H). rewrite h6 in h12. exact h12.
    + cbn. rewrite h6. apply lookup_upsert_same.
    + intros _. cbn. apply lookup_upsert_same.
    + destruct h13 as (new & Hnew & Hall). cbn. rewrite h6.
      exists (EvSave nid (codec (conf s) (o_rec ob)) true :: new ++ [EvDraw (supply s)]). split.
      * rewrite Hnew. cbn. rewrite <- app_assoc. reflexivity.
      * constructor; [right; right; eexists; reflexivity|]. apply Forall_app. split.
        -- eapply Forall_impl; [|exact Hall]. intros e (k1 & r1 & -> & Hk1). right. left. exists k1, r1.
           split; [reflexivity|]. unfold Lc in *. rewrite HL2 in Hk1. exact Hk1.
        -- constructor; [left; reflexivity | constructor].
Qed.

(* ====================================================== phases of Start *)

Lemma start_nolookup s q :
  (forall k, q_cookie q <> CKey k) ->
  start s q = if q_create q
              then let '(s', res, nck) := create_session s q in (s', res, [] ++ nck)
              else (s, Ok None, []).
Proof.
  intro H. unfold start. destruct (q_cookie q) as [|k|n]; try reflexivity.
  exfalso. eapply H. reflexivity.
Qed.

Lemma start_miss s q k s1 :
  q_cookie q = CKey k -> cache_get s k = (s1, Some None) ->
  start s q = if q_create q
              then let '(s', res, nck) := create_session s1 q in (s', res, [CkDelete] ++ nck)
              else (s1, Ok None, [CkDelete]).
Proof. intros Hq Hg. unfold start. rewrite Hq, Hg. reflexivity. Qed.

Lemma start_invalid s q k s1 o ob :
  q_cookie q = CKey k -> cache_get s k = (s1, Some (Some o)) -> hget s1 o = Some ob ->
  start_valid (conf s) (o_rec ob) q (now s1) = false ->
  start s q =
  let '(s2, res, dck) := destroy s1 o (had_cookie q) in
  match res with
  | Ok _ => if q_create q
            then let '(s3, res, nck) := create_session s2 q in (s3, res, [] ++ dck ++ nck)
            else (s2, Ok None, [] ++ dck)
  | Err e => (s2, Err e, [])
  | Panic e => (s2, Panic e, [])
  end.
Proof.
  intros Hq Hg Ho Hv. unfold start. rewrite Hq, Hg. cbn iota beta. rewrite Ho.
  unfold start_valid in Hv. cbv zeta. rewrite Hv. reflexivity.
Qed.
