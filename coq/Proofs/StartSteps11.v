(* B2 (C05), part (b), cache off: Start interrupted by the due clean-ups ends in
   the state of "Start, then the clean-up pass", log apart. *)
From Sessions Require Import Model.Base Model.Sess Model.Hist Model.StartSteps Proofs.SessDefs
  Proofs.RotateLaws Proofs.RotateLaws2 Proofs.RotateLaws3 Proofs.RotateLaws4 Proofs.StartSteps
  Proofs.StartSteps2 Proofs.StartSteps3 Proofs.StartSteps4 Proofs.StartSteps5 Proofs.StartSteps9
  Proofs.StartSteps10.
From Coq Require Import Lia.

Theorem start_interrupted_off s q k r rest i :
  offst s ->
  q_cookie q = CKey k -> lookup (store s) k = Some r -> stored_chain s r rest -> rest <> [] ->
  length rest <= N.to_nat (supply s) ->
  valid_for (conf s) r (now s) q = true ->
  (since (r_created r) (now s) < sat_add (c_idexpiry (conf s)) (c_grace (conf s)))%Z ->
  (forall k', In k' rest -> notdue s k') ->
  1 <= i <= S (length rest) ->
  exists ss si o',
    start s q = (ss, Ok (Some o'), [CkLive (last rest k)]) /\
    start_interrupted s q (Some i) = (si, Ok (Some o'), [CkLive (last rest k)]) /\
    ne si = ne (fire_due ss).
Proof.
  intros Ho Hq Hl Hch Hne Hlen Hvalid Hage Hdue Hi.
  destruct (get_stored s k r Ho Hl) as (l & E & Ho1 & Hg1 & Hp1 & Hn1 & Hs1).
  set (Y := loaded s l k r) in *. set (o0 := length (heap s)) in *.
  assert (Href : exists k1, r_ref r = Some k1).
  { destruct rest as [|k1 t]; [congruence|]. exists k1. apply Hch. }
  destruct Href as [k1 Href].
  assert (Hd1 : forall k', In k' rest -> notdue Y k').
  { intros k' Hk d Hin. rewrite Hn1. apply (Hdue k' Hk). rewrite <- Hp1. exact Hin. }
  assert (Hc1 : stored_chain Y r rest).
  { apply (stored_chain_keep s); [intros k' _; rewrite Hs1; reflexivity | exact Hch]. }
  set (fuel := S (N.to_nat (supply s))).
  destruct (follow_off_ok rest fuel Y o0 (mkObj k r) k) as (o' & Hres); [unfold fuel; lia | exact Ho1 | exact Hg1 | exact Hc1 |].
  set (sF := fst (follow fuel Y o0 k)).
  assert (EF : follow fuel Y o0 k = (sF, Ok (o', last rest k))).
  { unfold sF. rewrite <- Hres. apply surjective_pairing. }
  assert (Eb : (sat_add (c_idexpiry (conf s)) (c_grace (conf s)) <=? since (r_created r) (now s))%Z = false)
    by (apply Z.leb_gt; exact Hage).
  unfold valid_for in Hvalid.
  (* the uninterrupted run *)
  assert (Es : start s q = (hupd sF o' (fun r0 => set_ua (set_ip (set_access r0 (now sF)) (q_addr q)) (q_ua q)),
                            Ok (Some o'), [CkLive (last rest k)])).
  { unfold start. rewrite Hq, E. cbn [negb]. rewrite Hg1. cbn [o_rec]. rewrite Hn1, Hvalid. cbn [negb].
    rewrite Href. cbn [negb andb]. rewrite Eb. change (supply Y) with (supply s). fold fuel. rewrite EF. reflexivity. }
  (* the loop of the interrupted run *)
  set (Z := fire_at i 1 Y).
  assert (HZ : hget Z o0 = Some (mkObj k r) /\ now Z = now s /\ supply Z = supply s).
  { unfold Z, fire_at. destruct (Nat.eqb 1 i).
    - pose proof (fire_due_fired Y (proj1 Ho1)) as F. rewrite (fired_hget Y _ o0 F), (fd_now _ _ F), (fd_supply _ _ F).
      split; [exact Hg1 | split; [exact Hn1 | reflexivity]].
    - split; [exact Hg1 | split; [exact Hn1 | reflexivity]]. }
  destruct HZ as (HgZ & HnZ & HsZ).
  assert (EX : exists sX, follow_h (fire_at i) 1 fuel Z o0 k = (sX, Ok (o', last rest k)) /\ ne sX = ne (fire_due sF)).
  { exists (fst (follow_h (fire_at i) 1 fuel Z o0 k)). unfold Z.
    change (fire_at i 1 Y) with (if Nat.eqb 1 i then fire_due Y else Y).
    destruct (Nat.eqb 1 i) eqn:Ei.
    - apply Nat.eqb_eq in Ei. pose proof (fire_due_fired Y (proj1 Ho1)) as F.
      destruct (follow_h_off i rest 1 fuel (fire_due Y) o0 (mkObj k r) k) as [C1 C2].
      + unfold fuel; lia.
      + exact (offst_fired Y Ho1).
      + intros k' Hk. apply (notdue_fired Y _ k' F). apply Hd1. exact Hk.
      + rewrite (fired_hget Y _ o0 F). exact Hg1.
      + cbn [o_rec]. apply (stored_chain_fired Y rest r (proj1 Ho1) Hd1 Hc1).
      + replace ((1 <? i) && (i <=? 1 + length rest)) with false in C1
          by (symmetry; apply andb_false_iff; left; apply Nat.ltb_ge; lia).
        destruct (follow_fire_comm rest fuel Y o0 (mkObj k r) k) as [B1 B2];
          [unfold fuel; lia | exact Ho1 | exact Hd1 | exact Hg1 | exact Hc1 |].
        split; [|rewrite C1; exact B1].
        rewrite (surjective_pairing (follow_h (fire_at i) 1 fuel (fire_due Y) o0 k)). rewrite C2, B2, Hres. reflexivity.
    - apply Nat.eqb_neq in Ei.
      destruct (follow_h_off i rest 1 fuel Y o0 (mkObj k r) k) as [C1 C2];
        [unfold fuel; lia | exact Ho1 | exact Hd1 | exact Hg1 | exact Hc1 |].
      replace ((1 <? i) && (i <=? 1 + length rest)) with true in C1
        by (symmetry; apply andb_true_iff; split; [apply Nat.ltb_lt | apply Nat.leb_le]; lia).
      split; [|exact C1].
      rewrite (surjective_pairing (follow_h (fire_at i) 1 fuel Y o0 k)). rewrite C2, Hres. reflexivity. }
  destruct EX as (sX & EX & HneX).
  assert (HnX : now sX = now sF).
  { destruct (ne_fields _ _ HneX) as (_ & _ & _ & _ & Hn' & _). rewrite Hn'. apply fire_due_heap_now. }
  eexists _, _, o'. split; [exact Es|]. split.
  - assert (Hfire0 : fire_at i 0 s = s).
    { unfold fire_at. destruct (Nat.eqb 0 i) eqn:E0; [apply Nat.eqb_eq in E0; lia | reflexivity]. }
    unfold start_interrupted, start_h. rewrite Hfire0. unfold start_body. rewrite Hq, E. fold Z.
    cbn [negb]. rewrite HgZ. cbn [o_rec]. rewrite HnZ, Hvalid. cbn [negb].
    rewrite Href. cbn [negb andb]. rewrite Eb, HsZ. fold fuel. rewrite EX. rewrite HnX. reflexivity.
  - rewrite fire_due_hupd. apply ne_hupd. exact HneX.
Qed.
