(* C05: the invariant of Proofs/C05RUser5.v (a replaced-ID record written by a
   given request step carries that step's clock, up to the codec's flooring)
   along fault-free, crash-free histories of every hop kind, and the theorem:
   lastAccess of such a record is the instant of the replacement or that instant
   floored to the second. *)
From Sessions Require Import Model.Base Model.Sess Model.Hist Proofs.SessDefs Proofs.HistInv Proofs.HistInv2 Proofs.HistInv3
  Proofs.HistLift Proofs.HistLift2 Proofs.HistLift3 Proofs.HistLift4 Proofs.C05RUser Proofs.C05RUser2 Proofs.C05RUser3
  Proofs.C05RUser4 Proofs.C05RUser6.
From Sessions Require Proofs.C05RUser5 Proofs.CrashFault9 Proofs.RotateLaws4.
From Coq Require Import Lia ZArith.

Section Thread.
  Variables (m n0 n1 : N) (T : Z).
  Notation R5 := (C05RUser5.R m n0 n1 T).

  Lemma hg_nrp5 s o : hg s o -> C05RUser5.nrp s o.
  Proof. intros (ob & Ho & Hr & _). exists ob. split; assumption. Qed.

  Lemma R5_eus b base D u : forall ids s, inv b base NX D s -> Kcs s -> R5 s ->
    (forall k, In k ids -> nph s k) -> R5 (fst (each_user_session s ids u)).
  Proof.
    induction ids as [|k t IH]; intros s I K HR Hn; cbn [each_user_session]; [exact HR|].
    destruct (cache_get_inv _ _ _ _ _ k I) as (s1 & r & E & I1 & Hr).
    destruct (cache_get_qt _ _ _ _ k I K) as (Q1 & K1 & Hobj). rewrite E in *. cbn [fst snd] in *.
    pose proof (C05RUser5.R_cache_get m n0 n1 T _ _ _ _ E HR) as R1.
    assert (Hn1 : forall k', In k' (k :: t) -> nph s1 k') by (intros k' Hk'; eapply nph_qt; [exact Q1 | apply Hn; exact Hk']).
    destruct r as [o|].
    - destruct Hr as [Hbo [ob (Ho & _ & HnD & _)]].
      destruct (Hobj o eq_refl) as (ob' & Ho' & Hid & Hs). rewrite Ho in Ho'. injection Ho' as <-.
      assert (Hnr : r_ref (o_rec ob) = None).
      { destruct (r_ref (o_rec ob)) as [t0|] eqn:Er; [|reflexivity]. exfalso. exact (Hn1 k (or_introl eq_refl) t0 Hs). }
      assert (H1 : hok b D s1 o) by (split; [exact Hbo | exists ob; split; assumption]).
      destruct (inv_hupd_hok _ _ _ _ o (fun r => set_user r u) I1 H1) as [I2 H2]; [reflexivity|].
      destruct (hupd_qt s1 o (fun r => set_user r u) (fun _ => eq_refl) K1) as [Q2 K2].
      destruct H2 as [_ [ob2 [Ho2 HnD2]]].
      assert (Eob2 : ob2 = mkObj (o_id ob) (set_user (o_rec ob) u)).
      { rewrite hget_hupd, Nat.eqb_refl, Ho in Ho2. injection Ho2 as <-. reflexivity. }
      assert (R2 : R5 (hupd s1 o (fun r => set_user r u))).
      { apply C05RUser5.R_hupd; [exact R1|]. intros ob0 Ho0. rewrite Ho in Ho0. injection Ho0 as <-. apply C05RUser5.rok_nonref. exact Hnr. }
      assert (F2 : ffnd (hupd s1 o (fun r => set_user r u))) by (eapply inv_ffnd; exact I2).
      pose proof (cache_set_ff _ _ _ F2 Ho2) as Ecs. rewrite Ecs.
      assert (R3 : R5 (cset (hupd s1 o (fun r => set_user r u)) o ob2)).
      { eapply C05RUser5.R_cache_set; [exact Ecs | exact R2|]. intros ob0 Ho0. rewrite Ho2 in Ho0. injection Ho0 as <-.
        apply C05RUser5.rok_nonref. rewrite Eob2. exact Hnr. }
      assert (Hs2 : sref (hupd s1 o (fun r => set_user r u)) (o_id ob2) = Some (r_ref (o_rec ob2))).
      { destruct (qt_obp _ _ Q2 o ob Ho) as (ob2' & Ho2' & Eid & Eref). rewrite Ho2 in Ho2'. injection Ho2' as <-.
        rewrite (qt_sref _ _ Q2), Eid, Eref, Hid. exact Hs. }
      destruct (cset_qt _ _ _ _ _ _ _ I2 K2 Ho2 Hs2) as [Q3 K3].
      apply IH; [apply inv_cset; assumption | exact K3 | exact R3|].
      intros k' Hk'. eapply nph_qt; [exact Q3|]. eapply nph_qt; [exact Q2|]. apply Hn1. right. exact Hk'.
    - apply IH; [exact I1 | exact K1 | exact R1|]. intros k' Hk'. apply Hn1. right. exact Hk'.
  Qed.

  Lemma R5_logout_user b base D s u : inv b base NX D s -> Kcs s -> C05RUser.R s -> GA s -> R5 s ->
    R5 (fst (logout_user s u)).
  Proof.
    intros I K HR HA H5. unfold logout_user. rewrite p_usersessions_ff by apply (i_plan _ _ _ _ _ I).
    apply (R5_eus b base D); [apply inv_quiet; [repeat constructor | exact I] | exact K | |].
    - eapply C05RUser5.R_same; [| | | |exact H5]; reflexivity.
    - intros k Hk. apply (listed_nph s u); [apply (i_nds _ _ _ _ _ I) | exact HR | apply GA_GR; exact HA | exact Hk].
  Qed.

  Lemma R5_refresh_user b base D s u : inv b base NX D s -> Kcs s -> C05RUser.R s -> GA s -> R5 s ->
    R5 (fst (refresh_user s u)).
  Proof.
    intros I K HR HA H5. unfold refresh_user. rewrite p_usersessions_ff by apply (i_plan _ _ _ _ _ I).
    apply (R5_eus b base D); [apply inv_quiet; [repeat constructor | exact I] | exact K | |].
    - eapply C05RUser5.R_same; [| | | |exact H5]; reflexivity.
    - intros k Hk. apply (listed_nph s (fst u)); [apply (i_nds _ _ _ _ _ I) | exact HR | apply GA_GR; exact HA | exact Hk].
  Qed.

  Lemma R5_login_ex b base D s o u s' res cks : login s o u true = (s', res, cks) ->
    inv b base NX D s -> Kcs s -> C05RUser.R s -> GA s -> R5 s -> C05RUser5.nrp s o -> R5 s'.
  Proof.
    unfold login. intros E I K HR HA H5 Hn.
    destruct (logout_user_inv _ _ _ _ (fst u) I) as (s0 & EL & I0 & _).
    destruct (logout_user_qt _ _ _ _ (fst u) I K) as [Q0' K0].
    pose proof (R5_logout_user _ _ _ s (fst u) I K HR HA H5) as R0.
    rewrite EL in *. cbn [fst] in *. cbv beta iota zeta in E.
    assert (Hn0 : C05RUser5.nrp s0 o).
    { destruct Hn as (ob & Ho & Hr). destruct (qt_obp _ _ Q0' o ob Ho) as (ob' & Ho' & _ & Er). exists ob'. split; [exact Ho' | congruence]. }
    set (s2 := hupd s0 o (fun r => set_user r (Some u))) in *.
    assert (R2 : R5 s2).
    { apply C05RUser5.R_hupd; [exact R0|]. intros ob' Ho'. destruct Hn0 as (ob0 & H0 & Hr0). rewrite H0 in Ho'. injection Ho' as <-.
      apply C05RUser5.rok_nonref. exact Hr0. }
    assert (Hn2 : C05RUser5.nrp s2 o) by (eapply C05RUser5.nrp_kref; [apply C05RUser5.kref_hupd; intro r; destruct r; reflexivity | exact Hn0]).
    destruct (cache_set s2 o) as [s3 ok] eqn:EC.
    pose proof (C05RUser5.R_cache_set m n0 n1 T _ _ _ _ EC R2 (C05RUser5.nrp_touch n0 n1 T _ _ Hn2)) as R3.
    pose proof (C05RUser5.nrp_kref _ _ _ (C05RUser5.kref_stable _ _ (CrashFault9.stable_cache_set _ _ _ _ EC)) Hn2) as Hn3.
    destruct ok; cbn [negb] in E; [|injection E as <- _ _; exact R3].
    destruct (regenerate s3 o) as [[s4 r2] ck4] eqn:ER. pose proof (C05RUser5.R_regenerate m n0 n1 T _ _ _ _ _ ER R3 Hn3) as R4.
    destruct r2; injection E as <- _ _; exact R4.
  Qed.

  Lemma noex5_dec op : C05RUser5.noex op \/ exists u, op = SLogIn u true.
  Proof. destruct op as [k v|k|k|k|u ex| | |]; try (left; exact I). destruct ex; [right; exists u; reflexivity | left; exact I]. Qed.

  Lemma T5_do_sop base s o hc op : TT base s -> hg s o -> R5 s -> R5 (fst (fst (do_sop s o hc op))).
  Proof.
    intros (Hg & HR & HA) Hh H5. pose proof Hg as (I & K & _).
    destruct (do_sop s o hc op) as [[s' r] cks] eqn:E. cbn [fst].
    destruct (noex5_dec op) as [Hn|[u ->]].
    - exact (proj1 (C05RUser5.R_do_sop m n0 n1 T _ _ _ _ _ _ _ E Hn H5 (hg_nrp5 _ _ Hh))).
    - cbn [do_sop] in E. destruct (login s o u true) as [[s1 r1] c1] eqn:EL. injection E as <- _ _.
      eapply R5_login_ex; [exact EL | exact I | exact K | exact HR | exact HA | exact H5 | apply hg_nrp5; exact Hh].
  Qed.

  Lemma T5_run_script base hc : forall ops s o, TT base s -> hg s o -> R5 s ->
    R5 (fst (fst (run_script s o hc ops))).
  Proof.
    induction ops as [|op t IH]; intros s o HT Hh H5; cbn [run_script]; [exact H5|].
    pose proof (T5_do_sop base s o hc op HT Hh H5) as R1.
    destruct (TT_do_sop base s o hc op HT Hh) as (s1 & r & c1 & E & T1 & Hh1). rewrite E in *. cbn [fst] in R1.
    destruct (TT_fire_due base s1 T1) as [T2 Hf]. pose proof (C05RUser5.R_fire_due m n0 n1 T s1 R1) as R2. cbv zeta.
    destruct (match op, r with SDestroy, _ => true | _, SPanic _ => true | _, _ => false end) eqn:Est; [exact R2|].
    assert (Hop : op <> SDestroy) by (intros ->; discriminate).
    specialize (IH (fire_due s1) o T2 (Hf o (Hh1 Hop)) R2).
    destruct (run_script (fire_due s1) o hc t) as [[s3 rs] c3]. exact IH.
  Qed.

  Lemma T5_req_body base s q script : TT base s -> R5 s ->
    R5 (fst (fst (fst (fst (fst (req_body s q script)))))).
  Proof.
    intros HT H5. unfold req_body. destruct (TT_start base s q HT) as (s2 & res & cks & E & T2 & Hh). rewrite E.
    pose proof (proj1 (C05RUser5.R_start m n0 n1 T _ _ _ _ _ E H5)) as R2.
    destruct (TT_fire_due base s2 T2) as [T3 Hf]. pose proof (C05RUser5.R_fire_due m n0 n1 T s2 R2) as R3. cbv zeta.
    destruct res as [[o|]|e|e]; try exact R3.
    pose proof (T5_run_script base (had_cookie q) script (fire_due s2) o T3 (Hf o (Hh o eq_refl)) R3) as R4.
    destruct (run_script (fire_due s2) o (had_cookie q) script) as [[s4 rs] c4]. exact R4.
  Qed.

  Theorem T5_step w h : ff_hop h -> crash_free h -> (forall d, h = HWait d -> (n1 <= m)%N) ->
    TW (w_st w) -> R5 (w_st w) -> R5 (w_st (fst (step w h))).
  Proof.
    intros Hff Hcf Hw HT H5. pose proof HT as (Hl & HR & HA).
    destruct h as [r|d|tbl pl| | |u tbl pl|u tbl pl|c]; cbn [ff_hop crash_free] in *;
      try (apply (C05RUser5.R_step m n0 n1 T); [exact Logic.I | exact Hw | exact H5]).
    - rewrite step_req_eq. cbv zeta. rewrite Hff, Hcf.
      pose proof (T5_req_body _ _ (mkReq (match rq_present r with PJar => jar_of (w_jars w) (rq_client r) | PForge c => c end)
                                         (rq_create r) (rq_addr r) (rq_ua r)) (rq_script r)
                              (TW_TT (w_st w) [] (rq_tb r) HT eq_refl)) as R3.
      match goal with |- context [req_body ?a ?b ?c] => destruct (req_body a b c) as [[[[[s3 rc] st0] sr] fin] cks] end.
      cbn [fst w_st] in *. eapply C05RUser5.R_same; [| | | |apply R3]; try reflexivity.
      eapply C05RUser5.R_same; [| | | |exact H5]; reflexivity.
    - subst pl. cbn [step].
      destruct (TW_TT (w_st w) [] tbl HT eq_refl) as ((I1 & K1 & _) & R1 & A1).
      set (s1 := set_tb (set_plan (set_evs (w_st w) []) []) tbl) in *.
      assert (H1 : R5 s1) by (eapply C05RUser5.R_same; [| | | |exact H5]; reflexivity).
      pose proof (R5_logout_user _ _ _ s1 u I1 K1 R1 A1 H1) as R2.
      destruct (logout_user s1 u) as [s2 res]. cbn [fst w_st] in *. apply C05RUser5.R_fire_due.
      eapply C05RUser5.R_same; [| | | |exact R2]; reflexivity.
    - subst pl. cbn [step].
      destruct (TW_TT (w_st w) [] tbl HT eq_refl) as ((I1 & K1 & _) & R1 & A1).
      set (s1 := set_tb (set_plan (set_evs (w_st w) []) []) tbl) in *.
      assert (H1 : R5 s1) by (eapply C05RUser5.R_same; [| | | |exact H5]; reflexivity).
      pose proof (R5_refresh_user _ _ _ s1 u I1 K1 R1 A1 H1) as R2.
      destruct (refresh_user s1 u) as [s2 res]. cbn [fst w_st] in *. apply C05RUser5.R_fire_due.
      eapply C05RUser5.R_same; [| | | |exact R2]; reflexivity.
  Qed.

  Lemma T5_after : forall hs w, Forall ff_hop hs -> Forall crash_free hs -> (n1 <= m)%N ->
    TW (w_st w) -> R5 (w_st w) -> R5 (w_st (after w hs)).
  Proof.
    induction hs as [|h t IH]; intros w Hff Hcf Hm HT H5; cbn [after]; [exact H5|].
    inversion Hff; inversion Hcf; subst. apply IH; try assumption; [apply TW_step; assumption|].
    apply T5_step; try assumption. intros; exact Hm.
  Qed.
End Thread.

(* ---- the theorem ---- *)

(* before a step, no record names an ID that is not drawn yet *)
Lemma R5_start_state w : TW (w_st w) ->
  C05RUser5.R (supply (w_st w)) (supply (w_st w)) (supply (w_st w)) (now (w_st w)) (w_st w) /\
  forall n1, C05RUser5.R (supply (w_st w)) (supply (w_st w)) n1 (now (w_st w)) (w_st w).
Proof.
  intros (Hl & _ & _). destruct (LI_sess_inv _ Hl) as (_ & _ & _ & (_ & Fs & Fh & _)).
  assert (H : forall n1, C05RUser5.R (supply (w_st w)) (supply (w_st w)) n1 (now (w_st w)) (w_st w)).
  { intro n1. split; [split; [lia | intros _; reflexivity]|]. split.
    - intros o ob Ho n En Hn. destruct (Fh o ob Ho) as [_ Hr]. rewrite En in Hr. cbn in Hr. lia.
    - intros k r Hin n En Hn. destruct (Fs k r Hin) as [_ Hr]. rewrite En in Hr. cbn in Hr. lia. }
  split; [apply H | exact H].
Qed.

(* A replaced-ID record names the ID RegenerateID drew for the session. If that
   ID was drawn by the request step r (from world w, clock T = now (w_st w),
   frozen during the step), then wherever the record is found stored later, its
   lastAccess is T, or T floored to the second. *)
Theorem replaced_instant w r hs2 :
  TW (w_st w) -> rq_plan r = [] -> rq_crash r = None -> Forall ff_hop hs2 -> Forall crash_free hs2 ->
  let w1 := fst (step w (HReq r)) in
  forall k rc n, lookup (store (w_st (after w1 hs2))) k = Some rc -> r_ref rc = Some (KGen n) ->
    (supply (w_st w) <= n < supply (w_st w1))%N ->
    r_created rc = r_access rc /\ (r_access rc = now (w_st w) \/ r_access rc = flo (now (w_st w))).
Proof.
  intros HT Hpl Hcr Hff Hcf w1 k rc n Hl Hr Hn.
  set (n0 := supply (w_st w)) in *. set (n1 := supply (w_st w1)) in *. set (T := now (w_st w)).
  assert (HT1 : TW (w_st w1)) by (apply TW_step; [exact Hpl | exact Hcr | exact HT]).
  assert (HT2 : TW (w_st (after w1 hs2))) by (apply TW_after; assumption).
  (* through the step *)
  assert (R1 : C05RUser5.R n0 n0 n1 T (w_st w1)).
  { apply T5_step; [exact Hpl | exact Hcr | intros d Hd; discriminate Hd | exact HT | apply (proj2 (R5_start_state w HT))]. }
  (* from then on the supply is at least n1 *)
  assert (R1' : C05RUser5.R n1 n0 n1 T (w_st w1)).
  { destruct R1 as (_ & A & B). split; [split; [unfold n1; lia | unfold n1; intro; lia]|]. split; assumption. }
  pose proof (T5_after n1 n0 n1 T hs2 w1 Hff Hcf (N.le_refl _) HT1 R1') as R2.
  destruct R2 as (_ & _ & B). destruct HT2 as (_ & (_ & B0) & _).
  apply lookup_In in Hl. destruct (B0 k rc Hl) as [Eca _]; [rewrite Hr; discriminate|].
  split; [exact Eca|]. rewrite <- Eca. exact (B k rc Hl n Hr Hn).
Qed.

(* C05's last clause measured from the replacement: Expired() of that record is
   true once the grace period has passed since T, and is not true earlier than
   one second before that; exactly at the end of the grace period if the record's
   lastAccess is T itself (it is not floored: gob, or T a whole second) *)
Theorem expired_ref_instant w r hs2 cf t :
  TW (w_st w) -> rq_plan r = [] -> rq_crash r = None -> Forall ff_hop hs2 -> Forall crash_free hs2 ->
  (0 <= c_idexpiry cf)%Z -> (c_grace cf <= max64)%Z ->
  let w1 := fst (step w (HReq r)) in let T := now (w_st w) in
  forall k rc n, lookup (store (w_st (after w1 hs2))) k = Some rc -> r_ref rc = Some (KGen n) ->
    (supply (w_st w) <= n < supply (w_st w1))%N ->
    ((c_grace cf <= since T t)%Z -> expired cf rc t = true) /\
    (expired cf rc t = true -> (c_grace cf - second < since T t)%Z) /\
    (r_access rc = T -> (expired cf rc t = true <-> (c_grace cf <= since T t)%Z)).
Proof.
  intros HT Hpl Hcr Hff Hcf H1 H2 w1 T k rc n Hl Hr Hn.
  destruct (replaced_instant w r hs2 HT Hpl Hcr Hff Hcf k rc n Hl Hr Hn) as [Eca Ha].
  apply expired_slack; [|exact Ha].
  exact (RotateLaws4.expired_ref_grace cf rc t (KGen n) Hr Eca H1 H2).
Qed.
