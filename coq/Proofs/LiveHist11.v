(* C03 at the history level, part 11 (audit finding 6): C03H_live with the
   conclusion "is served its own session" from the initial state, the new
   vocabulary unfolded, and worked histories (non-vacuity):
     - the history of LiveHist7.Ex (rotations, eviction, purge, reload);
     - a history with grace period 0 and SessionIDExpiry 0, where every request
       rotates and the replaced ID IS deleted inside the same step, twice in
       the second request: the deletions are there, none is of the ID the
       session has;
     - a request that comes too late with createIfNew: it "returns a session"
       (all that C03H_live's old conclusion said) but served_own is false. *)
From Sessions Require Import Model.Base Model.Sess Model.Hist Proofs.SessDefs
  Proofs.HistInv Proofs.HistInv2 Proofs.HistInv3
  Proofs.LiveHist Proofs.LiveHist2 Proofs.LiveHist3 Proofs.LiveHist4 Proofs.LiveHist5 Proofs.LiveHist6
  Proofs.LiveHist7 Proofs.LiveHist9 Proofs.LiveHist10.
From Coq Require Import Lia.

Theorem live_hist_own c hs0 cl k r hs :
  Forall (calm (c_json c)) hs0 ->
  jar_of (w_jars (reach c hs0)) cl = CKey k ->
  L (w_st (reach c hs0)) k = Some r -> r_ref r = None ->
  (forall d k', In (d, k') (pending (w_st (reach c hs0))) -> k' <> k) ->
  live_run (c_json c) cl (r_access r) (reach c hs0) hs ->
  all_own cl (reach c hs0) hs.
Proof.
  intros H0 Hjar HL Hr Hp Hl.
  apply (live_run_own (c_json c) cl hs k (r_access r) (reach c hs0)); [|exact Hl].
  apply owns_adopt; [apply W_reach; exact H0 | exact Hjar | exact HL | exact Hr | exact Hp].
Qed.

Theorem live_hist_created_own c hs0 r0 hs :
  Forall (calm (c_json c)) hs0 ->
  rq_present r0 = PJar -> rq_plan r0 = [] -> rq_crash r0 = None -> rq_create r0 = true ->
  (forall k, jar_of (w_jars (reach c hs0)) (rq_client r0) <> CKey k) ->
  existsb is_destroy (rq_script r0) = false ->
  live_run (c_json c) (rq_client r0) (now (w_st (reach c hs0))) (fst (step (reach c hs0) (HReq r0))) hs ->
  all_own (rq_client r0) (reach c hs0) (HReq r0 :: hs).
Proof.
  intros H0 Hpj Hpl Hcr Hcreate Hjar Hscr Hl.
  destruct (owns_create (c_json c) (rq_client r0) (reach c hs0) r0 (W_reach c hs0 H0) eq_refl Hpj Hpl Hcr Hjar Hcreate Hscr)
    as (_ & k' & _ & Ho & _).
  cbn [all_own]. split.
  - intros _. eapply owns_create_served; try eassumption; [apply W_reach; exact H0 | reflexivity].
  - eapply live_run_own; eassumption.
Qed.

(* ------------------------------------------------------- the vocabulary *)

Lemma served_own_meaning c w r :
  served_own c w r <->
  let ob := snd (step w (HReq r)) in
  ob_res ob = RSess /\
  ~ In CkDelete (ob_cookies ob) /\
  (forall k r0, jar_of (w_jars w) c = CKey k -> L (w_st w) k = Some r0 ->
     r_ref r0 = None /\ StartLaws.stale (conf (w_st w)) r0 (now (w_st w)) = false /\
     expired (conf (w_st w)) r0 (now (w_st w)) = false /\
     exists id rc, ob_start ob = Some (id, rc) /\ (id = k \/ id = KGen (supply (w_st w))) /\
       r_ref rc = None /\ r_data rc = r_data r0 /\ r_user rc = r_user r0 /\ r_access rc = now (w_st w)) /\
  exists k' rf, ob_jar ob = CKey k' /\ ob_final ob = Some (k', rf) /\ r_ref rf = None /\
    (forall b, ~ In (EvDelete k' b) (ob_evs ob)) /\
    exists r', L (w_st (fst (step w (HReq r)))) k' = Some r' /\ r_ref r' = None.
Proof. reflexivity. Qed.

Lemma all_own_meaning c w h t :
  all_own c w (h :: t) <->
  match h with HReq r => is_own c h = true -> served_own c w r | _ => True end /\ all_own c (fst (step w h)) t.
Proof. reflexivity. Qed.

Lemma nodel_meaning e : nodel e <-> match e with EvDelete _ _ => False | _ => True end.
Proof. reflexivity. Qed.

Lemma del_of_meaning l e : del_of l e <-> match e with EvDelete k _ => exists d, In (d, k) l | _ => True end.
Proof. reflexivity. Qed.

Lemma req_state_meaning w r :
  req_s1 w r = set_tb (set_plan (set_evs (w_st w) []) []) (rq_tb r) /\
  req_q w r = mkReq (pres w r) (rq_create r) (rq_addr r) (rq_ua r).
Proof. split; reflexivity. Qed.

(* --------------------------------------------------------- non-vacuity *)

Module Ex11.
  Local Open Scope Z_scope.
  Import LiveHist7.Ex.

  (* the worked history of LiveHist7.Ex: every request of client 1 is served
     its own session *)
  Example own_all : all_own 1 w0 (HReq r_create :: hsL).
  Proof.
    apply (live_hist_created_own cfgL [] r_create hsL); [constructor | reflexivity | reflexivity | reflexivity | reflexivity | | reflexivity |].
    - intros k H. vm_compute in H. discriminate H.
    - change (live_run true 1 0 (fst (step w0 (HReq r_create))) hsL). rewrite <- w1_is. exact live_run_holds.
  Qed.

  (* what the model's run shows for those requests: no deletion cookie, the
     data the client wrote is handed back under the kept or the rotated ID *)
  Example own_run :
    map (fun o => (ob_cookies o, option_map (fun x => (fst x, r_data (snd x), r_user (snd x))) (ob_start o)))
        (filter (fun o => match ob_res o with RSess => true | _ => false end) (run cfgL (HReq r_create :: hsL))) =
    [ ([CkLive (KGen 0)], Some (KGen 0, Some [], None));
      ([CkLive (KGen 1)], Some (KGen 1, Some [], None));            (* the other client *)
      ([], Some (KGen 0, Some [(1%N, 2%N)], None));
      ([CkLive (KGen 2)], Some (KGen 2, Some [(1%N, 2%N)], None));  (* rotated by Start *)
      ([CkLive (KGen 3)], Some (KGen 2, Some [(1%N, 2%N); (3%N, 4%N)], None));   (* rotated by LogIn *)
      ([], Some (KGen 3, Some [(1%N, 2%N); (3%N, 4%N); (7%N, 8%N)], Some (5%N, 1%N))) ].
  Proof. vm_compute. reflexivity. Qed.

  (* own_same_object applies: after the creation ID 0 is cached as heap object
     0, and Start hands the client's next request that object *)
  Definition wA : world := reach cfgL [HReq r_create].

  Example same_object_applies :
    exists s2 ck, start (req_s1 wA (own [SGet 1])) (req_q wA (own [SGet 1])) = (s2, Ok (Some 0%nat), ck) /\ ~ In CkDelete ck.
  Proof.
    assert (Hw : W true wA) by (apply (W_reach cfgL); repeat constructor).
    apply (own_same_object true 1 (KGen 0) 0 wA (own [SGet 1]) 0%nat).
    - apply (owns_adopt true 1 (KGen 0) wA (mkRec 0 0 peer1 7 None None (Some [(1%N, 2%N)])));
        [exact Hw | vm_compute; reflexivity | vm_compute; reflexivity | reflexivity | intros d k' H; vm_compute in H; contradiction].
    - reflexivity.
    - reflexivity.
    - crunch.
    - vm_compute. reflexivity.
  Qed.

  (* Rotation at every request, grace period 0, gob store, three cache slots:
     the replaced ID is deleted by its clean-up inside the same step. *)
  Definition cfgZ : cfg := mkCfg (100 * sec) 0 0 (40 * sec) 3 0 true false.
  Definition hsZ : list hop := [ HWait (10 * sec); HReq (own [SSet 3 4; SRegen]); HWait (99 * sec); HReq (own [SGet 3]) ].
  Definition z0 : world := reach cfgZ [].

  Example own_all_Z : all_own 1 z0 (HReq r_create :: hsZ).
  Proof.
    apply (live_hist_created_own cfgZ [] r_create hsZ); [constructor | reflexivity | reflexivity | reflexivity | reflexivity | | reflexivity |].
    - intros k H. vm_compute in H. discriminate H.
    - crunch.
  Qed.

  (* the deletions of the three requests of that run, and the ID the client
     ends each on: 0; 1 then 2 (0 and 1 deleted); 3 (2 deleted) *)
  Example own_run_Z :
    map (fun o => (flat_map (fun e => match e with EvDelete k b => [(k, b)] | _ => [] end) (ob_evs o), ob_jar o, ob_cookies o))
        (filter (fun o => match ob_res o with RSess => true | _ => false end) (run cfgZ (HReq r_create :: hsZ))) =
    [ ([], CKey (KGen 0), [CkLive (KGen 0)]);
      ([(KGen 0, true); (KGen 1, true)], CKey (KGen 2), [CkLive (KGen 1); CkLive (KGen 2)]);
      ([(KGen 2, true)], CKey (KGen 3), [CkLive (KGen 3)]) ].
  Proof. vm_compute. reflexivity. Qed.

  (* Too late, with createIfNew: the request "returns a session" — a new, empty
     one, after the deletion cookie — so the conclusion of C03H_live as it was
     (ob_res = RSess) holds of it, while served_own does not: the hypothesis
     ok_gap is what makes the difference, and the new conclusion sees it. *)
  Definition own_create : reqstep := mkReqStep 1 PJar true peer1 7 [] [] [] None.
  Definition wl : world := reach cfgL [HReq r_create; HWait (100 * sec)].

  Example late_returns_a_session :
    ob_res (snd (step wl (HReq own_create))) = RSess /\
    ob_cookies (snd (step wl (HReq own_create))) = [CkDelete; CkLive (KGen 1)] /\
    option_map (fun x => r_data (snd x)) (ob_start (snd (step wl (HReq own_create)))) = Some (Some []) /\
    In (EvDelete (KGen 0) true) (ob_evs (snd (step wl (HReq own_create)))).
  Proof. vm_compute. repeat split. auto 10. Qed.

  Example late_not_own : ~ served_own 1 wl own_create.
  Proof. intros (_ & H & _). apply H. vm_compute. left. reflexivity. Qed.
End Ex11.
