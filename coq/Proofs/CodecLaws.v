(* C16: the gob round trip over the layouts regenerated from the Go source. *)
From Sessions Require Import Model.Base Model.Codec Gen.Layout Proofs.BaseLemmas Proofs.CodecText Proofs.CodecDefs.
From Coq Require Import Lia ZifyBool ZifyN ZifyNat.
Local Open Scope N_scope.

(* ------------------------------------------------------------------- gob *)

Local Arguments gob_time : simpl never.

Ltac gob_eval load Ec Ea :=
  cbn; rewrite ?Ec, ?Ea; unfold gob_decode; cbn;
  try match goal with |- context [load ?x] => destruct (load x) end;
  cbn; reflexivity.

(* The round trip, for the layouts as generated. The proof evaluates the two
   interpreters on a symbolic session (every field a variable), so it holds
   for all sessions and re-checks whatever the layouts currently are. *)
Lemma gob_roundtrip_lemma (load : loader) (s : csess) :
  gob_dom s = true ->
  gob_roundtrip load gob_version gob_enc gob_dec s = gob_norm load s.
Proof.
  destruct s as [cr la ip ua rf us da]. unfold gob_dom. cbn [cs_created cs_access].
  intro H. apply andb_true_iff in H as [Hc Ha].
  assert (Ec := gob_time_exact cr Hc). assert (Ea := gob_time_exact la Ha).
  unfold gob_roundtrip, gob_norm, gob_version, gob_enc, gob_dec.
  destruct us as [u|]; destruct da as [m|]; gob_eval load Ec Ea.
Qed.

(* Outside the exact domain the instants still survive; only the offset is
   what time's binary form makes of it. *)
Definition gob_time_back (t : gtime) : gtime := mkTime (t_sec t) (t_nsec t) (gob_off_back (t_off t)).

Lemma gob_roundtrip_any_offset (load : loader) (s : csess) :
  gob_off_ok (t_off (cs_created s)) = true -> gob_off_ok (t_off (cs_access s)) = true ->
  gob_roundtrip load gob_version gob_enc gob_dec s =
  gob_norm load (set_created (gob_time_back (cs_created s)) (set_access (gob_time_back (cs_access s)) s)).
Proof.
  destruct s as [cr la ip ua rf us da]. cbn [cs_created cs_access].
  intros Hc Ha.
  assert (Ec : gob_time cr = Ok (gob_time_back cr)) by (unfold gob_time; rewrite Hc; reflexivity).
  assert (Ea : gob_time la = Ok (gob_time_back la)) by (unfold gob_time; rewrite Ha; reflexivity).
  unfold gob_roundtrip, gob_norm, gob_version, gob_enc, gob_dec.
  destruct us as [u|]; destruct da as [m|]; gob_eval load Ec Ea.
Qed.

(* A zone offset the binary form refuses makes GobEncode return an error. *)
Lemma gob_bad_offset_errs (load : loader) (s : csess) :
  gob_off_ok (t_off (cs_created s)) = false ->
  gob_enc = layout_v1 -> gob_roundtrip load gob_version gob_enc gob_dec s = Err.
Proof.
  intros H E. unfold gob_roundtrip. rewrite E. unfold layout_v1.
  cbn [gob_encode gob_field_val rbind]. unfold gob_time. rewrite H. reflexivity.
Qed.

Example gob_roundtrip_nonvacuous :
  gob_dom ex_sess = true /\ gob_dom ex_placeholder = true /\
  gob_roundtrip (case_load 0) gob_version gob_enc gob_dec ex_sess
    = Ok (set_user (Some (mkUser (DInt 42) 7)) ex_sess) /\
  gob_roundtrip (case_load 0) gob_version gob_enc gob_dec ex_placeholder
    = Ok (set_data (Some []) ex_placeholder) /\
  gob_roundtrip (case_load 1) gob_version gob_enc gob_dec ex_sess = Err.
Proof. repeat split; vm_compute; reflexivity. Qed.

(* what the pinned obligation is for: a layout reordered on both sides still
   round-trips, but no longer reads what the pinned version wrote *)
Example gob_symmetric_reorder :
  let L := [GF GVersion; GF GAccess; GF GCreated; GF GIP; GF GUA; GF GRef; GF GLogin; GIf [GUserID]; GF GData] in
  gob_roundtrip (case_load 0) 1 L L ex_placeholder = Ok (set_data (Some []) ex_placeholder) /\
  gob_roundtrip (case_load 0) 1 layout_v1 L ex_sess <> gob_norm (case_load 0) ex_sess.
Proof. split; vm_compute; [reflexivity | discriminate]. Qed.
