(* C01, liveness half, what is proved: (1) a request step of a cookie-following
   client whose jar ID resolves, in the state before the step, to a session
   record that passes Start's validity check is given that very session (same
   data and user; the ID kept, or rotated), for every configuration with a
   non-negative grace period; with the jar invariant of the safety half its
   content is the ghost's. (2) C03's run theorem instantiated at a client of a
   state satisfying the jar invariant: requests spaced closer than SessionExpiry
   are served however the session is evicted and reloaded in between. *)
From Sessions Require Import Model.Base Model.Sess Model.Hist Model.Corr Proofs.SessDefs
  Proofs.WriteThrough Proofs.WriteThrough3 Proofs.WriteThrough5
  Proofs.RotateLaws Proofs.RotateLaws2 Proofs.RotateLaws3 Proofs.RotateLaws4
  Proofs.C01Spec Proofs.C01Hist Proofs.C01Hist6 Proofs.C01Hist7 Proofs.C01Hist9 Proofs.C01Live.
From Sessions Require Proofs.HistInv Proofs.HistInv3 Proofs.StartLaws Proofs.StartLaws2 Proofs.StartLaws4 Proofs.StartLaws5.
From Coq Require Import Lia.

Lemma heap_fire_due s : plan s = [] -> heap (fire_due s) = heap s.
Proof.
  intro Hp. unfold fire_due.
  pose proof (RotateLaws4.fire_spec (pending s) (set_pending s []) Hp) as H. cbn zeta in H.
  destruct (fire (set_pending s []) (pending s)) as [s1 rest]. cbn [fst snd] in H.
  destruct H as (_ & _ & _ & Hh & _). cbn. exact Hh.
Qed.

Lemma content_seen r t q : content_of (seen_rec r t q) = content_of r.
Proof. destruct r; reflexivity. Qed.

Lemma content_rot r t : content_of (rot_rec r t) = content_of r.
Proof. destruct r; reflexivity. Qed.

(* the state a request step hands to Start *)
Definition prep (w : world) (r : reqstep) : st :=
  set_tb (set_plan (set_evs (w_st w) []) []) (rq_tb r).

(* Start on the prepared state, for a jar ID that resolves to a valid session *)
Lemma start_live w r k r0 :
  HistInv3.winv 0 HistInv.ND (w_st w) ->
  L (w_st w) k = Some r0 -> r_ref r0 = None ->
  let q := mkReq (CKey k) (rq_create r) (rq_addr r) (rq_ua r) in
  valid_for (conf (w_st w)) r0 (now (w_st w)) q = true -> cfg_ok (conf (w_st w)) ->
  exists s' o id rc cks, start (prep w r) q = (s', Ok (Some o), cks) /\
    hget s' o = Some (mkObj id rc) /\ content_of rc = content_of r0 /\
    (cks = [] \/ exists j, cks = [CkLive j]).
Proof.
  intros HW HL Hrf q Hval Hcfg.
  destruct (HistInv3.winv_sessdefs 0 HistInv.ND (w_st w) HW) as (Hp & Hco & Hnd & Hfr).
  apply HistInv3.fresh_from_0 in Hfr.
  set (s1 := prep w r).
  assert (Hp1 : plan s1 = []) by reflexivity.
  assert (Hco1 : cache_ok s1) by exact Hco.
  assert (Hnd1 : nodup_ok s1) by exact Hnd.
  assert (Hfr1 : fresh_ok s1) by exact Hfr.
  assert (HL1 : L s1 k = Some r0) by exact HL.
  destruct (Z_lt_le_dec (since (r_created r0) (now s1)) (c_idexpiry (conf s1))) as [Hage|Hage].
  - destruct (start_keep s1 q k r0 Hp1 Hco1 Hnd1 Hfr1 Hcfg eq_refl HL1 Hrf Hval Hage)
      as (s' & o & Hs & _ & _ & Hg & _).
    exists s', o, k, (seen_rec r0 (now s1) q), []. split; [exact Hs|]. split; [exact Hg|].
    split; [apply content_seen | left; reflexivity].
  - destruct (start_rotate s1 q k r0 Hp1 Hco1 Hnd1 Hfr1 eq_refl HL1 Hrf Hval Hage)
      as (s' & o & Hs & _ & _ & Hg & _).
    exists s', o, (KGen (supply s1)), (seen_rec (rot_rec r0 (now s1)) (now s1) q), [CkLive (KGen (supply s1))].
    split; [exact Hs|]. split; [exact Hg|]. split; [rewrite content_seen; apply content_rot | right; eauto].
Qed.

(* the request step: served, and what it reports as the returned session *)
Theorem live_step w g r k r0 :
  JI w g -> wf_req r = true -> rq_present r = PJar ->
  jar_of (w_jars w) (rq_client r) = CKey k ->
  L (w_st w) k = Some r0 -> r_ref r0 = None ->
  valid_for (conf (w_st w)) r0 (now (w_st w)) (mkReq (CKey k) (rq_create r) (rq_addr r) (rq_ua r)) = true ->
  cfg_ok (conf (w_st w)) ->
  served w r = true /\
  ob_res (snd (step w (HReq r))) = RSess /\
  exists id rc, ob_start (snd (step w (HReq r))) = Some (id, rc) /\ content_of rc = content_of r0 /\
                g_get g (rq_client r) = Some (content_of rc).
Proof.
  intros HJ Hwf Hpj Hjar HL Hrf Hval Hcfg.
  unfold wf_req in Hwf. apply andb_prop in Hwf. destruct Hwf as [Hpl Hcr].
  assert (Hpl' : rq_plan r = []) by (destruct (rq_plan r); [reflexivity | discriminate]).
  assert (Hcr' : rq_crash r = None) by (destruct (rq_crash r); [discriminate | reflexivity]).
  destruct (start_live w r k r0 (ji_pf _ _ HJ) HL Hrf Hval Hcfg) as (s' & o & id & rc & cks & Hs & Hg & Hct & Hck).
  split; [|split].
  - unfold served. cbv zeta. rewrite Hpl', Hjar. unfold prep in Hs. rewrite Hs.
    destruct Hck as [->|(j & ->)]; reflexivity.
  - rewrite (step_req_shape w r Hpl' Hcr' Hpj). cbv zeta. rewrite Hjar.
    unfold req_body, HistInv3.req_body. unfold prep in Hs. rewrite Hs.
    destruct (run_script _ _ _ _) as [[s3 sr] cks']. reflexivity.
  - assert (HI1 : Inv noex (prep w r)).
    { apply (Inv_core noex (w_st w)); [apply core_prep; apply (inv_plan _ _ (ji_inv _ _ HJ)) | apply (ji_inv _ _ HJ)]. }
    pose proof (start_spec (prep w r) (mkReq (CKey k) (rq_create r) (rq_addr r) (rq_ua r)) HI1) as HS.
    rewrite Hs in HS. destruct HS as (HI' & _). cbn [fst] in HI'.
    exists id, rc. split; [|split; [exact Hct|]].
    + rewrite (step_req_shape w r Hpl' Hcr' Hpj). cbv zeta. rewrite Hjar.
      unfold req_body, HistInv3.req_body. unfold prep in Hs. rewrite Hs.
      assert (Hv : handle_view (fire_due s') o = Some (id, rc)).
      { unfold handle_view. rewrite (hget_heap _ s' o (heap_fire_due s' (inv_plan _ _ HI'))), Hg. reflexivity. }
      rewrite Hv. destruct (run_script _ _ _ _) as [[s3 sr] cks']. reflexivity.
    + (* the ghost holds that content *)
      pose proof (ji_jar _ _ HJ (rq_client r)) as Hj. rewrite Hjar in Hj.
      destruct (g_get g (rq_client r)) as [d|]; cbn in Hj; [|discriminate Hj].
      destruct Hj as (k' & E & _ & _ & Hvw). injection E as <-.
      unfold view in Hvw. rewrite HL in Hvw. cbn [option_map] in Hvw. destruct Hvw as [Hvw|Hvw]; [discriminate Hvw|].
      assert (Hd : content_of r0 = d) by (unfold cont in Hvw; congruence). rewrite Hct, Hd. reflexivity.
Qed.

(* C03's run theorem at a client of a state satisfying the jar invariant *)
Theorem live_run_client w g c k rl l :
  JI w g -> jar_of (w_jars w) c = CKey k -> L (w_st w) k = Some rl -> r_ref rl = None ->
  c_maxcache (conf (w_st w)) <> 0%Z ->
  (0 <= c_expiry (conf (w_st w)))%Z -> (0 <= c_grace (conf (w_st w)))%Z -> (c_idexpiry (conf (w_st w)) <= max64)%Z ->
  StartLaws5.spaced (conf (w_st w)) (r_created (codec (conf (w_st w)) rl)) (r_access rl) (r_ip rl) (r_ua rl) l ->
  StartLaws5.always_served k (durable (codec (conf (w_st w)) rl)) l (w_st w) /\
  g_get g c = Some (content_of rl).
Proof.
  intros HJ Hjar HL Hrf Hmx He Hgr Hid Hsp. pose proof (ji_inv _ _ HJ) as HI. split.
  - apply (StartLaws5.live_run k _ l (w_st w) rl); auto.
    apply StartLaws5.live_inv_init; auto.
    split; [apply (inv_plan _ _ HI)|]. split; [apply Inv_cache_ok; exact HI | apply (inv_nodup _ _ HI)].
  - pose proof (ji_jar _ _ HJ c) as Hj. rewrite Hjar in Hj.
    destruct (g_get g c) as [d|]; cbn in Hj; [|discriminate Hj].
    destruct Hj as (k' & E & _ & _ & Hvw). injection E as <-.
    unfold view in Hvw. rewrite HL in Hvw. cbn [option_map] in Hvw. destruct Hvw as [Hvw|Hvw]; [discriminate Hvw|].
    assert (Hd : content_of rl = d) by (unfold cont in Hvw; congruence). rewrite Hd. reflexivity.
Qed.
