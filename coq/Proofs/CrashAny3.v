(* R10, C10: every chain of replaced-ID records that resolves in the store before a
   fault-free request step still resolves in the store that a process stop after
   ANY number n of the step's persistence calls leaves - provided the events that
   the stop keeps (the first n calls) contain no deletion: the stop precedes any
   Destroy, invalidation by Start or clean-up that the step would go on to make.

   The pieces: (1) nothing stored disappears (no deletion in the log); (2) each
   replaced-ID record of the chain is immutable (LXIx_step of LineageG2.v, at any
   crash point); (3) what the step writes under the ID of a SESSION of the
   pre-state is that session's record or a replaced-ID record naming an ID drawn
   by this step (the instance QF/KF of LineageG.v below); (4) replaced-ID records
   name IDs with larger ordinals (RWs at the crash state: crash_LNb) that the
   store holds (no_dangling_fresh of CrashAny2.v) - so following them from the
   session's old ID ends at a session record under that ID or under an ID drawn by
   the step.

   graves_drawn s: the index of deleted IDs mentions only drawn IDs (holds in
   reachable states; not yet part of LIx, so it is a hypothesis here).

   No axioms; standard library only. *)
From Sessions Require Import Model.Base Model.Sess Model.Hist Proofs.SessDefs
  Proofs.HistInv Proofs.HistInv2 Proofs.HistInv3 Proofs.HistLift Proofs.HistLift2 Proofs.HistLift3
  Proofs.HistLift4 Proofs.HistLiftB Proofs.Lineage Proofs.Lineage5 Proofs.LineageB Proofs.LineageK Proofs.LineageK3
  Proofs.LineageK4 Proofs.LineageF Proofs.LineageG2 Proofs.CrashAny Proofs.CrashAny2.
From Sessions Require Proofs.LineageG Proofs.CrashFault Proofs.CrashFault2 Proofs.CrashFault3 Proofs.CrashFault13 Proofs.CrashChain.
From Coq Require Import Lia ZifyBool ZifyNat ZifyN.

Definition fresh_from_n (n0 : N) (t : key) : Prop := exists m, t = KGen m /\ (n0 <= m)%N.

Definition graves_drawn (s : st) : Prop := forall k, lookup (graves s) k <> None -> key_drawn s k.

Definition no_deletes (l : list ev) : Prop := Forall (fun e => CrashFault.is_delete e = false) l.

(* ------------------------------------------------ what is written under a session's ID *)

Section Fr.
  Variable n0 : N.
  Variable S0 : key -> Prop.

  Definition QF (s : st) : Prop :=
    (n0 <= supply s)%N /\ forall k t, S0 k -> sref s k = Some (Some t) -> fresh_from_n n0 t.

  Definition KF (k : key) (x : option key) : Prop := S0 k -> forall t, x = Some t -> fresh_from_n n0 t.

  Lemma QF_same s s' : (forall k, sref s' k = sref s k) -> supply s' = supply s -> QF s -> QF s'.
  Proof. intros Hs Hn [A B]. split; [rewrite Hn; exact A|]. intros k t Hk H. rewrite Hs in H. exact (B k t Hk H). Qed.

  Lemma QF_new s s' k : eff_new s s' k -> QF s -> QF s'.
  Proof.
    intros E [A B]. split; [rewrite (en_supply _ _ _ E); lia|]. intros k' t Hk H.
    destruct (key_eq_dec k' k) as [->|Hne]; [rewrite (en_new _ _ _ E) in H; discriminate|].
    rewrite (en_oth _ _ _ E k' Hne) in H. exact (B k' t Hk H).
  Qed.

  Lemma QF_repl s s' old : eff_repl s s' old -> QF s -> QF s'.
  Proof.
    intros E [A B]. split; [rewrite (er_supply _ _ _ E); lia|]. intros k' t Hk H.
    destruct (key_eq_dec k' old) as [->|N1].
    - rewrite (er_old' _ _ _ E) in H. injection H as <-. exists (supply s). split; [reflexivity | exact A].
    - destruct (key_eq_dec k' (KGen (supply s))) as [->|N2]; [rewrite (er_new' _ _ _ E) in H; discriminate|].
      rewrite (er_oth _ _ _ E k' N1 N2) in H. exact (B k' t Hk H).
  Qed.

  Lemma QF_del s s' k : eff_del s s' k -> QF s -> QF s'.
  Proof.
    intros E [A B]. split; [rewrite (ed_supply _ _ _ E); exact A|]. intros k' t Hk H.
    destruct (key_eq_dec k' k) as [->|Hne]; [rewrite (ed_gone _ _ _ E) in H; discriminate|].
    rewrite (ed_oth _ _ _ E k' Hne) in H. exact (B k' t Hk H).
  Qed.

  Lemma QF_fire s s' : eff_fire s s' -> QF s -> QF s'.
  Proof.
    intros E [A B]. split; [rewrite (ef_supply _ _ E); exact A|]. intros k t Hk H.
    destruct (ef_sref _ _ E k) as [Es|[Es _]]; rewrite Es in H; [exact (B k t Hk H) | discriminate].
  Qed.

  Lemma KF_sref s k x : QF s -> sref s k = Some x -> KF k x.
  Proof. intros [_ B] Hs Hk t ->. exact (B k t Hk Hs). Qed.

  Lemma KF_fresh s : QF s -> KF (KGen (supply s)) None.
  Proof. intros _ _ t E. discriminate. Qed.

  Lemma KF_repl s k : QF s -> sref s k = Some None -> KF k (Some (KGen (supply s))).
  Proof. intros [A _] _ _ t E. injection E as <-. exists (supply s). split; [reflexivity | exact A]. Qed.

  Lemma QF_crash s s' : QF s -> (supply s <= supply s')%N ->
    (forall k r, lookup (store s') k = Some r -> KF k (r_ref r)) -> QF s'.
  Proof.
    intros [A _] Hs Hst. split; [lia|]. intros k t Hk H. unfold sref in H.
    destruct (lookup (store s') k) as [r|] eqn:Hl; [|discriminate]. cbn [option_map] in H. injection H as H.
    exact (Hst k r Hl Hk t H).
  Qed.

  (* the crash step keeps QF, whatever the crash point *)
  Lemma QF_crash_step b w r n : LIb b (w_st w) -> QF (w_st w) -> rq_plan r = [] -> rq_crash r = Some n ->
    QF (w_st (fst (step w (HReq r)))).
  Proof.
    intros (W & Kc & P & A) Hq Hpl Hcr.
    assert (Hl : LineageG.LXb b QF (w_st w)) by (split; [exact W | split; [exact Kc | split; [exact P | split; assumption]]]).
    destruct (LineageG.crash_LXb b QF QF_same QF_new QF_repl QF_del QF_fire KF KF_sref KF_fresh KF_repl QF_crash w r n Hl Hpl Hcr)
      as (b' & _ & _ & _ & [_ H]).
    exact H.
  Qed.
End Fr.

(* ------------------------------------------------ the store a stop leaves, when nothing is deleted *)

Section Stop.
  Variables (w : world) (r : reqstep) (n : nat).
  Hypothesis Hli : LIx (w_st w).
  Hypothesis Hgd : graves_drawn (w_st w).
  Hypothesis Hpl : rq_plan r = [].
  Hypothesis Hcr : rq_crash r = Some n.
  (* the events that the stop keeps contain no deletion (what comes later never happened) *)
  Hypothesis Hnd : no_deletes (ev_prefix (ob_evs (snd (step w (HReq (nocrash r))))) n).

  Let s0 := w_st w.
  Let s' := w_st (fst (step w (HReq r))).
  Let pre := ev_prefix (ob_evs (snd (step w (HReq (nocrash r))))) n.

  Lemma pre_nd : Forall (fun e => CrashFault.is_delete e = false) pre.
  Proof. exact Hnd. Qed.

  Lemma sg_eq : (store s', graves s') = fold_left apply_ev pre (store s0, graves s0).
  Proof. exact (crash_sg w r n Hcr). Qed.

  Lemma graves_same : forall l sg, Forall (fun e => CrashFault.is_delete e = false) l -> snd (fold_left apply_ev l sg) = snd sg.
  Proof.
    induction l as [|e l IH]; intros sg HF; [reflexivity|]. inversion HF as [|? ? He Hl]; subst. cbn [fold_left].
    rewrite (IH _ Hl). destruct sg as [stor gr]. destruct e as [k ok|u ok|k rc ok|k ok|u ok|d]; try reflexivity; try discriminate.
    destruct ok; reflexivity.
  Qed.

  Lemma graves_kept : graves s' = graves s0.
  Proof.
    pose proof sg_eq as E. apply (f_equal snd) in E. cbn [snd] in E. rewrite E. exact (graves_same _ _ pre_nd).
  Qed.

  Lemma stored_kept k : lookup (store s0) k <> None -> lookup (store s') k <> None.
  Proof.
    intro H. pose proof sg_eq as E. apply (f_equal fst) in E. cbn [fst] in E. rewrite E.
    apply (CrashFault3.present_replay pre (store s0, graves s0) k H pre_nd).
  Qed.

  Lemma LIx_stop : LIx s'.
  Proof. apply (LIx_step w (HReq r) Hli Hpl). Qed.

  (* (2) a replaced-ID record of the pre-state is still there, unchanged in its target *)
  Lemma edge_kept k rk t : lookup (store s0) k = Some rk -> r_ref rk = Some t ->
    exists rk', lookup (store s') k = Some rk' /\ r_ref rk' = Some t.
  Proof.
    intros Hl Hr. destruct Hli as [b Hb].
    assert (Hs : sref s0 k = Some (Some t)) by (rewrite (sref_lookup _ _ _ Hl), Hr; reflexivity).
    assert (H0 : LXIx k t s0).
    { exists b. apply LIb_LXI; [exact Hb|]. split; [exact (LIb_stored_drawn b _ _ _ Hb Hs) | right; exact Hs]. }
    destruct (LXIx_step k t w (HReq r) H0 Hpl) as [b' H1].
    destruct (LXI_QI k t b' _ H1) as [_ [Hd|Hd]]; fold s' in Hd.
    - exfalso. apply (stored_kept k); [rewrite Hl; discriminate|]. unfold sref in Hd.
      destruct (lookup (store s') k); [discriminate | reflexivity].
    - exact (stored_of_sref s' k _ Hd).
  Qed.

  (* (4) from an ID drawn by this step that the store holds: a path to a session record *)
  Lemma tail_fresh : forall f m, (supply s' <= m + N.of_nat f)%N -> (supply s0 <= m)%N ->
    lookup (store s') (KGen m) <> None ->
    exists tl, CrashChain.spath (fun _ => True) (store s') (KGen m) tl /\ Forall (fresh_from_n (supply s0)) tl.
  Proof.
    pose proof LIx_stop as [b' (_ & _ & _ & [Hw _])].
    induction f as [|f IH]; intros m Hf Hm Hst; [cbn [N.of_nat] in Hf | rewrite Nat2N.inj_succ in Hf].
    - (* the ordinal of a stored ID is below the supply *)
      destruct (lookup (store s') (KGen m)) as [rk|] eqn:Hl; [|congruence].
      destruct (r_ref rk) as [t|] eqn:Hr.
      + destruct (Hw (KGen m) t) as (m' & -> & Hm' & Hj); [rewrite (sref_lookup _ _ _ Hl), Hr; reflexivity|].
        specialize (Hj m eq_refl). exfalso. lia.
      + exists []. split; [exists rk; auto | constructor].
    - destruct (lookup (store s') (KGen m)) as [rk|] eqn:Hl; [|congruence].
      destruct (r_ref rk) as [t|] eqn:Hr; [|exists []; split; [exists rk; auto | constructor]].
      destruct (Hw (KGen m) t) as (m' & -> & Hm' & Hj); [rewrite (sref_lookup _ _ _ Hl), Hr; reflexivity|].
      specialize (Hj m eq_refl).
      assert (Hst' : lookup (store s') (KGen m') <> None).
      { destruct (no_dangling_fresh w r n Hli Hpl Hcr (KGen m) rk m' Hl Hr) as [A|A]; [unfold s0 in Hm; lia | exact A|].
        exfalso. fold s' in A. rewrite graves_kept in A. apply Hgd in A. unfold key_drawn in A. fold s0 in A. lia. }
      destruct (IH m') as (tl & Hp & Hfr); [lia | lia | exact Hst'|].
      exists (KGen m' :: tl). split; [split; [exists rk; auto | exact Hp]|].
      constructor; [exists m'; split; [reflexivity | lia] | exact Hfr].
  Qed.

  (* (3)+(4) from the ID of a session of the pre-state *)
  Lemma tail_session kn rk : lookup (store s0) kn = Some rk -> r_ref rk = None ->
    exists tl, CrashChain.spath (fun _ => True) (store s') kn tl /\ Forall (fresh_from_n (supply s0)) tl.
  Proof.
    intros Hl Hr. destruct Hli as [b Hb].
    assert (Hs0 : sref s0 kn = Some None) by (rewrite (sref_lookup _ _ _ Hl), Hr; reflexivity).
    assert (Hq0 : QF (supply s0) (fun k => sref s0 k = Some None) s0).
    { split; [lia|]. intros k t Hk H. rewrite Hk in H. discriminate. }
    destruct (QF_crash_step (supply s0) (fun k => sref s0 k = Some None) b w r n Hb Hq0 Hpl Hcr) as [_ Hq]. fold s' in Hq.
    destruct (lookup (store s') kn) as [rk'|] eqn:Hl'; [|exfalso; apply (stored_kept kn); [rewrite Hl; discriminate | exact Hl']].
    destruct (r_ref rk') as [t|] eqn:Hr'; [|exists []; split; [exists rk'; auto | constructor]].
    destruct (Hq kn t Hs0) as (m & -> & Hm); [rewrite (sref_lookup _ _ _ Hl'), Hr'; reflexivity|].
    assert (Hst : lookup (store s') (KGen m) <> None).
    { destruct (no_dangling_fresh w r n Hli Hpl Hcr kn rk' m Hl' Hr' Hm) as [A|A]; [exact A|].
      exfalso. fold s' in A. rewrite graves_kept in A. apply Hgd in A. unfold key_drawn in A. fold s0 in A. lia. }
    destruct (tail_fresh (N.to_nat (supply s')) m) as (tl & Hp & Hfr); [rewrite N2Nat.id; lia | exact Hm | exact Hst|].
    exists (KGen m :: tl). split; [split; [exists rk'; auto | exact Hp]|].
    constructor; [exists m; split; [reflexivity | exact Hm] | exact Hfr].
  Qed.

  (* every chain of the pre-state still resolves, through the same replaced-ID
     records and then through IDs drawn by this step only *)
  Theorem chain_resolves_stop k0 rest :
    CrashChain.spath (fun _ => True) (store s0) k0 rest ->
    exists tl, CrashChain.spath (fun _ => True) (store s') k0 (rest ++ tl) /\ Forall (fresh_from_n (supply s0)) tl.
  Proof.
    intro Hp.
    assert (HE : CrashChain.edges_in (store s') (CrashChain.path_edges k0 rest)).
    { intros k t Hin. destruct (CrashChain.spath_edges _ _ _ _ Hp k t Hin) as (rk & Hl & Hr). exact (edge_kept k rk t Hl Hr). }
    assert (Hend : exists rk, lookup (store s0) (last rest k0) = Some rk /\ r_ref rk = None).
    { clear HE. revert k0 Hp. induction rest as [|k' t IH]; intros k0 Hp.
      - destruct Hp as (rk & A & B & _). exists rk. auto.
      - destruct Hp as [_ Hp]. rewrite CrashChain.last_cons. exact (IH k' Hp). }
    destruct Hend as (rk & Hl & Hr). destruct (tail_session _ rk Hl Hr) as (tl & Ht & Hfr).
    exists tl. split; [apply CrashChain.spath_app; assumption | exact Hfr].
  Qed.
End Stop.
