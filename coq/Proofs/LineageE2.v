(* Round 4, task R4(a), C07: the persistence calls of a request step respect the
   lineage - part 2: Start, the handler operations, scripts, whole request steps.

   E_start, E_logout, E_login, E_do_sop, E_run_script, E_req_body: from a state
   satisfying G (Q1 D) every one of them appends only events satisfying EL D
   (LineageE.v). They follow the proofs of start_G .. req_body_G of HistLift3.v,
   which supply the invariant at the points between the calls.

   step_events: every event of a fault-free request step (run to completion) from
   a world satisfying LN D satisfies EL D. Hence events_statement of LineageK4.v.

   No axioms; standard library only. *)
From Sessions Require Import Model.Base Model.Sess Model.Hist Proofs.SessDefs
  Proofs.HistInv Proofs.HistInv2 Proofs.HistInv3 Proofs.HistLift Proofs.HistLift2 Proofs.HistLift3
  Proofs.HistLift4 Proofs.HistLiftB Proofs.Lineage Proofs.Lineage2 Proofs.LineageB Proofs.LineageK Proofs.LineageK3 Proofs.LineageK4 Proofs.LineageE.
From Sessions Require Proofs.CrashFault.
From Coq Require Import Lia.

Section Ev2.
  Variable b : nat.
  Variable D : key -> Prop.
  Notation Q1 := (Q1 D).
  Notation K := (K D).
  Notation evs_ok := (evs_ok D).

  Lemma G_qt1 base s s' : inv b base NX ND s' -> Kcs s' -> qt s s' -> Gb b Q1 base s -> Gb b Q1 base s'.
  Proof. apply (Gb_qt b Q1 (Q1_qt D)). Qed.

  Lemma hget_hupd_same s o ob f : hget s o = Some ob -> hget (hupd s o f) o = Some (mkObj (o_id ob) (f (o_rec ob))).
  Proof. intro Ho. rewrite (CrashFault.hupd_spec _ _ _ _ Ho). apply hget_hput_same. eapply hget_Some_lt. exact Ho. Qed.

  (* update the handler's object, then save it directly *)
  Lemma E_upd_save s o ob f : hget s o = Some ob -> K (o_id ob) (o_rec ob) -> (forall r, r_ref (f r) = r_ref r) ->
    evs_ok s (fst (save_direct (hupd s o f) o)).
  Proof.
    intros Ho HK Hf. destruct (save_direct (hupd s o f) o) as [s' r] eqn:E. cbn [fst].
    eapply evs_ok_trans; [apply evs_ok_hupd|].
    eapply (E_save_direct D _ o _ s' r (hget_hupd_same s o ob f Ho)); [|exact E].
    cbn [o_id o_rec]. eapply K_ref; [apply Hf | exact HK].
  Qed.

  (* ---------------------------------------------------------------- Start *)

  Lemma E_start_none base s q cks0 : Gb b Q1 base s -> evs_ok s (fst (fst (start_none s q cks0))).
  Proof.
    intro Hg. unfold start_none. destruct (q_create q); [|apply evs_ok_refl].
    destruct (create_session s q) as [[s1 r1] c1] eqn:E. cbn [fst]. exact (E_create b D _ _ _ _ _ _ Hg E).
  Qed.

  Lemma E_start_found base c s q k o ob cks :
    Gb b Q1 base s -> b <= o -> hget s o = Some ob -> o_id ob = k -> sc s o ->
    evs_ok s (fst (fst (start_found c s q k o ob cks))).
  Proof.
    intros Hg Hbo Ho Hid Hsc. pose proof Hg as (I & Kc & P & Hq).
    assert (F : ffnd s) by (eapply inv_ffnd; exact I). assert (Hp : plan s = []) by apply F.
    assert (Hs : sref s (o_id ob) = Some (r_ref (o_rec ob))).
    { destruct Hsc as (ob' & Ho' & Hs). rewrite Ho in Ho'. injection Ho' as <-. exact Hs. }
    assert (Hdel : forall k', evs_ok s (fst (cache_delete s k'))).
    { intro k'. destruct (cache_delete s k') as [s1 okd] eqn:Ed. exact (E_cache_delete D _ _ _ _ Ed). }
    destruct (rec_valid c (now s) q (o_rec ob)) eqn:Hv.
    - destruct (r_ref (o_rec ob)) as [t|] eqn:Hr.
      + destruct (sat_add (c_idexpiry c) (c_grace c) <=? since (r_created (o_rec ob)) (now s))%Z eqn:Hb.
        * rewrite sf_backstop; [| exact Hp | exact Hv | unfold isref; rewrite Hr; reflexivity | exact Hb]. apply Hdel.
        * rewrite (sf_ref _ _ _ _ _ _ _ t Hv Hr Hb).
          assert (Hok : hok b ND s o) by (split; [exact Hbo | exists ob; split; [exact Ho | intros []]]).
          pose proof (E_follow b D base (S (N.to_nat (supply s))) s o k Hg Hok Hsc) as Ef.
          destruct (follow (S (N.to_nat (supply s))) s o k) as [s1 [[o' lk']|e|e]]; cbn [fst] in *; try exact Ef.
          eapply evs_ok_trans; [exact Ef | apply evs_ok_hupd].
      + assert (Hh : hg s o) by (exists ob; split; [exact Ho | split; [exact Hr | exact Hs]]).
        destruct (c_idexpiry c <=? since (r_created (o_rec ob)) (now s))%Z eqn:Ha.
        * rewrite (sf_rotate _ _ _ _ _ _ _ F Ho Hv Hr Ha). cbn [fst].
          eapply evs_ok_trans; [|apply evs_ok_hupd].
          exact (E_regenerate b D _ _ _ _ _ _ Hg Hh (regenerate_ff _ _ _ F Ho)).
        * destruct (sat_add (c_idexpiry c) (c_grace c) <=? since (r_created (o_rec ob)) (now s))%Z eqn:Hb.
          -- rewrite sf_backstop; [| exact Hp | exact Hv | rewrite Ha; apply andb_false_r | exact Hb]. apply Hdel.
          -- rewrite (sf_plain _ _ _ _ _ _ _ Hv Hr Ha Hb). apply evs_ok_hupd.
    - rewrite (sf_invalid c s q k o ob cks Hp Ho Hv).
      destruct (cdel_Gb b Q1 DEL0 (Q1_del D) base s (o_id ob) Hg Logic.I) as (G1 & _).
      destruct (q_create q); [|apply Hdel].
      destruct (create_session (fst (cache_delete s (o_id ob))) q) as [[s2 r2] c2] eqn:Ec. cbn [fst].
      eapply evs_ok_trans; [apply Hdel | exact (E_create b D _ _ _ _ _ _ G1 Ec)].
  Qed.

  Theorem E_start base s q : Gb b Q1 base s -> evs_ok s (fst (fst (start s q))).
  Proof.
    intros Hg. pose proof Hg as (I & Kc & P & Hq). rewrite start_eq.
    destruct (q_cookie q) as [|k|n]; try (apply (E_start_none base); exact Hg).
    destruct (cache_get_inv _ _ _ _ _ k I) as (s1 & r & E & I1 & Hr).
    destruct (cache_get_qt _ _ _ _ k I Kc) as (Qt & K1 & Hobj).
    pose proof (E_cache_get b D _ _ _ _ _ Hg E) as Ev1. rewrite E in *. cbn [fst snd] in *.
    assert (G1 : Gb b Q1 base s1) by (eapply G_qt1; eassumption).
    destruct r as [o|].
    - destruct Hr as [Hbo [ob (Ho & _)]]. destruct (Hobj o eq_refl) as (ob' & Ho' & Hid & Hs).
      rewrite Ho in Ho'. injection Ho' as <-. rewrite Ho.
      eapply evs_ok_trans; [exact Ev1|]. apply (E_start_found base); [exact G1 | exact Hbo | exact Ho | exact Hid|].
      exists ob. split; [exact Ho | rewrite Hid; exact Hs].
    - eapply evs_ok_trans; [exact Ev1 | apply (E_start_none base); exact G1].
  Qed.

  (* ----------------------------------------------------- handler operations *)

  Lemma E_logout base s o : Gb b Q1 base s -> hg s o -> evs_ok s (fst (logout s o)).
  Proof.
    intros Hg Hh. pose proof Hh as (ob & Ho & _). destruct (hg_K b D _ _ _ _ Hg Hh Ho) as (HK & _).
    unfold logout. rewrite Ho. destruct (r_user (o_rec ob)); [|apply evs_ok_refl].
    apply (E_upd_save s o ob); [exact Ho | exact HK | reflexivity].
  Qed.

  Lemma E_login base s o u ex : Gb b Q1 base s -> b <= o -> hg s o -> evs_ok s (fst (fst (login s o u ex))).
  Proof.
    intros Hg Hbo Hh. pose proof Hg as (I & Kc & P & Hq). pose proof (hg_hokb _ _ _ Hbo Hh) as Hok. unfold login.
    assert (Hpre : exists s1, (if ex then logout_user s (fst u) else let '(s0, _) := logout s o in (s0, Ok tt)) = (s1, Ok tt)
                              /\ inv b base NX ND s1 /\ Kcs s1 /\ qt s s1 /\ evs_ok s s1).
    { destruct ex.
      - destruct (logout_user_inv _ _ _ _ (fst u) I) as (s1 & E & I1 & _).
        destruct (logout_user_qt _ _ _ _ (fst u) I Kc) as [Qa Ka].
        pose proof (E_logout_user b D _ _ _ _ _ Hg E) as Ev. rewrite E in *. cbn [fst] in *.
        exists s1. auto.
      - destruct (logout_inv _ _ _ _ _ I Hok) as (s1 & E & I1 & _).
        destruct (logout_qt s o (i_plan _ _ _ _ _ I) Kc (hg_sc _ _ Hh)) as [Qa Ka].
        pose proof (E_logout base s o Hg Hh) as Ev. rewrite E in *. cbn [fst] in *.
        exists s1. auto. }
    destruct Hpre as (s1 & E1 & I1 & Ka & Qa & Ev1). rewrite E1.
    assert (H1 : hg s1 o) by (eapply hg_qt; eassumption).
    destruct (hupd_qt s1 o (fun r => set_user r (Some u)) (fun _ => eq_refl) Ka) as [Qb Kb].
    set (s2 := hupd s1 o (fun r => set_user r (Some u))) in *.
    assert (I2 : inv b base NX ND s2) by (apply inv_hupd; [exact I1 | reflexivity]).
    assert (H2 : hg s2 o) by (eapply hg_qt; eassumption).
    assert (Q12 : qt s s2) by (eapply qt_trans; eassumption).
    assert (G2 : Gb b Q1 base s2) by (eapply G_qt1; eassumption).
    pose proof H2 as (ob2 & Ho2 & Hr2 & Hs2).
    assert (F2 : ffnd s2) by (eapply inv_ffnd; exact I2).
    pose proof (cache_set_ff _ _ _ F2 Ho2) as Ecs. rewrite Ecs. cbn [negb].
    destruct (hg_K b D _ _ _ _ G2 H2 Ho2) as (HK2 & _).
    pose proof (E_cache_set b D _ _ _ _ _ _ G2 Ho2 HK2 Ecs) as Ev3.
    assert (Hs2' : sref s2 (o_id ob2) = Some (r_ref (o_rec ob2))) by (rewrite Hs2, Hr2; reflexivity).
    destruct (cset_qt _ _ _ _ _ _ _ I2 Kb Ho2 Hs2') as [Qc Kc3].
    assert (I3 : inv b base NX ND (cset s2 o ob2)) by (apply inv_cset; [exact I2 | exact Ho2 | exact Hbo | intros []]).
    assert (Q13 : qt s (cset s2 o ob2)) by (eapply qt_trans; eassumption).
    assert (G3 : Gb b Q1 base (cset s2 o ob2)) by (eapply G_qt1; eassumption).
    assert (H3 : hg (cset s2 o ob2) o) by (eapply hg_qt; eassumption).
    destruct (regenerate (cset s2 o ob2) o) as [[s4 r4] c4] eqn:E4.
    pose proof (E_regenerate b D _ _ _ _ _ _ G3 H3 E4) as Ev4.
    assert (Ev : evs_ok s s4).
    { eapply evs_ok_trans; [exact Ev1|]. eapply evs_ok_trans; [apply evs_ok_hupd|]. fold s2.
      eapply evs_ok_trans; [exact Ev3 | exact Ev4]. }
    destruct r4; exact Ev.
  Qed.

  Theorem E_do_sop base s o hc op : Gb b Q1 base s -> b <= o -> hg s o -> evs_ok s (fst (fst (do_sop s o hc op))).
  Proof.
    intros Hg Hbo Hh. pose proof Hh as (ob & Ho & _). destruct (hg_K b D _ _ _ _ Hg Hh Ho) as (HK & _).
    pose proof Hg as (I & _). assert (Hp : plan s = []) by apply (i_plan _ _ _ _ _ I).
    destruct op as [k v|k|k|k|u ex| | |]; cbn [do_sop].
    - unfold data_of. rewrite Ho. destruct (r_data (o_rec ob)) as [d|]; [|apply evs_ok_refl].
      pose proof (E_upd_save s o ob (fun r => set_data r (Some (kv_set d k v))) Ho HK (fun _ => eq_refl)) as Ev.
      destruct (save_direct _ o) as [s' r]. exact Ev.
    - unfold data_of. rewrite Ho. destruct (r_data (o_rec ob)) as [d|].
      + pose proof (E_upd_save s o ob (fun r => set_data r (Some (kv_del d k))) Ho HK (fun _ => eq_refl)) as Ev.
        destruct (save_direct _ o) as [s' r]. exact Ev.
      + destruct (save_direct s o) as [s' r] eqn:E. exact (E_save_direct D _ _ _ _ _ Ho HK E).
    - apply evs_ok_refl.
    - unfold data_of. rewrite Ho. destruct (r_data (o_rec ob)) as [d|]; [|apply evs_ok_refl].
      destruct (kv_get d k); [|apply evs_ok_refl].
      pose proof (E_upd_save s o ob (fun r => set_data r (Some (kv_del d k))) Ho HK (fun _ => eq_refl)) as Ev.
      destruct (save_direct _ o) as [s' r]. exact Ev.
    - pose proof (E_login base s o u ex Hg Hbo Hh) as Ev. destruct (login s o u ex) as [[s' r] c]. exact Ev.
    - pose proof (E_logout base s o Hg Hh) as Ev. destruct (logout s o) as [s' r]. exact Ev.
    - destruct (regenerate s o) as [[s' r] c] eqn:E. exact (E_regenerate b D _ _ _ _ _ _ Hg Hh E).
    - rewrite (destroy_ff _ _ _ _ Hp Ho). cbn [fst].
      destruct (cache_delete s (o_id ob)) as [s1 okd] eqn:Ed. exact (E_cache_delete D _ _ _ _ Ed).
  Qed.

  (* ---------------------------------------------------------------- scripts *)

  Theorem E_run_script base hc : forall ops s o, Gb b Q1 base s -> b <= o -> hg s o ->
    evs_ok s (fst (fst (run_script s o hc ops))).
  Proof.
    induction ops as [|op t IH]; intros s o Hg Hbo Hh; cbn [run_script]; [apply evs_ok_refl|].
    pose proof (E_do_sop base s o hc op Hg Hbo Hh) as Ev1.
    destruct (do_sop_Gb b Q1 DEL0 (Q1_qt D) (Q1_repl D) (Q1_del D) base s o hc op Hg Hbo Hh) as (s1 & r & cks & E & G1 & _ & H1 & _).
    { intros _ ob _. exact Logic.I. }
    rewrite E in *. cbn [fst] in Ev1.
    destruct (fire_due_Gb b Q1 FOK0 (Q1_fire D) _ _ G1 Logic.I) as (G2 & _ & H2 & _).
    assert (Ev2 : evs_ok s (fire_due s1)) by (eapply evs_ok_trans; [exact Ev1 | apply E_fire_due]).
    assert (Hdec : op = SDestroy \/ op <> SDestroy) by (destruct op; ((left; reflexivity) || (right; discriminate))).
    destruct Hdec as [->|Hop]; [exact Ev2|].
    match goal with |- context [if ?c then _ else _] => destruct c end; [exact Ev2|].
    pose proof (IH (fire_due s1) o G2 Hbo (H2 o (H1 Hop))) as Ev3.
    destruct (run_script (fire_due s1) o hc t) as [[s' rs] cks']. cbn [fst] in *.
    eapply evs_ok_trans; eassumption.
  Qed.

  Theorem E_req_body base s q script : Gb b Q1 base s ->
    evs_ok s (fst (fst (fst (fst (fst (req_body s q script)))))).
  Proof.
    intro Hg. unfold req_body. pose proof (E_start base s q Hg) as Ev1.
    destruct (start_Gb b Q1 DEL0 (Q1_qt D) (Q1_new D) (Q1_repl D) (Q1_del D) base s q Hg) as (s2 & res & cks & E & G2 & _ & H2 & _).
    { intros; exact Logic.I. }
    rewrite E in *. cbn [fst] in Ev1.
    destruct (fire_due_Gb b Q1 FOK0 (Q1_fire D) _ _ G2 Logic.I) as (G3 & _ & H3 & _).
    assert (Ev2 : evs_ok s (fire_due s2)) by (eapply evs_ok_trans; [exact Ev1 | apply E_fire_due]).
    destruct res as [[o|]|e|e]; try exact Ev2.
    pose proof (E_run_script base (had_cookie q) script (fire_due s2) o G3 (proj1 (H2 o eq_refl)) (H3 o (proj1 (proj2 (H2 o eq_refl))))) as Ev3.
    cbv zeta. destruct (run_script (fire_due s2) o (had_cookie q) script) as [[s3 sr] cks']. cbn [fst] in *.
    eapply evs_ok_trans; eassumption.
  Qed.

  (* ---------------------------------------------------------------- whole steps *)

  Theorem step_events w r : LNb b D (w_st w) -> rq_plan r = [] ->
    Forall (EL D) (ob_evs (snd (step w (HReq (nocrash r))))).
  Proof.
    intros Hl Hpl. rewrite <- req_final_evs. unfold req_final.
    pose proof (GWb_Gb b Q1 (Q1_qt D) (w_st w) (rq_plan r) (rq_tb r) Hl Hpl) as G1. fold (pre_of w r) in G1.
    destruct (E_req_body _ (pre_of w r) (req_of w r) (rq_script r) G1) as (l & X & HF).
    pose proof (CrashFault.x_evs _ _ _ X) as Xe. unfold pre_of in Xe at 2. sst. rewrite app_nil_r in Xe.
    rewrite Xe, rev_involutive. exact HF.
  Qed.

  Lemma EL_ev_lin e : EL D e -> ev_lin D e.
  Proof. destruct e as [k ok|u ok|k r ok|k ok|u ok|d]; try (intros _; exact Logic.I). cbn [EL ev_lin]. intros [H _]. destruct ok; [exact H | exact Logic.I]. Qed.
End Ev2.

Theorem events_proved : events_statement.
Proof.
  intros D w r Hl Hpl. eapply Forall_impl; [apply EL_ev_lin | apply (step_events 0 D w r Hl Hpl)].
Qed.

(* Hence, unconditionally: whatever the crash point of a fault-free request step
   from a world satisfying LN D, right after the crash every ID of D is drawn and
   resolves (cache empty: in the store) to nothing or to a replaced-ID record
   naming an ID of D; no clean-up is pending. *)
Theorem mid_crash_store_any D w r n :
  LN D (w_st w) -> rq_plan r = [] -> rq_crash r = Some n ->
  pending (w_st (fst (step w (HReq r)))) = [] /\
  forall k, D k ->
    key_drawn (w_st (fst (step w (HReq r)))) k /\
    (L (w_st (fst (step w (HReq r)))) k = None \/
     exists rk t, L (w_st (fst (step w (HReq r)))) k = Some rk /\ r_ref rk = Some t /\ D t).
Proof.
  intros Hl Hpl Hcr. apply (mid_crash_store D w r n Hl Hcr). apply events_proved; assumption.
Qed.
