(* Non-vacuity of the theorems of Properties/C05S.v: reachable worlds, the
   instant inside a wait at which a clean-up is due and has not run, and what
   the interrupted request does at every interruption point, by computation.
   Also the witnesses: with a bounded cache the interrupted request and the
   serial order may leave different entries cached; with two clean-ups due at
   the same instant the request can find the middle of its chain gone. *)
From Sessions Require Import Model.Base Model.Sess Model.Hist Model.StartSteps Proofs.SessDefs
  Proofs.HistInv Proofs.HistInv2 Proofs.HistInv3 Proofs.HistLift Proofs.HistLift2 Proofs.HistLift3
  Proofs.HistLift4 Proofs.HistLift9
  Proofs.StartSteps Proofs.StartSteps2 Proofs.StartSteps3 Proofs.StartSteps4 Proofs.StartSteps5
  Proofs.StartSteps6 Proofs.StartSteps7 Proofs.StartSteps8 Proofs.StartSteps9 Proofs.StartSteps10
  Proofs.StartSteps11 Proofs.StartSteps12 Proofs.StartSteps13 Proofs.StartSteps14.
From Sessions Require Proofs.RotateLaws2.
From Sessions Require Proofs.RotateLaws3 Proofs.RotateLaws4 Proofs.C01Spec Proofs.StartLaws3.
From Coq Require Import Lia.

Definition secE : Z := 1000000000.

(* SessionExpiry 1000 s, SessionIDExpiry 60 s, grace 5 s, cache of mx, gob or JSON *)
Definition cS (mx : Z) (js : bool) : cfg := mkCfg (1000 * secE) (60 * secE) (5 * secE) max64 mx 1 true js.

Definition rqS (c : N) (p : present) (sc : list sop) : reqstep :=
  mkReqStep c p true (V4 1 2 3 4 5) 7 sc [] [] None.

(* KGen 0 created at 0 s with data; replaced by KGen 1 at 61 s (rotation);
   KGen 1 replaced by KGen 2 at 63 s (RegenerateID in the handler) *)
Definition preS : list hop :=
  [HReq (rqS 1 PJar [SSet 1 2]); HWait (61 * secE); HReq (rqS 1 PJar []); HWait (2 * secE);
   HReq (rqS 1 PJar [SRegen])].

Definition wS (mx : Z) (js : bool) : world := reach (cS mx js) preS.

(* inside the wait that brings the clock to 66 s: the clean-up of KGen 0 is due *)
Definition sS (mx : Z) (js : bool) : st := mid_wait (wS mx js) (3 * secE).

Definition qS (k : key) : request := mkReq (CKey k) false (V4 1 2 3 4 9) 7.

Lemma wS_LI mx js : LI (w_st (wS mx js)).
Proof. apply LI_reach'; repeat constructor. Qed.

Lemma sS_pending js : pending (sS 10 js) = [(66 * secE, KGen 0); (68 * secE, KGen 1)]%Z.
Proof. destruct js; vm_compute; reflexivity. Qed.

Lemma sS_now js : now (sS 10 js) = (66 * secE)%Z.
Proof. destruct js; vm_compute; reflexivity. Qed.

Lemma sS_notdue js k : In k [KGen 1; KGen 2] -> notdue (sS 10 js) k.
Proof.
  intros Hk d Hin. rewrite sS_pending in Hin. rewrite sS_now.
  destruct Hk as [<-|[<-|[]]]; destruct Hin as [H|[H|[]]]; inversion H; unfold secE; lia.
Qed.

(* what a call returned: class, ID / data / user of the object, cookies *)
Definition viewS (x : st * result (option nat) * list cookie) :=
  let '(s, r, cks) := x in
  (match r with
   | Ok (Some o) => option_map (fun ob => (o_id ob, C01Spec.content_of (o_rec ob), r_ref (o_rec ob))) (hget s o)
   | _ => None
   end,
   match r with Ok (Some _) => RSess | Ok None => RNone | Err e => RErr e | Panic e => RPanic e end, cks).

(* what is left: cached IDs, stored IDs, queue, event log (oldest first) *)
Definition leftS (x : st * result (option nat) * list cookie) :=
  let s := fst (fst x) in (map fst (cache s), map fst (store s), pending s, rev (evs s)).

(* --- (b): the hypotheses of interrupted_served hold, JSON codec, cache of 10 *)
Example served_ex :
  let s := sS 10 true in
  exists r,
    plan s = [] /\ cache_ok s /\ nodup_ok s /\ fresh_ok s /\ RotateLaws4.ref_wf s /\
    L s (KGen 0) = Some r /\ RotateLaws4.chain_rec s r [KGen 1; KGen 2] /\
    RotateLaws3.valid_for (conf s) r (now s) (qS (KGen 0)) = true /\
    (since (r_created r) (now s) < sat_add (c_idexpiry (conf s)) (c_grace (conf s)))%Z /\
    (forall k', In k' [KGen 1; KGen 2] -> notdue s k') /\
    In ((66 * secE)%Z, KGen 0) (pending s) /\ (66 * secE <= now s)%Z.
Proof.
  cbv zeta. destruct (mid_wait_inv (wS 10 true) (3 * secE) (wS_LI 10 true)) as (A & B & C & D & E).
  eexists. split; [exact A|]. split; [exact B|]. split; [exact C|]. split; [exact D|]. split; [exact E|].
  split; [vm_compute; reflexivity|]. split.
  { cbn [RotateLaws4.chain_rec]. split; [reflexivity|]. eexists. split; [vm_compute; reflexivity|].
    split; [reflexivity|]. eexists. split; [vm_compute; reflexivity | reflexivity]. }
  split; [vm_compute; reflexivity|]. split; [vm_compute; reflexivity|].
  split; [apply sS_notdue|]. split; [rewrite sS_pending; left; reflexivity | rewrite sS_now; lia].
Qed.

(* every interruption point, both codecs, cache of 10 / off / 1 / unbounded:
   point 0 is "no session, deletion cookie"; every later point hands out the
   live session KGen 2 with its data and the redirect cookie *)
Example served_run_ex :
  forallb (fun mx => forallb (fun js =>
    let s := sS mx js in
    match map (fun i => viewS (start_interrupted s (qS (KGen 0)) (Some i))) [0; 1; 2; 3; 4] with
    | [(None, RNone, [CkDelete]); a; b; c; d] =>
      match a, b, c, d with
      | (Some (KGen 2, ([(1, 2)]%N, None), None), RSess, [CkLive (KGen 2)]),
        (Some (KGen 2, ([(1, 2)]%N, None), None), RSess, [CkLive (KGen 2)]),
        (Some (KGen 2, ([(1, 2)]%N, None), None), RSess, [CkLive (KGen 2)]),
        (Some (KGen 2, ([(1, 2)]%N, None), None), RSess, [CkLive (KGen 2)]) => true
      | _, _, _, _ => false
      end
    | _ => false
    end) [false; true]) [10; 0; 1; (-1)]%Z = true.
Proof. vm_compute. reflexivity. Qed.

(* what is left, cache of 10, gob: points 1..3 end in the state of "request,
   then clean-up" - KGen 0 gone from cache, store and queue; the one event, the
   deletion, is in the log; point 4 lies after the request's last cache
   operation: the clean-up has not run yet *)
Example served_left_ex :
  map (fun i => leftS (start_interrupted (sS 10 false) (qS (KGen 0)) (Some i))) [1; 2; 3; 4] =
  [([KGen 1; KGen 2], [KGen 1; KGen 2], [(68 * secE, KGen 1)], [EvDelete (KGen 0) true]);
   ([KGen 1; KGen 2], [KGen 1; KGen 2], [(68 * secE, KGen 1)], [EvDelete (KGen 0) true]);
   ([KGen 1; KGen 2], [KGen 1; KGen 2], [(68 * secE, KGen 1)], [EvDelete (KGen 0) true]);
   ([KGen 0; KGen 1; KGen 2], [KGen 0; KGen 1; KGen 2], [(66 * secE, KGen 0); (68 * secE, KGen 1)], [])]%Z.
Proof. vm_compute. reflexivity. Qed.

(* --- (b) exact: the hypotheses of start_interrupted_cached hold (cache of 10) *)
Example cached_ex :
  let s := sS 10 false in
  exists o0 ob o',
    lookup (cache s) (KGen 0) = Some o0 /\ hget s o0 = Some ob /\
    cached_chain s o0 [KGen 1; KGen 2] o' /\
    RotateLaws3.valid_for (conf s) (o_rec ob) (now s) (qS (KGen 0)) = true /\
    (since (r_created (o_rec ob)) (now s) < sat_add (c_idexpiry (conf s)) (c_grace (conf s)))%Z.
Proof.
  cbv zeta. eexists _, _, _. split; [vm_compute; reflexivity|]. split; [vm_compute; reflexivity|].
  split.
  { cbn [cached_chain]. eexists _, _. split; [vm_compute; reflexivity|]. split; [reflexivity|].
    split; [vm_compute; reflexivity|]. eexists _, _. split; [vm_compute; reflexivity|]. split; [reflexivity|].
    split; [vm_compute; reflexivity|]. eexists. split; [vm_compute; reflexivity|]. split; reflexivity. }
  split; vm_compute; reflexivity.
Qed.

(* ... and the conclusion, computed: interrupted at 1, 2, 3 = Start, then fire_due *)
Example cached_run_ex :
  let s := sS 10 false in
  let y := let '(ss, r, c) := start s (qS (KGen 0)) in (fire_due ss, r, c) in
  start_interrupted s (qS (KGen 0)) (Some 1) = y /\
  start_interrupted s (qS (KGen 0)) (Some 2) = y /\
  start_interrupted s (qS (KGen 0)) (Some 3) = y.
Proof. vm_compute. repeat split. Qed.

(* --- (b) exact, cache off: the hypotheses of start_interrupted_off hold (JSON) *)
Lemma sS0_notdue js k : In k [KGen 1; KGen 2] -> notdue (sS 0 js) k.
Proof.
  assert (Hp : pending (sS 0 js) = [(66 * secE, KGen 0); (68 * secE, KGen 1)]%Z) by (destruct js; vm_compute; reflexivity).
  assert (Hn : now (sS 0 js) = (66 * secE)%Z) by (destruct js; vm_compute; reflexivity).
  intros Hk d Hin. rewrite Hp in Hin. rewrite Hn.
  destruct Hk as [<-|[<-|[]]]; destruct Hin as [H|[H|[]]]; inversion H; unfold secE; lia.
Qed.

Example off_ex :
  let s := sS 0 true in
  exists r,
    offst s /\ lookup (store s) (KGen 0) = Some r /\ stored_chain s r [KGen 1; KGen 2] /\
    length [KGen 1; KGen 2] <= N.to_nat (supply s) /\
    RotateLaws3.valid_for (conf s) r (now s) (qS (KGen 0)) = true /\
    (since (r_created r) (now s) < sat_add (c_idexpiry (conf s)) (c_grace (conf s)))%Z /\
    (forall k', In k' [KGen 1; KGen 2] -> notdue s k').
Proof.
  cbv zeta. eexists. split.
  { split; [vm_compute; reflexivity|]. split; [vm_compute; reflexivity|]. intro j. vm_compute. reflexivity. }
  split; [vm_compute; reflexivity|]. split.
  { cbn [stored_chain]. split; [reflexivity|]. eexists. split; [vm_compute; reflexivity|].
    split; [reflexivity|]. eexists. split; [vm_compute; reflexivity | reflexivity]. }
  split; [vm_compute; lia|]. split; [vm_compute; reflexivity|]. split; [vm_compute; reflexivity|].
  apply sS0_notdue.
Qed.

(* ... and the conclusion, computed: everything but the log agrees with "Start,
   then fire_due"; in the log the deletion sits where the clean-up fell *)
Example off_run_ex :
  let s := sS 0 true in
  let y := let '(ss, r, c) := start s (qS (KGen 0)) in (fire_due ss, r, c) in
  let x i := start_interrupted s (qS (KGen 0)) (Some i) in
  (forall i, In i [1; 2; 3] -> ne (fst (fst (x i))) = ne (fst (fst y)) /\ snd (fst (x i)) = snd (fst y) /\ snd (x i) = snd y) /\
  map (fun i => rev (evs (fst (fst (x i))))) [1; 2; 3] =
  [[EvLoad (KGen 0) true; EvDelete (KGen 0) true; EvLoad (KGen 1) true; EvLoad (KGen 2) true];
   [EvLoad (KGen 0) true; EvLoad (KGen 1) true; EvDelete (KGen 0) true; EvLoad (KGen 2) true];
   [EvLoad (KGen 0) true; EvLoad (KGen 1) true; EvLoad (KGen 2) true; EvDelete (KGen 0) true]] /\
  rev (evs (fst (fst y))) = [EvLoad (KGen 0) true; EvLoad (KGen 1) true; EvLoad (KGen 2) true; EvDelete (KGen 0) true].
Proof.
  cbv zeta. split; [|split; vm_compute; reflexivity].
  intros i [<-|[<-|[<-|[]]]]; vm_compute; repeat split.
Qed.

(* --- (c): the current ID KGen 2 is presented while the clean-up of KGen 0 is due *)
Example current_ex :
  let s := sS 10 true in
  exists r,
    RotateLaws3.cfg_ok (conf s) /\ L s (KGen 2) = Some r /\ r_ref r = None /\
    RotateLaws3.valid_for (conf s) r (now s) (qS (KGen 2)) = true /\
    (since (r_created r) (now s) < c_idexpiry (conf s))%Z /\ notdue s (KGen 2).
Proof.
  cbv zeta. eexists. split; [split; vm_compute; discriminate|]. split; [vm_compute; reflexivity|].
  split; [reflexivity|]. split; [vm_compute; reflexivity|]. split; [vm_compute; reflexivity|].
  apply sS_notdue. right. left. reflexivity.
Qed.

Example current_run_ex :
  map (fun i => (viewS (start_interrupted (sS 10 true) (qS (KGen 2)) (Some i)),
                 fst (fst (leftS (start_interrupted (sS 10 true) (qS (KGen 2)) (Some i)))))) [0; 1; 2] =
  [((Some (KGen 2, ([(1, 2)]%N, None), None), RSess, []), ([KGen 1; KGen 2], [KGen 1; KGen 2]));
   ((Some (KGen 2, ([(1, 2)]%N, None), None), RSess, []), ([KGen 1; KGen 2], [KGen 1; KGen 2]));
   ((Some (KGen 2, ([(1, 2)]%N, None), None), RSess, []), ([KGen 0; KGen 1; KGen 2], [KGen 0; KGen 1; KGen 2]))].
Proof. vm_compute. reflexivity. Qed.

(* --- (c), rotating: SessionIDExpiry 60 s, grace 100 s. KGen 0 is replaced by
   KGen 1 at 61 s; at 161 s the clean-up of KGen 0 is due and KGen 1, now 100 s
   old, is presented: Start rotates it to KGen 2 while the clean-up of its
   predecessor fires. *)
Definition cR (mx : Z) : cfg := mkCfg (1000 * secE) (60 * secE) (100 * secE) max64 mx 1 true true.
Definition preR : list hop := [HReq (rqS 1 PJar [SSet 1 2]); HWait (61 * secE); HReq (rqS 1 PJar [])].
Definition sR (mx : Z) : st := mid_wait (reach (cR mx) preR) (100 * secE).

Example rotate_ex :
  let s := sR 10 in
  exists r,
    plan s = [] /\ cache_ok s /\ nodup_ok s /\ fresh_ok s /\
    L s (KGen 1) = Some r /\ r_ref r = None /\
    RotateLaws3.valid_for (conf s) r (now s) (qS (KGen 1)) = true /\
    (c_idexpiry (conf s) <= since (r_created r) (now s))%Z /\ notdue s (KGen 1) /\
    pending s = [(161 * secE, KGen 0)]%Z /\ now s = (161 * secE)%Z.
Proof.
  cbv zeta. destruct (mid_wait_inv (reach (cR 10) preR) (100 * secE)) as (A & B & C & D & _).
  { apply LI_reach'; repeat constructor. }
  eexists. split; [exact A|]. split; [exact B|]. split; [exact C|]. split; [exact D|].
  split; [vm_compute; reflexivity|]. split; [reflexivity|]. split; [vm_compute; reflexivity|].
  split; [vm_compute; discriminate|]. split; [|split; vm_compute; reflexivity].
  intros d Hin. vm_compute in Hin. destruct Hin as [H|[]]. discriminate H.
Qed.

(* every interruption point, cache of 10 / off / 1: the new ID KGen 2 with the
   data, the redirect cookie, both records stored; from point 1 on KGen 0 is
   gone when the request returns (point 4 lies beyond the request) *)
Example rotate_run_ex :
  forallb (fun mx =>
    forallb (fun i =>
      let x := start_interrupted (sR mx) (qS (KGen 1)) (Some i) in
      match viewS x with
      | (Some (KGen 2, ([(1, 2)]%N, None), None), RSess, [CkLive (KGen 2)]) =>
        let st' := map fst (store (fst (fst x))) in
        if Nat.leb i 3
        then match st' with [KGen 1; KGen 2] => true | _ => false end
        else match st' with [KGen 0; KGen 1; KGen 2] => true | _ => false end
      | _ => false
      end) [0; 1; 2; 3; 4]) [10; 0; 1]%Z = true.
Proof. vm_compute. reflexivity. Qed.

(* --- witness 1: a bounded cache. Two sessions; a restart loses the clean-up of
   KGen 0; the cache is dropped; KGen 0 is presented again (it and KGen 1 are
   cached, KGen 0 with its old access time); at 150 s the clean-up of KGen 2
   (replaced at 50 s, grace 100 s) is due and KGen 2 is presented. Cache of 3.
   Interrupted after the first cache operation the request leaves KGen 0
   cached; in the serial order "request, then clean-up" loading KGen 3 evicts
   it. The results agree; the caches do not. *)
Definition cW : cfg := mkCfg (1000 * secE) max64 (100 * secE) max64 3 1 true false.

Definition preW : list hop :=
  [HReq (rqS 2 PJar [SRegen]); HWait (1 * secE); HRestart; HWait (49 * secE);
   HReq (rqS 1 PJar [SSet 1 2; SRegen]); HDropCache; HWait (10 * secE);
   HReq (mkReqStep 3 (PForge (CKey (KGen 0))) false (V4 1 2 3 4 5) 7 [] [] [] None)].

Definition sW : st := mid_wait (reach cW preW) (90 * secE).

Example bounded_cache_witness :
  let x := start_interrupted sW (qS (KGen 2)) (Some 1) in
  let y := let '(s, r, c) := start sW (qS (KGen 2)) in (fire_due s, r, c) in
  viewS x = viewS y /\
  viewS x = (Some (KGen 3, ([(1, 2)]%N, None), None), RSess, [CkLive (KGen 3)]) /\
  map fst (cache (fst (fst x))) = [KGen 0; KGen 1; KGen 3] /\
  map fst (cache (fst (fst y))) = [KGen 1; KGen 3].
Proof. vm_compute. repeat split. Qed.

Example bounded_cache_witness_inv :
  plan sW = [] /\ cache_ok sW /\ nodup_ok sW /\ fresh_ok sW /\ RotateLaws4.ref_wf sW.
Proof. apply mid_wait_inv. apply LI_reach'; repeat constructor. Qed.

(* --- witness 2: two ID changes at the same instant (rotation by Start and
   LogIn in the handler of the same request): both clean-ups are due together.
   Interrupted after its first cache operation the request presenting KGen 0
   has its record in hand, then finds KGen 1 gone: "Reference session not
   found" - the outcome of the serial order "clean-up of KGen 1, request,
   clean-up of KGen 0". Never a placeholder, never a panic. *)
Definition preT : list hop :=
  [HReq (rqS 1 PJar [SSet 1 2]); HWait (61 * secE); HReq (rqS 1 PJar [SLogIn (7, 1)%N false])].

Definition sT : st := mid_wait (reach (cS 10 false) preT) (5 * secE).

Example two_due_witness :
  pending sT = [(66 * secE, KGen 0); (66 * secE, KGen 1)]%Z /\ now sT = (66 * secE)%Z /\
  map (fun i => viewS (start_interrupted sT (qS (KGen 0)) (Some i))) [0; 1; 2; 3] =
  [(None, RNone, [CkDelete]);
   (None, RErr ERefMissing, []);
   (Some (KGen 2, ([(1, 2)]%N, Some 7%N), None), RSess, [CkLive (KGen 2)]);
   (Some (KGen 2, ([(1, 2)]%N, Some 7%N), None), RSess, [CkLive (KGen 2)])].
Proof. vm_compute. repeat split. Qed.

(* --- (b) with a schedule: in sT (two clean-ups due at 66 s: KGen 0 and KGen 1)
   the request presents KGen 1, whose chain [KGen 2] is not due; the clean-up
   of KGen 1 fires after the first cache operation, that of KGen 0 after the
   second: served; both IDs gone, in that order *)
Definition scE (n : nat) (k : key) : bool :=
  (Nat.eqb n 1 && key_eqb k (KGen 1)) || (Nat.eqb n 2 && key_eqb k (KGen 0)).

Example sched_ex :
  exists r,
    L sT (KGen 1) = Some r /\ RotateLaws4.chain_rec sT r [KGen 2] /\
    RotateLaws3.valid_for (conf sT) r (now sT) (qS (KGen 1)) = true /\
    (since (r_created r) (now sT) < sat_add (c_idexpiry (conf sT)) (c_grace (conf sT)))%Z /\
    (forall k', In k' [KGen 2] -> notdue sT k').
Proof.
  eexists. split; [vm_compute; reflexivity|]. split.
  { cbn [RotateLaws4.chain_rec]. split; [reflexivity|]. eexists. split; [vm_compute; reflexivity | reflexivity]. }
  split; [vm_compute; reflexivity|]. split; [vm_compute; reflexivity|].
  intros k' [<-|[]] d Hin. vm_compute in Hin. destruct Hin as [H|[H|[]]]; discriminate H.
Qed.

Example sched_run_ex :
  let x := start_body (fire_sched scE) sT (qS (KGen 1)) in
  viewS x = (Some (KGen 2, ([(1, 2)]%N, Some 7%N), None), RSess, [CkLive (KGen 2)]) /\
  leftS x = ([KGen 2], [KGen 2], [], [EvDelete (KGen 1) true; EvDelete (KGen 0) true]).
Proof. vm_compute. split; reflexivity. Qed.
