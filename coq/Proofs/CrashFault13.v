(* C11_nopanic at the level of histories, part 1: the invariant NP (cached
   indices valid; every heap object that is not a reference has a data map;
   every stored record has one) and the relation `keeps`, which every function
   of the model satisfies and which preserves NP. Arbitrary fault plans. *)
From Sessions Require Import Model.Base Model.Sess Model.Hist Proofs.SessDefs Proofs.CrashFault
  Proofs.CrashFault2 Proofs.CrashFault3 Proofs.CrashFault8 Proofs.CrashFault9 Proofs.CrashFault10.
From Coq Require Import Lia.

Definition heapD (s : st) : Prop := forall o ob, hget s o = Some ob -> has_data (o_rec ob).
Definition storeD (stor : list (key * rec)) : Prop := forall k r, lookup stor k = Some r -> r_data r <> None.
Definition NP (s : st) : Prop := cv s /\ heapD s /\ storeD (store s).

Lemma NP_J s : NP s -> J Kd s.
Proof.
  intros (A & B & C). split; [exact A|]. split.
  - intros k o ob _ Ho. apply (B _ _ Ho).
  - intros k r Hl _. apply (C _ _ Hl).
Qed.

Lemma NP_same s s' : heap s' = heap s -> cache s' = cache s -> store s' = store s -> NP s -> NP s'.
Proof.
  intros Hh Hc Hs (A & B & C). unfold NP, cv, heapD. rewrite Hh, Hc, Hs. split; [exact A|]. split; [|exact C].
  intros o ob H. rewrite (hget_eq _ _ _ Hh) in H. apply (B _ _ H).
Qed.

Lemma NP_init c : NP (init_st c).
Proof.
  split; [intros k o []|]. split.
  - intros o ob H. unfold hget in H. simpl in H. destruct o; discriminate.
  - intros k r H. discriminate.
Qed.

(* ------------------------------------------------------------- store side *)

Lemma storeD_apply sg e : storeD (fst sg) -> ev_codec e -> storeD (fst (apply_ev sg e)).
Proof.
  destruct sg as [stor gr]. intros H He. destruct e; try exact H; simpl in *.
  - destruct ok; [|exact H]. simpl. intros k' r' Hl. destruct (key_eq_dec k' k) as [->|Hne].
    + rewrite lookup_upsert_same in Hl. injection Hl as <-. exact He.
    + rewrite lookup_upsert_other in Hl by exact Hne. apply (H _ _ Hl).
  - destruct ok; [|exact H]. simpl. intros k' r' Hl. destruct (key_eq_dec k' k) as [->|Hne].
    + rewrite lookup_remove_same in Hl. discriminate.
    + rewrite lookup_remove_other in Hl by exact Hne. apply (H _ _ Hl).
Qed.

Lemma storeD_replay l : forall sg, storeD (fst sg) -> Forall ev_codec l -> storeD (fst (replay l sg)).
Proof.
  induction l as [|e l IH]; intros sg H HF; [exact H|]. inversion HF; subst. simpl.
  apply IH; [apply storeD_apply|]; assumption.
Qed.

Lemma storeD_ext s s' l : ext s s' l -> storeD (store s) -> storeD (store s').
Proof. intros X H. rewrite (store_of_ext _ _ _ X). apply storeD_replay; [exact H | apply (x_codec _ _ _ X)]. Qed.

Lemma ev_prefix_Forall (P : ev -> Prop) l : forall n, Forall P l -> Forall P (ev_prefix l n).
Proof.
  induction l as [|e l IH]; intros [|n] H; simpl; try constructor.
  inversion H; subst. destruct e; constructor; auto.
Qed.

(* -------------------------------------------------------------- heap side *)

(* every object of s' either has a data map (if it is not a reference) or is
   an object of s with the same reference field and data *)
Definition costable (s s' : st) : Prop :=
  forall o ob', hget s' o = Some ob' ->
    has_data (o_rec ob') \/
    exists ob, hget s o = Some ob /\ r_ref (o_rec ob') = r_ref (o_rec ob) /\ r_data (o_rec ob') = r_data (o_rec ob).

Lemma costable_refl s : costable s s.
Proof. intros o ob H. right. exists ob. auto. Qed.

Lemma costable_trans s1 s2 s3 : costable s1 s2 -> costable s2 s3 -> costable s1 s3.
Proof.
  intros H1 H2 o ob3 Ho. destruct (H2 _ _ Ho) as [Hd|(ob2 & Ho2 & A & B)]; [left; exact Hd|].
  destruct (H1 _ _ Ho2) as [Hd|(ob1 & Ho1 & A1 & B1)].
  - left. unfold has_data in *. rewrite A, B. exact Hd.
  - right. exists ob1. split; [exact Ho1|]. split; congruence.
Qed.

Lemma costable_eq s s' : heap s' = heap s -> costable s s'.
Proof. intros Hh o ob H. right. exists ob. rewrite (hget_eq _ _ _ Hh) in H. auto. Qed.

Lemma costable_hput s o ob v :
  hget s o = Some ob ->
  (has_data (o_rec v) \/ (r_ref (o_rec v) = r_ref (o_rec ob) /\ r_data (o_rec v) = r_data (o_rec ob))) ->
  costable s (hput s o v).
Proof.
  intros Ho Hv o' ob' Ho'. destruct (Nat.eq_dec o o') as [<-|Hne].
  - rewrite hget_hput_same in Ho' by (eapply hget_Some_lt; exact Ho). injection Ho' as <-.
    destruct Hv as [Hd|[A B]]; [left; exact Hd | right; exists ob; auto].
  - rewrite hget_hput_other in Ho' by exact Hne. right. exists ob'. auto.
Qed.

Lemma costable_hupd s o f :
  (forall r, has_data (f r) \/ (r_ref (f r) = r_ref r /\ r_data (f r) = r_data r)) -> costable s (hupd s o f).
Proof.
  intro Hf. destruct (hget s o) as [ob|] eqn:Ho.
  - rewrite (hupd_spec _ _ _ _ Ho). eapply costable_hput; [exact Ho | apply Hf].
  - rewrite (hupd_none _ _ _ Ho). apply costable_refl.
Qed.

Lemma costable_halloc s v : has_data (o_rec v) -> costable s (fst (halloc s v)).
Proof.
  intros Hv o ob' Ho. destruct (Nat.lt_ge_cases o (length (heap s))) as [Hlt|Hge].
  - rewrite hget_halloc_old in Ho by exact Hlt. right. exists ob'. auto.
  - unfold hget, halloc in Ho. simpl in Ho. rewrite nth_error_app2 in Ho by exact Hge.
    destruct (o - length (heap s)) as [|m]; simpl in Ho; [injection Ho as <-; left; exact Hv | destruct m; discriminate].
Qed.

Lemma heapD_costable s s' : costable s s' -> heapD s -> heapD s'.
Proof.
  intros HC HD o ob' Ho. destruct (HC _ _ Ho) as [Hd|(ob & Ho0 & A & B)]; [exact Hd|].
  unfold has_data. rewrite A, B. apply (HD _ _ Ho0).
Qed.

(* ------------------------------------------------------------------ keeps *)

Definition keeps (s s' : st) : Prop :=
  (exists l, ext s s' l) /\ (cv s -> cv s') /\ (storeD (store s) -> costable s s').

Lemma keeps_refl s : keeps s s.
Proof. split; [exists []; apply ext_refl|]. split; [auto | intros _; apply costable_refl]. Qed.

Lemma keeps_trans s1 s2 s3 : keeps s1 s2 -> keeps s2 s3 -> keeps s1 s3.
Proof.
  intros ([l1 X1] & C1 & H1) ([l2 X2] & C2 & H2). split; [exists (l1 ++ l2); eapply ext_trans; eassumption|].
  split; [auto|]. intro HS. eapply costable_trans; [apply H1; exact HS|]. apply H2. eapply storeD_ext; eassumption.
Qed.

Lemma keeps_NP s s' : keeps s s' -> NP s -> NP s'.
Proof.
  intros ([l X] & C & H) (A & B & D0). split; [apply C; exact A|]. split.
  - eapply heapD_costable; [apply H; exact D0 | exact B].
  - eapply storeD_ext; eassumption.
Qed.

(* a step that changes neither heap nor cache *)
Lemma keeps_quiet_mem s s' l : ext s s' l -> heap s' = heap s -> cache s' = cache s -> keeps s s'.
Proof.
  intros X Hh Hc. split; [exists l; exact X|]. split.
  - intros Hcv k o H. rewrite Hc in H. rewrite Hh. eapply Hcv. exact H.
  - intros _. apply costable_eq. exact Hh.
Qed.

Lemma keeps_p_save s k r s' b : p_save s k r = (s', b) -> keeps s s'.
Proof. intro H. apply p_save_spec in H. destruct H as ((Hh & Hc & _) & X & _). eapply keeps_quiet_mem; eassumption. Qed.

Lemma keeps_p_delete s k s' b : p_delete s k = (s', b) -> keeps s s'.
Proof. intro H. apply p_delete_spec in H. destruct H as ((Hh & Hc & _) & X & _). eapply keeps_quiet_mem; eassumption. Qed.

Lemma keeps_p_usersessions s u s' r : p_usersessions s u = (s', r) -> keeps s s'.
Proof.
  intro H. apply p_usersessions_spec in H. destruct H as ((Hh & Hc & _) & _ & _ & b & X & _).
  eapply keeps_quiet_mem; eassumption.
Qed.

Lemma keeps_set_pending s v : keeps s (set_pending s v).
Proof. eapply keeps_quiet_mem; [apply ext_set_pending | reflexivity | reflexivity]. Qed.

Lemma keeps_gen_id s : keeps s (fst (gen_id s)).
Proof. eapply keeps_quiet_mem; [apply gen_id_spec | reflexivity | reflexivity]. Qed.

Lemma keeps_remove s k : keeps s (set_cache s (remove (cache s) k)).
Proof.
  split; [exists []; apply ext_set_cache|]. split.
  - intros Hcv k' o H. simpl in H. apply In_remove in H. apply (Hcv k' o). tauto.
  - intros _. apply costable_eq. reflexivity.
Qed.

Lemma keeps_hput s o ob v :
  hget s o = Some ob ->
  (has_data (o_rec v) \/ (r_ref (o_rec v) = r_ref (o_rec ob) /\ r_data (o_rec v) = r_data (o_rec ob))) ->
  keeps s (hput s o v).
Proof.
  intros Ho Hv. split; [exists []; apply ext_hput|]. split.
  - intros Hcv k' o' H. rewrite hput_len. eapply Hcv. exact H.
  - intros _. eapply costable_hput; eassumption.
Qed.

Lemma keeps_hupd s o f :
  (forall r, has_data (f r) \/ (r_ref (f r) = r_ref r /\ r_data (f r) = r_data r)) -> keeps s (hupd s o f).
Proof.
  intro Hf. destruct (hget s o) as [ob|] eqn:Ho.
  - rewrite (hupd_spec _ _ _ _ Ho). eapply keeps_hput; [exact Ho | apply Hf].
  - rewrite (hupd_none _ _ _ Ho). apply keeps_refl.
Qed.

Lemma keeps_halloc s v : has_data (o_rec v) -> keeps s (fst (halloc s v)).
Proof.
  intro Hv. split; [exists []; apply ext_halloc|]. split.
  - intros Hcv k o H. simpl in H. unfold halloc. simpl. rewrite app_length. apply Hcv in H. lia.
  - intros _. apply costable_halloc. exact Hv.
Qed.

Lemma keeps_compact s req : keeps s (compact s req).
Proof.
  destruct (compact_flushes s req) as (l & X & _ & Hh & _ & Hi & _).
  split; [exists l; exact X|]. split.
  - intros Hcv k o H. rewrite Hh. eapply Hcv. apply Hi. exact H.
  - intros _. apply costable_eq. exact Hh.
Qed.

Lemma cache_get_ext s k s' r : cache_get s k = (s', r) -> exists l, ext s s' l.
Proof.
  intro HG. apply cache_get_spec in HG.
  destruct HG as [(o & _ & -> & _)|(_ & s1 & lr & EP & HG)]; [exists []; apply ext_refl|].
  pose proof (p_load_spec _ _ _ _ EP) as (_ & _ & _ & l & X & _).
  destruct lr as [[rc|]|]; destruct HG as [-> _]; try (exists l; exact X).
  unfold after_load. destruct (_ =? _)%Z.
  - exists l. eapply ext_nil_r; [exact X | apply ext_halloc].
  - destruct (compact_flushes (fst (halloc s1 (mkObj k rc))) 1) as (l3 & X3 & _).
    exists (l ++ l3). eapply ext_nil_r; [|apply ext_set_cache]. eapply ext_trans; [|exact X3].
    eapply ext_nil_r; [exact X | apply ext_halloc].
Qed.

Lemma keeps_cache_get s k s' r : cache_get s k = (s', r) -> keeps s s'.
Proof.
  intro HG. split; [eapply cache_get_ext; exact HG|]. split.
  - intro Hcv. destruct (cache_get_safe _ (fun _ _ _ _ => I) _ _ _ _ (J_true _ Hcv) HG) as (_ & _ & _ & (Hcv' & _) & _).
    exact Hcv'.
  - intro HS. apply cache_get_spec in HG. destruct HG as [(o & _ & -> & _)|(_ & s1 & lr & EP & HG)]; [apply costable_refl|].
    pose proof (p_load_spec _ _ _ _ EP) as ((Hh & _) & _ & _ & _ & _ & _ & _ & Hres).
    destruct lr as [[rc|]|]; destruct HG as [-> _]; try (apply costable_eq; exact Hh).
    unfold after_load. eapply costable_trans; [apply costable_eq; exact Hh|].
    eapply costable_trans; [apply (costable_halloc s1 (mkObj k rc)); intros _; apply (HS _ _ Hres)|].
    destruct (_ =? _)%Z; [apply costable_refl|]. apply costable_eq. simpl.
    destruct (compact_flushes (fst (halloc s1 (mkObj k rc))) 1) as (_ & _ & _ & Hh3 & _). exact Hh3.
Qed.

Lemma keeps_cache_set s o s' b : cache_set s o = (s', b) -> keeps s s'.
Proof.
  intro HS. destruct (hget s o) as [ob|] eqn:Ho.
  - split; [destruct (cache_set_quiet _ _ _ _ HS) as (l & X & _); exists l; exact X|]. split.
    + intro Hcv. destruct (cache_set_safe _ (fun _ _ _ _ => I) (fun _ _ _ _ => I) _ _ _ _ _ (J_true _ Hcv) Ho HS)
        as (_ & _ & _ & _ & Hcv' & _). exact Hcv'.
    + intros _. pose proof (cache_set_heap _ _ _ _ _ Ho HS) as Hh.
      eapply costable_trans; [|apply costable_eq; exact Hh].
      eapply costable_hput; [exact Ho | right; split; reflexivity].
  - apply cache_set_spec in HS. destruct HS as [(_ & -> & _)|(ob & Ho' & _)]; [apply keeps_refl | congruence].
Qed.

Lemma keeps_cache_delete s k s' b : cache_delete s k = (s', b) -> keeps s s'.
Proof.
  unfold cache_delete. intro H. eapply keeps_trans; [apply (keeps_remove s k) | eapply keeps_p_delete; exact H].
Qed.

Lemma keeps_destroy s o hc s' res cks : destroy s o hc = (s', res, cks) -> keeps s s'.
Proof.
  unfold destroy. destruct (hget s o) as [ob|]; [|intro H; injection H as <- _ _; apply keeps_refl].
  destruct (cache_delete s (o_id ob)) as [s1 b] eqn:E. apply keeps_cache_delete in E.
  destruct b; intro H; injection H as <- _ _; exact E.
Qed.

Lemma keeps_create s q s' res cks : create_session s q = (s', res, cks) -> keeps s s'.
Proof.
  unfold create_session. cbn [gen_id]. unfold halloc. cbn [fst snd].
  match goal with |- context [cache_set ?a ?b] => destruct (cache_set a b) as [s1 b1] eqn:E end.
  apply keeps_cache_set in E. intro H.
  assert (s' = s1) by (destruct b1; injection H as <- _ _; reflexivity). subst s'.
  eapply keeps_trans; [apply keeps_gen_id|]. eapply keeps_trans; [|exact E].
  apply (keeps_halloc (fst (gen_id s))). intros _. discriminate.
Qed.

Lemma keeps_regenerate s o s' res cks : regenerate s o = (s', res, cks) -> keeps s s'.
Proof.
  intro HR. destruct (hget s o) as [ob|] eqn:Ho.
  - destruct (regenerate_spec _ _ _ _ _ _ Ho HR) as (s2 & b1 & EC1 & _ & HS). cbv zeta in HS.
    apply keeps_cache_set in EC1.
    assert (Q2 : keeps s s2).
    { eapply keeps_trans; [apply keeps_gen_id|]. eapply keeps_trans; [|exact EC1].
      eapply keeps_hput; [exact Ho | right; split; reflexivity]. }
    destruct b1; [|destruct HS as (-> & _); exact Q2].
    destruct HS as (_ & s4 & b2 & EC2 & HS). apply keeps_cache_set in EC2.
    assert (Q4 : keeps s s4).
    { eapply keeps_trans; [exact Q2|]. eapply keeps_trans; [|exact EC2]. apply keeps_halloc. intro H. discriminate. }
    destruct b2; destruct HS as (-> & _); [|exact Q4].
    eapply keeps_trans; [exact Q4 | apply keeps_set_pending].
  - unfold regenerate in HR. rewrite Ho in HR. injection HR as <- _ _. apply keeps_refl.
Qed.

Lemma keeps_follow : forall fuel s o lk s' res, follow fuel s o lk = (s', res) -> keeps s s'.
Proof.
  induction fuel as [|f IH]; intros s o lk s' res HF; simpl in HF; destruct (hget s o) as [ob|];
    try (injection HF as <- _; apply keeps_refl).
  - destruct (r_ref (o_rec ob)); injection HF as <- _; apply keeps_refl.
  - destruct (r_ref (o_rec ob)) as [t|]; [|injection HF as <- _; apply keeps_refl].
    destruct (cache_get s t) as [s1 g] eqn:EG. apply keeps_cache_get in EG.
    destruct g as [[o1|]|]; try (injection HF as <- _; exact EG).
    eapply keeps_trans; [exact EG | eapply IH; exact HF].
Qed.

Lemma keeps_save_direct s o s' r : save_direct s o = (s', r) -> keeps s s'.
Proof.
  unfold save_direct. destruct (hget s o) as [ob|]; [|intro H; injection H as <- _; apply keeps_refl].
  destruct (p_save s (o_id ob) (o_rec ob)) as [s1 b] eqn:E. apply keeps_p_save in E.
  intro H. injection H as <- _. exact E.
Qed.

Lemma same_ref_data (f : rec -> rec) :
  (forall r, r_ref (f r) = r_ref r /\ r_data (f r) = r_data r) ->
  forall r, has_data (f r) \/ (r_ref (f r) = r_ref r /\ r_data (f r) = r_data r).
Proof. intros H r. right. apply H. Qed.

Lemma keeps_logout s o s' r : logout s o = (s', r) -> keeps s s'.
Proof.
  unfold logout. destruct (hget s o) as [ob|]; [|intro H; injection H as <- _; apply keeps_refl].
  destruct (r_user (o_rec ob)); [|intro H; injection H as <- _; apply keeps_refl].
  intro H. apply keeps_save_direct in H. eapply keeps_trans; [|exact H].
  apply keeps_hupd. apply same_ref_data. intro r0. split; reflexivity.
Qed.

Lemma keeps_each ids u : forall s s' r, each_user_session s ids u = (s', r) -> keeps s s'.
Proof.
  induction ids as [|k t IH]; intros s s' r HE; simpl in HE.
  - injection HE as <- _. apply keeps_refl.
  - destruct (cache_get s k) as [s1 g] eqn:EG. apply keeps_cache_get in EG.
    destruct g as [[o|]|].
    + destruct (cache_set (hupd s1 o (fun r0 => set_user r0 u)) o) as [s2 b] eqn:ES. apply keeps_cache_set in ES.
      assert (H2 : keeps s s2).
      { eapply keeps_trans; [exact EG|]. eapply keeps_trans; [|exact ES].
        apply keeps_hupd. apply same_ref_data. intro r0. split; reflexivity. }
      destruct b; [eapply keeps_trans; [exact H2 | eapply IH; exact HE] | injection HE as <- _; exact H2].
    + eapply keeps_trans; [exact EG | eapply IH; exact HE].
    + injection HE as <- _. exact EG.
Qed.

Lemma keeps_logout_user s u s' r : logout_user s u = (s', r) -> keeps s s'.
Proof.
  unfold logout_user. destruct (p_usersessions s u) as [s1 [ids|]] eqn:E; apply keeps_p_usersessions in E.
  - intro H. eapply keeps_trans; [exact E | eapply keeps_each; exact H].
  - intro H. injection H as <- _. exact E.
Qed.

Lemma keeps_refresh_user s u s' r : refresh_user s u = (s', r) -> keeps s s'.
Proof.
  unfold refresh_user. destruct (p_usersessions s (fst u)) as [s1 [ids|]] eqn:E; apply keeps_p_usersessions in E.
  - intro H. eapply keeps_trans; [exact E | eapply keeps_each; exact H].
  - intro H. injection H as <- _. exact E.
Qed.

Lemma keeps_login s o u ex s' res cks : login s o u ex = (s', res, cks) -> keeps s s'.
Proof.
  unfold login. intro HL.
  assert (HA : exists sA r1, (if ex then logout_user s (fst u) else let '(s0, _) := logout s o in (s0, Ok tt)) = (sA, r1) /\ keeps s sA).
  { destruct ex.
    - destruct (logout_user s (fst u)) as [sA r1] eqn:E. exists sA, r1. split; [reflexivity | eapply keeps_logout_user; exact E].
    - destruct (logout s o) as [sA r0] eqn:E. exists sA, (Ok tt). split; [reflexivity | eapply keeps_logout; exact E]. }
  destruct HA as (sA & r1 & EA & KA). rewrite EA in HL.
  destruct r1 as [[]|e|e]; try (injection HL as <- _ _; exact KA).
  destruct (cache_set (hupd sA o (fun r => set_user r (Some u))) o) as [sC b] eqn:ES. apply keeps_cache_set in ES.
  assert (KC : keeps s sC).
  { eapply keeps_trans; [exact KA|]. eapply keeps_trans; [|exact ES].
    apply keeps_hupd. apply same_ref_data. intro r0. split; reflexivity. }
  destruct b; simpl in HL; [|injection HL as <- _ _; exact KC].
  destruct (regenerate sC o) as [[s2 r2] ck2] eqn:ER. apply keeps_regenerate in ER.
  assert (s' = s2) by (destruct r2; injection HL as <- _ _; reflexivity). subst s'.
  eapply keeps_trans; eassumption.
Qed.

Lemma keeps_set_data s o d : keeps s (hupd s o (fun r => set_data r (Some d))).
Proof. apply keeps_hupd. intro r. left. intros _. discriminate. Qed.

Lemma keeps_do_sop s o hc op s' r cks : do_sop s o hc op = (s', r, cks) -> keeps s s'.
Proof.
  destruct op; simpl.
  - destruct (data_of s o) as [d|]; [|intro H; injection H as <- _ _; apply keeps_refl].
    destruct (save_direct _ o) as [s1 r1] eqn:ES. apply keeps_save_direct in ES.
    intro H. injection H as <- _ _. eapply keeps_trans; [apply keeps_set_data | exact ES].
  - destruct (save_direct _ o) as [s1 r1] eqn:ES. apply keeps_save_direct in ES.
    intro H. injection H as <- _ _. eapply keeps_trans; [|exact ES].
    destruct (data_of s o); [apply keeps_set_data | apply keeps_refl].
  - intro H. injection H as <- _ _. apply keeps_refl.
  - destruct (data_of s o) as [d|]; [|intro H; injection H as <- _ _; apply keeps_refl].
    destruct (kv_get d k); [|intro H; injection H as <- _ _; apply keeps_refl].
    destruct (save_direct _ o) as [s1 r1] eqn:ES. apply keeps_save_direct in ES.
    intro H. injection H as <- _ _. eapply keeps_trans; [apply keeps_set_data | exact ES].
  - destruct (login s o u exclusive) as [[s1 r1] c1] eqn:E. apply keeps_login in E.
    intro H. injection H as <- _ _. exact E.
  - destruct (logout s o) as [s1 r1] eqn:E. apply keeps_logout in E. intro H. injection H as <- _ _. exact E.
  - destruct (regenerate s o) as [[s1 r1] c1] eqn:E. apply keeps_regenerate in E. intro H. injection H as <- _ _. exact E.
  - destruct (destroy s o hc) as [[s1 r1] c1] eqn:E. apply keeps_destroy in E. intro H. injection H as <- _ _. exact E.
Qed.

Lemma keeps_fire l : forall s s' rest, fire s l = (s', rest) -> keeps s s'.
Proof.
  induction l as [|[due k] t IH]; intros s s' rest HF; simpl in HF.
  - injection HF as <- _. apply keeps_refl.
  - destruct (due <=? now s)%Z.
    + destruct (cache_delete s k) as [s1 b] eqn:E. apply keeps_cache_delete in E.
      eapply keeps_trans; [exact E | eapply IH; exact HF].
    + destruct (fire s t) as [s1 r1] eqn:E. injection HF as <- _. eapply IH. exact E.
Qed.

Lemma keeps_fire_due s : keeps s (fire_due s).
Proof.
  unfold fire_due. destruct (fire (set_pending s []) (pending s)) as [s1 rest] eqn:E.
  apply keeps_fire in E. eapply keeps_trans; [apply (keeps_set_pending s [])|].
  eapply keeps_trans; [exact E | apply keeps_set_pending].
Qed.

Lemma keeps_run_script ops : forall s o hc s' rs cks, run_script s o hc ops = (s', rs, cks) -> keeps s s'.
Proof.
  induction ops as [|op t IH]; intros s o hc s' rs cks HR; simpl in HR.
  - injection HR as <- _ _. apply keeps_refl.
  - destruct (do_sop s o hc op) as [[s1 r1] c1] eqn:ED. apply keeps_do_sop in ED.
    assert (K1 : keeps s (fire_due s1)) by (eapply keeps_trans; [exact ED | apply keeps_fire_due]).
    match type of HR with (if ?c then _ else _) = _ => destruct c end.
    + injection HR as <- _ _. exact K1.
    + destruct (run_script (fire_due s1) o hc t) as [[s2 rs2] c2] eqn:E2. injection HR as <- _ _.
      eapply keeps_trans; [exact K1 | eapply IH; exact E2].
Qed.
