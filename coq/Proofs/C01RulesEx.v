(* C01, liveness half under the acceptance rules (C01Rules.v): where the plain
   rule-based variant fails — the boundary is not a cache size —, and histories
   on which the proved promises are due (non-vacuity).

   The failure needs (i) a request accepted from an address Start's pattern
   does not match (a0), (ii) the octet rule comparing something (2 <= n <= 4),
   (iii) that request rotating the ID with the session's object leaving the
   cache inside RegenerateID, before Start notes peer and agent, so that the
   record keeps the peer before a0, and (iv) a next request from a matched
   address acceptable relative to a0 (anything is) but not relative to the
   record's. (iii) happens at cache size 1 always; at size N >= 2 when the N
   cached sessions carry the same access instant (N - 1 other clients' requests
   at the same instant) and Go's map order picks the session both times
   cache.Set compacts — the model's tie-break list; at every size, bounded or
   not, when SessionCacheExpiry is negative (every entry is idle at once). *)
From Sessions Require Import Model.Base Model.Sess Model.Hist Model.Corr Proofs.SessDefs
  Proofs.C01Spec Proofs.C01Live Proofs.C01Live5 Proofs.C01Live6 Proofs.C01Rules.
From Sessions Require Proofs.HistInv3.

(* ----------------------------------------------------------- refutations *)

(* an admissible history on which the plain rule-based promise is broken *)
Definition rules_fail (c : cfg) (hs : list hop) : Prop :=
  forallb (live_hop (c_acceptip c) (c_acceptua c) (c_json c)) hs = true /\
  l_run2 live_cond_rules (c, []) (mkWorld (init_st c) []) hs = false.

(* a request with a tie-break list (Go's map order among equally old entries) *)
Definition rqt (c : N) (a : addr) (u : N) (create : bool) (script : list sop) (tbl : list key) : hop :=
  HReq (mkReqStep c PJar create a u script tbl [] None).

(* size 2: another client's request at the instant of the rotating request *)
Definition hist_T2 : list hop :=
  [rq' 1 (V4 10 0 0 1 80) 7 true []; HWait 10; rq' 2 (V4 30 0 0 1 80) 8 true [];
   rqt 1 (AOther 5) 7 false [] [KGen 0; KGen 2]; HWait 10; rq' 1 (V4 20 0 0 1 80) 7 false []].

(* size 3: two other clients' requests at that instant *)
Definition hist_T3 : list hop :=
  [rq' 1 (V4 10 0 0 1 80) 7 true []; HWait 10; rq' 2 (V4 30 0 0 1 80) 8 true []; rq' 3 (V4 40 0 0 1 80) 9 true [];
   rqt 1 (AOther 5) 7 false [] [KGen 0; KGen 3]; HWait 10; rq' 1 (V4 20 0 0 1 80) 7 false []].

(* as cfR (C01Live.v: expiry 1000, rotation on every request, first octet
   compared), SessionCacheExpiry and cache size given *)
Definition cfN (mx ce : Z) : cfg := mkCfg 1000 0 100 ce mx 2 true false.

Theorem rules_refuted_beyond_size1 :
  rules_fail (cfR 1) hist_R /\ rules_fail (cfR 2) hist_T2 /\ rules_fail (cfR 3) hist_T3 /\
  rules_fail (cfN (-1) (-1)) hist_R /\ rules_fail (cfN 10 (-1)) hist_R.
Proof. unfold rules_fail. vm_compute. repeat split. Qed.

(* the same in words a reader of the statement file sees *)
Theorem rules_refuted_every_size_class :
  (forall mx, In mx [1; 2; 3]%Z ->
     exists c hs, c_maxcache c = mx /\ (0 <= c_cacheexpiry c)%Z /\ rules_fail c hs) /\
  (exists c hs, (c_maxcache c < 0)%Z /\ rules_fail c hs).
Proof.
  destruct rules_refuted_beyond_size1 as (H1 & H2 & H3 & H4 & _). split.
  - intros mx [<-|[<-|[<-|[]]]].
    + exists (cfR 1), hist_R. split; [reflexivity|]. split; [discriminate|exact H1].
    + exists (cfR 2), hist_T2. split; [reflexivity|]. split; [discriminate|exact H2].
    + exists (cfR 3), hist_T3. split; [reflexivity|]. split; [discriminate|exact H3].
  - exists (cfN (-1) (-1)), hist_R. split; [reflexivity|exact H4].
Qed.

(* what the witnesses have in common: the broken promise is the one the proved
   condition excludes (last accepted peer unmatched, this one matched, rule in
   force); and without the tie / with room / with a sane SessionCacheExpiry the
   same histories are served *)
Example rules_witness_shape :
  ip_pass 2 (AOther 5) (V4 20 0 0 1 80) = false /\
  l_run2 live_cond_acc (cfR 2, []) (mkWorld (init_st (cfR 2)) []) hist_T2 = true /\
  map ob_res (run (cfR 2) hist_T2) = [RSess; RVoid; RSess; RSess; RVoid; RNone] /\
  map ob_res (run (cfR 3) hist_T2) = [RSess; RVoid; RSess; RSess; RVoid; RSess] /\
  map ob_res (run (cfR 4) hist_T3) = [RSess; RVoid; RSess; RSess; RSess; RVoid; RSess] /\
  map ob_res (run (cfN (-1) 0) hist_R) = [RSess; RVoid; RSess; RVoid; RSess] /\
  (* size 2, the other session older: no tie, served *)
  l_run2 live_cond_rules (cfR 2, []) (mkWorld (init_st (cfR 2)) [])
    [rq' 1 (V4 10 0 0 1 80) 7 true []; rq' 2 (V4 30 0 0 1 80) 8 true []; HWait 10;
     rqt 1 (AOther 5) 7 false [] [KGen 0; KGen 2]; HWait 10; rq' 1 (V4 20 0 0 1 80) 7 false []] = true.
Proof. vm_compute. repeat split. Qed.

(* ------------------------------------------------------------ non-vacuity *)

(* at which requests a promise is due *)
Fixpoint l_due_with (cond : cfg -> Z -> lrec -> addr -> N -> bool)
         (cl : cfg * list (N * lrec)) (w : world) (hs : list hop) : list bool :=
  match hs with
  | [] => []
  | h :: t =>
    let '(w', o) := step w h in
    let cl' := snd (l_step2 cond cl w h o) in
    match h with
    | HReq r => match l_get (snd cl) (rq_client r) with
                | Some x => cond (fst cl) (now (w_st w)) x (rq_addr r) (rq_ua r)
                | None => false
                end :: l_due_with cond cl' w' t
    | _ => l_due_with cond cl' w' t
    end
  end.

Definition due (c : cfg) cond (hs : list hop) : list bool :=
  l_due_with cond (c, []) (mkWorld (init_st c) []) hs.

(* expiry 1000 s, rotation on every request, grace 100 s; rules n, b; cache size; codec *)
Definition cfQ (n : Z) (b : bool) (mx : Z) (js : bool) : cfg :=
  mkCfg 1000000000000 0 100000000000 1000000000000 mx n b js.

(* client 1: a new source port at every request (once another last octet too),
   every request rotates its ID; client 2 in between, evicting it from a
   one-slot cache; a purge; a login *)
Definition hist_port : list hop :=
  [rq' 1 (V4 10 0 0 1 1001) 7 true [SSet 1 2]; rq' 2 (V4 20 0 0 1 80) 8 true [];
   HWait 10000000000; rq' 1 (V4 10 0 0 1 1002) 7 false [SGet 1]; rq' 2 (V4 20 0 0 1 80) 8 false [];
   HWait 10000000000; rq' 1 (V4 10 0 0 9 1003) 7 false []; HPurge [] [];
   HWait 10000000000; rq' 1 (V4 10 0 0 1 1004) 7 false [SLogIn (5, 1)%N false];
   HWait 10000000000; rq' 1 (V4 10 0 0 1 1005) 7 false [SGet 1]].

(* admissible, all addresses matched; the strictest octet rule (4), agents
   compared, cache size 1, JSON: the promise under the rules is due at every
   request of client 1 after the first (and client 2's second), the
   identical-peer promise only at client 2's; the data is there *)
Example hist_port_due :
  forallb (live_hop 4 false true) hist_port = true /\ forallb v4_hop hist_port = true /\
  due (cfQ 4 false 1 true) live_cond_acc hist_port = [false; false; true; true; true; true; true] /\
  due (cfQ 4 false 1 true) live_cond_rules hist_port = [false; false; true; true; true; true; true] /\
  due (cfQ 4 false 1 true) live_cond hist_port = [false; false; false; true; false; false; false] /\
  map ob_res (run (cfQ 4 false 1 true) hist_port) =
    [RSess; RSess; RVoid; RSess; RSess; RVoid; RSess; RVoid; RVoid; RSess; RVoid; RSess] /\
  nth 11 (map ob_script (run (cfQ 4 false 1 true) hist_port)) [] = [SVal (Some 2%N)].
Proof. vm_compute. repeat split. Qed.

(* the theorems applied to it: cache sizes 1, 2, unbounded; both codecs *)
Example hist_port_live :
  forallb (fun c => l_run2 live_cond_acc (c, []) (mkWorld (init_st c) []) hist_port &&
                    l_run2 live_cond_rules (c, []) (mkWorld (init_st c) []) hist_port)
          [cfQ 4 false 1 true; cfQ 4 false 1 false; cfQ 4 false 2 true; cfQ 4 false (-1) false] = true.
Proof.
  assert (H : forall c, In c [cfQ 4 false 1 true; cfQ 4 false 1 false; cfQ 4 false 2 true; cfQ 4 false (-1) false] ->
              l_run2 live_cond_acc (c, []) (mkWorld (init_st c) []) hist_port &&
              l_run2 live_cond_rules (c, []) (mkWorld (init_st c) []) hist_port = true).
  { intros c Hc. apply andb_true_intro. split.
    - apply c01_liveness_acc. repeat destruct Hc as [<-|Hc]; try contradiction; vm_compute; reflexivity.
    - apply c01_liveness_rules; [|right; vm_compute; reflexivity].
      repeat destruct Hc as [<-|Hc]; try contradiction; vm_compute; reflexivity. }
  apply forallb_forall. exact H.
Qed.

(* the rules switched off (AcceptRemoteIP = 1, AcceptChangingUserAgent): address
   (matched or not) and agent change at every request; cache size 1 *)
Definition hist_any : list hop :=
  [rq' 1 (V4 10 0 0 1 80) 7 true [SSet 1 2]; HWait 10000000000; rq' 1 (AOther 5) 8 false [SGet 1];
   HWait 10000000000; rq' 1 (V4 20 9 9 9 443) 9 false [SGet 1]; rq' 2 (AOther 6) 0 true [];
   HWait 10000000000; rq' 1 (AOther 6) 0 false [SGet 1]; HWait 10000000000; rq' 1 (V4 30 0 0 1 80) 7 false [SGet 1]].

Example hist_any_due :
  forallb (live_hop 1 true true) hist_any = true /\ forallb v4_hop hist_any = false /\ ip_free 1 = true /\
  due (cfQ 1 true 1 true) live_cond_acc hist_any = [false; true; true; false; true; true] /\
  due (cfQ 1 true 1 true) live_cond_rules hist_any = [false; true; true; false; true; true] /\
  due (cfQ 1 true 1 true) live_cond hist_any = [false; false; false; false; false; false] /\
  map ob_res (run (cfQ 1 true 1 true) hist_any) =
    [RSess; RVoid; RSess; RVoid; RSess; RSess; RVoid; RSess; RVoid; RSess] /\
  (* with the first octet compared, the request after the unmatched address is
     not promised by the proved condition — and at size 1 it is refused *)
  due (cfQ 2 true 1 false) live_cond_acc hist_any = [false; true; false; false; false; false] /\
  map ob_res (run (cfQ 2 true 1 false) hist_any) =
    [RSess; RVoid; RSess; RVoid; RNone; RSess; RVoid; RNone; RVoid; RNone].
Proof. vm_compute. repeat split. Qed.

Example hist_any_live :
  l_run2 live_cond_acc (cfQ 1 true 1 true, []) (mkWorld (init_st (cfQ 1 true 1 true)) []) hist_any = true /\
  l_run2 live_cond_rules (cfQ 1 true 1 true, []) (mkWorld (init_st (cfQ 1 true 1 true)) []) hist_any = true /\
  l_run2 live_cond_acc (cfQ 2 true 1 false, []) (mkWorld (init_st (cfQ 2 true 1 false)) []) hist_any = true.
Proof.
  split; [|split].
  - apply c01_liveness_acc. vm_compute. reflexivity.
  - apply c01_liveness_rules; [vm_compute; reflexivity | left; reflexivity].
  - apply c01_liveness_acc. vm_compute. reflexivity.
Qed.

(* the one-request form applied: the last request of hist_port *)
Example hist_port_served_last :
  let c := cfQ 4 false 1 true in
  let hs := firstn 11 hist_port in
  let r := mkReqStep 1 PJar false (V4 10 0 0 1 1005) 7 [SGet 1] [] [] None in
  let w := HistInv3.after (mkWorld (init_st c) []) hs in
  l_get (snd (l_after2 (c, []) (mkWorld (init_st c) []) hs)) 1 = Some (30000000000%Z, V4 10 0 0 1 1004, 7%N) /\
  served w r = true /\ ob_res (snd (step w (HReq r))) = RSess.
Proof.
  cbv zeta. split; [vm_compute; reflexivity|].
  destruct (c01_served_acc (cfQ 4 false 1 true) (firstn 11 hist_port)
              (mkReqStep 1 PJar false (V4 10 0 0 1 1005) 7 [SGet 1] [] [] None)
              30000000000%Z (V4 10 0 0 1 1004) 7%N) as (A & B & _).
  - vm_compute. reflexivity.
  - vm_compute. reflexivity.
  - vm_compute. reflexivity.
  - split; assumption.
Qed.
