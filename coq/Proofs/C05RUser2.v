(* C05: replaced-ID records along histories WITH user-wide calls. Part 2: the
   loop of LogOut(userID)/RefreshUser keeps R (Proofs/C05RUser.v) when the IDs it
   is given are not stored as replaced-ID records; that is so for the IDs whose
   stored record carries the user (by R itself: a replaced-ID record carries no
   user) and - the hypothesis GR here, discharged by the invariant GA of
   Proofs/C05RUser3.v / C05RUser4.v - for the IDs a stale user index still lists
   after their deletion. Fault-free, on LI (Proofs/HistLift4.v: PF's invariant,
   cached objects agree with the store on the reference field). *)
From Sessions Require Import Model.Base Model.Sess Model.Hist Proofs.SessDefs Proofs.HistInv Proofs.HistInv2 Proofs.HistInv3
  Proofs.HistLift Proofs.HistLift2 Proofs.HistLift3 Proofs.HistLift4 Proofs.C05RUser.
From Coq Require Import Lia.

(* k is not stored as a replaced-ID record *)
Definition nph (s : st) (k : key) : Prop := forall t, sref s k <> Some (Some t).

Lemma nph_qt s s' k : qt s s' -> nph s k -> nph s' k.
Proof. intros Q H t. rewrite (qt_sref _ _ Q). apply H. Qed.

(* the loop *)
Lemma R_eus b base D u : forall ids s, inv b base NX D s -> Kcs s -> R s ->
  (forall k, In k ids -> nph s k) -> R (fst (each_user_session s ids u)).
Proof.
  induction ids as [|k t IH]; intros s I K HR Hn; cbn [each_user_session]; [exact HR|].
  destruct (cache_get_inv _ _ _ _ _ k I) as (s1 & r & E & I1 & Hr).
  destruct (cache_get_qt _ _ _ _ k I K) as (Q1 & K1 & Hobj). rewrite E in *. cbn [fst snd] in *.
  pose proof (R_cache_get _ _ _ _ E HR) as R1.
  assert (Hn1 : forall k', In k' (k :: t) -> nph s1 k') by (intros k' Hk'; eapply nph_qt; [exact Q1 | apply Hn; exact Hk']).
  destruct r as [o|].
  - destruct Hr as [Hbo [ob (Ho & _ & HnD & _)]].
    destruct (Hobj o eq_refl) as (ob' & Ho' & Hid & Hs). rewrite Ho in Ho'. injection Ho' as <-.
    assert (Hnr : r_ref (o_rec ob) = None).
    { destruct (r_ref (o_rec ob)) as [t0|] eqn:Er; [|reflexivity]. exfalso. exact (Hn1 k (or_introl eq_refl) t0 Hs). }
    assert (H1 : hok b D s1 o) by (split; [exact Hbo | exists ob; split; assumption]).
    destruct (inv_hupd_hok _ _ _ _ o (fun r => set_user r u) I1 H1) as [I2 H2]; [reflexivity|].
    destruct (hupd_qt s1 o (fun r => set_user r u) (fun _ => eq_refl) K1) as [Q2 K2].
    destruct H2 as [_ [ob2 [Ho2 HnD2]]].
    assert (Eob2 : ob2 = mkObj (o_id ob) (set_user (o_rec ob) u)).
    { rewrite hget_hupd, Nat.eqb_refl, Ho in Ho2. injection Ho2 as <-. reflexivity. }
    assert (R2 : R (hupd s1 o (fun r => set_user r u))).
    { apply R_hupd; [exact R1|]. intros ob0 Ho0. rewrite Ho in Ho0. injection Ho0 as <-. apply rok_nonref. exact Hnr. }
    assert (F2 : ffnd (hupd s1 o (fun r => set_user r u))) by (eapply inv_ffnd; exact I2).
    pose proof (cache_set_ff _ _ _ F2 Ho2) as Ecs. rewrite Ecs.
    assert (R3 : R (cset (hupd s1 o (fun r => set_user r u)) o ob2)).
    { eapply R_cache_set; [exact Ecs | exact R2|]. intros ob0 Ho0. rewrite Ho2 in Ho0. injection Ho0 as <-.
      apply rok_nonref. rewrite Eob2. exact Hnr. }
    assert (Hs2 : sref (hupd s1 o (fun r => set_user r u)) (o_id ob2) = Some (r_ref (o_rec ob2))).
    { destruct (qt_obp _ _ Q2 o ob Ho) as (ob2' & Ho2' & Eid & Eref). rewrite Ho2 in Ho2'. injection Ho2' as <-.
      rewrite (qt_sref _ _ Q2), Eid, Eref, Hid. exact Hs. }
    destruct (cset_qt _ _ _ _ _ _ _ I2 K2 Ho2 Hs2) as [Q3 K3].
    apply IH; [apply inv_cset; assumption | exact K3 | exact R3|].
    intros k' Hk'. eapply nph_qt; [exact Q3|]. eapply nph_qt; [exact Q2|]. apply Hn1. right. exact Hk'.
  - apply IH; [exact I1 | exact K1 | exact R1|]. intros k' Hk'. apply Hn1. right. exact Hk'.
Qed.

(* the stale index: IDs listed although deleted *)
Definition GR (s : st) : Prop := forall k v, In (k, Some v) (graves s) -> nph s k.

(* with R, every ID the index lists for a user is not a replaced-ID record's *)
Lemma listed_nph s u : NoDup (map fst (store s)) -> R s -> GR s -> forall k, In k (listed s u) -> nph s k.
Proof.
  intros Hnd [_ Hl] Hg k Hin. unfold listed in Hin. apply in_app_iff in Hin. destruct Hin as [Hin|Hin].
  - apply in_map_iff in Hin. destruct Hin as [[k' g] [Ek Hin]]. cbn in Ek. subst k'. apply filter_In in Hin.
    destruct Hin as [Hin Hg']. cbn in Hg'. destruct g as [v|]; [|discriminate]. exact (Hg k v Hin).
  - apply in_map_iff in Hin. destruct Hin as [[k' r] [Ek Hin]]. cbn in Ek. subst k'. apply filter_In in Hin.
    destruct Hin as [Hin Hu]. cbn in Hu. intros t Hs.
    unfold sref in Hs. rewrite (In_lookup _ _ _ Hnd Hin) in Hs. cbn in Hs. injection Hs as Hs.
    destruct (Hl k r Hin) as [_ Hnu]; [rewrite Hs; discriminate|]. rewrite Hnu in Hu. discriminate.
Qed.

(* LogOut(userID) / RefreshUser as steps of a history *)
Definition uw_hop (h : hop) : Prop :=
  match h with HLogoutUser _ _ pl | HRefreshUser _ _ pl => pl = [] | _ => False end.

Lemma R_step_user w h : uw_hop h -> LI (w_st w) -> R (w_st w) -> GR (w_st w) -> R (w_st (fst (step w h))).
Proof.
  intros Hh Hli HR Hg. destruct h as [r|d|tbl pl| | |u tbl pl|u tbl pl|c]; cbn [uw_hop] in Hh; try contradiction; subst pl.
  - cbn [step].
    pose proof (GW_G Q0 Q0_qt (w_st w) [] tbl Hli eq_refl) as G1. pose proof G1 as (I1 & K1 & _).
    set (s1 := set_tb (set_plan (set_evs (w_st w) []) []) tbl) in *.
    assert (R1 : R s1) by (eapply R_same; [| |exact HR]; reflexivity).
    destruct (logout_user_inv _ _ _ _ u I1) as (s2 & E & I2 & _).
    assert (R2 : R s2).
    { unfold logout_user in E. rewrite p_usersessions_ff in E by apply (i_plan _ _ _ _ _ I1).
      assert (I0 : inv 0 (supply (w_st w), []) NX ND (set_evs s1 ([EvUserSessions u true] ++ evs s1))) by (apply inv_quiet; [repeat constructor | exact I1]).
      pose proof (R_eus _ _ _ None (listed s1 u) _ I0 K1) as H. rewrite E in H. cbn [fst] in H. apply H.
      - eapply R_same; [| |exact R1]; reflexivity.
      - intros k Hk. apply (listed_nph (w_st w) u); [apply (i_nds _ _ _ _ _ I1) | exact HR | exact Hg | exact Hk]. }
    rewrite E. cbn [fst w_st]. apply R_fire_due. eapply R_same; [| |exact R2]; reflexivity.
  - cbn [step].
    pose proof (GW_G Q0 Q0_qt (w_st w) [] tbl Hli eq_refl) as G1. pose proof G1 as (I1 & K1 & _).
    set (s1 := set_tb (set_plan (set_evs (w_st w) []) []) tbl) in *.
    assert (R1 : R s1) by (eapply R_same; [| |exact HR]; reflexivity).
    destruct (refresh_user_inv _ _ _ _ u I1) as (s2 & E & I2 & _).
    assert (R2 : R s2).
    { unfold refresh_user in E. rewrite p_usersessions_ff in E by apply (i_plan _ _ _ _ _ I1).
      assert (I0 : inv 0 (supply (w_st w), []) NX ND (set_evs s1 ([EvUserSessions (fst u) true] ++ evs s1))) by (apply inv_quiet; [repeat constructor | exact I1]).
      pose proof (R_eus _ _ _ (Some u) (listed s1 (fst u)) _ I0 K1) as H. rewrite E in H. cbn [fst] in H. apply H.
      - eapply R_same; [| |exact R1]; reflexivity.
      - intros k Hk. apply (listed_nph (w_st w) (fst u)); [apply (i_nds _ _ _ _ _ I1) | exact HR | exact Hg | exact Hk]. }
    rewrite E. cbn [fst w_st]. apply R_fire_due. eapply R_same; [| |exact R2]; reflexivity.
Qed.

(* an exclusive LogIn on a session's handle (per call) *)
Lemma R_login_ex b base D s o u s' res cks : login s o u true = (s', res, cks) ->
  inv b base NX D s -> Kcs s -> R s -> GR s -> nrp s o -> R s'.
Proof.
  unfold login. intros E I K HR Hg Hn.
  destruct (logout_user_inv _ _ _ _ (fst u) I) as (s0 & EL & I0 & _).
  destruct (logout_user_qt _ _ _ _ (fst u) I K) as [Q0' K0]. rewrite EL in *. cbn [fst] in *. cbv beta iota zeta in E.
  assert (R0 : R s0).
  { unfold logout_user in EL. rewrite p_usersessions_ff in EL by apply (i_plan _ _ _ _ _ I).
    assert (Iq : inv b base NX D (set_evs s ([EvUserSessions (fst u) true] ++ evs s))) by (apply inv_quiet; [repeat constructor | exact I]).
    pose proof (R_eus _ _ _ None (listed s (fst u)) _ Iq K) as H. rewrite EL in H. cbn [fst] in H. apply H.
    - eapply R_same; [| |exact HR]; reflexivity.
    - intros k Hk. apply (listed_nph s (fst u)); [apply (i_nds _ _ _ _ _ I) | exact HR | exact Hg | exact Hk]. }
  assert (Hn0 : nrp s0 o).
  { destruct Hn as (ob & Ho & Hr). destruct (qt_obp _ _ Q0' o ob Ho) as (ob' & Ho' & _ & Er). exists ob'. split; [exact Ho' | congruence]. }
  set (s2 := hupd s0 o (fun r => set_user r (Some u))) in *.
  assert (R2 : R s2).
  { apply R_hupd; [exact R0|]. intros ob' Ho'. destruct Hn0 as (ob0 & H0 & Hr0). rewrite H0 in Ho'. injection Ho' as <-.
    apply rok_nonref. exact Hr0. }
  assert (Hn2 : nrp s2 o) by (eapply nrp_kref; [apply kref_hupd; intro r; destruct r; reflexivity | exact Hn0]).
  destruct (cache_set s2 o) as [s3 ok] eqn:EC.
  pose proof (R_cache_set _ _ _ _ EC R2 (nrp_touch _ _ Hn2)) as R3.
  pose proof (nrp_kref _ _ _ (kref_stable _ _ (CrashFault9.stable_cache_set _ _ _ _ EC)) Hn2) as Hn3.
  destruct ok; cbn [negb] in E; [|injection E as <- _ _; exact R3].
  destruct (regenerate s3 o) as [[s4 r2] ck4] eqn:ER. pose proof (R_regenerate _ _ _ _ _ ER R3 Hn3) as R4.
  destruct r2; injection E as <- _ _; exact R4.
Qed.

(* ------------------------------------------------------------- histories *)

(* the hops covered: those of the partial theorem (requests with any fault
   plan whose scripts contain no exclusive LogIn, waits, purges, cache loss,
   restarts, reconfiguration) and the fault-free user-wide steps *)
Definition uok (h : hop) : Prop := nuw h \/ uw_hop h.

(* the stale index lists no replaced-ID record wherever a user-wide step starts *)
Fixpoint guarded (w : world) (hs : list hop) : Prop :=
  match hs with
  | [] => True
  | h :: t => (uw_hop h -> GR (w_st w)) /\ guarded (fst (step w h)) t
  end.

Lemma R_step_u w h : uok h -> LI (w_st w) -> (uw_hop h -> GR (w_st w)) -> R (w_st w) -> R (w_st (fst (step w h))).
Proof. intros [Hn|Hu] Hli Hg HR; [apply R_step; assumption | apply R_step_user; auto]. Qed.

Lemma R_after_u : forall hs w, Forall uok hs -> Forall ff_hop hs -> Forall crash_free hs -> guarded w hs ->
  LI (w_st w) -> R (w_st w) -> R (w_st (after w hs)).
Proof.
  induction hs as [|h t IH]; intros w Hu Hff Hcf Hg Hli HR; cbn [after]; [exact HR|].
  inversion Hu; inversion Hff; inversion Hcf; subst. destruct Hg as [Hg1 Hg2].
  apply IH; try assumption; [apply LI_step; assumption | apply R_step_u; assumption].
Qed.

Theorem replrec_user c hs : Forall uok hs -> Forall ff_hop hs -> Forall crash_free hs ->
  guarded (mkWorld (init_st c) []) hs ->
  let s := w_st (reach c hs) in
  (forall k r, L s k = Some r -> r_ref r <> None -> r_created r = r_access r /\ r_user r = None) /\
  (forall k r, lookup (store s) k = Some r -> r_ref r <> None -> r_created r = r_access r /\ r_user r = None) /\
  (forall o ob, hget s o = Some ob -> r_ref (o_rec ob) <> None ->
     r_created (o_rec ob) = r_access (o_rec ob) /\ r_user (o_rec ob) = None).
Proof.
  intros Hu Hff Hcf Hg s.
  assert (HR : R s) by (apply R_after_u; try assumption; [apply LI_init | apply R_init]). destruct HR as [A B].
  assert (Hst : forall k r, lookup (store s) k = Some r -> rok r) by (intros k r H; apply (B k); apply lookup_In; exact H).
  split; [|split; [exact Hst | exact A]].
  intros k r HL. unfold L in HL. destruct (lookup (cache s) k) as [o|].
  - destruct (hget s o) as [ob|] eqn:Ho; [|discriminate]. injection HL as <-. exact (A o ob Ho).
  - exact (Hst k r HL).
Qed.

(* C05's last clause along such histories: Expired() of a stored replaced-ID
   record turns true when, and not before, its grace period is over *)
Theorem expired_ref_user c hs k r j cf t :
  Forall uok hs -> Forall ff_hop hs -> Forall crash_free hs -> guarded (mkWorld (init_st c) []) hs ->
  lookup (store (w_st (reach c hs))) k = Some r -> r_ref r = Some j ->
  (0 <= c_idexpiry cf)%Z -> (c_grace cf <= max64)%Z ->
  (expired cf r t = true <-> (c_grace cf <= since (r_access r) t)%Z).
Proof.
  intros Hu Hff Hcf Hg Hl Hr H1 H2. destruct (replrec_user c hs Hu Hff Hcf Hg) as (_ & Hs & _).
  apply (RotateLaws4.expired_ref_grace cf r t j Hr); [|exact H1 | exact H2].
  apply (Hs k r Hl). rewrite Hr. discriminate.
Qed.

(* ---- a decision procedure for `guarded` on concrete histories ---- *)

Definition gr_b (s : st) : bool :=
  forallb (fun kg : key * option N =>
             match snd kg with
             | Some _ => match sref s (fst kg) with Some (Some _) => false | _ => true end
             | None => true
             end) (graves s).

Lemma gr_b_sound s : gr_b s = true -> GR s.
Proof.
  intros H k v Hin t Hs. unfold gr_b in H. rewrite forallb_forall in H. specialize (H (k, Some v) Hin).
  cbn [fst snd] in H. rewrite Hs in H. discriminate.
Qed.

Definition uw_b (h : hop) : bool :=
  match h with HLogoutUser _ _ [] | HRefreshUser _ _ [] => true | _ => false end.

Lemma uw_b_complete h : uw_hop h -> uw_b h = true.
Proof. destruct h as [r|d|tbl pl| | |u tbl pl|u tbl pl|c]; cbn; try contradiction; intros ->; reflexivity. Qed.

Fixpoint guarded_b (w : world) (hs : list hop) : bool :=
  match hs with
  | [] => true
  | h :: t => (negb (uw_b h) || gr_b (w_st w)) && guarded_b (fst (step w h)) t
  end.

Lemma guarded_b_sound : forall hs w, guarded_b w hs = true -> guarded w hs.
Proof.
  induction hs as [|h t IH]; intros w H; cbn [guarded guarded_b] in *; [exact I|].
  apply andb_true_iff in H. destruct H as [H1 H2]. split; [|apply IH; exact H2].
  intro Hu. apply gr_b_sound. rewrite (uw_b_complete h Hu) in H1. exact H1.
Qed.
