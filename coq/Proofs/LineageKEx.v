(* Round 4, task R4(a), C07: non-vacuity of the theorems of Proofs/LineageK*.v and
   computed instances of the full statement for crashes in the middle of a step.

   The example continues Proofs/LineageEx.v: the session of client 1 had the IDs
   0, 1, 2 and was destroyed while 0 -> 1 -> 2 were still replaced-ID records in
   their grace period (world lx_w1). Afterwards (lk_h2): client 3 creates a
   session and changes its ID twice - and the process stops right after the
   step's last persistence call (7 calls, rq_crash = Some 8); the three former
   IDs are presented; a request presenting former ID 0 crashes at its very
   beginning (rq_crash = Some 0; it only reads, so every crash point is late);
   cache loss; a long wait; the former IDs again.

   Part 2 (the lk_mid examples): the same checks, by computation, when the process stops
   after EVERY number n = 0..24 of persistence calls of several kinds of steps
   (also two crashes in a row, and with a cache of one entry so that flushes
   interleave with the saves of an ID change). The general theorem for every crash
   point is proved (Proofs/LineageF.v; lk_any_theorem below applies it), so these
   are instances of it.

   Everything below is checked by computation on the model or by applying the
   theorems; nothing here is a general claim. *)
From Sessions Require Import Model.Base Model.Sess Model.Hist Model.Corr Proofs.SessDefs
  Proofs.HistInv Proofs.HistInv2 Proofs.HistInv3 Proofs.HistLift3 Proofs.HistLift4 Proofs.IsoLaws Proofs.DeadLaws
  Proofs.Lineage Proofs.Lineage2 Proofs.Lineage3 Proofs.Lineage4 Proofs.Lineage5 Proofs.LineageEx
  Proofs.LineageK Proofs.LineageK2 Proofs.LineageK3 Proofs.LineageK4 Proofs.LineageF.
From Coq Require Import Lia.

Definition lk_rq (c : N) (p : present) (cr : bool) (sc : list sop) (crash : option nat) : reqstep :=
  mkReqStep c p cr (AOther 0) 7 sc [] [] crash.

Definition lk_other (crash : option nat) : reqstep :=
  lk_rq 3 PJar true [SSet 1 1; SRegen; SLogIn (6, 1)%N false] crash.
Definition lk_former (crash : option nat) : reqstep :=
  lk_rq 2 (PForge (CKey (KGen 0))) true [SSet 2 2] crash.

Definition lk_h2 : list hop :=
  [HReq (lk_other (Some 8));
   lx_forge 0 false; lx_forge 1 true; lx_forge 2 false;
   HReq (lk_former (Some 0));
   lx_forge 0 false; HDropCache; lx_forge 1 false;
   HWait 200; lx_forge 0 true; lx_forge 1 false].

Lemma lk_ff2 : Forall ff_hop lk_h2.
Proof. repeat constructor. Qed.

(* the crashes of lk_h2 are late: the first step makes 7 persistence calls (and
   3 draws) and stops behind them; the second makes one call, a load *)
Example lk_calls :
  length (filter is_call (ob_evs (snd (step lx_w1 (HReq (lk_other None)))))) = 7 /\
  length (ob_evs (snd (step lx_w1 (HReq (lk_other None))))) = 10 /\
  length (filter is_call (ob_evs (snd (step (after lx_w1 (firstn 4 lk_h2)) (HReq (lk_former None)))))) = 1.
Proof. vm_compute. repeat split. Qed.

Example lk_reads :
  ob_evs (snd (step (after lx_w1 (firstn 4 lk_h2)) (HReq (lk_former None)))) = [EvLoad (KGen 2) true].
Proof. vm_compute. reflexivity. Qed.

Example lk_late : late_hist lx_w1 lk_h2.
Proof. vm_compute. repeat split; repeat constructor. Qed.
(* the same, with the world written as the theorems have it *)
Example lk_late' : late_hist (fst (step (reach lx_cfg lx_h1) (HReq lx_end))) lk_h2.
Proof. vm_compute. repeat split; repeat constructor. Qed.

Example lk_not_crash_free : ~ Forall crash_free lk_h2.
Proof. intro H. inversion H as [|? ? H1 _]. discriminate H1. Qed.

(* what the model does *)
Example lk_answers :
  map (fun o => (ob_res o, option_map fst (ob_start o), ob_cookies o, map fst (ob_store o), ob_drawn o))
      (run_from lx_w1 lk_h2) =
  [(RCrashed, None, [], [KGen 0; KGen 1; KGen 3; KGen 4; KGen 5], 6%N);
   (RErr ERefMissing, None, [], [KGen 0; KGen 1; KGen 3; KGen 4; KGen 5], 6%N);
   (RErr ERefMissing, None, [], [KGen 0; KGen 1; KGen 3; KGen 4; KGen 5], 6%N);
   (RNone, None, [CkDelete], [KGen 0; KGen 1; KGen 3; KGen 4; KGen 5], 6%N);
   (RCrashed, None, [], [KGen 0; KGen 1; KGen 3; KGen 4; KGen 5], 6%N);
   (RErr ERefMissing, None, [], [KGen 0; KGen 1; KGen 3; KGen 4; KGen 5], 6%N);
   (RVoid, None, [], [KGen 0; KGen 1; KGen 3; KGen 4; KGen 5], 6%N);
   (RErr ERefMissing, None, [], [KGen 0; KGen 1; KGen 3; KGen 4; KGen 5], 6%N);
   (RVoid, None, [], [KGen 0; KGen 1; KGen 3; KGen 4; KGen 5], 6%N);
   (RErr EExpiredID, None, [], [KGen 1; KGen 3; KGen 4; KGen 5], 6%N);
   (RErr EExpiredID, None, [], [KGen 3; KGen 4; KGen 5], 6%N)].
Proof. vm_compute. reflexivity. Qed.

(* the clean-ups of IDs 0 and 1 were lost with the first crash: the records stay
   until somebody presents them after the backstop age *)
Example lk_pending_lost :
  pending (w_st (after lx_w1 (firstn 1 lk_h2))) = [] /\
  map fst (store (w_st (after lx_w1 (firstn 9 lk_h2)))) = [KGen 0; KGen 1; KGen 3; KGen 4; KGen 5].
Proof. vm_compute. split; reflexivity. Qed.

(* the theorem applied to the example (not computed) *)
Example lk_theorem :
  all_steps (lin_claim_k (lineage (w_st lx_w1) (KGen 2))) lx_w1 lk_h2.
Proof.
  destruct lx_ff1 as [F1 C1].
  destruct lx_destroyed_hyps as (Hpl & Hcr & Hne & Hn & Hfin).
  destruct (destroyed_lineage_late lx_cfg lx_h1 lx_end lk_h2 F1 (crash_free_late_hist _ _ C1) Hpl Hcr lk_ff2 lk_late' Hne Hn)
    as (kn & rc & A1 & _ & _ & A4).
  rewrite Hfin in A1. injection A1 as <- _. unfold lx_w1, lx_w0. exact A4.
Qed.

(* ... pointwise: after both crashes and the cache loss, ID 1 with createIfNew *)
Example lk_probe :
  dead_answer (snd (step (after lx_w1 (firstn 7 lk_h2)) (lx_forge 1 true))) /\
  ob_res (snd (step (after lx_w1 (firstn 7 lk_h2)) (lx_forge 1 true))) = RErr ERefMissing.
Proof.
  split; [|vm_compute; reflexivity].
  destruct lx_ff1 as [F1 C1]. destruct lx_destroyed_hyps as (Hpl & Hcr & _).
  destruct lx_state_after_destroy as (_ & _ & _ & Ha & Hk & _).
  apply (lineage_probe_late lx_w1 (KGen 2) (firstn 7 lk_h2) (lx_rq 2 (PForge (CKey (KGen 1))) true []) (KGen 1)).
  - apply LI_step; [apply LI_reach; assumption | exact Hpl | exact Hcr].
  - exact Hk.
  - exact Ha.
  - repeat constructor.
  - vm_compute. repeat split; repeat constructor.
  - reflexivity.
  - reflexivity.
  - apply lx_lineage.
  - reflexivity.
Qed.

(* ... and the former IDs still resolve to nothing or to records into the lineage *)
Example lk_stays :
  forall k, lineage (w_st lx_w1) (KGen 2) k ->
  L (w_st (after lx_w1 lk_h2)) k = None \/
  exists r t, L (w_st (after lx_w1 lk_h2)) k = Some r /\ r_ref r = Some t /\ lineage (w_st lx_w1) (KGen 2) t.
Proof.
  intros k Hk. destruct lx_ff1 as [F1 C1]. destruct lx_destroyed_hyps as (Hpl & Hcr & _).
  destruct lx_state_after_destroy as (_ & _ & _ & Ha & Hd & _).
  apply (lineage_stays_late lx_w1 (KGen 2) lk_h2 k).
  - apply LI_step; [apply LI_reach; assumption | exact Hpl | exact Hcr].
  - exact Hd.
  - exact Ha.
  - exact lk_ff2.
  - exact lk_late.
  - exact Hk.
Qed.

(* invalidation by Start (the example of LineageEx.v: the session, ID 2, is
   presented after 2000 s), then a late crash of client 3's step, then former IDs *)
Definition lk_h3 : list hop := [HReq (lk_other (Some 40)); lx_forge 0 false; lx_forge 2 true; HRestart; lx_forge 1 true].

Example lk_late3 : late_hist (fst (step (reach lx_cfg lx_h1b) (HReq lx_endb))) lk_h3.
Proof. vm_compute. repeat split; repeat constructor. Qed.

Example lk_invalidated :
  all_steps (lin_claim_k (lineage (w_st lx_w1b) (KGen 2))) lx_w1b lk_h3 /\
  map (fun o => (ob_res o, option_map fst (ob_start o), ob_cookies o)) (run_from lx_w1b lk_h3) =
  [(RCrashed, None, []); (RNone, None, [CkDelete]); (RSess, Some (KGen 7), [CkDelete; CkLive (KGen 7)]);
   (RVoid, None, []); (RSess, Some (KGen 8), [CkDelete; CkLive (KGen 8)])].
Proof.
  split; [|vm_compute; reflexivity].
  destruct lx_invalidated as (Hpr & (r0 & HL & Hv) & _).
  assert (F1 : Forall ff_hop lx_h1b) by (repeat constructor).
  assert (C1 : Forall crash_free lx_h1b) by (repeat constructor).
  assert (F3 : Forall ff_hop lk_h3) by (repeat constructor).
  destruct (invalidated_lineage_late lx_cfg lx_h1b lx_endb lk_h3 (KGen 2) r0 F1 (crash_free_late_hist _ _ C1) eq_refl eq_refl
              F3 lk_late3 Hpr HL Hv) as (_ & _ & A).
  unfold lx_w1b. exact A.
Qed.

(* ------------------------------------------------ TESTS: crashes in the middle of a step *)

(* in world w: each of the IDs 0, 1, 2, presented with and without createIfNew,
   gets a dead answer, and resolves to nothing or to a replaced-ID record naming
   one of them *)
Definition lk_ids : list N := [0; 1; 2]%N.

Definition lk_world_ok (w : world) : bool :=
  forallb (fun n => dead_answerb (snd (step w (lx_forge n false))) && dead_answerb (snd (step w (lx_forge n true)))) lk_ids &&
  forallb (fun n => match L (w_st w) (KGen n) with
                    | None => true
                    | Some r => match r_ref r with Some (KGen t) => existsb (N.eqb t) lk_ids | _ => false end
                    end) lk_ids.

(* after a step: now, after the step repeated without crash, after waits, after
   probing and a restart *)
Definition lk_after_ok (w : world) (again : hop) : bool :=
  lk_world_ok w && lk_world_ok (after w [again]) && lk_world_ok (after w [HWait 50]) &&
  lk_world_ok (after w [HWait 50; again; HWait 200]) && lk_world_ok (after w [lx_forge 0 true; HRestart; again]).

Definition lk_mid (w0 : world) (r : option nat -> reqstep) (n : nat) : bool :=
  lk_after_ok (fst (step w0 (HReq (r (Some n))))) (HReq (r None)).

(* two crashes in a row, at points n and m *)
Definition lk_mid2 (w0 : world) (r1 r2 : option nat -> reqstep) (n m : nat) : bool :=
  lk_after_ok (after w0 [HReq (r1 (Some n)); HReq (r2 (Some m))]) (HReq (r2 None)).

(* the steps that crash *)
Definition lk_former1 (crash : option nat) : reqstep :=       (* presents former ID 2 (gone), then changes the new session's ID *)
  lk_rq 2 (PForge (CKey (KGen 2))) true [SRegen; SSet 2 2] crash.
Definition lk_live (crash : option nat) : reqstep :=          (* client 3's own session: ID changes, then Destroy *)
  lk_rq 3 PJar true [SRegen; SLogIn (6, 1)%N true; SDestroy] crash.
(* a world in which client 3 has a session whose ID is due *)
Definition lk_w2 : world := after lx_w1 [HReq (lk_rq 3 PJar true [SSet 1 1] None); HWait 15].

Example lk_mid_other : forallb (lk_mid lx_w1 lk_other) (seq 0 25) = true.
Proof. vm_compute. reflexivity. Qed.
Example lk_mid_former : forallb (lk_mid lx_w1 lk_former1) (seq 0 25) = true.
Proof. vm_compute. reflexivity. Qed.
Example lk_mid_live : forallb (lk_mid lk_w2 lk_live) (seq 0 25) = true.
Proof. vm_compute. reflexivity. Qed.
Example lk_mid_twice :
  forallb (fun n => forallb (lk_mid2 lk_w2 lk_live lk_former1 n) (seq 0 12)) (seq 0 16) = true.
Proof. vm_compute. reflexivity. Qed.

(* the same with a cache of one entry (flushes interleave with the saves of the
   ID changes) *)
Definition lk_cfg1 : cfg := mkCfg 1000 10 100 1000 1 0 true false.
Definition lk_w1s : world := reach lk_cfg1 (lx_h1 ++ [HReq lx_end]).
Definition lk_w2s : world := after lk_w1s [HReq (lk_rq 3 PJar true [SSet 1 1] None); HWait 15].

Example lk_small_base :
  map (fun n => option_map r_ref (L (w_st lk_w1s) (KGen n))) lk_ids = [Some (Some (KGen 1)); Some (Some (KGen 2)); None] /\
  key_drawn (w_st lk_w1s) (KGen 2) /\ absent (w_st lk_w1s) (KGen 2).
Proof. vm_compute. repeat split. Qed.

Example lk_mid_small_other : forallb (lk_mid lk_w1s lk_other) (seq 0 30) = true.
Proof. vm_compute. reflexivity. Qed.
Example lk_mid_small_former : forallb (lk_mid lk_w1s lk_former1) (seq 0 30) = true.
Proof. vm_compute. reflexivity. Qed.
Example lk_mid_small_live : forallb (lk_mid lk_w2s lk_live) (seq 0 30) = true.
Proof. vm_compute. reflexivity. Qed.

(* steps that write under IDs of the lineage: the clean-ups were lost in a
   restart, so the replaced-ID records 0 and 1 outlive their grace period; a
   request presenting ID 0 after the backstop age (200 s: EExpiredID, the record
   is deleted) or after SessionExpiry (2000 s: invalid, deleted, a new session is
   created and its ID changed) crashes at every point *)
Definition lk_former0 (crash : option nat) : reqstep :=
  lk_rq 2 (PForge (CKey (KGen 0))) true [SRegen; SSet 2 2] crash.
Definition lk_w3 : world := after lx_w1 [HRestart; HWait 200].
Definition lk_w4 : world := after lx_w1 [HRestart; HWait 2000].
(* a handler using every operation, on client 3's session whose ID is due *)
Definition lk_mix (crash : option nat) : reqstep :=
  lk_rq 3 PJar true [SSet 4 4; SLogIn (6, 1)%N true; SGetDel 4; SLogOut; SDel 1; SRegen; SGet 1] crash.

Example lk_mid_backstop : forallb (lk_mid lk_w3 lk_former0) (seq 0 12) = true.
Proof. vm_compute. reflexivity. Qed.
Example lk_mid_invalid : forallb (lk_mid lk_w4 lk_former0) (seq 0 12) = true.
Proof. vm_compute. reflexivity. Qed.
Example lk_mid_mix : forallb (lk_mid lk_w2 lk_mix) (seq 0 30) = true.
Proof. vm_compute. reflexivity. Qed.
Example lk_mid_small_mix : forallb (lk_mid lk_w2s lk_mix) (seq 0 40) = true.
Proof. vm_compute. reflexivity. Qed.
Example lk_mid_sizes2 :
  map (fun wr => (ob_res (snd (step (fst wr) (HReq (snd wr None)))),
                  length (filter is_call (ob_evs (snd (step (fst wr) (HReq (snd wr None))))))))
      [(lk_w3, lk_former0); (lk_w4, lk_former0); (lk_w2, lk_mix); (lk_w2s, lk_mix)]
  = [(RErr EExpiredID, 2); (RSess, 6); (RSess, 12); (RSess, 19)].
Proof. vm_compute. reflexivity. Qed.

(* the crash points used above do lie inside the steps: numbers of persistence calls *)
Example lk_mid_sizes :
  map (fun wr => length (filter is_call (ob_evs (snd (step (fst wr) (HReq (snd wr None)))))))
      [(lx_w1, lk_other); (lx_w1, lk_former1); (lk_w2, lk_live); (lk_w1s, lk_other); (lk_w1s, lk_former1); (lk_w2s, lk_live)]
  = [7; 5; 9; 12; 7; 16].
Proof. vm_compute. reflexivity. Qed.

(* ------------------------------------------------ the conditional theorem for a crash anywhere

   mid_crash_store (LineageK4.v) applied: the set D = {0, 1, 2} satisfies LN in
   the world after Destroy; client 3's step (7 persistence calls, three ID
   changes) makes only calls that respect D; so after a stop behind ANY number
   of them the three IDs still resolve to nothing or into D. *)
Definition lk_D : key -> Prop := fun k => exists n, k = KGen n /\ In n lk_ids.

Example lk_D_LN : LN lk_D (w_st lx_w1).
Proof.
  destruct lx_ff1 as [F1 C1]. destruct lx_destroyed_hyps as (Hpl & Hcr & _).
  apply LI_LN; [apply LI_step; [apply LI_reach; assumption | exact Hpl | exact Hcr]|].
  intros k (n & -> & Hin). cbn [lk_ids In] in Hin.
  destruct Hin as [<-|[<-|[<-|[]]]]; (split; [vm_compute; reflexivity|]).
  - right. exists (KGen 1). split; [vm_compute; reflexivity | exists 1%N; split; [reflexivity | cbn; auto]].
  - right. exists (KGen 2). split; [vm_compute; reflexivity | exists 2%N; split; [reflexivity | cbn; auto]].
  - left. vm_compute. reflexivity.
Qed.

(* the persistence calls of the test steps respect D (computed) *)
Example lk_events_ok :
  forallb (fun wr => forallb (ev_linb lk_ids) (ob_evs (snd (step (fst wr) (HReq (snd wr None))))))
      [(lx_w1, lk_other); (lx_w1, lk_former1); (lk_w2, lk_live); (lk_w1s, lk_other); (lk_w1s, lk_former1); (lk_w2s, lk_live);
       (lx_w1, lk_former); (lk_w3, lk_former0); (lk_w4, lk_former0); (lk_w2, lk_mix); (lk_w2s, lk_mix)] = true.
Proof. vm_compute. reflexivity. Qed.

Example lk_mid_theorem : forall n k, lk_D k ->
  let w' := fst (step lx_w1 (HReq (lk_other (Some n)))) in
  pending (w_st w') = [] /\ key_drawn (w_st w') k /\
  (L (w_st w') k = None \/ exists rk t, L (w_st w') k = Some rk /\ r_ref rk = Some t /\ lk_D t).
Proof.
  intros n k Hk. cbv zeta.
  assert (Hev : Forall (ev_lin lk_D) (ob_evs (snd (step lx_w1 (HReq (nocrash (lk_other (Some n)))))))).
  { apply Forall_forall. intros e He. apply ev_linb_sound.
    assert (Hb : forallb (ev_linb lk_ids) (ob_evs (snd (step lx_w1 (HReq (lk_other None))))) = true) by (vm_compute; reflexivity).
    rewrite forallb_forall in Hb. apply Hb. exact He. }
  destruct (mid_crash_store lk_D lx_w1 (lk_other (Some n)) n lk_D_LN eq_refl Hev) as [A B].
  split; [exact A | exact (B k Hk)].
Qed.

(* ------------------------------------------------ the full theorem applied (LineageF.v)

   A continuation whose crashes cut off writes: client 3's step with three ID
   changes stops after 3 of its 7 persistence calls (between the two saves of
   RegenerateID); a request presenting former ID 2 with createIfNew, which creates
   a session and changes its ID, stops after 2 of 5; client 3 comes back and its
   step stops after 4 calls; the former IDs are presented in between and at the
   end, after a wait beyond the backstop age. *)
Definition lk_h4 : list hop :=
  [HReq (lk_other (Some 3)); lx_forge 0 false; lx_forge 1 true;
   HReq (lk_former1 (Some 2)); lx_forge 2 true; lx_forge 0 true;
   HReq (lk_other (Some 4)); HDropCache; lx_forge 1 false; HWait 200; lx_forge 0 false; lx_forge 1 true; lx_forge 2 false].

Lemma lk_ff4 : Forall ff_hop lk_h4.
Proof. repeat constructor. Qed.

(* these crashes are not late: they cut off saves *)
Example lk_h4_not_late : ~ late_hist lx_w1 lk_h4.
Proof. intros [H _]. vm_compute in H. discriminate H. Qed.

Example lk_any_theorem :
  all_steps (lin_claim_k (lineage (w_st lx_w1) (KGen 2))) lx_w1 lk_h4.
Proof.
  destruct lx_ff1 as [F1 C1].
  destruct lx_destroyed_hyps as (Hpl & Hcr & Hne & Hn & Hfin).
  destruct (destroyed_lineage_any lx_cfg lx_h1 lx_end lk_h4 F1 Hpl Hcr lk_ff4 Hne Hn) as (kn & rc & A1 & _ & _ & A4).
  rewrite Hfin in A1. injection A1 as <- _. unfold lx_w1, lx_w0. exact A4.
Qed.

Example lk_any_answers :
  map (fun o => (ob_res o, option_map fst (ob_start o), ob_cookies o, map fst (ob_store o), ob_drawn o))
      (run_from lx_w1 lk_h4) =
  [(RCrashed, None, [], [KGen 0; KGen 1; KGen 3; KGen 4], 5%N);
   (RErr ERefMissing, None, [], [KGen 0; KGen 1; KGen 3; KGen 4], 5%N);
   (RErr ERefMissing, None, [], [KGen 0; KGen 1; KGen 3; KGen 4], 5%N);
   (RCrashed, None, [], [KGen 0; KGen 1; KGen 3; KGen 4; KGen 5], 6%N);
   (RSess, Some (KGen 6), [CkDelete; CkLive (KGen 6)], [KGen 0; KGen 1; KGen 3; KGen 4; KGen 5; KGen 6], 7%N);
   (RErr ERefMissing, None, [], [KGen 0; KGen 1; KGen 3; KGen 4; KGen 5; KGen 6], 7%N);
   (RCrashed, None, [], [KGen 0; KGen 1; KGen 3; KGen 4; KGen 5; KGen 6; KGen 7; KGen 8], 9%N);
   (RVoid, None, [], [KGen 0; KGen 1; KGen 3; KGen 4; KGen 5; KGen 6; KGen 7; KGen 8], 9%N);
   (RErr ERefMissing, None, [], [KGen 0; KGen 1; KGen 3; KGen 4; KGen 5; KGen 6; KGen 7; KGen 8], 9%N);
   (RVoid, None, [], [KGen 0; KGen 1; KGen 3; KGen 4; KGen 5; KGen 6; KGen 7; KGen 8], 9%N);
   (RErr EExpiredID, None, [], [KGen 1; KGen 3; KGen 4; KGen 5; KGen 6; KGen 7; KGen 8], 9%N);
   (RErr EExpiredID, None, [], [KGen 3; KGen 4; KGen 5; KGen 6; KGen 7; KGen 8], 9%N);
   (RNone, None, [CkDelete], [KGen 3; KGen 4; KGen 5; KGen 6; KGen 7; KGen 8], 9%N)].
Proof. vm_compute. reflexivity. Qed.

(* ------------------------------------------------ a crash BEFORE the ending request, in the ended session itself;
   and the orphan copy, which is OUTSIDE the lineage

   Client 1 creates a session and logs in (IDs 0, 1); 20 s later its ID is due and
   Start's RegenerateID draws ID 2 and saves the full copy under it - and the
   process stops between the two saves (rq_crash = Some 1): the replaced-ID record
   under ID 1 is never written, the response never sent, the client keeps ID 1.
   Its next request moves the session 1 -> 3 and the handler destroys it. The
   lineage of the ended ID 3 contains 1 and 0 (dead for ever: lo_theorem, an
   instance of destroyed_lineage_any with the crash in hs1). It does NOT contain
   ID 2: that ID was never sent to any client and no record points to or from it;
   the copy stored under it is the orphan of DESIGN 9.17 A9 /
   C10C_destroy_removes_orphan_refuted, and somebody who guesses it does get the
   session. C07K says nothing about such IDs. *)
Definition lo_h1 : list hop :=
  [HReq (lx_rq 1 PJar true [SSet 1 2; SLogIn (5, 1)%N false]); HWait 20;
   HReq (lk_rq 1 PJar false [] (Some 1))].
Definition lo_end : reqstep := lx_rq 1 PJar false [SGet 1; SDestroy].
Definition lo_w0 : world := reach lx_cfg lo_h1.
Definition lo_w1 : world := fst (step lo_w0 (HReq lo_end)).
Definition lo_h2 : list hop := [HRestart; lx_forge 0 true; lx_forge 1 false; lx_forge 3 false; lx_forge 2 false].

Example lo_life :
  map (fun o => (ob_res o, option_map fst (ob_start o), option_map fst (ob_final o), ob_cookies o, map fst (ob_store o), ob_jar o))
      (run lx_cfg (lo_h1 ++ [HReq lo_end])) =
  [(RSess, Some (KGen 0), Some (KGen 1), [CkLive (KGen 0); CkLive (KGen 1)], [KGen 0; KGen 1], CKey (KGen 1));
   (RVoid, None, None, [], [KGen 0; KGen 1], CNone);
   (RCrashed, None, None, [], [KGen 0; KGen 1; KGen 2], CKey (KGen 1));
   (RSess, Some (KGen 3), Some (KGen 3), [CkLive (KGen 3); CkDelete], [KGen 0; KGen 1; KGen 2], CNone)] /\
  (* the stop cut off the second save of RegenerateID *)
  map (fun e => match e with EvSave k r _ => Some (k, r_ref r) | _ => None end)
      (ob_evs (snd (step (reach lx_cfg (firstn 2 lo_h1)) (HReq (lk_rq 1 PJar false [] None))))) =
  [None; Some (KGen 2, None); Some (KGen 1, Some (KGen 2))].
Proof. vm_compute. split; reflexivity. Qed.

Lemma lo_ff1 : Forall ff_hop lo_h1 /\ ~ Forall crash_free lo_h1.
Proof.
  split; [repeat constructor|]. intro H. inversion H as [|? ? _ Ha]. inversion Ha as [|? ? _ Hb].
  inversion Hb as [|? ? Hc _]. discriminate Hc.
Qed.

Example lo_lineage :
  lineage (w_st lo_w1) (KGen 3) (KGen 1) /\ lineage (w_st lo_w1) (KGen 3) (KGen 0).
Proof.
  assert (H1 : lineage (w_st lo_w1) (KGen 3) (KGen 1)).
  { eapply lin_ref; [vm_compute; reflexivity | reflexivity | constructor]. }
  split; [exact H1|]. eapply lin_ref; [vm_compute; reflexivity | reflexivity | exact H1].
Qed.

(* C07K_destroyed with the crashing hop in hs1, in the ended session *)
Example lo_theorem :
  all_steps (lin_claim_k (lineage (w_st lo_w1) (KGen 3))) lo_w1 lo_h2.
Proof.
  destruct lo_ff1 as [F1 _].
  assert (F2 : Forall ff_hop lo_h2) by (repeat constructor).
  assert (Hne : ob_script (snd (step (reach lx_cfg lo_h1) (HReq lo_end))) <> []) by (vm_compute; discriminate).
  assert (Hn : nth_error (rq_script lo_end) (length (ob_script (snd (step (reach lx_cfg lo_h1) (HReq lo_end)))) - 1) = Some SDestroy)
    by (vm_compute; reflexivity).
  destruct (destroyed_lineage_any lx_cfg lo_h1 lo_end lo_h2 F1 eq_refl eq_refl F2 Hne Hn) as (kn & rc & A1 & _ & _ & A4).
  assert (E : option_map fst (ob_final (snd (step (reach lx_cfg lo_h1) (HReq lo_end)))) = Some (KGen 3)) by (vm_compute; reflexivity).
  rewrite A1 in E. cbn [option_map fst] in E. injection E as ->. unfold lo_w1, lo_w0. exact A4.
Qed.

Example lo_answers :
  map (fun o => (ob_res o, option_map fst (ob_start o), ob_cookies o)) (run_from lo_w1 lo_h2) =
  [(RVoid, None, []); (RErr ERefMissing, None, []); (RErr ERefMissing, None, []); (RNone, None, [CkDelete]);
   (RSess, Some (KGen 2), [])].
Proof. vm_compute. reflexivity. Qed.

(* the orphan: after the restart a request forging ID 2 obtains the ended session's
   user and data, and ID 2 is not in the lineage of the ended ID *)
Example lk_orphan_outside_lineage :
  (exists rc, ob_res (snd (step (after lo_w1 [HRestart]) (lx_forge 2 false))) = RSess /\
              ob_start (snd (step (after lo_w1 [HRestart]) (lx_forge 2 false))) = Some (KGen 2, rc) /\
              r_ref rc = None /\ r_user rc = Some (5, 0)%N /\ r_data rc = Some [(1, 2)%N]) /\
  ~ lineage (w_st lo_w1) (KGen 3) (KGen 2) /\
  ~ lineage (w_st (after lo_w1 [HRestart])) (KGen 3) (KGen 2).
Proof.
  split; [eexists; vm_compute; repeat split|].
  assert (Hno : forall s, (exists r, L s (KGen 2) = Some r /\ r_ref r = None) -> ~ lineage s (KGen 3) (KGen 2)).
  { intros s (r & HL & Hr) H. inversion H as [E|k Hk HL'|k r' t HL' Hr' Ht]; subst.
    - rewrite HL in HL'. discriminate.
    - rewrite HL in HL'. injection HL' as <-. rewrite Hr in Hr'. discriminate. }
  split; apply Hno; eexists; (split; [vm_compute; reflexivity | reflexivity]).
Qed.
