(* Generic "safe save" discipline for the cache layer, for arbitrary fault
   plans: K k r says that record r may be written under key k. If every cached
   object and every stored record is K-safe, then every event of compact /
   cache_get / cache_set (except cache_set's own primary save) is K-safe and
   the state stays K-safe. Instantiated in CrashFault3.v for C10. *)
From Sessions Require Import Model.Base Model.Sess Model.Hist Proofs.SessDefs Proofs.CrashFault.
From Coq Require Import Lia.

(* cached indices point into the heap *)
Definition cv (s : st) : Prop := forall k o, In (k, o) (cache s) -> o < length (heap s).

(* the heap of s' extends the heap of s at the end *)
Definition heap_ext (s s' : st) : Prop := exists t, heap s' = heap s ++ t.

Lemma heap_ext_refl s : heap_ext s s.
Proof. exists []. rewrite app_nil_r. reflexivity. Qed.

Lemma heap_ext_trans s1 s2 s3 : heap_ext s1 s2 -> heap_ext s2 s3 -> heap_ext s1 s3.
Proof. intros [t1 H1] [t2 H2]. exists (t1 ++ t2). rewrite H2, H1, app_assoc. reflexivity. Qed.

Lemma heap_ext_hget s s' o ob : heap_ext s s' -> hget s o = Some ob -> hget s' o = Some ob.
Proof.
  intros [t H] Ho. unfold hget in *. rewrite H. rewrite nth_error_app1; [exact Ho|].
  apply nth_error_Some. congruence.
Qed.

Lemma heap_ext_len s s' : heap_ext s s' -> length (heap s) <= length (heap s').
Proof. intros [t H]. rewrite H, app_length. lia. Qed.

Lemma heap_ext_eq s s' : heap s' = heap s -> heap_ext s s'.
Proof. intro H. exists []. rewrite app_nil_r. exact H. Qed.

Lemma hget_eq s s' o : heap s' = heap s -> hget s' o = hget s o.
Proof. unfold hget. intros ->. reflexivity. Qed.

Lemma store_of_ext s s' l : ext s s' l -> store s' = fst (replay l (sg_of s)).
Proof. intro X. rewrite <- (x_sg _ _ _ X). reflexivity. Qed.

Lemma hput_len s o v : length (heap (hput s o v)) = length (heap s).
Proof. unfold hput. simpl. apply replace_nth_length. Qed.

Section Safe.
  Variable K : key -> rec -> Prop.
  Hypothesis K_codec : forall cf k r, K k r -> K k (codec cf r).
  Hypothesis K_access : forall k r t, K k r -> K k (set_access r t).

  Definition cacheK (s : st) : Prop :=
    forall k o ob, In (k, o) (cache s) -> hget s o = Some ob -> K k (o_rec ob).
  Definition storeK (stor : list (key * rec)) : Prop := forall k r, lookup stor k = Some r -> K k r.
  Definition QK (e : ev) : Prop :=
    is_draw e = false /\ is_delete e = false /\ forall k r b, e = EvSave k r b -> K k r.
  Definition J (s : st) : Prop := cv s /\ cacheK s /\ storeK (store s).

  Lemma QK_read e : is_read e = true -> QK e.
  Proof. destruct e; try discriminate; intros _; repeat split; intros; discriminate. Qed.

  Lemma QK_save k r b : K k r -> QK (EvSave k r b).
  Proof. intro H. repeat split. intros k' r' b' E. injection E as <- <- <-. exact H. Qed.

  Lemma storeK_apply sg e : storeK (fst sg) -> QK e -> storeK (fst (apply_ev sg e)).
  Proof.
    destruct sg as [stor gr]. intros HS (_ & Hd & HK). destruct e; try exact HS; simpl in *.
    - destruct ok; [|exact HS]. simpl. intros k' r' H.
      destruct (key_eq_dec k' k) as [->|Hne].
      + rewrite lookup_upsert_same in H. injection H as <-. eapply HK. reflexivity.
      + rewrite lookup_upsert_other in H by exact Hne. apply HS in H. exact H.
    - discriminate.
  Qed.

  Lemma storeK_replay l : forall sg, storeK (fst sg) -> Forall QK l -> storeK (fst (replay l sg)).
  Proof.
    induction l as [|e l IH]; intros sg HS HF; [exact HS|]. inversion HF; subst.
    simpl. apply IH; [apply storeK_apply|]; assumption.
  Qed.

  Lemma storeK_ext s s' l : ext s s' l -> storeK (store s) -> Forall QK l -> storeK (store s').
  Proof. intros X HS HF. rewrite (store_of_ext _ _ _ X). apply storeK_replay; assumption. Qed.

  (* ------------------------------------------------------------ compact *)
  Lemma compact_safe s req :
    J s ->
    exists l, ext s (compact s req) l /\ Forall QK l /\ J (compact s req) /\
      heap (compact s req) = heap s /\ pending (compact s req) = pending s /\
      (forall e, In e (cache (compact s req)) -> In e (cache s)) /\
      (forall k o, lookup (cache (compact s req)) k = Some o -> lookup (cache s) k = Some o) /\
      (NoDup (map fst (cache s)) -> NoDup (map fst (cache (compact s req)))).
  Proof.
    intros (Hcv & HcK & HsK).
    destruct (compact_flushes s req) as (l & X & HF & Hh & Hp & Hi & Hl & Hn).
    assert (HQ : Forall QK l).
    { eapply Forall_impl; [|exact HF]. intros e (k & o & ob & b & -> & Hin & Hnth).
      apply QK_save. apply K_codec. eapply HcK; eassumption. }
    exists l. split; [exact X|]. split; [exact HQ|]. split; [|auto 10].
    split; [|split].
    - intros k o H. rewrite Hh. eapply Hcv. apply Hi. exact H.
    - intros k o ob H Ho. rewrite (hget_eq _ _ _ Hh) in Ho. eapply HcK; [apply Hi|]; eassumption.
    - eapply storeK_ext; eassumption.
  Qed.

  (* ------------------------------------------------- small state updates *)
  Lemma J_same s s' : heap s' = heap s -> cache s' = cache s -> store s' = store s -> J s -> J s'.
  Proof.
    intros Hh Hc Hs (Hcv & HcK & HsK). unfold J, cv, cacheK. rewrite Hh, Hc, Hs.
    split; [exact Hcv|]. split; [|exact HsK]. intros k o ob H Ho. rewrite (hget_eq _ _ _ Hh) in Ho.
    eapply HcK; eassumption.
  Qed.

  Lemma J_halloc s v : J s -> J (fst (halloc s v)).
  Proof.
    intros (Hcv & HcK & HsK). split; [|split]; unfold halloc; simpl.
    - intros k o H. unfold cv. simpl. rewrite app_length. apply Hcv in H. lia.
    - intros k o ob H Ho. simpl in H. pose proof (Hcv _ _ H) as Hlt.
      change (hget (fst (halloc s v)) o = Some ob) in Ho. rewrite hget_halloc_old in Ho by exact Hlt.
      eapply HcK; eassumption.
    - exact HsK.
  Qed.

  Lemma J_upsert s k o ob : J s -> hget s o = Some ob -> K k (o_rec ob) -> J (set_cache s (upsert (cache s) k o)).
  Proof.
    intros (Hcv & HcK & HsK) Ho HK. split; [|split]; simpl.
    - intros k' o' H. apply In_upsert in H. destruct H as [[-> ->]|H]; [eapply hget_Some_lt; exact Ho | eapply Hcv; exact H].
    - intros k' o' ob' H Ho'. simpl in H. apply In_upsert in H.
      change (hget s o' = Some ob') in Ho'. destruct H as [[-> ->]|H]; [congruence | eapply HcK; eassumption].
    - exact HsK.
  Qed.

  Lemma J_hput s o ob v :
    J s -> hget s o = Some ob -> (forall k, K k (o_rec ob) -> K k (o_rec v)) -> J (hput s o v).
  Proof.
    intros (Hcv & HcK & HsK) Ho HK. pose proof (hget_Some_lt _ _ _ Ho) as Hlt. split; [|split].
    - intros k' o' H. rewrite hput_len. eapply Hcv. exact H.
    - intros k' o' ob' H Ho'. simpl in H. destruct (Nat.eq_dec o o') as [<-|Hne].
      + rewrite hget_hput_same in Ho' by exact Hlt. injection Ho' as <-. apply HK. eapply HcK; eassumption.
      + rewrite hget_hput_other in Ho' by exact Hne. eapply HcK; eassumption.
    - exact HsK.
  Qed.

  (* ---------------------------------------------------------- cache_get *)
  Lemma cache_get_safe s k s' r :
    J s -> cache_get s k = (s', r) ->
    exists l, ext s s' l /\ Forall QK l /\ J s' /\ pending s' = pending s /\ heap_ext s s' /\
      (forall k' o', In (k', o') (cache s') ->
         In (k', o') (cache s) \/ (k' = k /\ length (heap s) <= o' /\ r = Some (Some o') /\ c_maxcache (conf s) <> 0%Z)) /\
      (NoDup (map fst (cache s)) -> NoDup (map fst (cache s'))) /\
      match r with
      | Some (Some o) => exists ob, hget s' o = Some ob /\ K k (o_rec ob) /\
                           (lookup (cache s) k = Some o \/ (o_id ob = k /\ length (heap s) <= o))
      | _ => True
      end.
  Proof.
    intros HJ HG. pose proof HJ as (Hcv & HcK & HsK).
    apply cache_get_spec in HG. destruct HG as [(o & EL & -> & ->)|(EL & s1 & lr & EP & HG)].
    - exists []. split; [apply ext_refl|]. split; [constructor|]. split; [exact HJ|].
      split; [reflexivity|]. split; [apply heap_ext_refl|]. split; [auto|]. split; [auto|].
      pose proof (lookup_In _ _ _ EL) as Hin. pose proof (Hcv _ _ Hin) as Hlt.
      destruct (hget s o) as [ob|] eqn:EO.
      + exists ob. split; [reflexivity|]. split; [eapply HcK; eassumption|]. left. exact EL.
      + exfalso. unfold hget in EO. apply nth_error_None in EO. lia.
    - apply p_load_spec in EP. destruct EP as ((Hh & Hc & Hp & _) & Hs & _ & l & X & HR & _ & Hres).
      assert (HQ : Forall QK l) by (eapply Forall_impl; [|exact HR]; intros e; apply QK_read).
      assert (HJ1 : J s1) by (eapply J_same; eassumption).
      destruct lr as [[rc|]|].
      + destruct HG as [-> ->]. unfold after_load.
        set (s2 := fst (halloc s1 (mkObj k rc))).
        assert (HJ2 : J s2) by (apply J_halloc; exact HJ1).
        assert (Hn2 : hget s2 (length (heap s1)) = Some (mkObj k rc)) by apply (hget_halloc_new s1).
        assert (HKrc : K k rc) by (apply HsK; exact Hres).
        assert (HE2 : heap_ext s s2) by (exists [mkObj k rc]; simpl; rewrite Hh; reflexivity).
        destruct (c_maxcache (conf s2) =? 0)%Z eqn:Emx.
        * exists l. split; [|split; [exact HQ|]].
          { rewrite <- (app_nil_r l). eapply ext_trans; [exact X|apply ext_halloc]. }
          split; [exact HJ2|]. split; [exact Hp|]. split; [exact HE2|].
          split; [simpl; rewrite Hc; auto|]. split; [simpl; rewrite Hc; auto|].
          rewrite <- Hh. exists (mkObj k rc). split; [exact Hn2|]. split; [exact HKrc|]. right. simpl. split; [reflexivity | lia].
        * destruct (compact_safe s2 1 HJ2) as (l3 & X3 & HQ3 & HJ3 & Hh3 & Hp3 & Hi3 & Hl3 & Hn3).
          set (s3 := compact s2 1) in *.
          assert (Hn3' : hget s3 (length (heap s1)) = Some (mkObj k rc)) by (rewrite (hget_eq _ _ _ Hh3); exact Hn2).
          exists (l ++ l3). split; [|split; [apply Forall_app; auto|]].
          { rewrite <- (app_nil_r (l ++ l3)). eapply ext_trans; [|apply ext_set_cache].
            eapply ext_trans; [|exact X3]. rewrite <- (app_nil_r l). eapply ext_trans; [exact X|apply ext_halloc]. }
          split; [eapply J_upsert; eassumption|]. split; [simpl; rewrite Hp3; exact Hp|].
          split; [destruct HE2 as [t Ht]; exists t; simpl; rewrite Hh3; exact Ht|].
          split; [|split].
          { intros k' o' H. simpl in H. apply In_upsert in H. destruct H as [[-> ->]|H].
            - right. split; [reflexivity|]. split; [rewrite Hh; lia|]. split; [rewrite Hh; reflexivity|].
              intro Hz. rewrite <- (x_conf _ _ _ X) in Hz. change (conf s2) with (conf s1) in Emx.
              rewrite Hz in Emx. discriminate.
            - left. apply Hi3 in H. simpl in H. rewrite Hc in H. exact H. }
          { intro Hnd. simpl. apply NoDup_upsert. apply Hn3. simpl. rewrite Hc. exact Hnd. }
          rewrite <- Hh. exists (mkObj k rc). split; [exact Hn3'|]. split; [exact HKrc|]. right. simpl. split; [reflexivity | lia].
      + destruct HG as [-> ->]. exists l. split; [exact X|]. split; [exact HQ|]. split; [exact HJ1|].
        split; [exact Hp|]. split; [apply heap_ext_eq; exact Hh|]. rewrite Hc. auto.
      + destruct HG as [-> ->]. exists l. split; [exact X|]. split; [exact HQ|]. split; [exact HJ1|].
        split; [exact Hp|]. split; [apply heap_ext_eq; exact Hh|]. rewrite Hc. auto.
  Qed.

  (* ---------------------------------------------------------- cache_set *)
  Definition prim_save (s : st) (ob : obj) (b : bool) : ev :=
    EvSave (o_id ob) (codec (conf s) (o_rec (touch s ob))) b.

  Lemma cache_set_safe s o ob s' b :
    J s -> hget s o = Some ob -> cache_set s o = (s', b) ->
    exists l, ext s s' (l ++ [prim_save s ob b]) /\ Forall QK l /\ pending s' = pending s /\ cv s' /\
      heap s' = heap (hput s o (touch s ob)) /\ (plan s = [] -> b = true) /\
      (forall k' o', In (k', o') (cache s') -> In (k', o') (cache s) \/ (k' = o_id ob /\ o' = o)) /\
      (NoDup (map fst (cache s)) -> NoDup (map fst (cache s'))) /\
      (K (o_id ob) (o_rec ob) -> J s' /\ QK (prim_save s ob b)) /\
      (forall k' o' ob', In (k', o') (cache s') -> k' <> o_id ob -> hget s' o' = Some ob' -> K k' (o_rec ob')) /\
      storeK (fst (replay l (sg_of s))) /\
      (c_maxcache (conf s) <> 0%Z -> lookup (cache s') (o_id ob) = Some o) /\
      (c_maxcache (conf s) = 0%Z -> forall e, In e (cache s') -> In e (cache s)).
  Proof.
    intros HJ Ho HS. apply cache_set_spec in HS. destruct HS as [(Hn & _)|(ob0 & Ho0 & HS)]; [congruence|].
    assert (ob0 = ob) by congruence. subst ob0. clear Ho0. cbv zeta in HS.
    pose proof (hget_Some_lt _ _ _ Ho) as Hlt.
    set (s1 := hput s o (touch s ob)) in *.
    assert (HJ1 : J s1) by (eapply J_hput; [exact HJ | exact Ho | intros k; apply K_access]).
    assert (Ho1 : hget s1 o = Some (touch s ob)) by (apply hget_hput_same; exact Hlt).
    set (req := (if has (cache s1) (o_id ob) then 0 else 1)%Z) in *.
    destruct (compact_safe s1 req HJ1) as (l & X2 & HQ & HJ2 & Hh2 & Hp2 & Hi2 & Hl2 & Hn2).
    set (s2 := compact s1 req) in *.
    assert (Ho2 : hget s2 o = Some (touch s ob)) by (rewrite (hget_eq _ _ _ Hh2); exact Ho1).
    set (s3 := if (c_maxcache (conf s2) =? 0)%Z then s2 else set_cache s2 (upsert (cache s2) (o_id ob) o)) in *.
    assert (X3 : ext s2 s3 []) by (unfold s3; destruct (_ =? _)%Z; [apply ext_refl | apply ext_set_cache]).
    assert (Hh3 : heap s3 = heap s2) by (unfold s3; destruct (_ =? _)%Z; reflexivity).
    assert (Hp3 : pending s3 = pending s2) by (unfold s3; destruct (_ =? _)%Z; reflexivity).
    assert (Hst3 : store s3 = store s2) by (unfold s3; destruct (_ =? _)%Z; reflexivity).
    assert (Hi3 : forall k' o', In (k', o') (cache s3) -> In (k', o') (cache s2) \/ (k' = o_id ob /\ o' = o)).
    { unfold s3. destruct (_ =? _)%Z; [auto|]. intros k' o' H. simpl in H. apply In_upsert in H. tauto. }
    assert (Hn3 : NoDup (map fst (cache s2)) -> NoDup (map fst (cache s3))).
    { unfold s3. destruct (_ =? _)%Z; [auto|]. simpl. apply NoDup_upsert. }
    pose proof (p_save_spec _ _ _ _ _ HS) as ((Hh4 & Hc4 & Hp4 & _) & X4 & Hb & _).
    assert (Hcf : conf s3 = conf s).
    { rewrite (x_conf _ _ _ X3), (x_conf _ _ _ X2). reflexivity. }
    rewrite Hcf in X4. fold (prim_save s ob b) in X4.
    assert (X : ext s s' (l ++ [prim_save s ob b])).
    { change (l ++ [prim_save s ob b]) with (([] ++ l) ++ [prim_save s ob b]).
      eapply ext_trans; [|exact X4]. rewrite <- (app_nil_r ([] ++ l)).
      eapply ext_trans; [|exact X3]. eapply ext_trans; [apply ext_hput | exact X2]. }
    assert (Hcv' : cv s').
    { intros k' o' H. rewrite Hc4 in H. rewrite Hh4, Hh3. apply Hi3 in H. destruct H as [H|[_ ->]].
      - destruct HJ2 as (Hcv2 & _). eapply Hcv2. exact H.
      - rewrite Hh2. unfold s1. rewrite hput_len. exact Hlt. }
    assert (Hp1 : pending s1 = pending s) by reflexivity.
    exists l. split; [exact X|]. split; [exact HQ|]. split; [congruence|]. split; [exact Hcv'|].
    split; [fold s1; congruence|]. split.
    { intro Hpl. apply Hb. apply (x_plan _ _ _ X3). apply (x_plan _ _ _ X2). exact Hpl. }
    split.
    { intros k' o' H. rewrite Hc4 in H. apply Hi3 in H. destruct H as [H|H]; [left; apply Hi2 in H; exact H | right; exact H]. }
    split; [intro Hnd; rewrite Hc4; apply Hn3, Hn2; exact Hnd|].
    split; [|split].
    - intro HK. assert (HQp : QK (prim_save s ob b)) by (apply QK_save, K_codec, K_access, HK).
      split; [|exact HQp].
      assert (HJ3 : J s3).
      { unfold s3. destruct (_ =? _)%Z; [exact HJ2|]. eapply J_upsert; [exact HJ2 | exact Ho2 |]. apply K_access. exact HK. }
      destruct HJ3 as (_ & HcK3 & HsK3). split; [exact Hcv'|]. split.
      + intros k' o' ob' H Ho'. rewrite Hc4 in H. rewrite (hget_eq _ _ _ Hh4) in Ho'. eapply HcK3; eassumption.
      + eapply storeK_ext; [exact X4 | exact HsK3 | constructor; [exact HQp | constructor]].
    - intros k' o' ob' H Hne Ho'. rewrite Hc4 in H. rewrite (hget_eq _ _ _ Hh4), (hget_eq _ _ _ Hh3) in Ho'.
      apply Hi3 in H. destruct H as [H|[-> _]]; [|congruence]. destruct HJ2 as (_ & HcK2 & _). eapply HcK2; eassumption.
    - split; [apply storeK_replay; [apply HJ | exact HQ]|].
      assert (Hcf2 : conf s2 = conf s) by (rewrite (x_conf _ _ _ X2); reflexivity).
      split.
      + intro Hz. rewrite Hc4. unfold s3. rewrite Hcf2.
        destruct (c_maxcache (conf s) =? 0)%Z eqn:E; [apply Z.eqb_eq in E; contradiction|].
        simpl. apply lookup_upsert_same.
      + intros Hz e He. rewrite Hc4 in He. unfold s3 in He. rewrite Hcf2, Hz in He. simpl in He.
        apply Hi2 in He. exact He.
  Qed.
End Safe.

(* --------------------------------------------------- prefixes of event lists *)

Definition sgT := (list (key * rec) * list (key * option N))%type.

Fixpoint steps_ok (I : sgT -> Prop) (sg : sgT) (l : list ev) : Prop :=
  I sg /\ match l with [] => True | e :: t => steps_ok I (apply_ev sg e) t end.

Lemma steps_ok_app I l1 : forall sg l2,
  steps_ok I sg (l1 ++ l2) <-> steps_ok I sg l1 /\ steps_ok I (replay l1 sg) l2.
Proof.
  induction l1 as [|e l1 IH]; intros sg l2; simpl.
  - destruct l2; simpl; tauto.
  - rewrite IH. tauto.
Qed.

Lemma steps_ok_here I sg l : steps_ok I sg l -> I sg.
Proof. destruct l; simpl; tauto. Qed.

Lemma steps_ok_firstn I l : forall sg m, steps_ok I sg l -> I (replay (firstn m l) sg).
Proof.
  induction l as [|e l IH]; intros sg m H.
  - rewrite firstn_nil. simpl in *. tauto.
  - destruct m; simpl in *; [tauto|]. apply IH. tauto.
Qed.

Lemma steps_ok_impl (I I' : sgT -> Prop) l : (forall sg, I sg -> I' sg) -> forall sg, steps_ok I sg l -> steps_ok I' sg l.
Proof. intro H. induction l as [|e l IH]; intros sg; simpl; intuition. Qed.

Lemma ev_prefix_firstn l : forall n, exists m, ev_prefix l n = firstn m l.
Proof.
  induction l as [|e l IH]; intros [|n]; try (exists 0; reflexivity).
  simpl. destruct e; try (destruct (IH n) as [m ->]; exists (S m); reflexivity).
  destruct (IH (S n)) as [m Hm]. exists (S m). simpl. rewrite <- Hm. reflexivity.
Qed.

Lemma steps_ok_prefix I sg l n : steps_ok I sg l -> I (replay (ev_prefix l n) sg).
Proof. intro H. destruct (ev_prefix_firstn l n) as [m ->]. apply steps_ok_firstn. exact H. Qed.

Lemma steps_inv (I : sgT -> Prop) (Q : ev -> Prop) :
  (forall sg e, I sg -> Q e -> I (apply_ev sg e)) ->
  forall l sg, I sg -> Forall Q l -> steps_ok I sg l /\ I (replay l sg).
Proof.
  intro HI. induction l as [|e l IH]; intros sg H HF; simpl; [tauto|].
  inversion HF as [|? ? Hq Hf]; subst. destruct (IH (apply_ev sg e)) as [G1 G2]; auto.
Qed.

(* ------------------------------------------------------------- regenerate *)

Lemma cache_set_heap s o ob s' b :
  hget s o = Some ob -> cache_set s o = (s', b) -> heap s' = heap (hput s o (touch s ob)).
Proof.
  intros Ho HS. apply cache_set_spec in HS. destruct HS as [(Hn & _)|(ob0 & Ho0 & HS)]; [congruence|].
  assert (ob0 = ob) by congruence. subst ob0. cbv zeta in HS.
  apply p_save_spec in HS. destruct HS as ((Hh & _) & _). rewrite Hh.
  set (s1 := hput s o (touch s ob)). set (req := (if has (cache s1) (o_id ob) then 0 else 1)%Z).
  destruct (compact_flushes s1 req) as (l & _ & _ & Hh2 & _).
  destruct (_ =? _)%Z; simpl; exact Hh2.
Qed.

Definition ref_rec (r : rec) (t : Z) (nid : key) : rec :=
  mkRec (r_created r) t (r_ip r) (r_ua r) (Some nid) None None.

Lemma regenerate_spec s o ob s' res cks :
  hget s o = Some ob -> regenerate s o = (s', res, cks) ->
  let nid := KGen (supply s) in
  let ob1 := mkObj nid (set_created (o_rec ob) (now s)) in
  let s1 := hput (fst (gen_id s)) o ob1 in
  exists s2 b1, cache_set s1 o = (s2, b1) /\ hget s1 o = Some ob1 /\
    if b1 then
      let ob2 := touch s1 ob1 in
      let s3 := fst (halloc s2 (mkObj (o_id ob) (ref_rec (o_rec ob2) (now s2) nid))) in
      hget s2 o = Some ob2 /\
      exists s4 b2, cache_set s3 (length (heap s2)) = (s4, b2) /\
        if b2 then s' = set_pending s4 (pending s4 ++ [((now s4 + c_grace (conf s4))%Z, o_id ob)]) /\ res = Ok tt /\ cks = [CkLive nid]
        else s' = s4 /\ res = Err ERegenRef /\ cks = []
    else s' = s2 /\ res = Err ERegenSave /\ cks = [].
Proof.
  intros Ho HR. unfold regenerate in HR. rewrite Ho in HR. cbn [gen_id] in HR.
  cbv zeta. cbn [gen_id fst].
  set (s0 := log (set_supply s (supply s + 1)%N) (EvDraw (supply s))) in *.
  change (now s0) with (now s) in HR.
  set (ob1 := mkObj (KGen (supply s)) (set_created (o_rec ob) (now s))) in *.
  assert (Hlt : o < length (heap s0)) by (eapply hget_Some_lt; exact Ho).
  assert (Ho1 : hget (hput s0 o ob1) o = Some ob1) by (apply hget_hput_same; exact Hlt).
  destruct (cache_set (hput s0 o ob1) o) as [s2 b1] eqn:EC1.
  exists s2, b1. split; [reflexivity|]. split; [exact Ho1|].
  destruct b1; simpl in HR.
  - pose proof (cache_set_heap _ _ _ _ _ Ho1 EC1) as Hh2.
    assert (Ho2 : hget s2 o = Some (touch (hput s0 o ob1) ob1)).
    { rewrite (hget_eq _ _ _ Hh2). apply hget_hput_same. rewrite hput_len. exact Hlt. }
    split; [exact Ho2|]. rewrite Ho2 in HR. unfold halloc in HR. cbn [fst snd] in HR.
    unfold halloc. cbn [fst]. unfold ref_rec.
    match type of HR with context [cache_set ?a ?b] => destruct (cache_set a b) as [s4 b2] eqn:EC2 end.
    exists s4, b2. split; [rewrite <- EC2; reflexivity|]. destruct b2; simpl in HR; injection HR as <- <- <-; auto.
  - injection HR as <- <- <-. auto.
Qed.
