(* C01, history level: non-vacuity. The hypotheses of the theorems of
   C01Hist*.v and C01Live2.v are met by concrete, non-trivial histories. *)
From Sessions Require Import Model.Base Model.Sess Model.Hist Model.Corr Proofs.SessDefs
  Proofs.WriteThrough Proofs.WriteThrough5 Proofs.RotateLaws3
  Proofs.C01Spec Proofs.C01Hist Proofs.C01Hist7 Proofs.C01Hist10 Proofs.C01Hist11 Proofs.C01Live Proofs.C01Live2.
From Sessions Require Proofs.HistInv Proofs.HistInv3.

(* cache size 1, rotation on every request *)
Definition cfgX : cfg := mkCfg 1000 0 100 1000 1 0 true false.

(* the mixed history of C01Spec.v (two clients, logins, user-wide logout and
   refresh, purge, cache loss, restart, expiry, destroy) is admissible *)
Example hist_mix_admissible :
  forallb c01_hop hist_mix = true /\ codec_fixed cfgX hist_mix = true /\ wf_hist cfgX hist_mix = true.
Proof. vm_compute. repeat split. Qed.

Example hist_mix_safe : g_run [] hist_mix (run cfgX hist_mix) = true.
Proof. apply c01_safety_codec_fixed; apply hist_mix_admissible. Qed.

(* a history with a configuration change (cache switched off) and a negative
   grace period (sessions past the backstop age are refused and removed) *)
Definition cfgN : cfg := mkCfg 1000 150 (-100) 1000 1 0 true true.
Definition hist_cfg : list hop :=
  [rq 1 true [SSet 1 2]; rq 2 true [SLogIn (5, 1)%N true]; rq 1 false [SLogIn (5, 2)%N true];
   HSetCfg (mkCfg 1000 150 (-100) 1000 0 0 true true); rq 2 false [SSet 3 4]; HWait 100; rq 1 false [SGet 1];
   rq 1 true [SGet 1]].

Example hist_cfg_admissible :
  forallb c01_hop hist_cfg = true /\ codec_fixed cfgN hist_cfg = true /\
  map ob_res (run cfgN hist_cfg) = [RSess; RSess; RSess; RVoid; RSess; RVoid; RErr EExpiredID; RSess].
Proof. vm_compute. repeat split. Qed.

Example hist_cfg_safe : g_run [] hist_cfg (run cfgN hist_cfg) = true.
Proof. apply c01_safety_codec_fixed; apply hist_cfg_admissible. Qed.

(* GetAndDelete in handler scripts (cache size 1, rotation on every request):
   the value is handed out once and stays gone, also after cache loss and
   after a restart *)
Definition hist_gd : list hop :=
  [rq 1 true [SSet 1 2; SSet 3 4]; rq 2 true [SSet 1 5]; rq 1 false [SGetDel 1; SGetDel 1]; HDropCache;
   rq 1 false [SGet 1; SGet 3]; rq 2 false [SGetDel 1]; HRestart; rq 2 false [SGet 1]].

Example hist_gd_admissible :
  forallb c01_hop hist_gd = true /\ codec_fixed cfgX hist_gd = true /\
  map ob_script (run cfgX hist_gd) =
    [[SOk; SOk]; [SOk]; [SVal (Some 2%N); SVal None]; []; [SVal None; SVal (Some 4%N)];
     [SVal (Some 5%N)]; []; [SVal None]].
Proof. vm_compute. repeat split. Qed.

Example hist_gd_safe : g_run [] hist_gd (run cfgX hist_gd) = true.
Proof. apply c01_safety_codec_fixed; apply hist_gd_admissible. Qed.

(* the readable form at a concrete point: after these steps the ghost holds
   client 1's data and user, client 2's exclusive login of the same user has
   taken the user away, and the next request of client 1 (after cache loss)
   returns exactly that *)
Definition hist_pre : list hop :=
  [rq 1 true [SSet 1 2; SLogIn (5, 1)%N false]; rq 2 true [SSet 1 3; SLogIn (5, 2)%N true]; HDropCache].
Definition req_next : reqstep := mkReqStep 1 PJar false (AOther 0) 7 [SGet 1] [] [] None.

Example step_spec_instance :
  forallb c01_hop (hist_pre ++ [HReq req_next]) = true /\
  codec_fixed cfgX (hist_pre ++ [HReq req_next]) = true /\
  g_get (g_after [] hist_pre (run cfgX hist_pre)) 1 = Some ([(1, 2)%N], None) /\
  g_get (g_after [] hist_pre (run cfgX hist_pre)) 2 = Some ([(1, 3)%N], Some 5%N) /\
  option_map (fun x => content_of (snd x))
    (ob_start (snd (step (HistInv3.after (mkWorld (init_st cfgX) []) hist_pre) (HReq req_next))))
  = Some ([(1, 2)%N], None).
Proof. vm_compute. repeat split. Qed.

(* the jar invariant holds there (by the theorem, not by computation) *)
Example JI_instance :
  JI (HistInv3.after (mkWorld (init_st cfgX) []) hist_pre) (g_after [] hist_pre (run cfgX hist_pre)).
Proof.
  apply (JI_after (c_json cfgX) hist_pre _ [] (JI_init cfgX) eq_refl); vm_compute; reflexivity.
Qed.

(* the hypotheses of live_step are met there *)
Example live_step_instance :
  exists w g r k r0,
    JI w g /\ wf_req r = true /\ rq_present r = PJar /\ jar_of (w_jars w) (rq_client r) = CKey k /\
    L (w_st w) k = Some r0 /\ r_ref r0 = None /\
    valid_for (conf (w_st w)) r0 (now (w_st w)) (mkReq (CKey k) (rq_create r) (rq_addr r) (rq_ua r)) = true /\
    cfg_ok (conf (w_st w)) /\ content_of r0 = ([(1, 2)%N], None).
Proof.
  exists (HistInv3.after (mkWorld (init_st cfgX) []) hist_pre), (g_after [] hist_pre (run cfgX hist_pre)),
         req_next, (KGen 1).
  eexists. split; [apply JI_instance|]. split; [reflexivity|]. split; [reflexivity|].
  split; [vm_compute; reflexivity|]. split; [vm_compute; reflexivity|]. split; [reflexivity|].
  split; [vm_compute; reflexivity|]. split; [|reflexivity]. split; vm_compute; discriminate.
Qed.
