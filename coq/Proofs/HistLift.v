(* Lifting the per-call theorems of C04/C05/C18 to histories, part 1: the
   reference view of the store and the "quiet" operations.

   sref s k     what the store says about ID k: None (no record), Some None (a
                session's own record), Some (Some j) (a replaced-ID record
                naming j);
   Kcs s        every cached object agrees with the stored record under the
                key it is cached under on the reference field (in particular
                every cached key is stored);
   PRs s        an ID awaiting its clean-up is not stored as a session;
   sc s o / hg s o   the object at heap index o agrees with the store under its
                own ID / and is a session (the handle a request works on);
   qt s s'      "quiet": between s and s' no object changed ID or reference
                field, the reference view of the store, the clean-up queue and
                the ID supply are unchanged (loads, flushes, bookkeeping,
                saves that rewrite a record with the same reference field).

   This file shows that everything except creation, RegenerateID, deletion
   and the clean-up pass is quiet and keeps Kcs. The model files and the
   files of PD/PF are used as they are (closed forms of HistInv*.v). *)
From Sessions Require Import Model.Base Model.Sess Model.Hist Proofs.SessDefs
  Proofs.HistInv Proofs.HistInv2 Proofs.HistInv3.
From Coq Require Import Lia.

(* ------------------------------------------------------------ definitions *)

Definition sref (s : st) (k : key) : option (option key) := option_map r_ref (lookup (store s) k).

Definition Kcs (s : st) : Prop :=
  forall k o ob, lookup (cache s) k = Some o -> hget s o = Some ob -> sref s k = Some (r_ref (o_rec ob)).

Definition PRs (s : st) : Prop := forall d k, In (d, k) (pending s) -> sref s k <> Some None.

Definition sc (s : st) (o : nat) : Prop :=
  exists ob, hget s o = Some ob /\ sref s (o_id ob) = Some (r_ref (o_rec ob)).

Definition hg (s : st) (o : nat) : Prop :=
  exists ob, hget s o = Some ob /\ r_ref (o_rec ob) = None /\ sref s (o_id ob) = Some None.

Definition obp (s s' : st) : Prop :=
  forall o ob, hget s o = Some ob ->
    exists ob', hget s' o = Some ob' /\ o_id ob' = o_id ob /\ r_ref (o_rec ob') = r_ref (o_rec ob).

Record qt (s s' : st) : Prop := mkQt {
  qt_obp : obp s s';
  qt_sref : forall k, sref s' k = sref s k;
  qt_pending : pending s' = pending s;
  qt_supply : supply s' = supply s;
  qt_now : now s' = now s;
  qt_conf : conf s' = conf s }.

Lemma obp_refl s : obp s s.
Proof. intros o ob H. exists ob. auto. Qed.

Lemma obp_trans s1 s2 s3 : obp s1 s2 -> obp s2 s3 -> obp s1 s3.
Proof.
  intros A B o ob H. destruct (A o ob H) as (ob2 & H2 & E2 & R2). destruct (B o ob2 H2) as (ob3 & H3 & E3 & R3).
  exists ob3. repeat split; [exact H3 | congruence | congruence].
Qed.

Lemma obp_heap s s' : heap s' = heap s -> obp s s'.
Proof. intros E o ob H. exists ob. unfold hget in *. rewrite E. auto. Qed.

Lemma qt_refl s : qt s s.
Proof. constructor; auto using obp_refl. Qed.

Lemma qt_trans s1 s2 s3 : qt s1 s2 -> qt s2 s3 -> qt s1 s3.
Proof.
  intros [A1 A2 A3 A4 A5 A6] [B1 B2 B3 B4 B5 B6].
  constructor; [eapply obp_trans; eassumption | intro k; rewrite B2; apply A2 | congruence..].
Qed.

Lemma sref_store_eq s s' k : store s' = store s -> sref s' k = sref s k.
Proof. unfold sref. intros ->. reflexivity. Qed.

(* a change that touches neither heap contents' IDs/references, store, queue nor supply *)
Lemma qt_same s s' :
  heap s' = heap s -> store s' = store s -> pending s' = pending s -> supply s' = supply s ->
  now s' = now s -> conf s' = conf s -> qt s s'.
Proof.
  intros Hh Hs Hp Hn Ht Hc. constructor; try assumption; [apply obp_heap; exact Hh|].
  intro k. apply sref_store_eq. exact Hs.
Qed.

Lemma Kcs_same s s' : heap s' = heap s -> store s' = store s -> cache s' = cache s -> Kcs s -> Kcs s'.
Proof.
  intros Hh Hs Hc K k o ob Hl Ho. unfold hget in Ho. rewrite Hc in Hl. rewrite Hh in Ho.
  rewrite (sref_store_eq s s' k Hs). exact (K k o ob Hl Ho).
Qed.

Lemma sc_qt s s' o : qt s s' -> sc s o -> sc s' o.
Proof.
  intros Q (ob & Ho & Hs). destruct (qt_obp _ _ Q o ob Ho) as (ob' & Ho' & E & R).
  exists ob'. split; [exact Ho'|]. rewrite (qt_sref _ _ Q), E, R. exact Hs.
Qed.

Lemma hg_qt s s' o : qt s s' -> hg s o -> hg s' o.
Proof.
  intros Q (ob & Ho & Hr & Hs). destruct (qt_obp _ _ Q o ob Ho) as (ob' & Ho' & E & R).
  exists ob'. split; [exact Ho'|]. split; [congruence|]. rewrite (qt_sref _ _ Q), E. exact Hs.
Qed.

Lemma hg_sc s o : hg s o -> sc s o.
Proof. intros (ob & Ho & Hr & Hs). exists ob. split; [exact Ho | rewrite Hr; exact Hs]. Qed.

Lemma PRs_qt s s' : qt s s' -> PRs s -> PRs s'.
Proof. intros Q P d k Hin. rewrite (qt_sref _ _ Q). apply (P d k). rewrite <- (qt_pending _ _ Q). exact Hin. Qed.

(* the handle's ID is not awaiting a clean-up *)
Lemma hg_not_pending s o ob : PRs s -> hg s o -> hget s o = Some ob -> forall d, ~ In (d, o_id ob) (pending s).
Proof.
  intros P (ob' & Ho' & _ & Hs) Ho d Hin. rewrite Ho in Ho'. injection Ho' as <-. exact (P d _ Hin Hs).
Qed.

(* ------------------------------------------------ the reference view *)

Lemma codec_ref' c r : r_ref (codec c r) = r_ref r.
Proof. reflexivity. Qed.

Lemma sref_saved_same s k r : sref (saved s k r) k = Some (r_ref r).
Proof. unfold sref, saved. sst. rewrite lookup_upsert_same. reflexivity. Qed.

Lemma sref_saved_other s k r k' : k' <> k -> sref (saved s k r) k' = sref s k'.
Proof. intro H. unfold sref, saved. sst. rewrite lookup_upsert_other by exact H. reflexivity. Qed.

Lemma sref_deleted_same s k : sref (deleted s k) k = None.
Proof. unfold sref, deleted. sst. rewrite lookup_remove_same. reflexivity. Qed.

Lemma sref_deleted_other s k k' : k' <> k -> sref (deleted s k) k' = sref s k'.
Proof. intro H. unfold sref, deleted. sst. rewrite lookup_remove_other by exact H. reflexivity. Qed.

Lemma sref_lookup s k r : lookup (store s) k = Some r -> sref s k = Some (r_ref r).
Proof. unfold sref. intros ->. reflexivity. Qed.

Lemma lookup_remove_Some {A} (l : list (key * A)) k k' v :
  lookup (remove l k) k' = Some v -> k' <> k /\ lookup l k' = Some v.
Proof.
  intro H. destruct (key_eq_dec k' k) as [->|Hne].
  - rewrite lookup_remove_same in H. discriminate.
  - rewrite lookup_remove_other in H by exact Hne. auto.
Qed.

(* a save that rewrites a record with the same reference field is quiet *)
Lemma saved_qt s k r : sref s k = Some (r_ref r) -> qt s (saved s k r).
Proof.
  intro H. constructor; try reflexivity; [apply obp_heap; reflexivity|].
  intro k'. destruct (key_eq_dec k' k) as [->|Hne]; [rewrite sref_saved_same; auto | apply sref_saved_other; exact Hne].
Qed.

Lemma saved_Kcs s k r : sref s k = Some (r_ref r) -> Kcs s -> Kcs (saved s k r).
Proof.
  intros H K k' o ob Hl Ho. rewrite (qt_sref _ _ (saved_qt s k r H)). exact (K k' o ob Hl Ho).
Qed.

(* -------------------------------------------------- flushes, compaction *)

Lemma flush1_qt s k o ob :
  Kcs s -> lookup (cache s) k = Some o -> hget s o = Some ob -> qt s (flush1 s k ob) /\ Kcs (flush1 s k ob).
Proof.
  intros K Hl Ho. pose proof (K k o ob Hl Ho) as Hs.
  assert (Q : qt s (flush1 s k ob)).
  { unfold flush1. cbv zeta.
    apply (qt_trans s (set_tb s (drop_first (tb s) k))); [apply qt_same; reflexivity|].
    apply (qt_trans _ (saved (set_tb s (drop_first (tb s) k)) k (o_rec ob))); [|apply qt_same; reflexivity].
    apply saved_qt. exact Hs. }
  split; [exact Q|]. intros k' o' ob' Hl' Ho'. rewrite (qt_sref _ _ Q).
  unfold flush1, saved in Hl'. sst. apply lookup_remove_Some in Hl'. destruct Hl' as [_ Hl'].
  exact (K k' o' ob' Hl' Ho').
Qed.

Lemma flushes_qt s s' : flushes s s' -> Kcs s -> qt s s' /\ Kcs s'.
Proof.
  induction 1 as [s|s k o ob s' Hl Ho Hf IH]; intro K; [split; [apply qt_refl | exact K]|].
  destruct (flush1_qt s k o ob K Hl Ho) as [Q1 K1]. destruct (IH K1) as [Q2 K2].
  split; [eapply qt_trans; eassumption | exact K2].
Qed.

Lemma compact_qt s req : ffnd s -> Kcs s -> qt s (compact s req) /\ Kcs (compact s req).
Proof. intros F K. apply flushes_qt; [apply compact_flushes; exact F | exact K]. Qed.

(* ------------------------------------------------------------ cache.Get *)

Lemma loaded_qt s k r es :
  ffnd s -> cache_valid s -> Kcs s -> lookup (cache s) k = None -> lookup (store s) k = Some r ->
  qt s (loaded s k r es) /\ Kcs (loaded s k r es) /\
  hget (loaded s k r es) (length (heap s)) = Some (mkObj k r).
Proof.
  intros F V K Hc Hst. pose (s1 := fst (halloc (set_evs s (es ++ evs s)) (mkObj k r))).
  assert (Q1 : qt s s1).
  { constructor; try reflexivity.
    intros o ob Ho. exists ob. split; [|auto]. unfold s1. rewrite hget_halloc.
    pose proof (hget_Some_lt _ _ _ Ho) as Hlt. sst.
    destruct (Nat.eqb o (length (heap s))) eqn:E; [apply Nat.eqb_eq in E; lia | exact Ho]. }
  assert (K1 : Kcs s1).
  { intros k' o ob Hl Ho. rewrite (qt_sref _ _ Q1). unfold s1 in Hl, Ho. rewrite hget_halloc in Ho. sst.
    destruct (Nat.eqb o (length (heap s))) eqn:E.
    - apply Nat.eqb_eq in E. subst o. exfalso. apply (V k' _ Hl). unfold hget. apply nth_error_None. lia.
    - exact (K k' o ob Hl Ho). }
  assert (H1 : hget s1 (length (heap s)) = Some (mkObj k r)).
  { unfold s1. rewrite hget_halloc. sst. rewrite Nat.eqb_refl. reflexivity. }
  assert (F1 : ffnd s1) by exact F.
  rewrite loaded_eq. cbv zeta. fold s1. destruct (c_maxcache (conf s) =? 0)%Z; [auto|].
  destruct (compact_qt s1 1 F1 K1) as [Q2 K2].
  assert (H2 : hget (compact s1 1) (length (heap s)) = Some (mkObj k r)) by (rewrite hget_compact; assumption).
  set (s3 := set_cache (compact s1 1) (upsert (cache (compact s1 1)) k (length (heap s)))).
  assert (Q3 : qt s s3).
  { eapply qt_trans; [exact Q1|]. eapply qt_trans; [exact Q2|]. apply qt_same; reflexivity. }
  split; [exact Q3|]. split; [|exact H2].
  intros k' o ob Hl Ho. rewrite (qt_sref _ _ Q3). unfold s3 in Hl, Ho. sst.
  change (hget (compact s1 1) o = Some ob) in Ho.
  destruct (key_eq_dec k' k) as [->|Hne].
  - rewrite lookup_upsert_same in Hl. injection Hl as <-. rewrite H2 in Ho. injection Ho as <-.
    cbn [o_rec]. apply sref_lookup. exact Hst.
  - rewrite lookup_upsert_other in Hl by exact Hne. rewrite <- (qt_sref _ _ Q1 k'), <- (qt_sref _ _ Q2 k').
    exact (K2 k' o ob Hl Ho).
Qed.

(* cache.Get is quiet, keeps Kcs, and the object it returns has the requested
   ID and agrees with the store *)
Lemma cache_get_qt b base D s k : inv b base NX D s -> Kcs s ->
  let s' := fst (cache_get s k) in
  qt s s' /\ Kcs s' /\
  forall o, snd (cache_get s k) = Some (Some o) ->
    exists ob, hget s' o = Some ob /\ o_id ob = k /\ sref s' k = Some (r_ref (o_rec ob)).
Proof.
  intros I K. pose proof (cache_get_ff s k (i_plan _ _ _ _ _ I)) as Hff.
  destruct (lookup (cache s) k) as [o|] eqn:Hl.
  - rewrite Hff. cbn [fst snd]. split; [apply qt_refl|]. split; [exact K|].
    intros o' E. injection E as <-. destruct (i_cok _ _ _ _ _ I k o Hl) as [ob [Ho [Hx|[]]]].
    exists ob. split; [exact Ho|]. split; [exact Hx | exact (K k o ob Hl Ho)].
  - destruct Hff as [es [Hq Hff]]. destruct (lookup (store s) k) as [r|] eqn:Hst; rewrite Hff; cbn [fst snd].
    + destruct (loaded_qt s k r es (inv_ffnd _ _ _ _ _ I) (inv_cache_valid _ _ _ _ _ I) K Hl Hst) as (Q & K' & H').
      split; [exact Q|]. split; [exact K'|]. intros o' E. injection E as <-.
      exists (mkObj k r). split; [exact H'|]. split; [reflexivity|]. rewrite (qt_sref _ _ Q). apply sref_lookup. exact Hst.
    + split; [apply qt_same; reflexivity|]. split; [eapply Kcs_same; [| | |exact K]; reflexivity|]. intros o' E. discriminate.
Qed.

(* ------------------------------------------------------------ cache.Set *)

Lemma hput_touched_Kcs s o ob : hget s o = Some ob -> Kcs s -> Kcs (hput s o (touched s ob)).
Proof.
  intros Ho K k o' ob' Hl Ho'. rewrite hget_hput in Ho'. rewrite Ho in Ho'.
  change (sref (hput s o (touched s ob)) k) with (sref s k).
  destruct (Nat.eqb o o') eqn:E.
  - apply Nat.eqb_eq in E. subst o'. injection Ho' as <-. exact (K k o ob Hl Ho).
  - exact (K k o' ob' Hl Ho').
Qed.

Lemma hput_touched_obp s o ob : hget s o = Some ob -> obp s (hput s o (touched s ob)).
Proof.
  intros Ho o' ob' Ho'. rewrite hget_hput. rewrite Ho. destruct (Nat.eqb o o') eqn:E.
  - apply Nat.eqb_eq in E. subst o'. rewrite Ho in Ho'. injection Ho' as <-. eexists. split; [reflexivity | auto].
  - exists ob'. auto.
Qed.

(* cache.Set of object o: every other ID keeps its reference view, o's ID gets
   o's reference field; the invariant Kcs holds afterwards whatever was stored
   under o's ID before *)
Lemma cset_core b base X D s o ob : inv b base X D s -> Kcs s -> hget s o = Some ob ->
  let s' := cset s o ob in
  obp s s' /\ (forall k, k <> o_id ob -> sref s' k = sref s k) /\
  sref s' (o_id ob) = Some (r_ref (o_rec ob)) /\
  pending s' = pending s /\ supply s' = supply s /\ now s' = now s /\ conf s' = conf s /\ Kcs s'.
Proof.
  intros I K Ho. cbv zeta. assert (F : ffnd s) by (eapply inv_ffnd; exact I).
  set (s1 := hput s o (touched s ob)).
  assert (F1 : ffnd s1) by exact F.
  assert (K1 : Kcs s1) by (apply hput_touched_Kcs; assumption).
  set (req := (if has (cache s1) (o_id ob) then 0 else 1)%Z).
  destruct (compact_qt s1 req F1 K1) as [Q2 K2].
  destruct (cset_frame s o ob F) as (A1 & A2 & A3 & A4 & _).
  assert (Hobp : obp s (cset s o ob)).
  { intros o' ob' Ho'. rewrite (hget_cset _ _ _ _ F Ho). destruct (Nat.eqb o o') eqn:E.
    - apply Nat.eqb_eq in E. subst o'. rewrite Ho in Ho'. injection Ho' as <-. eexists. split; [reflexivity | auto].
    - exists ob'. auto. }
  assert (Hmid : forall k, sref (cset_mid s o ob) k = sref s k).
  { intro k. unfold cset_mid. fold s1. fold req.
    transitivity (sref (compact s1 req) k); [|rewrite (qt_sref _ _ Q2); reflexivity].
    destruct (c_maxcache _ =? 0)%Z; reflexivity. }
  assert (Hoth : forall k, k <> o_id ob -> sref (cset s o ob) k = sref s k).
  { intros k Hne. rewrite cset_eq. rewrite sref_saved_other by exact Hne. apply Hmid. }
  assert (Hown : sref (cset s o ob) (o_id ob) = Some (r_ref (o_rec ob))).
  { rewrite cset_eq. rewrite sref_saved_same. reflexivity. }
  split; [exact Hobp|]. split; [exact Hoth|]. split; [exact Hown|]. repeat (split; [assumption|]).
  intros k o' ob' Hl Ho'. rewrite (hget_cset _ _ _ _ F Ho) in Ho'.
  destruct (key_eq_dec k (o_id ob)) as [->|Hne].
  - rewrite Hown. apply (cset_cache_own _ _ _ _ _ _ _ _ I Ho) in Hl. subst o'. rewrite Nat.eqb_refl in Ho'.
    injection Ho' as <-. reflexivity.
  - rewrite (Hoth k Hne). rewrite cset_eq in Hl. unfold saved in Hl. sst. unfold cset_mid in Hl. fold s1 in Hl. fold req in Hl.
    assert (Hl2 : lookup (cache (compact s1 req)) k = Some o').
    { destruct (c_maxcache _ =? 0)%Z; [exact Hl|]. sst. rewrite lookup_upsert_other in Hl by exact Hne. exact Hl. }
    assert (Ho2 : hget (compact s1 req) o' = Some ob').
    { rewrite hget_compact by exact F1. unfold s1. rewrite hget_hput. rewrite Ho. exact Ho'. }
    change (sref s k) with (sref s1 k). rewrite <- (qt_sref _ _ Q2 k). exact (K2 k o' ob' Hl2 Ho2).
Qed.

(* cache.Set of an object that agrees with the store is quiet *)
Lemma cset_qt b base X D s o ob : inv b base X D s -> Kcs s -> hget s o = Some ob ->
  sref s (o_id ob) = Some (r_ref (o_rec ob)) -> qt s (cset s o ob) /\ Kcs (cset s o ob).
Proof.
  intros I K Ho Hs. destruct (cset_core _ _ _ _ _ _ _ I K Ho) as (A & B & C & P & S & T & Cf & K').
  split; [|exact K']. constructor; try assumption.
  intro k. destruct (key_eq_dec k (o_id ob)) as [->|Hne]; [congruence | apply B; exact Hne].
Qed.

(* ------------------------------------------- bookkeeping on one object *)

Lemma hupd_qt s o f : (forall r, r_ref (f r) = r_ref r) -> Kcs s -> qt s (hupd s o f) /\ Kcs (hupd s o f).
Proof.
  intros Hf K.
  assert (Hobp : obp s (hupd s o f)).
  { intros o' ob' Ho'. rewrite hget_hupd. destruct (Nat.eqb o o') eqn:E.
    - apply Nat.eqb_eq in E. subst o'. rewrite Ho'. eexists. split; [reflexivity|]. cbn [o_id o_rec]. auto.
    - exists ob'. auto. }
  assert (Hfr : cache (hupd s o f) = cache s /\ store (hupd s o f) = store s /\ pending (hupd s o f) = pending s /\
                supply (hupd s o f) = supply s /\ now (hupd s o f) = now s /\ conf (hupd s o f) = conf s).
  { unfold hupd. destruct (hget s o); repeat split. }
  destruct Hfr as (Hc & Hst & Hp & Hn & Ht & Hcf).
  assert (Q : qt s (hupd s o f)).
  { constructor; try assumption. intro k. apply sref_store_eq. exact Hst. }
  split; [exact Q|]. intros k o' ob' Hl Ho'. rewrite (qt_sref _ _ Q). rewrite Hc in Hl.
  rewrite hget_hupd in Ho'. destruct (Nat.eqb o o') eqn:E.
  - apply Nat.eqb_eq in E. subst o'. destruct (hget s o) as [ob|] eqn:Ho; [|discriminate].
    injection Ho' as <-. cbn [o_rec]. rewrite Hf. exact (K k o ob Hl Ho).
  - exact (K k o' ob' Hl Ho').
Qed.

(* ----------------------------------- direct saves, LogOut, the user-wide loop *)

Lemma save_direct_qt s o : plan s = [] -> Kcs s -> sc s o ->
  qt s (fst (save_direct s o)) /\ Kcs (fst (save_direct s o)).
Proof.
  intros Hp K (ob & Ho & Hs). rewrite (save_direct_ff _ _ _ Hp Ho). cbn [fst].
  split; [apply saved_qt | apply saved_Kcs]; assumption.
Qed.

Lemma logout_qt s o : plan s = [] -> Kcs s -> sc s o -> qt s (fst (logout s o)) /\ Kcs (fst (logout s o)).
Proof.
  intros Hp K H. pose proof H as (ob & Ho & Hs). unfold logout. rewrite Ho.
  destruct (r_user (o_rec ob)); [|split; [apply qt_refl | exact K]].
  destruct (hupd_qt s o (fun r => set_user r None) (fun _ => eq_refl) K) as [Q1 K1].
  assert (Hp1 : plan (hupd s o (fun r => set_user r None)) = []) by (unfold hupd; rewrite Ho; exact Hp).
  destruct (save_direct_qt _ o Hp1 K1 (sc_qt _ _ _ Q1 H)) as [Q2 K2].
  split; [eapply qt_trans; eassumption | exact K2].
Qed.

Lemma eus_qt b base D u : forall ids s, inv b base NX D s -> Kcs s ->
  qt s (fst (each_user_session s ids u)) /\ Kcs (fst (each_user_session s ids u)).
Proof.
  induction ids as [|k t IH]; intros s I K; cbn [each_user_session]; [split; [apply qt_refl | exact K]|].
  destruct (cache_get_inv _ _ _ _ _ k I) as (s1 & r & E & I1 & Hr).
  destruct (cache_get_qt _ _ _ _ k I K) as (Q1 & K1 & Hobj). rewrite E in *. cbn [fst snd] in *.
  destruct r as [o|].
  - destruct Hr as [Hbo [ob (Ho & _ & HnD & _)]].
    destruct (Hobj o eq_refl) as (ob' & Ho' & Hid & Hs). rewrite Ho in Ho'. injection Ho' as <-.
    assert (H1 : hok b D s1 o) by (split; [exact Hbo | exists ob; split; assumption]).
    destruct (inv_hupd_hok _ _ _ _ o (fun r => set_user r u) I1 H1) as [I2 H2]; [reflexivity|].
    destruct (hupd_qt s1 o (fun r => set_user r u) (fun _ => eq_refl) K1) as [Q2 K2].
    destruct H2 as [_ [ob2 [Ho2 HnD2]]].
    assert (F2 : ffnd (hupd s1 o (fun r => set_user r u))) by (eapply inv_ffnd; exact I2).
    rewrite (cache_set_ff _ _ _ F2 Ho2).
    assert (Hs2 : sref (hupd s1 o (fun r => set_user r u)) (o_id ob2) = Some (r_ref (o_rec ob2))).
    { destruct (qt_obp _ _ Q2 o ob Ho) as (ob2' & Ho2' & Eid & Eref). rewrite Ho2 in Ho2'. injection Ho2' as <-.
      rewrite (qt_sref _ _ Q2), Eid, Eref, Hid. exact Hs. }
    destruct (cset_qt _ _ _ _ _ _ _ I2 K2 Ho2 Hs2) as [Q3 K3].
    destruct (IH (cset (hupd s1 o (fun r => set_user r u)) o ob2)) as [Q4 K4]; [apply inv_cset; assumption | exact K3|].
    split; [|exact K4].
    eapply qt_trans; [exact Q1|]. eapply qt_trans; [exact Q2|]. eapply qt_trans; [exact Q3 | exact Q4].
  - destruct (IH s1 I1 K1) as [Q2 K2]. split; [eapply qt_trans; eassumption | exact K2].
Qed.

Lemma logout_user_qt b base D s u : inv b base NX D s -> Kcs s ->
  qt s (fst (logout_user s u)) /\ Kcs (fst (logout_user s u)).
Proof.
  intros I K. unfold logout_user. rewrite p_usersessions_ff by apply (i_plan _ _ _ _ _ I).
  set (s0 := set_evs s ([EvUserSessions u true] ++ evs s)).
  assert (I0 : inv b base NX D s0) by (apply inv_quiet; [repeat constructor | exact I]).
  assert (K0 : Kcs s0) by (eapply Kcs_same; [| | |exact K]; reflexivity).
  destruct (eus_qt b base D None (listed s u) s0 I0 K0) as [Q1 K1].
  split; [|exact K1]. eapply qt_trans; [|exact Q1]. apply qt_same; reflexivity.
Qed.

Lemma refresh_user_qt b base D s u : inv b base NX D s -> Kcs s ->
  qt s (fst (refresh_user s u)) /\ Kcs (fst (refresh_user s u)).
Proof.
  intros I K. unfold refresh_user. rewrite p_usersessions_ff by apply (i_plan _ _ _ _ _ I).
  set (s0 := set_evs s ([EvUserSessions (fst u) true] ++ evs s)).
  assert (I0 : inv b base NX D s0) by (apply inv_quiet; [repeat constructor | exact I]).
  assert (K0 : Kcs s0) by (eapply Kcs_same; [| | |exact K]; reflexivity).
  destruct (eus_qt b base D (Some u) (listed s (fst u)) s0 I0 K0) as [Q1 K1].
  split; [|exact K1]. eapply qt_trans; [|exact Q1]. apply qt_same; reflexivity.
Qed.

(* ----------------------------------------------------- following references *)

(* follow is quiet; what it returns is a session that agrees with the store *)
Lemma follow_qt b base D : forall fuel s o lk, inv b base NX D s -> Kcs s -> hok b D s o -> sc s o ->
  qt s (fst (follow fuel s o lk)) /\ Kcs (fst (follow fuel s o lk)) /\
  forall o' lk', snd (follow fuel s o lk) = Ok (o', lk') -> hg (fst (follow fuel s o lk)) o'.
Proof.
  induction fuel as [|f IH]; intros s o lk I K [Hbo [ob [Ho HnD]]] Hsc; cbn [follow]; rewrite Ho.
  - destruct (r_ref (o_rec ob)) eqn:Hr; cbn [fst snd]; (split; [apply qt_refl|]); (split; [exact K|]); intros o' lk' E; [discriminate|].
    injection E as <- <-. destruct Hsc as (ob' & Ho' & Hs). rewrite Ho in Ho'. injection Ho' as <-.
    exists ob. split; [exact Ho|]. split; [exact Hr | rewrite Hs, Hr; reflexivity].
  - destruct (r_ref (o_rec ob)) as [t|] eqn:Hr.
    + destruct (cache_get_inv _ _ _ _ _ t I) as (s1 & r & E & I1 & Hres).
      destruct (cache_get_qt _ _ _ _ t I K) as (Q1 & K1 & Hobj). rewrite E in *. cbn [fst snd] in *.
      destruct r as [o1|].
      * destruct Hres as [Hbo' [ob1 (Ho1 & _ & HnD1 & _)]].
        destruct (Hobj o1 eq_refl) as (ob1' & Ho1' & Hid & Hs1). rewrite Ho1 in Ho1'. injection Ho1' as <-.
        destruct (IH s1 o1 t I1 K1) as (Q2 & K2 & Hok).
        { split; [exact Hbo' | exists ob1; split; assumption]. }
        { exists ob1. split; [exact Ho1 | rewrite Hid; exact Hs1]. }
        split; [eapply qt_trans; eassumption|]. split; [exact K2 | exact Hok].
      * cbn [fst snd]. split; [exact Q1|]. split; [exact K1|]. intros o' lk' E'. discriminate.
    + cbn [fst snd]. split; [apply qt_refl|]. split; [exact K|]. intros o' lk' E. injection E as <- <-.
      destruct Hsc as (ob' & Ho' & Hs). rewrite Ho in Ho'. injection Ho' as <-.
      exists ob. split; [exact Ho|]. split; [exact Hr | rewrite Hs, Hr; reflexivity].
Qed.

(* ------------------------------------------------------------------ purge *)

Lemma purge_saves_qt : forall entries s, plan s = [] -> Kcs s ->
  (forall k o, In (k, o) entries -> lookup (cache s) k = Some o) ->
  qt s (purge_saves s entries) /\ Kcs (purge_saves s entries) /\ cache (purge_saves s entries) = cache s.
Proof.
  induction entries as [|[k o] t IH]; intros s Hp K Hl; cbn [purge_saves]; [split; [apply qt_refl | auto]|].
  destruct (hget s o) as [ob|] eqn:Ho.
  - rewrite HistInv.p_save_ff by exact Hp. cbn [fst].
    assert (Hs : sref s k = Some (r_ref (o_rec ob))) by (apply (K k o ob); [apply Hl; left; reflexivity | exact Ho]).
    destruct (IH (saved s k (o_rec ob))) as (Q & K' & Hc).
    + exact Hp.
    + apply saved_Kcs; assumption.
    + intros k' o' Hin. apply Hl. right. exact Hin.
    + split; [eapply qt_trans; [apply saved_qt; exact Hs | exact Q]|]. split; [exact K' | rewrite Hc; reflexivity].
  - apply IH; [exact Hp | exact K | intros; apply Hl; right; assumption].
Qed.

Lemma purge_qt s : ffnd s -> Kcs s -> qt s (purge s) /\ Kcs (purge s).
Proof.
  intros [Hp Hnd] K. unfold purge.
  destruct (purge_saves_qt (order_by_tb (tb s) (cache s)) s Hp K) as (Q & K' & Hc).
  { intros k o Hin. eapply order_by_tb_lookup; [exact Hnd | exact Hin]. }
  split; [eapply qt_trans; [exact Q | apply qt_same; reflexivity]|].
  intros k o ob Hl. discriminate.
Qed.
