(* Round 4, task R4(a), second follow-up: the link inside the ending request
   (Proofs/Lineage8.v, Lineage9.v) for an ARBITRARY heap mark b, i.e. from every
   state that a fault-free history with process stops anywhere can reach:
   destroyed_start_linkb / destroyed_start_chainb (the ID of the session Start
   returned, and every chain that led to it before the step, is in the lineage of
   the ID the handler destroyed), destroyed_presented_linkb (the same for the
   presented ID). The statements and proofs are those of the files named, with
   `b <= o` for the handler's object; read the comments there.

   No axioms; standard library only. *)
From Sessions Require Import Model.Base Model.Sess Model.Hist Proofs.SessDefs
  Proofs.HistInv Proofs.HistInv2 Proofs.HistInv3 Proofs.HistLift Proofs.HistLift2 Proofs.HistLift3
  Proofs.HistLift4 Proofs.HistLift6 Proofs.HistLiftB Proofs.IsoLaws Proofs.DeadLaws
  Proofs.Lineage Proofs.Lineage3 Proofs.Lineage4 Proofs.Lineage5 Proofs.Lineage7 Proofs.Lineage8 Proofs.Lineage9
  Proofs.LineageB Proofs.LineageF Proofs.LineageG2.
From Coq Require Import Lia.

Lemma LIb_step b w h : LIb b (w_st w) -> ff_hop h -> crash_free h -> LIb b (w_st (fst (step w h))).
Proof.
  intros Hl Hff Hcf. apply LIb_LNb_DN. apply LNb_step; [apply LIb_LNb_DN; exact Hl | exact Hff | exact Hcf].
Qed.

Section LinkB.
  Variable b : nat.
  Notation GQ := (Gb b Q0).

Lemma regen_trb base s o ob : GQ base s -> b <= o -> hget s o = Some ob -> hg s o ->
  GQ base (regen s o ob) /\ hg (regen s o ob) o /\ forall k, TR s o k -> TR (regen s o ob) o k.
Proof.
  intros Hg Hbo Ho Hh. pose proof Hg as (I & K & P & _).
  destruct (regen_Gb b Q0 Q0_repl base s o ob Hg Hbo Ho Hh) as (G' & _ & H' & Hi' & _).
  destruct (regen_eff _ _ _ _ _ _ I K P Ho Hbo (fun x => x) Hh) as (_ & _ & E & _).
  split; [exact G'|]. split; [exact H'|]. intros k (cur & Hc & Hl).
  unfold hid in Hc. rewrite Ho in Hc. cbn [option_map] in Hc. injection Hc as <-.
  exists (KGen (supply s)). split; [exact Hi' | eapply lreach_repl; eassumption].
Qed.

(* every handler operation other than Destroy *)
Lemma do_sop_trb base s o hc op : GQ base s -> b <= o -> hg s o -> op <> SDestroy ->
  exists s' r cks, do_sop s o hc op = (s', r, cks) /\ GQ base s' /\ hg s' o /\ forall k, TR s o k -> TR s' o k.
Proof.
  intros Hg Hbo Hh Hop. pose proof Hg as (I & K & P & Hq). pose proof Hh as (ob & Ho & Hr & Hs).
  assert (Hp : plan s = []) by apply (i_plan _ _ _ _ _ I).
  assert (Hquiet : forall s' (r : sres), GQ base s' -> qt s s' ->
            exists s'' r' cks, (s', r, @nil cookie) = (s'', r', cks) /\ GQ base s'' /\ hg s'' o /\
              forall k, TR s o k -> TR s'' o k).
  { intros s' r G' Q'. do 3 eexists. split; [reflexivity|]. split; [exact G'|].
    split; [eapply hg_qt; eassumption | intros k Hk; eapply TR_qt; eassumption]. }
  assert (Hupd : forall f, (forall r, r_ref (f r) = r_ref r) ->
             GQ base (hupd s o f) /\ qt s (hupd s o f) /\ hg (hupd s o f) o).
  { intros f Hf. destruct (hupd_qt s o f Hf K) as [Q1 K1].
    split; [eapply (Gb_qt b Q0 Q0_qt); [apply inv_hupd; assumption | exact K1 | exact Q1 | exact Hg]|].
    split; [exact Q1 | eapply hg_qt; eassumption]. }
  assert (Hsave : forall s1, GQ base s1 -> qt s s1 -> hg s1 o ->
             exists s', save_direct s1 o = (s', Ok tt) /\ GQ base s' /\ qt s s').
  { intros s1 G1 Q1 H1. pose proof G1 as (I1 & K1 & _).
    destruct (save_direct_inv _ _ _ _ _ I1 (hg_hokb _ _ _ Hbo H1)) as (s' & E & I' & _).
    destruct (save_direct_qt s1 o (i_plan _ _ _ _ _ I1) K1 (hg_sc _ _ H1)) as [Q2 K2]. rewrite E in *. cbn [fst] in *.
    exists s'. split; [reflexivity|]. split; [eapply (Gb_qt b Q0 Q0_qt); eassumption | eapply qt_trans; eassumption]. }
  destruct op as [k v|k|k|k|u ex| | |]; cbn [do_sop].
  - unfold data_of. rewrite Ho. destruct (r_data (o_rec ob)) as [d|].
    + destruct (Hupd (fun r => set_data r (Some (kv_set d k v))) (fun _ => eq_refl)) as (G1 & Q1 & H1).
      destruct (Hsave _ G1 Q1 H1) as (s' & E & G' & Q'). rewrite E. apply Hquiet; assumption.
    + apply Hquiet; [exact Hg | apply qt_refl].
  - unfold data_of. rewrite Ho.
    assert (Hx : exists s1, (match r_data (o_rec ob) with
                             | Some d => hupd s o (fun r => set_data r (Some (kv_del d k)))
                             | None => s end) = s1 /\ GQ base s1 /\ qt s s1 /\ hg s1 o).
    { destruct (r_data (o_rec ob)) as [d|].
      - destruct (Hupd (fun r => set_data r (Some (kv_del d k))) (fun _ => eq_refl)) as (G1 & Q1 & H1).
        eexists. split; [reflexivity|]. auto.
      - exists s. split; [reflexivity|]. split; [exact Hg|]. split; [apply qt_refl | exact Hh]. }
    destruct Hx as (s1 & -> & G1 & Q1 & H1).
    destruct (Hsave _ G1 Q1 H1) as (s' & E & G' & Q'). rewrite E. apply Hquiet; assumption.
  - apply Hquiet; [exact Hg | apply qt_refl].
  - unfold data_of. rewrite Ho. destruct (r_data (o_rec ob)) as [d|].
    + destruct (kv_get d k).
      * destruct (Hupd (fun r => set_data r (Some (kv_del d k))) (fun _ => eq_refl)) as (G1 & Q1 & H1).
        destruct (Hsave _ G1 Q1 H1) as (s' & E & G' & Q'). rewrite E. apply Hquiet; assumption.
      * apply Hquiet; [exact Hg | apply qt_refl].
    + apply Hquiet; [exact Hg | apply qt_refl].
  - (* LogIn: quiet up to the write-through, then RegenerateID *)
    pose proof (hg_hokb _ _ _ Hbo Hh) as Hok. unfold login.
    assert (Hpre : exists s1, (if ex then logout_user s (fst u) else let '(s0, _) := logout s o in (s0, Ok tt)) = (s1, Ok tt)
                              /\ inv b base NX ND s1 /\ Kcs s1 /\ qt s s1).
    { destruct ex.
      - destruct (logout_user_inv _ _ _ _ (fst u) I) as (s1 & E & I1 & _).
        destruct (logout_user_qt _ _ _ _ (fst u) I K) as [Q1 K1]. rewrite E in *. cbn [fst] in *.
        exists s1. auto.
      - destruct (logout_inv _ _ _ _ _ I Hok) as (s1 & E & I1 & _).
        destruct (logout_qt s o (i_plan _ _ _ _ _ I) K (hg_sc _ _ Hh)) as [Q1 K1]. rewrite E in *. cbn [fst] in *.
        exists s1. auto. }
    destruct Hpre as (s1 & E1 & I1 & K1 & Q1). rewrite E1.
    assert (H1 : hg s1 o) by (eapply hg_qt; eassumption).
    destruct (hupd_qt s1 o (fun r => set_user r (Some u)) (fun _ => eq_refl) K1) as [Q2 K2].
    set (s2 := hupd s1 o (fun r => set_user r (Some u))) in *.
    assert (I2 : inv b base NX ND s2) by (apply inv_hupd; [exact I1 | reflexivity]).
    assert (H2 : hg s2 o) by (eapply hg_qt; eassumption).
    pose proof H2 as (ob2 & Ho2 & Hr2 & Hs2).
    assert (F2 : ffnd s2) by (eapply inv_ffnd; exact I2).
    rewrite (cache_set_ff _ _ _ F2 Ho2). cbn [negb].
    assert (Hs2' : sref s2 (o_id ob2) = Some (r_ref (o_rec ob2))) by (rewrite Hs2, Hr2; reflexivity).
    destruct (cset_qt _ _ _ _ _ _ _ I2 K2 Ho2 Hs2') as [Q3 K3].
    assert (I3 : inv b base NX ND (cset s2 o ob2)) by (apply inv_cset; [exact I2 | exact Ho2 | exact Hbo | intros []]).
    assert (Q13 : qt s (cset s2 o ob2)) by (eapply qt_trans; [exact Q1|]; eapply qt_trans; eassumption).
    assert (G3 : GQ base (cset s2 o ob2)) by (eapply (Gb_qt b Q0 Q0_qt); eassumption).
    assert (H3 : hg (cset s2 o ob2) o) by (eapply hg_qt; eassumption).
    pose proof H3 as (ob3 & Ho3 & _).
    rewrite (regenerate_ff _ _ _ (inv_ffnd _ _ _ _ _ I3) Ho3).
    destruct (regen_trb base _ o ob3 G3 Hbo Ho3 H3) as (G' & H' & T').
    do 3 eexists. split; [reflexivity|]. split; [exact G'|]. split; [exact H'|].
    intros k Hk. apply T'. eapply TR_qt; eassumption.
  - destruct (logout_inv _ _ _ _ _ I (hg_hokb _ _ _ Hbo Hh)) as (s' & E & I' & _).
    destruct (logout_qt s o Hp K (hg_sc _ _ Hh)) as [Q1 K1]. rewrite E in *. cbn [fst] in *.
    apply Hquiet; [eapply (Gb_qt b Q0 Q0_qt); eassumption | exact Q1].
  - rewrite (regenerate_ff _ _ _ (inv_ffnd _ _ _ _ _ I) Ho).
    destruct (regen_trb base s o ob Hg Hbo Ho Hh) as (G' & H' & T').
    do 3 eexists. split; [reflexivity|]. split; [exact G'|]. split; [exact H' | exact T'].
  - exfalso. apply Hop. reflexivity.
Qed.

Lemma fire_due_trb base s o : GQ base s -> b <= o -> hg s o ->
  GQ base (fire_due s) /\ hg (fire_due s) o /\ heap (fire_due s) = heap s /\ forall k, TR s o k -> TR (fire_due s) o k.
Proof.
  intros Hg Hbo Hh. destruct (fire_due_Gb b Q0 FOK0 Q0_fire _ _ Hg Logic.I) as (G2 & _ & H2 & Ef).
  assert (Hheap : heap (fire_due s) = heap s) by (destruct Hg as (I1 & _); apply (HistInv3.fire_due_inv _ _ _ _ I1)).
  split; [exact G2|]. split; [apply H2; exact Hh|]. split; [exact Hheap|].
  intros k (cur & Hc & Hl). exists cur. split; [rewrite (hid_heap _ _ o Hheap); exact Hc | eapply lreach_fire; eassumption].
Qed.

(* a script whose last executed operation is Destroy *)
Lemma script_linkb base hc : forall ops s o s' rs cks, GQ base s -> b <= o -> hg s o ->
  run_script s o hc ops = (s', rs, cks) -> rs <> [] -> nth_error ops (length rs - 1) = Some SDestroy ->
  exists kn, hid s' o = Some kn /\ forall k, TR s o k -> lreach s' kn k.
Proof.
  induction ops as [|op t IH]; intros s o s' rs cks Hg Hbo Hh E Hne Hn; cbn [run_script] in E.
  - injection E as <- <- <-. congruence.
  - assert (Hdec : op = SDestroy \/ op <> SDestroy) by (destruct op; ((left; reflexivity) || (right; discriminate))).
    destruct Hdec as [->|Hop].
    + pose proof Hh as (ob & Ho & _). pose proof Hg as (I & K & P & _).
      assert (Hp : plan s = []) by apply (i_plan _ _ _ _ _ I).
      cbn [do_sop] in E. rewrite (destroy_ff _ _ _ _ Hp Ho) in E.
      destruct (cdel_eff s (o_id ob) Hp K P) as (K1 & P1 & Ed & Hheap1 & Hp1).
      destruct (fire_due_eff _ Hp1 K1 P1) as (_ & _ & Ef & Hheap2 & _).
      injection E as <- <- <-. exists (o_id ob).
      split; [rewrite (hid_heap _ _ o Hheap2), (hid_heap _ _ o Hheap1); unfold hid; rewrite Ho; reflexivity|].
      intros k (cur & Hc & Hl). unfold hid in Hc. rewrite Ho in Hc. cbn [option_map] in Hc. injection Hc as <-.
      eapply lreach_fire; [exact Ef|]. eapply lreach_del; eassumption.
    + destruct (do_sop_trb base s o hc op Hg Hbo Hh Hop) as (s1 & r & c1 & E1 & G1 & H1 & T1). rewrite E1 in E.
      destruct (fire_due_trb base s1 o G1 Hbo H1) as (G2 & H2 & _ & T2).
      assert (Hstop : (match op, r with SDestroy, _ => true | _, SPanic _ => true | _, _ => false end)
                      = match r with SPanic _ => true | _ => false end) by (destruct op; try reflexivity; congruence).
      rewrite Hstop in E. destruct (match r with SPanic _ => true | _ => false end).
      * injection E as <- <- <-. cbn [length Nat.sub nth_error] in Hn. congruence.
      * destruct (run_script (fire_due s1) o hc t) as [[s2 rs2] cks2] eqn:E2. injection E as <- <- <-.
        destruct rs2 as [|r2 rs2'].
        -- cbn [length Nat.sub nth_error] in Hn. congruence.
        -- destruct (IH (fire_due s1) o s2 (r2 :: rs2') cks2 G2 Hbo H2 E2) as (kn & Hk & Hl).
           ++ discriminate.
           ++ cbn [length] in Hn. cbn [length]. replace (S (S (length rs2')) - 1) with (S (length rs2')) in Hn by lia.
              cbn [nth_error] in Hn. replace (S (length rs2') - 1) with (length rs2') by lia. exact Hn.
           ++ exists kn. split; [exact Hk|]. intros k Hk'. apply Hl. apply T2. apply T1. exact Hk'.
Qed.

(* from the store's view to L, under LIb b *)
Lemma lreach_lineageb s kn k : LIb b s -> sref s kn = None -> lreach s kn k -> lineage s kn k.
Proof.
  intros Hl Hn H. induction H as [|k Hk Hg|k t Hk Hr Ht IH]; [constructor| |].
  - apply lin_gone; [exact Hk | apply (LIb_L_none b s k Hl); exact Hg].
  - destruct (proj2 (LIb_Lref_iff b s k (Some t) Hl) Hr) as (r & HL & Hr').
    eapply lin_ref; [exact HL | exact Hr' | exact IH].
Qed.

(* a whole request step whose script ends with Destroy *)
Theorem destroyed_start_linkb w r :
  LIb b (w_st w) -> rq_plan r = [] -> rq_crash r = None ->
  ob_script (snd (step w (HReq r))) <> [] ->
  nth_error (rq_script r) (length (ob_script (snd (step w (HReq r)))) - 1) = Some SDestroy ->
  exists id0 rc0 kn rcf,
    ob_start (snd (step w (HReq r))) = Some (id0, rc0) /\
    ob_final (snd (step w (HReq r))) = Some (kn, rcf) /\
    lineage (w_st (fst (step w (HReq r)))) kn id0.
Proof.
  intros Hl Hpl Hcr.
  pose proof (LIb_step b w (HReq r) Hl Hpl Hcr) as Hl'.
  pose proof (step_destroy b w r (proj1 Hl) Hpl Hcr) as Hsd.
  revert Hl' Hsd. rewrite step_req_eq. cbv zeta. rewrite Hcr.
  change (match rq_present r with PJar => jar_of (w_jars w) (rq_client r) | PForge c => c end) with (presents w r).
  change (mkReq (presents w r) (rq_create r) (rq_addr r) (rq_ua r)) with (req_of w r).
  change (set_tb (set_plan (set_evs (w_st w) []) (rq_plan r)) (rq_tb r)) with (pre_of w r).
  pose proof (GWb_Gb b Q0 Q0_qt (w_st w) (rq_plan r) (rq_tb r) Hl Hpl) as G1. fold (pre_of w r) in G1.
  unfold req_body.
  destruct (start_Gb b Q0 DEL0 Q0_qt Q0_new Q0_repl Q0_del _ (pre_of w r) (req_of w r) G1) as (s2 & res & cks & E & G2 & _ & H2 & _).
  { intros; exact Logic.I. }
  rewrite E.
  destruct res as [[o|]|e|e]; try (cbn [fst snd mk_obs ob_script]; intros _ _ Hne; congruence).
  destruct (fire_due_trb _ s2 o G2 (proj1 (H2 o eq_refl)) (proj1 (proj2 (H2 o eq_refl)))) as (G3 & H3 & _ & _).
  destruct (run_script (fire_due s2) o (had_cookie (req_of w r)) (rq_script r)) as [[s3 sr] cks'] eqn:E'.
  cbn [fst snd mk_obs ob_script ob_start ob_final w_st]. intros Hl' Hsd Hne Hn.
  destruct (Hsd Hne Hn) as (kn' & rc' & A1 & _ & [_ A3] & _).
  destruct (script_linkb _ _ _ _ _ _ _ _ G3 (proj1 (H2 o eq_refl)) H3 E' Hne Hn) as (kn & Hk & Hlr).
  pose proof H3 as (ob3 & Ho3 & _).
  exists (o_id ob3), (o_rec ob3). unfold hid in Hk. destruct (hget s3 o) as [obf|] eqn:Hof; [|discriminate].
  cbn [option_map] in Hk. injection Hk as Hk.
  exists kn, (o_rec obf). split; [unfold handle_view; rewrite Ho3; reflexivity|].
  split; [unfold handle_view; rewrite Hof, Hk; reflexivity|].
  unfold handle_view in A1. rewrite Hof in A1. injection A1 as A1 _. rewrite Hk in A1. subst kn'.
  apply lreach_lineageb; [exact Hl' | unfold sref; sst; rewrite A3; reflexivity|].
  eapply (lreach_weak s3); [sst; lia | intros k' _; left; reflexivity|].
  apply Hlr. exists (o_id ob3). split; [unfold hid; rewrite Ho3; reflexivity | constructor].
Qed.

(* with the chains that led to the returned ID before the step *)
Theorem destroyed_start_chainb w r :
  LIb b (w_st w) -> rq_plan r = [] -> rq_crash r = None ->
  ob_script (snd (step w (HReq r))) <> [] ->
  nth_error (rq_script r) (length (ob_script (snd (step w (HReq r)))) - 1) = Some SDestroy ->
  exists id0 rc0 kn rcf,
    ob_start (snd (step w (HReq r))) = Some (id0, rc0) /\
    ob_final (snd (step w (HReq r))) = Some (kn, rcf) /\
    forall k, rchain (w_st w) k id0 -> lineage (w_st (fst (step w (HReq r)))) kn k.
Proof.
  intros Hl Hpl Hcr Hne Hn.
  destruct (destroyed_start_linkb w r Hl Hpl Hcr Hne Hn) as (id0 & rc0 & kn & rcf & A1 & A2 & A3).
  exists id0, rc0, kn, rcf. split; [exact A1|]. split; [exact A2|]. intros k Hch.
  apply (chain_into_lineage_any w [HReq r] kn k id0 (ex_intro _ b Hl)); [repeat constructor; assumption | exact Hch | exact A3].
Qed.

Lemma G_stored_drawnb base s k x : GQ base s -> sref s k = Some x -> kd (supply s) k.
Proof.
  intros (I & _) Hs. unfold sref in Hs. destruct (lookup (store s) k) as [r|] eqn:Hst; [|discriminate].
  apply lookup_In in Hst. apply (i_fs _ _ _ _ _ I k r Hst).
Qed.

Lemma lreach_new s s' k0 cur k : eff_new s s' k0 -> lreach s cur k -> lreach s' cur k.
Proof.
  intro E. apply lreach_weak; [rewrite (en_supply _ _ _ E); lia|]. intros k' Hk'. left.
  apply (en_oth _ _ _ E). intro Heq. subst k'. rewrite (en_key _ _ _ E) in Hk'. cbn [kd] in Hk'. lia.
Qed.

Lemma follow_trb base : forall fuel s o lk s' o' lk', GQ base s ->
  (exists ob, hget s o = Some ob /\ sref s lk = Some (r_ref (o_rec ob))) ->
  follow fuel s o lk = (s', Ok (o', lk')) -> lreach s' lk' lk.
Proof.
  induction fuel as [|f IH]; intros s o lk s' o' lk' Hg (ob & Ho & Hs) E; cbn [follow] in E; rewrite Ho in E.
  - destruct (r_ref (o_rec ob)); [discriminate|]. injection E as <- <- <-. constructor.
  - destruct (r_ref (o_rec ob)) as [t|] eqn:Hr; [|injection E as <- <- <-; constructor].
    pose proof Hg as (I & K & _).
    destruct (cache_get_inv _ _ _ _ _ t I) as (s1 & r & E1 & I1 & Hres).
    destruct (cache_get_qt _ _ _ _ t I K) as (Qt & K1 & Hobj). rewrite E1 in *. cbn [fst snd] in *.
    assert (G1 : GQ base s1) by (eapply (Gb_qt b Q0 Q0_qt); eassumption).
    destruct r as [o1|]; [|discriminate].
    destruct (Hobj o1 eq_refl) as (ob1 & Ho1 & Hid1 & Hs1).
    assert (Hok1 : hok b ND s1 o1) by (split; [exact (proj1 Hres) | exists ob1; split; [exact Ho1 | intros []]]).
    assert (Hsc1 : sc s1 o1) by (exists ob1; split; [exact Ho1 | rewrite Hid1; exact Hs1]).
    destruct (follow_qt b base ND f s1 o1 t I1 K1 Hok1 Hsc1) as (Qt2 & _). rewrite E in Qt2. cbn [fst] in Qt2.
    pose proof (IH s1 o1 t s' o' lk' G1 (ex_intro _ ob1 (conj Ho1 Hs1)) E) as Hl.
    eapply lr_ref; [| |exact Hl].
    + rewrite (qt_supply _ _ Qt2), (qt_supply _ _ Qt). eapply G_stored_drawnb; eassumption.
    + rewrite (qt_sref _ _ Qt2), (qt_sref _ _ Qt). exact Hs.
Qed.

Lemma start_trb base s q kp x : GQ base s -> q_cookie q = CKey kp -> sref s kp = Some x ->
  forall s' o cks, start s q = (s', Ok (Some o), cks) -> TR s' o kp.
Proof.
  intros Hg Hq Hx s' o cks Es. pose proof Hg as (I & K & P & _).
  rewrite start_eq, Hq in Es.
  destruct (cache_get_inv _ _ _ _ _ kp I) as (s1 & r & E & I1 & Hres).
  destruct (cache_get_qt _ _ _ _ kp I K) as (Qt & K1 & Hobj). rewrite E in *. cbn [fst snd] in *.
  assert (G1 : GQ base s1) by (eapply (Gb_qt b Q0 Q0_qt); eassumption).
  assert (F1 : ffnd s1) by (eapply inv_ffnd; exact I1). assert (Hp1 : plan s1 = []) by apply F1.
  destruct r as [o0|].
  2:{ destruct Hres as [_ Hst]. unfold sref in Hx. rewrite Hst in Hx. discriminate. }
  destruct (Hobj o0 eq_refl) as (ob & Ho & Hid & Hs). rewrite Ho in Es.
  assert (Hkd1 : kd (supply s1) kp) by (eapply G_stored_drawnb; eassumption).
  set (c := conf s) in *.
  destruct (rec_valid c (now s1) q (o_rec ob)) eqn:Hv.
  - destruct (r_ref (o_rec ob)) as [t|] eqn:Hr.
    + (* a replaced-ID record: followed *)
      destruct (sat_add (c_idexpiry c) (c_grace c) <=? since (r_created (o_rec ob)) (now s1))%Z eqn:Hb.
      * rewrite sf_backstop in Es; [| exact Hp1 | exact Hv | unfold isref; rewrite Hr; reflexivity | exact Hb]. discriminate.
      * rewrite (sf_ref _ _ _ _ _ _ _ t Hv Hr Hb) in Es.
        destruct (follow (S (N.to_nat (supply s1))) s1 o0 kp) as [s2 fr] eqn:Ef.
        destruct fr as [[o' lk']|e|e]; [|discriminate | discriminate]. injection Es as <- <- <-.
        assert (Hok : hok b ND s1 o0) by (split; [exact (proj1 Hres) | exists ob; split; [exact Ho | intros []]]).
        assert (Hs' : sref s1 kp = Some (r_ref (o_rec ob))) by (rewrite Hr; exact Hs).
        assert (Hsc : sc s1 o0) by (exists ob; split; [exact Ho | rewrite Hid; exact Hs']).
        destruct (follow_qt b base ND (S (N.to_nat (supply s1))) s1 o0 kp I1 K1 Hok Hsc) as (Qt2 & K2 & Hh2).
        rewrite Ef in *. cbn [fst snd] in *.
        destruct (follow_key b base ND _ _ _ _ _ _ _ I1 (ex_intro _ ob (conj Ho Hid)) Ef) as (ob' & Ho' & Hid').
        pose proof (follow_trb base _ _ _ _ _ _ _ G1 (ex_intro _ ob (conj Ho Hs')) Ef) as Hl.
        destruct (hupd_qt s2 o' (upd_req s2 q) (fun _ => eq_refl) K2) as [Qt3 _].
        apply (TR_qt s2 _ o' kp Qt3 (Hh2 o' lk' eq_refl)).
        exists lk'. split; [unfold hid; rewrite Ho'; cbn [option_map]; rewrite Hid'; reflexivity | exact Hl].
    + (* the session itself *)
      assert (Hh : hg s1 o0) by (exists ob; split; [exact Ho | split; [exact Hr | rewrite Hid; exact Hs]]).
      assert (T1 : TR s1 o0 kp) by (exists kp; split; [unfold hid; rewrite Ho; cbn [option_map]; rewrite Hid; reflexivity | constructor]).
      destruct (c_idexpiry c <=? since (r_created (o_rec ob)) (now s1))%Z eqn:Ha.
      * rewrite (sf_rotate _ _ _ _ _ _ _ F1 Ho Hv Hr Ha) in Es. injection Es as <- <- <-.
        destruct (regen_trb base s1 o0 ob G1 (proj1 Hres) Ho Hh) as (G' & H' & T').
        pose proof G' as (_ & K' & _).
        destruct (hupd_qt (regen s1 o0 ob) o0 (upd_req (regen s1 o0 ob) q) (fun _ => eq_refl) K') as [Qt3 _].
        apply (TR_qt _ _ o0 kp Qt3 H'). apply T'. exact T1.
      * destruct (sat_add (c_idexpiry c) (c_grace c) <=? since (r_created (o_rec ob)) (now s1))%Z eqn:Hb.
        -- rewrite sf_backstop in Es; [| exact Hp1 | exact Hv | rewrite Ha; apply andb_false_r | exact Hb]. discriminate.
        -- rewrite (sf_plain _ _ _ _ _ _ _ Hv Hr Ha Hb) in Es. injection Es as <- <- <-.
           destruct (hupd_qt s1 o0 (upd_req s1 q) (fun _ => eq_refl) K1) as [Qt3 _].
           apply (TR_qt _ _ o0 kp Qt3 Hh). exact T1.
  - (* invalid: destroyed; a session created instead *)
    rewrite (sf_invalid _ _ _ _ _ _ _ Hp1 Ho Hv) in Es. rewrite Hid in Es.
    destruct (cdel_Gb b Q0 DEL0 Q0_del base s1 kp G1 Logic.I) as (Gd & _ & Ed & _).
    destruct (q_create q); [|discriminate].
    rewrite create_session_ff in Es by (eapply inv_ffnd; apply Gd). injection Es as <- <- <-.
    destruct (created_Gb b Q0 Q0_new base _ q Gd) as (_ & _ & _ & Hi' & Hsu').
    pose proof Gd as (Id & Kd & Pd & _).
    destruct (created_eff _ _ _ _ q Id Kd Pd) as (_ & _ & En & _).
    exists (KGen (supply (fst (cache_delete s1 kp)))). split; [exact Hi'|].
    apply lr_gone.
    + rewrite Hsu', (ed_supply _ _ _ Ed). eapply kd_mono; [|exact Hkd1]. lia.
    + rewrite (en_oth _ _ _ En); [exact (ed_gone _ _ _ Ed)|].
      intro Heq. rewrite (ed_supply _ _ _ Ed) in Heq. rewrite Heq in Hkd1. cbn [kd] in Hkd1. lia.
Qed.

(* a whole request step that presented a stored ID and whose script ends with Destroy *)
Theorem destroyed_presented_linkb w r kp x :
  LIb b (w_st w) -> rq_plan r = [] -> rq_crash r = None ->
  presents w r = CKey kp -> sref (w_st w) kp = Some x ->
  ob_script (snd (step w (HReq r))) <> [] ->
  nth_error (rq_script r) (length (ob_script (snd (step w (HReq r)))) - 1) = Some SDestroy ->
  exists kn rcf,
    ob_final (snd (step w (HReq r))) = Some (kn, rcf) /\
    forall k, rchain (w_st w) k kp -> lineage (w_st (fst (step w (HReq r)))) kn k.
Proof.
  intros Hl Hpl Hcr Hpr Hx.
  pose proof (LIb_step b w (HReq r) Hl Hpl Hcr) as Hl'.
  pose proof (step_destroy b w r (proj1 Hl) Hpl Hcr) as Hsd.
  assert (Hch : forall kn, lineage (w_st (fst (step w (HReq r)))) kn kp ->
                forall k, rchain (w_st w) k kp -> lineage (w_st (fst (step w (HReq r)))) kn k).
  { intros kn Hkp k Hc.
    apply (chain_into_lineage_any w [HReq r] kn k kp (ex_intro _ b Hl)); [repeat constructor; assumption | exact Hc | exact Hkp]. }
  revert Hl' Hsd Hch. rewrite step_req_eq. cbv zeta. rewrite Hcr.
  change (match rq_present r with PJar => jar_of (w_jars w) (rq_client r) | PForge c => c end) with (presents w r).
  change (mkReq (presents w r) (rq_create r) (rq_addr r) (rq_ua r)) with (req_of w r).
  change (set_tb (set_plan (set_evs (w_st w) []) (rq_plan r)) (rq_tb r)) with (pre_of w r).
  pose proof (GWb_Gb b Q0 Q0_qt (w_st w) (rq_plan r) (rq_tb r) Hl Hpl) as G1. fold (pre_of w r) in G1.
  unfold req_body.
  destruct (start_Gb b Q0 DEL0 Q0_qt Q0_new Q0_repl Q0_del _ (pre_of w r) (req_of w r) G1) as (s2 & res & cks & E & G2 & _ & H2 & _).
  { intros; exact Logic.I. }
  rewrite E.
  destruct res as [[o|]|e|e]; try (cbn [fst snd mk_obs ob_script]; intros _ _ _ Hne; congruence).
  assert (T2 : TR s2 o kp).
  { apply (start_trb _ (pre_of w r) (req_of w r) kp x G1 Hpr Hx _ _ _ E). }
  destruct (fire_due_trb _ s2 o G2 (proj1 (H2 o eq_refl)) (proj1 (proj2 (H2 o eq_refl)))) as (G3 & H3 & _ & T3).
  destruct (run_script (fire_due s2) o (had_cookie (req_of w r)) (rq_script r)) as [[s3 sr] cks'] eqn:E'.
  cbn [fst snd mk_obs ob_script ob_start ob_final w_st]. intros Hl' Hsd Hch Hne Hn.
  destruct (Hsd Hne Hn) as (kn' & rc' & A1 & _ & [_ A3] & _).
  destruct (script_linkb _ _ _ _ _ _ _ _ G3 (proj1 (H2 o eq_refl)) H3 E' Hne Hn) as (kn & Hk & Hlr).
  unfold hid in Hk. destruct (hget s3 o) as [obf|] eqn:Hof; [|discriminate].
  cbn [option_map] in Hk. injection Hk as Hk.
  exists kn, (o_rec obf). split; [unfold handle_view; rewrite Hof, Hk; reflexivity|].
  unfold handle_view in A1. rewrite Hof in A1. injection A1 as A1 _. rewrite Hk in A1. subst kn'.
  apply Hch. apply lreach_lineageb; [exact Hl' | unfold sref; sst; rewrite A3; reflexivity|].
  eapply (lreach_weak s3); [sst; lia | intros k' _; left; reflexivity|].
  apply Hlr. apply T3. exact T2.
Qed.


End LinkB.
