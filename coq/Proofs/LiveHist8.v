(* C02 and C06 at the history level: the state hypotheses of PC's per-call
   theorems (C02_unknown, C02_nolookup, C06_destroy) are discharged for every
   state reached by a fault-free, crash-free history; IDs that were never
   issued, junk values and destroyed IDs are unknown in every reachable state;
   what a request step reports about the session Start returned (C06_moves). *)
From Sessions Require Import Model.Base Model.Sess Model.Hist Proofs.SessDefs
  Proofs.HistInv Proofs.HistInv2 Proofs.HistInv3 Proofs.LiveHist4.
From Sessions Require Proofs.StartLaws Proofs.StartLaws2 Proofs.StartLaws3 Proofs.StartLaws4
  Proofs.IsoLaws Proofs.DeadLaws.
From Coq Require Import Lia.

(* ----------------------------------------------- reachable states *)

Theorem reach_sess_inv c hs : Forall ff_hop hs -> Forall crash_free hs -> sess_inv (w_st (reach c hs)).
Proof.
  intros Hff Hcf. destruct (hist_sess_inv c hs Hff) as (b & H). cbv zeta in H.
  destruct H as (A1 & A2 & A3 & A4 & A5). rewrite (A5 Hcf) in A4.
  split; [exact A1|]. split; [exact A2|]. split; [exact A3 | apply fresh_from_0; exact A4].
Qed.

(* the state a request's Start runs on: the world's state with an empty log and
   the step's tie-break list *)
Lemma req_s1_sess_inv w r : sess_inv (w_st w) -> sess_inv (req_s1 w r).
Proof. intros (A1 & A2 & A3 & A4). split; [reflexivity|]. split; [exact A2|]. split; [exact A3 | exact A4]. Qed.

(* ------------------------------------------------------------------ C02 *)

(* A request presenting a 24-character value that resolves to nothing. *)
Theorem unknown_hist c hs r k :
  Forall ff_hop hs -> Forall crash_free hs ->
  pres (reach c hs) r = CKey k -> L (w_st (reach c hs)) k = None ->
  let w := reach c hs in
  let s1 := req_s1 w r in
  let q := req_q w r in
  exists s' res nck new,
    start s1 q = (s', res, CkDelete :: nck) /\
    StartLaws3.no_session s1 q s' res nck /\
    (forall k', k' <> KGen (supply (w_st w)) -> StartLaws.Lc s' k' = StartLaws.Lc (w_st w) k') /\
    (rq_create r = false -> s' = log s1 (EvLoad k true)) /\
    StartLaws2.ok s' /\ conf s' = conf (w_st w) /\
    evs s' = new /\
    (key_drawn (w_st w) k ->
       KGen (supply (w_st w)) <> k /\ L s' k = None /\ filter (StartLaws3.under k) new = [EvLoad k true]).
Proof.
  intros Hff Hcf Hpr HL w s1 q.
  destruct (req_s1_sess_inv w r (reach_sess_inv c hs Hff Hcf)) as (A1 & A2 & A3 & A4).
  destruct (StartLaws3.unknown_cookie s1 q k A1 A2 A3 A4 Hpr HL) as (s' & res & nck & new & B1 & B2 & B3 & B4 & B5 & B6 & B7 & B8).
  exists s', res, nck, new. split; [exact B1|]. split; [exact B2|]. split; [exact B3|]. split; [exact B4|].
  split; [exact B5|]. split; [exact B6|]. split; [rewrite B7; apply app_nil_r | exact B8].
Qed.

(* ... and what the step reports *)
Theorem unknown_obs c hs r k :
  Forall ff_hop hs -> Forall crash_free hs -> rq_plan r = [] -> rq_crash r = None ->
  pres (reach c hs) r = CKey k -> L (w_st (reach c hs)) k = None ->
  let w := reach c hs in
  let o := snd (step w (HReq r)) in
  if rq_create r then
    ob_res o = RSess /\
    ob_start o = Some (KGen (supply (w_st w)),
                       mkRec (now (w_st w)) (now (w_st w)) (rq_addr r) (rq_ua r) None None (Some [])) /\
    exists rest, ob_cookies o = CkDelete :: CkLive (KGen (supply (w_st w))) :: rest
  else
    ob_res o = RNone /\ ob_start o = None /\ ob_final o = None /\ ob_script o = [] /\
    ob_cookies o = [CkDelete] /\
    (rq_present r = PJar -> ob_jar o = CNone).
Proof.
  intros Hff Hcf Hpl Hcr Hpr HL w o.
  destruct (unknown_hist c hs r k Hff Hcf Hpr HL) as (s' & res & nck & new & B1 & B2 & _ & B4 & _).
  fold w in B1, B2, B4. unfold StartLaws3.no_session in B2. cbn [req_q q_create] in B2.
  destruct (reach_winv c hs Hff) as [b Wi]. fold w in Wi.
  pose proof (inv_of_winv b ND (w_st w) (rq_tb r) Wi : inv b (supply (w_st w), []) NX ND (req_s1 w r)) as I1.
  destruct (rq_create r) eqn:Ecr.
  - destruct B2 as (o' & -> & -> & _ & Hget & _).
    destruct (req_body_start _ _ _ _ _ (rq_script r) _ _ _ _ I1 B1 Hget) as (s3 & sr & fin & cks & E).
    destruct (start_inv _ _ _ _ (req_q w r) I1) as (s2 & res2 & ck2 & E2 & _). rewrite B1 in E2. injection E2 as <- <- <-.
    unfold o. rewrite (step_req_calm _ _ _ _ _ _ _ _ Hpl Hcr E). cbn [snd mk_obs ob_res ob_start ob_cookies].
    split; [reflexivity|]. split; [reflexivity|].
    unfold req_body in E. rewrite B1 in E. cbv zeta in E.
    destruct (run_script (fire_due s') o' (had_cookie (req_q w r)) (rq_script r)) as [[s4 sr4] ck4].
    injection E as _ _ _ _ <-. exists ck4. reflexivity.
  - destruct B2 as [-> ->]. specialize (B4 eq_refl). subst s'.
    assert (E : req_body (req_s1 w r) (req_q w r) (rq_script r) =
                (fire_due (log (req_s1 w r) (EvLoad k true)), RNone, None, [], None, [CkDelete])).
    { unfold req_body. rewrite B1. reflexivity. }
    unfold o. rewrite (step_req_calm _ _ _ _ _ _ _ _ Hpl Hcr E).
    cbn [snd mk_obs ob_res ob_start ob_final ob_script ob_cookies ob_jar]. unfold jar_after.
    repeat split. intros ->. reflexivity.
Qed.

(* any other cookie value: none, another length, the deletion marker *)
Theorem nolookup_hist c hs r :
  Forall ff_hop hs -> Forall crash_free hs ->
  (forall k, pres (reach c hs) r <> CKey k) ->
  let w := reach c hs in
  let s1 := req_s1 w r in
  let q := req_q w r in
  exists s' res nck new,
    start s1 q = (s', res, nck) /\
    StartLaws3.no_session s1 q s' res nck /\
    (forall k', k' <> KGen (supply (w_st w)) -> StartLaws.Lc s' k' = StartLaws.Lc (w_st w) k') /\
    (rq_create r = false -> s' = s1) /\
    StartLaws2.ok s' /\ conf s' = conf (w_st w) /\
    evs s' = new /\ Forall (StartLaws2.creation_ev s1) new.
Proof.
  intros Hff Hcf Hpr w s1 q.
  destruct (req_s1_sess_inv w r (reach_sess_inv c hs Hff Hcf)) as (A1 & A2 & A3 & A4).
  destruct (StartLaws3.no_lookup s1 q A1 A2 A3 A4 Hpr) as (s' & res & nck & new & B1 & B2 & B3 & B4 & B5 & B6 & B7 & B8).
  exists s', res, nck, new. split; [exact B1|]. split; [exact B2|]. split; [exact B3|]. split; [exact B4|].
  split; [exact B5|]. split; [exact B6|]. split; [rewrite B7; apply app_nil_r | exact B8].
Qed.

(* ---- which values are unknown, in every state of every fault-free history
   (crashes, cache loss and restarts allowed) ---- *)

Definition Dj : key -> Prop := fun k => exists n, k = KJunk n.

Lemma winv_init_junk c : winv 0 Dj (init_st c).
Proof.
  unfold winv. constructor; cbn [init_st set_evs plan heap cache store pending supply evs fst snd length map].
  - reflexivity.
  - lia.
  - intros k o H. discriminate.
  - constructor.
  - constructor.
  - intros k o [].
  - intros k r [].
  - intros o ob _ H. destruct o; discriminate.
  - intros d k [].
  - exists []. split; [reflexivity|]. split; [exact Logic.I | reflexivity].
  - intros k [n ->]. exact Logic.I.
  - intros k _. reflexivity.
  - intros k k' o ob _ H. discriminate.
Qed.

Lemma winv_dead_L b (D : key -> Prop) s k : winv b D s -> D k -> L s k = None.
Proof.
  intros Wi HD. apply StartLaws.lookups_None_L.
  - destruct (lookup (cache s) k) as [o|] eqn:El; [|reflexivity]. exfalso.
    destruct (i_cok _ _ _ _ _ Wi k o El) as [ob [Hob _]].
    destruct (i_Dc _ _ _ _ _ Wi k k o ob HD El Hob) as [H _]. congruence.
  - apply (i_Ds _ _ _ _ _ Wi k HD).
Qed.

(* a value the server never generates *)
Theorem junk_unknown c hs n : Forall ff_hop hs -> L (w_st (reach c hs)) (KJunk n) = None.
Proof.
  intro Hff. destruct (hist_winv Dj hs 0 (mkWorld (init_st c) []) (winv_init_junk c) Hff) as (b & Wi & _).
  eapply winv_dead_L; [exact Wi | exists n; reflexivity].
Qed.

(* an ID that has not been issued yet *)
Theorem undrawn_unknown c hs n :
  Forall ff_hop hs -> (supply (w_st (reach c hs)) <= n)%N -> L (w_st (reach c hs)) (KGen n) = None.
Proof.
  intros Hff Hn. destruct (reach_winv c hs Hff) as [b Wi].
  destruct (L (w_st (reach c hs)) (KGen n)) as [r|] eqn:HL; [|reflexivity].
  pose proof (winv_L_drawn _ _ _ _ _ Wi HL) as Hk. simpl in Hk. lia.
Qed.

(* an ID that was issued and is gone (destroyed, invalidated, cleaned up):
   unknown from then on *)
Theorem gone_unknown c hs1 hs2 k :
  Forall ff_hop hs1 -> Forall ff_hop hs2 ->
  key_drawn (w_st (reach c hs1)) k -> L (w_st (reach c hs1)) k = None ->
  L (w_st (after (reach c hs1) hs2)) k = None.
Proof.
  intros H1 H2 Hk HL. destruct (reach_winv c hs1 H1) as [b Wi].
  destruct (winv_sessdefs _ _ _ Wi) as (_ & Hc & _).
  destruct (StartLaws2.L_absent _ _ Hc HL) as [A1 A2].
  destruct (stays_dead_reach c hs1 hs2 k H1 H2 Hk A1 A2) as (B1 & B2 & _).
  apply StartLaws.lookups_None_L; assumption.
Qed.

(* ------------------------------------------------------------------ C06 *)

(* A request whose peer address or agent fails the rule for the record the
   presented ID resolves to. *)
Theorem anomaly_hist c hs r k r0 :
  Forall ff_hop hs -> Forall crash_free hs ->
  pres (reach c hs) r = CKey k -> L (w_st (reach c hs)) k = Some r0 ->
  ip_ok (c_acceptip (conf (w_st (reach c hs)))) (r_ip r0) (rq_addr r) = false \/
  ua_ok (c_acceptua (conf (w_st (reach c hs)))) (r_ua r0) (rq_ua r) = false ->
  let w := reach c hs in
  let s1 := req_s1 w r in
  let q := req_q w r in
  exists s' res nck,
    start s1 q = (s', res, CkDelete :: nck) /\
    StartLaws3.no_session s1 q s' res nck /\
    lookup (cache s') k = None /\ lookup (store s') k = None /\
    (forall k', k' <> k -> k' <> KGen (supply (w_st w)) -> StartLaws.Lc s' k' = StartLaws.Lc (w_st w) k') /\
    StartLaws2.ok s' /\ conf s' = conf (w_st w).
Proof.
  intros Hff Hcf Hpr HL Han w s1 q.
  destruct (req_s1_sess_inv w r (reach_sess_inv c hs Hff Hcf)) as (A1 & A2 & A3 & A4).
  destruct (StartLaws3.anomaly_destroys s1 q k r0 A1 A2 A3 A4 Hpr HL Han) as (s' & res & nck & B1 & B2 & B3 & B4 & B5 & _ & B7 & B8).
  exists s', res, nck. split; [exact B1|]. split; [exact B2|]. split; [exact B3|]. split; [exact B4|].
  split; [exact B5|]. split; [exact B7 | exact B8].
Qed.

(* ... the session is not returned, the response starts with the expiring
   cookie, and the ID never resolves again in any fault-free continuation *)
Theorem anomaly_dead_hist c hs1 r hs2 k r0 :
  Forall ff_hop hs1 -> rq_plan r = [] -> rq_crash r = None -> Forall ff_hop hs2 ->
  pres (reach c hs1) r = CKey k -> L (w_st (reach c hs1)) k = Some r0 ->
  ip_ok (c_acceptip (conf (w_st (reach c hs1)))) (r_ip r0) (rq_addr r) = false \/
  ua_ok (c_acceptua (conf (w_st (reach c hs1)))) (r_ua r0) (rq_ua r) = false ->
  (forall rc, ob_start (snd (step (reach c hs1) (HReq r))) <> Some (k, rc)) /\
  (exists rest, ob_cookies (snd (step (reach c hs1) (HReq r))) = CkDelete :: rest /\ ~ In (CkLive k) rest) /\
  (rq_present r = PJar -> ob_jar (snd (step (reach c hs1) (HReq r))) <> CKey k) /\
  L (w_st (after (fst (step (reach c hs1) (HReq r))) hs2)) k = None /\
  Forall (dead_obs k) (run_from (fst (step (reach c hs1) (HReq r))) hs2).
Proof.
  intros H1 Hpl Hcr H2 Hpr HL Han.
  destruct (DeadLaws.invalidated_never_returns c hs1 r hs2 k r0 H1 Hpl Hcr H2 Hpr HL) as (A1 & A2 & A3 & [A4 A5] & A6).
  { unfold rec_valid. cbn [q_addr q_ua]. destruct Han as [Han|Han]; rewrite Han.
    - rewrite andb_false_r. reflexivity.
    - apply andb_false_r. }
  split; [exact A2|]. split; [exact A1|]. split; [exact A3|]. split; [|exact A6].
  apply StartLaws.lookups_None_L; assumption.
Qed.

(* C06_moves as a step reports it — every world, any fault plan, crash or not:
   the session a request step reports as returned by Start records this
   request's peer address and agent and the current instant *)
Lemma fire_hsame : forall l s, StartLaws4.hsame s (fst (fire s l)).
Proof.
  induction l as [|[due k] t IH]; intros s; cbn [fire]; [apply StartLaws4.hsame_refl|].
  destruct (due <=? now s)%Z.
  - pose proof (StartLaws4.cache_delete_hsame s k) as H1. destruct (cache_delete s k) as [s1 ok]. cbn [fst] in H1.
    eapply StartLaws4.hsame_trans; [exact H1 | apply IH].
  - pose proof (IH s) as H1. destruct (fire s t) as [s1 rest]. exact H1.
Qed.

Lemma fire_due_hsame s : StartLaws4.hsame s (fire_due s).
Proof.
  unfold fire_due. pose proof (fire_hsame (pending s) (set_pending s [])) as [H1 H2].
  destruct (fire (set_pending s []) (pending s)) as [s1 rest]. cbn [fst] in *. split; [exact H1 | exact H2].
Qed.

Theorem moves_obs w r k rc :
  ob_start (snd (step w (HReq r))) = Some (k, rc) ->
  r_ip rc = rq_addr r /\ r_ua rc = rq_ua r /\ r_access rc = now (w_st w).
Proof.
  cbn [step]. set (s1 := set_tb (set_plan (set_evs (w_st w) []) (rq_plan r)) (rq_tb r)).
  set (q := mkReq _ (rq_create r) (rq_addr r) (rq_ua r)).
  destruct (start s1 q) as [[s2 res] cks] eqn:E.
  destruct res as [[o|]|e|e].
  - destruct (StartLaws4.start_moves _ _ _ _ _ E) as [(ob & Ho & Hip & Hua & Hac) Hn].
    destruct (fire_due_hsame s2) as [Hh _].
    destruct (run_script (fire_due s2) o (had_cookie q) (rq_script r)) as [[s3 sr] cks'].
    destruct (rq_crash r); [destruct (fold_left _ _ _); discriminate|].
    cbn [snd mk_obs ob_start]. unfold handle_view, hget. rewrite Hh. fold (hget s2 o). rewrite Ho.
    intro H. injection H as _ <-. split; [exact Hip|]. split; [exact Hua|]. rewrite Hac, Hn. reflexivity.
  - destruct (rq_crash r); [destruct (fold_left _ _ _)|]; discriminate.
  - destruct (rq_crash r); [destruct (fold_left _ _ _)|]; discriminate.
  - destruct (rq_crash r); [destruct (fold_left _ _ _)|]; discriminate.
Qed.

(* ------------------------------------------------------------- examples *)

Module Ex8.
  Definition cfgE : cfg := mkCfg 1000 1000 100 1000 10 3 false false.
  Definition h1 : list hop :=
    [HReq (mkReqStep 1 PJar true (V4 10 0 0 1 5) 7 [SSet 1 2] [] [] None)].
  Definition forged (v : cval) (cr : bool) : reqstep := mkReqStep 2 (PForge v) cr (V4 10 0 0 1 5) 7 [] [] [] None.

  (* junk, a not yet issued ID: unknown_obs applies *)
  Example unknown_junk :
    ob_res (snd (step (reach cfgE h1) (HReq (forged (CKey (KJunk 5)) false)))) = RNone /\
    ob_cookies (snd (step (reach cfgE h1) (HReq (forged (CKey (KJunk 5)) false)))) = [CkDelete].
  Proof.
    pose proof (unknown_obs cfgE h1 (forged (CKey (KJunk 5)) false) (KJunk 5)
                  ltac:(repeat constructor) ltac:(repeat constructor) eq_refl eq_refl eq_refl
                  (junk_unknown cfgE h1 5 ltac:(repeat constructor))) as H.
    cbv zeta in H. cbn [rq_create forged] in H. destruct H as (A & _ & _ & _ & B & _). split; assumption.
  Qed.

  Example unknown_next :
    ob_res (snd (step (reach cfgE h1) (HReq (forged (CKey (KGen 1)) true)))) = RSess /\
    exists rc, ob_start (snd (step (reach cfgE h1) (HReq (forged (CKey (KGen 1)) true)))) = Some (KGen 1, rc).
  Proof.
    assert (Hu : L (w_st (reach cfgE h1)) (KGen 1) = None).
    { apply undrawn_unknown; [repeat constructor | vm_compute; discriminate]. }
    pose proof (unknown_obs cfgE h1 (forged (CKey (KGen 1)) true) (KGen 1)
                  ltac:(repeat constructor) ltac:(repeat constructor) eq_refl eq_refl eq_refl Hu) as H.
    cbv zeta in H. cbn [rq_create forged] in H. destruct H as (A & B & _).
    split; [exact A|]. eexists. exact B.
  Qed.

  (* the session's ID presented with another agent: anomaly_dead_hist applies *)
  Definition bad_agent : reqstep := mkReqStep 2 (PForge (CKey (KGen 0))) false (V4 10 0 0 1 5) 8 [] [] [] None.
  Example anomaly_applies :
    forall hs2, Forall ff_hop hs2 ->
      L (w_st (after (fst (step (reach cfgE h1) (HReq bad_agent))) hs2)) (KGen 0) = None.
  Proof.
    intros hs2 H2.
    destruct (anomaly_dead_hist cfgE h1 bad_agent hs2 (KGen 0) (mkRec 0 0 (V4 10 0 0 1 5) 7 None None (Some [(1%N, 2%N)]))
                ltac:(repeat constructor) eq_refl eq_refl H2 eq_refl eq_refl (or_intror eq_refl))
      as (_ & _ & _ & A & _).
    exact A.
  Qed.

  (* a legitimate change (last octet, port) moves the session along *)
  Example moves_applies :
    ob_start (snd (step (reach cfgE h1) (HReq (mkReqStep 1 PJar false (V4 10 0 0 99 6) 7 [] [] [] None)))) =
    Some (KGen 0, mkRec 0 0 (V4 10 0 0 99 6) 7 None None (Some [(1%N, 2%N)])).
  Proof. vm_compute. reflexivity. Qed.
End Ex8.
