(* Audit task A5, C07, part 5: replaced-ID records are immutable, so the lineage
   taken when a session ends contains every chain that existed earlier.

   ref_fate            a replaced-ID record k -> j, in any state satisfying LI:
                       after every fault-free, crash-free history, k resolves to
                       nothing or still to a replaced-ID record naming j. It is
                       never re-pointed and never becomes a session's record.
   chain_into_lineage  if at an earlier point k led through replaced-ID records
                       k -> a1 -> ... -> am to am, and at the later point where
                       the session has ended am is in the lineage of the ended ID
                       kn, then so is k (each link is still there, or gone).

   The life of an ID is therefore: a session's own ID, then (RegenerateID, the
   only producer of such records: eff_repl of HistLift2.v) a replaced-ID record
   naming the session's next ID, then gone, and gone for good (C07_stays_dead).
   The lineage of Proofs/Lineage4.v, taken at the moment the session ends, is
   closed under everything that was ever linked to it.

   The first section is the generic step theorem for any predicate riding with
   C05H's LI on the lifting of HistLift3.v.

   No axioms; standard library only. *)
From Sessions Require Import Model.Base Model.Sess Model.Hist Proofs.SessDefs
  Proofs.HistInv Proofs.HistInv2 Proofs.HistInv3 Proofs.HistLift Proofs.HistLift2 Proofs.HistLift3
  Proofs.HistLift4 Proofs.HistLift6 Proofs.DeadLaws Proofs.Lineage Proofs.Lineage4.
From Coq Require Import Lia.

Section Ride.
  Variable QX : st -> Prop.
  Hypothesis QX_same : forall s s', (forall k, sref s' k = sref s k) -> supply s' = supply s -> QX s -> QX s'.
  Hypothesis QX_new : forall s s' k, eff_new s s' k -> QX s -> QX s'.
  Hypothesis QX_repl : forall s s' k, eff_repl s s' k -> QX s -> QX s'.
  Hypothesis QX_del : forall s s' k, eff_del s s' k -> QX s -> QX s'.
  Hypothesis QX_fire : forall s s', eff_fire s s' -> QX s -> QX s'.

  Definition Q2 (s : st) : Prop := Q0 s /\ QX s.

  Lemma Q2_qt s s' : qt s s' -> Q2 s -> Q2 s'.
  Proof.
    intros Qt [A B]. split; [eapply Q0_qt; eassumption|].
    eapply QX_same; [exact (qt_sref _ _ Qt) | exact (qt_supply _ _ Qt) | exact B].
  Qed.
  Lemma Q2_new s s' k : eff_new s s' k -> Q2 s -> Q2 s'.
  Proof. intros E [A B]. split; [eapply Q0_new | eapply QX_new]; eassumption. Qed.
  Lemma Q2_repl s s' k : eff_repl s s' k -> Q2 s -> Q2 s'.
  Proof. intros E [A B]. split; [eapply Q0_repl | eapply QX_repl]; eassumption. Qed.
  Lemma Q2_del s s' k : eff_del s s' k -> DEL0 s k -> Q2 s -> Q2 s'.
  Proof. intros E Hd [A B]. split; [eapply Q0_del | eapply QX_del]; eassumption. Qed.
  Lemma Q2_fire s s' : eff_fire s s' -> FOK0 (now s) -> Q2 s -> Q2 s'.
  Proof. intros E Hf [A B]. split; [eapply Q0_fire | eapply QX_fire]; eassumption. Qed.
  Lemma Q2_same s s' : (forall k, sref s' k = sref s k) -> pending s' = pending s -> supply s' = supply s ->
    Q2 s -> Q2 s'.
  Proof. intros Hs Hp Hn [A B]. split; [eapply Q0_same | eapply QX_same]; eassumption. Qed.

  Definition LX (s : st) : Prop := GW Q2 s.

  Lemma LI_LX s : LI s -> QX s -> LX s.
  Proof. intros (W & K & P & A) B. split; [exact W|]. split; [exact K|]. split; [exact P | split; assumption]. Qed.

  Lemma LX_QX s : LX s -> QX s.
  Proof. intros (_ & _ & _ & [_ B]). exact B. Qed.

  Lemma LX_LI s : LX s -> LI s.
  Proof. intros (W & K & P & [A _]). split; [exact W|]. split; [exact K|]. split; [exact P | exact A]. Qed.

  Theorem LX_step w h : LX (w_st w) -> ff_hop h -> crash_free h -> LX (w_st (fst (step w h))).
  Proof.
    intros Hl Hff Hcf. destruct h as [r|d|tbl pl| | |u tbl pl|u tbl pl|c].
    - apply (step_req_GW Q2 DEL0 FOK0 Q2_qt Q2_new Q2_repl Q2_del Q2_fire w r Hl Hff Hcf Logic.I).
      + intros; exact Logic.I.
      + intros o _ s ob _ _ _. exact Logic.I.
    - destruct Hl as (W & K & P & Hq). cbn [step fst w_st].
      set (s0 := set_now (set_evs (w_st w) []) (now (set_evs (w_st w) []) + d)).
      assert (G0 : G Q2 (supply (w_st w), []) s0).
      { split; [apply inv_set_now; exact W|]. split; [eapply Kcs_same; [| | |exact K]; reflexivity|].
        split; [intros d' k Hin; exact (P d' k Hin) | eapply Q2_same; [| | |exact Hq]; reflexivity]. }
      destruct (fire_due_G Q2 FOK0 Q2_fire _ _ G0 Logic.I) as (G1 & _).
      exact (G_GW' _ _ _ G1).
    - apply (step_gen_GW Q2 FOK0 Q2_qt Q2_fire w _ Hl Hff Logic.I Logic.I).
    - apply (step_gen_GW Q2 FOK0 Q2_qt Q2_fire w _ Hl Hff Logic.I Logic.I).
    - destruct Hl as (W & K & P & [[R Kq] Hx]). cbn [step fst w_st].
      split; [eapply winv_of_inv'; unfold restart; apply inv_set_pending; [apply inv_set_cache_nil; exact W | intros d k []]|].
      split; [intros k o ob Hl; discriminate|]. split; [intros d k []|].
      split; [split; [exact R | constructor]|]. eapply QX_same; [| |exact Hx]; reflexivity.
    - apply (step_gen_GW Q2 FOK0 Q2_qt Q2_fire w _ Hl Hff Logic.I Logic.I).
    - apply (step_gen_GW Q2 FOK0 Q2_qt Q2_fire w _ Hl Hff Logic.I Logic.I).
    - destruct Hl as (W & K & P & Hq). cbn [step fst w_st].
      split; [eapply winv_of_inv'; apply inv_set_conf; exact W|].
      split; [eapply Kcs_same; [| | |exact K]; reflexivity|].
      split; [intros d' k Hin; exact (P d' k Hin) | eapply Q2_same; [| | |exact Hq]; reflexivity].
  Qed.

  Theorem LX_after : forall hs w, LX (w_st w) -> Forall ff_hop hs -> Forall crash_free hs -> LX (w_st (after w hs)).
  Proof.
    induction hs as [|h t IH]; intros w Hl Hff Hcf; cbn [after]; [exact Hl|].
    inversion Hff; inversion Hcf; subst. apply IH; [apply LX_step; assumption | assumption | assumption].
  Qed.
End Ride.

(* ------------------------------------------- one replaced-ID record *)

Section Imm.
  Variables k0 j0 : key.

  Definition QI (s : st) : Prop :=
    kd (supply s) k0 /\ (sref s k0 = None \/ sref s k0 = Some (Some j0)).

  Lemma QI_not_sess s : QI s -> sref s k0 <> Some None.
  Proof. intros [_ [H|H]] E; rewrite E in H; discriminate. Qed.

  Lemma QI_not_fresh s : QI s -> k0 <> KGen (supply s).
  Proof. intros [H _] E. rewrite E in H. cbn [kd] in H. lia. Qed.

  Lemma QI_same s s' : (forall k, sref s' k = sref s k) -> supply s' = supply s -> QI s -> QI s'.
  Proof. intros Hs Hn H. unfold QI. rewrite Hs, Hn. exact H. Qed.

  Lemma QI_new s s' k : eff_new s s' k -> QI s -> QI s'.
  Proof.
    intros E H. pose proof (QI_not_fresh s H) as Hnf. destruct H as [Hk Hd]. split.
    - eapply kd_mono; [|exact Hk]. rewrite (en_supply _ _ _ E). lia.
    - rewrite (en_oth _ _ _ E); [exact Hd|]. rewrite (en_key _ _ _ E). exact Hnf.
  Qed.

  Lemma QI_repl s s' old : eff_repl s s' old -> QI s -> QI s'.
  Proof.
    intros E H. pose proof (QI_not_fresh s H) as Hnf. pose proof (QI_not_sess s H) as Hns. destruct H as [Hk Hd]. split.
    - eapply kd_mono; [|exact Hk]. rewrite (er_supply _ _ _ E). lia.
    - rewrite (er_oth _ _ _ E); [exact Hd | | exact Hnf].
      intro Heq. apply Hns. rewrite Heq. exact (er_old _ _ _ E).
  Qed.

  Lemma QI_del s s' k : eff_del s s' k -> QI s -> QI s'.
  Proof.
    intros E [Hk Hd]. split; [rewrite (ed_supply _ _ _ E); exact Hk|].
    destruct (key_eq_dec k0 k) as [->|Hne]; [left; exact (ed_gone _ _ _ E)|].
    rewrite (ed_oth _ _ _ E) by exact Hne. exact Hd.
  Qed.

  Lemma QI_fire s s' : eff_fire s s' -> QI s -> QI s'.
  Proof.
    intros E [Hk Hd]. split; [rewrite (ef_supply _ _ E); exact Hk|].
    destruct (ef_sref _ _ E k0) as [->|[H _]]; [exact Hd | left; exact H].
  Qed.
End Imm.

Lemma LI_stored_drawn s k x : LI s -> sref s k = Some x -> key_drawn s k.
Proof.
  intros (W & _) Hs. destruct (winv_sessdefs _ _ _ W) as (_ & _ & _ & (_ & Hfs & _)).
  unfold sref in Hs. destruct (lookup (store s) k) as [r|] eqn:Hst; [|discriminate].
  apply lookup_In in Hst. apply (Hfs k r Hst).
Qed.

Lemma LI_Lref_iff s k x : LI s -> ((exists r, L s k = Some r /\ r_ref r = x) <-> sref s k = Some x).
Proof.
  intros Hl. pose proof Hl as (W & K & _). destruct (winv_sessdefs _ _ _ W) as (_ & Hc & _).
  apply L_sref; assumption.
Qed.

Lemma LI_L_none s k : LI s -> (L s k = None <-> sref s k = None).
Proof.
  intros Hl. pose proof Hl as (W & K & _). destruct (winv_sessdefs _ _ _ W) as (_ & Hc & _). split.
  - apply L_none_sref. exact Hc.
  - intro Hs. destruct (L s k) as [r|] eqn:HL; [|reflexivity]. exfalso.
    assert (H : sref s k = Some (r_ref r)) by (apply (LI_Lref_iff s k (r_ref r) Hl); exists r; split; [exact HL | reflexivity]).
    rewrite Hs in H. discriminate.
Qed.

(* A replaced-ID record is never re-pointed and never becomes a session: it
   stays what it is, or disappears. *)
Theorem ref_fate w hs k j r :
  LI (w_st w) -> L (w_st w) k = Some r -> r_ref r = Some j -> Forall ff_hop hs -> Forall crash_free hs ->
  LI (w_st (after w hs)) /\ key_drawn (w_st (after w hs)) k /\
  (L (w_st (after w hs)) k = None \/ exists r', L (w_st (after w hs)) k = Some r' /\ r_ref r' = Some j).
Proof.
  intros Hl HL Hr Hff Hcf.
  assert (Hs : sref (w_st w) k = Some (Some j)) by (apply (LI_Lref_iff _ k (Some j) Hl); exists r; split; assumption).
  assert (H0 : LX (QI k j) (w_st w)).
  { apply LI_LX; [exact Hl|]. split; [exact (LI_stored_drawn _ _ _ Hl Hs) | right; exact Hs]. }
  pose proof (LX_after (QI k j) (QI_same k j) (QI_new k j) (QI_repl k j) (QI_del k j) (QI_fire k j) hs w H0 Hff Hcf) as H1.
  pose proof (LX_LI _ _ H1) as Hl'. split; [exact Hl'|].
  destruct (LX_QX _ _ H1) as [Hk Hd]. split; [exact Hk|].
  destruct Hd as [Hd|Hd]; [left; apply (LI_L_none _ k Hl'); exact Hd | right].
  apply (LI_Lref_iff _ k (Some j) Hl'). exact Hd.
Qed.

(* a chain of replaced-ID records in state s: k -> a1 -> ... -> am *)
Inductive rchain (s : st) : key -> key -> Prop :=
| rc_here k : rchain s k k
| rc_step k r t m : L s k = Some r -> r_ref r = Some t -> rchain s t m -> rchain s k m.

(* Every chain that existed at an earlier point is absorbed by the lineage taken
   later: if its end is in the lineage of kn then, so is its beginning. *)
Theorem chain_into_lineage w hs kn k m :
  LI (w_st w) -> Forall ff_hop hs -> Forall crash_free hs ->
  rchain (w_st w) k m -> lineage (w_st (after w hs)) kn m -> lineage (w_st (after w hs)) kn k.
Proof.
  intros Hl Hff Hcf Hch Hm. induction Hch as [k|k r t m HL Hr Hch IH]; [exact Hm|].
  destruct (ref_fate w hs k t r Hl HL Hr Hff Hcf) as (_ & Hk & [Hg|(r' & HL' & Hr')]).
  - apply lin_gone; assumption.
  - eapply lin_ref; [exact HL' | exact Hr' | apply IH; exact Hm].
Qed.
