(* C19K, part 2: the inductive invariant of the system as the code is (clock
   read under the mutex): who may be inside the critical section, how the
   shared pair relates to the serial reference at every program point, and that
   the instants used are taken in the order of the critical sections. *)
From Sessions Require Import Model.Base Model.Ids Model.Mutex Model.CuidConc Gen.Consts
  Proofs.MutexBasics Proofs.CuidConc.
From Coq Require Import Lia.

Definition ret_of (p : phase) : option (Z * bytes) :=
  match p with PRet c id | PDone c id => Some (c, id) | _ => None end.

Lemma returned_iff cs g c id :
  returned cs g c id <-> exists p, nth_error (k_ph cs) g = Some p /\ ret_of p = Some (c, id).
Proof.
  unfold returned. split.
  - intros [H|H]; eexists; (split; [exact H | reflexivity]).
  - intros (p & H & R). destruct p; try discriminate; injection R as -> ->; [left | right]; exact H.
Qed.

Lemma ret_upd_keep (ph : list phase) g q p' g1 x :
  nth_error ph g = Some q -> (ret_of q = None \/ ret_of p' = ret_of q) ->
  (exists p, nth_error ph g1 = Some p /\ ret_of p = Some x) ->
  exists p, nth_error (upd g p' ph) g1 = Some p /\ ret_of p = Some x.
Proof.
  intros Hq Hr (p & Hp & Rp). destruct (Nat.eq_dec g g1) as [<-|Hne].
  - rewrite Hq in Hp; injection Hp as <-. exists p'. split; [apply (nth_error_upd_same _ _ _ _ Hq)|].
    destruct Hr as [Hr|Hr]; congruence.
  - exists p. split; [rewrite nth_error_upd_other by exact Hne; exact Hp | exact Rp].
Qed.

Ltac conj_solve := repeat (split; [first [reflexivity | assumption]|]); first [reflexivity | assumption].

Section Inv.
  Variables (mac : bytes) (st0 : cuid_state) (c0 : Z) (K : nat).

  (* an instant read by the goroutine inside the critical section *)
  Definition fresh (clk : Z) (log : list (nat * Z)) (c : Z) : Prop :=
    (c <= clk)%Z /\ (c0 <= c)%Z /\ forall x, In x log -> (snd x <= c)%Z.

  Definition ph_ok (m : option nat) (last : cuid_state) (clk : Z) (log : list (nat * Z))
      (g : nat) (p : phase) : Prop :=
    let S := fst (serial mac st0 log) in
    let res := snd (serial mac st0 log) in
    match p with
    | PIdle => True
    | PHeld => m = Some g /\ last = S
    | PNow _ => False
    | PRead c => m = Some g /\ last = S /\ fresh clk log c
    | PCmp c same => m = Some g /\ last = S /\ fresh clk log c /\ same = (ts_at c =? cs_last_time S)%N
    | PCnt c => m = Some g /\ fresh clk log c /\
        last = {| cs_last_time := cs_last_time S;
                  cs_last_counter := if (ts_at c =? cs_last_time S)%N then u64 (cs_last_counter S + 1) else lit 5 |}
    | PSet c => m = Some g /\ fresh clk log c /\ last = fst (cuid_at mac S c)
    | PRet c id => m = Some g /\ last = S /\ In (g, c, id) res
    | PDone c id => In (g, c, id) res
    end.

  (* newest first: non-increasing, everything between c0 and hi *)
  Fixpoint desc (hi : Z) (l : list Z) : Prop :=
    match l with
    | [] => True
    | c :: r => (c0 <= c <= hi)%Z /\ desc c r
    end.

  Record CI (cs : cstate) : Prop := mkCI {
    ci_len : length (k_ph cs) = K;
    ci_clk : (c0 <= k_clock cs)%Z;
    ci_ph : forall g p, nth_error (k_ph cs) g = Some p ->
              ph_ok (k_mutex cs) (k_last cs) (k_clock cs) (k_log cs) g p;
    ci_free : k_mutex cs = None -> k_last cs = fst (serial mac st0 (k_log cs));
    ci_holder : forall g, k_mutex cs = Some g -> exists p, nth_error (k_ph cs) g = Some p /\ held p = true;
    ci_desc : desc (k_clock cs) (map snd (k_log cs));
    ci_res : forall g c id, In (g, c, id) (snd (serial mac st0 (k_log cs))) ->
               exists p, nth_error (k_ph cs) g = Some p /\ ret_of p = Some (c, id);
    ci_nodup : NoDup (map fst (k_log cs)) }.

  Lemma CI_meaning cs :
    CI cs <->
    length (k_ph cs) = K /\ (c0 <= k_clock cs)%Z /\
    (forall g p, nth_error (k_ph cs) g = Some p ->
       ph_ok (k_mutex cs) (k_last cs) (k_clock cs) (k_log cs) g p) /\
    (k_mutex cs = None -> k_last cs = fst (serial mac st0 (k_log cs))) /\
    (forall g, k_mutex cs = Some g -> exists p, nth_error (k_ph cs) g = Some p /\ held p = true) /\
    desc (k_clock cs) (map snd (k_log cs)) /\
    (forall g c id, In (g, c, id) (snd (serial mac st0 (k_log cs))) ->
       exists p, nth_error (k_ph cs) g = Some p /\ ret_of p = Some (c, id)) /\
    NoDup (map fst (k_log cs)).
  Proof.
    split.
    - intros [H1 H2 H3 H4 H5 H6 H7 H8].
      exact (conj H1 (conj H2 (conj H3 (conj H4 (conj H5 (conj H6 (conj H7 H8))))))).
    - intros (H1 & H2 & H3 & H4 & H5 & H6 & H7 & H8). constructor; assumption.
  Qed.

  Lemma ph_ok_meaning m last clk log g :
    let S := fst (serial mac st0 log) in
    let res := snd (serial mac st0 log) in
    (ph_ok m last clk log g PIdle <-> True) /\
    (ph_ok m last clk log g PHeld <-> m = Some g /\ last = S) /\
    (forall c, ph_ok m last clk log g (PNow c) <-> False) /\
    (forall c, ph_ok m last clk log g (PRead c) <-> m = Some g /\ last = S /\ fresh clk log c) /\
    (forall c same, ph_ok m last clk log g (PCmp c same) <->
       m = Some g /\ last = S /\ fresh clk log c /\ same = (ts_at c =? cs_last_time S)%N) /\
    (forall c, ph_ok m last clk log g (PCnt c) <->
       m = Some g /\ fresh clk log c /\
       last = {| cs_last_time := cs_last_time S;
                 cs_last_counter := if (ts_at c =? cs_last_time S)%N then u64 (cs_last_counter S + 1) else lit 5 |}) /\
    (forall c, ph_ok m last clk log g (PSet c) <-> m = Some g /\ fresh clk log c /\ last = fst (cuid_at mac S c)) /\
    (forall c id, ph_ok m last clk log g (PRet c id) <-> m = Some g /\ last = S /\ In (g, c, id) res) /\
    (forall c id, ph_ok m last clk log g (PDone c id) <-> In (g, c, id) res) /\
    (forall c, fresh clk log c <-> (c <= clk)%Z /\ (c0 <= c)%Z /\ forall x, In x log -> (snd x <= c)%Z) /\
    (forall hi, desc hi [] <-> True) /\
    (forall hi c r, desc hi (c :: r) <-> (c0 <= c <= hi)%Z /\ desc c r).
  Proof. cbv zeta. repeat match goal with |- _ /\ _ => split end; intros; apply iff_refl. Qed.

  Lemma desc_weaken hi hi' l : desc hi l -> (hi <= hi')%Z -> desc hi' l.
  Proof. destruct l as [|c r]; [auto|]. cbn [desc]. intros [H1 H2] H. split; [lia | exact H2]. Qed.

  Lemma desc_in hi l c : desc hi l -> In c l -> (c0 <= c <= hi)%Z.
  Proof.
    revert hi; induction l as [|x r IH]; intros hi H Hin; [destruct Hin|].
    cbn [desc] in H. destruct H as [H1 H2]. destruct Hin as [<-|Hin]; [exact H1|].
    specialize (IH _ H2 Hin). lia.
  Qed.

  Lemma desc_lower hi l c : desc hi l -> (forall x, In x l -> (x <= c)%Z) -> desc c l.
  Proof.
    destruct l as [|x r]; [auto|]. cbn [desc]. intros [H1 H2] H. split; [|exact H2].
    specialize (H x (or_introl eq_refl)). lia.
  Qed.

  (* a goroutine that does not hold the mutex is not affected by what the
     holder does to the shared pair, the clock, or by a longer log *)
  Lemma ph_ok_frame m last clk log m' last' clk' log' g p :
    ph_ok m last clk log g p -> m <> Some g ->
    (forall x, In x (snd (serial mac st0 log)) -> In x (snd (serial mac st0 log'))) ->
    ph_ok m' last' clk' log' g p.
  Proof.
    destruct p; cbn [ph_ok]; intros H Hm Hincl; try exact I; try contradiction;
      try (destruct H as [E _]; contradiction).
    apply Hincl, H.
  Qed.

  Lemma cinit_ci : CI (cinit st0 c0 K).
  Proof.
    constructor; cbn [cinit k_ph k_mutex k_last k_clock k_log].
    - apply repeat_length.
    - lia.
    - intros g p Hp. apply nth_error_In, repeat_spec in Hp. subst p. exact I.
    - reflexivity.
    - discriminate.
    - exact I.
    - intros g c id [].
    - constructor.
  Qed.

  (* a step of the goroutine holding the mutex that keeps mutex and log *)
  Lemma ci_inner cs g q p' last' :
    CI cs -> nth_error (k_ph cs) g = Some q -> k_mutex cs = Some g ->
    held p' = true -> ret_of q = None -> ret_of p' = None ->
    ph_ok (Some g) last' (k_clock cs) (k_log cs) g p' ->
    CI (mkK (k_mutex cs) last' (k_clock cs) (upd g p' (k_ph cs)) (k_log cs)).
  Proof.
    intros HI Hq Hm Hheld Rq Rp Hok.
    constructor; cbn [k_ph k_mutex k_last k_clock k_log].
    - rewrite upd_length. apply (ci_len _ HI).
    - apply (ci_clk _ HI).
    - intros g' p'' Hp'. destruct (Nat.eq_dec g g') as [<-|Hne].
      + rewrite (nth_error_upd_same _ _ _ _ Hq) in Hp'. injection Hp' as <-. rewrite Hm. exact Hok.
      + rewrite nth_error_upd_other in Hp' by exact Hne.
        eapply ph_ok_frame; [exact (ci_ph _ HI _ _ Hp') | rewrite Hm; congruence | auto].
    - rewrite Hm. discriminate.
    - intros g' Hg'. rewrite Hm in Hg'. injection Hg' as <-. exists p'.
      split; [apply (nth_error_upd_same _ _ _ _ Hq) | exact Hheld].
    - apply (ci_desc _ HI).
    - intros g1 c1 id1 Hin. apply (ret_upd_keep _ _ q); [exact Hq | left; exact Rq | apply (ci_res _ HI), Hin].
    - apply (ci_nodup _ HI).
  Qed.

  Lemma ci_step cs lab cs' :
    CI cs -> cstep false true mac cs lab = Some cs' -> CI cs'.
  Proof.
    intros HI H.
    destruct lab as [g|g|g|g|g|g|g|d]; cbn [cstep] in H;
      try (destruct (nth_error (k_ph cs) g) as [q|] eqn:Hq; [|discriminate]).
    - (* CAcq *)
      destruct q; try discriminate. destruct (k_mutex cs) eqn:Hm; [discriminate|].
      injection H as <-.
      constructor; cbn [k_ph k_mutex k_last k_clock k_log].
      + rewrite upd_length. apply (ci_len _ HI).
      + apply (ci_clk _ HI).
      + intros g' p'' Hp'. destruct (Nat.eq_dec g g') as [<-|Hne].
        * rewrite (nth_error_upd_same _ _ _ _ Hq) in Hp'. injection Hp' as <-. cbn [ph_ok].
          split; [reflexivity | apply (ci_free _ HI), Hm].
        * rewrite nth_error_upd_other in Hp' by exact Hne.
          eapply ph_ok_frame; [exact (ci_ph _ HI _ _ Hp') | rewrite Hm; discriminate | auto].
      + discriminate.
      + intros g' Hg'. injection Hg' as <-. exists PHeld.
        split; [apply (nth_error_upd_same _ _ _ _ Hq) | reflexivity].
      + apply (ci_desc _ HI).
      + intros g1 c1 id1 Hin. apply (ret_upd_keep _ _ PIdle); [exact Hq | left; reflexivity | apply (ci_res _ HI), Hin].
      + apply (ci_nodup _ HI).
    - (* CNow *)
      destruct q; try discriminate. injection H as <-.
      pose proof (ci_ph _ HI _ _ Hq) as Hok. cbn [ph_ok] in Hok. destruct Hok as [Hm Hl].
      apply (ci_inner _ _ PHeld); auto. cbn [ph_ok]. repeat split; auto.
      + lia.
      + apply (ci_clk _ HI).
      + intros x Hx. apply (desc_in _ _ _ (ci_desc _ HI)), in_map, Hx.
    - (* CCmp *)
      destruct q; try discriminate. injection H as <-.
      pose proof (ci_ph _ HI _ _ Hq) as Hok. cbn [ph_ok] in Hok. destruct Hok as (Hm & Hl & Hf).
      apply (ci_inner _ _ (PRead c)); auto. cbn [ph_ok]. rewrite <- Hl. conj_solve.
    - (* CCnt *)
      destruct q; try discriminate. injection H as <-.
      pose proof (ci_ph _ HI _ _ Hq) as Hok. cbn [ph_ok] in Hok. destruct Hok as (Hm & Hl & Hf & Hs).
      apply (ci_inner _ _ (PCmp c same)); auto. cbn [ph_ok]. subst same. rewrite Hl. conj_solve.
    - (* CSet *)
      destruct q; try discriminate. injection H as <-.
      pose proof (ci_ph _ HI _ _ Hq) as Hok. cbn [ph_ok] in Hok. destruct Hok as (Hm & Hf & Hl).
      apply (ci_inner _ _ (PCnt c)); auto. cbn [ph_ok]. rewrite Hl. conj_solve.
    - (* CAsm *)
      destruct q; try discriminate. injection H as <-.
      pose proof (ci_ph _ HI _ _ Hq) as Hok. cbn [ph_ok] in Hok. destruct Hok as (Hm & (Hf1 & Hf2 & Hf3) & Hl).
      set (S0 := fst (serial mac st0 (k_log cs))) in *.
      assert (Hid : cuid_string (cuid_bits mac (ts_at c) (cs_last_counter (k_last cs))) = snd (cuid_at mac S0 c))
        by (rewrite Hl; reflexivity).
      rewrite Hid.
      assert (Hnew : ~ In g (map fst (k_log cs))).
      { intro Hin. rewrite <- (serial_log mac st0 (k_log cs)), map_map in Hin.
        apply in_map_iff in Hin. destruct Hin as ([[g1 c1] id1] & E & Hin). cbn [fst] in E. subst g1.
        destruct (ci_res _ HI _ _ _ Hin) as (p & Hp & Rp). rewrite Hq in Hp. injection Hp as <-. discriminate. }
      constructor; cbn [k_ph k_mutex k_last k_clock k_log].
      + rewrite upd_length. apply (ci_len _ HI).
      + apply (ci_clk _ HI).
      + intros g' p'' Hp'. destruct (Nat.eq_dec g g') as [<-|Hne].
        * rewrite (nth_error_upd_same _ _ _ _ Hq) in Hp'. injection Hp' as <-. cbn [ph_ok serial fst snd].
          fold S0. split; [exact Hm|]. split; [exact Hl | left; reflexivity].
        * rewrite nth_error_upd_other in Hp' by exact Hne.
          eapply ph_ok_frame; [exact (ci_ph _ HI _ _ Hp') | rewrite Hm; congruence |].
          intros x Hx. cbn [serial snd]. right. exact Hx.
      + rewrite Hm. discriminate.
      + intros g' Hg'. rewrite Hm in Hg'. injection Hg' as <-. eexists.
        split; [apply (nth_error_upd_same _ _ _ _ Hq) | reflexivity].
      + cbn [map snd desc]. split; [lia|].
        apply (desc_lower (k_clock cs)); [apply (ci_desc _ HI)|].
        intros x Hx. apply in_map_iff in Hx. destruct Hx as (y & <- & Hy). apply Hf3, Hy.
      + intros g1 c1 id1 Hin. cbn [serial snd fst] in Hin. fold S0 in Hin. destruct Hin as [E|Hin].
        * injection E as <- <- <-. eexists. split; [apply (nth_error_upd_same _ _ _ _ Hq) | reflexivity].
        * apply (ret_upd_keep _ _ (PSet c)); [exact Hq | left; reflexivity | apply (ci_res _ HI), Hin].
      + cbn [map fst]. constructor; [exact Hnew | apply (ci_nodup _ HI)].
    - (* CRel *)
      destruct q; try discriminate. destruct (k_mutex cs) eqn:Hm0; [|discriminate]. injection H as <-.
      pose proof (ci_ph _ HI _ _ Hq) as Hok. cbn [ph_ok] in Hok. destruct Hok as (Hm & Hl & Hin).
      constructor; cbn [k_ph k_mutex k_last k_clock k_log].
      + rewrite upd_length. apply (ci_len _ HI).
      + apply (ci_clk _ HI).
      + intros g' p'' Hp'. destruct (Nat.eq_dec g g') as [<-|Hne].
        * rewrite (nth_error_upd_same _ _ _ _ Hq) in Hp'. injection Hp' as <-. cbn [ph_ok]. exact Hin.
        * rewrite nth_error_upd_other in Hp' by exact Hne.
          eapply ph_ok_frame; [exact (ci_ph _ HI _ _ Hp') | rewrite Hm; congruence | auto].
      + intros _. exact Hl.
      + discriminate.
      + apply (ci_desc _ HI).
      + intros g1 c1 id1 Hin1. apply (ret_upd_keep _ _ (PRet c id)); [exact Hq | right; reflexivity | apply (ci_res _ HI), Hin1].
      + apply (ci_nodup _ HI).
    - (* CTick *)
      injection H as <-.
      constructor; cbn [k_ph k_mutex k_last k_clock k_log].
      + apply (ci_len _ HI).
      + pose proof (ci_clk _ HI). lia.
      + intros g p Hp. pose proof (ci_ph _ HI _ _ Hp) as Hok.
        destruct p; cbn [ph_ok] in *; auto; unfold fresh in *;
          repeat match goal with H : _ /\ _ |- _ => destruct H end; repeat split; auto; lia.
      + apply (ci_free _ HI).
      + apply (ci_holder _ HI).
      + apply (desc_weaken (k_clock cs)); [apply (ci_desc _ HI) | lia].
      + apply (ci_res _ HI).
      + apply (ci_nodup _ HI).
  Qed.

  Lemma ci_run ls : forall cs cs', CI cs -> crun false true mac cs ls = Some cs' -> CI cs'.
  Proof.
    induction ls as [|lab r IH]; intros cs cs' HI H; simpl in H.
    - injection H as <-. exact HI.
    - destruct (cstep false true mac cs lab) as [mid|] eqn:E; [|discriminate].
      apply (IH mid); [apply (ci_step _ _ _ HI E) | exact H].
  Qed.

  (* mutual exclusion: at most one goroutine between Lock and the deferred Unlock *)
  Lemma ci_exclusive cs g1 g2 p1 p2 :
    CI cs -> nth_error (k_ph cs) g1 = Some p1 -> nth_error (k_ph cs) g2 = Some p2 ->
    held p1 = true -> held p2 = true -> g1 = g2.
  Proof.
    intros HI H1 H2 E1 E2.
    pose proof (ci_ph _ HI _ _ H1) as O1. pose proof (ci_ph _ HI _ _ H2) as O2.
    assert (M1 : k_mutex cs = Some g1) by (destruct p1; try discriminate; cbn [ph_ok] in O1; tauto).
    assert (M2 : k_mutex cs = Some g2) by (destruct p2; try discriminate; cbn [ph_ok] in O2; tauto).
    congruence.
  Qed.
End Inv.
