(* C08 at the level of histories, part 3 (C08L): the user a handler attached with
   LogIn survives the rest of the script and the loss of the cache.

   - the hypothesis "the record stored under the new ID is a session record" of
     UserHist2.login_then_request is derived from the reference-field clause of
     the history invariant LI (Proofs/HistLift*.v: hg s o says the handle is a
     session and the store holds a session record under its ID);
   - operations may follow the LogIn in the same script: as long as none of them
     is LogOut, LogIn or Destroy (keeps_user) the handler's session — whatever
     its ID is at the end of the script — is stored with the user's ID, and that
     is what a later request is handed after the cache was lost. *)
From Sessions Require Import Model.Base Model.Sess Model.Hist Proofs.SessDefs
  Proofs.HistInv Proofs.HistInv2 Proofs.HistInv3 Proofs.UserLaws Proofs.UserHist Proofs.UserHist2
  Proofs.HistLift Proofs.HistLift2 Proofs.HistLift3 Proofs.HistLift4 Proofs.HistLift5.
From Sessions Require Proofs.LiveHist4 Proofs.LiveHist6 Proofs.LiveHist8 Proofs.CrashFault3 Proofs.CrashRestart.
From Coq Require Import Lia.
Import LiveHist4.

(* ------------------------------------ more on the condition ust of UserLaws *)

Section UstMore.
  Variables (Ps Pm : option user -> Prop).
  Hypothesis Pcodec : forall c r, Pm (r_user r) -> Ps (r_user (codec c r)).

  (* changing fields other than the user of any object *)
  Lemma ust_hupd_user s o f k : (forall r, r_user (f r) = r_user r) -> ust Ps Pm s k -> ust Ps Pm (hupd s o f) k.
  Proof.
    intros Hf [HS HM]. split.
    - intros r. unfold hupd. destruct (hget s o); exact (HS r).
    - intros o' ob' Hl Ho'.
      assert (Hl' : lookup (cache s) k = Some o') by (unfold hupd in Hl; destruct (hget s o); exact Hl).
      rewrite hget_hupd in Ho'. destruct (Nat.eqb o o') eqn:E.
      + apply Nat.eqb_eq in E. subst o'. destruct (hget s o) as [ob|] eqn:Ho; [|discriminate].
        injection Ho' as <-. cbn [o_rec]. rewrite Hf. exact (HM o ob Hl' Ho).
      + exact (HM o' ob' Hl' Ho').
  Qed.

  (* a direct save under k of a record that satisfies the in-memory condition *)
  Lemma ust_saved_own s k r : Pm (r_user r) -> ust Ps Pm s k -> ust Ps Pm (saved s k r) k.
  Proof.
    intros HP [HS HM]. split.
    - intros r'. unfold saved. sst. rewrite lookup_upsert_same. intro E. injection E as <-. apply Pcodec. exact HP.
    - exact HM.
  Qed.
End UstMore.

(* --------------------------------------- the handle carries the user u *)

(* the object carries u, every stored record under its ID carries u's ID, and so
   does whatever is cached under its ID *)
Definition uh (u : user) (s : st) (o : nat) : Prop :=
  exists ob, hget s o = Some ob /\ r_user (o_rec ob) = Some u /\ ust (is_uid u) (is_usr u) s (o_id ob).

(* operations that leave the user attached *)
Definition keeps_user (op : sop) : bool :=
  match op with SLogIn _ _ | SLogOut | SDestroy => false | _ => true end.

Lemma hok_of_hget s o ob : hget s o = Some ob -> hok 0 ND s o.
Proof. intro Ho. split; [lia | exists ob; split; [exact Ho | intros []]]. Qed.

(* LogIn establishes it *)
Lemma login_uh base s o u ex ob : inv 0 base NX ND s -> hget s o = Some ob ->
  uh u (fst (fst (login s o u ex))) o.
Proof.
  intros I Ho. pose proof (hok_of_hget _ _ _ Ho) as H. unfold login.
  assert (Hpre : exists s1, (if ex then logout_user s (fst u) else let '(s0, _) := logout s o in (s0, Ok tt)) = (s1, Ok tt)
                            /\ inv 0 base NX ND s1 /\ ids_pres s s1).
  { destruct ex.
    - destruct (logout_user_inv _ _ _ _ (fst u) I) as (s1 & E & I1 & Hi). exists s1. auto.
    - destruct (logout_inv _ _ _ _ _ I H) as (s1 & E & I1 & Hi). exists s1. rewrite E. auto. }
  destruct Hpre as (s1 & E1 & I1 & Hi1). rewrite E1.
  destruct (Hi1 o ob Ho) as [ob1 [Ho1 Hid1]].
  set (ob2 := mkObj (o_id ob1) (set_user (o_rec ob1) (Some u))).
  set (s2 := hupd s1 o (fun r => set_user r (Some u))).
  assert (I2 : inv 0 base NX ND s2) by (apply inv_hupd; [exact I1 | reflexivity]).
  assert (Ho2 : hget s2 o = Some ob2) by (unfold s2; rewrite hget_hupd, Nat.eqb_refl, Ho1; reflexivity).
  assert (F2 : ffnd s2) by (eapply inv_ffnd; exact I2).
  rewrite (cache_set_ff _ _ _ F2 Ho2). cbn [negb].
  set (s3 := cset s2 o ob2).
  assert (I3 : inv 0 base NX ND s3) by (apply inv_cset; [exact I2 | exact Ho2 | lia | intros []]).
  assert (F3 : ffnd s3) by (eapply inv_ffnd; exact I3).
  assert (Ho3 : hget s3 o = Some (touched s2 ob2)) by (unfold s3; rewrite (hget_cset _ _ _ _ F2 Ho2), Nat.eqb_refl; reflexivity).
  rewrite (regenerate_ff _ _ _ F3 Ho3). cbn [fst].
  destruct (regen_ust (is_uid u) (is_usr u) (usr_codec u) _ _ _ _ _ _ I3 Ho3 (Nat.le_0_l o) (fun x => x)) as (_ & _ & Unew).
  exists (rg_ob2 s3 o (touched s2 ob2)). split; [apply regen_handle; assumption|]. split; [reflexivity|].
  exact (Unew eq_refl).
Qed.

Lemma uh_hupd u s o f : (forall r, r_user (f r) = r_user r) -> uh u s o -> uh u (hupd s o f) o.
Proof.
  intros Hf (ob & Ho & Hu & Hust). exists (mkObj (o_id ob) (f (o_rec ob))).
  split; [rewrite hget_hupd, Nat.eqb_refl, Ho; reflexivity|]. split; [cbn [o_rec]; rewrite Hf; exact Hu|].
  cbn [o_id]. apply ust_hupd_user; assumption.
Qed.

Lemma uh_save u s o : plan s = [] -> uh u s o -> uh u (fst (save_direct s o)) o.
Proof.
  intros Hp (ob & Ho & Hu & Hust). rewrite (save_direct_ff _ _ _ Hp Ho). cbn [fst].
  exists ob. split; [exact Ho|]. split; [exact Hu|].
  apply (ust_saved_own _ _ (usr_codec u)); [exact Hu | exact Hust].
Qed.

(* Set, Delete, Get, GetAndDelete and RegenerateID keep it *)
Lemma do_sop_uh u base s o hc op : inv 0 base NX ND s -> uh u s o -> keeps_user op = true ->
  uh u (fst (fst (do_sop s o hc op))) o.
Proof.
  intros I Hu Hk. pose proof Hu as (ob & Ho & Hus & Hust).
  assert (Hp : plan s = []) by apply (i_plan _ _ _ _ _ I).
  destruct op as [k v|k|k|k|u' ex| | |]; try discriminate Hk; cbn [do_sop].
  - unfold data_of. rewrite Ho. destruct (r_data (o_rec ob)) as [d|]; [|exact Hu].
    pose proof (uh_hupd u s o (fun r => set_data r (Some (kv_set d k v))) (fun _ => eq_refl) Hu) as H1.
    pose proof (uh_save u _ o (eq_trans (hupd_plan _ _ _) Hp) H1) as H2.
    destruct (save_direct _ o) as [s' r]. exact H2.
  - unfold data_of. rewrite Ho.
    assert (H1 : uh u (match r_data (o_rec ob) with
                       | Some d => hupd s o (fun r => set_data r (Some (kv_del d k)))
                       | None => s end) o /\
                 plan (match r_data (o_rec ob) with
                       | Some d => hupd s o (fun r => set_data r (Some (kv_del d k)))
                       | None => s end) = []).
    { destruct (r_data (o_rec ob)) as [d|]; [|split; assumption].
      split; [apply uh_hupd; [reflexivity | exact Hu] | rewrite hupd_plan; exact Hp]. }
    destruct H1 as [H1 Hp1]. pose proof (uh_save u _ o Hp1 H1) as H2.
    destruct (save_direct _ o) as [s' r]. exact H2.
  - exact Hu.
  - unfold data_of. rewrite Ho. destruct (r_data (o_rec ob)) as [d|]; [|exact Hu].
    destruct (kv_get d k); [|exact Hu].
    pose proof (uh_hupd u s o (fun r => set_data r (Some (kv_del d k))) (fun _ => eq_refl) Hu) as H1.
    pose proof (uh_save u _ o (eq_trans (hupd_plan _ _ _) Hp) H1) as H2.
    destruct (save_direct _ o) as [s' r]. exact H2.
  - rewrite (regenerate_ff _ _ _ (inv_ffnd _ _ _ _ _ I) Ho). cbn [fst].
    destruct (regen_ust (is_uid u) (is_usr u) (usr_codec u) _ _ _ _ _ _ I Ho (Nat.le_0_l o) (fun x => x)) as (_ & _ & Unew).
    exists (rg_ob2 s o ob). split; [apply regen_handle; [eapply inv_ffnd; exact I | exact Ho]|].
    split; [exact Hus | exact (Unew Hus)].
Qed.

(* so do the clean-ups *)
Lemma fire_due_uh u s o : plan s = [] -> heap (fire_due s) = heap s -> uh u s o -> uh u (fire_due s) o.
Proof.
  intros Hp Hh (ob & Ho & Hus & Hust). exists ob.
  split; [unfold hget; rewrite Hh; exact Ho|]. split; [exact Hus|].
  exact (ufact_fire_due _ _ s _ Hp Hust).
Qed.

Lemma run_script_uh u base hc : forall ops s o, inv 0 base NX ND s -> uh u s o -> forallb keeps_user ops = true ->
  uh u (fst (fst (run_script s o hc ops))) o.
Proof.
  induction ops as [|op t IH]; intros s o I Hu Hk; cbn [run_script]; [exact Hu|].
  cbn [forallb] in Hk. apply andb_true_iff in Hk. destruct Hk as [Hk1 Hk2].
  assert (H : hok 0 ND s o) by (destruct Hu as (ob & Ho & _); exact (hok_of_hget _ _ _ Ho)).
  destruct (do_sop_inv _ _ _ _ _ hc op I H) as (s1 & r & cks & E & I1 & H1 & _).
  pose proof (do_sop_uh u base s o hc op I Hu Hk1) as Hu1. rewrite E in *. cbn [fst] in Hu1.
  destruct (fire_due_inv _ _ _ _ I1) as (I2 & Hh & _).
  assert (Hu2 : uh u (fire_due s1) o) by (apply fire_due_uh; [apply (i_plan _ _ _ _ _ I1) | exact Hh | exact Hu1]).
  match goal with |- context [if ?c then _ else _] => destruct c end; [exact Hu2|].
  specialize (IH (fire_due s1) o I2 Hu2 Hk2). destruct (run_script (fire_due s1) o hc t) as [[s' rs] cks']. exact IH.
Qed.

(* ------------------------------- the handler's state under the invariant LI *)

Lemma ran_no_destroy : forall ops rs, ran ops rs = true -> ~ In SDestroy (firstn (length rs) ops).
Proof.
  induction ops as [|op t IH]; intros [|r rt] H; cbn [ran] in H; try discriminate; cbn [length firstn]; [intros []|].
  apply andb_true_iff in H. destruct H as [H1 H2].
  intros [E|Hin]; [subst op; cbn in H1; discriminate H1 | exact (IH rt H2 Hin)].
Qed.

Lemma In_firstn {A} (x : A) n l : In x (firstn n l) -> In x l.
Proof. intro H. rewrite <- (firstn_skipn n l). apply in_or_app. left. exact H. Qed.

Lemma keeps_no_destroy ops : forallb keeps_user ops = true -> ~ In SDestroy ops.
Proof.
  intros H Hin. rewrite forallb_forall in H. specialize (H _ Hin). discriminate H.
Qed.

(* wherever a handler operation runs, the handle is a session whose ID the store
   holds as a session record *)
Theorem handler_at_G w r pre s o : LI (w_st w) -> handler_at w r pre s o ->
  G Q0 (supply (w_st w), []) s /\ hg s o.
Proof.
  intros Hl (s2 & cks & rs & cks' & E & Er & Hr).
  pose proof (GW_G Q0 Q0_qt (w_st w) [] (rq_tb r) Hl eq_refl) as G1.
  change (set_tb (set_plan (set_evs (w_st w) []) []) (rq_tb r)) with (req_s1 w r) in G1.
  destruct (start_G Q0 DEL0 Q0_qt Q0_new Q0_repl Q0_del _ (req_s1 w r) (req_q w r) G1) as (s2' & res & cks0 & E0 & G2 & _ & H2 & _).
  { intros; exact Logic.I. }
  rewrite E in E0. injection E0 as <- <- <-.
  destruct (fire_due_G Q0 FOK0 Q0_fire _ _ G2 Logic.I) as (G3 & _ & H3 & _).
  destruct (H2 o eq_refl) as (Hh2 & _).
  destruct (run_script_G Q0 DEL0 FOK0 Q0_qt Q0_repl Q0_del Q0_fire _ (had_cookie (req_q w r)) pre (fire_due s2) o G3 (H3 o Hh2) Logic.I)
    as (s3 & sr & cks3 & E' & G' & _ & Hd' & _).
  { intros _ s0 ob _ _ _. exact Logic.I. }
  rewrite Er in E'. injection E' as <- <- <-.
  split; [exact G'|]. apply Hd'. apply ran_no_destroy. exact Hr.
Qed.

(* the end of a fault-free, crash-free request step whose script is pre ++ rest,
   in terms of the run of rest from the handler's state *)
Lemma step_split w r pre s o rest :
  handler_at w r pre s o -> rq_plan r = [] -> rq_crash r = None -> rq_script r = pre ++ rest ->
  forall s3 rs3 cks3, run_script s o (had_cookie (req_q w r)) rest = (s3, rs3, cks3) ->
  exists cks0 rs0,
    w_st (fst (step w (HReq r))) = set_tb (set_plan s3 []) [] /\
    ob_res (snd (step w (HReq r))) = RSess /\
    ob_final (snd (step w (HReq r))) = handle_view s3 o /\
    ob_cookies (snd (step w (HReq r))) = cks0 ++ cks3 /\
    ob_script (snd (step w (HReq r))) = rs0 ++ rs3 /\ length rs0 = length pre /\
    jar_of (w_jars (fst (step w (HReq r)))) (rq_client r) = jar_after w r (cks0 ++ cks3) /\
    ob_jar (snd (step w (HReq r))) = jar_after w r (cks0 ++ cks3).
Proof.
  intros (s2 & cks & rs & cks' & E & Er & Hr) Hpl Hcr Hsc s3 rs3 cks3 E3.
  rewrite step_req_eq. cbv zeta. rewrite Hpl, Hcr. unfold req_body.
  unfold req_s1, req_q, pres in E, Er, E3. rewrite E. cbv zeta. rewrite Hsc.
  rewrite (run_script_app _ _ _ _ _ _ _ rest Er Hr). rewrite E3.
  exists (cks ++ cks'), rs. cbn [fst snd w_st w_jars mk_obs ob_res ob_final ob_cookies ob_script ob_jar].
  rewrite LiveHist6.jar_of_set_same, app_assoc. unfold jar_after.
  repeat split. apply ran_length. exact Hr.
Qed.

(* ------------------------------------------------------- the theorems *)

Section Survives.
  Variables (w : world) (r : reqstep) (pre post : list sop) (s : st) (o : nat) (u : user) (ex : bool) (h : hop).
  Hypothesis Hl : LI (w_st w).
  Hypothesis Hat : handler_at w r pre s o.
  Hypothesis Hpl : rq_plan r = [].
  Hypothesis Hcr : rq_crash r = None.
  Hypothesis Hsc : rq_script r = pre ++ SLogIn u ex :: post.
  Hypothesis Hk : forallb keeps_user post = true.
  Hypothesis Hlo : loses_cache h.

  Let w1 := fst (step w (HReq r)).
  Let w2 := fst (step w1 h).

  (* the handler's session at the end of the request carries u; under its ID the
     store holds a session record with u's ID; after the loss of the cache that
     is what the ID resolves to; a cookie-following client holds the ID *)
  Theorem login_script_survives :
    exists kf rf rr, ob_final (snd (step w (HReq r))) = Some (kf, rf) /\ r_ref rf = None /\ r_user rf = Some u /\
      lookup (store (w_st w1)) kf = Some rr /\ r_ref rr = None /\ r_user rr = Some (fst u, 0%N) /\
      L (w_st w2) kf = Some rr /\ cache (w_st w2) = [] /\
      (rq_present r = PJar -> jar_of (w_jars w2) (rq_client r) = CKey kf) /\
      (post = [] -> kf = KGen (supply s)).
  Proof.
    destruct (handler_at_G w r pre s o Hl Hat) as [Gs Hh].
    pose proof Gs as (Is & _). pose proof Hh as (ob & Ho & _).
    destruct (login_G Q0 Q0_qt Q0_repl _ s o u ex Gs Hh) as (s1 & n & E1 & G1 & _ & H1 & Hi1 & -> & Hsu1).
    pose proof (login_uh _ s o u ex ob Is Ho) as U1. rewrite E1 in U1. cbn [fst] in U1.
    destruct (fire_due_G Q0 FOK0 Q0_fire _ _ G1 Logic.I) as (G2 & _ & H2 & _).
    pose proof G1 as (I1 & _). destruct (fire_due_inv _ _ _ _ I1) as (I2 & Hheap & _).
    assert (U2 : uh u (fire_due s1) o) by (apply fire_due_uh; [apply (i_plan _ _ _ _ _ I1) | exact Hheap | exact U1]).
    set (hc := had_cookie (req_q w r)).
    destruct (run_script_G Q0 DEL0 FOK0 Q0_qt Q0_repl Q0_del Q0_fire _ hc post (fire_due s1) o G2 (H2 o H1) Logic.I)
      as (s3 & rs3 & cks3 & E3 & G3 & _ & Hd3 & _ & C3 & _).
    { intros _ s0 ob0 _ _ _. exact Logic.I. }
    pose proof (run_script_uh u _ hc post _ o I2 U2 Hk) as U3. rewrite E3 in U3. cbn [fst] in U3.
    destruct Hd3 as [H3 Hlive3]; [intro Hin; exact (keeps_no_destroy _ Hk (In_firstn _ _ _ Hin))|].
    assert (Erest : run_script s o hc (SLogIn u ex :: post) = (s3, SOk :: rs3, [CkLive (KGen (supply s))] ++ cks3)).
    { rewrite run_script_cons. cbn [do_sop]. rewrite E1. cbn [of_result stops]. rewrite E3. reflexivity. }
    destruct (step_split w r pre s o _ Hat Hpl Hcr Hsc _ _ _ Erest) as (cks0 & rs0 & Hst & Hres & Hfin & Hck & Hscr & Hlen & Hjar & Hoj).
    destruct U3 as (ob3 & Ho3 & Hu3 & [HS3 _]). destruct H3 as (ob3' & Ho3' & Hr3 & Hs3).
    rewrite Ho3 in Ho3'. injection Ho3' as <-.
    unfold sref in Hs3. destruct (lookup (store s3) (o_id ob3)) as [rr|] eqn:Err; [|discriminate].
    cbn [option_map] in Hs3. injection Hs3 as Hrr.
    assert (Hend : lookup (store (w_st w1)) (o_id ob3) = Some rr) by (unfold w1; rewrite Hst; exact Err).
    destruct (loss_state w1 h Hlo) as (L1 & L2 & _ & _ & _ & _ & L7 & L8). cbv zeta in *.
    exists (o_id ob3), (o_rec ob3), rr.
    split; [rewrite Hfin; unfold handle_view; rewrite Ho3; reflexivity|]. split; [exact Hr3|]. split; [exact Hu3|].
    split; [exact Hend|]. split; [exact Hrr|]. split; [exact (HS3 rr Err)|].
    split; [unfold w2; rewrite L8; exact Hend|]. split; [exact L2|]. split.
    - intro HP. unfold w2. rewrite L7. unfold w1. rewrite Hjar. unfold jar_after. rewrite HP.
      rewrite !apply_cookies_app. rewrite (apply_cookies_live _ _ Hlive3).
      assert (Hi2 : hid (fire_due s1) o = Some (KGen (supply s))) by (rewrite (hid_heap _ _ o Hheap); exact Hi1).
      rewrite Hi2 in C3. rewrite (lastl_None (Some (KGen (supply s))) cks3) in C3.
      unfold hid in C3. rewrite Ho3 in C3. cbn [option_map] in C3.
      cbn [apply_cookies fold_left]. destruct (lastl None cks3) as [v|]; injection C3 as ->; reflexivity.
    - intros ->. cbn [run_script] in E3. injection E3 as <- _ _.
      assert (Hi2 : hid (fire_due s1) o = Some (KGen (supply s))) by (rewrite (hid_heap _ _ o Hheap); exact Hi1).
      unfold hid in Hi2. rewrite Ho3 in Hi2. cbn [option_map] in Hi2. injection Hi2 as ->. reflexivity.
  Qed.

  (* the later request: after the loss of the cache, a request presenting that ID
     — acceptable w.r.t. the stored record — is handed a session with u's ID *)
  Theorem login_script_then_request r3 kf rf :
    ob_final (snd (step w (HReq r))) = Some (kf, rf) ->
    rq_plan r3 = [] -> rq_crash r3 = None -> pres w2 r3 = CKey kf ->
    (forall rk, lookup (store (w_st w1)) kf = Some rk ->
       CrashRestart.probe_ok (conf (w_st w1)) (now (w_st w1)) (mkReq (CKey kf) (rq_create r3) (rq_addr r3) (rq_ua r3)) rk) ->
    ob_res (snd (step w2 (HReq r3))) = RSess /\
    exists id rc, ob_start (snd (step w2 (HReq r3))) = Some (id, rc) /\ r_ref rc = None /\
                  CrashFault3.uid rc = Some (fst u).
  Proof.
    intros Hfin Hpl3 Hcr3 Hk3 Hok.
    destruct login_script_survives as (kf' & rf' & rr & Hfin' & _ & _ & Hrr & Href & Hur & _ & Hc2 & _).
    rewrite Hfin in Hfin'. injection Hfin' as <- <-.
    destruct (loss_state w1 h Hlo) as (L1 & L2 & L3 & L4 & L5 & _). cbv zeta in *.
    assert (Hp1 : plan (w_st w1) = []).
    { apply (step_sess_inv w (HReq r) (LI_sess_inv _ Hl) Hpl Hcr). }
    apply (probe_step_gen (fun x => CrashFault3.uid x = Some (fst u)) _ r3 kf); try assumption; try (intros; assumption).
    - unfold w2. rewrite L5. exact Hp1.
    - unfold w2. rewrite L1. exists kf, rr. cbn [CrashFault3.resolve]. rewrite Hrr, Href.
      split; [reflexivity|]. split; [reflexivity|]. unfold CrashFault3.uid. rewrite Hur. reflexivity.
    - unfold w2. rewrite L1, L3, L4. intros rk Hlk. apply Hok. exact Hlk.
  Qed.
End Survives.

(* C08H_survives_request_partial without its added hypothesis: LogIn as the last
   operation; the new ID is the next ordinal when LogIn ran *)
Theorem login_then_request_full w r pre s o u ex h r3 :
  LI (w_st w) -> handler_at w r pre s o ->
  rq_plan r = [] -> rq_crash r = None -> rq_script r = pre ++ [SLogIn u ex] -> loses_cache h ->
  let n := supply s in
  let w1 := fst (step w (HReq r)) in let w2 := fst (step w1 h) in
  rq_plan r3 = [] -> rq_crash r3 = None -> pres w2 r3 = CKey (KGen n) ->
  (forall rk, lookup (store (w_st w1)) (KGen n) = Some rk ->
     CrashRestart.probe_ok (conf (w_st w1)) (now (w_st w1)) (mkReq (CKey (KGen n)) (rq_create r3) (rq_addr r3) (rq_ua r3)) rk) ->
  ob_res (snd (step w2 (HReq r3))) = RSess /\
  exists id rc, ob_start (snd (step w2 (HReq r3))) = Some (id, rc) /\ r_ref rc = None /\
                CrashFault3.uid rc = Some (fst u).
Proof.
  intros Hl Hat Hpl Hcr Hsc Hlo. cbv zeta. intros Hpl3 Hcr3 Hk3 Hok.
  destruct (login_script_survives w r pre [] s o u ex h Hl Hat Hpl Hcr Hsc eq_refl Hlo)
    as (kf & rf & rr & Hfin & _ & _ & _ & _ & _ & _ & _ & _ & Hkf).
  rewrite (Hkf eq_refl) in Hfin.
  exact (login_script_then_request w r pre [] s o u ex h Hl Hat Hpl Hcr Hsc eq_refl Hlo r3 _ _ Hfin Hpl3 Hcr3 Hk3 Hok).
Qed.

(* the record stored under the new ID is a session record: the hypothesis that
   C08H_survives_request_partial had to assume *)
Theorem login_stored_session w r pre s o u ex :
  LI (w_st w) -> handler_at w r pre s o ->
  rq_plan r = [] -> rq_crash r = None -> rq_script r = pre ++ [SLogIn u ex] ->
  exists rk, lookup (store (w_st (fst (step w (HReq r))))) (KGen (supply s)) = Some rk /\ r_ref rk = None /\
             r_user rk = Some (fst u, 0%N).
Proof.
  intros Hl Hat Hpl Hcr Hsc.
  destruct (login_script_survives w r pre [] s o u ex HDropCache Hl Hat Hpl Hcr Hsc eq_refl (or_introl eq_refl))
    as (kf & rf & rr & _ & _ & _ & Hrr & Href & Hur & _ & _ & _ & Hkf).
  rewrite (Hkf eq_refl) in Hrr. exists rr. auto.
Qed.

(* the handler's session, wherever an operation of the script runs: a session
   record in memory, and a session record in the store under its ID *)
Theorem handler_session w r pre s o : LI (w_st w) -> handler_at w r pre s o ->
  exists ob rr, hget s o = Some ob /\ r_ref (o_rec ob) = None /\
                lookup (store s) (o_id ob) = Some rr /\ r_ref rr = None.
Proof.
  intros Hl Hat. destruct (handler_at_G w r pre s o Hl Hat) as [_ (ob & Ho & Hr & Hs)].
  unfold sref in Hs. destruct (lookup (store s) (o_id ob)) as [rr|] eqn:E; [|discriminate].
  cbn [option_map] in Hs. injection Hs as Hs. exists ob, rr. auto.
Qed.

(* from the initial state *)
Theorem login_then_request_hist c hs r pre s o u ex h r3 :
  Forall ff_hop hs -> Forall crash_free hs -> handler_at (reach c hs) r pre s o ->
  rq_plan r = [] -> rq_crash r = None -> rq_script r = pre ++ [SLogIn u ex] -> loses_cache h ->
  let n := supply s in
  let w1 := fst (step (reach c hs) (HReq r)) in let w2 := fst (step w1 h) in
  rq_plan r3 = [] -> rq_crash r3 = None -> pres w2 r3 = CKey (KGen n) ->
  (forall rk, lookup (store (w_st w1)) (KGen n) = Some rk ->
     CrashRestart.probe_ok (conf (w_st w1)) (now (w_st w1)) (mkReq (CKey (KGen n)) (rq_create r3) (rq_addr r3) (rq_ua r3)) rk) ->
  ob_res (snd (step w2 (HReq r3))) = RSess /\
  exists id rc, ob_start (snd (step w2 (HReq r3))) = Some (id, rc) /\ r_ref rc = None /\
                CrashFault3.uid rc = Some (fst u).
Proof.
  intros Hff Hcf. apply login_then_request_full. apply LI_reach; assumption.
Qed.

Lemma keeps_user_def op :
  keeps_user op = true <-> (op <> SLogOut /\ op <> SDestroy /\ forall u ex, op <> SLogIn u ex).
Proof.
  destruct op; cbn; split; intro H; try reflexivity; try discriminate H;
    try (repeat split; intros; discriminate);
    destruct H as (A & B & C); try (exfalso; apply A; reflexivity); try (exfalso; apply B; reflexivity);
    exfalso; eapply C; reflexivity.
Qed.
