(* C19, part 2: CUID. Length, injectivity in the 64-bit word, lexicographic
   order, the arithmetic of the timestamp and of the counter with its spill. *)
From Sessions Require Import Model.Base Model.Ids Gen.Consts Proofs.BaseLemmas Proofs.IdsLaws.
From Coq Require Import Lia ZifyBool ZifyNat ZifyN.
Local Open Scope N_scope.

Definition p40 : N := 1099511627776.   (* 2^40 *)
Definition p24 : N := 16777216.        (* 2^24 *)
Definition p62_11 : N := 52036560683837093888. (* 62^11 *)

(* ------------------------------------------------------------------------ *)
(* the timestamp                                                             *)

Lemma cuid_mask_ones : cuid_mask = N.ones 40.
Proof. reflexivity. Qed.

Lemma cuid_timestamp_lt (sec : Z) (nsec : N) : cuid_timestamp sec nsec < p40.
Proof.
  unfold cuid_timestamp. rewrite cuid_mask_ones, N.land_ones.
  apply N.mod_lt. discriminate.
Qed.

(* Milliseconds since 2017-01-01 of a wall-clock reading (Unix seconds,
   nanoseconds within the second); negative before 2017. *)
Definition wall_ms (sec : Z) (nsec : N) : Z :=
  (sec * 1000 + Z.of_N nsec / 1000000 - 1483228800000)%Z.

(* The uint64 computation, wrap-around of the subtraction included, yields the
   milliseconds since 2017 modulo 2^40. *)
Lemma cuid_timestamp_spec (sec : Z) (nsec : N) :
  nsec < 1000000000 ->
  Z.of_N (cuid_timestamp sec nsec) = (wall_ms sec nsec mod 1099511627776)%Z.
Proof.
  intro Hns. unfold cuid_timestamp, wall_ms.
  rewrite cuid_mask_ones, N.land_ones. change (2 ^ 40) with 1099511627776.
  change (lit 0) with 1000. change (lit 1) with 1000000.
  change ids_reference_date with 1483228800000.
  unfold u64_sub, u64, u64_of_int64, pow64.
  change (Z.of_N 18446744073709551616) with 18446744073709551616%Z.
  set (A := Z.to_N (sec mod 18446744073709551616)).
  assert (HA : (Z.of_N A mod 1099511627776 = sec mod 1099511627776)%Z) by (subst A; lia).
  clearbody A.
  set (B := (A * 1000) mod 18446744073709551616).
  assert (HB : (Z.of_N B mod 1099511627776 = (sec * 1000) mod 1099511627776)%Z) by (subst B; lia).
  clearbody B. clear HA A.
  set (C := (B mod 18446744073709551616 +
             (18446744073709551616 - 1483228800000 mod 18446744073709551616)) mod 18446744073709551616).
  assert (HC : (Z.of_N C mod 1099511627776 = (sec * 1000 - 1483228800000) mod 1099511627776)%Z)
    by (subst C; lia).
  clearbody C. clear HB B.
  set (K := (nsec mod 18446744073709551616) / 1000000).
  assert (HK : (Z.of_N K = Z.of_N nsec / 1000000)%Z) by (subst K; lia).
  clearbody K.
  set (D := (C + K) mod 18446744073709551616).
  assert (HD : (Z.of_N D mod 1099511627776 =
                (sec * 1000 - 1483228800000 + Z.of_N K) mod 1099511627776)%Z) by (subst D; lia).
  clearbody D. clear HC C.
  rewrite <- HK.
  replace (sec * 1000 + Z.of_N K - 1483228800000)%Z with (sec * 1000 - 1483228800000 + Z.of_N K)%Z by lia.
  rewrite <- HD. lia.
Qed.

(* ------------------------------------------------------------------------ *)
(* the MAC hash                                                              *)

Lemma mac_hash_lt (mac : bytes) : mac_hash mac < 65536.
Proof.
  unfold mac_hash.
  assert (H : forall l h, h < 65536 ->
    fold_left (fun h b => u16 (u16_sub (u16 (N.shiftl h (lit 7))) h + u16 b)) l h < 65536).
  { induction l as [|b l IH]; intros h Hh; [exact Hh|].
    cbn [fold_left]. apply IH. unfold u16, pow16. apply N.mod_lt. discriminate. }
  apply H. reflexivity.
Qed.

(* ------------------------------------------------------------------------ *)
(* bit assembly: the ORs are additions                                       *)

Lemma land_shiftl_low (b n a : N) : a < 2 ^ n -> N.land (N.shiftl b n) a = 0.
Proof.
  intro Ha. apply N.bits_inj. intro i. rewrite N.land_spec, N.bits_0.
  destruct (N.lt_ge_cases i n) as [Hlt|Hge].
  - rewrite N.shiftl_spec_low by assumption. reflexivity.
  - replace a with (a mod 2 ^ n) by (apply N.mod_small, Ha).
    rewrite N.mod_pow2_bits_high by assumption. apply andb_false_r.
Qed.

Lemma lor_shiftl_add (b n a : N) : a < 2 ^ n -> N.lor (N.shiftl b n) a = b * 2 ^ n + a.
Proof.
  intro Ha.
  rewrite <- N.lxor_lor, <- N.add_nocarry_lxor by (apply land_shiftl_low, Ha).
  rewrite N.shiftl_mul_pow2. reflexivity.
Qed.

(* The word: timestamp in bits 63..24; below it (hash * 256 + counter) mod 2^24,
   which is what "counter & 0xff, higher counter bits spill into the hash, the
   hash wraps at 16 bits" amounts to. *)
Lemma cuid_bits_spec (mac : bytes) (ts lc : N) :
  ts < p40 -> cuid_bits mac ts lc = ts * p24 + (mac_hash mac * 256 + lc) mod p24.
Proof.
  intro Hts. unfold cuid_bits, p40, p24 in *.
  change (lit 6) with (N.ones 8). change (lit 8) with 8. change (lit 9) with 0.
  change (lit 10) with (N.ones 16). change (lit 11) with 24. change (lit 12) with 8.
  pose proof (mac_hash_lt mac) as Hh. set (h := mac_hash mac) in *. clearbody h.
  rewrite !N.land_ones, N.shiftr_div_pow2.
  change (2 ^ 8) with 256. change (2 ^ 16) with 65536.
  set (h' := if negb (lc / 256 =? 0) then u16 (h + u16 ((lc / 256) mod 65536)) else h).
  assert (Hh' : h' = (h + lc / 256) mod 65536).
  { subst h'. unfold u16, pow16. destruct (lc / 256 =? 0) eqn:E; cbn [negb]; lia. }
  clearbody h'.
  assert (E1 : u64 (N.shiftl ts 24) = N.shiftl ts 24).
  { unfold u64, pow64. apply N.mod_small. rewrite N.shiftl_mul_pow2.
    change (2 ^ 24) with 16777216. lia. }
  assert (E2 : u64 (N.shiftl h' 8) = h' * 256).
  { unfold u64, pow64. rewrite N.shiftl_mul_pow2. change (2 ^ 8) with 256.
    apply N.mod_small. lia. }
  rewrite E1, E2.
  rewrite (lor_shiftl_add ts 24 (h' * 256)) by (change (2 ^ 24) with 16777216; lia).
  change (2 ^ 24) with 16777216.
  replace (ts * 16777216 + h' * 256) with (N.shiftl (ts * 65536 + h') 8)
    by (rewrite N.shiftl_mul_pow2; change (2 ^ 8) with 256; lia).
  rewrite (lor_shiftl_add _ 8 (lc mod 256)) by (change (2 ^ 8) with 256; lia).
  change (2 ^ 8) with 256. lia.
Qed.

Lemma cuid_bits_lt (mac : bytes) (ts lc : N) : ts < p40 -> cuid_bits mac ts lc < pow64.
Proof.
  intro Hts. rewrite cuid_bits_spec by assumption. unfold p40, p24, pow64 in *. lia.
Qed.

(* 2^24 further calls in the same millisecond repeat the word: the bound in
   cuid_unique cannot be improved. *)
Lemma cuid_bits_period (mac : bytes) (ts lc : N) :
  ts < p40 -> cuid_bits mac ts (lc + p24) = cuid_bits mac ts lc.
Proof.
  intro Hts. rewrite !cuid_bits_spec by assumption. unfold p24. f_equal. lia.
Qed.

(* ------------------------------------------------------------------------ *)
(* the eleven base-62 digits                                                 *)

Fixpoint b62_digits (n : nat) (w : N) : bytes :=
  match n with
  | O => []
  | S k => b62_digits k (w / 62) ++ [b62_char (w mod 62)]
  end.

Lemma b62_loop_app (n : nat) (w : N) (acc : bytes) : b62_loop n w acc = b62_digits n w ++ acc.
Proof.
  revert w acc. induction n as [|n IH]; intros w acc; [reflexivity|].
  cbn [b62_loop b62_digits]. change ids_cuid_base with 62.
  rewrite IH, <- app_assoc. reflexivity.
Qed.

Lemma cuid_string_digits (w : N) : cuid_string w = b62_digits 11 w.
Proof.
  unfold cuid_string. change cuid_ndigits with 11%nat. rewrite b62_loop_app. apply app_nil_r.
Qed.

Lemma b62_digits_length (n : nat) (w : N) : length (b62_digits n w) = n.
Proof.
  revert w. induction n as [|n IH]; intro w; [reflexivity|].
  cbn [b62_digits]. rewrite app_length, IH. cbn. lia.
Qed.

Lemma cuid_string_length (w : N) : length (cuid_string w) = 11%nat.
Proof. rewrite cuid_string_digits. apply b62_digits_length. Qed.

Lemma b62_char_in (i : N) : i < 62 -> In (b62_char i) ids_cuid_chars.
Proof.
  intro Hi. unfold b62_char. apply nth_In. change (length ids_cuid_chars) with 62%nat. lia.
Qed.

Lemma b62_digits_alphabet (n : nat) (w : N) : forall ch, In ch (b62_digits n w) -> In ch ids_cuid_chars.
Proof.
  revert w. induction n as [|n IH]; intros w ch Hin; [destruct Hin|].
  cbn [b62_digits] in Hin. apply in_app_or in Hin as [Hin|[<-|[]]].
  - eapply IH, Hin.
  - apply b62_char_in, N.mod_lt. discriminate.
Qed.

(* value of a digit string *)
Definition b62_idx (ch : N) : N :=
  match index_from ch ids_cuid_chars 0 with Some i => i | None => 0 end.
Definition b62_value (s : bytes) : N := fold_left (fun v ch => v * 62 + b62_idx ch) s 0.

Lemma b62_idx_char (i : N) : i < 62 -> b62_idx (b62_char i) = i.
Proof.
  intro Hi.
  assert (Hall : forallb (fun i => b62_idx (b62_char i) =? i) (nrange 62) = true)
    by (vm_compute; reflexivity).
  apply N.eqb_eq. exact (forall_below _ _ Hall i Hi).
Qed.

Lemma b62_value_digits (n : nat) (w : N) : b62_value (b62_digits n w) = w mod 62 ^ N.of_nat n.
Proof.
  revert w. induction n as [|n IH]; intro w.
  - cbn. symmetry. apply N.mod_1_r.
  - cbn [b62_digits]. unfold b62_value in *. rewrite fold_left_app. cbn [fold_left].
    rewrite IH, b62_idx_char by (apply N.mod_lt; discriminate).
    rewrite Nat2N.inj_succ, N.pow_succ_r'.
    rewrite N.mod_mul_r by (try discriminate; apply N.pow_nonzero; discriminate).
    remember ((w / 62) mod 62 ^ N.of_nat n) as X. remember (w mod 62) as Y. lia.
Qed.

(* Different 64-bit words give different strings: 62^11 > 2^64. *)
Lemma cuid_string_injective (w1 w2 : N) :
  w1 < pow64 -> w2 < pow64 -> cuid_string w1 = cuid_string w2 -> w1 = w2.
Proof.
  intros H1 H2 E.
  assert (V : forall w, w < pow64 -> b62_value (cuid_string w) = w).
  { intros w Hw. rewrite cuid_string_digits, b62_value_digits. apply N.mod_small.
    change (62 ^ N.of_nat 11) with p62_11. unfold pow64, p62_11 in *. lia. }
  rewrite <- (V w1 H1), <- (V w2 H2), E. reflexivity.
Qed.

(* ------------------------------------------------------------------------ *)
(* lexicographic order of the strings is numeric order of the words          *)

Lemma lex_lt_app_same (a x y : bytes) : lex_lt (a ++ x) (a ++ y) = lex_lt x y.
Proof.
  induction a as [|c a IH]; [reflexivity|].
  cbn [app lex_lt]. rewrite N.ltb_irrefl, N.eqb_refl, IH. reflexivity.
Qed.

Lemma lex_lt_app_l (a b x y : bytes) :
  length a = length b -> lex_lt a b = true -> lex_lt (a ++ x) (b ++ y) = true.
Proof.
  revert b. induction a as [|c a IH]; intros [|d b] Hlen H; try discriminate.
  cbn [app lex_lt] in *. apply orb_true_iff in H as [H|H].
  - rewrite H. reflexivity.
  - apply andb_true_iff in H as [He Hl]. rewrite He, (IH b) by (auto; congruence).
    apply orb_true_r.
Qed.

Lemma b62_char_mono (i j : N) : i < j -> j < 62 -> b62_char i < b62_char j.
Proof.
  intros Hij Hj.
  assert (Hall : forallb (fun i => forallb (fun j => negb (i <? j) || (b62_char i <? b62_char j))
                                           (nrange 62)) (nrange 62) = true)
    by (vm_compute; reflexivity).
  assert (Hi : i < N.of_nat 62) by lia.
  pose proof (forall_below _ _ Hall i Hi) as Hrow. cbv beta in Hrow.
  pose proof (forall_below _ _ Hrow j Hj) as H. cbv beta in H.
  apply N.ltb_lt in Hij. rewrite Hij in H. cbn [negb orb] in H. apply N.ltb_lt, H.
Qed.

Lemma b62_digits_lt (n : nat) (w1 w2 : N) :
  w1 < w2 -> w2 < 62 ^ N.of_nat n -> lex_lt (b62_digits n w1) (b62_digits n w2) = true.
Proof.
  revert w1 w2. induction n as [|n IH]; intros w1 w2 Hlt Hb.
  - cbn in Hb. lia.
  - rewrite Nat2N.inj_succ, N.pow_succ_r' in Hb.
    assert (Hq2 : w2 / 62 < 62 ^ N.of_nat n) by (apply N.div_lt_upper_bound; [discriminate|exact Hb]).
    cbn [b62_digits].
    assert (Hcase : w1 / 62 < w2 / 62 \/ (w1 / 62 = w2 / 62 /\ w1 mod 62 < w2 mod 62)).
    { clear Hb Hq2 IH. lia. }
    destruct Hcase as [Hq|[Hq Hr]].
    + apply lex_lt_app_l; [rewrite !b62_digits_length; reflexivity|].
      apply IH; assumption.
    + rewrite Hq, lex_lt_app_same. cbn [lex_lt].
      assert (Hm : b62_char (w1 mod 62) < b62_char (w2 mod 62))
        by (apply b62_char_mono; [exact Hr | apply N.mod_lt; discriminate]).
      apply N.ltb_lt in Hm. rewrite Hm. reflexivity.
Qed.

Lemma cuid_string_lt (w1 w2 : N) :
  w1 < w2 -> w2 < pow64 -> lex_lt (cuid_string w1) (cuid_string w2) = true.
Proof.
  intros Hlt Hb. rewrite !cuid_string_digits. apply b62_digits_lt; [exact Hlt|].
  change (62 ^ N.of_nat 11) with p62_11. unfold pow64, p62_11 in *. lia.
Qed.

(* ------------------------------------------------------------------------ *)
(* one call                                                                  *)

Definition next_counter (st : cuid_state) (ts : N) : N :=
  if ts =? cs_last_time st then u64 (cs_last_counter st + 1) else 0.

Lemma cuid_step_eq (mac : bytes) (st : cuid_state) (sec : Z) (nsec : N) :
  cuid_step mac st sec nsec =
  ({| cs_last_time := cuid_timestamp sec nsec;
      cs_last_counter := next_counter st (cuid_timestamp sec nsec) |},
   cuid_string (cuid_bits mac (cuid_timestamp sec nsec) (next_counter st (cuid_timestamp sec nsec)))).
Proof. reflexivity. Qed.

(* exactly 11 characters, all from the 62-symbol alphabet *)
Lemma cuid_length (mac : bytes) (st : cuid_state) (sec : Z) (nsec : N) :
  length (snd (cuid_step mac st sec nsec)) = 11%nat.
Proof. rewrite cuid_step_eq. cbn [snd]. apply cuid_string_length. Qed.

Lemma cuid_alphabet (mac : bytes) (st : cuid_state) (sec : Z) (nsec : N) :
  forall ch, In ch (snd (cuid_step mac st sec nsec)) -> In ch ids_cuid_chars.
Proof.
  rewrite cuid_step_eq. cbn [snd]. rewrite cuid_string_digits. apply b62_digits_alphabet.
Qed.

(* A strictly later (masked) millisecond gives a lexicographically larger ID,
   whatever the generator states and counters. *)
Lemma cuid_ordered_ts (mac : bytes) (ts1 ts2 c1 c2 : N) :
  ts1 < ts2 -> ts2 < p40 ->
  lex_lt (cuid_string (cuid_bits mac ts1 c1)) (cuid_string (cuid_bits mac ts2 c2)) = true.
Proof.
  intros Hlt Hb. apply cuid_string_lt; [|apply cuid_bits_lt, Hb].
  rewrite !cuid_bits_spec by (unfold p40 in *; lia). unfold p24, p40 in *. lia.
Qed.

Lemma cuid_ordered (mac : bytes) (st1 st2 : cuid_state) (sec1 sec2 : Z) (nsec1 nsec2 : N) :
  cuid_timestamp sec1 nsec1 < cuid_timestamp sec2 nsec2 ->
  lex_lt (snd (cuid_step mac st1 sec1 nsec1)) (snd (cuid_step mac st2 sec2 nsec2)) = true.
Proof.
  intro H. rewrite !cuid_step_eq. cbn [snd].
  apply cuid_ordered_ts; [exact H | apply cuid_timestamp_lt].
Qed.

(* In wall-clock terms: a strictly later millisecond within the same 2^40 ms
   epoch (counted from 2017-01-01; times before 2017 are in epoch -1). *)
Lemma cuid_timestamp_mono (sec1 sec2 : Z) (nsec1 nsec2 : N) :
  nsec1 < 1000000000 -> nsec2 < 1000000000 ->
  (wall_ms sec1 nsec1 < wall_ms sec2 nsec2)%Z ->
  (wall_ms sec1 nsec1 / 1099511627776 = wall_ms sec2 nsec2 / 1099511627776)%Z ->
  cuid_timestamp sec1 nsec1 < cuid_timestamp sec2 nsec2.
Proof.
  intros N1 N2 Hlt Hep.
  pose proof (cuid_timestamp_spec sec1 nsec1 N1) as S1.
  pose proof (cuid_timestamp_spec sec2 nsec2 N2) as S2.
  set (a := wall_ms sec1 nsec1) in *. set (b := wall_ms sec2 nsec2) in *.
  clearbody a b. lia.
Qed.

Lemma cuid_ordered_wallclock (mac : bytes) (st1 st2 : cuid_state) (sec1 sec2 : Z) (nsec1 nsec2 : N) :
  nsec1 < 1000000000 -> nsec2 < 1000000000 ->
  (wall_ms sec1 nsec1 < wall_ms sec2 nsec2)%Z ->
  (wall_ms sec1 nsec1 / 1099511627776 = wall_ms sec2 nsec2 / 1099511627776)%Z ->
  lex_lt (snd (cuid_step mac st1 sec1 nsec1)) (snd (cuid_step mac st2 sec2 nsec2)) = true.
Proof. intros. apply cuid_ordered, cuid_timestamp_mono; assumption. Qed.

(* Two calls give the same ID only for the same masked millisecond and
   counters that agree modulo 2^24. *)
Lemma cuid_word_injective (mac : bytes) (ts1 ts2 c1 c2 : N) :
  ts1 < p40 -> ts2 < p40 ->
  cuid_string (cuid_bits mac ts1 c1) = cuid_string (cuid_bits mac ts2 c2) ->
  ts1 = ts2 /\ c1 mod p24 = c2 mod p24.
Proof.
  intros H1 H2 E. apply cuid_string_injective in E; try (apply cuid_bits_lt; assumption).
  rewrite !cuid_bits_spec in E by assumption.
  pose proof (mac_hash_lt mac) as Hh. set (h := mac_hash mac) in *. clearbody h.
  unfold p24, p40 in *. lia.
Qed.

(* ------------------------------------------------------------------------ *)
(* non-vacuity                                                               *)

(* 2000-01-01T00:00:00Z lies before 2017: the subtraction wraps and the mask
   leaves 2^40 - 536544000000. 2017-01-01T00:00:00.001Z is millisecond 1.
   One millisecond before 1970 the conversion of the seconds wraps as well. *)
Example cuid_timestamp_example :
  cuid_timestamp 946684800 0 = 562967627776 /\
  wall_ms 946684800 0 = (-536544000000)%Z /\
  cuid_timestamp 1483228800 1999999 = 1 /\
  cuid_timestamp (-1) 999999999 = 715794455551 /\
  ((-1483228800001) mod 1099511627776 = 715794455551)%Z.
Proof. vm_compute. repeat split. Qed.

(* the counter crossing 255 -> 256 spills into the hash *)
Example cuid_step_example :
  let mac := [2; 4; 6; 8; 10; 12] in
  let t := cuid_timestamp 1577872800 0 in
  mac_hash mac = 59590 /\
  cuid_step mac {| cs_last_time := t; cs_last_counter := 254 |} 1577872800 0 =
    ({| cs_last_time := t; cs_last_counter := 255 |}, [49;116;73;81;90;97;77;111;82;112;102]) /\
  cuid_step mac {| cs_last_time := t; cs_last_counter := 255 |} 1577872800 0 =
    ({| cs_last_time := t; cs_last_counter := 256 |}, [49;116;73;81;90;97;77;111;82;112;103]) /\
  cuid_bits mac t 255 = 94644000000 * p24 + 59590 * 256 + 255 /\
  cuid_bits mac t 256 = 94644000000 * p24 + 59591 * 256 + 0.
Proof. vm_compute. repeat split. Qed.

Example cuid_ordered_example :
  let mac := [2; 4; 6; 8; 10; 12] in
  let st := {| cs_last_time := 0; cs_last_counter := 70000 |} in
  cuid_timestamp 1577872800 999999999 < cuid_timestamp 1577872801 0 /\
  lex_lt (snd (cuid_step mac st 1577872800 999999999)) (snd (cuid_step mac st 1577872801 0)) = true /\
  (* across the epoch boundary the order is lost: 2016-12-31T23:59:59.999Z vs 2017-01-01T00:00:00Z *)
  lex_lt (snd (cuid_step mac st 1483228799 999000000)) (snd (cuid_step mac st 1483228800 0)) = false.
Proof. vm_compute. repeat split. Qed.
