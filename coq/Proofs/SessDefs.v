(* Definitions shared by the statements about the session model: the logical
   lookup (cache over store), well-formedness of states, the durable part of a
   record. No proofs of properties here, only definitions and the most basic
   facts about association lists and the heap. *)
From Sessions Require Import Model.Base Model.Sess Model.Hist.
From Coq Require Import Lia.

(* ------------------------------------------------------------------ keys *)

Lemma key_eqb_eq (a b : key) : key_eqb a b = true <-> a = b.
Proof.
  destruct a, b; simpl; split; intro H; try discriminate; try (apply N.eqb_eq in H; congruence);
    injection H as ->; apply N.eqb_refl.
Qed.

Lemma key_eqb_refl (a : key) : key_eqb a a = true.
Proof. apply key_eqb_eq; reflexivity. Qed.

Lemma key_eqb_neq (a b : key) : key_eqb a b = false <-> a <> b.
Proof.
  split.
  - intros H E. apply key_eqb_eq in E. congruence.
  - intros H. destruct (key_eqb a b) eqn:E; [apply key_eqb_eq in E; contradiction | reflexivity].
Qed.

Lemma key_eqb_sym (a b : key) : key_eqb a b = key_eqb b a.
Proof.
  destruct (key_eqb a b) eqn:E.
  - apply key_eqb_eq in E. subst. symmetry. apply key_eqb_refl.
  - symmetry. apply key_eqb_neq. apply key_eqb_neq in E. congruence.
Qed.

Lemma key_eq_dec (a b : key) : {a = b} + {a <> b}.
Proof.
  destruct (key_eqb a b) eqn:E; [left; apply key_eqb_eq; assumption | right; apply key_eqb_neq; assumption].
Qed.

(* ----------------------------------------------------- association lists *)

Section Assoc.
  Context {A : Type}.
  Implicit Types (l : list (key * A)) (k : key) (v : A).

  Lemma lookup_upsert_same l k v : lookup (upsert l k v) k = Some v.
  Proof.
    induction l as [|[k' v'] l IH]; simpl.
    - rewrite key_eqb_refl. reflexivity.
    - destruct (key_eqb k k') eqn:E; simpl.
      + rewrite key_eqb_refl. reflexivity.
      + rewrite E. exact IH.
  Qed.

  Lemma lookup_upsert_other l k k' v : k' <> k -> lookup (upsert l k v) k' = lookup l k'.
  Proof.
    intro Hne. induction l as [|[k2 v2] l IH]; simpl.
    - apply key_eqb_neq in Hne. rewrite Hne. reflexivity.
    - destruct (key_eqb k k2) eqn:E; simpl.
      + apply key_eqb_eq in E. subst k2. apply key_eqb_neq in Hne. rewrite Hne. reflexivity.
      + destruct (key_eqb k' k2); [reflexivity | exact IH].
  Qed.

  Lemma lookup_remove_same l k : lookup (remove l k) k = None.
  Proof.
    induction l as [|[k' v'] l IH]; simpl; [reflexivity|].
    destruct (key_eqb k k') eqn:E; simpl; [exact IH | rewrite E; exact IH].
  Qed.

  Lemma lookup_remove_other l k k' : k' <> k -> lookup (remove l k) k' = lookup l k'.
  Proof.
    intro Hne. induction l as [|[k2 v2] l IH]; simpl; [reflexivity|].
    destruct (key_eqb k k2) eqn:E; simpl.
    - apply key_eqb_eq in E. subst k2. apply key_eqb_neq in Hne. rewrite Hne. exact IH.
    - destruct (key_eqb k' k2); [reflexivity | exact IH].
  Qed.

  Lemma lookup_In l k v : lookup l k = Some v -> In (k, v) l.
  Proof.
    induction l as [|[k' v'] l IH]; simpl; [discriminate|].
    destruct (key_eqb k k') eqn:E.
    - intro H. injection H as ->. apply key_eqb_eq in E. subst. left. reflexivity.
    - intro H. right. apply IH. exact H.
  Qed.

  Lemma lookup_None_notin l k : lookup l k = None <-> ~ In k (map fst l).
  Proof.
    induction l as [|[k' v'] l IH]; simpl.
    - split; [intros _ H; exact H | reflexivity].
    - destruct (key_eqb k k') eqn:E.
      + apply key_eqb_eq in E. subst. split; [discriminate | intro H; exfalso; apply H; left; reflexivity].
      + apply key_eqb_neq in E. rewrite IH. split.
        * intros H [H1|H1]; [congruence | contradiction].
        * intros H H1. apply H. right. exact H1.
  Qed.

  Lemma has_true l k : has l k = true <-> exists v, lookup l k = Some v.
  Proof.
    unfold has. destruct (lookup l k) as [v|]; split; intro H; try reflexivity; try discriminate.
    - exists v. reflexivity.
    - destruct H as [v H]. discriminate.
  Qed.

  Lemma length_remove_le l k : length (remove l k) <= length l.
  Proof.
    induction l as [|[k' v'] l IH]; simpl; [lia|]. destruct (key_eqb k k'); simpl; lia.
  Qed.

  Lemma remove_notin l k : lookup l k = None -> remove l k = l.
  Proof.
    induction l as [|[k' v'] l IH]; simpl; [reflexivity|].
    destruct (key_eqb k k') eqn:E; [discriminate|]. intro H. rewrite IH by exact H. reflexivity.
  Qed.

  Lemma keys_upsert_in l k v : lookup l k <> None -> map fst (upsert l k v) = map fst l.
  Proof.
    induction l as [|[k' v'] l IH]; simpl; [congruence|].
    destruct (key_eqb k k') eqn:E; simpl.
    - apply key_eqb_eq in E. subst. reflexivity.
    - intro H. rewrite IH by exact H. reflexivity.
  Qed.

  Lemma keys_upsert_notin l k v : lookup l k = None -> map fst (upsert l k v) = map fst l ++ [k].
  Proof.
    induction l as [|[k' v'] l IH]; simpl; [reflexivity|].
    destruct (key_eqb k k') eqn:E; [discriminate|]. intro H. simpl. rewrite IH by exact H. reflexivity.
  Qed.

  Lemma keys_remove l k : map fst (remove l k) = filter (fun k' => negb (key_eqb k k')) (map fst l).
  Proof.
    induction l as [|[k' v'] l IH]; simpl; [reflexivity|].
    destruct (key_eqb k k'); simpl; rewrite IH; reflexivity.
  Qed.
End Assoc.

(* ------------------------------------------------------------------- heap *)

Lemma replace_nth_length {A} (l : list A) n v : length (replace_nth l n v) = length l.
Proof. revert n; induction l as [|x l IH]; intros [|n]; simpl; auto. Qed.

Lemma nth_replace_nth_same {A} (l : list A) n v :
  n < length l -> nth_error (replace_nth l n v) n = Some v.
Proof. revert n; induction l as [|x l IH]; intros [|n] H; simpl in *; try lia; auto. apply IH. lia. Qed.

Lemma nth_replace_nth_other {A} (l : list A) n m v :
  n <> m -> nth_error (replace_nth l n v) m = nth_error l m.
Proof.
  revert n m; induction l as [|x l IH]; intros [|n] [|m] H; simpl; auto; try congruence.
Qed.

Lemma hget_hput_same s o v : o < length (heap s) -> hget (hput s o v) o = Some v.
Proof. intro H. unfold hget, hput. simpl. apply nth_replace_nth_same. exact H. Qed.

Lemma hget_hput_other s o o' v : o <> o' -> hget (hput s o v) o' = hget s o'.
Proof. intro H. unfold hget, hput. simpl. apply nth_replace_nth_other. exact H. Qed.

Lemma hget_Some_lt s o ob : hget s o = Some ob -> o < length (heap s).
Proof. unfold hget. intro H. apply nth_error_Some. congruence. Qed.

Lemma hget_halloc_old s v o : o < length (heap s) -> hget (fst (halloc s v)) o = hget s o.
Proof. intro H. unfold hget, halloc. simpl. apply nth_error_app1. exact H. Qed.

Lemma hget_halloc_new s v : hget (fst (halloc s v)) (snd (halloc s v)) = Some v.
Proof.
  unfold hget, halloc. simpl. rewrite nth_error_app2 by lia. rewrite Nat.sub_diag. reflexivity.
Qed.

(* ------------------------------------------------------ logical contents *)

(* The record an ID resolves to: the cached object if there is one, else what
   the store holds. *)
Definition L (s : st) (k : key) : option rec :=
  match lookup (cache s) k with
  | Some o => match hget s o with Some ob => Some (o_rec ob) | None => None end
  | None => lookup (store s) k
  end.

(* The part of a record that a cache loss must not cost: everything except the
   bookkeeping of the latest request (access time, peer address, user agent).
   The user is compared by ID: the store keeps only the ID. *)
Definition durable (r : rec) : Z * option key * option N * option (list (N * N)) :=
  (r_created r, r_ref r, match r_user r with Some (u, _) => Some u | None => None end,
   match r_data r with Some d => Some d | None => Some [] end).

(* Every cache entry points at an object whose own ID is the entry's key. *)
Definition cache_ok (s : st) : Prop :=
  forall k o, lookup (cache s) k = Some o -> exists ob, hget s o = Some ob /\ o_id ob = k.

(* Keys are unique in cache and store. *)
Definition nodup_ok (s : st) : Prop :=
  NoDup (map fst (cache s)) /\ NoDup (map fst (store s)).

(* Generated IDs in use were drawn: their ordinal is below the supply. *)
Definition key_drawn (s : st) (k : key) : Prop :=
  match k with KGen n => (n < supply s)%N | KJunk _ => True end.

Definition fresh_ok (s : st) : Prop :=
  (forall k v, In (k, v) (cache s) -> key_drawn s k) /\
  (forall k r, In (k, r) (store s) -> key_drawn s k /\ match r_ref r with Some t => key_drawn s t | None => True end) /\
  (forall o ob, hget s o = Some ob -> key_drawn s (o_id ob) /\ match r_ref (o_rec ob) with Some t => key_drawn s t | None => True end) /\
  (forall d k, In (d, k) (pending s) -> key_drawn s k).

(* Write-through: a cached object and the stored record under the same ID agree
   on the durable part (after the codec's normalisation). *)
Definition wt_ok (s : st) : Prop :=
  forall k o ob, lookup (cache s) k = Some o -> hget s o = Some ob ->
    exists r, lookup (store s) k = Some r /\ durable r = durable (codec (conf s) (o_rec ob)).

(* The store holds records as the codec returns them. *)
Definition store_norm (s : st) : Prop :=
  forall k r, lookup (store s) k = Some r -> codec (conf s) r = r.

(* No fault is planned. *)
Definition fault_free (s : st) : Prop := plan s = [].
