(* Audit task A5, C07, part 4: the lineage of an ended session, and the theorems
   from reachable states.

   lineage s kn k   k belongs to the lineage of the ended ID kn in state s: it is
                    kn itself; or it was drawn and resolves (L, cache over store)
                    to nothing (a former ID already cleaned up); or it resolves
                    to a replaced-ID record whose reference is in the lineage.
                    So k0 -> k1 -> ... -> kn with every ki a replaced-ID record
                    naming k(i+1), or gone, is covered link by link.

   lineage_dead     from any state satisfying C05H's invariant LI in which kn is
                    drawn and absent from cache and store (the state right after
                    Destroy or an invalidating Start: C07_destroy, DeadLaws.v),
                    along every fault-free, crash-free continuation: lin_claim
                    (Lineage3.v) for the lineage of kn at that state.
   lineage_probe    the same, pointwise: at any later point a request presenting
                    any ID of the lineage (jar or forged) gets a dead_answer.
   lineage_stays    at any later point every ID of the lineage still resolves to
                    nothing or to a replaced-ID record into the lineage.
   destroyed_lineage / invalidated_lineage
                    the two ways a request step ends a session, from reach c hs1.
   dead_answer_fresh / dead_answer_ghost
                    a dead_answer in the terms of the C01 ghost (Proofs/C01Spec.v):
                    the returned session, if any, has content ([], None) and an
                    ID drawn in that step, so g_step accepts it whatever the
                    ghost holds for the client.

   No axioms; standard library only. *)
From Sessions Require Import Model.Base Model.Sess Model.Hist Model.Corr Proofs.SessDefs
  Proofs.HistInv Proofs.HistInv2 Proofs.HistInv3 Proofs.HistLift Proofs.HistLift2 Proofs.HistLift3
  Proofs.HistLift4 Proofs.HistLift6 Proofs.IsoLaws Proofs.DeadLaws Proofs.C01Spec
  Proofs.Lineage Proofs.Lineage2 Proofs.Lineage3.
From Coq Require Import Lia.

Inductive lineage (s : st) (kn : key) : key -> Prop :=
| lin_last : lineage s kn kn
| lin_gone k : key_drawn s k -> L s k = None -> lineage s kn k
| lin_ref k r t : L s k = Some r -> r_ref r = Some t -> lineage s kn t -> lineage s kn k.

Lemma absent_L s k : absent s k -> L s k = None.
Proof. intros [A B]. unfold L. rewrite A. exact B. Qed.

Lemma L_none_sref s k : cache_ok s -> L s k = None -> sref s k = None.
Proof.
  intros Hc HL. unfold L in HL. destruct (lookup (cache s) k) as [o|] eqn:Hl.
  - destruct (Hc _ _ Hl) as (ob & Ho & _). rewrite Ho in HL. discriminate.
  - unfold sref. rewrite HL. reflexivity.
Qed.

(* the lineage of a drawn, absent ID satisfies QD in the state it is taken in *)
Lemma lineage_QD s kn : LI s -> key_drawn s kn -> L s kn = None -> QD (lineage s kn) s.
Proof.
  intros Hl Hk HL. pose proof Hl as (W & K & _).
  destruct (winv_sessdefs _ _ _ W) as (_ & Hc & _ & (_ & Hfs & _)).
  intros k Hlin. destruct Hlin as [|k Hk' HL'|k r t HL' Hr Ht].
  - split; [exact Hk | left; apply L_none_sref; assumption].
  - split; [exact Hk' | left; apply L_none_sref; assumption].
  - assert (Hs : sref s k = Some (Some t)).
    { apply (L_sref s k (Some t) Hc K). exists r. split; assumption. }
    split; [|right; exists t; split; [exact Hs | exact Ht]].
    unfold sref in Hs. destruct (lookup (store s) k) as [r'|] eqn:Hst; [|discriminate].
    apply lookup_In in Hst. apply (Hfs k r' Hst).
Qed.

Lemma lineage_LN s kn : LI s -> key_drawn s kn -> absent s kn -> LN (lineage s kn) s.
Proof. intros Hl Hk Ha. apply LI_LN; [exact Hl | apply lineage_QD; [exact Hl | exact Hk | apply absent_L; exact Ha]]. Qed.

Theorem lineage_dead w kn hs :
  LI (w_st w) -> key_drawn (w_st w) kn -> absent (w_st w) kn -> Forall ff_hop hs -> Forall crash_free hs ->
  all_steps (lin_claim (lineage (w_st w) kn)) w hs.
Proof.
  intros Hl Hk Ha Hff Hcf. apply (lin_hist (lineage (w_st w) kn) hs w); [|exact Hff | exact Hcf].
  apply lineage_LN; assumption.
Qed.

Theorem lineage_probe w kn hs r k :
  LI (w_st w) -> key_drawn (w_st w) kn -> absent (w_st w) kn -> Forall ff_hop hs -> Forall crash_free hs ->
  rq_plan r = [] -> rq_crash r = None ->
  lineage (w_st w) kn k -> presents (after w hs) r = CKey k ->
  dead_answer (snd (step (after w hs) (HReq r))).
Proof.
  intros Hl Hk Ha Hff Hcf Hpl Hcr Hlin Hpr.
  pose proof (LN_after (lineage (w_st w) kn) hs w (lineage_LN _ _ Hl Hk Ha) Hff Hcf) as Hl'.
  destruct (step_req_lin (lineage (w_st w) kn) (after w hs) r Hl' Hpl Hcr) as [_ H].
  exact (H r k eq_refl Hpr Hlin).
Qed.

Theorem lineage_stays w kn hs k :
  LI (w_st w) -> key_drawn (w_st w) kn -> absent (w_st w) kn -> Forall ff_hop hs -> Forall crash_free hs ->
  lineage (w_st w) kn k ->
  L (w_st (after w hs)) k = None \/
  exists r t, L (w_st (after w hs)) k = Some r /\ r_ref r = Some t /\ lineage (w_st w) kn t.
Proof.
  intros Hl Hk Ha Hff Hcf Hlin.
  pose proof (LN_after (lineage (w_st w) kn) hs w (lineage_LN _ _ Hl Hk Ha) Hff Hcf) as Hl'.
  exact (LN_resolves _ _ k Hl' Hlin).
Qed.

(* ------------------------------------------- the two ways a step ends a session *)

Lemma LI_winv s : LI s -> winv 0 ND s.
Proof. intros (W & _). exact W. Qed.

Theorem destroyed_lineage c hs1 r hs2 :
  Forall ff_hop hs1 -> Forall crash_free hs1 -> rq_plan r = [] -> rq_crash r = None ->
  Forall ff_hop hs2 -> Forall crash_free hs2 ->
  ob_script (snd (step (reach c hs1) (HReq r))) <> [] ->
  nth_error (rq_script r) (length (ob_script (snd (step (reach c hs1) (HReq r)))) - 1) = Some SDestroy ->
  exists kn rc, ob_final (snd (step (reach c hs1) (HReq r))) = Some (kn, rc) /\
    key_drawn (w_st (fst (step (reach c hs1) (HReq r)))) kn /\
    absent (w_st (fst (step (reach c hs1) (HReq r)))) kn /\
    all_steps (lin_claim (lineage (w_st (fst (step (reach c hs1) (HReq r)))) kn))
              (fst (step (reach c hs1) (HReq r))) hs2.
Proof.
  intros H1 C1 Hpl Hcr H2 C2 Hne Hn.
  pose proof (LI_reach c hs1 H1 C1) as Hl.
  destruct (step_destroy 0 _ r (LI_winv _ Hl) Hpl Hcr Hne Hn) as (kn & rc & A1 & A2 & A3 & _).
  exists kn, rc. split; [exact A1|]. split; [exact A2|]. split; [exact A3|].
  apply lineage_dead; try assumption. apply LI_step; assumption.
Qed.

Theorem invalidated_lineage c hs1 r hs2 k r0 :
  Forall ff_hop hs1 -> Forall crash_free hs1 -> rq_plan r = [] -> rq_crash r = None ->
  Forall ff_hop hs2 -> Forall crash_free hs2 ->
  presented (reach c hs1) r = CKey k -> L (w_st (reach c hs1)) k = Some r0 ->
  rec_valid (conf (w_st (reach c hs1))) (now (w_st (reach c hs1)))
            (mkReq (presented (reach c hs1) r) (rq_create r) (rq_addr r) (rq_ua r)) r0 = false ->
  key_drawn (w_st (fst (step (reach c hs1) (HReq r)))) k /\
  absent (w_st (fst (step (reach c hs1) (HReq r)))) k /\
  all_steps (lin_claim (lineage (w_st (fst (step (reach c hs1) (HReq r)))) k))
            (fst (step (reach c hs1) (HReq r))) hs2.
Proof.
  intros H1 C1 Hpl Hcr H2 C2 Hpr HL Hv.
  pose proof (LI_reach c hs1 H1 C1) as Hl.
  destruct (step_invalid_dead 0 _ r k r0 (LI_winv _ Hl) Hpl Hcr Hpr HL Hv) as (A1 & A2 & _).
  split; [exact A1|]. split; [exact A2|].
  apply lineage_dead; try assumption. apply LI_step; assumption.
Qed.

(* ------------------------------------------- in the terms of the C01 ghost *)

Lemma dead_answer_fresh o : dead_answer o ->
  forall id rc, ob_start o = Some (id, rc) -> content_of rc = ([], None) /\ drawn_in (ob_evs o) id = true.
Proof.
  unfold dead_answer. intros H id rc Hs. destruct (ob_res o) as [| |e|e| |]; try contradiction.
  - destruct H as (n & rc' & rest & A1 & Hin & _ & A3 & A4 & _). rewrite A1 in Hs. injection Hs as <- <-.
    split; [unfold content_of; rewrite A3, A4; reflexivity|].
    unfold drawn_in. apply existsb_exists. exists (EvDraw n). split; [exact Hin | apply N.eqb_refl].
  - destruct H as [H _]. rewrite H in Hs. discriminate.
  - destruct H as (_ & H & _). rewrite H in Hs. discriminate.
Qed.

Lemma dead_answer_ghost o g r : dead_answer o -> fst (g_step g (HReq r) o) = true.
Proof.
  intro H. unfold g_step. destruct (ob_start o) as [[id rc]|] eqn:Es; [|reflexivity].
  destruct (dead_answer_fresh o H id rc Es) as [Hc Hd]. rewrite Hc, Hd.
  destruct (g_script _ _ _ _) as [fin ex]. cbn [fst].
  assert (E : gdata_eqb ([], None) ([], None) = true) by reflexivity.
  destruct (g_get g (rq_client r)); rewrite E; [apply Bool.orb_true_r | reflexivity].
Qed.
