(* C09, part 2: cache_set, cache_get, cache_delete, purge re-establish the
   write-through invariant; what they do to the handler's object. *)
From Sessions Require Import Model.Base Model.Sess Model.Hist Proofs.SessDefs Proofs.WriteThrough.
From Coq Require Import Lia.

(* What every operation below guarantees about the rest of the state: the
   configuration stays, the ID supply only grows, objects stay allocated and
   keep their IDs. (RegenerateID changes an ID; it is treated separately.) *)
Definition evo (s s' : st) : Prop :=
  conf s' = conf s /\ (supply s <= supply s')%N /\
  forall o ob, hget s o = Some ob -> exists ob', hget s' o = Some ob' /\ o_id ob' = o_id ob.

Lemma evo_refl s : evo s s.
Proof. repeat split; [lia|]. eauto. Qed.

Lemma evo_trans s1 s2 s3 : evo s1 s2 -> evo s2 s3 -> evo s1 s3.
Proof.
  intros (A1 & A2 & A3) (B1 & B2 & B3). repeat split; [congruence | lia |].
  intros o ob H. destruct (A3 o ob H) as (ob' & H1 & H2). destruct (B3 o ob' H1) as (ob'' & H3 & H4).
  exists ob''. split; [exact H3 | congruence].
Qed.

Lemma evo_core s s' : core s = core s' -> evo s s'.
Proof.
  intro H. apply core_inv in H. destruct H as (Hh & _ & _ & Hu & Hf & _). repeat split; [congruence | lia |].
  intros o ob. rewrite (hget_heap s s' o Hh). eauto.
Qed.

Lemma evo_heap s s' : heap s' = heap s -> conf s' = conf s -> supply s' = supply s -> evo s s'.
Proof.
  intros Hh Hf Hu. repeat split; [congruence | lia |].
  intros o ob. rewrite (hget_heap s' s o Hh). eauto.
Qed.

Lemma evo_hupd s o f : evo s (hupd s o f).
Proof.
  unfold hupd. destruct (hget s o) as [ob|] eqn:Hg; [|apply evo_refl].
  repeat split; [cbn; lia|]. intros o' ob' H.
  destruct (Nat.eq_dec o o') as [<-|Hne].
  - rewrite hget_hput_same by (eapply hget_Some_lt; eauto). eexists. split; [reflexivity|]. cbn. congruence.
  - rewrite hget_hput_other by exact Hne. eauto.
Qed.

Lemma evo_halloc s v : evo s (fst (halloc s v)).
Proof.
  repeat split; [cbn; lia|]. intros o ob H. exists ob. split; [apply hget_halloc_keep; exact H | reflexivity].
Qed.

(* ---------------------------------------------- inserting and saving *)

Lemma upsert_Inv E s k o ob :
  Inv E s -> hget s o = Some ob -> key_drawn s k ->
  Inv (exadd E k) (set_cache s (upsert (cache s) k o)).
Proof.
  intros [Ip In_ Id Ih Ie Ir] Hg Hk. constructor.
  - exact Ip.
  - exact In_.
  - cbn [cache set_cache]. apply nodup_upsert. exact Id.
  - intros k' o'. cbn [cache set_cache]. change (hget (set_cache s (upsert (cache s) k o)) o') with (hget s o').
    destruct (key_eq_dec k' k) as [->|Hne].
    + rewrite lookup_upsert_same. intros [= <-]. eauto.
    + rewrite lookup_upsert_other by exact Hne. apply Ih.
  - intros k' o' ob'. cbn [cache set_cache store conf].
    change (hget (set_cache s (upsert (cache s) k o)) o') with (hget s o').
    intros H Hg' HE. destruct (key_eq_dec k' k) as [->|Hne].
    + exfalso. apply HE. right. reflexivity.
    + rewrite lookup_upsert_other in H by exact Hne. apply (Ie k' o' ob' H Hg').
      intro. apply HE. left. assumption.
  - destruct Ir as (R1 & R2 & R3). repeat split.
    + exact R1.
    + exact R2.
    + intros k' o'. cbn [cache set_cache]. destruct (key_eq_dec k' k) as [->|Hne].
      * intros _. exact Hk.
      * rewrite lookup_upsert_other by exact Hne. apply R3.
Qed.

(* Saving object o under its own ID while that ID is cached with o or not at
   all: the exception for that ID is discharged. *)
Lemma save_Inv E s o ob :
  Inv E s -> hget s o = Some ob -> (forall x, lookup (cache s) (o_id ob) = Some x -> x = o) ->
  Inv (exdel E (o_id ob)) (set_store s (upsert (store s) (o_id ob) (codec (conf s) (o_rec ob)))).
Proof.
  intros [Ip In_ Id Ih Ie Ir] Hg Hu. constructor.
  - exact Ip.
  - apply store_norm_upsert. exact In_.
  - exact Id.
  - exact Ih.
  - intros k' o' ob'. cbn [cache set_store store conf].
    change (hget (set_store s (upsert (store s) (o_id ob) (codec (conf s) (o_rec ob)))) o') with (hget s o').
    intros H Hg' HE. destruct (key_eq_dec k' (o_id ob)) as [->|Hne].
    + apply Hu in H. subst o'. assert (ob' = ob) by congruence. subst ob'. split; [reflexivity|].
      rewrite lookup_upsert_same. eexists. split; reflexivity.
    + rewrite lookup_upsert_other by exact Hne. apply (Ie k' o' ob' H Hg').
      intro. apply HE. split; assumption.
  - destruct Ir as (R1 & R2 & R3). repeat split.
    + exact R1.
    + intros k' r'. cbn [store set_store]. destruct (key_eq_dec k' (o_id ob)) as [->|Hne].
      * intros _. apply (R1 o ob Hg).
      * rewrite lookup_upsert_other by exact Hne. apply R2.
    + exact R3.
Qed.

Lemma save_Held s o ob :
  hget s o = Some ob -> (forall x, lookup (cache s) (o_id ob) = Some x -> x = o) ->
  Held (set_store s (upsert (store s) (o_id ob) (codec (conf s) (o_rec ob)))) o.
Proof.
  intros Hg Hu. exists ob. split; [exact Hg|]. cbn [cache store conf set_store].
  destruct (lookup (cache s) (o_id ob)) as [x|] eqn:E.
  - left. rewrite (Hu x); reflexivity.
  - right. split; [reflexivity|]. rewrite lookup_upsert_same. eexists. split; reflexivity.
Qed.

(* A save under another ID does not disturb a held object. *)
Lemma save_Held_other s k r h obh :
  hget s h = Some obh -> o_id obh <> k -> Held s h ->
  Held (set_store s (upsert (store s) k r)) h.
Proof.
  intros Hg Hne (ob & H1 & H2). assert (ob = obh) by congruence. subst ob.
  exists obh. split; [exact H1|]. cbn [cache store conf set_store].
  rewrite lookup_upsert_other by exact Hne. exact H2.
Qed.

Lemma upsert_Held_other s k o h obh :
  hget s h = Some obh -> o_id obh <> k -> Held s h ->
  Held (set_cache s (upsert (cache s) k o)) h.
Proof.
  intros Hg Hne (ob & H1 & H2). assert (ob = obh) by congruence. subst ob.
  exists obh. split; [exact H1|]. cbn [cache store conf set_cache].
  rewrite lookup_upsert_other by exact Hne. exact H2.
Qed.

(* ------------------------------------------------------------ cache_set *)

Lemma cache_set_unfold s o ob0 : hget s o = Some ob0 ->
  cache_set s o =
    let s1 := hupd s o (fun r => set_access r (now s)) in
    let k := o_id ob0 in
    let s2 := compact s1 (if has (cache s1) k then 0%Z else 1%Z) in
    let s3 := if (c_maxcache (conf s2) =? 0)%Z then s2 else set_cache s2 (upsert (cache s2) k o) in
    p_save s3 k (set_access (o_rec ob0) (now s)).
Proof.
  intro H. unfold cache_set. rewrite H. rewrite (hget_hupd_same _ _ _ _ H). reflexivity.
Qed.

Lemma cache_set_spec E s o ob0 :
  Inv E s -> hget s o = Some ob0 ->
  exists s', cache_set s o = (s', true) /\ Inv (exdel E (o_id ob0)) s' /\ Held s' o /\
    hget s' o = Some (mkObj (o_id ob0) (set_access (o_rec ob0) (now s))) /\
    (forall o', o' <> o -> hget s' o' = hget s o') /\
    conf s' = conf s /\ supply s' = supply s /\ length (heap s') = length (heap s).
Proof.
  intros HI Hg. rewrite (cache_set_unfold _ _ _ Hg). cbv zeta.
  set (s1 := hupd s o (fun r => set_access r (now s))).
  set (ob1 := mkObj (o_id ob0) (set_access (o_rec ob0) (now s))).
  set (k := o_id ob0).
  assert (Hg1 : hget s1 o = Some ob1) by (apply hget_hupd_same; exact Hg).
  assert (HI1 : Inv E s1).
  { apply (hupd_Inv_benign E s o ob0); auto; try apply durable_codec_access. }
  set (req := if has (cache s1) k then 0%Z else 1%Z).
  assert (Hreq : (0 <= req)%Z) by (unfold req; destruct (has _ _); lia).
  set (s2 := compact s1 req).
  pose proof (compact_Inv E s1 req HI1) as HI2. fold s2 in HI2.
  destruct (compact_frame E s1 req HI1) as (Fh & Fc & Fu & Fp). fold s2 in Fh, Fc, Fu, Fp.
  assert (Hg2 : hget s2 o = Some ob1) by (rewrite (hget_heap s2 s1 o Fh); exact Hg1).
  assert (Hk2 : key_drawn s2 k).
  { destruct (inv_drawn _ _ HI2) as (R1 & _). apply (R1 o ob1 Hg2). }
  set (s3 := if (c_maxcache (conf s2) =? 0)%Z then s2 else set_cache s2 (upsert (cache s2) k o)).
  assert (H3 : Inv (exadd E k) s3 /\ hget s3 o = Some ob1 /\ heap s3 = heap s2 /\ conf s3 = conf s2 /\
               supply s3 = supply s2 /\ (forall x, lookup (cache s3) k = Some x -> x = o)).
  { unfold s3. destruct (c_maxcache (conf s2) =? 0)%Z eqn:Em.
    - split; [apply (Inv_weaken E); [intros; left; assumption | exact HI2]|].
      repeat split; auto. intros x Hx. exfalso.
      assert (Hz : cache s2 = []).
      { apply compact_zero; auto.
        - rewrite <- Fc. apply Z.eqb_eq. exact Em.
        - apply (inv_plan _ _ HI1).
        - apply (inv_nodup _ _ HI1).
        - apply (inv_heap _ _ HI1). }
      rewrite Hz in Hx. discriminate.
    - split; [apply (upsert_Inv E s2 k o ob1); auto|].
      repeat split; auto. cbn [cache set_cache]. rewrite lookup_upsert_same. congruence. }
  destruct H3 as (HI3 & Hg3 & Fh3 & Fc3 & Fu3 & Hu3).
  rewrite p_save_ff by apply (inv_plan _ _ HI3). eexists. split; [reflexivity|].
  set (s4 := set_store s3 (upsert (store s3) k (codec (conf s3) (set_access (o_rec ob0) (now s))))).
  assert (Hcore : core s4 = core (log s4 (EvSave k (codec (conf s3) (set_access (o_rec ob0) (now s))) true))) by reflexivity.
  split; [|split; [|split; [|split; [|split; [|split]]]]].
  - apply (Inv_core _ s4 _ Hcore).
    apply (Inv_weaken (exdel (exadd E k) k)).
    { intros k' [[H|H] H']; [split; assumption | contradiction]. }
    apply (save_Inv (exadd E k) s3 o ob1 HI3 Hg3 Hu3).
  - apply (Held_core s4 _ o Hcore). apply (save_Held s3 o ob1 Hg3 Hu3).
  - change (hget s3 o = Some ob1). exact Hg3.
  - intros o' Hne. change (hget s3 o' = hget s o'). rewrite (hget_heap s3 s2 o' Fh3), (hget_heap s2 s1 o' Fh).
    apply hget_hupd_other. congruence.
  - change (conf s3 = conf s). rewrite Fc3, Fc. unfold s1, hupd. destruct (hget s o); reflexivity.
  - change (supply s3 = supply s). rewrite Fu3, Fu. unfold s1, hupd. destruct (hget s o); reflexivity.
  - change (length (heap s3) = length (heap s)). rewrite Fh3, Fh. unfold s1. rewrite (hupd_eq _ _ _ _ Hg).
    cbn [heap hput set_heap]. apply replace_nth_length.
Qed.

Lemma hupd_Held_other s o f h : o <> h -> Held s h -> Held (hupd s o f) h.
Proof.
  intros Hne (ob & H1 & H2). exists ob. rewrite hget_hupd_other by exact Hne. split; [exact H1|].
  unfold hupd. destruct (hget s o); exact H2.
Qed.

Lemma hupd_Unsh_other s o f h : o <> h -> Unsh s h -> Unsh (hupd s o f) h.
Proof.
  intros Hne (ob & H1 & H2). exists ob. rewrite hget_hupd_other by exact Hne. split; [exact H1|].
  unfold hupd. destruct (hget s o); exact H2.
Qed.

(* A cache_set of another session (different ID) keeps a held object held. *)
Lemma cache_set_Held_other E s o ob0 h obh :
  Inv E s -> hget s o = Some ob0 -> hget s h = Some obh -> o_id obh <> o_id ob0 ->
  Held s h -> Held (fst (cache_set s o)) h.
Proof.
  intros HI Hg Hh Hne HH. assert (Hoh : o <> h) by (intros ->; congruence).
  rewrite (cache_set_unfold _ _ _ Hg). cbv zeta.
  set (s1 := hupd s o (fun r => set_access r (now s))).
  assert (HI1 : Inv E s1).
  { apply (hupd_Inv_benign E s o ob0); auto; try apply durable_codec_access. }
  assert (HH1 : Held s1 h) by (apply hupd_Held_other; assumption).
  assert (Hh1 : hget s1 h = Some obh) by (unfold s1; rewrite hget_hupd_other by exact Hoh; exact Hh).
  set (req := if has (cache s1) (o_id ob0) then 0%Z else 1%Z).
  set (s2 := compact s1 req).
  pose proof (compact_Inv E s1 req HI1) as HI2. fold s2 in HI2.
  pose proof (compact_Held E s1 req h HI1 HH1) as HH2. fold s2 in HH2.
  destruct (compact_frame E s1 req HI1) as (Fh & Fc & Fu & Fp). fold s2 in Fh, Fc, Fu, Fp.
  assert (Hh2 : hget s2 h = Some obh) by (rewrite (hget_heap s2 s1 h Fh); exact Hh1).
  set (s3 := if (c_maxcache (conf s2) =? 0)%Z then s2 else set_cache s2 (upsert (cache s2) (o_id ob0) o)).
  assert (H3 : Held s3 h /\ hget s3 h = Some obh /\ plan s3 = []).
  { unfold s3. destruct (c_maxcache (conf s2) =? 0)%Z.
    - split; [exact HH2|]. split; [exact Hh2 | apply (inv_plan _ _ HI2)].
    - split; [apply (upsert_Held_other s2 _ o h obh); auto|]. split; [exact Hh2 | apply (inv_plan _ _ HI2)]. }
  destruct H3 as (HH3 & Hh3 & Hp3).
  rewrite p_save_ff by exact Hp3. cbn [fst].
  apply (Held_core (set_store s3 (upsert (store s3) (o_id ob0) (codec (conf s3) (set_access (o_rec ob0) (now s)))))); [reflexivity|].
  apply (save_Held_other s3 _ _ h obh Hh3 Hne HH3).
Qed.

Lemma cache_set_evo E s o ob0 : Inv E s -> hget s o = Some ob0 -> evo s (fst (cache_set s o)).
Proof.
  intros HI Hg. destruct (cache_set_spec E s o ob0 HI Hg) as (s' & Hs & _ & _ & Ho & Hoth & Hc & Hu & _).
  rewrite Hs. cbn [fst]. repeat split; [exact Hc | lia |].
  intros o' ob' H. destruct (Nat.eq_dec o' o) as [->|Hne].
  - rewrite Ho. eexists. split; [reflexivity|]. cbn. congruence.
  - rewrite (Hoth o' Hne). eauto.
Qed.

(* --------------------------------------------------------- cache_delete *)

Lemma cache_delete_core s k : plan s = [] ->
  snd (cache_delete s k) = true /\
  core (fst (cache_delete s k)) = core (set_store (set_cache s (remove (cache s) k)) (remove (store s) k)).
Proof.
  intro Hp. unfold cache_delete.
  destruct (p_delete_ff (set_cache s (remove (cache s) k)) k Hp) as (g & e & H). rewrite H.
  split; reflexivity.
Qed.

Lemma delete_Inv E s k : Inv E s -> Inv E (set_store (set_cache s (remove (cache s) k)) (remove (store s) k)).
Proof.
  intros [Ip In_ Id Ih Ie Ir]. constructor.
  - exact Ip.
  - intros k' r'. cbn [store conf set_store set_cache]. intro H. apply lookup_remove_sub in H. apply (In_ k' r' H).
  - cbn [cache set_store set_cache]. apply nodup_remove. exact Id.
  - intros k' o'. cbn [cache set_store set_cache]. intro H. apply lookup_remove_sub in H.
    apply (Ih k' o' H).
  - intros k' o' ob'. cbn [cache store conf set_store set_cache]. intros H Hg HE.
    change (hget s o' = Some ob') in Hg.
    destruct (key_eq_dec k' k) as [->|Hne]; [rewrite lookup_remove_same in H; discriminate|].
    rewrite lookup_remove_other in H by exact Hne. rewrite lookup_remove_other by exact Hne.
    apply (Ie k' o' ob' H Hg HE).
  - destruct Ir as (R1 & R2 & R3). repeat split.
    + exact R1.
    + intros k' r'. cbn [store set_store set_cache]. intro H. apply lookup_remove_sub in H. eauto.
    + intros k' o'. cbn [cache set_store set_cache]. intro H. apply lookup_remove_sub in H. eauto.
Qed.

Lemma cache_delete_spec E s k : Inv E s ->
  snd (cache_delete s k) = true /\ Inv E (fst (cache_delete s k)) /\ evo s (fst (cache_delete s k)) /\
  (forall h, Unsh s h -> Unsh (fst (cache_delete s k)) h) /\
  lookup (cache (fst (cache_delete s k))) k = None /\ lookup (store (fst (cache_delete s k))) k = None.
Proof.
  intro HI. destruct (cache_delete_core s k (inv_plan _ _ HI)) as (H1 & H2).
  split; [exact H1|]. split; [|split; [|split; [|split]]].
  - eapply Inv_core; [symmetry; exact H2|]. apply delete_Inv. exact HI.
  - eapply evo_trans; [|apply evo_core; symmetry; exact H2]. apply evo_heap; reflexivity.
  - intros h HU. eapply Unsh_core; [symmetry; exact H2|].
    destruct HU as (ob & Hg & Hu). exists ob. split; [exact Hg|]. cbn [cache set_store set_cache].
    intros x Hx. apply lookup_remove_sub in Hx. auto.
  - apply core_inv in H2. destruct H2 as (_ & Hc & _). rewrite Hc. cbn. apply lookup_remove_same.
  - apply core_inv in H2. destruct H2 as (_ & _ & Hs & _). rewrite Hs. cbn. apply lookup_remove_same.
Qed.

(* ------------------------------------------------------------ cache_get *)

Lemma cache_get_spec s k s' r : Inv noex s -> cache_get s k = (s', r) ->
  Inv noex s' /\ evo s s' /\
  exists ro, r = Some ro /\
    forall o, ro = Some o -> Held s' o /\ exists ob, hget s' o = Some ob /\ o_id ob = k.
Proof.
  intros HI. unfold cache_get. destruct (lookup (cache s) k) as [o|] eqn:El.
  - intros [= <- <-]. split; [exact HI|]. split; [apply evo_refl|].
    eexists. split; [reflexivity|]. intros o' [= <-].
    destruct (inv_heap _ _ HI k o El) as (ob & Hg).
    destruct (inv_entry _ _ HI k o ob El Hg) as (Hid & _); [intros []|].
    split; [|eauto]. exists ob. split; [exact Hg|]. left. congruence.
  - destruct (p_load_ff s k (inv_plan _ _ HI)) as (e & Hl). rewrite Hl.
    assert (HIe : Inv noex (set_evs s e)) by (eapply Inv_core; [|exact HI]; reflexivity).
    destruct (lookup (store s) k) as [rc|] eqn:Es.
    + set (s1 := fst (halloc (set_evs s e) (mkObj k rc))).
      set (o := snd (halloc (set_evs s e) (mkObj k rc))).
      change (halloc (set_evs s e) (mkObj k rc)) with (s1, o).
      assert (Hkd : key_drawn s k).
      { destruct (inv_drawn _ _ HI) as (_ & R2 & _). eauto. }
      assert (HI1 : Inv noex s1) by (apply halloc_Inv; [exact HIe | exact Hkd]).
      assert (Hg1 : hget s1 o = Some (mkObj k rc)) by apply hget_halloc_new.
      assert (Hev1 : evo s s1).
      { eapply evo_trans; [|apply evo_halloc]. apply evo_core. reflexivity. }
      assert (Hagree : durable rc = durable (codec (conf s) rc)).
      { rewrite (inv_norm _ _ HI k rc Es). reflexivity. }
      cbv beta iota. change (conf s1) with (conf s).
      destruct (c_maxcache (conf s) =? 0)%Z eqn:Em.
      * intros [= <- <-]. split; [exact HI1|]. split; [exact Hev1|].
        eexists. split; [reflexivity|]. intros o' [= <-]. split; [|eauto].
        exists (mkObj k rc). split; [exact Hg1|]. right. cbn [o_id o_rec].
        split; [exact El|]. exists rc. split; [exact Es | exact Hagree].
      * set (s2 := compact s1 1).
        pose proof (compact_Inv noex s1 1 HI1) as HI2. fold s2 in HI2.
        destruct (compact_frame noex s1 1 HI1) as (Fh & Fc & Fu & Fp). fold s2 in Fh, Fc, Fu, Fp.
        assert (Hg2 : hget s2 o = Some (mkObj k rc)) by (rewrite (hget_heap s2 s1 o Fh); exact Hg1).
        assert (Es2 : lookup (store s2) k = Some rc).
        { unfold s2. rewrite (compact_store_other noex s1 1 k HI1); [exact Es | exact El]. }
        intros [= <- <-].
        assert (HI3 : Inv noex (set_cache s2 (upsert (cache s2) k o))).
        { pose proof (upsert_Inv noex s2 k o _ HI2 Hg2 (key_drawn_supply s s2 k (eq_sym Fu) Hkd)) as HX.
          destruct HX as [Ip In_ Id Ih Ie Ir]. constructor; auto.
          intros k' o' ob' H Hg' _. destruct (key_eq_dec k' k) as [->|Hne].
          - cbn [cache set_cache] in H. rewrite lookup_upsert_same in H. injection H as <-.
            change (hget s2 o = Some ob') in Hg'. assert (ob' = mkObj k rc) by congruence. subst ob'.
            split; [reflexivity|]. exists rc. split; [exact Es2|]. cbn [conf set_cache o_rec].
            rewrite Fc. exact Hagree.
          - apply (Ie k' o' ob' H Hg'). intros [[]|Hk]. contradiction. }
        split; [exact HI3|]. split.
        -- eapply evo_trans; [exact Hev1|]. apply evo_heap; cbn; auto.
        -- eexists. split; [reflexivity|]. intros o' [= <-]. split; [|eauto].
           exists (mkObj k rc). split; [exact Hg2|]. left. cbn [o_id cache set_cache].
           apply lookup_upsert_same.
    + intros [= <- <-]. split; [exact HIe|]. split; [apply evo_core; reflexivity|].
      eexists. split; [reflexivity|]. discriminate.
Qed.

(* ------------------------------------------------ empty cache; purge *)

(* The part of the invariant that does not mention the cache. *)
Definition SInv (s : st) : Prop :=
  plan s = [] /\ store_norm s /\
  (forall o ob, hget s o = Some ob -> key_drawn s (o_id ob)) /\
  (forall k r, lookup (store s) k = Some r -> key_drawn s k).

Lemma Inv_SInv E s : Inv E s -> SInv s.
Proof. intros [Ip In_ Id Ih Ie (R1 & R2 & R3)]. repeat split; assumption. Qed.

Lemma empty_cache_Inv s : SInv s -> Inv noex (set_cache s []).
Proof.
  intros (Hp & Hn & R1 & R2). constructor.
  - exact Hp.
  - exact Hn.
  - constructor.
  - intros k o H. discriminate.
  - intros k o ob H. discriminate.
  - repeat split; [exact R1 | exact R2 | intros k o H; discriminate].
Qed.

Lemma purge_saves_SInv entries : forall s,
  SInv s -> (forall k o, In (k, o) entries -> key_drawn s k) -> SInv (purge_saves s entries).
Proof.
  induction entries as [|[k o] t IH]; intros s HS Hd; cbn [purge_saves]; [exact HS|].
  destruct (hget s o) as [ob|] eqn:Hg.
  - destruct HS as (Hp & Hn & R1 & R2). rewrite p_save_ff by exact Hp. cbn [fst]. apply IH.
    + repeat split.
      * exact Hp.
      * pose proof (store_norm_upsert s k (o_rec ob) Hn) as H. exact H.
      * exact R1.
      * intros k' r'. cbn [store log set_evs set_store]. destruct (key_eq_dec k' k) as [->|Hne].
        -- intros _. apply (Hd k o). left. reflexivity.
        -- rewrite lookup_upsert_other by exact Hne. apply R2.
    + intros k' o' H. apply (Hd k' o'). right. exact H.
  - apply IH; [exact HS|]. intros k' o' H. apply (Hd k' o'). right. exact H.
Qed.

Lemma purge_Inv E s : Inv E s -> Inv noex (purge s).
Proof.
  intro HI. unfold purge. apply empty_cache_Inv. apply purge_saves_SInv.
  - apply (Inv_SInv E). exact HI.
  - intros k o H. apply order_by_tb_In in H. apply (Inv_cache_drawn E s k o HI).
    apply nodup_lookup; [apply (inv_nodup _ _ HI) | exact H].
Qed.

(* ----------------------------------------------------------- regenerate *)

Lemma key_drawn_not_next s k : key_drawn s k -> k <> KGen (supply s).
Proof. destruct k; simpl; intros H [= E]. lia. Qed.

Lemma gen_id_Inv E s : Inv E s -> Inv E (fst (gen_id s)) /\ key_drawn (fst (gen_id s)) (KGen (supply s)).
Proof.
  intros [Ip In_ Id Ih Ie (R1 & R2 & R3)]. split.
  - assert (M : forall k, key_drawn s k -> key_drawn (fst (gen_id s)) k).
    { intros k. apply key_drawn_mono. cbn. lia. }
    constructor; auto. repeat split.
    + intros o ob H. apply M. apply (R1 o ob H).
    + intros k r H. apply M. apply (R2 k r H).
    + intros k o H. apply M. apply (R3 k o H).
  - cbn. lia.
Qed.

Lemma halloc_Held s v h : Held s h -> Held (fst (halloc s v)) h.
Proof.
  intros (ob & H1 & H2). exists ob. split; [apply hget_halloc_keep; exact H1 | exact H2].
Qed.

Lemma regenerate_spec s o ob :
  Inv noex s -> hget s o = Some ob ->
  exists s', regenerate s o = (s', Ok tt, [CkLive (KGen (supply s))]) /\
    Inv noex s' /\ Held s' o /\
    (exists ob', hget s' o = Some ob' /\ o_id ob' = KGen (supply s) /\
                 r_data (o_rec ob') = r_data (o_rec ob) /\ r_user (o_rec ob') = r_user (o_rec ob) /\
                 r_ref (o_rec ob') = r_ref (o_rec ob)) /\
    conf s' = conf s /\ (supply s <= supply s')%N.
Proof.
  intros HI Hg. unfold regenerate. rewrite Hg.
  destruct (gen_id_Inv noex s HI) as (HI1 & Hnid).
  set (nid := KGen (supply s)) in *.
  set (s1 := fst (gen_id s)) in *.
  change (gen_id s) with (s1, nid). cbv beta iota.
  assert (Hg1 : hget s1 o = Some ob) by exact Hg.
  assert (Hold : key_drawn s (o_id ob)).
  { destruct (inv_drawn _ _ HI) as (R1 & _). eauto. }
  assert (Hne : nid <> o_id ob).
  { intro H. apply (key_drawn_not_next s (o_id ob) Hold). symmetry. exact H. }
  set (ob2 := mkObj nid (set_created (o_rec ob) (now s1))).
  set (s2 := hput s1 o ob2).
  assert (HI2 : Inv (exadd noex (o_id ob)) s2) by (apply hput_Inv; auto).
  assert (Hg2 : hget s2 o = Some ob2) by (apply hget_hput_same; eapply hget_Some_lt; eauto).
  destruct (cache_set_spec _ s2 o ob2 HI2 Hg2) as (s3 & Hs3 & HI3 & HH3 & Hg3 & Hoth3 & Hc3 & Hu3 & Hl3).
  rewrite Hs3. cbn [negb]. rewrite Hg3.
  set (ob3 := mkObj (o_id ob2) (set_access (o_rec ob2) (now s2))) in *.
  set (rr := mkRec (r_created (o_rec ob3)) (now s3) (r_ip (o_rec ob3)) (r_ua (o_rec ob3)) (Some nid) None None).
  set (s4 := fst (halloc s3 (mkObj (o_id ob) rr))).
  set (ro := snd (halloc s3 (mkObj (o_id ob) rr))).
  change (halloc s3 (mkObj (o_id ob) rr)) with (s4, ro). cbv beta iota.
  assert (Hold3 : key_drawn s3 (o_id ob)).
  { apply (key_drawn_mono s s3); [|exact Hold]. rewrite Hu3. cbn. lia. }
  assert (HI4 : Inv (exdel (exadd noex (o_id ob)) (o_id ob2)) s4) by (apply halloc_Inv; auto).
  assert (Hg4 : hget s4 ro = Some (mkObj (o_id ob) rr)) by apply hget_halloc_new.
  assert (HH4 : Held s4 o) by (apply halloc_Held; exact HH3).
  assert (Hg4o : hget s4 o = Some ob3) by (apply hget_halloc_keep; exact Hg3).
  destruct (cache_set_spec _ s4 ro _ HI4 Hg4) as (s5 & Hs5 & HI5 & HH5 & Hg5 & Hoth5 & Hc5 & Hu5 & Hl5).
  pose proof (cache_set_Held_other _ s4 ro _ o ob3 HI4 Hg4 Hg4o) as HH5o.
  rewrite Hs5 in HH5o. cbn [fst o_id] in HH5o. specialize (HH5o Hne HH4).
  rewrite Hs5. cbn [negb].
  assert (Hro : ro <> o).
  { intros ->. rewrite Hg4 in Hg4o. injection Hg4o as E. apply Hne. unfold ob3. cbn. congruence. }
  eexists. split; [reflexivity|].
  assert (Hcore : core s5 = core (set_pending s5 (pending s5 ++ [((now s5 + c_grace (conf s5))%Z, o_id ob)]))) by reflexivity.
  split; [|split; [|split; [|split]]].
  - apply (Inv_core _ s5 _ Hcore). apply (Inv_weaken _ noex _ ) in HI5; [exact HI5|].
    cbn [o_id]. intros k [[[[]|H1] H2] H3]. contradiction.
  - apply (Held_core s5 _ o Hcore). exact HH5o.
  - exists ob3. split; [|cbn; auto].
    change (hget s5 o = Some ob3). rewrite Hoth5 by (intro; apply Hro; congruence). exact Hg4o.
  - change (conf s5 = conf s). rewrite Hc5. change (conf s3 = conf s). rewrite Hc3. reflexivity.
  - change (supply s <= supply s5)%N. rewrite Hu5. change (supply s <= supply s3)%N. rewrite Hu3. cbn. lia.
Qed.
