(* Characterising lemmas for Model/Base.v. *)
From Sessions Require Import Model.Base.
From Coq Require Import Lia.

Lemma bytes_eqb_eq (a b : bytes) : bytes_eqb a b = true <-> a = b.
Proof.
  revert b; induction a as [|x a IH]; intros [|y b]; simpl; split; intro H;
    try reflexivity; try discriminate.
  - apply andb_true_iff in H as [Hxy Hab]. apply N.eqb_eq in Hxy. apply IH in Hab. congruence.
  - injection H as -> ->. apply andb_true_iff; split; [apply N.eqb_refl | apply IH; reflexivity].
Qed.

Lemma bytes_eqb_refl (a : bytes) : bytes_eqb a a = true.
Proof. apply bytes_eqb_eq; reflexivity. Qed.

Lemma existsb_bytes_eqb (x : bytes) (l : list bytes) :
  existsb (bytes_eqb x) l = true <-> In x l.
Proof.
  rewrite existsb_exists. split.
  - intros [y [Hin Heq]]. apply bytes_eqb_eq in Heq. subst; assumption.
  - intro Hin. exists x. split; [assumption | apply bytes_eqb_refl].
Qed.

Lemma is_prefix_spec (p s : bytes) : is_prefix p s = true <-> exists t, s = p ++ t.
Proof.
  revert s; induction p as [|x p IH]; intros s; simpl.
  - split; [intros _; exists s; reflexivity | reflexivity].
  - destruct s as [|y s].
    + split; [discriminate | intros [t Ht]; discriminate].
    + rewrite andb_true_iff, N.eqb_eq, IH. split.
      * intros [-> [t ->]]. exists t. reflexivity.
      * intros [t Ht]. injection Ht as -> ->. split; [reflexivity | exists t; reflexivity].
Qed.

Lemma contains_spec (s p : bytes) : contains s p = true <-> exists a b, s = a ++ p ++ b.
Proof.
  induction s as [|y s IH].
  - simpl. rewrite orb_false_r, is_prefix_spec. split.
    + intros [t Ht]. exists [], t. exact Ht.
    + intros [a [b Hab]]. destruct a; [exists b; exact Hab | discriminate].
  - cbn [contains]. rewrite orb_true_iff, is_prefix_spec, IH. split.
    + intros [[t Ht] | [a [b Hab]]].
      * exists [], t. exact Ht.
      * exists (y :: a), b. simpl. rewrite Hab. reflexivity.
    + intros [[|z a] [b Hab]].
      * left. exists b. exact Hab.
      * right. simpl in Hab. injection Hab as -> ->. exists a, b. reflexivity.
Qed.

Lemma failing_nil_iff {A} (f : A -> bool) (l : list A) (i : N) :
  failing f l i = [] <-> forallb f l = true.
Proof.
  revert i; induction l as [|x l IH]; intro i; simpl.
  - split; reflexivity.
  - destruct (f x); simpl; [apply IH | split; discriminate].
Qed.
