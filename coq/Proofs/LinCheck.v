(* C15 (c): the linearizability checker that is run on recorded histories is
   sound: when it answers true, the history is the visible part of a run of
   the atomic specification ending in a map that passes the final test. *)
From Coq Require Import List Arith Lia Bool NArith.
From Sessions Require Import Model.Base Model.Lockset Proofs.Linearizable.
Import ListNotations.

Lemma op_eqb_eq : forall a b, op_eqb a b = true -> a = b.
Proof.
  intros [k v | k | k | k] [k' v' | k' | k' | k'] H; cbn in H; try discriminate;
    try (apply andb_true_iff in H; destruct H as [H1 H2]; apply Nat.eqb_eq in H1, H2; now subst);
    apply Nat.eqb_eq in H; now subst.
Qed.

Lemma res_eqb_eq : forall a b, res_eqb a b = true -> a = b.
Proof.
  intros [x |] [y |] H; cbn in H; try discriminate; auto.
  apply Nat.eqb_eq in H. now subst.
Qed.

Lemma try_cands_true : forall f cs v,
  fst (try_cands f cs v) = true -> exists u v0, In u cs /\ fst (f u v0) = true.
Proof.
  intros f cs. induction cs as [| u cs IH]; intros v H; cbn in H; [ discriminate | ].
  destruct (f u v) as [b v'] eqn:E. destruct b.
  - exists u, v. split; [ now left | now rewrite E ].
  - destruct (IH _ H) as [u' [v0 [Hin Hf]]]. exists u', v0. split; [ now right | auto ].
Qed.

Lemma search_sound : forall keys cands fin fuel h s v,
  fst (search keys cands fin fuel h s v) = true ->
  exists w a, visible w = h /\ atrace s w a /\ fin (a_map a) = true.
Proof.
  intros keys cands fin fuel. induction fuel as [| f IH]; intros h [m ths] v H; cbn [search] in H; [ discriminate | ].
  destruct (existsb (skey_eqb (key_of keys cands (mkA m ths))) (vget (length h) v)); [ discriminate | ].
  match type of H with fst (let '(b, v') := ?X in _) = true => destruct X as [b v'] eqn:E end.
  destruct b; [ clear H | discriminate ].
  cbn [a_map a_ths] in E.
  destruct h as [| [t o | t o r | t o r] h'].
  - exists [], (mkA m ths). inversion E. repeat split; auto. constructor.
  - (* invocation *)
    destruct (ths t) eqn:Et; try discriminate.
    assert (Hs : fst (search keys cands fin f h' (mkA m (set_th ths t (AInv o))) v) = true) by now rewrite E.
    destruct (IH _ _ _ Hs) as [w [a [Hv [Ht Hf]]]].
    exists (EInv t o :: w), a. repeat split; auto.
    + unfold visible in *. cbn. now rewrite Hv.
    + econstructor; [ now apply as_inv | exact Ht ].
  - discriminate.
  - (* response *)
    destruct (ths t) as [| o1 | o' r'] eqn:Et; try discriminate.
    + (* the thread has not taken effect yet: some invoked operation does, now *)
      assert (Hs : fst (try_cands (fun u v0 =>
                           match ths u with
                           | AInv ou =>
                               if Nat.eqb (op_key ou) (op_key o1) then
                                 search keys cands fin f (ERes t o r :: h')
                                        (mkA (fst (spec ou m)) (set_th ths u (ALin ou (snd (spec ou m))))) v0
                               else (false, v0)
                           | _ => (false, v0)
                           end) cands v) = true) by now rewrite E.
      destruct (try_cands_true _ _ _ Hs) as [u [v0 [_ Hu]]].
      destruct (ths u) as [| ou |] eqn:Eu; try discriminate.
      destruct (Nat.eqb (op_key ou) (op_key o1)); [ | discriminate ].
      destruct (IH _ _ _ Hu) as [w [a [Hv [Ht Hf]]]].
      exists (ELin u ou (snd (spec ou m)) :: w), a. repeat split; auto.
      econstructor; [ now apply as_lin | exact Ht ].
    + destruct (op_eqb o o' && res_eqb r r') eqn:Eq; [ | discriminate ].
      apply andb_true_iff in Eq. destruct Eq as [Ho Hr].
      apply op_eqb_eq in Ho. apply res_eqb_eq in Hr. subst o' r'.
      assert (Hs : fst (search keys cands fin f h' (mkA m (set_th ths t AIdle)) v) = true) by now rewrite E.
      destruct (IH _ _ _ Hs) as [w [a [Hv [Ht Hf]]]].
      exists (ERes t o r :: w), a. repeat split; auto.
      * unfold visible in *. cbn. now rewrite Hv.
      * econstructor; [ now apply as_res | exact Ht ].
Qed.

Theorem lin_check_sound : forall c,
  lin_check c = true ->
  linearizable_to (map_of (lc_init c)) (lc_hist c)
                  (fun m => agrees_on (lc_keys c) (lc_final c) m = true).
Proof.
  intros c H. unfold lin_check in H.
  destruct (search_sound _ _ _ _ _ _ _ H) as [w [a [Hv [Ht Hf]]]].
  exists w, a. auto.
Qed.

(* ---- the checker discriminates ---- *)

(* accepted: 3 invoked GetAndDelete first, 2 took the value *)
Example check_accepts :
  lin_check (mkCase [] [EInv 1 (OSet 0 7); ERes 1 (OSet 0 7) None;
                        EInv 3 (OGetDel 0); EInv 2 (OGetDel 0);
                        ERes 3 (OGetDel 0) None; ERes 2 (OGetDel 0) (Some 7)] [0] []) = true.
Proof. vm_compute. reflexivity. Qed.

(* rejected: two callers both obtain the value stored once *)
Example check_rejects_double_getdel :
  lin_check (mkCase [(0, 7)] [EInv 3 (OGetDel 0); EInv 2 (OGetDel 0);
                              ERes 3 (OGetDel 0) (Some 7); ERes 2 (OGetDel 0) (Some 7)] [0] []) = false.
Proof. vm_compute. reflexivity. Qed.

(* rejected: a Get returns a value overwritten before the Get was invoked *)
Example check_rejects_stale_read :
  lin_check (mkCase [(0, 1)] [EInv 1 (OSet 0 2); ERes 1 (OSet 0 2) None;
                              EInv 2 (OGet 0); ERes 2 (OGet 0) (Some 1)] [0] [(0, 2)]) = false.
Proof. vm_compute. reflexivity. Qed.

(* rejected: the final map does not follow from any order (a lost update) *)
Example check_rejects_lost_update :
  lin_check (mkCase [] [EInv 1 (OSet 0 1); EInv 2 (OSet 1 2);
                        ERes 1 (OSet 0 1) None; ERes 2 (OSet 1 2) None] [0; 1] [(1, 2)]) = false.
Proof. vm_compute. reflexivity. Qed.

(* The double hand-out really is outside the specification (not merely
   rejected by the checker): no atomic run has it as its visible part. *)
Example double_getdel_not_linearizable :
  ~ linearizable (map_of [(0, 7)])
      [EInv 3 (OGetDel 0); EInv 2 (OGetDel 0); ERes 3 (OGetDel 0) (Some 7); ERes 2 (OGetDel 0) (Some 7)].
Proof.
  intros [w [a [Hv [Ht _]]]].
  assert (Hl := atrace_legal _ _ _ Ht). cbn [ainit a_map] in Hl.
  (* both responses carry Some 7, so by atrace_response the linearization
     sequence contains two successful GetAndDelete 0 — with no Set at all *)
  assert (Hno : forall t k x r, ~ In (t, OSet k x, r) (lins w)).
  { intros t k x r Hin.
    assert (Hinv : In (EInv t (OSet k x)) (visible w)).
    { clear Hv Hl. revert Hin. generalize (ainit (map_of [(0, 7)])) as s. intros s Hin.
      assert (G : forall s w a, atrace s w a ->
                  In (t, OSet k x, r) (lins w) ->
                  In (EInv t (OSet k x)) (visible w) \/ a_ths s t = AInv (OSet k x)).
      { clear. induction 1 as [s | s s' s'' e w Hs _ IH]; cbn; intro Hin; [ contradiction | ].
        inversion Hs; subst; cbn in *.
        - destruct (IH Hin) as [H1 | H1]; auto.
          unfold set_th in H1. destruct (Nat.eqb_spec t t0); subst; auto.
          inversion H1; subst. auto.
        - destruct Hin as [Hin | Hin].
          + inversion Hin; subst. auto.
          + destruct (IH Hin) as [H1 | H1]; auto.
            unfold set_th in H1. destruct (Nat.eqb_spec t t0); subst; auto. discriminate.
        - destruct (IH Hin) as [H1 | H1]; auto.
          unfold set_th in H1. destruct (Nat.eqb_spec t t0); subst; auto. discriminate. }
      destruct (G _ _ _ Ht Hin) as [H1 | H1]; auto. cbn in H1. discriminate. }
    rewrite Hv in Hinv. cbn in Hinv. intuition discriminate. }
  (* locate the two linearization events *)
  assert (H3 : exists w1 w2, w = w1 ++ ERes 3 (OGetDel 0) (Some 7) :: w2).
  { assert (Hin : In (ERes 3 (OGetDel 0) (Some 7)) w).
    { assert (Hin : In (ERes 3 (OGetDel 0) (Some 7)) (visible w)) by (rewrite Hv; cbn; auto).
      unfold visible in Hin. apply filter_In in Hin. tauto. }
    apply in_split in Hin. exact Hin. }
  assert (H2 : exists w1 w2, w = w1 ++ ERes 2 (OGetDel 0) (Some 7) :: w2).
  { assert (Hin : In (ERes 2 (OGetDel 0) (Some 7)) w).
    { assert (Hin : In (ERes 2 (OGetDel 0) (Some 7)) (visible w)) by (rewrite Hv; cbn; auto).
      unfold visible in Hin. apply filter_In in Hin. tauto. }
    apply in_split in Hin. exact Hin. }
  destruct H3 as [w31 [w32 E3]]. destruct H2 as [w21 [w22 E2]].
  assert (A3 : after AIdle 3 w31 = ALin (OGetDel 0) (Some 7)).
  { rewrite E3 in Ht. exact (atrace_response _ _ _ _ _ _ _ Ht). }
  assert (A2 : after AIdle 2 w21 = ALin (OGetDel 0) (Some 7)).
  { rewrite E2 in Ht. exact (atrace_response _ _ _ _ _ _ _ Ht). }
  (* a thread whose state is ALin o r has an ELin t o r in the prefix *)
  assert (Hlin : forall t st w0 o r, after st t w0 = ALin o r -> st <> ALin o r \/ True ->
                 st = ALin o r \/ In (ELin t o r) w0).
  { clear. intros t st w0. revert st. induction w0 as [| e w0 IH]; intros st o r H _; cbn in H; auto.
    destruct (IH _ _ _ H (or_intror I)) as [Hst | Hin]; [ | right; now right ].
    destruct e as [u o' | u o' r' | u o' r']; destruct (Nat.eqb_spec u t); subst; auto; try discriminate.
    inversion Hst; subst. right. now left. }
  destruct (Hlin _ _ _ _ _ A3 (or_intror I)) as [? | L3]; [ discriminate | ].
  destruct (Hlin _ _ _ _ _ A2 (or_intror I)) as [? | L2]; [ discriminate | ].
  assert (In3 : In (ELin 3 (OGetDel 0) (Some 7)) w) by (rewrite E3; apply in_or_app; now left).
  assert (In2 : In (ELin 2 (OGetDel 0) (Some 7)) w) by (rewrite E2; apply in_or_app; now left).
  (* so lins w contains both entries; split it around them *)
  assert (Hsplit : forall (w : list hevent) a b, In (ELin 3 (OGetDel 0) (Some 7)) w -> In (ELin 2 (OGetDel 0) (Some 7)) w ->
            a = (3, OGetDel 0, Some 7) -> b = (2, OGetDel 0, Some 7) ->
            exists l1 l2 l3, lins w = l1 ++ a :: l2 ++ b :: l3 \/ lins w = l1 ++ b :: l2 ++ a :: l3).
  { clear. intros w a b. induction w as [| e w IH]; intros Ha Hb Ea Eb; [ contradiction | ].
    assert (Hone : forall (w : list hevent) t o r, In (ELin t o r) w -> exists l1 l2, lins w = l1 ++ (t, o, r) :: l2).
    { clear. induction w as [| e w IH]; intros t o r H; [ contradiction | ].
      destruct H as [-> | H].
      - exists [], (lins w). reflexivity.
      - destruct (IH _ _ _ H) as [l1 [l2 E]]. destruct e; cbn; rewrite ?E; eauto.
        exists ((t0, o0, r0) :: l1), l2. reflexivity. }
    destruct Ha as [-> | Ha]; destruct Hb as [Hb | Hb]; try discriminate.
    - destruct (Hone _ _ _ _ Hb) as [l2 [l3 E]]. exists [], l2, l3. left. cbn. rewrite E. now subst.
    - subst e. destruct (Hone _ _ _ _ Ha) as [l2 [l3 E]]. exists [], l2, l3. right. cbn. rewrite E. now subst.
    - destruct (IH Ha Hb Ea Eb) as [l1 [l2 [l3 [E | E]]]]; destruct e; cbn; rewrite ?E; eauto;
        exists ((t, o, r) :: l1), l2, l3; [ left | right ]; reflexivity. }
  destruct (Hsplit w _ _ In3 In2 eq_refl eq_refl) as [l1 [l2 [l3 [E | E]]]]; rewrite E in Hl, Hno;
    destruct (getdel_once _ _ _ _ _ _ _ _ _ Hl) as [t [x Hin]];
    apply (Hno t 0 x None); apply in_or_app; right; right; apply in_or_app; now left.
Qed.
