(* C05, replaced-ID records along histories with user-wide calls: non-vacuity of
   Proofs/C05RUser2.v (replrec_user, expired_ref_user). A RegenerateID followed,
   inside the grace period, by LogOut(userID) and RefreshUser as steps of the
   history; a second session of the same user; a logged-in session destroyed (so
   that the stale index lists a deleted ID) before another LogOut(userID). *)
From Sessions Require Import Model.Base Model.Sess Model.Hist Proofs.SessDefs Proofs.HistInv Proofs.HistInv3
  Proofs.HistLift Proofs.ReplRecStmt Proofs.C05RUser Proofs.C05RUser2.
Local Open Scope Z_scope.

Definition hist_U : list hop :=
  [ rq 1 true [SLogIn (5, 1)%N false]; HWait (10 * sec); rq 1 false [SRegen]; HWait (5 * sec);
    HLogoutUser 5 [] []; HWait (3 * sec); rq 2 true [SLogIn (5, 2)%N false];
    HRefreshUser (5, 9)%N [] []; HWait (2 * sec); rq 3 true [SLogIn (5, 3)%N false; SDestroy];
    rq 1 false [SSet 1 1]; HLogoutUser 5 [] []; forge 4 (KGen 1); HRefreshUser (5, 4)%N [] [] ].

Definition cfU : cfg := cfT max64 3 true.

Example hist_U_hops : Forall uok hist_U /\ Forall ff_hop hist_U /\ Forall crash_free hist_U.
Proof.
  split; [|split]; [|repeat constructor..].
  repeat (constructor; [first [solve [left; repeat constructor] | solve [right; reflexivity]]|]). constructor.
Qed.

Example hist_U_guarded : guarded (mkWorld (init_st cfU) []) hist_U.
Proof. apply guarded_b_sound. vm_compute. reflexivity. Qed.

(* the theorem applies: every replaced-ID record of that run has
   created = lastAccess and no user; C05's last clause holds of each *)
Example hist_U_applies :
  forall k r, lookup (store (w_st (reach cfU hist_U))) k = Some r -> r_ref r <> None ->
              r_created r = r_access r /\ r_user r = None.
Proof.
  destruct hist_U_hops as (A & B & C). exact (proj1 (proj2 (replrec_user cfU hist_U A B C hist_U_guarded))).
Qed.

(* what the run looks like: the replaced-ID records in the store at the end, the
   stale index (graves) with the destroyed session of user 5, the IDs listed for
   user 5 before the last RefreshUser - a deleted one among them *)
Example hist_U_run :
  map (fun kr => (fst kr, r_ref (snd kr), r_created (snd kr), r_access (snd kr)))
      (filter (fun kr => match r_ref (snd kr) with Some _ => true | None => false end)
              (store (w_st (reach cfU hist_U)))) <> [] /\
  In (KGen 6, Some 5%N) (graves (w_st (reach cfU hist_U))) /\
  In (KGen 6) (listed (w_st (reach cfU (firstn 13 hist_U))) 5).
Proof. vm_compute. split; [discriminate | split; auto 10]. Qed.

(* ---- the full theorem (Proofs/C05RUser4.v): no side condition; a history
   with an exclusive LogIn inside a script as well ---- *)
From Sessions Require Import Proofs.C05RUser3 Proofs.C05RUser4.

Definition hist_V : list hop :=
  [ rq 1 true [SLogIn (5, 1)%N false]; HWait (10 * sec); rq 1 false [SRegen]; HWait (5 * sec);
    HLogoutUser 5 [] []; HWait (3 * sec); rq 2 true [SLogIn (5, 2)%N true; SRegen];
    HRefreshUser (5, 9)%N [] []; HWait (2 * sec); rq 3 true [SLogIn (5, 3)%N false; SDestroy];
    rq 1 false [SSet 1 1; SLogIn (5, 4)%N true]; HLogoutUser 5 [] []; forge 4 (KGen 1); HDropCache;
    HRefreshUser (5, 4)%N [] []; HWait (60 * sec); rq 2 false [SLogIn (5, 6)%N true] ].

Example hist_V_hops : Forall ff_hop hist_V /\ Forall crash_free hist_V.
Proof. split; repeat constructor. Qed.

Example hist_V_applies :
  forall k r, lookup (store (w_st (reach cfU hist_V))) k = Some r -> r_ref r <> None ->
              r_created r = r_access r /\ r_user r = None.
Proof. exact (proj1 (proj2 (replrec_full cfU hist_V (proj1 hist_V_hops) (proj2 hist_V_hops)))). Qed.

(* the run: replaced-ID records exist at the end; every step succeeded; the
   stale index holds the destroyed session of user 5 *)
Example hist_V_run :
  map (fun kr => (fst kr, r_ref (snd kr), r_created (snd kr), r_access (snd kr)))
      (filter (fun kr => match r_ref (snd kr) with Some _ => true | None => false end)
              (store (w_st (reach cfU hist_V)))) <> [] /\
  forallb (fun o => match ob_res o with RSess | RVoid => true | _ => false end) (run cfU hist_V) = true /\
  existsb (fun kg => match snd kg with Some 5%N => true | _ => false end) (graves (w_st (reach cfU hist_V))) = true /\
  repl_ok_st (w_st (reach cfU hist_V)) = true.
Proof. vm_compute. split; [discriminate | repeat split]. Qed.

(* ---- the instant of the replacement (Proofs/C05RUser7.v) ---- *)
From Sessions Require Import Proofs.C05RUser6 Proofs.C05RUser7.

(* JSON store; the session is created, logs in, and 10.7 s later a request
   rotates its ID (draws KGen 2); later a wait, LogOut(5), a purge, cache loss *)
Definition hist_I1 : list hop := [ rq 1 true [SLogIn (5, 1)%N false]; HWait (10 * sec + 700000000) ].
Definition req_I : reqstep := mkReqStep 1 PJar false A1 7 [SRegen] [] [] None.
Definition hist_I2 : list hop := [ HWait (5 * sec); HLogoutUser 5 [] []; HPurge [] []; HDropCache; HWait (7 * sec) ].

Example instant_hyps :
  Forall ff_hop hist_I1 /\ Forall crash_free hist_I1 /\ Forall ff_hop hist_I2 /\ Forall crash_free hist_I2.
Proof. repeat split; repeat constructor. Qed.

Example instant_run :
  let w := reach cfU hist_I1 in let w1 := fst (step w (HReq req_I)) in
  now (w_st w) = 10 * sec + 700000000 /\ supply (w_st w) = 2%N /\ supply (w_st w1) = 3%N /\
  option_map (fun rc => (r_ref rc, r_created rc, r_access rc)) (lookup (store (w_st (after w1 hist_I2))) (KGen 1)) =
    Some (Some (KGen 2), 10 * sec, 10 * sec) /\
  flo (10 * sec + 700000000) = 10 * sec.
Proof. vm_compute. repeat split. Qed.

Example instant_applies :
  let w := reach cfU hist_I1 in let w1 := fst (step w (HReq req_I)) in
  forall rc, lookup (store (w_st (after w1 hist_I2))) (KGen 1) = Some rc -> r_ref rc = Some (KGen 2) ->
    r_created rc = r_access rc /\ (r_access rc = now (w_st w) \/ r_access rc = flo (now (w_st w))).
Proof.
  cbv zeta. intros rc Hl Hr. destruct instant_hyps as (A & B & C & D).
  apply (replaced_instant (reach cfU hist_I1) req_I hist_I2 (TW_reach cfU hist_I1 A B) eq_refl eq_refl C D (KGen 1) rc 2%N Hl Hr).
  vm_compute. split; [discriminate | reflexivity].
Qed.
