(* B2 (C05), part (a): the decomposition of Start at its cache operations
   (Model/StartSteps.v) is faithful - with the hook that does nothing it is
   Sess.start, for every state and request, whatever the fault plan - and the
   interruption point 0 is literally "the clean-ups run, then Start". *)
From Sessions Require Import Model.Base Model.Sess Model.StartSteps.

Lemma regenerate_no_hook n s o : regenerate_h no_hook n s o = regenerate s o.
Proof. reflexivity. Qed.

Lemma destroy_no_hook n s o hc : destroy_h no_hook n s o hc = destroy s o hc.
Proof. reflexivity. Qed.

Lemma create_no_hook n s q : create_session_h no_hook n s q = create_session s q.
Proof. reflexivity. Qed.

Lemma follow_id fuel : forall n s o lk, follow_h (fun _ s => s) n fuel s o lk = follow fuel s o lk.
Proof.
  induction fuel as [|f IH]; intros n s o lk; cbn [follow_h follow].
  - reflexivity.
  - destruct (hget s o) as [ob|]; [|reflexivity].
    destruct (r_ref (o_rec ob)) as [t|]; [|reflexivity].
    destruct (cache_get s t) as [s1 [[o1|]|]]; try reflexivity.
    apply IH.
Qed.

Lemma follow_no_hook fuel n s o lk : follow_h no_hook n fuel s o lk = follow fuel s o lk.
Proof. apply follow_id. Qed.

Theorem start_body_no_hook s q : start_body no_hook s q = start s q.
Proof.
  unfold start_body, start, no_hook. cbv beta.
  destruct (q_cookie q) as [|k|x]; try reflexivity.
  destruct (cache_get s k) as [s1 [[o|]|]]; try reflexivity.
  destruct (hget s1 o) as [ob|]; [|reflexivity].
  destruct (negb _); [reflexivity|].
  destruct (r_ref (o_rec ob)) as [t|]; cbn [negb andb]; [|reflexivity].
  destruct (sat_add _ _ <=? _)%Z; [destruct (cache_delete s1 k) as [s2 [|]]; reflexivity|].
  rewrite follow_id. reflexivity.
Qed.

(* (a) no interruption point: Start itself *)
Theorem start_interrupted_none s q : start_interrupted s q None = start s q.
Proof. unfold start_interrupted, start_h. unfold no_hook at 2. apply start_body_no_hook. Qed.

(* interruption point 0: the clean-ups that are due run, then Start *)
Theorem start_interrupted_0 s q : start_interrupted s q (Some 0) = start_body (fire_at 0) (fire_due s) q.
Proof. reflexivity. Qed.

(* The reference loop returns an object only at the instant it has seen that the
   object carries no reference: whatever the hook does, in whatever state. *)
Lemma follow_h_never_placeholder h fuel : forall n s o lk s' o' lk',
  follow_h h n fuel s o lk = (s', Ok (o', lk')) ->
  exists ob, hget s' o' = Some ob /\ r_ref (o_rec ob) = None.
Proof.
  induction fuel as [|f IH]; intros n s o lk s' o' lk' H; cbn [follow_h] in H.
  - destruct (hget s o) as [ob|] eqn:Hg; [|discriminate].
    destruct (r_ref (o_rec ob)) as [t|] eqn:Hr; [discriminate|].
    injection H as <- <- <-. exists ob. split; assumption.
  - destruct (hget s o) as [ob|] eqn:Hg; [|discriminate].
    destruct (r_ref (o_rec ob)) as [t|] eqn:Hr.
    + destruct (cache_get s t) as [s1 [[o1|]|]]; try discriminate. exact (IH _ _ _ _ _ _ _ H).
    + injection H as <- <- <-. exists ob. split; assumption.
Qed.
