(* C12, part 3: compaction as a whole and the cache entry points Set, Get,
   Delete, PurgeSessions. Size bound, N = 0, N < 0, least-recently-used order,
   idle sweep, flush before drop, invariance of the logical contents.
   Fault-free; hypotheses are plan = [], cache_live (weaker than cache_ok) and
   unique cache keys. *)
From Sessions Require Import Model.Base Model.Sess Model.Hist Proofs.SessDefs
  Proofs.CacheInv Proofs.CacheInv2.
From Coq Require Import Lia.
Local Open Scope Z_scope.

(* the standing assumptions on a state *)
Definition cinv (s : st) : Prop :=
  plan s = [] /\ cache_live s /\ NoDup (map fst (cache s)).

Lemma cinv_of_ok s : plan s = [] -> cache_ok s -> NoDup (map fst (cache s)) -> cinv s.
Proof. intros Hp Hok Hnd. split; [exact Hp|]. split; [apply cache_ok_live; exact Hok | exact Hnd]. Qed.

(* ------------------------------------------------------------------------ *)
(* compact as a whole *)

Lemma compact_inv s r : cinv s -> cinv (compact s r) /\ frame s (compact s r).
Proof.
  intros [Hp [Hl Hnd]]. destruct (compact_drops s r Hp Hl Hnd) as [D Hd].
  pose proof (drops_frame _ _ _ _ Hd) as Hf. split; [|exact Hf].
  split; [rewrite (fr_plan _ _ Hf); exact Hp|].
  split; [exact (drops_live _ _ _ _ Hd Hl) | exact (drops_NoDup_keys _ _ _ _ Hd Hnd)].
Qed.

(* C12_idle, as a list equation on the sweep phase, and for compact: nothing
   idle survives, and whatever survives was there before *)
Lemma compact_survivor s r e :
  cinv s -> In e (cache (compact s r)) -> In e (cache s) /\ is_idle s e = false.
Proof.
  intros [Hp [Hl Hnd]] He. rewrite compact_phases in He by assumption.
  destruct (sweep_phase_spec s Hp Hl Hnd) as [D1 [_ [Hd1 [Hc1 _]]]].
  destruct (sweep_phase_inv s Hp Hl Hnd) as [Hf [Hl1 Hnd1]].
  assert (Hp1 : plan (sweep_phase s) = []) by (rewrite (fr_plan _ _ Hf); exact Hp).
  destruct (size_phase_spec (sweep_phase s) r Hp1 Hl1 Hnd1) as [D2 [Hd2 _]].
  apply (drops_In _ _ _ _ e Hd2) in He. rewrite Hc1 in He. apply filter_In in He.
  destruct He as [He Hi]. apply Bool.negb_true_iff in Hi. tauto.
Qed.

(* the size after compaction *)
Lemma compact_bound s r :
  cinv s -> 0 <= c_maxcache (conf s) ->
  Z.of_nat (length (cache (compact s r))) + Z.min r (c_maxcache (conf s)) <= c_maxcache (conf s).
Proof.
  intros [Hp [Hl Hnd]] Hmx. rewrite compact_phases by assumption.
  destruct (sweep_phase_inv s Hp Hl Hnd) as [Hf [Hl1 Hnd1]].
  assert (Hp1 : plan (sweep_phase s) = []) by (rewrite (fr_plan _ _ Hf); exact Hp).
  destruct (size_phase_spec (sweep_phase s) r Hp1 Hl1 Hnd1) as [D2 [_ [_ [Hb _]]]].
  rewrite (fr_conf _ _ Hf) in Hb. apply Hb. exact Hmx.
Qed.

(* C12_unbounded at the level of compact: with N < 0 only the sweep acts *)
Lemma compact_unbounded s r :
  cinv s -> c_maxcache (conf s) < 0 ->
  compact s r = sweep_phase s /\
  cache (compact s r) = filter (fun e => negb (is_idle s e)) (cache s).
Proof.
  intros [Hp [Hl Hnd]] Hmx. rewrite compact_phases by assumption.
  destruct (sweep_phase_spec s Hp Hl Hnd) as [D1 [_ [_ [Hc1 _]]]].
  destruct (sweep_phase_inv s Hp Hl Hnd) as [Hf _].
  assert (E : size_phase (sweep_phase s) r = sweep_phase s).
  { unfold size_phase. rewrite (fr_conf _ _ Hf).
    destruct (Z.ltb_spec (c_maxcache (conf s)) 0); [reflexivity | lia]. }
  rewrite E. split; [reflexivity | exact Hc1].
Qed.

(* no eviction when the swept cache has room; exact fit when it has not *)
Lemma compact_room s r :
  cinv s ->
  Z.of_nat (length (cache (sweep_phase s))) + r <= c_maxcache (conf s) ->
  compact s r = sweep_phase s.
Proof.
  intros [Hp [Hl Hnd]] Hroom. rewrite compact_phases by assumption.
  destruct (sweep_phase_inv s Hp Hl Hnd) as [Hf [Hl1 Hnd1]].
  assert (Hp1 : plan (sweep_phase s) = []) by (rewrite (fr_plan _ _ Hf); exact Hp).
  destruct (size_phase_spec (sweep_phase s) r Hp1 Hl1 Hnd1) as [D2 [_ [Hs _]]].
  rewrite (fr_conf _ _ Hf) in Hs. apply Hs. right. exact Hroom.
Qed.

Lemma compact_exact s r :
  cinv s -> 0 <= c_maxcache (conf s) ->
  c_maxcache (conf s) < Z.of_nat (length (cache (sweep_phase s))) + r ->
  Z.of_nat (length (cache (compact s r))) + Z.min r (c_maxcache (conf s)) = c_maxcache (conf s).
Proof.
  intros [Hp [Hl Hnd]] Hmx Hover. rewrite compact_phases by assumption.
  destruct (sweep_phase_inv s Hp Hl Hnd) as [Hf [Hl1 Hnd1]].
  assert (Hp1 : plan (sweep_phase s) = []) by (rewrite (fr_plan _ _ Hf); exact Hp).
  destruct (size_phase_spec (sweep_phase s) r Hp1 Hl1 Hnd1) as [D2 [_ [_ [_ Hx]]]].
  rewrite (fr_conf _ _ Hf) in Hx. apply Hx; assumption.
Qed.

(* what becomes of a key *)
Lemma compact_fate s r k :
  cinv s ->
  (lookup (cache (compact s r)) k = lookup (cache s) k /\
   lookup (store (compact s r)) k = lookup (store s) k) \/
  (exists o ob, lookup (cache s) k = Some o /\ hget s o = Some ob /\
                lookup (cache (compact s r)) k = None /\
                lookup (store (compact s r)) k = Some (codec (conf s) (o_rec ob))).
Proof.
  intros [Hp [Hl Hnd]]. destruct (compact_drops s r Hp Hl Hnd) as [D Hd].
  exact (drops_fate _ _ _ _ k Hd).
Qed.

(* C12_flush for compact *)
Lemma compact_flush s r k o ob :
  cinv s -> lookup (cache s) k = Some o -> hget s o = Some ob ->
  lookup (cache (compact s r)) k = None ->
  lookup (store (compact s r)) k = Some (codec (conf s) (o_rec ob)).
Proof.
  intros Hi Hk Hob Hgone. destruct (compact_fate s r k Hi) as [[H1 _]|[o' [ob' [H1 [H2 [_ H4]]]]]].
  - congruence.
  - rewrite Hk in H1. injection H1 as <-. rewrite Hob in H2. injection H2 as <-. exact H4.
Qed.

Lemma compact_uncached s r k :
  cinv s -> lookup (cache s) k = None ->
  lookup (cache (compact s r)) k = None /\ lookup (store (compact s r)) k = lookup (store s) k.
Proof.
  intros Hi Hk. destruct (compact_fate s r k Hi) as [[H1 H2]|[o' [ob' [H1 _]]]]; [|congruence].
  rewrite H1, H2. tauto.
Qed.

Lemma compact_Lc s r k : cinv s -> Lc (compact s r) k = Lc s k.
Proof.
  intros [Hp [Hl Hnd]]. destruct (compact_drops s r Hp Hl Hnd) as [D Hd].
  exact (drops_Lc _ _ _ _ k Hd).
Qed.

Lemma compact_store_norm s r : cinv s -> store_norm s -> store_norm (compact s r).
Proof.
  intros [Hp [Hl Hnd]]. destruct (compact_drops s r Hp Hl Hnd) as [D Hd].
  exact (drops_store_norm _ _ _ _ Hd).
Qed.

(* an entry that left made the cache shorter *)
Lemma compact_dropped_len s r k o :
  cinv s -> lookup (cache s) k = Some o -> lookup (cache (compact s r)) k = None ->
  (S (length (cache (compact s r))) <= length (cache s))%nat.
Proof.
  intros [Hp [Hl Hnd]] Hk Hgone. destruct (compact_drops s r Hp Hl Hnd) as [D Hd].
  pose proof (drops_length _ _ _ _ Hd Hnd) as Hlen.
  destruct D as [|d D].
  - destruct (drops_kept _ _ _ _ k Hd (fun H => H)) as [H1 _]. congruence.
  - simpl in Hlen. lia.
Qed.

Lemma compact_shrinks s r : cinv s -> (length (cache (compact s r)) <= length (cache s))%nat.
Proof.
  intros [Hp [Hl Hnd]]. destruct (compact_drops s r Hp Hl Hnd) as [D Hd].
  pose proof (drops_length _ _ _ _ Hd Hnd). lia.
Qed.

(* ------------------------------------------------------------------------ *)
(* Set: the access time is refreshed first *)

Definition touch (s : st) (o : nat) : st := hupd s o (fun r => set_access r (now s)).

Definition touched (s : st) (ob : obj) : obj := mkObj (o_id ob) (set_access (o_rec ob) (now s)).

Lemma touch_eq s o ob : hget s o = Some ob -> touch s o = hput s o (touched s ob).
Proof. intro H. unfold touch, hupd. rewrite H. reflexivity. Qed.

Lemma touch_frame s o :
  cache (touch s o) = cache s /\ store (touch s o) = store s /\ conf (touch s o) = conf s /\
  plan (touch s o) = plan s /\ now (touch s o) = now s /\ tb (touch s o) = tb s /\
  length (heap (touch s o)) = length (heap s).
Proof.
  unfold touch, hupd. destruct (hget s o); [|repeat split; reflexivity].
  unfold hput. cbn. repeat split; try reflexivity. apply replace_nth_length.
Qed.

Lemma hget_touch_same s o ob : hget s o = Some ob -> hget (touch s o) o = Some (touched s ob).
Proof. intro H. rewrite (touch_eq s o ob H). apply hget_hput_same. exact (hget_Some_lt s o ob H). Qed.

Lemma hget_touch_other s o o' : o <> o' -> hget (touch s o) o' = hget s o'.
Proof.
  intro H. unfold touch, hupd. destruct (hget s o); [|reflexivity]. apply hget_hput_other. exact H.
Qed.

Lemma touch_cinv s o : cinv s -> cinv (touch s o).
Proof.
  intros [Hp [Hl Hnd]]. destruct (touch_frame s o) as [Hc [_ [_ [Hpl _]]]].
  split; [rewrite Hpl; exact Hp|]. split; [|rewrite Hc; exact Hnd].
  intros k o' Hk. rewrite Hc in Hk. destruct (Hl k o' Hk) as [ob' Hob'].
  destruct (Nat.eq_dec o o') as [E|E].
  - subst o'. exists (touched s ob'). apply hget_touch_same. exact Hob'.
  - exists ob'. rewrite hget_touch_other by exact E. exact Hob'.
Qed.

Lemma p_save_cache s k r : cache (fst (p_save s k r)) = cache s /\ conf (fst (p_save s k r)) = conf s /\
  heap (fst (p_save s k r)) = heap s.
Proof. unfold p_save, next_fault. destruct (plan s) as [|[|] p]; repeat split; reflexivity. Qed.

(* the state just before the write-through save of cache.Set *)
Definition set_mid (s : st) (o : nat) (k : key) : st :=
  let s2 := compact (touch s o) (if has (cache s) k then 0 else 1) in
  if c_maxcache (conf s2) =? 0 then s2 else set_cache s2 (upsert (cache s2) k o).

Lemma cache_set_eq s o ob : hget s o = Some ob ->
  cache_set s o = p_save (set_mid s o (o_id ob)) (o_id ob) (set_access (o_rec ob) (now s)).
Proof.
  intro H. unfold cache_set. rewrite H. fold (touch s o). rewrite (hget_touch_same s o ob H).
  cbn [touched o_id o_rec]. unfold set_mid. destruct (touch_frame s o) as [Hc _]. rewrite Hc.
  reflexivity.
Qed.

Lemma cache_set_cache s o ob : hget s o = Some ob ->
  cache (fst (cache_set s o)) = cache (set_mid s o (o_id ob)).
Proof. intro H. rewrite (cache_set_eq s o ob H). apply p_save_cache. Qed.

Lemma cache_set_none s o : hget s o = None -> cache_set s o = (s, true).
Proof. intro H. unfold cache_set. rewrite H. reflexivity. Qed.

Section SetFacts.
  Variables (s : st) (o : nat) (ob : obj).
  Hypothesis Hi : cinv s.
  Hypothesis Hob : hget s o = Some ob.
  Let k := o_id ob.
  Let s1 := touch s o.
  Let r := if has (cache s) k then 0 else 1.
  Let s2 := compact s1 r.
  Let mx := c_maxcache (conf s).

  Lemma set_s1_inv : cinv s1.
  Proof. apply touch_cinv. exact Hi. Qed.

  Lemma set_conf2 : conf s2 = conf s.
  Proof.
    destruct (compact_inv s1 r set_s1_inv) as [_ Hf]. unfold s2. rewrite (fr_conf _ _ Hf).
    apply (touch_frame s o).
  Qed.

  Lemma set_cache1 : cache s1 = cache s.
  Proof. apply (touch_frame s o). Qed.

  Lemma set_mid_cache :
    cache (set_mid s o k) = if mx =? 0 then cache s2 else upsert (cache s2) k o.
  Proof.
    unfold set_mid. fold s1 r s2. rewrite set_conf2. fold mx. destruct (mx =? 0); reflexivity.
  Qed.

  Lemma set_r_cases : (lookup (cache s) k = None /\ r = 1) \/ (exists o0, lookup (cache s) k = Some o0 /\ r = 0).
  Proof.
    unfold r, has. destruct (lookup (cache s) k) as [o0|]; [right; exists o0; tauto | left; tauto].
  Qed.

  (* C12_bound, the written ID was not cached *)
  Lemma set_bound_new :
    0 < mx -> lookup (cache s) k = None ->
    Z.of_nat (length (cache (fst (cache_set s o)))) <= mx.
  Proof.
    intros Hmx Hk. rewrite (cache_set_cache s o ob Hob). fold k. rewrite set_mid_cache.
    destruct (Z.eqb_spec mx 0) as [E|_]; [lia|].
    assert (Hr : r = 1) by (destruct set_r_cases as [[_ H]|[o0 [H _]]]; [exact H | congruence]).
    pose proof (compact_bound s1 r set_s1_inv) as Hb. fold s2 in Hb.
    replace (conf s1) with (conf s) in Hb by (symmetry; apply (touch_frame s o)). fold mx in Hb.
    rewrite Hr in Hb. rewrite Z.min_l in Hb by lia.
    destruct (compact_uncached s1 r k set_s1_inv) as [Hk2 _]; [rewrite set_cache1; exact Hk|].
    fold s2 in Hk2. rewrite length_upsert_new by exact Hk2. lia.
  Qed.

  (* the unconditional bounds *)
  Lemma set_bound_weak :
    0 <= mx -> Z.of_nat (length (cache (fst (cache_set s o)))) <= mx + 1.
  Proof.
    intros Hmx. rewrite (cache_set_cache s o ob Hob). fold k. rewrite set_mid_cache.
    pose proof (compact_bound s1 r set_s1_inv) as Hb. fold s2 in Hb.
    replace (conf s1) with (conf s) in Hb by (symmetry; apply (touch_frame s o)). fold mx in Hb.
    assert (Hr : 0 <= Z.min r mx) by (unfold r; destruct (has (cache s) k); lia).
    destruct (mx =? 0); [lia|]. pose proof (length_upsert_le (cache s2) k o). lia.
  Qed.

  (* C12_zero *)
  Lemma set_zero : mx = 0 -> cache (fst (cache_set s o)) = [].
  Proof.
    intros Hmx. rewrite (cache_set_cache s o ob Hob). fold k. rewrite set_mid_cache. rewrite Hmx.
    cbn [Z.eqb]. pose proof (compact_bound s1 r set_s1_inv) as Hb. fold s2 in Hb.
    replace (conf s1) with (conf s) in Hb by (symmetry; apply (touch_frame s o)). fold mx in Hb.
    assert (Hr : 0 <= Z.min r mx) by (unfold r; destruct (has (cache s) k); lia).
    apply length_zero_iff_nil. lia.
  Qed.

  (* C12_bound, the written ID was cached: the bound holds when the entry
     survives compaction ... *)
  Lemma set_bound_survives :
    0 <= mx -> lookup (cache s2) k <> None ->
    Z.of_nat (length (cache (fst (cache_set s o)))) <= mx.
  Proof.
    intros Hmx Hk2. rewrite (cache_set_cache s o ob Hob). fold k. rewrite set_mid_cache.
    pose proof (compact_bound s1 r set_s1_inv) as Hb. fold s2 in Hb.
    replace (conf s1) with (conf s) in Hb by (symmetry; apply (touch_frame s o)). fold mx in Hb.
    assert (Hr : 0 <= Z.min r mx) by (unfold r; destruct (has (cache s) k); lia).
    destruct (mx =? 0); [lia|]. rewrite length_upsert_old by exact Hk2. lia.
  Qed.

  (* ... and when it does not, every surviving entry is another ID whose access
     time is not below that of the cached entry for k (after the refresh) *)
  Lemma set_dropped_ties o0 :
    lookup (cache s) k = Some o0 -> lookup (cache s2) k = None ->
    forall e, In e (cache s2) ->
      In e (cache s) /\ fst e <> k /\ obj_access s1 o0 <= obj_access s1 (snd e).
  Proof.
    intros Hk Hk2 e He. destruct set_s1_inv as [Hp1 [Hl1 Hnd1]].
    split; [|split].
    - rewrite <- set_cache1. apply (compact_survivor s1 r e set_s1_inv He).
    - intro E. apply lookup_None_notin in Hk2. apply Hk2. rewrite <- E. apply in_map. exact He.
    - apply (compact_order s1 r Hp1 Hl1 Hnd1 k o0); [rewrite set_cache1; exact Hk | exact Hk2 | exact He].
  Qed.

  (* the entries that could tie with, or beat, the written one *)
  Definition rivals (o0 : nat) : list (key * nat) :=
    filter (fun e => negb (key_eqb k (fst e)) && (obj_access s1 o0 <=? obj_access s1 (snd e))) (cache s).

  Lemma set_bound_cached o0 :
    0 < mx -> lookup (cache s) k = Some o0 ->
    (Z.of_nat (length (cache s)) <= mx \/ Z.of_nat (length (rivals o0)) < mx) ->
    Z.of_nat (length (cache (fst (cache_set s o)))) <= mx.
  Proof.
    intros Hmx Hk Hside. destruct (lookup (cache s2) k) as [o2|] eqn:Hk2.
    { apply set_bound_survives; [lia | congruence]. }
    rewrite (cache_set_cache s o ob Hob). fold k. rewrite set_mid_cache.
    destruct (Z.eqb_spec mx 0) as [E|_]; [lia|]. rewrite length_upsert_new by exact Hk2.
    destruct Hside as [Hw|Hfew].
    - pose proof (compact_dropped_len s1 r k o0 set_s1_inv) as Hd. fold s2 in Hd.
      rewrite set_cache1 in Hd. specialize (Hd Hk Hk2). lia.
    - assert (Hle : (length (cache s2) <= length (rivals o0))%nat).
      { apply NoDup_incl_length.
        - destruct (compact_inv s1 r set_s1_inv) as [[_ [_ Hnd2]] _]. fold s2 in Hnd2.
          exact (NoDup_map_inv fst (cache s2) Hnd2).
        - intros e He. destruct (set_dropped_ties o0 Hk Hk2 e He) as [H1 [H2 H3]].
          unfold rivals. apply filter_In. split; [exact H1|]. apply andb_true_intro. split.
          + apply Bool.negb_true_iff. apply key_eqb_neq. congruence.
          + apply Z.leb_le. exact H3. }
      lia.
  Qed.

  (* C12_unbounded *)
  Lemma set_unbounded :
    mx < 0 ->
    cache (fst (cache_set s o)) = upsert (filter (fun e => negb (is_idle s1 e)) (cache s)) k o.
  Proof.
    intros Hmx. rewrite (cache_set_cache s o ob Hob). fold k. rewrite set_mid_cache.
    destruct (Z.eqb_spec mx 0) as [E|_]; [lia|].
    destruct (compact_unbounded s1 r set_s1_inv) as [_ Hc].
    { replace (conf s1) with (conf s) by (symmetry; apply (touch_frame s o)). exact Hmx. }
    fold s2 in Hc. rewrite Hc, set_cache1. reflexivity.
  Qed.

  (* the other entries after the write: survivors of compaction *)
  Lemma set_other_entry e :
    In e (cache (fst (cache_set s o))) -> fst e <> k -> In e (cache s2).
  Proof.
    rewrite (cache_set_cache s o ob Hob). fold k. rewrite set_mid_cache.
    destruct (mx =? 0); [tauto|]. intros He Hne.
    clear - He Hne. induction (cache s2) as [|[k' v'] l IH]; simpl in He.
    - destruct He as [He|[]]. subst e. simpl in Hne. congruence.
    - destruct (key_eqb k k') eqn:E.
      + destruct He as [He|He]; [subst e; simpl in Hne; congruence | right; exact He].
      + destruct He as [He|He]; [left; exact He | right; apply IH; exact He].
  Qed.

  Lemma set_other_lookup k' :
    k' <> k -> lookup (cache (fst (cache_set s o))) k' = lookup (cache s2) k'.
  Proof.
    intro Hne. rewrite (cache_set_cache s o ob Hob). fold k. rewrite set_mid_cache.
    destruct (mx =? 0); [reflexivity|]. apply lookup_upsert_other. exact Hne.
  Qed.

  (* C12_idle and C12_lru for Set: another ID that is still cached afterwards
     was cached before, is not idle, and is no older than any ID that left *)
  Lemma set_survivor e :
    In e (cache (fst (cache_set s o))) -> fst e <> k ->
    In e (cache s) /\ is_idle s1 e = false.
  Proof.
    intros He Hne. rewrite <- set_cache1. apply (compact_survivor s1 r e set_s1_inv).
    apply set_other_entry; assumption.
  Qed.

  Lemma set_lru k' o' e :
    lookup (cache s) k' = Some o' -> k' <> k -> lookup (cache (fst (cache_set s o))) k' = None ->
    In e (cache (fst (cache_set s o))) -> fst e <> k ->
    obj_access s1 o' <= obj_access s1 (snd e).
  Proof.
    intros Hk' Hne Hgone He Hne'. destruct set_s1_inv as [Hp1 [Hl1 Hnd1]].
    apply (compact_order s1 r Hp1 Hl1 Hnd1 k' o').
    - rewrite set_cache1. exact Hk'.
    - fold s2. rewrite <- set_other_lookup by exact Hne. exact Hgone.
    - fold s2. apply set_other_entry; assumption.
  Qed.

  (* C12_flush for Set *)
  Lemma set_flush k' o' ob' :
    lookup (cache s) k' = Some o' -> hget s1 o' = Some ob' -> k' <> k ->
    lookup (cache (fst (cache_set s o))) k' = None ->
    lookup (store (fst (cache_set s o))) k' = Some (codec (conf s) (o_rec ob')).
  Proof.
    intros Hk' Hob' Hne Hgone. rewrite set_other_lookup in Hgone by exact Hne.
    pose proof (compact_flush s1 r k' o' ob' set_s1_inv) as Hfl. fold s2 in Hfl.
    rewrite set_cache1 in Hfl. specialize (Hfl Hk' Hob' Hgone).
    replace (conf s1) with (conf s) in Hfl by (symmetry; apply (touch_frame s o)).
    rewrite (cache_set_eq s o ob Hob). fold k.
    assert (Hp3 : plan (set_mid s o k) = []).
    { unfold set_mid. fold s1 r s2. destruct (compact_inv s1 r set_s1_inv) as [[Hp2 _] _]. fold s2 in Hp2.
      destruct (c_maxcache (conf s2) =? 0); exact Hp2. }
    rewrite p_save_ff by exact Hp3. cbn [fst log set_store set_evs store].
    rewrite lookup_upsert_other by exact Hne.
    unfold set_mid. fold s1 r s2. destruct (c_maxcache (conf s2) =? 0); exact Hfl.
  Qed.

  Lemma set_cinv : cinv (fst (cache_set s o)).
  Proof.
    destruct (compact_inv s1 r set_s1_inv) as [[Hp2 [Hl2 Hnd2]] Hf2]. fold s2 in Hp2, Hl2, Hnd2, Hf2.
    assert (Hm : cinv (set_mid s o k)).
    { unfold set_mid. fold s1 r s2. destruct (c_maxcache (conf s2) =? 0); [repeat split; assumption|].
      split; [exact Hp2|]. split.
      - intros k' o' Hk'. cbn [set_cache cache] in Hk'.
        change (hget (set_cache s2 (upsert (cache s2) k o)) o') with (hget s2 o').
        destruct (key_eq_dec k' k) as [E|E].
        + subst k'. rewrite lookup_upsert_same in Hk'. injection Hk' as <-.
          rewrite (hget_heap s1 s2) by (apply Hf2). exists (touched s ob). apply hget_touch_same. exact Hob.
        + rewrite lookup_upsert_other in Hk' by exact E. exact (Hl2 k' o' Hk').
      - cbn [set_cache cache]. apply NoDup_keys_upsert. exact Hnd2. }
    destruct Hm as [Hp3 [Hl3 Hnd3]]. rewrite (cache_set_eq s o ob Hob). fold k.
    rewrite p_save_ff by exact Hp3. cbn [fst]. repeat split; assumption.
  Qed.
End SetFacts.

(* ------------------------------------------------------------------------ *)
(* Get *)

Lemma cache_get_hit s k o : lookup (cache s) k = Some o -> cache_get s k = (s, Some (Some o)).
Proof. intro H. unfold cache_get. rewrite H. reflexivity. Qed.

Lemma same_but_evs_fields s s' : same_but_evs s s' ->
  heap s' = heap s /\ cache s' = cache s /\ store s' = store s /\ conf s' = conf s /\
  plan s' = plan s /\ now s' = now s /\ tb s' = tb s.
Proof. intros [l ->]. repeat split; reflexivity. Qed.

Lemma cache_get_absent s k :
  plan s = [] -> lookup (cache s) k = None -> lookup (store s) k = None ->
  exists s', cache_get s k = (s', Some None) /\ same_but_evs s s'.
Proof.
  intros Hp Hc Hs. unfold cache_get. rewrite Hc. destruct (p_load_ff s k Hp) as [s' [Hl He]].
  rewrite Hl, Hs. exists s'. split; [reflexivity | exact He].
Qed.

(* the state after the load and the allocation of the loaded object *)
Definition get_mid (s1 : st) (k : key) (r : rec) : st := fst (halloc s1 (mkObj k r)).

Lemma cache_get_load s k r :
  plan s = [] -> lookup (cache s) k = None -> lookup (store s) k = Some r ->
  exists s1, same_but_evs s s1 /\
    cache_get s k =
    (let s2 := get_mid s1 k r in
     if c_maxcache (conf s) =? 0 then s2
     else set_cache (compact s2 1) (upsert (cache (compact s2 1)) k (length (heap s))),
     Some (Some (length (heap s)))).
Proof.
  intros Hp Hc Hs. unfold cache_get. rewrite Hc. destruct (p_load_ff s k Hp) as [s1 [Hl He]].
  rewrite Hl, Hs. exists s1. split; [exact He|].
  destruct (same_but_evs_fields s s1 He) as [Hh [_ [_ [Hcf _]]]].
  unfold halloc, get_mid, halloc. cbn [fst conf set_heap]. rewrite Hh, Hcf. reflexivity.
Qed.

Lemma get_mid_cinv s s1 k r : cinv s -> same_but_evs s s1 -> cinv (get_mid s1 k r).
Proof.
  intros [Hp [Hl Hnd]] He. destruct (same_but_evs_fields s s1 He) as [Hh [Hc [_ [_ [Hpl _]]]]].
  unfold get_mid, halloc. cbn [fst]. split; [cbn; congruence|]. split; [|cbn; congruence].
  intros k' o' Hk'. cbn [cache set_heap] in Hk'. rewrite Hc in Hk'. destruct (Hl k' o' Hk') as [ob' Hob'].
  exists ob'. unfold hget. cbn [heap set_heap]. rewrite Hh. rewrite nth_error_app1; [exact Hob'|].
  exact (hget_Some_lt s o' ob' Hob').
Qed.

Section GetFacts.
  Variables (s : st) (k : key) (r : rec).
  Hypothesis Hi : cinv s.
  Hypothesis Hc : lookup (cache s) k = None.
  Hypothesis Hs : lookup (store s) k = Some r.
  Let mx := c_maxcache (conf s).

  (* C12_bound for a Get that loads *)
  Lemma get_bound : 0 < mx -> Z.of_nat (length (cache (fst (cache_get s k)))) <= mx.
  Proof.
    intro Hmx. destruct Hi as [Hp _]. destruct (cache_get_load s k r Hp Hc Hs) as [s1 [He Hg]].
    rewrite Hg. cbn [fst]. fold mx. destruct (Z.eqb_spec mx 0) as [E|_]; [lia|].
    pose proof (get_mid_cinv s s1 k r Hi He) as Hi2.
    destruct (same_but_evs_fields s s1 He) as [_ [Hc1 [_ [Hcf _]]]].
    pose proof (compact_bound (get_mid s1 k r) 1 Hi2) as Hb.
    change (conf (get_mid s1 k r)) with (conf s1) in Hb. rewrite Hcf in Hb. fold mx in Hb.
    rewrite Z.min_l in Hb by lia.
    destruct (compact_uncached (get_mid s1 k r) 1 k Hi2) as [Hk2 _].
    { change (cache (get_mid s1 k r)) with (cache s1). rewrite Hc1. exact Hc. }
    cbn [set_cache cache]. rewrite length_upsert_new by exact Hk2. lia.
  Qed.

  Lemma get_unbounded :
    mx < 0 ->
    exists s2, heap s2 = heap s ++ [mkObj k r] /\ now s2 = now s /\ conf s2 = conf s /\
      cache (fst (cache_get s k)) =
      upsert (filter (fun e => negb (is_idle s2 e)) (cache s)) k (length (heap s)).
  Proof.
    intro Hmx. destruct Hi as [Hp _]. destruct (cache_get_load s k r Hp Hc Hs) as [s1 [He Hg]].
    rewrite Hg. cbn [fst]. fold mx. destruct (Z.eqb_spec mx 0) as [E|_]; [lia|].
    pose proof (get_mid_cinv s s1 k r Hi He) as Hi2.
    destruct (same_but_evs_fields s s1 He) as [Hh [Hc1 [_ [Hcf [_ [Hn _]]]]]].
    exists (get_mid s1 k r). split; [cbn; rewrite Hh; reflexivity|].
    split; [exact Hn|]. split; [exact Hcf|].
    destruct (compact_unbounded (get_mid s1 k r) 1 Hi2) as [_ Hcu].
    { change (conf (get_mid s1 k r)) with (conf s1). rewrite Hcf. exact Hmx. }
    cbn [set_cache cache]. rewrite Hcu. change (cache (get_mid s1 k r)) with (cache s1). rewrite Hc1.
    reflexivity.
  Qed.

  Lemma get_cinv : cinv (fst (cache_get s k)).
  Proof.
    destruct Hi as [Hp _]. destruct (cache_get_load s k r Hp Hc Hs) as [s1 [He Hg]].
    rewrite Hg. cbn [fst]. pose proof (get_mid_cinv s s1 k r Hi He) as Hi2.
    destruct (c_maxcache (conf s) =? 0); [exact Hi2|].
    destruct (compact_inv (get_mid s1 k r) 1 Hi2) as [[Hp2 [Hl2 Hnd2]] Hf2].
    destruct (same_but_evs_fields s s1 He) as [Hh _].
    split; [exact Hp2|]. split; [|cbn [set_cache cache]; apply NoDup_keys_upsert; exact Hnd2].
    intros k' o' Hk'. cbn [set_cache cache] in Hk'.
    change (hget (set_cache (compact (get_mid s1 k r) 1) (upsert (cache (compact (get_mid s1 k r) 1)) k (length (heap s)))) o')
      with (hget (compact (get_mid s1 k r) 1) o').
    destruct (key_eq_dec k' k) as [E|E].
    - subst k'. rewrite lookup_upsert_same in Hk'. injection Hk' as <-.
      rewrite (hget_heap (get_mid s1 k r)) by (apply Hf2). exists (mkObj k r).
      unfold hget, get_mid, halloc. cbn [fst heap set_heap]. rewrite Hh.
      rewrite nth_error_app2 by lia. rewrite Nat.sub_diag. reflexivity.
    - rewrite lookup_upsert_other in Hk' by exact E. exact (Hl2 k' o' Hk').
  Qed.

  (* the logical contents are the same after a Get that loads *)
  Lemma get_Lc k' : Lc (fst (cache_get s k)) k' = Lc s k'.
  Proof.
    destruct Hi as [Hp _]. destruct (cache_get_load s k r Hp Hc Hs) as [s1 [He Hg]].
    rewrite Hg. cbn [fst]. pose proof (get_mid_cinv s s1 k r Hi He) as Hi2.
    destruct (same_but_evs_fields s s1 He) as [Hh [Hc1 [Hs1 [Hcf _]]]].
    assert (Hmid : Lc (get_mid s1 k r) k' = Lc s k').
    { unfold Lc, L. change (conf (get_mid s1 k r)) with (conf s1).
      change (cache (get_mid s1 k r)) with (cache s1). change (store (get_mid s1 k r)) with (store s1).
      rewrite Hcf, Hc1, Hs1. destruct (lookup (cache s) k') as [o'|] eqn:Hk'; [|reflexivity].
      destruct Hi as [_ [Hl _]]. destruct (Hl k' o' Hk') as [ob' Hob']. rewrite Hob'.
      unfold hget, get_mid, halloc. cbn [fst heap set_heap]. rewrite Hh.
      rewrite nth_error_app1 by (exact (hget_Some_lt s o' ob' Hob')).
      unfold hget in Hob'. rewrite Hob'. reflexivity. }
    destruct (c_maxcache (conf s) =? 0); [exact Hmid|].
    rewrite <- Hmid, <- (compact_Lc (get_mid s1 k r) 1 k' Hi2).
    set (s2 := compact (get_mid s1 k r) 1). destruct (compact_inv (get_mid s1 k r) 1 Hi2) as [_ Hf2]. fold s2 in Hf2.
    unfold Lc, L. cbn [set_cache cache conf store].
    change (hget (set_cache s2 (upsert (cache s2) k (length (heap s))))) with (hget s2).
    destruct (key_eq_dec k' k) as [E|E].
    - subst k'. rewrite lookup_upsert_same.
      destruct (compact_uncached (get_mid s1 k r) 1 k Hi2) as [Hk2 Hst2].
      { change (cache (get_mid s1 k r)) with (cache s1). rewrite Hc1. exact Hc. }
      fold s2 in Hk2, Hst2. rewrite Hk2, Hst2. change (store (get_mid s1 k r)) with (store s1).
      rewrite Hs1, Hs. rewrite (hget_heap (get_mid s1 k r) s2) by (apply Hf2).
      unfold hget, get_mid, halloc. cbn [fst heap set_heap]. rewrite Hh.
      rewrite nth_error_app2 by lia. rewrite Nat.sub_diag. reflexivity.
    - rewrite lookup_upsert_other by exact E. reflexivity.
  Qed.
End GetFacts.

Lemma next_fault_fields s :
  cache (snd (next_fault s)) = cache s /\ conf (snd (next_fault s)) = conf s /\
  store (snd (next_fault s)) = store s.
Proof. unfold next_fault. destruct (plan s); repeat split; reflexivity. Qed.

Lemma p_load_cache s k : cache (fst (p_load s k)) = cache s /\ conf (fst (p_load s k)) = conf s.
Proof.
  unfold p_load. pose proof (next_fault_fields s) as H1.
  destruct (next_fault s) as [f s1]. cbn [snd] in H1. destruct H1 as [Hc [Hcf _]].
  destruct f; [cbn; tauto|].
  destruct (lookup (store (log s1 (EvLoad k true))) k) as [r|]; [|cbn; tauto].
  destruct (r_user r) as [[u v]|]; [|cbn; tauto].
  pose proof (next_fault_fields (log s1 (EvLoad k true))) as H2.
  destruct (next_fault (log s1 (EvLoad k true))) as [f2 s2]. cbn in H2. destruct H2 as [Hc2 [Hcf2 _]].
  destruct f2; cbn; split; congruence.
Qed.

(* C12_zero for Get: with N = 0 the cache is left exactly as it is, under any
   fault plan *)
Lemma get_zero s k : c_maxcache (conf s) = 0 -> cache (fst (cache_get s k)) = cache s.
Proof.
  intro Hmx. unfold cache_get. destruct (lookup (cache s) k); [reflexivity|].
  destruct (p_load_cache s k) as [Hc Hcf]. destruct (p_load s k) as [s1 [[r|]|]]; cbn [fst] in *; try exact Hc.
  unfold halloc. cbn [conf set_heap]. rewrite Hcf, Hmx. cbn [Z.eqb]. exact Hc.
Qed.

(* between writes: a Get that does not load leaves the cache alone *)
Lemma get_nogrow s k :
  plan s = [] -> (lookup (cache s) k <> None \/ lookup (store s) k = None) ->
  cache (fst (cache_get s k)) = cache s.
Proof.
  intros Hp H. destruct (lookup (cache s) k) as [o|] eqn:Hc.
  - rewrite (cache_get_hit s k o Hc). reflexivity.
  - destruct H as [H|H]; [congruence|]. destruct (cache_get_absent s k Hp Hc H) as [s' [Hg He]].
    rewrite Hg. apply (same_but_evs_fields s s' He).
Qed.

(* ------------------------------------------------------------------------ *)
(* Delete *)

Lemma p_delete_cache s k : cache (fst (p_delete s k)) = cache s /\ heap (fst (p_delete s k)) = heap s /\
  conf (fst (p_delete s k)) = conf s.
Proof. unfold p_delete, next_fault. destruct (plan s) as [|[|] p]; repeat split; reflexivity. Qed.

Lemma delete_cache s k : cache (fst (cache_delete s k)) = remove (cache s) k.
Proof. unfold cache_delete. apply p_delete_cache. Qed.

Lemma delete_nogrow s k : (length (cache (fst (cache_delete s k))) <= length (cache s))%nat.
Proof. rewrite delete_cache. apply length_remove_le. Qed.

Lemma delete_cinv s k : cinv s -> cinv (fst (cache_delete s k)).
Proof.
  intros [Hp [Hl Hnd]]. unfold cache_delete. rewrite p_delete_ff by exact Hp. cbn [fst].
  split; [exact Hp|]. split.
  - intros k' o' Hk'. cbn in Hk'. apply lookup_remove_Some in Hk'. destruct Hk' as [_ Hk'].
    exact (Hl k' o' Hk').
  - cbn. apply NoDup_keys_remove. exact Hnd.
Qed.

(* ------------------------------------------------------------------------ *)
(* PurgeSessions *)

(* the record memory holds for a cached ID, as the store would keep it *)
Definition mem_rec (s : st) (k : key) : option rec :=
  match lookup (cache s) k with
  | Some o => match hget s o with Some ob => Some (codec (conf s) (o_rec ob)) | None => None end
  | None => None
  end.

Lemma purge_saves_spec : forall es s,
  plan s = [] -> cache_live s ->
  (forall e, In e es -> lookup (cache s) (fst e) = Some (snd e)) ->
  let s' := purge_saves s es in
  frame s s' /\ cache s' = cache s /\
  forall k, lookup (store s') k = if memk k (map fst es) then mem_rec s k else lookup (store s) k.
Proof.
  induction es as [|[k0 o0] es IH]; intros s Hp Hl He; cbn zeta.
  - split; [apply frame_refl|]. split; reflexivity.
  - cbn [purge_saves]. pose proof (He (k0, o0) (or_introl eq_refl)) as Hk0. cbn [fst snd] in Hk0.
    destruct (Hl k0 o0 Hk0) as [ob0 Hob0]. rewrite Hob0. rewrite p_save_ff by exact Hp. cbn [fst].
    set (s1 := log (set_store s (upsert (store s) k0 (codec (conf s) (o_rec ob0)))) (EvSave k0 (codec (conf s) (o_rec ob0)) true)).
    destruct (IH s1) as [Hf [Hc Hst]].
    + exact Hp.
    + exact Hl.
    + intros e Hin. exact (He e (or_intror Hin)).
    + split; [eapply frame_trans; [|exact Hf]; constructor; reflexivity|].
      split; [exact Hc|]. intro k. rewrite Hst. cbn [map fst]. unfold memk. cbn [existsb]. fold (memk k (map fst es)).
      change (mem_rec s1 k) with (mem_rec s k).
      destruct (key_eqb k k0) eqn:E; cbn [orb].
      * apply key_eqb_eq in E. subst k0.
        assert (Hm : mem_rec s k = Some (codec (conf s) (o_rec ob0))).
        { unfold mem_rec. rewrite Hk0, Hob0. reflexivity. }
        destruct (memk k (map fst es)); [reflexivity|].
        unfold s1. cbn [store log set_store set_evs]. rewrite lookup_upsert_same. symmetry. exact Hm.
      * destruct (memk k (map fst es)); [reflexivity|].
        unfold s1. cbn [store log set_store set_evs]. apply lookup_upsert_other.
        apply key_eqb_neq. exact E.
Qed.

Lemma purge_spec s :
  cinv s ->
  frame s (purge s) /\ cache (purge s) = [] /\
  forall k, lookup (store (purge s)) k =
            match lookup (cache s) k with Some _ => mem_rec s k | None => lookup (store s) k end.
Proof.
  intros [Hp [Hl Hnd]]. unfold purge.
  destruct (purge_saves_spec (order_by_tb (tb s) (cache s)) s Hp Hl) as [Hf [Hc Hst]].
  { intros [k o] Hin. apply In_order_by_tb in Hin. apply In_lookup; assumption. }
  split; [destruct Hf; constructor; assumption|]. split; [reflexivity|].
  intro k. cbn [store set_cache]. rewrite Hst.
  destruct (lookup (cache s) k) as [o|] eqn:Hk.
  - assert (Hm : memk k (map fst (order_by_tb (tb s) (cache s))) = true).
    { apply memk_In. apply keys_order_by_tb. exact (lookup_keys _ _ _ Hk). }
    rewrite Hm. reflexivity.
  - assert (Hm : memk k (map fst (order_by_tb (tb s) (cache s))) = false).
    { apply memk_notIn. rewrite keys_order_by_tb. apply lookup_None_notin. exact Hk. }
    rewrite Hm. reflexivity.
Qed.

(* C12_flush for PurgeSessions *)
Lemma purge_flush s k o ob :
  cinv s -> lookup (cache s) k = Some o -> hget s o = Some ob ->
  lookup (cache (purge s)) k = None /\
  lookup (store (purge s)) k = Some (codec (conf s) (o_rec ob)).
Proof.
  intros Hi Hk Hob. destruct (purge_spec s Hi) as [_ [Hc Hst]]. rewrite Hc, Hst, Hk.
  unfold mem_rec. rewrite Hk, Hob. split; reflexivity.
Qed.

Lemma purge_Lc s k : cinv s -> Lc (purge s) k = Lc s k.
Proof.
  intro Hi. destruct (purge_spec s Hi) as [Hf [Hc Hst]]. unfold Lc, L.
  rewrite (fr_conf _ _ Hf), Hc, Hst. cbn [lookup].
  destruct (lookup (cache s) k) as [o|] eqn:Hk; [|reflexivity].
  unfold mem_rec. rewrite Hk. destruct (hget s o) as [ob|]; [|reflexivity].
  simpl. rewrite codec_idem. reflexivity.
Qed.

Lemma purge_store_norm s : cinv s -> store_norm s -> store_norm (purge s).
Proof.
  intros Hi Hn k r Hk. destruct (purge_spec s Hi) as [Hf [_ Hst]]. rewrite (fr_conf _ _ Hf).
  rewrite Hst in Hk. destruct (lookup (cache s) k) as [o|] eqn:Hc; [|exact (Hn k r Hk)].
  unfold mem_rec in Hk. rewrite Hc in Hk. destruct (hget s o) as [ob|]; [|discriminate].
  injection Hk as <-. apply codec_idem.
Qed.

Lemma purge_cinv s : cinv s -> cinv (purge s).
Proof.
  intro Hi. destruct (purge_spec s Hi) as [Hf [Hc _]]. destruct Hi as [Hp _].
  split; [rewrite (fr_plan _ _ Hf); exact Hp|]. split.
  - intros k o Hk. rewrite Hc in Hk. discriminate.
  - rewrite Hc. constructor.
Qed.
