(* R10, C10: the completed step. If a fault-free request step whose handler does not
   call Destroy runs to completion, the ID of the handler's session at the end
   (ob_final: the ID the last live cookie announces, C18H) is stored as a SESSION's
   record, not as a replaced-ID record - at any heap mark, i.e. from every state a
   fault-free history with process stops anywhere reaches. With C07K_late_step
   (a stop behind the last persistence call leaves exactly that store): after the
   response was sent, the new ID resolves, in zero hops.

   No axioms; standard library only. *)
From Sessions Require Import Model.Base Model.Sess Model.Hist Proofs.SessDefs
  Proofs.HistInv Proofs.HistInv2 Proofs.HistInv3 Proofs.HistLift Proofs.HistLift2 Proofs.HistLift3
  Proofs.HistLift4 Proofs.HistLiftB Proofs.LineageB Proofs.LineageK Proofs.LineageK3 Proofs.LineageF.
From Coq Require Import Lia.

Lemma no_destroy_firstn ops m : ~ In SDestroy ops -> ~ In SDestroy (firstn m ops).
Proof. intros H Hin. apply H. rewrite <- (firstn_skipn m ops). apply in_or_app. left. exact Hin. Qed.

Theorem completed_final_stored b w r :
  LIb b (w_st w) -> rq_plan r = [] -> ~ In SDestroy (rq_script r) ->
  forall kf rcf, ob_final (snd (step w (HReq (nocrash r)))) = Some (kf, rcf) ->
  sref (w_st (fst (step w (HReq (nocrash r))))) kf = Some None /\ r_ref rcf = None.
Proof.
  intros Hl Hpl Hnd kf rcf. rewrite step_req_eq. cbv zeta.
  cbn [nocrash rq_client rq_present rq_create rq_addr rq_ua rq_script rq_tb rq_plan rq_crash].
  change (match rq_present r with PJar => jar_of (w_jars w) (rq_client r) | PForge c => c end) with (presents w r).
  change (mkReq (presents w r) (rq_create r) (rq_addr r) (rq_ua r)) with (req_of w r).
  change (set_tb (set_plan (set_evs (w_st w) []) (rq_plan r)) (rq_tb r)) with (pre_of w r).
  pose proof (GWb_Gb b Q0 Q0_qt (w_st w) (rq_plan r) (rq_tb r) Hl Hpl) as G1. fold (pre_of w r) in G1.
  unfold req_body.
  destruct (start_Gb b Q0 DEL0 Q0_qt Q0_new Q0_repl Q0_del _ (pre_of w r) (req_of w r) G1) as (s2 & res & cks & E & G2 & _ & H2 & _).
  { intros; exact Logic.I. }
  rewrite E.
  destruct (fire_due_Gb b Q0 FOK0 Q0_fire _ _ G2 Logic.I) as (G3 & _ & H3 & _).
  destruct res as [[o|]|e|e]; try (cbn [fst snd mk_obs ob_final]; discriminate).
  destruct (H2 o eq_refl) as (Hbo & Hh2 & _).
  destruct (run_script_Gb b Q0 DEL0 FOK0 Q0_qt Q0_repl Q0_del Q0_fire _ (had_cookie (req_of w r)) (rq_script r) (fire_due s2) o G3 Hbo (H3 o Hh2) Logic.I)
    as (s3 & rs & cks' & E' & G' & _ & Hh' & _).
  { intros _ s ob _ _ _. exact Logic.I. }
  rewrite E'. cbn [fst snd mk_obs ob_final w_st].
  destruct (Hh' (no_destroy_firstn _ _ Hnd)) as [(ob & Ho & Hr & Hs) _].
  unfold handle_view. rewrite Ho. intro Ev. injection Ev as <- <-.
  split; [exact Hs | exact Hr].
Qed.

Theorem completed_final_stored_any w r :
  LIx (w_st w) -> rq_plan r = [] -> ~ In SDestroy (rq_script r) ->
  forall kf rcf, ob_final (snd (step w (HReq (nocrash r)))) = Some (kf, rcf) ->
  exists rk, lookup (store (w_st (fst (step w (HReq (nocrash r)))))) kf = Some rk /\ r_ref rk = None.
Proof.
  intros [b Hl] Hpl Hnd kf rcf Hf. destruct (completed_final_stored b w r Hl Hpl Hnd kf rcf Hf) as [Hs _].
  unfold sref in Hs. destruct (lookup (store _) kf) as [rk|]; [|discriminate]. cbn [option_map] in Hs. injection Hs as Hs.
  exists rk. split; [reflexivity | exact Hs].
Qed.
