(* Task PF, part 3: handler operations, clean-ups, scripts, and the history level:
   the invariant is preserved by every fault-free step (crashes allowed); IDs in
   use are never drawn again; dead IDs stay dead. *)
From Sessions Require Import Model.Base Model.Sess Model.Hist Proofs.SessDefs Proofs.HistInv Proofs.HistInv2.
From Coq Require Import Lia.

Lemma do_sop_inv b base D s o hc op : inv b base NX D s -> hok b D s o ->
  exists s' r cks, do_sop s o hc op = (s', r, cks) /\ inv b base NX D s' /\ hok b D s' o /\ cks_ok D cks.
Proof.
  intros I H. pose proof H as [Hbo [ob [Ho HnD]]]. pose proof (inv_fresh_nD _ _ _ _ _ I) as Hn. destruct op as [k v|k|k|k|u ex| | |]; cbn [do_sop].
  - unfold data_of. rewrite Ho. destruct (r_data (o_rec ob)) as [d|].
    + destruct (inv_hupd_hok _ _ _ _ o (fun r => set_data r (Some (kv_set d k v))) I H) as [I1 H1]; [reflexivity|].
      destruct (save_direct_inv _ _ _ _ _ I1 H1) as (s' & E & I' & Hh). rewrite E.
      do 3 eexists. split; [reflexivity|]. split; [exact I'|]. split; [eapply hok_ids; [apply ids_pres_heap; exact Hh | exact H1] | apply cks_ok_nil].
    + do 3 eexists. split; [reflexivity|]. split; [assumption|]. split; [assumption | auto with cks].
  - unfold data_of. rewrite Ho.
    assert (Hx : exists s1, (match r_data (o_rec ob) with
                             | Some d => hupd s o (fun r => set_data r (Some (kv_del d k)))
                             | None => s end) = s1 /\ inv b base NX D s1 /\ hok b D s1 o).
    { destruct (r_data (o_rec ob)) as [d|].
      - destruct (inv_hupd_hok _ _ _ _ o (fun r => set_data r (Some (kv_del d k))) I H) as [I1 H1]; [reflexivity|].
        eexists. split; [reflexivity|]. split; assumption.
      - exists s. split; [reflexivity|]. split; assumption. }
    destruct Hx as (s1 & -> & I1 & H1).
    destruct (save_direct_inv _ _ _ _ _ I1 H1) as (s' & E & I' & Hh). rewrite E.
    do 3 eexists. split; [reflexivity|]. split; [exact I'|]. split; [eapply hok_ids; [apply ids_pres_heap; exact Hh | exact H1] | apply cks_ok_nil].
  - do 3 eexists. split; [reflexivity|]. split; [assumption|]. split; [assumption | auto with cks].
  - unfold data_of. rewrite Ho. destruct (r_data (o_rec ob)) as [d|].
    + destruct (kv_get d k).
      * destruct (inv_hupd_hok _ _ _ _ o (fun r => set_data r (Some (kv_del d k))) I H) as [I1 H1]; [reflexivity|].
        destruct (save_direct_inv _ _ _ _ _ I1 H1) as (s' & E & I' & Hh). rewrite E.
        do 3 eexists. split; [reflexivity|]. split; [exact I'|]. split; [eapply hok_ids; [apply ids_pres_heap; exact Hh | exact H1] | apply cks_ok_nil].
      * do 3 eexists. split; [reflexivity|]. split; [assumption|]. split; [assumption | auto with cks].
    + do 3 eexists. split; [reflexivity|]. split; [assumption|]. split; [assumption | auto with cks].
  - destruct (login_inv _ _ _ _ _ u ex I H) as (s' & n & E & I' & H' & Hn'). rewrite E.
    do 3 eexists. split; [reflexivity|]. split; [assumption|]. split; [assumption | auto with cks].
  - destruct (logout_inv _ _ _ _ _ I H) as (s' & E & I' & Hi). rewrite E.
    do 3 eexists. split; [reflexivity|]. split; [exact I'|]. split; [eapply hok_ids; eassumption | apply cks_ok_nil].
  - destruct (regenerate_inv _ _ _ _ _ I H) as (s' & E & I' & H'). rewrite E.
    do 3 eexists. split; [reflexivity|]. split; [assumption|]. split; [assumption | auto with cks].
  - rewrite (destroy_ff _ _ _ _ (i_plan _ _ _ _ _ I) Ho).
    do 3 eexists. split; [reflexivity|]. split; [apply inv_cache_delete; exact I|].
    split; [|apply cks_ok_del].
    eapply hok_ids; [apply ids_pres_heap; apply cache_delete_heap; apply (i_plan _ _ _ _ _ I) | exact H].
Qed.

(* ------------------------------------------------- clean-up goroutines *)

Lemma cache_delete_frame s k : plan s = [] ->
  heap (fst (cache_delete s k)) = heap s /\ supply (fst (cache_delete s k)) = supply s /\
  pending (fst (cache_delete s k)) = pending s.
Proof. intro H. rewrite cache_delete_ff by exact H. repeat split. Qed.

Lemma fire_inv b base D : forall l s, inv b base NX D s ->
  inv b base NX D (fst (fire s l)) /\ heap (fst (fire s l)) = heap s /\ supply (fst (fire s l)) = supply s /\
  pending (fst (fire s l)) = pending s /\ (forall d k, In (d, k) (snd (fire s l)) -> In (d, k) l).
Proof.
  induction l as [|[due k] t IH]; intros s I; cbn [fire].
  - split; [exact I|]. repeat split. intros d k [].
  - destruct (due <=? now s)%Z.
    + pose proof (cache_delete_frame s k (i_plan _ _ _ _ _ I)) as (A1 & A2 & A3).
      pose proof (inv_cache_delete _ _ _ _ _ k I) as I1.
      destruct (cache_delete s k) as [s1 ok]. cbn [fst] in *.
      destruct (IH s1 I1) as (I2 & B1 & B2 & B3 & B4).
      split; [exact I2|]. repeat split; try congruence. intros d k' Hin. right. apply B4. exact Hin.
    + destruct (IH s I) as (I2 & B1 & B2 & B3 & B4). destruct (fire s t) as [s1 rest]. cbn [fst snd] in *.
      split; [exact I2|]. repeat split; try assumption. intros d k' [Hin|Hin]; [left; exact Hin | right; apply B4; exact Hin].
Qed.

Lemma fire_due_inv b base D s : inv b base NX D s ->
  inv b base NX D (fire_due s) /\ heap (fire_due s) = heap s /\ supply (fire_due s) = supply s.
Proof.
  intro I. unfold fire_due.
  assert (I0 : inv b base NX D (set_pending s [])) by (apply inv_set_pending; [exact I | intros d k []]).
  destruct (fire_inv b base D (pending s) (set_pending s []) I0) as (I1 & B1 & B2 & B3 & B4).
  destruct (fire (set_pending s []) (pending s)) as [s1 rest]. cbn [fst snd] in *. sst.
  split; [|split; assumption].
  apply inv_set_pending; [exact I1|]. intros d k Hin. rewrite B3 in Hin. cbn [app] in Hin.
  rewrite B2. apply (i_fp _ _ _ _ _ I d k). apply B4. exact Hin.
Qed.

Lemma run_script_inv b base D hc : forall ops s o, inv b base NX D s -> hok b D s o ->
  exists s' rs cks, run_script s o hc ops = (s', rs, cks) /\ inv b base NX D s' /\ hok b D s' o /\ cks_ok D cks.
Proof.
  induction ops as [|op t IH]; intros s o I H; cbn [run_script].
  - do 3 eexists. split; [reflexivity|]. split; [assumption|]. split; [assumption | apply cks_ok_nil].
  - destruct (do_sop_inv _ _ _ _ _ hc op I H) as (s1 & r & cks & E & I1 & H1 & Hck). rewrite E.
    destruct (fire_due_inv _ _ _ _ I1) as (I2 & Hh & _).
    assert (H2 : hok b D (fire_due s1) o) by (eapply hok_ids; [apply ids_pres_heap; exact Hh | exact H1]).
    match goal with |- context [if ?c then _ else _] => destruct c end.
    + do 3 eexists. split; [reflexivity|]. split; [assumption|]. split; assumption.
    + destruct (IH (fire_due s1) o I2 H2) as (s' & rs & cks' & E' & I' & H' & Hck'). rewrite E'.
      do 3 eexists. split; [reflexivity|]. split; [assumption|]. split; [assumption | auto with cks].
Qed.

(* --------------------------------------------------- event logs, forwards *)

Lemma draws_app a b : draws (a ++ b) = (draws a + draws b)%N.
Proof. induction a as [|e a IH]; simpl; [reflexivity|]. destruct e; rewrite IH; lia. Qed.

Lemma draws_rev l : draws (rev l) = draws l.
Proof.
  induction l as [|e l IH]; simpl; [reflexivity|]. rewrite draws_app, IH. destruct e; simpl; lia.
Qed.

Definition bump (n : N) (e : ev) : N := match e with EvDraw _ => (n + 1)%N | _ => n end.

Fixpoint wf_fwd (D : key -> Prop) (n : N) (l : list ev) : Prop :=    (* oldest first *)
  match l with
  | [] => True
  | e :: t => ev_okn D n e /\ wf_fwd D (bump n e) t
  end.

Lemma wf_fwd_app D : forall a n b, wf_fwd D n (a ++ b) <-> wf_fwd D n a /\ wf_fwd D (n + draws a) b.
Proof.
  induction a as [|e a IH]; intros n b; simpl.
  - rewrite N.add_0_r. tauto.
  - rewrite IH. assert (E : (bump n e + draws a = n + draws (e :: a))%N) by (destruct e; simpl; lia).
    simpl in E. rewrite E. tauto.
Qed.

Lemma wf_evs_fwd D base l : wf_evs D base l -> wf_fwd D base (rev l).
Proof.
  induction l as [|e l IH]; simpl; [auto|]. intros [He Hl]. apply wf_fwd_app. split; [apply IH; exact Hl|].
  simpl. rewrite draws_rev. split; [exact He | exact Logic.I].
Qed.

Lemma wf_fwd_prefix D : forall l n m, wf_fwd D n l -> wf_fwd D n (ev_prefix l m).
Proof.
  induction l as [|e l IH]; intros n m H; destruct m as [|m]; simpl; auto.
  destruct H as [He Hl]. destruct e; simpl; (split; [exact He | apply IH; exact Hl]).
Qed.

Lemma count_draws_eq l : count_draws l = draws l.
Proof.
  unfold count_draws. assert (H : forall a, fold_left (fun n e => match e with EvDraw _ => (n + 1)%N | _ => n end) l a = (a + draws l)%N).
  { induction l as [|e l IH]; intro a; simpl; [lia|]. rewrite IH. destruct e; lia. }
  rewrite H. lia.
Qed.

Lemma wf_fwd_draw_ge D : forall l n d, wf_fwd D n l -> In (EvDraw d) l -> (n <= d)%N.
Proof.
  induction l as [|e l IH]; intros n d H Hin; [contradiction|]. destruct H as [He Hl]. destruct Hin as [->|Hin].
  - simpl in He. lia.
  - apply IH with (d := d) in Hl; [|exact Hin]. destruct e; simpl in Hl; lia.
Qed.

Lemma wf_fwd_save_nD D : forall l n k r ok, wf_fwd D n l -> In (EvSave k r ok) l -> ~ D k.
Proof.
  induction l as [|e l IH]; intros n k r ok H Hin; [contradiction|]. destruct H as [He Hl]. destruct Hin as [->|Hin].
  - simpl in He. tauto.
  - eapply IH; eassumption.
Qed.

(* the store part of the invariant, relative to a number of draws *)
Definition store_ok (D : key -> Prop) (n : N) (stor : list (key * rec)) : Prop :=
  NoDup (map fst stor) /\ (forall k r, In (k, r) stor -> kd n k /\ refd n r) /\ (forall k, D k -> lookup stor k = None).

Lemma store_ok_mono D n m stor : (n <= m)%N -> store_ok D n stor -> store_ok D m stor.
Proof.
  intros Hle (H1 & H2 & H3). split; [exact H1|]. split; [|exact H3].
  intros k r Hin. destruct (H2 k r Hin). split; [eapply kd_mono | eapply refd_mono]; eassumption.
Qed.

Lemma apply_evs_store_ok D : forall l n stor gr, wf_fwd D n l -> store_ok D n stor ->
  store_ok D (n + draws l) (fst (fold_left apply_ev l (stor, gr))).
Proof.
  induction l as [|e l IH]; intros n stor gr H Hs; simpl fold_left.
  - simpl. rewrite N.add_0_r. exact Hs.
  - destruct H as [He Hl]. destruct Hs as (H1 & H2 & H3).
    assert (E : (n + draws (e :: l) = bump n e + draws l)%N) by (destruct e; simpl; lia). rewrite E.
    destruct e as [k ok|u ok|k r ok|k ok|u ok|d]; simpl apply_ev; simpl bump; try (apply IH; [exact Hl | exact (conj H1 (conj H2 H3))]).
    + destruct ok; (apply IH; [exact Hl|]); [|exact (conj H1 (conj H2 H3))].
      simpl in He. destruct He as (Hk & Hr & HnD). split; [apply NoDup_upsert_keys; exact H1|]. split.
      * intros k' r' Hin. apply In_upsert in Hin. destruct Hin as [[-> ->]|Hin]; [split; assumption | apply H2; exact Hin].
      * intros k' Hk'. rewrite lookup_upsert_other; [apply H3; exact Hk' | intro; subst; contradiction].
    + destruct ok; (apply IH; [exact Hl|]); [|exact (conj H1 (conj H2 H3))].
      split; [apply NoDup_remove_keys; exact H1|]. split.
      * intros k' r' Hin. apply In_remove in Hin. apply H2. tauto.
      * intros k' Hk'. destruct (key_eq_dec k' k) as [->|Hne]; [apply lookup_remove_same|].
        rewrite lookup_remove_other by exact Hne. apply H3. exact Hk'.
    + apply IH; [exact Hl|]. apply store_ok_mono with (n := n); [lia | exact (conj H1 (conj H2 H3))].
Qed.

(* ----------------------------------------------------- the history level *)

Definition ff_hop (h : hop) : Prop :=
  match h with
  | HReq r => rq_plan r = []
  | HPurge _ pl => pl = []
  | HLogoutUser _ _ pl => pl = []
  | HRefreshUser _ _ pl => pl = []
  | _ => True
  end.

Definition crash_free (h : hop) : Prop :=
  match h with HReq r => rq_crash r = None | _ => True end.

(* The invariant between steps: the event log is empty there. *)
Definition winv (b : nat) (D : key -> Prop) (s : st) : Prop :=
  inv b (supply s, []) NX D (set_evs s []).

Lemma inv_set_plan_nil b base X D s : inv b base X D s -> inv b base X D (set_plan s []).
Proof. intro I. dinv I. constructor; sst; try assumption. reflexivity. Qed.

Ltac ev_nil := exists (@nil ev); cbn [fst snd app draws wf_evs]; split; [reflexivity | split; [exact Logic.I | lia]].

Lemma winv_of_inv b base D s t : inv b base NX D s -> winv b D (set_tb (set_plan s []) t).
Proof.
  intro I. dinv I. unfold winv. constructor; sst; try assumption; try reflexivity. ev_nil.
Qed.

Lemma winv_of_inv' b base D s : inv b base NX D s -> winv b D s.
Proof.
  intro I. dinv I. unfold winv. constructor; sst; try assumption; try reflexivity. ev_nil.
Qed.

Lemma inv_of_winv b D s t : winv b D s -> inv b (supply s, []) NX D (set_tb (set_plan (set_evs s []) []) t).
Proof. intro W. apply inv_set_tb. apply inv_set_plan_nil. exact W. Qed.

Lemma inv_set_now b base X D s t : inv b base X D s -> inv b base X D (set_now s t).
Proof. intro I. dinv I. constructor; sst; assumption. Qed.

Lemma inv_set_conf b base X D s c : inv b base X D s -> inv b base X D (set_conf s c).
Proof. intro I. dinv I. constructor; sst; assumption. Qed.

Lemma inv_supply_ge b base X D s : inv b base X D s -> (fst base <= supply s)%N.
Proof. intro I. destruct (i_ev _ _ _ _ _ I) as (new & _ & _ & H). lia. Qed.

(* what a step guarantees, besides the invariant *)
Definition obs_ok (D : key -> Prop) (n : N) (o : obs) : Prop :=
  wf_fwd D n (ob_evs o) /\
  (forall k r, ob_start o = Some (k, r) -> ~ D k) /\
  (forall k r, ob_final o = Some (k, r) -> ~ D k) /\
  cks_ok D (ob_cookies o).

Lemma handle_view_ok b D s o k r : hok b D s o -> handle_view s o = Some (k, r) -> ~ D k.
Proof.
  intros [_ [ob [Ho HnD]]]. unfold handle_view. rewrite Ho. intro E. injection E as <- _. exact HnD.
Qed.

Definition crash_state (s s3 : st) (n : nat) : st :=
  let pre := ev_prefix (rev (evs s3)) n in
  let '(stor, gr) := fold_left apply_ev pre (store s, graves s) in
  restart (set_supply (set_graves (set_store (set_evs s3 (rev pre)) stor) gr) (supply s + count_draws pre)%N).

Lemma crash_state_winv b D s0 s3 n :
  winv b D s0 -> inv b (supply s0, []) NX D s3 ->
  winv (length (heap s3)) D (crash_state (set_evs s0 []) (set_tb (set_plan s3 []) []) n) /\
  (supply s0 <= supply (crash_state (set_evs s0 []) (set_tb (set_plan s3 []) []) n))%N /\
  wf_fwd D (supply s0) (rev (evs (crash_state (set_evs s0 []) (set_tb (set_plan s3 []) []) n))).
Proof.
  intros W I. unfold crash_state. sst.
  set (pre := ev_prefix (rev (evs s3)) n).
  assert (Hpre : wf_fwd D (supply s0) pre).
  { apply wf_fwd_prefix. apply wf_evs_fwd. apply (inv_ev0 _ _ _ _ _ I). }
  assert (Hs0 : store_ok D (supply s0) (store s0)).
  { split; [apply (i_nds _ _ _ _ _ W)|]. split; [apply (i_fs _ _ _ _ _ W) | apply (i_Ds _ _ _ _ _ W)]. }
  pose proof (apply_evs_store_ok D pre (supply s0) (store s0) (graves s0) Hpre Hs0) as Hst.
  destruct (fold_left apply_ev pre (store s0, graves s0)) as [stor gr]. cbn [fst] in Hst.
  rewrite count_draws_eq. destruct Hst as (H1 & H2 & H3).
  unfold restart. sst. split; [|split; [lia | rewrite rev_involutive; exact Hpre]].
  unfold winv. constructor; sst.
  - reflexivity.
  - lia.
  - intros k o Hl. discriminate.
  - constructor.
  - exact H1.
  - intros k o [].
  - exact H2.
  - intros o ob Hge Ho. apply hget_Some_lt in Ho. unfold hget in *. sst. lia.
  - intros d k [].
  - ev_nil.
  - intros k Hk. eapply kd_mono; [|apply (i_Dd _ _ _ _ _ W k Hk)]. sst. lia.
  - exact H3.
  - intros kD k' o ob _ Hl. discriminate.
Qed.

(* the part of a request step between the set-up and the crash/no-crash split *)
Definition req_body (s1 : st) (q : request) (script : list sop)
  : st * rclass * option (key * rec) * list sres * option (key * rec) * list cookie :=
  let '(s2, res, cks) := start s1 q in
  let s2 := fire_due s2 in
  match res with
  | Ok (Some o) =>
    let v := handle_view s2 o in
    let '(s3, sr, cks') := run_script s2 o (had_cookie q) script in
    (s3, RSess, v, sr, handle_view s3 o, cks ++ cks')
  | Ok None => (s2, RNone, None, [], None, cks)
  | Err e => (s2, RErr e, None, [], None, cks)
  | Panic e => (s2, RPanic e, None, [], None, cks)
  end.

Lemma req_body_inv b base D s1 q script : inv b base NX D s1 ->
  exists s3 rc st0 sr fin cks, req_body s1 q script = (s3, rc, st0, sr, fin, cks) /\ inv b base NX D s3 /\
    (forall k r, st0 = Some (k, r) -> ~ D k) /\ (forall k r, fin = Some (k, r) -> ~ D k) /\ cks_ok D cks.
Proof.
  intro I1. unfold req_body.
  destruct (start_inv _ _ _ _ q I1) as (s2 & res & cks & E & I2 & Hres & Hck). rewrite E.
  destruct (fire_due_inv _ _ _ _ I2) as (I3 & Hh & _).
  destruct res as [[o|]|e|e]; cbn [res_ok] in Hres.
  - assert (H3 : hok b D (fire_due s2) o) by (eapply hok_ids; [apply ids_pres_heap; exact Hh | exact Hres]).
    destruct (run_script_inv _ _ _ (had_cookie q) script _ _ I3 H3) as (s3 & rs & cks' & E' & I4 & H4 & Hck').
    cbv zeta. rewrite E'. do 6 eexists. split; [reflexivity|]. split; [exact I4|].
    split; [intros k r Hv; exact (handle_view_ok _ _ _ _ _ _ H3 Hv)|].
    split; [intros k r Hv; exact (handle_view_ok _ _ _ _ _ _ H4 Hv) | auto with cks].
  - do 6 eexists. split; [reflexivity|]. split; [exact I3|]. repeat split; try discriminate. exact Hck.
  - do 6 eexists. split; [reflexivity|]. split; [exact I3|]. repeat split; try discriminate. exact Hck.
  - contradiction.
Qed.

Lemma step_req_eq w r :
  step w (HReq r) =
  let s := set_evs (w_st w) [] in
  let jar := jar_of (w_jars w) (rq_client r) in
  let ck := match rq_present r with PJar => jar | PForge c => c end in
  let q := mkReq ck (rq_create r) (rq_addr r) (rq_ua r) in
  let '(s3, rc, st0, sr, fin, cks) := req_body (set_tb (set_plan s (rq_plan r)) (rq_tb r)) q (rq_script r) in
  let s3 := set_tb (set_plan s3 []) [] in
  match rq_crash r with
  | Some n =>
    let pre := ev_prefix (rev (evs s3)) n in
    let '(stor, gr) := fold_left apply_ev pre (store s, graves s) in
    let s4 := restart (set_supply (set_graves (set_store (set_evs s3 (rev pre)) stor) gr)
                                  (supply s + count_draws pre)%N) in
    (mkWorld s4 (w_jars w), mk_obs RCrashed None [] [] None s4 jar)
  | None =>
    let jar' := match rq_present r with PJar => apply_cookies jar cks | PForge _ => jar end in
    (mkWorld s3 (jar_set (w_jars w) (rq_client r) jar'), mk_obs rc st0 cks sr fin s3 jar')
  end.
Proof.
  unfold step, req_body. cbv zeta.
  destruct (start _ _) as [[s2 res] cks]. destruct res as [[o|]|e|e]; reflexivity.
Qed.

Lemma step_req b D w r : winv b D (w_st w) -> rq_plan r = [] ->
  exists b', winv b' D (w_st (fst (step w (HReq r)))) /\ (rq_crash r = None -> b' = b) /\
    (supply (w_st w) <= supply (w_st (fst (step w (HReq r)))))%N /\
    obs_ok D (supply (w_st w)) (snd (step w (HReq r))).
Proof.
  intros W Hpl. rewrite step_req_eq. cbv zeta. rewrite Hpl.
  pose proof (inv_of_winv b D (w_st w) (rq_tb r) W) as I1.
  match goal with |- context [req_body ?s1 ?q ?sc] =>
    destruct (req_body_inv b (supply (w_st w), []) D s1 q sc I1) as (s3 & rc & st0 & sr & fin & cks & E & I3 & Hst & Hfin & Hck)
  end.
  rewrite E. destruct (rq_crash r) as [n|].
  - destruct (crash_state_winv b D (w_st w) s3 n W I3) as (W4 & Hsup & Hev). unfold crash_state in W4, Hsup, Hev.
    sst. destruct (fold_left apply_ev _ _) as [stor gr].
    exists (length (heap s3)). split; [exact W4|]. split; [discriminate|]. split; [exact Hsup|].
    unfold obs_ok, mk_obs. cbn [ob_evs ob_start ob_final ob_cookies snd].
    split; [exact Hev|]. repeat split; try discriminate. apply cks_ok_nil.
  - exists b. cbn [fst snd w_st]. split; [eapply winv_of_inv; exact I3|]. split; [reflexivity|].
    split; [sst; apply (inv_supply_ge _ _ _ _ _ I3)|].
    unfold obs_ok, mk_obs. cbn [ob_evs ob_start ob_final ob_cookies]. sst.
    split; [apply wf_evs_fwd; apply (inv_ev0 _ _ _ _ _ I3)|]. split; [exact Hst|]. split; [exact Hfin | exact Hck].
Qed.

Lemma fin_ok b D s0 s1 : inv b (supply s0, []) NX D s1 ->
  winv b D s1 /\ (supply s0 <= supply s1)%N /\ wf_fwd D (supply s0) (rev (evs s1)).
Proof.
  intro I. split; [eapply winv_of_inv'; exact I|]. split; [apply (inv_supply_ge _ _ _ _ _ I)|].
  apply wf_evs_fwd. apply (inv_ev0 _ _ _ _ _ I).
Qed.

Lemma obs_ok_void D n rc s jar : wf_fwd D n (rev (evs s)) -> obs_ok D n (mk_obs rc None [] [] None s jar).
Proof.
  intro H. unfold obs_ok, mk_obs. cbn [ob_evs ob_start ob_final ob_cookies].
  split; [exact H|]. repeat split; try discriminate. apply cks_ok_nil.
Qed.

Lemma step_void b D s0 s1 : inv b (supply s0, []) NX D s1 -> forall jars rc jar,
  exists b', winv b' D (w_st (mkWorld s1 jars)) /\ b' = b /\
    (supply s0 <= supply (w_st (mkWorld s1 jars)))%N /\ obs_ok D (supply s0) (mk_obs rc None [] [] None s1 jar).
Proof.
  intros I jars rc jar. destruct (fin_ok _ _ _ _ I) as (W & Hs & He). exists b. cbn [w_st].
  split; [exact W|]. split; [reflexivity|]. split; [exact Hs | apply obs_ok_void; exact He].
Qed.

(* Every fault-free step preserves the invariant (with a new heap mark after a
   crash), never lowers the supply, and its events, returned sessions and cookies
   respect the dead set. *)
Theorem step_winv b D w h : winv b D (w_st w) -> ff_hop h ->
  exists b', winv b' D (w_st (fst (step w h))) /\ (crash_free h -> b' = b) /\
    (supply (w_st w) <= supply (w_st (fst (step w h))))%N /\ obs_ok D (supply (w_st w)) (snd (step w h)).
Proof.
  intros W Hff. destruct h as [r|d|tbl pl| | |u tbl pl|u tbl pl|c]; cbn [ff_hop crash_free] in *.
  - apply step_req; assumption.
  - cbn [step fst snd].
    assert (I1 : inv b (supply (w_st w), []) NX D (fire_due (set_now (set_evs (w_st w) []) (now (set_evs (w_st w) []) + d)%Z))).
    { apply fire_due_inv. apply inv_set_now. exact W. }
    destruct (step_void _ _ _ _ I1 (w_jars w) RVoid CNone) as (b' & A & -> & B & C). exists b. split; [exact A|]. split; [intros _; reflexivity|]. split; [exact B | exact C].
  - subst pl. cbn [step fst snd].
    assert (I1 : inv b (supply (w_st w), []) NX D (set_tb (set_plan (purge (set_tb (set_plan (set_evs (w_st w) []) []) tbl)) []) [])).
    { apply inv_set_tb. apply inv_set_plan_nil. apply inv_purge. apply inv_of_winv. exact W. }
    destruct (step_void _ _ _ _ I1 (w_jars w) RVoid CNone) as (b' & A & -> & B & C). exists b. split; [exact A|]. split; [intros _; reflexivity|]. split; [exact B | exact C].
  - cbn [step fst snd].
    assert (I1 : inv b (supply (w_st w), []) NX D (set_cache (set_evs (w_st w) []) [])).
    { apply inv_set_cache_nil. exact W. }
    destruct (step_void _ _ _ _ I1 (w_jars w) RVoid CNone) as (b' & A & -> & B & C). exists b. split; [exact A|]. split; [intros _; reflexivity|]. split; [exact B | exact C].
  - cbn [step fst snd].
    assert (I1 : inv b (supply (w_st w), []) NX D (restart (set_evs (w_st w) []))).
    { unfold restart. apply inv_set_pending; [apply inv_set_cache_nil; exact W | intros d k []]. }
    destruct (step_void _ _ _ _ I1 (w_jars w) RVoid CNone) as (b' & A & -> & B & C). exists b. split; [exact A|]. split; [intros _; reflexivity|]. split; [exact B | exact C].
  - subst pl. cbn [step].
    destruct (logout_user_inv _ _ _ _ u (inv_of_winv b D (w_st w) tbl W)) as (s1 & E & I1 & _). rewrite E. cbn [fst snd].
    assert (I2 : inv b (supply (w_st w), []) NX D (fire_due (set_tb (set_plan s1 []) []))).
    { apply fire_due_inv. apply inv_set_tb. apply inv_set_plan_nil. exact I1. }
    destruct (step_void _ _ _ _ I2 (w_jars w) RVoid CNone) as (b' & A & -> & B & C). exists b. split; [exact A|]. split; [intros _; reflexivity|]. split; [exact B | exact C].
  - subst pl. cbn [step].
    destruct (refresh_user_inv _ _ _ _ u (inv_of_winv b D (w_st w) tbl W)) as (s1 & E & I1 & _). rewrite E. cbn [fst snd].
    assert (I2 : inv b (supply (w_st w), []) NX D (fire_due (set_tb (set_plan s1 []) []))).
    { apply fire_due_inv. apply inv_set_tb. apply inv_set_plan_nil. exact I1. }
    destruct (step_void _ _ _ _ I2 (w_jars w) RVoid CNone) as (b' & A & -> & B & C). exists b. split; [exact A|]. split; [intros _; reflexivity|]. split; [exact B | exact C].
  - cbn [step fst snd].
    assert (I1 : inv b (supply (w_st w), []) NX D (set_conf (set_evs (w_st w) []) c)).
    { apply inv_set_conf. exact W. }
    destruct (step_void _ _ _ _ I1 (w_jars w) RVoid CNone) as (b' & A & -> & B & C). exists b. split; [exact A|]. split; [intros _; reflexivity|]. split; [exact B | exact C].
Qed.

(* ------------------------------------------------------------ histories *)

Fixpoint after (w : world) (hs : list hop) : world :=
  match hs with [] => w | h :: t => after (fst (step w h)) t end.

Lemma run_from_cons w h t : run_from w (h :: t) = snd (step w h) :: run_from (fst (step w h)) t.
Proof. cbn [run_from]. destruct (step w h). reflexivity. Qed.

Theorem hist_winv D : forall hs b w, winv b D (w_st w) -> Forall ff_hop hs ->
  exists b', winv b' D (w_st (after w hs)) /\ (Forall crash_free hs -> b' = b) /\
    (supply (w_st w) <= supply (w_st (after w hs)))%N /\
    Forall (fun o => exists n, (supply (w_st w) <= n)%N /\ obs_ok D n o) (run_from w hs).
Proof.
  induction hs as [|h t IH]; intros b w W Hff.
  - exists b. cbn [after run_from]. split; [exact W|]. split; [reflexivity|]. split; [lia | constructor].
  - inversion Hff as [|? ? Hh Ht]; subst.
    destruct (step_winv b D w h W Hh) as (b1 & W1 & Hb1 & Hs1 & Ho1).
    destruct (IH b1 (fst (step w h)) W1 Ht) as (b2 & W2 & Hb2 & Hs2 & Ho2).
    exists b2. cbn [after]. rewrite run_from_cons. split; [exact W2|]. split; [|split; [lia|]].
    + intro Hcf. inversion Hcf; subst. rewrite Hb2, Hb1; auto.
    + constructor; [exists (supply (w_st w)); split; [lia | exact Ho1]|].
      eapply Forall_impl; [|exact Ho2]. intros o [n [Hn Hob]]. exists n. split; [lia | exact Hob].
Qed.

(* --- relation to the invariants of SessDefs.v --- *)

(* fresh_ok with the heap clause restricted to objects allocated from index b on
   (after a crash the heap still holds objects of the lost process; their IDs may
   not count as drawn any more) *)
Definition fresh_from (b : nat) (s : st) : Prop :=
  (forall k v, In (k, v) (cache s) -> key_drawn s k /\ b <= v) /\
  (forall k r, In (k, r) (store s) -> key_drawn s k /\ match r_ref r with Some t => key_drawn s t | None => True end) /\
  (forall o ob, b <= o -> hget s o = Some ob ->
     key_drawn s (o_id ob) /\ match r_ref (o_rec ob) with Some t => key_drawn s t | None => True end) /\
  (forall d k, In (d, k) (pending s) -> key_drawn s k).

Lemma fresh_from_0 s : fresh_from 0 s <-> fresh_ok s.
Proof.
  unfold fresh_from, fresh_ok. split; intros (A & B & C & E).
  - split; [intros k v H; apply (A k v H)|]. split; [exact B|].
    split; [intros o ob H; apply (C o ob (Nat.le_0_l o) H) | exact E].
  - split; [intros k v H; split; [apply (A k v H) | lia]|]. split; [exact B|].
    split; [intros o ob _ H; apply (C o ob H) | exact E].
Qed.

Lemma winv_sessdefs b D s : winv b D s -> plan s = [] /\ cache_ok s /\ nodup_ok s /\ fresh_from b s.
Proof.
  intro W. dinv W. sst. split; [exact Hp|]. split; [|split; [split; assumption|]].
  - intros k o Hl. destruct (Hc k o Hl) as [ob [Ho [Hx|[]]]]. exists ob. split; assumption.
  - split; [exact Hfc|]. split; [exact Hfs|]. split; [exact Hfh | exact Hfp].
Qed.

Lemma sessdefs_winv b s : plan s = [] -> b <= length (heap s) -> cache_ok s -> nodup_ok s -> fresh_from b s -> winv b ND s.
Proof.
  intros Hp Hb Hc [Hn1 Hn2] (A & B & C & E). unfold winv. constructor; sst; try assumption.
  - intros k o Hl. destruct (Hc k o Hl) as [ob [Ho Hid]]. exists ob. split; [exact Ho | left; exact Hid].
  - ev_nil.
  - intros k [].
  - intros k [].
  - intros k k' o ob [].
Qed.

Lemma winv_init c : winv 0 ND (init_st c).
Proof.
  apply sessdefs_winv; try reflexivity.
  - intros k o H. discriminate.
  - split; constructor.
  - split; [intros ? ? []|]. split; [intros ? ? []|]. split; [|intros ? ? []].
    intros o ob _ Hg. destruct o; discriminate.
Qed.

(* the dead set can be extended by an ID that is drawn and absent *)
Lemma winv_add_dead b s k : winv b ND s -> key_drawn s k ->
  lookup (cache s) k = None -> lookup (store s) k = None -> winv b (eq k) s.
Proof.
  intros W Hk Hcn Hsn. dinv W. unfold winv. constructor; sst; try assumption.
  - ev_nil.
  - intros k' <-. exact Hk.
  - intros k' <-. exact Hsn.
  - intros kD k' o ob <- Hl Ho. destruct (Hc k' o Hl) as [ob' [Ho' [Hid|[]]]].
    change (hget s o = Some ob) in Ho. change (hget s o = Some ob') in Ho'. rewrite Ho in Ho'. injection Ho' as <-.
    split; [intro; subst k'; congruence | rewrite Hid; intro; subst k'; congruence].
Qed.

(* ------------------------------------------------- the theorems of C07 *)

Definition sess_inv (s : st) : Prop := plan s = [] /\ cache_ok s /\ nodup_ok s /\ fresh_ok s.

(* crash-free, fault-free steps preserve the invariants of SessDefs.v *)
Theorem step_sess_inv w h : sess_inv (w_st w) -> ff_hop h -> crash_free h -> sess_inv (w_st (fst (step w h))).
Proof.
  intros (Hp & Hc & Hn & Hf) Hff Hcf.
  assert (W : winv 0 ND (w_st w)) by (apply sessdefs_winv; [exact Hp | lia | exact Hc | exact Hn | apply fresh_from_0; exact Hf]).
  destruct (step_winv 0 ND w h W Hff) as (b' & W' & Hb & _). rewrite (Hb Hcf) in W'.
  destruct (winv_sessdefs _ _ _ W') as (A1 & A2 & A3 & A4).
  split; [exact A1|]. split; [exact A2|]. split; [exact A3 | apply fresh_from_0; exact A4].
Qed.

(* with crashes: the same, with the heap clause of fresh_ok from a mark b on *)
Theorem hist_sess_inv c hs : Forall ff_hop hs ->
  exists b, let s := w_st (after (mkWorld (init_st c) []) hs) in
    plan s = [] /\ cache_ok s /\ nodup_ok s /\ fresh_from b s /\ (Forall crash_free hs -> b = 0).
Proof.
  intro Hff. destruct (hist_winv ND hs 0 (mkWorld (init_st c) []) (winv_init c) Hff) as (b & W & Hb & _).
  exists b. destruct (winv_sessdefs _ _ _ W) as (A1 & A2 & A3 & A4). cbv zeta.
  split; [exact A1|]. split; [exact A2|]. split; [exact A3|]. split; [exact A4 | exact Hb].
Qed.

(* The heap clause of fresh_ok as stated in SessDefs.v does not survive a crash:
   the object of a creation that never reached the store stays in the model's
   heap (unreachable), while its ordinal is handed out again. *)
Definition crash_hist : list hop :=
  [HReq (mkReqStep 1 PJar true (AOther 0) 0 [] [] [] (Some 0))].

Lemma fresh_ok_crash_refuted :
  exists c hs, Forall ff_hop hs /\ ~ fresh_ok (w_st (after (mkWorld (init_st c) []) hs)).
Proof.
  exists (mkCfg 100 100 100 100 10 0 true false), crash_hist. split; [repeat constructor|].
  intros (_ & _ & H & _). specialize (H 0 (mkObj (KGen 0) (mkRec 0 0 (AOther 0) 0 None None (Some []))) eq_refl).
  destruct H as [H _]. vm_compute in H. discriminate.
Qed.

(* No ordinal below the current supply is ever drawn again. *)
Theorem not_reissued b D w hs n : winv b D (w_st w) -> Forall ff_hop hs -> (n < supply (w_st w))%N ->
  Forall (fun o => ~ In (EvDraw n) (ob_evs o)) (run_from w hs).
Proof.
  intros W Hff Hn. destruct (hist_winv D hs b w W Hff) as (_ & _ & _ & _ & Ho).
  eapply Forall_impl; [|exact Ho]. intros o [m [Hm Hob]] Hin. destruct Hob as [Hev _].
  pose proof (wf_fwd_draw_ge _ _ _ _ Hev Hin). lia.
Qed.

(* IDs in use: stored, cached, awaiting clean-up, or the target of a stored
   reference record. *)
Definition in_use (s : st) (k : key) : Prop :=
  (exists r, In (k, r) (store s)) \/ (exists o, In (k, o) (cache s)) \/ (exists d, In (d, k) (pending s)) \/
  (exists k' r, In (k', r) (store s) /\ r_ref r = Some k).

Lemma in_use_drawn b D s k : winv b D s -> in_use s k -> key_drawn s k.
Proof.
  intros W H. destruct (winv_sessdefs _ _ _ W) as (_ & _ & _ & A & B & C & E).
  destruct H as [[r H]|[[o H]|[[d H]|[k' [r [H Hr]]]]]].
  - apply (B k r H).
  - apply (A k o H).
  - apply (E d k H).
  - destruct (B k' r H) as [_ H2]. rewrite Hr in H2. exact H2.
Qed.

(* what "dead" means for what a step shows *)
Definition dead_obs (k : key) (o : obs) : Prop :=
  (forall r ok, ~ In (EvSave k r ok) (ob_evs o)) /\ (forall r, ob_start o <> Some (k, r)) /\
  (forall r, ob_final o <> Some (k, r)) /\ ~ In (CkLive k) (ob_cookies o).

(* An ID that was drawn and is neither cached nor stored stays that way: no later
   fault-free step (crashes, cache loss, restarts included) saves under it, caches
   it, returns a session with that ID, or sends a live cookie for it. *)
Theorem stays_dead b w k hs : winv b ND (w_st w) -> key_drawn (w_st w) k ->
  lookup (cache (w_st w)) k = None -> lookup (store (w_st w)) k = None -> Forall ff_hop hs ->
  lookup (cache (w_st (after w hs))) k = None /\ lookup (store (w_st (after w hs))) k = None /\
  Forall (dead_obs k) (run_from w hs).
Proof.
  intros W Hk Hcn Hsn Hff. pose proof (winv_add_dead _ _ _ W Hk Hcn Hsn) as Wk.
  destruct (hist_winv (eq k) hs b w Wk Hff) as (b' & W' & _ & _ & Ho).
  split; [|split].
  - destruct (lookup (cache (w_st (after w hs))) k) as [o|] eqn:El; [|reflexivity]. exfalso.
    destruct (i_cok _ _ _ _ _ W' k o El) as [ob [Hob _]].
    destruct (i_Dc _ _ _ _ _ W' k k o ob eq_refl El Hob) as [H _]. congruence.
  - apply (i_Ds _ _ _ _ _ W' k eq_refl).
  - eapply Forall_impl; [|exact Ho]. intros o [m [_ (Hev & Hst & Hfin & Hck)]]. repeat split.
    + intros r ok Hin. apply (wf_fwd_save_nD _ _ _ _ _ _ Hev Hin). reflexivity.
    + intros r E. apply (Hst k r E). reflexivity.
    + intros r E. apply (Hfin k r E). reflexivity.
    + intro Hin. apply (Hck k Hin). reflexivity.
Qed.

(* --- per-call use of the invariant on any state satisfying SessDefs.v's --- *)

Lemma sess_inv_inv s : sess_inv s -> inv 0 (supply s, evs s) NX ND s.
Proof.
  intros (Hp & Hc & [Hn1 Hn2] & (A & B & C & E)). constructor; try assumption.
  - lia.
  - intros k o Hl. destruct (Hc k o Hl) as [ob [Ho Hid]]. exists ob. split; [exact Ho | left; exact Hid].
  - intros k o Hin. split; [apply (A k o Hin) | lia].
  - intros o ob _ Ho. apply (C o ob Ho).
  - ev_nil.
  - intros k [].
  - intros k [].
  - intros k k' o ob [].
Qed.

Lemma inv_sess_inv base s : inv 0 base NX ND s -> sess_inv s.
Proof.
  intro I. dinv I. split; [exact Hp|]. split; [|split; [split; assumption|]].
  - intros k o Hl. destruct (Hc k o Hl) as [ob [Ho [Hx|[]]]]. exists ob. split; assumption.
  - split; [intros k v Hin; apply (Hfc k v Hin)|]. split; [exact Hfs|]. split; [|exact Hfp].
    intros o ob Ho. apply (Hfh o ob (Nat.le_0_l o) Ho).
Qed.

(* from any point inside a step on, an ID that is drawn and absent can be
   declared dead *)
Lemma inv_add_dead b base s k : inv b base NX ND s -> key_drawn s k ->
  lookup (cache s) k = None -> lookup (store s) k = None -> inv b (supply s, evs s) NX (eq k) s.
Proof.
  intros I Hk Hcn Hsn. dinv I. constructor; try assumption.
  - ev_nil.
  - intros k' <-. exact Hk.
  - intros k' <-. exact Hsn.
  - intros kD k' o ob <- Hl Ho. destruct (Hc k' o Hl) as [ob' [Ho' [Hid|[]]]].
    rewrite Ho in Ho'. injection Ho' as <-.
    split; [intro; subst k'; congruence | rewrite Hid; intro; subst k'; congruence].
Qed.

(* --- the history theorems from the initial state --- *)

Definition reach (c : cfg) (hs : list hop) : world := after (mkWorld (init_st c) []) hs.

Lemma reach_winv c hs : Forall ff_hop hs -> exists b, winv b ND (w_st (reach c hs)).
Proof.
  intro Hff. destruct (hist_winv ND hs 0 (mkWorld (init_st c) []) (winv_init c) Hff) as (b & W & _). exists b. exact W.
Qed.

Theorem not_reissued_reach c hs1 hs2 n : Forall ff_hop hs1 -> Forall ff_hop hs2 ->
  in_use (w_st (reach c hs1)) (KGen n) ->
  Forall (fun o => ~ In (EvDraw n) (ob_evs o)) (run_from (reach c hs1) hs2).
Proof.
  intros H1 H2 Hu. destruct (reach_winv c hs1 H1) as [b W].
  eapply not_reissued; [exact W | exact H2 |]. apply (in_use_drawn _ _ _ _ W Hu).
Qed.

Theorem stays_dead_reach c hs1 hs2 k : Forall ff_hop hs1 -> Forall ff_hop hs2 ->
  key_drawn (w_st (reach c hs1)) k ->
  lookup (cache (w_st (reach c hs1))) k = None -> lookup (store (w_st (reach c hs1))) k = None ->
  lookup (cache (w_st (after (reach c hs1) hs2))) k = None /\
  lookup (store (w_st (after (reach c hs1) hs2))) k = None /\
  Forall (dead_obs k) (run_from (reach c hs1) hs2).
Proof.
  intros H1 H2 Hk Hc Hs. destruct (reach_winv c hs1 H1) as [b W]. eapply stays_dead; eassumption.
Qed.

(* non-vacuity: a session is created, destroyed by its handler in the next
   request, and its ID is then drawn, absent from cache and store *)
Definition cfg_ex : cfg := mkCfg 1000 1000 100 1000 10 0 true false.
Definition hist_destroy : list hop :=
  [HReq (mkReqStep 1 PJar true (AOther 0) 7 [SSet 1 2] [] [] None);
   HReq (mkReqStep 1 PJar false (AOther 0) 7 [SDestroy] [] [] None)].

Example stays_dead_nonvacuous :
  Forall ff_hop hist_destroy /\
  key_drawn (w_st (reach cfg_ex hist_destroy)) (KGen 0) /\
  lookup (cache (w_st (reach cfg_ex hist_destroy))) (KGen 0) = None /\
  lookup (store (w_st (reach cfg_ex hist_destroy))) (KGen 0) = None /\
  map ob_res (run cfg_ex (hist_destroy ++ [HReq (mkReqStep 2 (PForge (CKey (KGen 0))) false (AOther 0) 7 [] [] [] None)]))
    = [RSess; RSess; RNone].
Proof. split; [repeat constructor|]. vm_compute. repeat split; reflexivity. Qed.

Example in_use_nonvacuous :
  in_use (w_st (reach cfg_ex [HReq (mkReqStep 1 PJar true (AOther 0) 7 [SSet 1 2] [] [] None)])) (KGen 0).
Proof. left. vm_compute. eexists. left. reflexivity. Qed.
