(* The address pattern of Start, part 2: the characterisation of submatch
   (shape + the leftmost-greedy choice), the plain `a.b.c.d:p` shape, the
   printer of Sess.addr and the refinement ip_ok_str (render a) (render b) =
   Sess.ip_ok a b, and the string-level clauses of C06. *)
From Sessions Require Import Model.Base Model.Codec Model.Sess Model.AddrRe
  Proofs.BaseLemmas Proofs.CodecText Proofs.AddrRe.
From Coq Require Import Lia ZifyBool ZifyN ZifyNat.
Local Open Scope N_scope.

(* s = g1 x1 g2 x2 g3 x3 g4 ":" ds — the g's and ds non-empty digit strings,
   each x what an unescaped dot consumes there: one rune, not the newline *)
Definition shape (s g1 x1 g2 x2 g3 x3 g4 ds : bytes) : Prop :=
  s = g1 ++ x1 ++ g2 ++ x2 ++ g3 ++ x3 ++ g4 ++ 58 :: ds /\
  (digs g1 /\ digs g2 /\ digs g3 /\ digs g4 /\ digs ds) /\
  sep x1 (g2 ++ x2 ++ g3 ++ x3 ++ g4 ++ 58 :: ds) /\
  sep x2 (g3 ++ x3 ++ g4 ++ 58 :: ds) /\
  sep x3 (g4 ++ 58 :: ds).

Definition P1 : bytes -> list bytes -> Prop :=
  Pplus (Pdot (Pplus (Pdot (Pplus (Pdot (Pplus P4)))))).

Definition toL1 (r : bytes * (bytes * (bytes * (bytes * unit)))) : list bytes :=
  [fst r; fst (snd r); fst (snd (snd r)); fst (snd (snd (snd r)))].

Lemma spec_top : spec (dplus k1) toL1 P1.
Proof.
  exact (spec_dplus _ _ _ (spec_dot _ _ _ (spec_dplus _ _ _ (spec_dot _ _ _
        (spec_dplus _ _ _ (spec_dot _ _ _ (spec_dplus _ _ _ spec_k4))))))).
Qed.

Lemma det_P1 : det P1.
Proof.
  exact (det_plus _ (det_dot _ (det_plus _ (det_dot _ (det_plus _ (det_dot _ (det_plus _ det_P4))))))).
Qed.

Lemma P1_shape (s : bytes) (gs : list bytes) :
  P1 s gs <-> exists g1 x1 g2 x2 g3 x3 g4 ds,
                gs = [g1; g2; g3; g4] /\ shape s g1 x1 g2 x2 g3 x3 g4 ds.
Proof.
  unfold P1, Pplus, Pdot, P4, shape. split.
  - intros (g1 & t0 & gs0 & -> & Hg1 & (x1 & u1 & -> & Hx1 &
            (g2 & t1 & gs1 & -> & Hg2 & (x2 & u2 & -> & Hx2 &
            (g3 & t2 & gs2 & -> & Hg3 & (x3 & u3 & -> & Hx3 &
            (g4 & t3 & gs3 & -> & Hg4 & (-> & ds & -> & Hds) & ->)) & ->)) & ->)) & ->).
    exists g1, x1, g2, x2, g3, x3, g4, ds. repeat split; try assumption;
      first [apply Hg1 | apply Hg2 | apply Hg3 | apply Hg4 | apply Hds | apply Hx1 | apply Hx2 | apply Hx3].
  - intros (g1 & x1 & g2 & x2 & g3 & x3 & g4 & ds & -> & -> & (Hg1 & Hg2 & Hg3 & Hg4 & Hds) & Hx1 & Hx2 & Hx3).
    exists g1, (x1 ++ g2 ++ x2 ++ g3 ++ x3 ++ g4 ++ 58 :: ds), [g2; g3; g4].
    split; [reflexivity|]. split; [exact Hg1|]. split; [|reflexivity].
    exists x1, (g2 ++ x2 ++ g3 ++ x3 ++ g4 ++ 58 :: ds). split; [reflexivity|]. split; [exact Hx1|].
    exists g2, (x2 ++ g3 ++ x3 ++ g4 ++ 58 :: ds), [g3; g4].
    split; [reflexivity|]. split; [exact Hg2|]. split; [|reflexivity].
    exists x2, (g3 ++ x3 ++ g4 ++ 58 :: ds). split; [reflexivity|]. split; [exact Hx2|].
    exists g3, (x3 ++ g4 ++ 58 :: ds), [g4].
    split; [reflexivity|]. split; [exact Hg3|]. split; [|reflexivity].
    exists x3, (g4 ++ 58 :: ds). split; [reflexivity|]. split; [exact Hx3|].
    exists g4, (58 :: ds), []. split; [reflexivity|]. split; [exact Hg4|]. split; [|reflexivity].
    split; [reflexivity|]. exists ds. auto.
Qed.

(* the order in which a backtracking matcher tries the group lengths *)
Definition tried_before_or_same (l' l : list nat) : Prop := lexle l' l.

Definition greedy_choice (s g1 g2 g3 g4 : bytes) : Prop :=
  forall g1' x1' g2' x2' g3' x3' g4' ds',
    shape s g1' x1' g2' x2' g3' x3' g4' ds' ->
    lexle (lens [g1'; g2'; g3'; g4']) (lens [g1; g2; g3; g4]).

Theorem submatch_some (s g1 g2 g3 g4 : bytes) :
  submatch s = Some (g1, g2, g3, g4) <->
  (exists x1 x2 x3 ds, shape s g1 x1 g2 x2 g3 x3 g4 ds) /\ greedy_choice s g1 g2 g3 g4.
Proof.
  destruct spec_top as [Hs Hn]. unfold submatch, greedy_choice. split.
  - destruct (dplus k1 s) as [[h1 [h2 [h3 [h4 u]]]]|] eqn:Hd; [|discriminate].
    intro H. injection H as <- <- <- <-.
    destruct (Hs s _ Hd) as [HP Hbest]. unfold toL1 in *. cbn [fst snd] in *. split.
    + apply P1_shape in HP as (a1 & x1 & a2 & x2 & a3 & x3 & a4 & ds & He & Hsh).
      injection He as -> -> -> ->. exists x1, x2, x3, ds. exact Hsh.
    + intros g1' x1' g2' x2' g3' x3' g4' ds' Hsh. apply Hbest. apply P1_shape.
      exists g1', x1', g2', x2', g3', x3', g4', ds'. auto.
  - intros [(x1 & x2 & x3 & ds & Hsh) Hmax].
    assert (HP : P1 s [g1; g2; g3; g4]).
    { apply P1_shape. exists g1, x1, g2, x2, g3, x3, g4, ds. auto. }
    destruct (dplus k1 s) as [[h1 [h2 [h3 [h4 u]]]]|] eqn:Hd.
    + destruct (Hs s _ Hd) as [HP' Hbest]. unfold toL1 in *. cbn [fst snd] in *.
      assert (Hl : lens [h1; h2; h3; h4] = lens [g1; g2; g3; g4]).
      { apply lexle_antisym.
        - apply P1_shape in HP' as (a1 & y1 & a2 & y2 & a3 & y3 & a4 & ds' & He & Hsh').
          injection He as <- <- <- <-. apply (Hmax _ _ _ _ _ _ _ _ Hsh').
        - apply Hbest. exact HP. }
      assert (He := det_P1 s _ _ HP' HP Hl). injection He as -> -> -> ->. reflexivity.
    + exfalso. apply (Hn s Hd _ HP).
Qed.

Theorem submatch_none (s : bytes) :
  submatch s = None <->
  forall g1 x1 g2 x2 g3 x3 g4 ds, ~ shape s g1 x1 g2 x2 g3 x3 g4 ds.
Proof.
  destruct spec_top as [Hs Hn]. unfold submatch. split.
  - destruct (dplus k1 s) as [[h1 [h2 [h3 [h4 u]]]]|] eqn:Hd; [discriminate|].
    intros _ g1 x1 g2 x2 g3 x3 g4 ds Hsh. apply (Hn s Hd [g1; g2; g3; g4]).
    apply P1_shape. exists g1, x1, g2, x2, g3, x3, g4, ds. auto.
  - intro H. destruct (dplus k1 s) as [[h1 [h2 [h3 [h4 u]]]]|] eqn:Hd; [|reflexivity].
    exfalso. destruct (Hs s _ Hd) as [HP _].
    apply P1_shape in HP as (a1 & x1 & a2 & x2 & a3 & x3 & a4 & ds & _ & Hsh).
    apply (H _ _ _ _ _ _ _ _ Hsh).
Qed.

(* anchors: a match begins with a digit and ends with one *)
Lemma submatch_nodigit_head (s : bytes) :
  match s with [] => True | c :: _ => is_digit c = false end -> submatch s = None.
Proof. intro H. unfold submatch. rewrite (dplus_nodigit k1 s H). reflexivity. Qed.

(* ------------------------------------------------- the plain shape a.b.c.d:p *)

Lemma digs_head (g r : bytes) : digs g -> exists d t, g ++ r = d :: t /\ is_digit d = true.
Proof.
  intros Hg. destruct g as [|d g]; [destruct Hg; congruence|]. apply digs_cons in Hg as [Hd _].
  exists d, (g ++ r). auto.
Qed.

Lemma dot_before_digs (c : N) (g r : bytes) : c <> 10 -> digs g -> dot (c :: g ++ r) = Some (g ++ r).
Proof.
  intros Hc Hg. destruct (digs_head g r Hg) as [d [t [He Hd]]]. rewrite He.
  apply dot_single; [exact Hc|]. right. unfold is_digit in Hd. lia.
Qed.

(* three single non-digit, non-newline bytes as separators (whatever they are:
   the dots are not escaped): the match is the obvious one, without any
   backtracking *)
Theorem submatch_plain (g1 g2 g3 g4 ds : bytes) (c1 c2 c3 : N) :
  digs g1 -> digs g2 -> digs g3 -> digs g4 -> digs ds ->
  is_digit c1 = false -> is_digit c2 = false -> is_digit c3 = false ->
  c1 <> 10 -> c2 <> 10 -> c3 <> 10 ->
  submatch (g1 ++ c1 :: g2 ++ c2 :: g3 ++ c3 :: g4 ++ 58 :: ds) = Some (g1, g2, g3, g4).
Proof.
  intros Hg1 Hg2 Hg3 Hg4 Hds Hc1 Hc2 Hc3 Hn1 Hn2 Hn3. unfold submatch.
  assert (H4 : dplus k4 (g4 ++ 58 :: ds) = Some (g4, tt)).
  { apply dplus_run; [exact Hg4 | reflexivity|]. unfold k4.
    rewrite (proj2 (tail_ok_spec (58 :: ds))); [reflexivity | exists ds; auto]. }
  assert (H3 : dplus k3 (g3 ++ c3 :: g4 ++ 58 :: ds) = Some (g3, (g4, tt))).
  { apply dplus_run; [exact Hg3 | exact Hc3|]. unfold k3.
    rewrite (dot_before_digs c3 g4 _ Hn3 Hg4). exact H4. }
  assert (H2 : dplus k2 (g2 ++ c2 :: g3 ++ c3 :: g4 ++ 58 :: ds) = Some (g2, (g3, (g4, tt)))).
  { apply dplus_run; [exact Hg2 | exact Hc2|]. unfold k2.
    rewrite (dot_before_digs c2 g3 _ Hn2 Hg3). exact H3. }
  rewrite (dplus_run k1 g1 (c1 :: g2 ++ c2 :: g3 ++ c3 :: g4 ++ 58 :: ds) (g2, (g3, (g4, tt))) Hg1 Hc1); [reflexivity|].
  unfold k1. rewrite (dot_before_digs c1 g2 _ Hn1 Hg2). exact H2.
Qed.

(* ------------------------------------------------------------ the printer *)

Lemma digit_char_lt10 (d : N) : d < 10 -> digit_char d = 48 + d.
Proof. intro H. unfold digit_char. replace (d <? 10) with true by lia. reflexivity. Qed.

Lemma digs_dec (n : N) : digs (dec n).
Proof.
  unfold dec. destruct (format_radix_digits 10 n) as [ds [-> [_ [Hall Hne]]]]; [lia|].
  split; [destruct ds; [congruence | discriminate]|].
  rewrite forallb_forall. intros c Hc. apply in_map_iff in Hc as [d [<- Hd]].
  rewrite Forall_forall in Hall. specialize (Hall d Hd). rewrite digit_char_lt10 by exact Hall.
  unfold is_digit. lia.
Qed.

Lemma map_digit_char_inj (a b : list N) :
  Forall (fun d => d < 10) a -> Forall (fun d => d < 10) b ->
  map digit_char a = map digit_char b -> a = b.
Proof.
  revert b. induction a as [|x a IH]; intros [|y b] Ha Hb He; cbn in He; try discriminate; [reflexivity|].
  inversion Ha as [|? ? Hx Ha']; inversion Hb as [|? ? Hy Hb']; subst.
  injection He as He1 He2. rewrite !digit_char_lt10 in He1 by assumption.
  f_equal; [lia | apply IH; assumption].
Qed.

Lemma dec_inj (a b : N) : dec a = dec b -> a = b.
Proof.
  unfold dec. intro He.
  destruct (format_radix_digits 10 a) as [da [Ea [<- [Ha _]]]]; [lia|].
  destruct (format_radix_digits 10 b) as [db [Eb [<- [Hb _]]]]; [lia|].
  rewrite Ea, Eb in He. rewrite (map_digit_char_inj da db Ha Hb He). reflexivity.
Qed.

Lemma dec_eqb (a b : N) : bytes_eqb (dec a) (dec b) = (a =? b).
Proof.
  destruct (a =? b) eqn:E.
  - apply N.eqb_eq in E. subst b. apply bytes_eqb_refl.
  - destruct (bytes_eqb (dec a) (dec b)) eqn:E'; [|reflexivity].
    apply bytes_eqb_eq, dec_inj in E'. lia.
Qed.

Theorem submatch_render_v4 (a b c d p : N) :
  submatch (render (V4 a b c d p)) = Some (dec a, dec b, dec c, dec d).
Proof.
  unfold render. apply submatch_plain; try apply digs_dec; try reflexivity; discriminate.
Qed.

Theorem submatch_render_other (n : N) : submatch (render (AOther n)) = None.
Proof. apply submatch_nodigit_head. reflexivity. Qed.

Lemma render_inj (x y : addr) : render x = render y -> x = y.
Proof.
  intro He. destruct x as [a b c d p|n], y as [a' b' c' d' p'|n'].
  - assert (Hm : submatch (render (V4 a b c d p)) = submatch (render (V4 a' b' c' d' p'))) by (rewrite He; reflexivity).
    rewrite !submatch_render_v4 in Hm. injection Hm as H1 H2 H3 H4.
    apply dec_inj in H1, H2, H3, H4. subst a' b' c' d'. f_equal.
    unfold render in He.
    repeat (apply app_inv_head in He; injection He as He).
    apply dec_inj. exact He.
  - exfalso. assert (Hm : submatch (render (V4 a b c d p)) = submatch (render (AOther n'))) by (rewrite He; reflexivity).
    rewrite submatch_render_v4, submatch_render_other in Hm. discriminate.
  - exfalso. assert (Hm : submatch (render (AOther n)) = submatch (render (V4 a' b' c' d' p'))) by (rewrite He; reflexivity).
    rewrite submatch_render_v4, submatch_render_other in Hm. discriminate.
  - unfold render in He. injection He as He. apply app_inv_tail in He. apply dec_inj in He. congruence.
Qed.

(* ---------------------------------------------------------- the decision *)

Lemma ip_ok_str_off n s s' : (n <= 1)%Z -> ip_ok_str n s s' = true.
Proof. intro H. unfold ip_ok_str. replace (1 <? n)%Z with false by lia. reflexivity. Qed.

Lemma ip_ok_str_ge5 n s s' : (5 <= n)%Z -> ip_ok_str n s s' = true.
Proof.
  intro H. unfold ip_ok_str. replace (n <=? 4)%Z with false by lia.
  destruct (1 <? n)%Z, (submatch s), (submatch s'); reflexivity.
Qed.

Lemma ip_ok_str_nomatch_l n s s' : submatch s = None -> ip_ok_str n s s' = true.
Proof. intro H. unfold ip_ok_str. rewrite H. destruct (1 <? n)%Z; reflexivity. Qed.

Lemma ip_ok_str_nomatch_r n s s' : submatch s' = None -> ip_ok_str n s s' = true.
Proof. intro H. unfold ip_ok_str. rewrite H. destruct (1 <? n)%Z, (submatch s); reflexivity. Qed.

Lemma ip_ok_str_groups n s s' g1 g2 g3 g4 h1 h2 h3 h4 :
  (2 <= n <= 4)%Z ->
  submatch s = Some (g1, g2, g3, g4) -> submatch s' = Some (h1, h2, h3, h4) ->
  (ip_ok_str n s s' = true <->
   (2 <= n -> g1 = h1)%Z /\ (3 <= n -> g2 = h2)%Z /\ (4 <= n -> g3 = h3)%Z).
Proof.
  intros Hn Hs Hs'. unfold ip_ok_str. rewrite Hs, Hs'.
  replace (1 <? n)%Z with true by lia. replace (n <=? 4)%Z with true by lia.
  assert (Hc : n = 2%Z \/ n = 3%Z \/ n = 4%Z) by lia.
  destruct Hc as [-> | [-> | ->]];
    [change (Z.to_nat (2 - 1)) with 1%nat | change (Z.to_nat (3 - 1)) with 2%nat | change (Z.to_nat (4 - 1)) with 3%nat];
    cbn [groups prefix_eq]; rewrite ?andb_true_iff, ?bytes_eqb_eq.
  - split; [intros [H _]; repeat split; intros; [exact H | lia | lia] | intros (H & _ & _); split; [apply H; lia | reflexivity]].
  - split; [intros (H & H' & _); repeat split; intros; [exact H | exact H' | lia]
           | intros (H & H' & _); repeat split; [apply H; lia | apply H'; lia]].
  - split; [intros (H & H' & H'' & _); repeat split; intros; assumption
           | intros (H & H' & H''); repeat split; [apply H; lia | apply H'; lia | apply H''; lia]].
Qed.

Lemma ip_ok_str_firstn n s s' g1 g2 g3 g4 h1 h2 h3 h4 :
  (2 <= n <= 4)%Z ->
  submatch s = Some (g1, g2, g3, g4) -> submatch s' = Some (h1, h2, h3, h4) ->
  (ip_ok_str n s s' = true <->
   firstn (Z.to_nat (n - 1)) [g1; g2; g3; g4] = firstn (Z.to_nat (n - 1)) [h1; h2; h3; h4]).
Proof.
  intros Hn Hs Hs'. rewrite (ip_ok_str_groups n s s' _ _ _ _ _ _ _ _ Hn Hs Hs').
  assert (Hc : n = 2%Z \/ n = 3%Z \/ n = 4%Z) by lia.
  destruct Hc as [-> | [-> | ->]]; cbn; split.
  all: try (intros (H1 & H2 & H3); try rewrite H1 by lia; try rewrite H2 by lia; try rewrite H3 by lia; reflexivity).
  all: intro H; injection H; intros; subst; repeat split; intros; try reflexivity; lia.
Qed.

(* refinement: on printed addresses the string-level decision is Sess.ip_ok *)
Local Opaque dec.
Theorem ip_ok_str_render (n : Z) (a b : addr) :
  ip_ok_str n (render a) (render b) = ip_ok n a b.
Proof.
  destruct a as [a1 a2 a3 a4 ap|x], b as [b1 b2 b3 b4 bp|y].
  - unfold ip_ok_str, ip_ok. rewrite !submatch_render_v4.
    destruct (1 <? n)%Z eqn:H1; [|reflexivity].
    destruct (n <=? 4)%Z eqn:H4; [|reflexivity].
    assert (Hc : n = 2%Z \/ n = 3%Z \/ n = 4%Z) by lia.
    destruct Hc as [-> | [-> | ->]];
      [change (Z.to_nat (2 - 1)) with 1%nat | change (Z.to_nat (3 - 1)) with 2%nat | change (Z.to_nat (4 - 1)) with 3%nat];
      cbn [groups prefix_eq]; rewrite ?dec_eqb; cbn;
      destruct (a1 =? b1), (a2 =? b2), (a3 =? b3); reflexivity.
  - rewrite ip_ok_str_nomatch_r by apply submatch_render_other.
    unfold ip_ok. destruct (1 <? n)%Z; reflexivity.
  - rewrite ip_ok_str_nomatch_l by apply submatch_render_other.
    unfold ip_ok. destruct (1 <? n)%Z; reflexivity.
  - rewrite ip_ok_str_nomatch_l by apply submatch_render_other.
    unfold ip_ok. destruct (1 <? n)%Z; reflexivity.
Qed.
