(* Round 4 R1 (audit task B1), C08, part 2: LogOut(userID) / RefreshUser called by a
   handler whose handle is the cached object of its own ID; the key/value
   operations that follow on the same handle; the composite hu_tail of
   Model/HandlerUser.v. Fault-free. *)
From Sessions Require Import Model.Base Model.Sess Model.Hist Model.HandlerUser Proofs.SessDefs
  Proofs.HistInv Proofs.HistInv2 Proofs.HistInv3 Proofs.UserLaws Proofs.UserHist Proofs.HandlerUser.
From Coq Require Import Lia.

(* ------------------------------------------------------------ the condition *)

(* The handle o (object ob) is the cached object of its own ID, not idle, and
   the cache cannot overflow while the ids are visited (only the ids that are not
   cached need room): a sufficient condition for the loop of LogOut(userID) /
   RefreshUser to find the handler's own object. Not necessary: in a full cache
   the victim may be another entry (HandlerUserEx.v: own_cached_gap_2). *)
(* the listed IDs the loop will have to load: not cached, without repetition *)
Definition uncached (s : st) (ids : list key) : list key :=
  nodup_keys (filter (fun k => negb (has (cache s) k)) ids).

Definition own_cached (s : st) (o : nat) (ob : obj) (ids : list key) : Prop :=
  hget s o = Some ob /\ lookup (cache s) (o_id ob) = Some o /\
  (0 <= c_cacheexpiry (conf s))%Z /\ (since (r_access (o_rec ob)) (now s) <= c_cacheexpiry (conf s))%Z /\
  (c_maxcache (conf s) < 0 \/ Z.of_nat (length (cache s)) + Z.of_nat (length (uncached s ids)) <= c_maxcache (conf s))%Z.

Lemma listed_stored s u k r : lookup (store s) k = Some r -> user_is u (r_user r) = true -> In k (listed s u).
Proof.
  intros Hl Hu. unfold listed. apply in_or_app. right. apply lookup_In in Hl.
  change k with (fst (k, r)). apply in_map. apply filter_In. split; [exact Hl | exact Hu].
Qed.

(* the loop, from a state with the invariants of SessDefs.v *)
Lemma eus_handle s0 o ob ids v :
  sess_inv s0 -> own_cached s0 o ob ids ->
  exists s', each_user_session s0 ids v = (s', Ok tt) /\ sess_inv s' /\
    lookup (cache s') (o_id ob) = Some o /\
    (exists ob', hget s' o = Some ob' /\ o_id ob' = o_id ob /\ (In (o_id ob) ids -> r_user (o_rec ob') = v)).
Proof.
  intros HI (Ho & Hl & Hce & Hf & Hroom).
  pose proof (sess_inv_inv s0 HI) as I.
  destruct (eus_inv 0 _ ND v ids s0 I) as (s' & E & I' & Hi).
  exists s'. split; [exact E|]. split; [eapply inv_sess_inv; exact I'|].
  assert (Hp : pinned s0 (o_id ob) o) by (split; [exact Hl | unfold obj_access; rewrite Ho; exact Hf]).
  assert (Hh : handle_is s0 o (o_id ob)) by (exists ob; split; [exact Ho | reflexivity]).
  destruct (eus_pin _ v (map fst (cache s0) ++ uncached s0 ids) (o_id ob) o ids s0 I) as [P U]; try assumption.
  - intros x Hx. apply in_or_app. destruct (has (cache s0) x) eqn:Eh.
    + left. apply has_true in Eh. destruct Eh as [w Hw]. eapply lookup_Some_in_keys. exact Hw.
    + right. unfold uncached. apply nodup_keys_In. apply filter_In. split; [exact Hx | rewrite Eh; reflexivity].
  - intros x w Hx. apply in_or_app. left. eapply lookup_Some_in_keys. exact Hx.
  - unfold bigK. rewrite app_length, map_length. destruct Hroom as [H|H]; [left; exact H | right; lia].
  - rewrite E in P, U. cbn [fst] in P, U. split; [apply P|].
    destruct (Hi o ob Ho) as [ob' [Ho' Hid']]. exists ob'. split; [exact Ho'|]. split; [exact Hid'|].
    intro Hin. destruct (U (or_introl Hin)) as [ob2 [Ho2 Hu2]]. congruence.
Qed.

(* (1) LogOut(userID) from inside a handler: the handle itself is detached *)
Theorem logout_user_handle s o ob u :
  sess_inv s -> own_cached s o ob (listed s u) ->
  exists s', logout_user s u = (s', Ok tt) /\ sess_inv s' /\
    lookup (cache s') (o_id ob) = Some o /\
    (exists ob', hget s' o = Some ob' /\ o_id ob' = o_id ob /\ (In (o_id ob) (listed s u) -> r_user (o_rec ob') = None)) /\
    (forall k, In k (listed s u) -> nouser_at s' k).
Proof.
  intros HI Hown.
  destruct (logout_user_sess s u HI) as (s' & E & HI' & Hn).
  exists s'. split; [exact E|]. split; [exact HI'|].
  unfold logout_user in E. rewrite p_usersessions_ff in E by apply HI.
  set (s0 := set_evs s ([EvUserSessions u true] ++ evs s)) in *.
  assert (HI0 : sess_inv s0) by (destruct HI as (A & B & C & D); split; [exact A | split; [exact B | split; [exact C | exact D]]]).
  destruct (eus_handle s0 o ob (listed s u) None HI0 Hown) as (s2 & E2 & _ & Hl2 & Hh2).
  assert (Heq : (s', @Ok unit tt) = (s2, Ok tt)) by (rewrite <- E; exact E2).
  injection Heq as <-. split; [exact Hl2|]. split; [exact Hh2 | exact Hn].
Qed.

(* (3) RefreshUser from inside a handler: the handle carries the new user object *)
Theorem refresh_user_handle s o ob u :
  sess_inv s -> own_cached s o ob (listed s (fst u)) ->
  exists s', refresh_user s u = (s', Ok tt) /\ sess_inv s' /\
    lookup (cache s') (o_id ob) = Some o /\
    (exists ob', hget s' o = Some ob' /\ o_id ob' = o_id ob /\ (In (o_id ob) (listed s (fst u)) -> r_user (o_rec ob') = Some u)) /\
    (forall k, In k (listed s (fst u)) ->
       (forall r, lookup (store s') k = Some r -> r_user r = Some (fst u, 0%N)) /\
       (forall o2 ob2, lookup (cache s') k = Some o2 -> hget s' o2 = Some ob2 -> r_user (o_rec ob2) = Some u)).
Proof.
  intros HI Hown.
  destruct (refresh_user_sess s u HI) as (s' & E & HI' & Hn).
  exists s'. split; [exact E|]. split; [exact HI'|].
  unfold refresh_user in E. rewrite p_usersessions_ff in E by apply HI.
  set (s0 := set_evs s ([EvUserSessions (fst u) true] ++ evs s)) in *.
  assert (HI0 : sess_inv s0) by (destruct HI as (A & B & C & D); split; [exact A | split; [exact B | split; [exact C | exact D]]]).
  destruct (eus_handle s0 o ob (listed s (fst u)) (Some u) HI0 Hown) as (s2 & E2 & _ & Hl2 & Hh2).
  assert (Heq : (s', @Ok unit tt) = (s2, Ok tt)) by (rewrite <- E; exact E2).
  injection Heq as <-. split; [exact Hl2|]. split; [exact Hh2 | exact Hn].
Qed.

(* ------------------------------------- the key/value operations afterwards *)

Definition data_op (op : sop) : bool :=
  match op with SSet _ _ | SDel _ | SGet _ | SGetDel _ => true | _ => false end.

(* every record the event saves satisfies P on its user field *)
Definition ev_sat (P : option user -> Prop) (e : ev) : Prop :=
  match e with EvSave _ r _ => P (r_user r) | _ => True end.

(* a persistence event that writes no user: saves carry none *)
Definition nouser_ev : ev -> Prop := ev_sat is_none.

(* The handle carries a user field satisfying Pm (in memory); what the codec
   stores of it satisfies Ps. Pm/Ps = no user (after LogOut(u)), or the new user
   object / its ID (after RefreshUser). *)
Section DataOps.
  Variables (Ps Pm : option user -> Prop).
  Hypothesis Pcodec : forall c r, Pm (r_user r) -> Ps (r_user (codec c r)).

  Definition uf := ufact Ps Pm.

  Lemma uf_saved_hupd s o ob f k : hget s o = Some ob -> Pm (r_user (f (o_rec ob))) ->
    uf s k -> uf (saved (hupd s o f) (o_id ob) (f (o_rec ob))) k.
  Proof.
    intros Ho Hu [A B].
    assert (Eh : hupd s o f = hput s o (mkObj (o_id ob) (f (o_rec ob)))) by (unfold hupd; rewrite Ho; reflexivity).
    rewrite Eh. split.
    - intros rr. unfold saved. sst. destruct (key_eq_dec k (o_id ob)) as [->|Hne].
      + rewrite lookup_upsert_same. intro E. injection E as <-. apply Pcodec. exact Hu.
      + rewrite lookup_upsert_other by exact Hne. apply A.
    - intros o2 ob2 Hl Hg. change (lookup (cache s) k = Some o2) in Hl.
      change (hget (hput s o (mkObj (o_id ob) (f (o_rec ob)))) o2 = Some ob2) in Hg.
      rewrite hget_hput in Hg. destruct (Nat.eqb o o2) eqn:Eb.
      + rewrite Ho in Hg. injection Hg as <-. exact Hu.
      + eapply B; eassumption.
  Qed.

  Lemma uf_saved_same s o ob k : hget s o = Some ob -> Pm (r_user (o_rec ob)) ->
    uf s k -> uf (saved s (o_id ob) (o_rec ob)) k.
  Proof.
    intros Ho Hu [A B]. unfold saved. split; sst.
    - intros rr. destruct (key_eq_dec k (o_id ob)) as [->|Hne].
      + rewrite lookup_upsert_same. intro E. injection E as <-. apply Pcodec. exact Hu.
      + rewrite lookup_upsert_other by exact Hne. apply A.
    - exact B.
  Qed.

  Definition step_facts (s s' : st) (o : nat) (ob : obj) : Prop :=
    (exists ob', hget s' o = Some ob' /\ o_id ob' = o_id ob /\ r_user (o_rec ob') = r_user (o_rec ob)) /\
    (forall k, uf s k -> uf s' k) /\
    (exists new, evs s' = new ++ evs s /\ Forall (ev_sat Ps) new).

  Lemma step_facts_refl s o ob : hget s o = Some ob -> step_facts s s o ob.
  Proof.
    intros Ho. split; [exists ob; repeat split; assumption|]. split; [intros k H; exact H|].
    exists []. split; [reflexivity | constructor].
  Qed.

  Lemma step_facts_upd s o ob f : plan s = [] -> hget s o = Some ob -> Pm (r_user (o_rec ob)) ->
    r_user (f (o_rec ob)) = r_user (o_rec ob) ->
    step_facts s (saved (hupd s o f) (o_id ob) (f (o_rec ob))) o ob.
  Proof.
    intros Hp Ho Hu Hf. assert (Hu' : Pm (r_user (f (o_rec ob)))) by (rewrite Hf; exact Hu). split; [|split].
    - exists (mkObj (o_id ob) (f (o_rec ob))). split; [|split; [reflexivity | exact Hf]].
      unfold saved, hget. sst. fold (hget (hupd s o f) o). rewrite hget_hupd, Nat.eqb_refl, Ho. reflexivity.
    - intros k H. apply (uf_saved_hupd s o ob f k); assumption.
    - exists [EvSave (o_id ob) (codec (conf (hupd s o f)) (f (o_rec ob))) true]. split.
      + unfold saved, hupd. rewrite Ho. reflexivity.
      + constructor; [|constructor]. cbn [ev_sat]. apply Pcodec. exact Hu'.
  Qed.

  Lemma step_facts_same s o ob : plan s = [] -> hget s o = Some ob -> Pm (r_user (o_rec ob)) ->
    step_facts s (saved s (o_id ob) (o_rec ob)) o ob.
  Proof.
    intros Hp Ho Hu. split; [|split].
    - exists ob. split; [exact Ho | split; reflexivity].
    - intros k H. apply (uf_saved_same s o ob k); assumption.
    - exists [EvSave (o_id ob) (codec (conf s) (o_rec ob)) true]. split; [reflexivity|].
      constructor; [|constructor]. cbn [ev_sat]. apply Pcodec. exact Hu.
  Qed.

  (* one key/value operation: no cookie, the handle keeps its ID and user field,
     and whatever it writes satisfies Ps *)
  Lemma data_op_step_gen s o ob had op : plan s = [] -> hget s o = Some ob -> Pm (r_user (o_rec ob)) ->
    data_op op = true ->
    exists s' r, do_sop s o had op = (s', r, []) /\ step_facts s s' o ob.
  Proof.
    intros Hp Ho Hu Hd.
    assert (Hpu : forall f, plan (hupd s o f) = []) by (intro f; unfold hupd; rewrite Ho; exact Hp).
    destruct op as [k v|k|k|k|w ex| | |]; try discriminate; cbn [do_sop]; unfold data_of; rewrite Ho.
    - destruct (r_data (o_rec ob)) as [d|].
      + assert (Ho1 : hget (hupd s o (fun r => set_data r (Some (kv_set d k v)))) o =
                      Some (mkObj (o_id ob) (set_data (o_rec ob) (Some (kv_set d k v))))).
        { rewrite hget_hupd, Nat.eqb_refl, Ho. reflexivity. }
        rewrite (save_direct_ff _ _ _ (Hpu _) Ho1). cbn [o_id o_rec].
        do 2 eexists. split; [reflexivity|].
        apply (step_facts_upd s o ob (fun r => set_data r (Some (kv_set d k v)))); try assumption. reflexivity.
      + do 2 eexists. split; [reflexivity|]. apply step_facts_refl; assumption.
    - destruct (r_data (o_rec ob)) as [d|].
      + assert (Ho1 : hget (hupd s o (fun r => set_data r (Some (kv_del d k)))) o =
                      Some (mkObj (o_id ob) (set_data (o_rec ob) (Some (kv_del d k))))).
        { rewrite hget_hupd, Nat.eqb_refl, Ho. reflexivity. }
        rewrite (save_direct_ff _ _ _ (Hpu _) Ho1). cbn [o_id o_rec].
        do 2 eexists. split; [reflexivity|].
        apply (step_facts_upd s o ob (fun r => set_data r (Some (kv_del d k)))); try assumption. reflexivity.
      + rewrite (save_direct_ff _ _ _ Hp Ho).
        do 2 eexists. split; [reflexivity|]. apply step_facts_same; assumption.
    - do 2 eexists. split; [reflexivity|]. apply step_facts_refl; assumption.
    - destruct (r_data (o_rec ob)) as [d|].
      + destruct (kv_get d k) as [v|].
        * assert (Ho1 : hget (hupd s o (fun r => set_data r (Some (kv_del d k)))) o =
                        Some (mkObj (o_id ob) (set_data (o_rec ob) (Some (kv_del d k))))).
          { rewrite hget_hupd, Nat.eqb_refl, Ho. reflexivity. }
          rewrite (save_direct_ff _ _ _ (Hpu _) Ho1). cbn [o_id o_rec].
          do 2 eexists. split; [reflexivity|].
          apply (step_facts_upd s o ob (fun r => set_data r (Some (kv_del d k)))); try assumption. reflexivity.
        * do 2 eexists. split; [reflexivity|]. apply step_facts_refl; assumption.
      + do 2 eexists. split; [reflexivity|]. apply step_facts_refl; assumption.
  Qed.

  (* clean-ups delete; they write nothing *)
  Lemma fire_evs : forall l s, plan s = [] ->
    exists new, evs (fst (fire s l)) = new ++ evs s /\ Forall (ev_sat Ps) new.
  Proof.
    induction l as [|[due k] t IH]; intros s Hp; cbn [fire].
    - exists []. split; [reflexivity | constructor].
    - destruct (due <=? now s)%Z.
      + rewrite cache_delete_ff by exact Hp.
        destruct (IH (deleted (set_cache s (remove (cache s) k)) k) Hp) as (new & E & Hn).
        exists (new ++ [EvDelete k true]). split.
        * rewrite E. unfold deleted. sst. rewrite <- app_assoc. reflexivity.
        * apply Forall_app. split; [exact Hn | repeat constructor].
      + destruct (IH s Hp) as (new & E & Hn). destruct (fire s t) as [s1 rest]. exists new. split; assumption.
  Qed.

  Lemma fire_due_evs s : plan s = [] -> exists new, evs (fire_due s) = new ++ evs s /\ Forall (ev_sat Ps) new.
  Proof.
    intro Hp. unfold fire_due. destruct (fire_evs (pending s) (set_pending s []) Hp) as (new & E & Hn).
    destruct (fire (set_pending s []) (pending s)) as [s' rest]. exists new. split; assumption.
  Qed.

  Lemma step_facts_trans s1 s2 s3 o ob ob2 : step_facts s1 s2 o ob -> hget s2 o = Some ob2 ->
    step_facts s2 s3 o ob2 -> step_facts s1 s3 o ob.
  Proof.
    intros ((ob2' & Ho2 & Hid2 & Hu2) & N12 & (n12 & E12 & F12)) Hg ((ob3 & Ho3 & Hid3 & Hu3) & N23 & (n23 & E23 & F23)).
    assert (ob2' = ob2) by congruence. subst ob2'.
    split; [exists ob3; split; [exact Ho3 | split; congruence]|].
    split; [intros k H; apply N23, N12, H|].
    exists (n23 ++ n12). split; [rewrite E23, E12, app_assoc; reflexivity | apply Forall_app; split; assumption].
  Qed.

  (* a script of key/value operations *)
  Lemma data_script_gen base had : forall post s o ob, inv 0 base NX ND s -> hget s o = Some ob ->
    Pm (r_user (o_rec ob)) -> forallb data_op post = true ->
    exists s' rs, run_script s o had post = (s', rs, []) /\ inv 0 base NX ND s' /\ step_facts s s' o ob.
  Proof.
    induction post as [|op t IH]; intros s o ob I Ho Hu Hd.
    - exists s, []. split; [reflexivity|]. split; [exact I | apply step_facts_refl; assumption].
    - cbn [forallb] in Hd. apply andb_true_iff in Hd. destruct Hd as [Hd1 Hd2].
      pose proof (i_plan _ _ _ _ _ I) as Hp.
      destruct (data_op_step_gen s o ob had op Hp Ho Hu Hd1) as (s1 & r & E1 & S1).
      assert (H : hok 0 ND s o) by (split; [lia | exists ob; split; [exact Ho | intros []]]).
      destruct (do_sop_inv _ _ _ _ _ had op I H) as (s1' & r' & ck' & E1' & I1 & _).
      rewrite E1 in E1'. injection E1' as <- <- <-.
      destruct (fire_due_inv _ _ _ _ I1) as (I2 & Hh & _).
      destruct S1 as ((ob1 & Ho1 & Hid1 & Hu1) & N1 & (n1 & Ev1 & F1)).
      assert (Ho2 : hget (fire_due s1) o = Some ob1) by (unfold hget; rewrite Hh; exact Ho1).
      destruct (fire_due_evs s1 (i_plan _ _ _ _ _ I1)) as (n2 & Ev2 & F2).
      assert (S2 : step_facts s (fire_due s1) o ob).
      { split; [exists ob1; split; [exact Ho2 | split; assumption]|]. split.
        - intros k Hk. apply ufact_fire_due; [apply (i_plan _ _ _ _ _ I1) | apply N1; exact Hk].
        - exists (n2 ++ n1). split; [rewrite Ev2, Ev1, app_assoc; reflexivity | apply Forall_app; split; assumption]. }
      rewrite run_script_cons, E1.
      destruct (stops op r) eqn:Est.
      + exists (fire_due s1), [r]. split; [reflexivity|]. split; [exact I2 | exact S2].
      + assert (Hu1' : Pm (r_user (o_rec ob1))) by (rewrite Hu1; exact Hu).
        destruct (IH (fire_due s1) o ob1 I2 Ho2 Hu1' Hd2) as (s3 & rs & E3 & I3 & S3).
        rewrite E3. exists s3, (r :: rs). split; [reflexivity|]. split; [exact I3|].
        eapply step_facts_trans; eassumption.
  Qed.
End DataOps.

(* the statement about a handle without user, as C08U states it *)
Lemma data_op_step s o ob had op : plan s = [] -> hget s o = Some ob -> r_user (o_rec ob) = None ->
  data_op op = true ->
  exists s' r, do_sop s o had op = (s', r, []) /\
    (exists ob', hget s' o = Some ob' /\ o_id ob' = o_id ob /\ r_user (o_rec ob') = None) /\
    (forall k, ufact is_none is_none s k -> ufact is_none is_none s' k) /\
    (exists new, evs s' = new ++ evs s /\ Forall nouser_ev new).
Proof.
  intros Hp Ho Hu Hd.
  destruct (data_op_step_gen is_none is_none none_codec s o ob had op Hp Ho Hu Hd) as (s' & r & E & (ob' & A1 & A2 & A3) & B & C).
  exists s', r. split; [exact E|]. split; [exists ob'; split; [exact A1 | split; [exact A2 | congruence]]|]. split; [exact B | exact C].
Qed.

(* ------------------------------------------------- the composite hu_tail *)

(* (1) The handler calls LogOut(u), then key/value operations on its handle. *)
Theorem hu_tail_logout s o ob had u post :
  sess_inv s -> own_cached s o ob (listed s u) -> In (o_id ob) (listed s u) -> forallb data_op post = true ->
  exists s1 s' rs mid new,
    logout_user s u = (s1, Ok tt) /\
    hu_tail s o had (ULogout u) post = (s', SOk :: rs, [], Some (o_id ob, mid)) /\
    r_user mid = None /\                                       (* the handle right after the call *)
    sess_inv s' /\
    (exists ob', hget s' o = Some ob' /\ o_id ob' = o_id ob /\ r_user (o_rec ob') = None) /\
    evs s' = new ++ evs (fire_due s1) /\ Forall nouser_ev new /\  (* what the operations wrote *)
    (forall k, In k (listed s u) -> nouser_at s' k).             (* store and memory at the end *)
Proof.
  intros HI Hown Hin Hd.
  destruct (logout_user_handle s o ob u HI Hown) as (s1 & E & HI1 & Hl1 & (ob1 & Ho1 & Hid1 & Hu1) & Hn1).
  specialize (Hu1 Hin).
  pose proof (sess_inv_inv s1 HI1) as I1.
  destruct (fire_due_inv _ _ _ _ I1) as (I2 & Hh & _).
  assert (Ho2 : hget (fire_due s1) o = Some ob1) by (unfold hget; rewrite Hh; exact Ho1).
  destruct (data_script_gen is_none is_none none_codec _ had post (fire_due s1) o ob1 I2 Ho2 Hu1 Hd)
    as (s' & rs & E3 & I3 & ((ob3 & Ho3 & Hid3 & Hu3) & N3 & (new & Ev3 & F3))).
  exists s1, s', rs, (o_rec ob1), new.
  split; [exact E|]. split.
  - unfold hu_tail. cbn [user_call]. rewrite E. unfold handle_view. rewrite Ho2, E3, Hid1. reflexivity.
  - split; [exact Hu1|]. split; [eapply inv_sess_inv; exact I3|].
    split; [exists ob3; split; [exact Ho3 | split; congruence]|].
    split; [exact Ev3|]. split; [exact F3|].
    intros k Hk. apply ufact_nouser. apply N3. apply ufact_fire_due; [apply HI1|].
    apply nouser_to_ufact; [apply HI1 | apply Hn1; exact Hk].
Qed.

(* (3) The handler calls RefreshUser(u), then key/value operations: its own
   handle carries the new user object, every record written since carries the
   user's ID, and so does every listed ID at the end. *)
Theorem hu_tail_refresh s o ob had u post :
  sess_inv s -> own_cached s o ob (listed s (fst u)) -> In (o_id ob) (listed s (fst u)) ->
  forallb data_op post = true ->
  exists s1 s' rs mid new,
    refresh_user s u = (s1, Ok tt) /\
    hu_tail s o had (URefresh u) post = (s', SOk :: rs, [], Some (o_id ob, mid)) /\
    r_user mid = Some u /\ sess_inv s' /\
    (exists ob', hget s' o = Some ob' /\ o_id ob' = o_id ob /\ r_user (o_rec ob') = Some u) /\
    evs s' = new ++ evs (fire_due s1) /\ Forall (ev_sat (fun x => x = Some (fst u, 0%N))) new /\
    (forall k, In k (listed s (fst u)) ->
       (forall r, lookup (store s') k = Some r -> r_user r = Some (fst u, 0%N)) /\
       (forall o2 ob2, lookup (cache s') k = Some o2 -> hget s' o2 = Some ob2 -> r_user (o_rec ob2) = Some u)).
Proof.
  intros HI Hown Hin Hd.
  destruct (refresh_user_handle s o ob u HI Hown) as (s1 & E & HI1 & Hl1 & (ob1 & Ho1 & Hid1 & Hu1) & Hn1).
  specialize (Hu1 Hin).
  pose proof (sess_inv_inv s1 HI1) as I1.
  destruct (fire_due_inv _ _ _ _ I1) as (I2 & Hh & _).
  assert (Ho2 : hget (fire_due s1) o = Some ob1) by (unfold hget; rewrite Hh; exact Ho1).
  destruct (data_script_gen (is_uid u) (is_usr u) (usr_codec u) _ had post (fire_due s1) o ob1 I2 Ho2 Hu1 Hd)
    as (s' & rs & E3 & I3 & ((ob3 & Ho3 & Hid3 & Hu3) & N3 & (new & Ev3 & F3))).
  exists s1, s', rs, (o_rec ob1), new.
  split; [exact E|]. split.
  - unfold hu_tail. cbn [user_call]. rewrite E. unfold handle_view. rewrite Ho2, E3, Hid1. reflexivity.
  - split; [exact Hu1|]. split; [eapply inv_sess_inv; exact I3|].
    split; [exists ob3; split; [exact Ho3 | split; congruence]|].
    split; [exact Ev3|]. split; [exact F3|].
    intros k Hk. apply (N3 k). apply ufact_fire_due; [apply HI1|]. exact (Hn1 k Hk).
Qed.

(* the vocabulary, unfolded *)
Lemma own_cached_meaning s o ob ids :
  own_cached s o ob ids <->
  hget s o = Some ob /\ lookup (cache s) (o_id ob) = Some o /\
  (0 <= c_cacheexpiry (conf s))%Z /\ (since (r_access (o_rec ob)) (now s) <= c_cacheexpiry (conf s))%Z /\
  (c_maxcache (conf s) < 0 \/
   Z.of_nat (length (cache s)) + Z.of_nat (length (nodup_keys (filter (fun k => negb (has (cache s) k)) ids))) <= c_maxcache (conf s))%Z.
Proof. reflexivity. Qed.
