(* C10 at the level of histories, part 3: the theorems for the rotation-in-Start
   scenario (rot_crash, CrashRestart2.v) — the request after the crash, with or
   without a wait in between — and a worked example. *)
From Sessions Require Import Model.Base Model.Sess Model.Hist Proofs.SessDefs
  Proofs.HistInv Proofs.HistInv2 Proofs.HistInv3.
From Sessions Require Proofs.CrashFault3 Proofs.CrashFault5 Proofs.CrashFault6 Proofs.LiveHist4 Proofs.LiveHist8.
From Sessions Require Import Proofs.CrashRestart Proofs.CrashRestart2.
From Coq Require Import Lia.
Import CrashFault3 CrashFault5 CrashFault6 LiveHist4.
Local Open Scope Z_scope.

Definition probe_q (k : key) (r : reqstep) : request := mkReq (CKey k) (rq_create r) (rq_addr r) (rq_ua r).

(* the request right after the crash presents the old ID *)
Theorem restart_old w r n k D U r2 :
  rot_crash w r n k D U ->
  let w' := fst (step w (HReq r)) in
  rq_plan r2 = [] -> rq_crash r2 = None -> pres w' r2 = CKey k ->
  (forall rk, lookup (store (w_st w')) k = Some rk ->
     probe_ok (conf (w_st w)) (now (w_st w)) (probe_q k r2) rk) ->
  ob_res (snd (step w' (HReq r2))) = RSess /\
  exists id rc, ob_start (snd (step w' (HReq r2))) = Some (id, rc) /\ r_ref rc = None /\ full D U rc.
Proof.
  intros H w' Hpl Hcr Hk Hok.
  destruct (crash_store_rot w r n k D U H) as (l & s2 & o & cks & _ & _ & _ & _ & C1 & C2 & C3 & C4 & _ & Hold & _).
  apply (probe_step w' r2 k D U); try assumption.
  fold w' in C3, C4. rewrite C3, C4. exact Hok.
Qed.

(* ... or the new one, when the process stopped after the last persistence call *)
Theorem restart_new w r n k D U r2 :
  rot_crash w r n k D U ->
  let w' := fst (step w (HReq r)) in let nid := KGen (supply (w_st w)) in
  (length (evs (req_end w r)) <= n)%nat ->
  rq_plan r2 = [] -> rq_crash r2 = None -> pres w' r2 = CKey nid ->
  (forall rk, lookup (store (w_st w')) nid = Some rk ->
     probe_ok (conf (w_st w)) (now (w_st w)) (probe_q nid r2) rk) ->
  ob_res (snd (step w' (HReq r2))) = RSess /\
  exists id rc, ob_start (snd (step w' (HReq r2))) = Some (id, rc) /\ r_ref rc = None /\ full D U rc.
Proof.
  intros H w' nid Hn Hpl Hcr Hk Hok.
  destruct (crash_store_rot w r n k D U H) as (l & s2 & o & cks & E & El & Hlen & _ & C1 & C2 & C3 & C4 & _ & _ & Hnew).
  apply (probe_step w' r2 nid D U); try assumption.
  - apply Hnew. rewrite Hlen. exact Hn.
  - fold w' in C3, C4. rewrite C3, C4. exact Hok.
Qed.

(* a wait after the crash: nothing is pending, the store is untouched *)
Lemma wait_after_crash w d :
  plan (w_st w) = [] -> cache (w_st w) = [] -> pending (w_st w) = [] ->
  let w2 := fst (step w (HWait d)) in
  plan (w_st w2) = [] /\ cache (w_st w2) = [] /\ store (w_st w2) = store (w_st w) /\
  conf (w_st w2) = conf (w_st w) /\ now (w_st w2) = now (w_st w) + d /\ w_jars w2 = w_jars w.
Proof.
  intros Hp Hc Hpe. cbn [step fst w_st w_jars]. unfold fire_due. sst. rewrite Hpe. cbn [fire]. sst. repeat split; assumption.
Qed.

Theorem restart_old_later w r n k D U d r2 :
  rot_crash w r n k D U ->
  let w' := fst (step w (HReq r)) in let w2 := fst (step w' (HWait d)) in
  rq_plan r2 = [] -> rq_crash r2 = None -> pres w2 r2 = CKey k ->
  (forall rk, lookup (store (w_st w')) k = Some rk ->
     probe_ok (conf (w_st w)) (now (w_st w) + d) (probe_q k r2) rk) ->
  ob_res (snd (step w2 (HReq r2))) = RSess /\
  exists id rc, ob_start (snd (step w2 (HReq r2))) = Some (id, rc) /\ r_ref rc = None /\ full D U rc.
Proof.
  intros H w' w2 Hpl Hcr Hk Hok.
  destruct (crash_store_rot w r n k D U H) as (l & s2 & o & cks & _ & _ & _ & _ & C1 & C2 & C3 & C4 & _ & Hold & _).
  destruct (crash_world w r n (rc_crash _ _ _ _ _ _ H)) as (_ & _ & _ & C5 & _).
  destruct (wait_after_crash w' d C2 C1 C5) as (W1 & W2 & W3 & W4 & W5 & W6). fold w2 in W1, W2, W3, W4, W5, W6.
  apply (probe_step w2 r2 k D U); try assumption.
  - rewrite W3. exact Hold.
  - rewrite W3, W4, W5. fold w' in C3, C4. rewrite C3, C4. exact Hok.
Qed.

(* a crash leaves the client's jar alone: the client still presents the old ID *)
Lemma crash_jar w r n c : rq_crash r = Some n -> jar_of (w_jars (fst (step w (HReq r)))) c = jar_of (w_jars w) c.
Proof. intro H. destruct (crash_world w r n H) as (-> & _). reflexivity. Qed.

(* ------------------------------------------------------------- example *)

(* client 1 creates a session, stores a value, logs in; 700 s later (ID expiry
   600 s, session expiry 1 h, grace 60 s, cache size 2) its next request rotates
   the ID and the process stops after n persistence calls *)
Definition cX : cfg := mkCfg 3600000000000 600000000000 60000000000 max64 2 1 true false.
Definition rqx (c : N) (sc : list sop) : hop := HReq (mkReqStep c PJar true (V4 1 2 3 4 5) 7 sc [] [] None).
Definition hX : list hop := [rqx 1 [SSet 1 2; SLogIn (5%N, 1%N) false]; HWait 700000000000].
Definition wX : world := Eval vm_compute in reach cX hX.
Lemma wX_eq : wX = reach cX hX.
Proof. vm_compute. reflexivity. Qed.
Definition r1X (n : nat) : reqstep := mkReqStep 1 PJar true (V4 1 2 3 4 5) 7 [] [] [] (Some n).
Definition r2X : reqstep := mkReqStep 1 PJar false (V4 1 2 3 4 5) 7 [] [] [] None.

Lemma rot_crash_ex n : rot_crash wX (r1X n) n (KGen 1) [(1%N, 2%N)] (Some 5%N).
Proof.
  apply mkRC.
  - rewrite wX_eq. apply LiveHist8.reach_sess_inv; [repeat (constructor; try exact I; try reflexivity) | repeat (constructor; try exact I; try reflexivity)].
  - reflexivity.
  - reflexivity.
  - reflexivity.
  - vm_compute. reflexivity.
  - split.
    + eexists. split; [vm_compute; reflexivity|]. repeat split; vm_compute; reflexivity.
    + intros o ob Hl Ho. vm_compute in Hl. injection Hl as <-. vm_compute in Ho. injection Ho as <-.
      repeat split; vm_compute; reflexivity.
  - vm_compute. reflexivity.
  - vm_compute. reflexivity.
  - intros d k' H. vm_compute in H. destruct H.
Qed.

Definition outcome (n : nat) :=
  let w' := fst (step wX (HReq (r1X n))) in
  (ob_res (snd (step wX (HReq (r1X n)))), pres w' r2X, lookup (store (w_st w')) (KGen 1),
   ob_res (snd (step w' (HReq r2X))),
   option_map (fun x => (dat (snd x), uid (snd x))) (ob_start (snd (step w' (HReq r2X))))).

Example restart_ex :
  Forall (fun n => exists rk,
    outcome n = (RCrashed, CKey (KGen 1), Some rk, RSess, Some ([(1%N, 2%N)], Some 5%N)) /\
    probe_ok (conf (w_st wX)) (now (w_st wX)) (probe_q (KGen 1) r2X) rk)
  [0; 1; 2; 3; 4]%nat.
Proof.
  repeat (apply Forall_cons;
    [eexists; split; [vm_compute; reflexivity | split; [vm_compute; reflexivity | intros [H|H]; vm_compute in H; try discriminate H; vm_compute; reflexivity]] |]).
  apply Forall_nil.
Qed.

(* --------------------------------------------------- the definitions, unfolded *)

Lemma probe_ok_meaning c t q rk :
  probe_ok c t q rk <->
  (negb (c_expiry c <=? since (r_access rk) t) && ip_ok (c_acceptip c) (r_ip rk) (q_addr q)
   && ua_ok (c_acceptua c) (r_ua rk) (q_ua q) = true /\
   ((r_ref rk <> None \/ since (r_created rk) t < c_idexpiry c) ->
    since (r_created rk) t < sat_add (c_idexpiry c) (c_grace c))).
Proof.
  unfold probe_ok, rec_valid, isref. rewrite !Z.leb_gt.
  assert (E : (match r_ref rk with Some _ => true | None => false end) = true <-> r_ref rk <> None).
  { destruct (r_ref rk); split; intro H; try reflexivity; try discriminate; congruence. }
  rewrite E. tauto.
Qed.

Lemma rot_crash_meaning w r n k D U :
  rot_crash w r n k D U <->
  sess_inv (w_st w) /\ rq_plan r = [] /\ rq_crash r = Some n /\ rq_script r = [] /\
  pres w r = CKey k /\ presented (w_st w) k D U /\
  start_rotates (req_s1 w r) (req_q w r) = true /\
  0 < c_grace (conf (w_st w)) /\
  (forall d k', In (d, k') (pending (w_st w)) -> now (w_st w) < d).
Proof.
  split.
  - intros [H1 H2 H3 H4 H5 H6 H7 H8 H9]. exact (conj H1 (conj H2 (conj H3 (conj H4 (conj H5 (conj H6 (conj H7 (conj H8 H9)))))))).
  - intros (H1&H2&H3&H4&H5&H6&H7&H8&H9). exact (mkRC _ _ _ _ _ _ H1 H2 H3 H4 H5 H6 H7 H8 H9).
Qed.
