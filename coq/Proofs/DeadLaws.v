(* Task PF, C07: the step that ends a session (Destroy in the handler script, or
   a Start that finds the presented session invalid) leaves its ID dead, sends
   the expiring cookie, and leaves a cookie-following client without that ID;
   with stays_dead of HistInv3.v: it never comes back. *)
From Sessions Require Import Model.Base Model.Sess Model.Hist Proofs.SessDefs
  Proofs.HistInv Proofs.HistInv2 Proofs.HistInv3 Proofs.IsoLaws.
From Coq Require Import Lia.

(* absent from cache and store *)
Definition absent (s : st) (k : key) : Prop := lookup (cache s) k = None /\ lookup (store s) k = None.

Lemma absent_cache_delete s k k' : plan s = [] -> absent s k -> absent (fst (cache_delete s k')) k.
Proof.
  intros Hp [Hc Hs]. rewrite cache_delete_ff by exact Hp. unfold deleted, absent. sst. split.
  - destruct (key_eq_dec k k') as [->|Hne]; [apply lookup_remove_same | rewrite lookup_remove_other by exact Hne; exact Hc].
  - destruct (key_eq_dec k k') as [->|Hne]; [apply lookup_remove_same | rewrite lookup_remove_other by exact Hne; exact Hs].
Qed.

Lemma absent_fire k : forall l s, plan s = [] -> absent s k -> absent (fst (fire s l)) k /\ plan (fst (fire s l)) = [].
Proof.
  induction l as [|[due k'] t IH]; intros s Hp Ha; cbn [fire]; [split; assumption|].
  destruct (due <=? now s)%Z.
  - pose proof (absent_cache_delete s k k' Hp Ha) as Ha1.
    assert (Hp1 : plan (fst (cache_delete s k')) = []) by (rewrite cache_delete_ff by exact Hp; exact Hp).
    destruct (cache_delete s k') as [s1 ok]. cbn [fst] in *. apply IH; assumption.
  - destruct (IH s Hp Ha) as [A B]. destruct (fire s t) as [s1 rest]. cbn [fst] in *. split; assumption.
Qed.

Lemma absent_fire_due s k : plan s = [] -> absent s k -> absent (fire_due s) k.
Proof.
  intros Hp Ha. unfold fire_due.
  destruct (absent_fire k (pending s) (set_pending s []) Hp Ha) as [A _].
  destruct (fire (set_pending s []) (pending s)) as [s1 rest]. cbn [fst] in A. exact A.
Qed.

Lemma apply_cookies_app jar a b : apply_cookies jar (a ++ b) = apply_cookies (apply_cookies jar a) b.
Proof. unfold apply_cookies. apply fold_left_app. Qed.

(* ------------------------------------------- Destroy in the handler script *)

(* If the last operation a script executed is Destroy, then afterwards the
   handler's session ID is absent from cache and store, it is a drawn ID, and
   the script's cookies end with the expiring cookie. *)
Lemma script_destroy b base D hc : forall ops s o s' rs cks, inv b base NX D s -> hok b D s o ->
  run_script s o hc ops = (s', rs, cks) -> rs <> [] -> nth_error ops (length rs - 1) = Some SDestroy ->
  exists ob' cks0, hget s' o = Some ob' /\ absent s' (o_id ob') /\ kd (supply s') (o_id ob') /\ cks = cks0 ++ [CkDelete].
Proof.
  induction ops as [|op t IH]; intros s o s' rs cks I H E Hne Hn; cbn [run_script] in E.
  - injection E as <- <- <-. congruence.
  - destruct (do_sop_inv _ _ _ _ _ hc op I H) as (s1 & r & c1 & E1 & I1 & H1 & _). rewrite E1 in E.
    destruct (fire_due_inv _ _ _ _ I1) as (I2 & Hh & Hsup).
    assert (H2 : hok b D (fire_due s1) o) by (eapply hok_ids; [apply ids_pres_heap; exact Hh | exact H1]).
    destruct (match op with SDestroy => true | _ => false end) eqn:Eop.
    + destruct op; try discriminate. cbn [do_sop] in E1.
      pose proof H as [Hbo [ob [Ho HnD]]].
      rewrite (destroy_ff _ _ _ _ (i_plan _ _ _ _ _ I) Ho) in E1. injection E1 as <- <- <-.
      injection E as <- <- <-. exists ob, []. split; [|split; [|split; [|reflexivity]]].
      * unfold hget. rewrite Hh. rewrite cache_delete_heap by apply (i_plan _ _ _ _ _ I). exact Ho.
      * apply absent_fire_due; [apply (i_plan _ _ _ _ _ I1)|].
        destruct (cache_delete_gone s (o_id ob) (i_plan _ _ _ _ _ I)) as (A & B & _). split; assumption.
      * rewrite Hsup. rewrite cache_delete_ff by apply (i_plan _ _ _ _ _ I). cbn [fst]. unfold deleted. sst.
        apply (i_fh _ _ _ _ _ I o ob Hbo Ho).
    + assert (Hstop : (match op, r with SDestroy, _ => true | _, SPanic _ => true | _, _ => false end)
                      = match r with SPanic _ => true | _ => false end) by (destruct op; try reflexivity; discriminate).
      rewrite Hstop in E. destruct (match r with SPanic _ => true | _ => false end).
      * injection E as <- <- <-. cbn [length Nat.sub nth_error] in Hn. injection Hn as ->. discriminate.
      * destruct (run_script (fire_due s1) o hc t) as [[s2 rs2] cks2] eqn:E2. injection E as <- <- <-.
        destruct rs2 as [|r2 rs2'].
        -- cbn [length Nat.sub nth_error] in Hn. injection Hn as ->. discriminate.
        -- destruct (IH (fire_due s1) o s2 (r2 :: rs2') cks2 I2 H2 E2) as (ob' & cks0 & A1 & A2 & A3 & A4).
           ++ discriminate.
           ++ cbn [length] in Hn. cbn [length]. replace (S (S (length rs2')) - 1) with (S (length rs2')) in Hn by lia.
              cbn [nth_error] in Hn. replace (S (length rs2') - 1) with (length rs2') by lia. exact Hn.
           ++ exists ob', (c1 ++ cks0). split; [exact A1|]. split; [exact A2|]. split; [exact A3|].
              rewrite A4. apply app_assoc.
Qed.

Theorem step_destroy b w r : winv b ND (w_st w) -> rq_plan r = [] -> rq_crash r = None ->
  ob_script (snd (step w (HReq r))) <> [] ->
  nth_error (rq_script r) (length (ob_script (snd (step w (HReq r)))) - 1) = Some SDestroy ->
  exists k rc, ob_final (snd (step w (HReq r))) = Some (k, rc) /\
    key_drawn (w_st (fst (step w (HReq r)))) k /\ absent (w_st (fst (step w (HReq r)))) k /\
    In CkDelete (ob_cookies (snd (step w (HReq r)))) /\
    (rq_present r = PJar -> ob_jar (snd (step w (HReq r))) = CNone).
Proof.
  intros W Hpl Hcr. rewrite step_req_eq. cbv zeta. rewrite Hpl, Hcr.
  pose proof (inv_of_winv b ND (w_st w) (rq_tb r) W) as I1. unfold req_body.
  match goal with |- context [start ?s1 ?q] =>
    destruct (start_inv _ _ _ _ q I1) as (s2 & res & cks & E & I2 & Hres & Hck)
  end.
  rewrite E. destruct (fire_due_inv _ _ _ _ I2) as (I3 & Hh & _).
  destruct res as [[o|]|e|e]; cbn [res_ok] in Hres; try (cbn [snd mk_obs ob_script]; congruence).
  assert (H3 : hok b ND (fire_due s2) o) by (eapply hok_ids; [apply ids_pres_heap; exact Hh | exact Hres]).
  destruct (run_script (fire_due s2) o _ (rq_script r)) as [[s3 sr] cks'] eqn:E'.
  cbn [snd fst mk_obs ob_script ob_final ob_cookies ob_jar w_st]. intros Hne Hn.
  destruct (script_destroy _ _ _ _ _ _ _ _ _ _ I3 H3 E' Hne Hn) as (ob' & cks0 & A1 & A2 & A3 & A4).
  exists (o_id ob'), (o_rec ob'). split; [unfold handle_view; rewrite A1; reflexivity|].
  split; [exact A3|]. split; [exact A2|]. subst cks'. split.
  - apply in_app_iff. right. apply in_app_iff. right. left. reflexivity.
  - intros ->. rewrite app_assoc, apply_cookies_app. reflexivity.
Qed.

(* --------------------------------------- invalidation by Start (C03, C06) *)

Lemma cache_get_now s k : ffnd s -> now (fst (cache_get s k)) = now s.
Proof.
  intro F. pose proof (cache_get_ff s k (proj1 F)) as Hff. destruct (lookup (cache s) k); [rewrite Hff; reflexivity|].
  destruct Hff as [es [_ Hff]]. destruct (lookup (store s) k) as [r0|]; rewrite Hff; [|reflexivity]. cbn [fst].
  rewrite loaded_eq. cbv zeta. destruct (c_maxcache (conf s) =? 0)%Z; [reflexivity|]. sst.
  destruct (compact_frame (set_heap (set_evs s (es ++ evs s)) (heap s ++ [mkObj k r0])) 1 F) as (_ & _ & _ & _ & -> & _). reflexivity.
Qed.

(* A Start presenting an ID whose record fails the validity check (idle for
   SessionExpiry or longer, or a peer/agent anomaly) destroys it: the ID is dead
   from there on (the invariant continues with that ID in the dead set), the
   response begins with the expiring cookie, and the call returns nothing or a
   session created now. *)
Lemma start_invalid_dead b base s q k r0 : inv b base NX ND s -> q_cookie q = CKey k -> L s k = Some r0 ->
  rec_valid (conf s) (now s) q r0 = false ->
  exists s' res cks base', start s q = (s', res, CkDelete :: cks) /\ inv b base' NX (eq k) s' /\
    res_ok b (eq k) s' res /\ cks_ok (eq k) cks /\
    match res with Ok None => q_create q = false | Ok (Some _) => q_create q = true | _ => False end.
Proof.
  intros I Hq HL Hv. rewrite start_eq, Hq. assert (F : ffnd s) by (eapply inv_ffnd; exact I).
  destruct (cache_get_inv _ _ _ _ _ k I) as (s1 & r & E & I1 & Hr). pose proof (cache_get_now s k F) as Hnow.
  rewrite E in *. cbn [fst] in Hnow. destruct r as [o|]; [|destruct Hr as [A B]; unfold L in HL; rewrite A, B in HL; discriminate].
  destruct Hr as [Hbo [ob (Ho & [Hid|[]] & _ & HL')]]. rewrite HL in HL'. injection HL' as ->. rewrite Ho.
  assert (F1 : ffnd s1) by (eapply inv_ffnd; exact I1). rewrite <- Hnow in Hv.
  rewrite (sf_invalid _ _ _ _ _ _ _ (proj1 F1) Ho Hv). rewrite Hid.
  assert (I2 : inv b base NX ND (fst (cache_delete s1 k))) by (apply inv_cache_delete; exact I1).
  destruct (cache_delete_gone s1 k (proj1 F1)) as (A & B & _).
  assert (Hk : key_drawn (fst (cache_delete s1 k)) k).
  { rewrite cache_delete_ff by apply F1. cbn [fst]. unfold deleted, key_drawn. sst.
    destruct (i_fh _ _ _ _ _ I1 o ob Hbo Ho) as [Hk _]. rewrite Hid in Hk. exact Hk. }
  pose proof (inv_add_dead _ _ _ _ I2 Hk A B) as I3.
  destruct (q_create q) eqn:Ec.
  - rewrite create_session_ff by (eapply inv_ffnd; exact I3).
    destruct (created_inv _ _ _ _ q I3) as [I' H']. do 4 eexists. split; [reflexivity|]. split; [exact I'|].
    split; [exact H'|]. split; [|reflexivity]. apply cks_ok_live. eapply inv_fresh_nD. exact I3.
  - do 4 eexists. split; [reflexivity|]. split; [exact I3|]. split; [exact Logic.I|]. split; [apply cks_ok_nil | reflexivity].
Qed.

Lemma apply_cookies_not k : forall l j, j <> CKey k -> ~ In (CkLive k) l -> apply_cookies j l <> CKey k.
Proof.
  unfold apply_cookies. induction l as [|c l IH]; intros j Hj Hn; simpl; [exact Hj|].
  apply IH; [|intro H; apply Hn; right; exact H].
  destruct c as [k'| |n]; [|discriminate | exact Hj]. intro E. injection E as ->. apply Hn. left. reflexivity.
Qed.

Theorem step_invalid_dead b w r k r0 : winv b ND (w_st w) -> rq_plan r = [] -> rq_crash r = None ->
  presented w r = CKey k -> L (w_st w) k = Some r0 ->
  rec_valid (conf (w_st w)) (now (w_st w)) (mkReq (presented w r) (rq_create r) (rq_addr r) (rq_ua r)) r0 = false ->
  key_drawn (w_st (fst (step w (HReq r)))) k /\ absent (w_st (fst (step w (HReq r)))) k /\
  (exists rest, ob_cookies (snd (step w (HReq r))) = CkDelete :: rest /\ ~ In (CkLive k) rest) /\
  (forall rc, ob_start (snd (step w (HReq r))) <> Some (k, rc)) /\
  (forall rc, ob_final (snd (step w (HReq r))) <> Some (k, rc)) /\
  (rq_present r = PJar -> ob_jar (snd (step w (HReq r))) <> CKey k).
Proof.
  intros W Hpl Hcr Hpr HL Hv. rewrite step_req_eq. cbv zeta. rewrite Hpl, Hcr.
  pose proof (inv_of_winv b ND (w_st w) (rq_tb r) W) as I1. unfold req_body.
  fold (presented w r).
  match goal with |- context [start ?s1 ?q] =>
    destruct (start_invalid_dead b _ s1 q k r0 I1 Hpr HL Hv) as (s2 & res & cks & base' & E & I2 & Hres & Hck & Hcase)
  end.
  rewrite E. destruct (fire_due_inv _ _ _ _ I2) as (I3 & Hh & _).
  assert (Fin : forall s3, inv b base' NX (eq k) s3 -> key_drawn s3 k /\ absent s3 k).
  { intros s3 I. split; [apply (i_Dd _ _ _ _ _ I k eq_refl)|]. split; [|apply (i_Ds _ _ _ _ _ I k eq_refl)].
    destruct (lookup (cache s3) k) as [o|] eqn:El; [|reflexivity]. exfalso.
    destruct (i_cok _ _ _ _ _ I k o El) as [ob [Hob _]].
    destruct (i_Dc _ _ _ _ _ I k k o ob eq_refl El Hob) as [H _]. congruence. }
  destruct res as [[o|]|e|e]; try contradiction; cbn [res_ok] in Hres.
  - assert (H3 : hok b (eq k) (fire_due s2) o) by (eapply hok_ids; [apply ids_pres_heap; exact Hh | exact Hres]).
    destruct (run_script_inv _ _ _ (had_cookie (mkReq (presented w r) (rq_create r) (rq_addr r) (rq_ua r))) (rq_script r) _ _ I3 H3)
      as (s3 & rs & cks' & E' & I4 & H4 & Hck').
    rewrite E'. cbn [snd fst mk_obs ob_start ob_final ob_cookies ob_jar w_st].
    destruct (Fin s3 I4) as [A1 A2]. split; [exact A1|]. split; [exact A2|].
    assert (Hrest : ~ In (CkLive k) (cks ++ cks')).
    { intro Hin. apply in_app_iff in Hin. destruct Hin as [Hin|Hin]; [apply (Hck k Hin) | apply (Hck' k Hin)]; reflexivity. }
    split; [exists (cks ++ cks'); split; [reflexivity | exact Hrest]|].
    split; [intros rc Hs; apply (handle_view_ok _ _ _ _ _ _ H3 Hs); reflexivity|].
    split; [intros rc Hs; apply (handle_view_ok _ _ _ _ _ _ H4 Hs); reflexivity|].
    intros ->. change (apply_cookies (jar_of (w_jars w) (rq_client r)) ((CkDelete :: cks) ++ cks'))
      with (apply_cookies CNone (cks ++ cks')). apply apply_cookies_not; [discriminate | exact Hrest].
  - cbn [snd fst mk_obs ob_start ob_final ob_cookies ob_jar w_st].
    destruct (Fin (fire_due s2) I3) as [A1 A2]. split; [exact A1|]. split; [exact A2|].
    assert (Hrest : ~ In (CkLive k) cks) by (intro Hin; apply (Hck k Hin); reflexivity).
    split; [exists cks; split; [reflexivity | exact Hrest]|].
    split; [discriminate|]. split; [discriminate|].
    intros ->. change (apply_cookies (jar_of (w_jars w) (rq_client r)) (CkDelete :: cks))
      with (apply_cookies CNone cks). apply apply_cookies_not; [discriminate | exact Hrest].
Qed.

(* ------------------------------------------- ended sessions never come back *)

Theorem destroyed_never_returns c hs1 r hs2 :
  Forall ff_hop hs1 -> rq_plan r = [] -> rq_crash r = None -> Forall ff_hop hs2 ->
  ob_script (snd (step (reach c hs1) (HReq r))) <> [] ->
  nth_error (rq_script r) (length (ob_script (snd (step (reach c hs1) (HReq r)))) - 1) = Some SDestroy ->
  exists k rc, ob_final (snd (step (reach c hs1) (HReq r))) = Some (k, rc) /\
    In CkDelete (ob_cookies (snd (step (reach c hs1) (HReq r)))) /\
    (rq_present r = PJar -> ob_jar (snd (step (reach c hs1) (HReq r))) = CNone) /\
    absent (w_st (after (fst (step (reach c hs1) (HReq r))) hs2)) k /\
    Forall (dead_obs k) (run_from (fst (step (reach c hs1) (HReq r))) hs2).
Proof.
  intros H1 Hpl Hcr H2 Hne Hn. destruct (reach_winv c hs1 H1) as [b W].
  destruct (step_destroy b _ r W Hpl Hcr Hne Hn) as (k & rc & A1 & A2 & [A3 A4] & A5 & A6).
  destruct (step_winv b ND _ (HReq r) W Hpl) as (b' & W' & _).
  destruct (stays_dead b' _ k hs2 W' A2 A3 A4 H2) as (B1 & B2 & B3).
  exists k, rc. split; [exact A1|]. split; [exact A5|]. split; [exact A6|]. split; [split; assumption | exact B3].
Qed.

Theorem invalidated_never_returns c hs1 r hs2 k r0 :
  Forall ff_hop hs1 -> rq_plan r = [] -> rq_crash r = None -> Forall ff_hop hs2 ->
  presented (reach c hs1) r = CKey k -> L (w_st (reach c hs1)) k = Some r0 ->
  rec_valid (conf (w_st (reach c hs1))) (now (w_st (reach c hs1)))
            (mkReq (presented (reach c hs1) r) (rq_create r) (rq_addr r) (rq_ua r)) r0 = false ->
  (exists rest, ob_cookies (snd (step (reach c hs1) (HReq r))) = CkDelete :: rest /\ ~ In (CkLive k) rest) /\
  (forall rc, ob_start (snd (step (reach c hs1) (HReq r))) <> Some (k, rc)) /\
  (rq_present r = PJar -> ob_jar (snd (step (reach c hs1) (HReq r))) <> CKey k) /\
  absent (w_st (after (fst (step (reach c hs1) (HReq r))) hs2)) k /\
  Forall (dead_obs k) (run_from (fst (step (reach c hs1) (HReq r))) hs2).
Proof.
  intros H1 Hpl Hcr H2 Hpr HL Hv. destruct (reach_winv c hs1 H1) as [b W].
  destruct (step_invalid_dead b _ r k r0 W Hpl Hcr Hpr HL Hv) as (A1 & [A2 A3] & A4 & A5 & _ & A6).
  destruct (step_winv b ND _ (HReq r) W Hpl) as (b' & W' & _).
  destruct (stays_dead b' _ k hs2 W' A1 A2 A3 H2) as (B1 & B2 & B3).
  split; [exact A4|]. split; [exact A5|]. split; [exact A6|]. split; [split; assumption | exact B3].
Qed.

(* non-vacuity: the premises of both theorems are met by concrete histories *)
Definition req_destroy : reqstep := mkReqStep 1 PJar false (AOther 0) 7 [SSet 3 4; SDestroy; SSet 5 6] [] [] None.
Definition hist_one : list hop := [HReq (mkReqStep 1 PJar true (AOther 0) 7 [SSet 1 2] [] [] None)].

Example destroyed_nonvacuous :
  ob_script (snd (step (reach cfg_ex hist_one) (HReq req_destroy))) = [SOk; SOk] /\
  nth_error (rq_script req_destroy) (length (ob_script (snd (step (reach cfg_ex hist_one) (HReq req_destroy)))) - 1)
    = Some SDestroy.
Proof. vm_compute. split; reflexivity. Qed.

Definition req_late : reqstep := mkReqStep 1 PJar true (AOther 0) 7 [] [] [] None.

Example invalidated_nonvacuous :
  let w := reach cfg_ex (hist_one ++ [HWait 1000]) in
  presented w req_late = CKey (KGen 0) /\
  match L (w_st w) (KGen 0) with
  | Some r0 => negb (rec_valid (conf (w_st w)) (now (w_st w)) (mkReq (presented w req_late) true (AOther 0) 7) r0)
  | None => false
  end = true.
Proof. vm_compute. split; reflexivity. Qed.
