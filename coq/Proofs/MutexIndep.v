(* C14, part 2: an Unlock of a key that is not held has no effect; a release
   with waiters hands the lock over; a Lock on a free key completes without
   any step of holders or lockers of other keys. *)
From Sessions Require Import Model.Base Model.Mutex Proofs.MutexBasics Proofs.MutexSafety Proofs.MutexProgress.
From Coq Require Import Lia.

(* ---- spurious Unlock ---- *)

Theorem spurious_no_effect st g k r ov :
  mgr st = MIdle -> nth_error (gs st) g = Some (mkG (GSpur k) r) -> lk st k = 0 ->
  exists st1 st2,
    step st (LRelease g) = Some st1 /\ step st1 (LMgrGet ov) = Some st2 /\
    mgr st2 = MIdle /\ gs st2 = upd g (mkG GIdle r) (gs st) /\
    (forall k', lk st2 k' = lk st k') /\
    (forall k', k' <> k -> tget (tbl st2) k' = tget (tbl st) k') /\
    (forall e, tget (tbl st) k = Some e -> tget (tbl st2) k = Some e) /\
    (tget (tbl st) k = None -> tget (tbl st2) k = Some (mkE 0 (nextc st))).
Proof.
  intros Hm Hg Hz.
  set (st1 := set_mgr (set_g st g (mkG GIdle r)) (MRel k)).
  exists st1. cbn [step]. rewrite Hm, Hg.
  assert (Hm1 : mgr st1 = MRel k) by reflexivity. rewrite Hm1.
  destruct (get_item k ov st1) as [st1' e] eqn:Hgi.
  destruct (get_item_spec _ _ _ _ _ Hgi) as (G1 & G2 & _ & _ & G5 & G6 & G7 & G8).
  assert (He : locks e = 0).
  { destruct G8 as [[H1 _]|[_ [-> _]]]; [|reflexivity].
    unfold lk, lkt in Hz. change (tbl st1) with (tbl st) in H1. rewrite H1 in Hz. exact Hz. }
  rewrite He. simpl Nat.ltb. cbv iota.
  exists (set_mgr st1' MIdle). split; [reflexivity|]. split; [reflexivity|].
  split; [reflexivity|]. split; [exact G1|]. split; [exact G7|]. split; [exact G6|]. split.
  - intros e0 H0. destruct G8 as [[H1 _]|[H1 _]]; change (tbl st1) with (tbl st) in H1; [|congruence].
    ssimp. rewrite G5. congruence.
  - intro H0. destruct G8 as [[H1 _]|[H1 [H2 _]]]; change (tbl st1) with (tbl st) in H1; [congruence|].
    ssimp. rewrite G5. rewrite H2. reflexivity.
Qed.

(* ---- a release with waiters hands over ---- *)

Theorem release_hands_over st k ov st1 :
  Inv st -> mgr st = MRel k -> 0 < cA st k -> step st (LMgrGet ov) = Some st1 ->
  exists c, mgr st1 = MRelSend c k.
Proof.
  intros [I _] Hm Hpos Hs. specialize (I k). unfold invk in I. rewrite Hm, Nat.eqb_refl in I.
  cbn [step] in Hs. rewrite Hm in Hs.
  destruct (get_item k ov st) as [st1' e] eqn:Hgi.
  destruct (get_item_spec _ _ _ _ _ Hgi) as (_ & _ & _ & _ & G5 & _ & G7 & _).
  assert (Hlk : lk st k = locks e) by (rewrite <- G7; unfold lk, lkt; rewrite G5; reflexivity).
  assert (2 <= locks e) by lia.
  destruct (Nat.ltb 0 (locks e)) eqn:E0; [|apply Nat.ltb_ge in E0; lia].
  destruct (Nat.ltb 0 (pred (locks e))) eqn:E1; [|apply Nat.ltb_ge in E1; lia].
  injection Hs as <-. eexists; reflexivity.
Qed.

(* ---- independence of keys ---- *)

(* the labels a schedule may use to complete g's Lock: g's own steps, the
   manager's, and the completion (getItem, receive) of a request the manager
   has already accepted; never the start, the acquire, the leaving or the
   release of another goroutine *)
Definition indep (g : nat) (l : label) : Prop :=
  match l with
  | LStart g' | LAcquire g' | LLeave g' | LRelease g' => g' = g
  | _ => True
  end.

Lemma get_step st g' k0 r' e ov :
  nth_error (gs st) g' = Some (mkG (GGetItem k0) r') -> tget (tbl st) k0 = Some e ->
  step st (LGet g' ov) = Some (set_g st g' (mkG (GWait (ch e) k0) r')).
Proof. intros Hg Ht. cbn [step]. rewrite Hg. unfold get_item. rewrite Ht. reflexivity. Qed.

Lemma set_g_frame st g g' x y k :
  nth_error (gs st) g' = Some x -> g' <> g ->
  inA k x = false -> inA k y = false -> inH k x = false -> inH k y = false ->
  nth_error (gs (set_g st g' y)) g = nth_error (gs st) g /\
  cA (set_g st g' y) k = cA st k /\ cH (set_g st g' y) k = cH st k.
Proof.
  intros Hx Hne A1 A2 H1 H2. split; [|split].
  - ssimp. rewrite (nth_error_upd _ _ _ _ _ Hx). rewrite (eqb_neq_false _ _ Hne). reflexivity.
  - pose proof (cA_set_g st g' x y k Hx) as E. rewrite A1, A2 in E. simpl in E. lia.
  - pose proof (cH_set_g st g' x y k Hx) as E. rewrite H1, H2 in E. simpl in E. lia.
Qed.

Lemma grant_step st g g' c k0 k r' :
  (mgr st = MAcqSend c k0 \/ mgr st = MRelSend c k0) ->
  nth_error (gs st) g' = Some (mkG (GWait c k0) r') -> k0 <> k -> g' <> g ->
  exists st', step st (LGrant g') = Some st' /\ mgr st' = MIdle /\
    nth_error (gs st') g = nth_error (gs st) g /\ cA st' k = cA st k /\ cH st' k = cH st k.
Proof.
  intros Hm Hg Hk Hne.
  assert (F : inA k (mkG (GWait c k0) r') = false /\ inH k (mkG (GHold k0) r') = false).
  { unfold inA, inH; simpl. rewrite (eqb_neq_false _ _ Hk). auto. }
  destruct F as [F1 F2].
  destruct (set_g_frame st g g' _ (mkG (GHold k0) r') k Hg Hne F1 eq_refl eq_refl F2) as (S1 & S2 & S3).
  cbn [step]. destruct Hm as [Hm|Hm]; rewrite Hm, Hg, Nat.eqb_refl; eexists; (split; [reflexivity|]);
    (split; [reflexivity|]); cnorm; cbn [gs set_mgr]; rewrite ?gs_bump, ?cA_bump, ?cH_bump; auto.
Qed.

Lemma drain_send st g k r c k0 :
  Inv st -> (mgr st = MAcqSend c k0 \/ mgr st = MRelSend c k0) ->
  nth_error (gs st) g = Some (mkG (GSendAcq k) r) -> cA st k = 0 -> cH st k = 0 ->
  exists ls st', aruns st ls st' /\ Forall (indep g) ls /\ mgr st' = MIdle /\
    nth_error (gs st') g = Some (mkG (GSendAcq k) r) /\ cA st' k = 0 /\ cH st' k = 0.
Proof.
  intros HI Hm Hg HA HH. pose proof HI as [I [W _]].
  assert (Hk0 : 1 <= cA st k0 /\ exists n, tget (tbl st) k0 = Some (mkE n c)).
  { specialize (I k0). unfold invk in I. destruct Hm as [Hm|Hm]; rewrite Hm, Nat.eqb_refl in I.
    - destruct I as (I1 & _ & I3). split; [lia|eauto].
    - destruct I as (I1 & _ & I3). split; [lia|eauto]. }
  destruct Hk0 as [Hpos [n Ht]].
  assert (Hk : k0 <> k) by (intro; subst; lia).
  destruct (cnt_pos_ex (inA k0) (gs st)) as [g' [x [Hg' Hx]]]; [unfold cA in Hpos; lia|].
  assert (Hne : g' <> g).
  { intro; subst g'. rewrite Hg in Hg'. injection Hg' as <-. discriminate Hx. }
  destruct (inA_cases _ _ Hx) as [r' [->|[c' ->]]].
  - (* the taker has still to call getItem *)
    pose proof (get_step st g' k0 r' _ false Hg' Ht) as S1. simpl ch in S1.
    set (st1 := set_g st g' (mkG (GWait c k0) r')) in *.
    assert (F : inA k (mkG (GGetItem k0) r') = false /\ inA k (mkG (GWait c k0) r') = false).
    { unfold inA; simpl. rewrite (eqb_neq_false _ _ Hk). auto. }
    destruct F as [F1 F2].
    destruct (set_g_frame st g g' _ (mkG (GWait c k0) r') k Hg' Hne F1 F2 eq_refl eq_refl) as (E1 & E2 & E3).
    fold st1 in E1, E2, E3.
    assert (Hg1 : nth_error (gs st1) g' = Some (mkG (GWait c k0) r')).
    { unfold st1. ssimp. rewrite (nth_error_upd _ _ _ _ _ Hg'), Nat.eqb_refl. reflexivity. }
    destruct (grant_step st1 g g' c k0 k r' Hm Hg1 Hk Hne) as [st2 (S2 & M2 & N2 & A2 & H2)].
    exists [LGet g' false; LGrant g'], st2. split.
    { econstructor; [exact S1|exact Logic.I|]. econstructor; [exact S2|exact Logic.I|constructor]. }
    split; [repeat constructor|]. split; [exact M2|].
    split; [rewrite N2, E1; exact Hg|]. split; lia.
  - (* the taker is blocked on the channel *)
    destruct (W _ _ _ _ Hg') as [e [H1 H2]]. rewrite Ht in H1. injection H1 as <-. simpl in H2. subst c'.
    destruct (grant_step st g g' c k0 k r' Hm Hg' Hk Hne) as [st2 (S2 & M2 & N2 & A2 & H2)].
    exists [LGrant g'], st2. split.
    { econstructor; [exact S2|exact Logic.I|constructor]. }
    split; [repeat constructor|]. split; [exact M2|].
    split; [rewrite N2; exact Hg|]. split; lia.
Qed.

Lemma mgr_get_shape st ov st1 :
  step st (LMgrGet ov) = Some st1 ->
  gs st1 = gs st /\
  (mgr st1 = MIdle \/ exists c k0, mgr st1 = MAcqSend c k0 \/ mgr st1 = MRelSend c k0).
Proof.
  cbn [step]. destruct (mgr st); try discriminate;
    destruct (get_item k ov st) as [st1' e] eqn:Hgi;
    destruct (get_item_measure _ _ _ _ _ Hgi) as (G & _).
  - destruct (Nat.eqb (locks e) 0); intro H; injection H as <-; cbn [gs mgr set_mgr]; rewrite ?gs_bump; eauto 6.
  - destruct (Nat.ltb 0 (locks e)); [destruct (Nat.ltb 0 (pred (locks e)))|]; intro H; injection H as <-;
      cbn [gs mgr set_mgr]; rewrite ?gs_bump; eauto 6.
Qed.

Lemma drain st g k r :
  Inv st -> nth_error (gs st) g = Some (mkG (GSendAcq k) r) -> cA st k = 0 -> cH st k = 0 ->
  exists ls st', aruns st ls st' /\ Forall (indep g) ls /\ mgr st' = MIdle /\ Inv st' /\
    nth_error (gs st') g = Some (mkG (GSendAcq k) r) /\ cA st' k = 0 /\ cH st' k = 0.
Proof.
  intros HI Hg HA HH.
  assert (Send : forall st1, Inv st1 -> gs st1 = gs st ->
            (mgr st1 = MIdle \/ exists c k0, mgr st1 = MAcqSend c k0 \/ mgr st1 = MRelSend c k0) ->
            exists ls st', aruns st1 ls st' /\ Forall (indep g) ls /\ mgr st' = MIdle /\ Inv st' /\
              nth_error (gs st') g = Some (mkG (GSendAcq k) r) /\ cA st' k = 0 /\ cH st' k = 0).
  { intros st1 HI1 G [Hm|[c [k0 Hm]]].
    - exists [], st1. unfold cA, cH. rewrite G.
      split; [constructor|]. split; [constructor|]. split; [exact Hm|]. split; [exact HI1|].
      split; [exact Hg|]. split; [exact HA|exact HH].
    - destruct (drain_send st1 g k r c k0 HI1 Hm ltac:(rewrite G; exact Hg)
                  ltac:(unfold cA; rewrite G; exact HA) ltac:(unfold cH; rewrite G; exact HH))
        as [ls [st' (R & F & M & N & A' & H')]].
      exists ls, st'. split; [exact R|]. split; [exact F|]. split; [exact M|].
      split; [eapply aruns_inv; eauto|]. split; [exact N|]. split; assumption. }
  destruct (mgr st) eqn:Hm.
  - apply (Send st HI eq_refl). left; assumption.
  - destruct (mgr_get_enabled st false) as [st1 S1]; [eauto|].
    destruct (mgr_get_shape _ _ _ S1) as [G Sh].
    destruct (Send st1 (inv_step _ _ _ S1 Logic.I HI) G Sh) as [ls [st' (R & F & Rest)]].
    exists (LMgrGet false :: ls), st'. split; [econstructor; eauto; exact Logic.I|].
    split; [constructor; [exact Logic.I|assumption]|assumption].
  - apply (Send st HI eq_refl). right; eauto.
  - destruct (mgr_get_enabled st false) as [st1 S1]; [eauto|].
    destruct (mgr_get_shape _ _ _ S1) as [G Sh].
    destruct (Send st1 (inv_step _ _ _ S1 Logic.I HI) G Sh) as [ls [st' (R & F & Rest)]].
    exists (LMgrGet false :: ls), st'. split; [econstructor; eauto; exact Logic.I|].
    split; [constructor; [exact Logic.I|assumption]|assumption].
  - apply (Send st HI eq_refl). right; eauto.
  - assert (S1 : step st (LPurge []) = Some (mkS (gs st) (tbl st) MIdle (pend st) (nextc st))).
    { cbn [step]. rewrite Hm. reflexivity. }
    assert (A1 : adm st (LPurge [])) by (cbn [adm]; intros ? ? ? []).
    destruct (Send _ (inv_step _ _ _ S1 A1 HI) eq_refl (or_introl eq_refl)) as [ls [st' (R & F & Rest)]].
    exists (LPurge [] :: ls), st'. split; [econstructor; eauto|].
    split; [constructor; [exact Logic.I|assumption]|assumption].
Qed.

Lemma lock_free_key st g k r :
  mgr st = MIdle -> nth_error (gs st) g = Some (mkG (GSendAcq k) r) -> lk st k = 0 ->
  exists st', aruns st [LAcquire g; LMgrGet false; LGet g false; LGrant g] st' /\
    nth_error (gs st') g = Some (mkG (GHold k) r).
Proof.
  intros Hm Hg Hz.
  set (st1 := set_mgr (set_g st g (mkG (GGetItem k) r)) (MAcq k)).
  assert (S1 : step st (LAcquire g) = Some st1) by (cbn [step]; rewrite Hm, Hg; reflexivity).
  assert (Hg1 : nth_error (gs st1) g = Some (mkG (GGetItem k) r)).
  { unfold st1. ssimp. rewrite (nth_error_upd _ _ _ _ _ Hg), Nat.eqb_refl. reflexivity. }
  destruct (get_item k false st1) as [st1' e] eqn:Hgi.
  destruct (get_item_spec _ _ _ _ _ Hgi) as (G1 & G2 & _ & _ & G5 & _ & _ & G8).
  assert (He : locks e = 0).
  { destruct G8 as [[H1 _]|[_ [-> _]]]; [|reflexivity].
    unfold lk, lkt in Hz. change (tbl st1) with (tbl st) in H1. rewrite H1 in Hz. exact Hz. }
  set (st2 := set_mgr st1' (MAcqSend (ch e) k)).
  assert (S2 : step st1 (LMgrGet false) = Some st2).
  { cbn [step]. change (mgr st1) with (MAcq k). cbv iota. rewrite Hgi, He. reflexivity. }
  assert (Hg2 : nth_error (gs st2) g = Some (mkG (GGetItem k) r)) by (unfold st2; ssimp; rewrite G1; exact Hg1).
  assert (Ht2 : tget (tbl st2) k = Some e) by exact G5.
  pose proof (get_step st2 g k r e false Hg2 Ht2) as S3.
  set (st3 := set_g st2 g (mkG (GWait (ch e) k) r)) in *.
  assert (Hg3 : nth_error (gs st3) g = Some (mkG (GWait (ch e) k) r)).
  { unfold st3. ssimp. rewrite (nth_error_upd _ _ _ _ _ Hg2), Nat.eqb_refl. reflexivity. }
  set (st4 := set_mgr (bump S k (ch e) (set_g st3 g (mkG (GHold k) r))) MIdle).
  assert (S4 : step st3 (LGrant g) = Some st4).
  { cbn [step]. change (mgr st3) with (MAcqSend (ch e) k). cbv iota. rewrite Hg3, Nat.eqb_refl. reflexivity. }
  exists st4. split.
  - econstructor; [exact S1|exact Logic.I|]. econstructor; [exact S2|exact Logic.I|].
    econstructor; [exact S3|exact Logic.I|]. econstructor; [exact S4|exact Logic.I|constructor].
  - unfold st4. cbn [gs set_mgr]. rewrite gs_bump. ssimp.
    rewrite (nth_error_upd _ _ _ _ _ Hg3), Nat.eqb_refl. reflexivity.
Qed.

(* From any state satisfying the invariant in which nobody holds or has
   requested k, a goroutine blocked in `m.acquire <- k` reaches Hold k by a
   schedule that uses no step of a holder or locker of another key. *)
Theorem independent st g k r :
  Inv st -> nth_error (gs st) g = Some (mkG (GSendAcq k) r) -> cA st k = 0 -> cH st k = 0 ->
  exists ls st', aruns st ls st' /\ Forall (indep g) ls /\
    nth_error (gs st') g = Some (mkG (GHold k) r).
Proof.
  intros HI Hg HA HH.
  destruct (drain st g k r HI Hg HA HH) as [ls1 [st1 (R1 & F1 & M1 & I1 & G1 & A1 & H1)]].
  assert (Hz : lk st1 k = 0).
  { destruct I1 as [I1 _]. specialize (I1 k). unfold invk in I1. rewrite M1 in I1.
    destruct I1 as [B _]. lia. }
  destruct (lock_free_key st1 g k r M1 G1 Hz) as [st2 [R2 G2]].
  exists (ls1 ++ [LAcquire g; LMgrGet false; LGet g false; LGrant g]), st2.
  split; [eapply aruns_app; eauto|]. split; [|exact G2].
  apply Forall_app. split; [exact F1|]. repeat constructor.
Qed.
