(* C01, liveness half, the peer/agent frame, part 2: the session API.
   RegenerateID, creation, direct saves, the user-wide loops, LogOut, LogIn: the
   recorded peer and agent of every other ID stay; the handler's session keeps
   those of its object (also under the new ID, and in the replaced-ID record). *)
From Sessions Require Import Model.Base Model.Sess Model.Hist Model.Corr Proofs.SessDefs
  Proofs.WriteThrough Proofs.WriteThrough2 Proofs.WriteThrough3 Proofs.WriteThrough4
  Proofs.RotateLaws Proofs.RotateLaws2 Proofs.RotateLaws3 Proofs.RotateLaws5 Proofs.RotateLaws6
  Proofs.C01Spec Proofs.C01Hist Proofs.C01Hist2 Proofs.C01Hist3 Proofs.C01Peer.
From Coq Require Import Lia.

Lemma pcont_rot_rec r t : pcont (rot_rec r t) = pcont r.
Proof. destruct r; reflexivity. Qed.

Lemma pcont_ref_rec r t j : pcont (ref_rec r t j) = pcont r.
Proof. reflexivity. Qed.

(* ------------------------------------------------------ RegenerateID *)

Lemma regenerate_pv s o ob :
  Inv noex s -> hget s o = Some ob ->
  let s' := fst (fst (regenerate s o)) in
  (forall k, k <> o_id ob -> k <> KGen (supply s) -> pv s' k = pv s k) /\
  pv s' (KGen (supply s)) = Some (pcont (o_rec ob)) /\
  pv s' (o_id ob) = Some (pcont (o_rec ob)).
Proof.
  intros HI Hg. cbv zeta.
  destruct (RotateLaws2.regenerate_ff s o ob (inv_plan _ _ HI) (inv_nodup _ _ HI) (Inv_cache_heap s HI) Hg
              (Inv_next_uncached s HI) (Inv_obj_not_next s o ob HI Hg)) as (s' & Hs & HP).
  rewrite Hs. cbn [fst]. pose (j := KGen (supply s)).
  destruct HP as [Ph Pg Ppe Pn Pu Pc Ppl Pev Pndc Pnds Psn Pso Pcn Pco Psub Pk].
  assert (Hlt : o < length (heap s)) by (eapply hget_Some_lt; eauto).
  assert (Hgo : hget s' o = Some (mkObj j (rot_rec (o_rec ob) (now s)))).
  { unfold hget. rewrite Ph. rewrite nth_error_app1 by (rewrite replace_nth_length; exact Hlt).
    apply nth_replace_nth_same. exact Hlt. }
  assert (Hgr : hget s' (length (heap s)) = Some (mkObj (o_id ob) (ref_rec (o_rec ob) (now s) j))).
  { unfold hget. rewrite Ph. rewrite nth_error_app2 by (rewrite replace_nth_length; lia).
    rewrite replace_nth_length, Nat.sub_diag. reflexivity. }
  assert (Hsim : psim s s').
  { intros o' obx Hgx. destruct (Nat.eq_dec o o') as [<-|Hne].
    - assert (obx = ob) by congruence. subst obx. eexists. split; [exact Hgo|]. cbn. apply pcont_rot_rec.
    - exists obx. split; [|reflexivity]. unfold hget. rewrite Ph.
      rewrite nth_error_app1 by (rewrite replace_nth_length; eapply hget_Some_lt; eauto).
      rewrite nth_replace_nth_other by exact Hne. exact Hgx. }
  split; [|split].
  - intros k H1 H2. apply pv_kf; [exact Hsim | | apply Pk; assumption].
    intros x Hx. apply (cache_heap_lookup s k x (Inv_cache_heap s HI) Hx).
  - destruct Pcn as [Hc|Hc].
    + rewrite (pv_cached s' _ _ _ Hc Hgo). cbn. rewrite pcont_rot_rec. reflexivity.
    + rewrite (pv_uncached s' _ Hc), Psn. cbn [option_map]. rewrite pcont_codec, pcont_rot_rec. reflexivity.
  - destruct Pco as [Hc|Hc].
    + rewrite (pv_cached s' _ _ _ Hc Hgr). reflexivity.
    + rewrite (pv_uncached s' _ Hc), Pso. cbn [option_map]. rewrite pcont_codec. reflexivity.
Qed.

(* ------------------------------------------------------------ creation *)

Lemma create_pv s q :
  Inv noex s ->
  let s' := fst (fst (create_session s q)) in
  (forall k, k <> KGen (supply s) -> pv s' k = pv s k) /\
  pv s' (KGen (supply s)) = Some (q_addr q, q_ua q).
Proof.
  intro HI. cbv zeta. unfold create_session.
  destruct (gen_id_Inv noex s HI) as (HI1 & Hnid).
  set (nid := KGen (supply s)) in *. set (s1 := fst (gen_id s)) in *.
  change (gen_id s) with (s1, nid). cbv beta iota.
  set (v := mkObj nid (mkRec (now s1) (now s1) (q_addr q) (q_ua q) None None (Some []))).
  set (s2 := fst (halloc s1 v)). set (o2 := snd (halloc s1 v)).
  change (halloc s1 v) with (s2, o2). cbv beta iota.
  assert (HI2 : Inv noex s2) by (apply halloc_Inv; auto).
  assert (Hg2 : hget s2 o2 = Some v) by apply hget_halloc_new.
  destruct (cache_set_pv s2 o2 v (inv_plan _ _ HI2) (inv_nodup _ _ HI2) (Inv_cache_heap s2 HI2) Hg2)
    as (Hok & Hvk & Hvo & _).
  destruct (cache_set s2 o2) as [s3 ok]. cbn [fst snd] in *. subst ok. cbn [negb fst].
  split; [|exact Hvo].
  intros k Hne. rewrite (Hvk k Hne). unfold s2. rewrite halloc_pv by (apply Inv_cache_heap; exact HI1).
  apply gen_id_pv.
Qed.

(* ------------------------------------------- change and save directly *)

Lemma modify_save_pv s o ob f :
  Inv noex s -> Held s o -> hget s o = Some ob -> pcont (f (o_rec ob)) = pcont (o_rec ob) ->
  let s' := fst (save_direct (hupd s o f) o) in
  (forall k, k <> o_id ob -> pv s' k = pv s k) /\ pv s' (o_id ob) = Some (pcont (o_rec ob)).
Proof.
  intros HI HH Hg Hpc. cbv zeta. destruct (Held_Unsh _ _ HH) as (ob0 & Hg0 & Hu).
  assert (ob0 = ob) by congruence. subst ob0.
  unfold save_direct. rewrite (hget_hupd_same s o ob f Hg). cbn [o_id o_rec].
  set (s1 := hupd s o f).
  assert (Hc1 : cache s1 = cache s) by (unfold s1, hupd; rewrite Hg; reflexivity).
  assert (Hp1 : plan s1 = []) by (unfold s1, hupd; rewrite Hg; apply (inv_plan _ _ HI)).
  destruct (save_pv s1 o (mkObj (o_id ob) (f (o_rec ob))) Hp1 (hget_hupd_same s o ob f Hg))
    as (Hvk & Hvo & _).
  { cbn [o_id]. rewrite Hc1. exact Hu. }
  cbn [o_id o_rec] in *.
  destruct (p_save s1 (o_id ob) (f (o_rec ob))) as [s2 ok]. cbn [fst] in *.
  cbv beta iota. cbn [fst].
  split; [|rewrite Hvo, Hpc; reflexivity].
  intros k Hne. rewrite (Hvk k Hne). apply hupd_pv_other. intro Hck.
  apply Hne. symmetry. apply (Inv_cached_id s k o ob HI Hck Hg).
Qed.

(* ------------------------------------------------- the user-wide loops *)

(* the object cache.Get returns carries what the ID resolved to *)
Lemma cache_get_obj s k s1 o :
  plan s = [] -> NoDup (map fst (cache s)) -> cache_heap s ->
  cache_get s k = (s1, Some (Some o)) -> exists ob, hget s1 o = Some ob /\ L s k = Some (o_rec ob).
Proof.
  intros Hp Hnd Hch Hcg. destruct (lookup (cache s) k) as [o0|] eqn:Ec.
  - rewrite (cache_get_hit s k o0 Ec) in Hcg. injection Hcg as <- <-.
    destruct (cache_heap_lookup s k o0 Hch Ec) as (ob & Hg). exists ob. split; [exact Hg|].
    unfold L. rewrite Ec, Hg. reflexivity.
  - destruct (lookup (store s) k) as [r|] eqn:Es.
    + destruct (cache_get_load s k r Hp Hnd Ec Es) as (Hr & HP). rewrite Hcg in Hr, HP. cbn [fst snd] in *.
      injection Hr as ->. exists (mkObj k r). split.
      * unfold hget. rewrite (cg_heap _ _ _ _ HP). rewrite nth_error_app2 by lia. rewrite Nat.sub_diag. reflexivity.
      * unfold L. rewrite Ec. exact Es.
    + rewrite (cache_get_absent s k Hp Ec Es) in Hcg. discriminate Hcg.
Qed.

Lemma eus_pv ids : forall s u, Inv noex s -> GR s ->
  forall k, pv (fst (each_user_session s ids u)) k = pv s k.
Proof.
  induction ids as [|k0 t IH]; intros s u HI HG k; cbn [each_user_session]; [reflexivity|].
  destruct (cache_get_view s k0 (inv_plan _ _ HI) (inv_nodup _ _ HI) (Inv_cache_heap s HI))
    as (Gv & Gpe & Gg & Gu & Gc & Gn & Gnd).
  destruct (cache_get_pv s k0 (inv_plan _ _ HI) (inv_nodup _ _ HI) (Inv_cache_heap s HI)) as (Pv & _).
  destruct (cache_get s k0) as [s1 r1] eqn:Hcg. cbn [fst] in *.
  destruct (cache_get_spec s k0 s1 r1 HI Hcg) as (HI1 & He1 & ro & -> & Hro).
  assert (HG1 : GR s1).
  { apply (GR_pres s s1 (fun _ => False) HG).
    - exact Gg.
    - intros d k'. rewrite Gpe. auto.
    - rewrite Gu. lia.
    - intros k' _. apply Gv.
    - intros k' x [].
    - apply Gnd. apply HG. }
  destruct ro as [o|].
  - destruct (Hro o eq_refl) as (HH1 & ob & Hg1 & Hid).
    destruct (cache_get_obj s k0 s1 o (inv_plan _ _ HI) (inv_nodup _ _ HI) (Inv_cache_heap s HI) Hcg)
      as (ob' & Hg1' & HL0). assert (ob' = ob) by congruence. subst ob'.
    pose proof (hupd_Inv noex s1 o ob (fun r => set_user r u) HI1 Hg1) as HI2.
    pose proof (hget_hupd_same s1 o ob (fun r => set_user r u) Hg1) as Hg2.
    set (s2 := hupd s1 o (fun r => set_user r u)) in *.
    destruct (cache_set_spec _ _ o _ HI2 Hg2) as (s3 & Hs3 & HI3 & _).
    destruct (cache_set_view s2 o _ (inv_plan _ _ HI2) (inv_nodup _ _ HI2) (InvE_cache_heap _ s2 HI2) Hg2)
      as (_ & Hvk & Hvo & Fpe & Fg & Fu & Fc & Fn & Fnd).
    destruct (cache_set_pv s2 o _ (inv_plan _ _ HI2) (inv_nodup _ _ HI2) (InvE_cache_heap _ s2 HI2) Hg2)
      as (_ & Pvk & Pvo & _).
    rewrite Hs3 in *. cbn [fst o_id o_rec] in *.
    assert (HI3' : Inv noex s3).
    { eapply Inv_weaken; [|exact HI3]. cbn [o_id]. intros k' [[[]|H1] H2]. contradiction. }
    assert (Hf2 : pending s2 = pending s1 /\ graves s2 = graves s1 /\ supply s2 = supply s1 /\ store s2 = store s1).
    { unfold s2. rewrite (hupd_eq _ _ _ _ Hg1). repeat split; reflexivity. }
    destruct Hf2 as (F1 & F2 & F3 & F6).
    assert (Hv3 : forall k', k' <> k0 -> view s3 k' = view s1 k').
    { intros k' Hne. rewrite Hid in Hvk. rewrite (Hvk k' Hne). unfold s2.
      apply hupd_view_other. intro Hck. apply Hne. rewrite <- Hid. symmetry.
      apply (Inv_cached_id s1 k' o ob HI1 Hck Hg1). }
    assert (HG3 : GR s3).
    { apply (GR_pres s1 s3 (fun k' => k' = k0) HG1).
      - congruence.
      - intros d k'. rewrite Fpe, F1. auto.
      - rewrite Fu, F3. lia.
      - exact Hv3.
      - intros k' x ->. apply GR_alive; [exact HG1|]. rewrite <- Hid, (Held_view s1 o ob HH1 Hg1). discriminate.
      - apply Fnd. rewrite F6. apply HG1. }
    rewrite (IH s3 u HI3' HG3 k).
    destruct (key_eq_dec k k0) as [->|Hne].
    + rewrite Hid in Pvo. rewrite Pvo. cbn [o_rec]. rewrite pcont_set_user.
      unfold pv. rewrite HL0. reflexivity.
    + rewrite Hid in Pvk. rewrite (Pvk k Hne). unfold s2. rewrite hupd_pv_other; [apply Pv|].
      intro Hck. apply Hne. rewrite <- Hid. symmetry. apply (Inv_cached_id s1 k o ob HI1 Hck Hg1).
  - rewrite (IH s1 u HI1 HG1 k). apply Pv.
Qed.

Lemma logout_user_pv s u : Inv noex s -> GR s -> forall k, pv (fst (logout_user s u)) k = pv s k.
Proof.
  intros HI HG k. unfold logout_user. rewrite (p_usersessions_listed s u (inv_plan _ _ HI)).
  set (s1 := log s (EvUserSessions u true)).
  assert (Hcore : WriteThrough.core s = WriteThrough.core s1) by reflexivity.
  rewrite (eus_pv _ s1 None (Inv_core noex s s1 Hcore HI) (GR_core s s1 Hcore eq_refl eq_refl HG) k).
  apply pv_core. exact Hcore.
Qed.

Lemma refresh_user_pv s u : Inv noex s -> GR s -> forall k, pv (fst (refresh_user s u)) k = pv s k.
Proof.
  intros HI HG k. unfold refresh_user. rewrite (p_usersessions_listed s (fst u) (inv_plan _ _ HI)).
  set (s1 := log s (EvUserSessions (fst u) true)).
  assert (Hcore : WriteThrough.core s = WriteThrough.core s1) by reflexivity.
  rewrite (eus_pv _ s1 (Some u) (Inv_core noex s s1 Hcore HI) (GR_core s s1 Hcore eq_refl eq_refl HG) k).
  apply pv_core. exact Hcore.
Qed.

(* ---------------------------------------------------------------- LogOut *)

Lemma logout_pv s o ob :
  Inv noex s -> Held s o -> hget s o = Some ob ->
  let s' := fst (logout s o) in
  (forall k, k <> o_id ob -> pv s' k = pv s k) /\
  (pv s' (o_id ob) = Some (pcont (o_rec ob)) \/ pv s' (o_id ob) = pv s (o_id ob)).
Proof.
  intros HI HH Hg. cbv zeta. unfold logout. rewrite Hg. destruct (r_user (o_rec ob)) as [x|].
  - destruct (modify_save_pv s o ob (fun r => set_user r None) HI HH Hg (pcont_set_user _ _)) as (A & B).
    split; [exact A | left; exact B].
  - cbn [fst]. split; [reflexivity | right; reflexivity].
Qed.

(* ----------------------------------------------------------------- LogIn *)

Lemma attach_regen_pv s o ob u :
  Inv noex s -> GR s -> hget s o = Some ob -> view s (o_id ob) <> None ->
  let s2 := hupd s o (fun r => set_user r (Some u)) in
  let s3 := fst (cache_set s2 o) in
  let s4 := fst (fst (regenerate s3 o)) in
  (forall k, k <> o_id ob -> k <> KGen (supply s) -> pv s4 k = pv s k) /\
  pv s4 (KGen (supply s)) = Some (pcont (o_rec ob)) /\
  pv s4 (o_id ob) = Some (pcont (o_rec ob)).
Proof.
  intros HI HG Hg Hal. cbv zeta.
  pose proof (hupd_Inv noex s o ob (fun r => set_user r (Some u)) HI Hg) as HI2.
  pose proof (hget_hupd_same s o ob (fun r => set_user r (Some u)) Hg) as Hg2.
  set (s2 := hupd s o (fun r => set_user r (Some u))) in *.
  destruct (cache_set_spec _ _ o _ HI2 Hg2) as (s3 & Hs3 & HI3 & HH3 & Hg3 & _ & _ & Fu3 & _).
  destruct (cache_set_pv s2 o _ (inv_plan _ _ HI2) (inv_nodup _ _ HI2) (InvE_cache_heap _ s2 HI2) Hg2)
    as (_ & Pvk & Pvo & _).
  rewrite Hs3 in *. cbn [fst o_id o_rec] in *.
  assert (HI3' : Inv noex s3).
  { eapply Inv_weaken; [|exact HI3]. cbn [o_id]. intros k' [[[]|H1] H2]. contradiction. }
  destruct (regenerate_pv s3 o _ HI3' Hg3) as (Rk & Rn & Ro). cbn [o_id o_rec] in *.
  assert (Eu : supply s3 = supply s).
  { rewrite Fu3. unfold s2. rewrite (hupd_eq _ _ _ _ Hg). reflexivity. }
  rewrite Eu in *.
  split; [|split].
  - intros k H1 H2. rewrite (Rk k H1 H2), (Pvk k H1). unfold s2. apply hupd_pv_other. intro Hck.
    apply H1. symmetry. apply (Inv_cached_id s k o ob HI Hck Hg).
  - rewrite Rn, pcont_set_access, pcont_set_user. reflexivity.
  - rewrite Ro, pcont_set_access, pcont_set_user. reflexivity.
Qed.

Lemma login_pv s o ob u ex :
  Inv noex s -> GR s -> Held s o -> hget s o = Some ob ->
  let s' := fst (fst (login s o u ex)) in
  (forall k, k <> o_id ob -> k <> KGen (supply s) -> pv s' k = pv s k) /\
  pv s' (KGen (supply s)) = Some (pcont (o_rec ob)).
Proof.
  intros HI HG HH Hg. cbv zeta. unfold login.
  assert (Hal : view s (o_id ob) <> None) by (rewrite (Held_view s o ob HH Hg); discriminate).
  destruct ex.
  - destruct (logout_user_eff s (fst u) HI HG) as (s1 & Hs1 & HI1 & HG1 & Hv1 & _ & _ & _ & Fu & _).
    pose proof (logout_user_pv s (fst u) HI HG) as Pv1. rewrite Hs1 in Pv1. cbn [fst] in Pv1.
    destruct (logout_user_calm s (fst u) (Inv_ready s HI)) as (s1' & Hs1' & HC).
    assert (s1' = s1) by congruence. subst s1'.
    destruct (ca_objs _ _ HC o ob Hg) as (ob1 & Hg1 & Hid1 & _ & Hip & Hua & _).
    rewrite Hs1.
    assert (Hal1 : view s1 (o_id ob1) <> None).
    { rewrite <- Hid1, Hv1. destruct (view s (o_id ob)); [discriminate | contradiction]. }
    destruct (attach_regen_eff s1 o ob1 u HI1 HG1 Hg1 Hal1) as (s3 & s4 & Hs3 & Hs4 & _).
    destruct (attach_regen_pv s1 o ob1 u HI1 HG1 Hg1 Hal1) as (Ak & An & _).
    rewrite Hs3 in *. cbn [negb fst] in *. rewrite Hs4 in *. cbn [fst] in *.
    rewrite Fu, <- Hid1 in *.
    split.
    + intros k H1 H2. rewrite (Ak k H1 H2). apply Pv1.
    + rewrite An. unfold pcont. rewrite <- Hip, <- Hua. reflexivity.
  - destruct (logout_eff s o ob HI HG HH Hg)
      as (s1 & ob1 & Hs1 & HI1 & HG1 & HH1 & Hg1 & Hid1 & Hc1 & _ & _ & _ & Fu & _).
    destruct (logout_pv s o ob HI HH Hg) as (Lk & _). rewrite Hs1 in Lk. cbn [fst] in Lk.
    rewrite Hs1.
    assert (Hal1 : view s1 (o_id ob1) <> None) by (rewrite (Held_view s1 o ob1 HH1 Hg1); discriminate).
    destruct (attach_regen_eff s1 o ob1 u HI1 HG1 Hg1 Hal1) as (s3 & s4 & Hs3 & Hs4 & _).
    destruct (attach_regen_pv s1 o ob1 u HI1 HG1 Hg1 Hal1) as (Ak & An & _).
    rewrite Hs3 in *. cbn [negb fst] in *. rewrite Hs4 in *. cbn [fst] in *.
    rewrite Fu, Hid1 in *.
    assert (Hpc : pcont (o_rec ob1) = pcont (o_rec ob)).
    { revert Hg1. unfold logout in Hs1. rewrite Hg in Hs1. destruct (r_user (o_rec ob)).
      - destruct (modify_save s o ob (fun r => set_user r None) HI Hg) as (s1' & Hs1' & _ & _ & _ & _ & Hg1').
        { destruct (Held_Unsh _ _ HH) as (ob0 & Hg0 & Hu). assert (ob0 = ob) by congruence. subst ob0. exact Hu. }
        assert (s1' = s1) by congruence. subst s1'. rewrite Hg1'. intros [= <-]. apply pcont_set_user.
      - injection Hs1 as <-. rewrite Hg. intros [= <-]. reflexivity. }
    split.
    + intros k H1 H2. rewrite (Ak k H1 H2). apply Lk. exact H1.
    + rewrite An, Hpc. reflexivity.
Qed.
