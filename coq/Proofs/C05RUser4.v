(* C05: replaced-ID records along histories with user-wide calls. Part 4: the
   three invariants together - LI (C05H), R (Proofs/C05RUser.v: every
   replaced-ID record has created = lastAccess and no user) and GA
   (Proofs/C05RUser3.v: what the stale index lists is drawn and not stored) -
   are kept by every fault-free, crash-free step of every kind: requests by
   anybody with any script (exclusive LogIn included), waits, purges, cache loss,
   restarts, LogOut(userID), RefreshUser, reconfiguration. Hence the statement
   C05R left open, and C05's last clause without side condition. *)
From Sessions Require Import Model.Base Model.Sess Model.Hist Proofs.SessDefs Proofs.HistInv Proofs.HistInv2 Proofs.HistInv3
  Proofs.HistLift Proofs.HistLift2 Proofs.HistLift3 Proofs.HistLift4 Proofs.C05RUser Proofs.C05RUser2 Proofs.C05RUser3.
From Coq Require Import Lia.

Definition TT (base : N * list ev) (s : st) : Prop := G Q0 base s /\ R s /\ GA s.

Lemma hg_nrp s o : hg s o -> nrp s o.
Proof. intros (ob & Ho & Hr & _). exists ob. split; assumption. Qed.

Lemma noex_dec op : noex op \/ exists u, op = SLogIn u true.
Proof. destruct op as [k v|k|k|k|u ex| | |]; try (left; exact I). destruct ex; [right; exists u; reflexivity | left; exact I]. Qed.

Lemma TT_do_sop base s o hc op : TT base s -> hg s o ->
  exists s' r cks, do_sop s o hc op = (s', r, cks) /\ TT base s' /\ (op <> SDestroy -> hg s' o).
Proof.
  intros (Hg & HR & HA) Hh. pose proof Hg as (I & K & P & _).
  destruct (do_sop_G Q0 DEL0 Q0_qt Q0_repl Q0_del base s o hc op Hg Hh) as (s' & r & cks & E & G' & _ & Hh' & _).
  { intros; exact Logic.I. }
  exists s', r, cks. split; [exact E|]. split; [|exact Hh'].
  split; [exact G'|]. split.
  - destruct (noex_dec op) as [Hn|[u ->]].
    + exact (proj1 (R_do_sop _ _ _ _ _ _ _ E Hn HR (hg_nrp _ _ Hh))).
    + cbn [do_sop] in E. destruct (login s o u true) as [[s1 r1] c1] eqn:EL. injection E as <- _ _.
      eapply R_login_ex; [exact EL | exact I | exact K | exact HR | apply GA_GR; exact HA | apply hg_nrp; exact Hh].
  - pose proof (GA_do_sop base s o hc op I K Hh HA) as H. rewrite E in H. exact H.
Qed.

Lemma TT_fire_due base s : TT base s -> TT base (fire_due s) /\ forall o, hg s o -> hg (fire_due s) o.
Proof.
  intros (Hg & HR & HA). pose proof Hg as (I & _).
  destruct (fire_due_G Q0 FOK0 Q0_fire base s Hg Logic.I) as (G' & _ & Hh & _).
  split; [|exact Hh]. split; [exact G'|]. split; [apply R_fire_due; exact HR | eapply GA_fire_due; eassumption].
Qed.

Lemma TT_run_script base hc : forall ops s o, TT base s -> hg s o ->
  exists s' rs cks, run_script s o hc ops = (s', rs, cks) /\ TT base s'.
Proof.
  induction ops as [|op t IH]; intros s o HT Hh; cbn [run_script].
  - do 3 eexists. split; [reflexivity | exact HT].
  - destruct (TT_do_sop base s o hc op HT Hh) as (s1 & r & c1 & E & T1 & Hh1). rewrite E.
    destruct (TT_fire_due base s1 T1) as [T2 Hf]. cbv zeta.
    destruct (match op, r with SDestroy, _ => true | _, SPanic _ => true | _, _ => false end) eqn:Est.
    + do 3 eexists. split; [reflexivity | exact T2].
    + assert (Hop : op <> SDestroy) by (intros ->; discriminate).
      destruct (IH (fire_due s1) o T2 (Hf o (Hh1 Hop))) as (s3 & rs & c3 & E3 & T3). rewrite E3.
      do 3 eexists. split; [reflexivity | exact T3].
Qed.

Lemma TT_start base s q : TT base s ->
  exists s' res cks, start s q = (s', res, cks) /\ TT base s' /\ forall o, res = Ok (Some o) -> hg s' o.
Proof.
  intros (Hg & HR & HA). pose proof Hg as (I & K & P & _).
  destruct (start_G Q0 DEL0 Q0_qt Q0_new Q0_repl Q0_del base s q Hg) as (s' & res & cks & E & G' & _ & Hs & _).
  { intros; exact Logic.I. }
  exists s', res, cks. split; [exact E|]. split; [|intros o Ho; exact (proj1 (Hs o Ho))].
  split; [exact G'|]. split; [exact (proj1 (R_start _ _ _ _ _ E HR))|].
  pose proof (GA_start base s q I K P HA) as H. rewrite E in H. exact H.
Qed.

Lemma TT_req_body base s q script : TT base s ->
  TT base (fst (fst (fst (fst (fst (req_body s q script)))))).
Proof.
  intro HT. unfold req_body. destruct (TT_start base s q HT) as (s2 & res & cks & E & T2 & Hh). rewrite E.
  destruct (TT_fire_due base s2 T2) as [T3 Hf]. cbv zeta.
  destruct res as [[o|]|e|e]; try exact T3.
  destruct (TT_run_script base (had_cookie q) script (fire_due s2) o T3 (Hf o (Hh o eq_refl))) as (s4 & rs & c4 & E4 & T4).
  rewrite E4. exact T4.
Qed.

(* ---- graves under the remaining steps ---- *)

Lemma graves_p_save s k r : graves (fst (p_save s k r)) = graves s.
Proof. unfold p_save, next_fault. destruct (plan s) as [|[|] p]; reflexivity. Qed.

Lemma graves_purge_saves entries : forall s, graves (purge_saves s entries) = graves s.
Proof.
  induction entries as [|[k o] t IH]; intro s; cbn [purge_saves]; [reflexivity|].
  destruct (hget s o); [rewrite IH; apply graves_p_save | apply IH].
Qed.

(* the invariants between steps *)
Definition TW (s : st) : Prop := LI s /\ R s /\ GA s.

Lemma TW_TT s pl t : TW s -> pl = [] -> TT (supply s, []) (set_tb (set_plan (set_evs s []) pl) t).
Proof.
  intros (Hl & HR & HA) ->. split; [apply (GW_G Q0 Q0_qt s [] t Hl eq_refl)|].
  split; [eapply R_same; [| |exact HR]; reflexivity | eapply GA_same; [| | |exact HA]; reflexivity].
Qed.

Lemma TT_TW base s t : TT base s -> TW (set_tb (set_plan s []) t).
Proof.
  intros (Hg & HR & HA). split; [apply (G_GW Q0 Q0_qt base s t Hg)|].
  split; [eapply R_same; [| |exact HR]; reflexivity | eapply GA_same; [| | |exact HA]; reflexivity].
Qed.

Theorem TW_step w h : ff_hop h -> crash_free h -> TW (w_st w) -> TW (w_st (fst (step w h))).
Proof.
  intros Hff Hcf HT. pose proof HT as (Hl & HR & HA).
  split; [apply LI_step; assumption|].
  destruct h as [r|d|tbl pl| | |u tbl pl|u tbl pl|c]; cbn [ff_hop crash_free] in *.
  - (* request *)
    rewrite step_req_eq. cbv zeta. rewrite Hff, Hcf.
    pose proof (TT_req_body _ _ (mkReq (match rq_present r with PJar => jar_of (w_jars w) (rq_client r) | PForge c => c end)
                                       (rq_create r) (rq_addr r) (rq_ua r)) (rq_script r)
                            (TW_TT (w_st w) [] (rq_tb r) HT eq_refl)) as T3.
    match goal with |- context [req_body ?a ?b ?c] => destruct (req_body a b c) as [[[[[s3 rc] st0] sr] fin] cks] end.
    cbn [fst w_st] in *. destruct (TT_TW _ s3 [] T3) as (_ & A & B). split; assumption.
  - (* wait *)
    split; [apply R_step; [exact Logic.I | exact HR]|]. cbn [step fst w_st].
    destruct Hl as (W & _). unfold winv in W.
    apply (GA_fire_due 0 (supply (w_st w), [])); [apply inv_set_now; exact W | eapply GA_same; [| | |exact HA]; reflexivity].
  - (* purge *)
    subst pl. split; [apply R_step; [exact Logic.I | exact HR]|]. cbn [step fst w_st].
    destruct (TW_TT (w_st w) [] tbl HT eq_refl) as ((I1 & K1 & _) & _ & A1).
    set (s1 := set_tb (set_plan (set_evs (w_st w) []) []) tbl) in *.
    eapply GA_same; [| | |eapply (GA_via _ _ s1 (purge s1) I1 K1 A1)]; try reflexivity.
    + unfold purge. cbn [graves set_cache]. apply graves_purge_saves.
    + eexists. apply inv_purge. exact (inv_dead_all _ _ _ I1).
  - split; [apply R_step; [exact Logic.I | exact HR]|]. cbn [step fst w_st]. eapply GA_same; [| | |exact HA]; reflexivity.
  - split; [apply R_step; [exact Logic.I | exact HR]|]. cbn [step fst w_st]. eapply GA_same; [| | |exact HA]; reflexivity.
  - (* LogOut(userID) *)
    subst pl. split; [apply R_step_user; [reflexivity | exact Hl | exact HR | apply GA_GR; exact HA]|]. cbn [step].
    destruct (TW_TT (w_st w) [] tbl HT eq_refl) as ((I1 & K1 & _) & _ & A1).
    set (s1 := set_tb (set_plan (set_evs (w_st w) []) []) tbl) in *.
    destruct (logout_user_inv _ _ _ _ u I1) as (s2 & E & I2 & _).
    destruct (logout_user_inv _ _ _ _ u (inv_dead_all _ _ _ I1)) as (s2' & E' & IZ2 & _).
    pose proof (graves_logout_user _ _ _ s1 u I1) as G2. rewrite E in *. injection E' as <-. cbn [fst w_st] in *.
    apply (GA_fire_due 0 (supply (w_st w), [])); [apply inv_set_tb; apply inv_set_plan_nil; exact I2|].
    eapply GA_same; [| | |eapply (GA_via _ _ s1 s2 I1 K1 A1 G2)]; try reflexivity. eexists. exact IZ2.
  - (* RefreshUser *)
    subst pl. split; [apply R_step_user; [reflexivity | exact Hl | exact HR | apply GA_GR; exact HA]|]. cbn [step].
    destruct (TW_TT (w_st w) [] tbl HT eq_refl) as ((I1 & K1 & _) & _ & A1).
    set (s1 := set_tb (set_plan (set_evs (w_st w) []) []) tbl) in *.
    destruct (refresh_user_inv _ _ _ _ u I1) as (s2 & E & I2 & _).
    destruct (refresh_user_inv _ _ _ _ u (inv_dead_all _ _ _ I1)) as (s2' & E' & IZ2 & _).
    pose proof (graves_refresh_user _ _ _ s1 u I1) as G2. rewrite E in *. injection E' as <-. cbn [fst w_st] in *.
    apply (GA_fire_due 0 (supply (w_st w), [])); [apply inv_set_tb; apply inv_set_plan_nil; exact I2|].
    eapply GA_same; [| | |eapply (GA_via _ _ s1 s2 I1 K1 A1 G2)]; try reflexivity. eexists. exact IZ2.
  - split; [apply R_step; [exact Logic.I | exact HR]|]. cbn [step fst w_st]. eapply GA_same; [| | |exact HA]; reflexivity.
Qed.

Lemma TW_after : forall hs w, Forall ff_hop hs -> Forall crash_free hs -> TW (w_st w) -> TW (w_st (after w hs)).
Proof.
  induction hs as [|h t IH]; intros w Hff Hcf HT; cbn [after]; [exact HT|].
  inversion Hff; inversion Hcf; subst. apply IH; try assumption. apply TW_step; assumption.
Qed.

Lemma TW_init c : TW (init_st c).
Proof. split; [apply LI_init|]. split; [apply R_init | intros k g []]. Qed.

Theorem TW_reach c hs : Forall ff_hop hs -> Forall crash_free hs -> TW (w_st (reach c hs)).
Proof. intros Hff Hcf. apply TW_after; [exact Hff | exact Hcf | apply TW_init]. Qed.

(* ------------------------------------------------------------ the theorems *)

Theorem replrec_full c hs : Forall ff_hop hs -> Forall crash_free hs ->
  let s := w_st (reach c hs) in
  (forall k r, L s k = Some r -> r_ref r <> None -> r_created r = r_access r /\ r_user r = None) /\
  (forall k r, lookup (store s) k = Some r -> r_ref r <> None -> r_created r = r_access r /\ r_user r = None) /\
  (forall o ob, hget s o = Some ob -> r_ref (o_rec ob) <> None ->
     r_created (o_rec ob) = r_access (o_rec ob) /\ r_user (o_rec ob) = None).
Proof.
  intros Hff Hcf s. destruct (TW_reach c hs Hff Hcf) as (_ & [A B] & _).
  assert (Hst : forall k r, lookup (store s) k = Some r -> rok r) by (intros k r H; apply (B k); apply lookup_In; exact H).
  split; [|split; [exact Hst | exact A]].
  intros k r HL. unfold L in HL. destruct (lookup (cache s) k) as [o|].
  - destruct (hget s o) as [ob|] eqn:Ho; [|discriminate]. injection HL as <-. exact (A o ob Ho).
  - exact (Hst k r HL).
Qed.

Theorem expired_ref_full c hs k r j cf t :
  Forall ff_hop hs -> Forall crash_free hs ->
  lookup (store (w_st (reach c hs))) k = Some r -> r_ref r = Some j ->
  (0 <= c_idexpiry cf)%Z -> (c_grace cf <= max64)%Z ->
  (expired cf r t = true <-> (c_grace cf <= since (r_access r) t)%Z).
Proof.
  intros Hff Hcf Hl Hr H1 H2. destruct (replrec_full c hs Hff Hcf) as (_ & Hs & _).
  apply (RotateLaws4.expired_ref_grace cf r t j Hr); [|exact H1 | exact H2].
  apply (Hs k r Hl). rewrite Hr. discriminate.
Qed.

(* what the stale index lists is never stored again *)
Theorem stale_index_dead c hs : Forall ff_hop hs -> Forall crash_free hs ->
  forall k g, In (k, g) (graves (w_st (reach c hs))) ->
    key_drawn (w_st (reach c hs)) k /\ lookup (store (w_st (reach c hs))) k = None.
Proof.
  intros Hff Hcf k g Hin. destruct (TW_reach c hs Hff Hcf) as (_ & _ & HA). destruct (HA k g Hin) as [A B].
  split; [destruct k; exact A | apply sref_None; exact B].
Qed.
