(* C04, serialised requests on one due ID (audit task A2), part 2: K calls of
   Start presenting the same due ID k, one after the other (Hist.step: request
   steps with an empty handler script, separated by waits), inside the grace
   period of the ID change the first of them makes.

   mid            the state between the calls (k a replaced-ID record naming j,
                  its clean-up queued; j a session's record with the data and
                  user k had; one more ID drawn)
   first_call     the first call rotates: one draw, cookie Live j, the session
                  under j; establishes mid
   mid_wait       waiting inside the grace period keeps mid
   mid_call       a later call presenting k: no draw, cookie Live j, the session
                  under j with the same data and user; keeps mid
   serialised     the induction over the later calls

   The step from "K goroutines run Start concurrently" to "their critical
   sections (lookup - validate - rotate - follow) take place one after the
   other in some order" is NOT a theorem here: it is what the per-ID lock
   gives (Properties/C13.v: mutual exclusion of the holders of one key) together
   with its position in Start (Properties/Shape.v: start_lock_precedes_get,
   lock_events_pinned - every access Start makes to the session table lies
   between Lock(id) and the deferred Unlock(id)). *)
From Sessions Require Import Model.Base Model.Sess Model.Hist Proofs.SessDefs
  Proofs.HistInv Proofs.HistInv2 Proofs.HistInv3 Proofs.HistLift Proofs.HistLift2 Proofs.HistLift3
  Proofs.HistLift4 Proofs.HistLift5 Proofs.HistLift6 Proofs.HistLift7 Proofs.HistLift8 Proofs.HistLift9.
From Sessions Require Proofs.RotateLaws Proofs.RotateLaws2 Proofs.RotateLaws3 Proofs.RotateLaws4
  Proofs.RotateLaws7 Proofs.C01Spec Proofs.C04Conc.
From Coq Require Import Lia.

(* a plain call of Start: a request step whose handler does nothing, without
   planned faults and without a crash *)
Definition plain_req (r : reqstep) : Prop := rq_script r = [] /\ rq_plan r = [] /\ rq_crash r = None.

Lemma plain_step w r s' o cks :
  plain_req r -> start (pre_of w r) (req_of w r) = (s', Ok (Some o), cks) ->
  let st1 := step w (HReq r) in
  w_st (fst st1) = set_tb (set_plan (fire_due s') []) [] /\
  ob_res (snd st1) = RSess /\ ob_start (snd st1) = handle_view (fire_due s') o /\
  ob_cookies (snd st1) = cks /\ ob_drawn (snd st1) = supply (fire_due s').
Proof.
  intros (Hsc & Hpl & Hcr) E. cbv zeta. rewrite step_req_eq. cbv zeta. unfold req_body.
  unfold pre_of, req_of, presents in E. rewrite E. rewrite Hsc. cbn [run_script]. rewrite Hcr.
  cbn [fst snd w_st mk_obs ob_res ob_start ob_cookies ob_drawn]. rewrite app_nil_r. repeat split.
Qed.

Lemma G_facts base s : G Q0 base s ->
  sess_inv s /\ RotateLaws4.ref_wf s /\ Kcs s /\ PRs s /\ Kp s.
Proof.
  intros (I & K & P & (R & Kq)). split; [exact (inv_sess_inv _ _ I)|].
  split; [apply Kcs_RWs_ref_wf; assumption|]. auto.
Qed.

Lemma pre_G w r : LI (w_st w) -> rq_plan r = [] -> G Q0 (supply (w_st w), []) (pre_of w r).
Proof. intros Hl Hpl. exact (GW_G Q0 Q0_qt (w_st w) (rq_plan r) (rq_tb r) Hl Hpl). Qed.

Lemma start_post_G base s q : G Q0 base s ->
  exists s' res cks, start s q = (s', res, cks) /\ G Q0 base s' /\ now s' = now s /\ conf s' = conf s.
Proof.
  intro G1.
  destruct (start_G Q0 DEL0 Q0_qt Q0_new Q0_repl Q0_del base s q G1) as (s' & res & cks & E & G' & [N1 N2] & _).
  - intros. exact Logic.I.
  - exists s', res, cks. auto.
Qed.

(* ------------------------------------------------ content of a record *)

Lemma content_codec c r : C01Spec.content_of (codec c r) = C01Spec.content_of r.
Proof. unfold C01Spec.content_of, codec. cbn. destruct (r_data r), (r_user r) as [[u v]|]; reflexivity. Qed.

Lemma content_seen r t q : C01Spec.content_of (RotateLaws3.seen_rec r t q) = C01Spec.content_of r.
Proof. reflexivity. Qed.

Lemma content_rot r t : C01Spec.content_of (RotateLaws2.rot_rec r t) = C01Spec.content_of r.
Proof. reflexivity. Qed.

Lemma ref_codec c r : r_ref (codec c r) = r_ref r.
Proof. reflexivity. Qed.

(* ---------------------------------------- the state between the calls *)

(* After the first of the K calls, which replaced k (record rc, at instant t,
   configuration c, n IDs drawn before) by j = KGen n:
   - k resolves to the replaced-ID record naming j, as RegenerateID wrote it or
     as the codec returns it, and its clean-up is queued for t + grace;
   - j resolves to a session's record with the data and user of rc;
   - n + 1 IDs have been drawn. *)
Record mid (k : key) (rc : rec) (t : Z) (n : N) (c : cfg) (s : st) : Prop := mkMid {
  m_LI : LI s;
  m_conf : conf s = c;
  m_supply : supply s = (n + 1)%N;
  m_ne : k <> KGen n;
  m_k : exists rk, L s k = Some rk /\
          (rk = RotateLaws2.ref_rec rc t (KGen n) \/ rk = codec c (RotateLaws2.ref_rec rc t (KGen n)));
  m_pend : In ((t + c_grace c)%Z, k) (pending s);
  m_j : exists rj, L s (KGen n) = Some rj /\ r_ref rj = None /\
          C01Spec.content_of rj = C01Spec.content_of rc }.

(* pending entries of a key that resolves to a session's record: none *)
Lemma not_pending_live s x rx d : cache_ok s -> Kcs s -> PRs s ->
  L s x = Some rx -> r_ref rx = None -> ~ In (d, x) (pending s).
Proof.
  intros Hco K P HL Hr Hin. apply (P d x Hin). apply (L_sref s x None Hco K). exists rx. auto.
Qed.

Lemma LI_parts s : LI s -> sess_inv s /\ RotateLaws4.ref_wf s /\ Kcs s /\ PRs s /\ Kp s.
Proof.
  intro Hl. destruct (LI_implies s Hl) as [A B]. destruct Hl as (_ & K & P & (_ & Kq)). auto.
Qed.

(* --------------------------------------------------------------- waiting *)

Lemma mid_wait k rc t n c w d :
  mid k rc t n c (w_st w) -> (0 <= d)%Z -> (now (w_st w) + d < t + c_grace c)%Z ->
  let w1 := fst (step w (HWait d)) in
  mid k rc t n c (w_st w1) /\ now (w_st w1) = (now (w_st w) + d)%Z /\ w_jars w1 = w_jars w.
Proof.
  intros [Hl Hc Hs Hne (rk & HLk & Hrk) Hpe (rj & HLj & Hrj & Hcj)] Hd Hlt. cbv zeta.
  pose proof (LI_step_wait w d Hl) as Hl1.
  destruct (LI_parts _ Hl) as ((Hp & Hco & Hnd & Hf) & Hw & K & P & Kq).
  cbn [step fst w_st w_jars] in *.
  set (sn := set_now (set_evs (w_st w) []) (now (set_evs (w_st w) []) + d)) in *.
  destruct (RotateLaws7.fire_due_inv sn Hp Hco Hnd Hf Hw) as (_ & _ & _ & _ & _ & Fn & Fc & Fs & FL).
  assert (Hk_nd : forall d0, In (d0, k) (pending sn) -> (now sn < d0)%Z).
  { intros d0 Hin. change (pending sn) with (pending (w_st w)) in Hin.
    rewrite (NoDup_snd_inj _ _ _ _ Kq Hin Hpe). exact Hlt. }
  assert (Hj_nd : forall d0, In (d0, KGen n) (pending sn) -> (now sn < d0)%Z).
  { intros d0 Hin. exfalso. exact (not_pending_live _ _ _ d0 Hco K P HLj Hrj Hin). }
  split; [|split; [exact Fn | reflexivity]].
  constructor.
  - exact Hl1.
  - rewrite Fc. exact Hc.
  - rewrite Fs. exact Hs.
  - exact Hne.
  - exists rk. split; [rewrite (FL k Hk_nd); exact HLk | exact Hrk].
  - apply RotateLaws4.fire_due_keeps; [exact Hp | exact Hpe | exact Hlt].
  - exists rj. split; [rewrite (FL _ Hj_nd); exact HLj|]. auto.
Qed.

(* ------------------------------------------------------- a later call *)

(* Start's own checks on the replaced-ID record under k at instant T (not idle
   for SessionExpiry, acceptable peer and agent, not past the backstop age),
   for the record as RegenerateID wrote it and as the codec returns it
   (the hypothesis of C05_grace_live) *)
Definition checks_ok (c : cfg) (rc : rec) (t : Z) (j : key) (T : Z) (q : request) : Prop :=
  forall rk, rk = RotateLaws2.ref_rec rc t j \/ rk = codec c (RotateLaws2.ref_rec rc t j) ->
    RotateLaws3.valid_for c rk T q = true /\
    (since (r_created rk) T < sat_add (c_idexpiry c) (c_grace c))%Z.

(* what a later call reports: the session under j with rc's data and user,
   the cookie redirected to j, nothing drawn *)
Definition joined (j : key) (rc : rec) (n : N) (o : obs) : Prop :=
  ob_res o = RSess /\ ob_cookies o = [CkLive j] /\
  (exists ri, ob_start o = Some (j, ri) /\ r_ref ri = None /\
              C01Spec.content_of ri = C01Spec.content_of rc) /\
  ob_drawn o = (n + 1)%N.

Lemma mid_call k rc t n c w r :
  mid k rc t n c (w_st w) -> plain_req r -> presents w r = CKey k ->
  (now (w_st w) < t + c_grace c)%Z ->
  checks_ok c rc t (KGen n) (now (w_st w)) (req_of w r) ->
  let st1 := step w (HReq r) in
  joined (KGen n) rc n (snd st1) /\
  mid k rc t n c (w_st (fst st1)) /\ now (w_st (fst st1)) = now (w_st w).
Proof.
  intros [Hl Hc Hs Hne (rk & HLk & Hrk) Hpe (rj & HLj & Hrj & Hcj)] Hplain Hpres Hlt Hchk. cbv zeta.
  pose proof Hplain as (Hsc & Hpl & Hcr).
  pose proof (LI_step w (HReq r) Hl Hpl Hcr) as Hl1.
  pose proof (pre_G w r Hl Hpl) as G1.
  destruct (G_facts _ _ G1) as ((Hp & Hco & Hnd & Hf) & Hw & K & P & Kq).
  set (sp := pre_of w r) in *. set (q := req_of w r) in *. set (j := KGen n) in *.
  assert (Hq : q_cookie q = CKey k) by exact Hpres.
  assert (Hspc : conf sp = c) by exact Hc.
  assert (Hrkref : r_ref rk = Some j) by (destruct Hrk as [-> | ->]; reflexivity).
  assert (Hch : RotateLaws4.chain_rec sp rk [j]).
  { cbn [RotateLaws4.chain_rec]. split; [exact Hrkref|]. exists rj. split; [exact HLj | exact Hrj]. }
  destruct (Hchk rk Hrk) as [Hval Hback].
  destruct (C04Conc.start_chain_x sp q k rk [j] Hp Hco Hnd Hf Hw Hq HLk Hch ltac:(discriminate))
    as (s2 & o' & ob' & rn & Q & Hg2 & Hid2 & Hr2 & HLn & Hcase & HL2 & E).
  { rewrite Hspc. exact Hval. }
  { rewrite Hspc. exact Hback. }
  cbn [last] in Hid2, HLn, HL2, E. change (L sp j) with (L (w_st w) j) in HLn. rewrite HLj in HLn. injection HLn as <-.
  set (f := fun r0 : rec => RotateLaws3.seen_rec r0 (now sp) q) in *.
  set (s' := hupd s2 o' f) in *.
  destruct (start_post_G _ sp q G1) as (sx & resx & cksx & Ex & G' & Hnow' & Hconf').
  rewrite E in Ex. injection Ex as <- <- <-.
  assert (Hheap : heap (fire_due s') = heap s') by (destruct G' as (I' & _); apply (HistInv3.fire_due_inv _ _ _ _ I')).
  destruct (G_facts _ _ G') as ((Hp' & Hco' & Hnd' & Hf') & Hw' & K' & P' & Kq').
  destruct (plain_step w r s' o' [CkLive j] Hplain E) as (Est & Eres & Estart & Ecks & Edr).
  destruct (RotateLaws7.fire_due_inv s' Hp' Hco' Hnd' Hf' Hw') as (_ & _ & _ & _ & _ & Fn & Fc & Fs & FL).
  destruct (RotateLaws3.hupd_fields s2 o' f) as (_ & _ & Hpe' & _ & Hsu' & _ & _ & _).
  fold s' in Hpe', Hsu'.
  assert (Ho' : hget s' o' = Some (mkObj j (f (o_rec ob')))).
  { unfold s'. rewrite (RotateLaws3.hget_hupd_same s2 o' ob' f Hg2), Hid2. reflexivity. }
  assert (Hcont : C01Spec.content_of (o_rec ob') = C01Spec.content_of rc).
  { destruct Hcase as [-> | ->]; [exact Hcj | rewrite content_codec; exact Hcj]. }
  assert (Hpend' : pending s' = pending (w_st w)).
  { rewrite Hpe', (RotateLaws3.qu_pending _ _ Q). reflexivity. }
  (* k after the call *)
  assert (HLk' : exists rk', L s' k = Some rk' /\
            (rk' = RotateLaws2.ref_rec rc t j \/ rk' = codec c (RotateLaws2.ref_rec rc t j))).
  { unfold s'. rewrite (C04Conc.L_hupd_other s2 o' ob' f k (RotateLaws3.qu_cok _ _ Q) Hg2)
      by (rewrite Hid2; exact Hne).
    destruct (RotateLaws3.qu_L _ _ Q k) as [EL|EL]; change (L sp k) with (L (w_st w) k) in EL; rewrite EL, HLk.
    - exists rk. auto.
    - cbn [option_map]. rewrite Hspc. exists (codec c rk). split; [reflexivity|]. right.
      destruct Hrk as [-> | ->]; [reflexivity | apply RotateLaws.codec_idem]. }
  (* j after the call *)
  assert (HLj' : exists rj', L s' j = Some rj' /\ r_ref rj' = None /\
            C01Spec.content_of rj' = C01Spec.content_of rc).
  { rewrite <- Hid2 in HL2. destruct (C04Conc.L_hupd_same s2 o' ob' f Hg2 HL2) as [EL|EL];
      fold s' in EL; rewrite Hid2 in EL; rewrite EL.
    - exists (o_rec ob'). auto.
    - exists (f (o_rec ob')). split; [reflexivity|]. split; [exact Hr2 | exact Hcont]. }
  destruct HLk' as (rk' & HLk' & Hrk'). destruct HLj' as (rj' & HLj' & Hrj' & Hcj').
  assert (Hk_nd : forall d0, In (d0, k) (pending s') -> (now s' < d0)%Z).
  { intros d0 Hin. rewrite Hpend' in Hin. rewrite Hnow'.
    rewrite (NoDup_snd_inj _ _ _ _ Kq Hin Hpe). exact Hlt. }
  assert (Hj_nd : forall d0, In (d0, j) (pending s') -> (now s' < d0)%Z).
  { intros d0 Hin. exfalso. exact (not_pending_live _ _ _ d0 Hco' K' P' HLj' Hrj' Hin). }
  split; [|split].
  - split; [exact Eres|]. split; [exact Ecks|]. split.
    + exists (f (o_rec ob')). rewrite Estart. unfold handle_view, hget. rewrite Hheap.
      fold (hget s' o'). rewrite Ho'. split; [reflexivity|]. split; [exact Hr2 | exact Hcont].
    + rewrite Edr, Fs, Hsu', (RotateLaws3.qu_supply _ _ Q). exact Hs.
  - rewrite Est. constructor.
    + rewrite <- Est. exact Hl1.
    + cbn [conf set_tb set_plan]. rewrite Fc, Hconf'. exact Hspc.
    + cbn [supply set_tb set_plan]. rewrite Fs, Hsu', (RotateLaws3.qu_supply _ _ Q). exact Hs.
    + exact Hne.
    + exists rk'. split; [|exact Hrk']. change (L (fire_due s') k = Some rk'). rewrite (FL k Hk_nd). exact HLk'.
    + cbn [pending set_tb set_plan]. apply RotateLaws4.fire_due_keeps; [exact Hp' | rewrite Hpend'; exact Hpe|].
      rewrite Hnow'. exact Hlt.
    + exists rj'. split; [|auto]. change (L (fire_due s') j = Some rj'). rewrite (FL j Hj_nd). exact HLj'.
  - rewrite Est. cbn [now set_tb set_plan]. rewrite Fn, Hnow'. reflexivity.
Qed.

(* ------------------------------------------------------ the first call *)

(* what the first call reports: the session under the fresh ID j with rc's
   data and user (the record is rc with created = lastAccess = now and this
   request's peer and agent), the cookie set to j, exactly one ID drawn *)
Definition rotated (j : key) (rc : rec) (t : Z) (q : request) (n : N) (o : obs) : Prop :=
  ob_res o = RSess /\ ob_cookies o = [CkLive j] /\
  ob_start o = Some (j, RotateLaws3.seen_rec (RotateLaws2.rot_rec rc t) t q) /\
  ob_drawn o = (n + 1)%N.

Lemma first_call k rc w r :
  LI (w_st w) -> plain_req r -> presents w r = CKey k ->
  L (w_st w) k = Some rc -> r_ref rc = None ->
  RotateLaws3.valid_for (conf (w_st w)) rc (now (w_st w)) (req_of w r) = true ->
  (c_idexpiry (conf (w_st w)) <= since (r_created rc) (now (w_st w)))%Z ->
  (0 < c_grace (conf (w_st w)))%Z ->
  let n := supply (w_st w) in
  let t := now (w_st w) in
  let st1 := step w (HReq r) in
  rotated (KGen n) rc t (req_of w r) n (snd st1) /\
  mid k rc t n (conf (w_st w)) (w_st (fst st1)) /\ now (w_st (fst st1)) = t.
Proof.
  intros Hl Hplain Hpres HLk Href Hval Hdue Hg. cbv zeta.
  pose proof Hplain as (Hsc & Hpl & Hcr).
  pose proof (LI_step w (HReq r) Hl Hpl Hcr) as Hl1.
  pose proof (pre_G w r Hl Hpl) as G1.
  destruct (G_facts _ _ G1) as ((Hp & Hco & Hnd & Hf) & Hw & K & P & Kq).
  set (sp := pre_of w r) in *. set (q := req_of w r) in *.
  set (c := conf (w_st w)) in *. set (t := now (w_st w)) in *. set (n := supply (w_st w)) in *.
  set (j := KGen n) in *.
  assert (Hq : q_cookie q = CKey k) by exact Hpres.
  destruct (RotateLaws3.start_rotate sp q k rc Hp Hco Hnd Hf Hq HLk Href Hval Hdue)
    as (s' & o & E & _ & Hsu' & Ho' & HLj' & HLk' & _ & _ & Hpe').
  change (supply sp) with n in *. change (now sp) with t in *. change (conf sp) with c in *. fold j in E, Ho', HLj', HLk', Hpe'.
  destruct (start_post_G _ sp q G1) as (sx & resx & cksx & Ex & G' & Hnow' & Hconf').
  rewrite E in Ex. injection Ex as <- <- <-.
  change (now sp) with t in Hnow'. change (conf sp) with c in Hconf'.
  assert (Hheap : heap (fire_due s') = heap s') by (destruct G' as (I' & _); apply (HistInv3.fire_due_inv _ _ _ _ I')).
  destruct (G_facts _ _ G') as ((Hp' & Hco' & Hnd' & Hf') & Hw' & K' & P' & Kq').
  destruct (plain_step w r s' o [CkLive j] Hplain E) as (Est & Eres & Estart & Ecks & Edr).
  destruct (RotateLaws7.fire_due_inv s' Hp' Hco' Hnd' Hf' Hw') as (_ & _ & _ & _ & _ & Fn & Fc & Fs & FL).
  assert (Hne : k <> j).
  { apply (RotateLaws3.drawn_not_next sp k). eapply RotateLaws3.L_drawn; [exact Hf | exact HLk]. }
  assert (Hk_nd : forall d0, In (d0, k) (pending s') -> (now s' < d0)%Z).
  { intros d0 Hin. rewrite Hpe' in Hin. apply in_app_or in Hin as [Hin|[Hin|[]]].
    - exfalso. exact (not_pending_live sp k rc d0 Hco K P HLk Href Hin).
    - injection Hin as <-. rewrite Hnow'. lia. }
  assert (Hj_nd : forall d0, In (d0, j) (pending s') -> (now s' < d0)%Z).
  { intros d0 Hin. rewrite Hpe' in Hin. apply in_app_or in Hin as [Hin|[Hin|[]]].
    - exfalso. destruct Hf as (_ & _ & _ & F4). apply F4 in Hin. cbn [key_drawn j] in Hin.
      change (supply sp) with n in Hin. lia.
    - injection Hin as _ Hin. congruence. }
  split; [|split].
  - split; [exact Eres|]. split; [exact Ecks|]. split.
    + rewrite Estart. unfold handle_view, hget. rewrite Hheap. fold (hget s' o). rewrite Ho'. reflexivity.
    + rewrite Edr, Fs. exact Hsu'.
  - rewrite Est. constructor.
    + rewrite <- Est. exact Hl1.
    + cbn [conf set_tb set_plan]. rewrite Fc. exact Hconf'.
    + cbn [supply set_tb set_plan]. rewrite Fs. exact Hsu'.
    + exact Hne.
    + eexists. split; [change (L (set_tb (set_plan (fire_due s') []) []) k) with (L (fire_due s') k);
                       rewrite (FL k Hk_nd); exact HLk'|].
      destruct (RotateLaws2.cached s' k); auto.
    + cbn [pending set_tb set_plan]. apply RotateLaws4.fire_due_keeps; [exact Hp'| |rewrite Hnow'; lia].
      rewrite Hpe'. apply in_or_app. right. left. reflexivity.
    + fold j. eexists. split; [change (L (set_tb (set_plan (fire_due s') []) []) j) with (L (fire_due s') j);
                       rewrite (FL j Hj_nd); exact HLj'|].
      destruct (RotateLaws2.cached s' j).
      * split; [exact Href | reflexivity].
      * split; [exact Href | rewrite content_codec; reflexivity].
  - rewrite Est. cbn [now set_tb set_plan]. rewrite Fn. exact Hnow'.
Qed.

(* ------------------------------------------------- draws of the calls *)

Lemma flv_self n : flv n [CkLive (KGen n)] = [n].
Proof. cbn [flv flat_map app]. rewrite N.leb_refl. reflexivity. Qed.

Lemma flv_old n : flv (n + 1) [CkLive (KGen n)] = [].
Proof. cbn [flv flat_map app]. destruct (N.leb_spec (n + 1) n); [lia | reflexivity]. Qed.

Lemma first_call_draws k rc w r :
  LI (w_st w) -> plain_req r -> presents w r = CKey k ->
  L (w_st w) k = Some rc -> r_ref rc = None ->
  RotateLaws3.valid_for (conf (w_st w)) rc (now (w_st w)) (req_of w r) = true ->
  (c_idexpiry (conf (w_st w)) <= since (r_created rc) (now (w_st w)))%Z ->
  (0 < c_grace (conf (w_st w)))%Z ->
  dlist (ob_evs (snd (step w (HReq r)))) = [supply (w_st w)].
Proof.
  intros Hl Hplain Hpres HLk Href Hval Hdue Hg.
  destruct (first_call k rc w r Hl Hplain Hpres HLk Href Hval Hdue Hg) as ((_ & Hck & _) & _).
  destruct Hplain as (_ & Hpl & Hcr).
  destruct (step_draws w r Hl Hpl Hcr) as (Hd & _). rewrite Hd, Hck. apply flv_self.
Qed.

Lemma mid_call_draws k rc t n c w r :
  mid k rc t n c (w_st w) -> plain_req r -> presents w r = CKey k ->
  (now (w_st w) < t + c_grace c)%Z ->
  checks_ok c rc t (KGen n) (now (w_st w)) (req_of w r) ->
  dlist (ob_evs (snd (step w (HReq r)))) = [].
Proof.
  intros Hm Hplain Hpres Hlt Hchk.
  destruct (mid_call k rc t n c w r Hm Hplain Hpres Hlt Hchk) as ((_ & Hck & _) & _).
  destruct Hplain as (_ & Hpl & Hcr).
  destruct (step_draws w r (m_LI _ _ _ _ _ _ Hm) Hpl Hcr) as (Hd & _).
  rewrite Hd, Hck, (m_supply _ _ _ _ _ _ Hm). apply flv_old.
Qed.

(* ------------------------------------------------- the K - 1 later calls *)

(* The later calls, in the order in which they get the lock: each starts d >= 0
   after the previous one ended (clean-ups due by then have run), before the
   end of the grace period of the first call's ID change, as a plain call
   presenting k that passes Start's checks on the replaced-ID record. *)
Fixpoint later_ok (k : key) (rc : rec) (t : Z) (n : N) (c : cfg) (w : world) (l : list (Z * reqstep)) : Prop :=
  match l with
  | [] => True
  | (d, r) :: l' =>
    let w1 := fst (step w (HWait d)) in
    (0 <= d)%Z /\ (now (w_st w) + d < t + c_grace c)%Z /\
    plain_req r /\ presents w1 r = CKey k /\
    checks_ok c rc t (KGen n) (now (w_st w) + d) (req_of w1 r) /\
    later_ok k rc t n c (fst (step w1 (HReq r))) l'
  end.

(* their observations, and the world after them *)
Fixpoint later_obs (w : world) (l : list (Z * reqstep)) : list obs :=
  match l with
  | [] => []
  | (d, r) :: l' =>
    let w1 := fst (step w (HWait d)) in
    snd (step w1 (HReq r)) :: later_obs (fst (step w1 (HReq r))) l'
  end.

Fixpoint later_end (w : world) (l : list (Z * reqstep)) : world :=
  match l with
  | [] => w
  | (d, r) :: l' => later_end (fst (step (fst (step w (HWait d))) (HReq r))) l'
  end.

Lemma later_calls k rc t n c : forall l w,
  mid k rc t n c (w_st w) -> later_ok k rc t n c w l ->
  Forall (fun o => joined (KGen n) rc n o /\ dlist (ob_evs o) = []) (later_obs w l) /\
  mid k rc t n c (w_st (later_end w l)).
Proof.
  induction l as [|[d r] l IH]; intros w Hm Hok; cbn [later_ok later_obs later_end] in *.
  - split; [constructor | exact Hm].
  - destruct Hok as (Hd & Hlt & Hplain & Hpres & Hchk & Hrest).
    destruct (mid_wait k rc t n c w d Hm Hd Hlt) as (Hm1 & Hn1 & _).
    set (w1 := fst (step w (HWait d))) in *.
    rewrite <- Hn1 in Hlt, Hchk.
    destruct (mid_call k rc t n c w1 r Hm1 Hplain Hpres Hlt Hchk) as (Hj & Hm2 & _).
    pose proof (mid_call_draws k rc t n c w1 r Hm1 Hplain Hpres Hlt Hchk) as Hdr.
    destruct (IH _ Hm2 Hrest) as (Hall & Hend).
    split; [constructor; [split; assumption | exact Hall] | exact Hend].
Qed.

(* ----------------------------------------------------------- the theorem *)

Theorem serialised k rc w r1 l :
  LI (w_st w) -> plain_req r1 -> presents w r1 = CKey k ->
  L (w_st w) k = Some rc -> r_ref rc = None ->
  RotateLaws3.valid_for (conf (w_st w)) rc (now (w_st w)) (req_of w r1) = true ->
  (c_idexpiry (conf (w_st w)) <= since (r_created rc) (now (w_st w)))%Z ->
  (0 < c_grace (conf (w_st w)))%Z ->
  let n := supply (w_st w) in
  let t := now (w_st w) in
  let c := conf (w_st w) in
  let o1 := snd (step w (HReq r1)) in
  let w1 := fst (step w (HReq r1)) in
  later_ok k rc t n c w1 l ->
  rotated (KGen n) rc t (req_of w r1) n o1 /\ dlist (ob_evs o1) = [n] /\
  Forall (fun o => joined (KGen n) rc n o /\ dlist (ob_evs o) = []) (later_obs w1 l) /\
  supply (w_st (later_end w1 l)) = (n + 1)%N.
Proof.
  intros Hl Hplain Hpres HLk Href Hval Hdue Hg. cbv zeta. intro Hok.
  destruct (first_call k rc w r1 Hl Hplain Hpres HLk Href Hval Hdue Hg) as (Hrot & Hm & _).
  pose proof (first_call_draws k rc w r1 Hl Hplain Hpres HLk Href Hval Hdue Hg) as Hdr.
  destruct (later_calls k rc _ _ _ l _ Hm Hok) as (Hall & Hend).
  split; [exact Hrot|]. split; [exact Hdr|]. split; [exact Hall|]. exact (m_supply _ _ _ _ _ _ Hend).
Qed.
