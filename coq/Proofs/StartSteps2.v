(* B2 (C05), part (b), preparation: what the clean-up pass (fire_due) does to a
   fault-free state, exactly; the relation QX between two instants of a request
   during which only loads, flushes and clean-up passes happened; and the
   reference loop of Start with the clean-ups firing after any of its cache
   operations, on a chain none of whose later members is due. *)
From Sessions Require Import Model.Base Model.Sess Model.Hist Model.StartSteps Proofs.SessDefs
  Proofs.RotateLaws Proofs.RotateLaws2 Proofs.RotateLaws3 Proofs.RotateLaws4 Proofs.StartSteps.
From Sessions Require Proofs.StartLaws.
From Coq Require Import Lia.

(* ------------------------------------------------- the clean-up pass, exactly *)

(* the entries of an association list that survive the pass at instant t *)
Fixpoint rm_due {A} (t : Z) (l : list (Z * key)) (c : list (key * A)) : list (key * A) :=
  match l with
  | [] => c
  | (d, k) :: l' => rm_due t l' (if (d <=? t)%Z then remove c k else c)
  end.

Definition due_in (t : Z) (l : list (Z * key)) (k : key) : bool :=
  existsb (fun e => (fst e <=? t)%Z && key_eqb k (snd e)) l.

Lemma lookup_rm_due {A} t l : forall (c : list (key * A)) k,
  lookup (rm_due t l c) k = if due_in t l k then None else lookup c k.
Proof.
  induction l as [|[d k0] l IH]; intros c k; cbn [rm_due due_in existsb fst snd]; [reflexivity|].
  rewrite IH. fold (due_in t l k). destruct (due_in t l k); [rewrite orb_true_r; reflexivity|].
  rewrite orb_false_r. destruct (d <=? t)%Z; cbn [andb]; [|reflexivity].
  destruct (key_eqb k k0) eqn:E.
  - apply key_eqb_eq in E. subst. apply lookup_remove_same.
  - apply key_eqb_neq in E. apply lookup_remove_other. exact E.
Qed.

Lemma In_rm_due {A} t l : forall (c : list (key * A)) e, In e (rm_due t l c) -> In e c.
Proof.
  induction l as [|[d k0] l IH]; intros c e H; cbn [rm_due] in H; [exact H|].
  apply IH in H. destruct (d <=? t)%Z; [eapply StartLaws.In_remove; exact H | exact H].
Qed.

Lemma nodup_rm_due {A} t l : forall (c : list (key * A)), NoDup (map fst c) -> NoDup (map fst (rm_due t l c)).
Proof.
  induction l as [|[d k0] l IH]; intros c H; cbn [rm_due]; [exact H|].
  apply IH. destruct (d <=? t)%Z; [apply StartLaws.nodup_remove; exact H | exact H].
Qed.

Lemma due_in_true t l k : due_in t l k = true <-> exists d, In (d, k) l /\ (d <= t)%Z.
Proof.
  unfold due_in. rewrite existsb_exists. split.
  - intros ([d k'] & Hin & H). cbn [fst snd] in H. apply andb_true_iff in H. destruct H as [H1 H2].
    apply key_eqb_eq in H2. subst k'. exists d. split; [exact Hin | apply Z.leb_le; exact H1].
  - intros (d & Hin & Hd). exists (d, k). split; [exact Hin|]. cbn [fst snd].
    apply andb_true_iff. split; [apply Z.leb_le; exact Hd | apply key_eqb_refl].
Qed.

Lemma due_in_false t l k : due_in t l k = false <-> forall d, In (d, k) l -> (t < d)%Z.
Proof.
  split.
  - intros H d Hin. destruct (Z_lt_le_dec t d) as [Hl|Hl]; [exact Hl|].
    assert (due_in t l k = true) by (apply due_in_true; exists d; auto). congruence.
  - intro H. destruct (due_in t l k) eqn:E; [|reflexivity]. apply due_in_true in E.
    destruct E as (d & Hin & Hd). specialize (H d Hin). lia.
Qed.

Lemma fire_exact l : forall s, plan s = [] ->
  let s' := fst (fire s l) in
  cache s' = rm_due (now s) l (cache s) /\ store s' = rm_due (now s) l (store s) /\
  heap s' = heap s /\ plan s' = [] /\ now s' = now s /\ conf s' = conf s /\ supply s' = supply s /\
  pending s' = pending s /\
  snd (fire s l) = filter (fun e => negb (fst e <=? now s)%Z) l.
Proof.
  induction l as [|[d0 k0] l IH]; intros s Hp; cbn [fire rm_due].
  - cbn. repeat split; auto.
  - cbn [filter fst]. destruct (d0 <=? now s)%Z eqn:Ed; cbn [negb].
    + destruct (cache_delete_ff s k0 Hp) as [_ (Dh & Dc & Ds & Dpe & Dn & Dsu & Dcf & Dpl & De)].
      destruct (cache_delete s k0) as [s1 ok]. cbn [fst] in *.
      destruct (IH s1 Dpl) as (I1 & I2 & I3 & I4 & I5 & I6 & I7 & I8 & I9). cbv zeta in *.
      rewrite I1, I2, I9, Dc, Ds, Dn. repeat split; try reflexivity; congruence.
    + destruct (IH s Hp) as (I1 & I2 & I3 & I4 & I5 & I6 & I7 & I8 & I9). cbv zeta in *.
      destruct (fire s l) as [s1 rest]. cbn [fst snd] in *. rewrite I9. repeat split; assumption.
Qed.

(* fire_due on a fault-free state, field by field *)
Record fired (s s' : st) : Prop := mkFired {
  fd_cache : cache s' = rm_due (now s) (pending s) (cache s);
  fd_store : store s' = rm_due (now s) (pending s) (store s);
  fd_heap : heap s' = heap s;
  fd_plan : plan s' = [];
  fd_now : now s' = now s;
  fd_conf : conf s' = conf s;
  fd_supply : supply s' = supply s;
  fd_pending : pending s' = filter (fun e => negb (fst e <=? now s)%Z) (pending s) }.

Lemma fire_due_fired s : plan s = [] -> fired s (fire_due s).
Proof.
  intro Hp. unfold fire_due.
  pose proof (fire_exact (pending s) (set_pending s []) Hp) as H. cbv zeta in H.
  destruct (fire (set_pending s []) (pending s)) as [s1 rest]. cbn [fst snd] in H.
  destruct H as (I1 & I2 & I3 & I4 & I5 & I6 & I7 & I8 & I9). cbn in I1, I2, I3, I5, I6, I7, I8, I9.
  constructor; cbn; try assumption. rewrite I8, I9. reflexivity.
Qed.

(* no clean-up of k is due *)
Definition notdue (s : st) (k : key) : Prop := forall d, In (d, k) (pending s) -> (now s < d)%Z.

Lemma fired_lookup_cache s s' k : fired s s' ->
  lookup (cache s') k = if due_in (now s) (pending s) k then None else lookup (cache s) k.
Proof. intro F. rewrite (fd_cache _ _ F). apply lookup_rm_due. Qed.

Lemma fired_lookup_store s s' k : fired s s' ->
  lookup (store s') k = if due_in (now s) (pending s) k then None else lookup (store s) k.
Proof. intro F. rewrite (fd_store _ _ F). apply lookup_rm_due. Qed.

Lemma fired_hget s s' o : fired s s' -> hget s' o = hget s o.
Proof. intro F. unfold hget. rewrite (fd_heap _ _ F). reflexivity. Qed.

(* an ID that is not due keeps what it resolves to, exactly *)
Lemma fired_L_keep s s' k : fired s s' -> notdue s k -> L s' k = L s k.
Proof.
  intros F Hn. unfold L. rewrite (fired_lookup_cache s s' k F), (fired_lookup_store s s' k F).
  apply due_in_false in Hn. rewrite Hn. destruct (lookup (cache s) k); [rewrite (fired_hget s s' _ F)|]; reflexivity.
Qed.

(* an ID that is due is gone from cache and store, and from the queue *)
Lemma fired_due_gone s s' d k : fired s s' -> In (d, k) (pending s) -> (d <= now s)%Z ->
  lookup (cache s') k = None /\ lookup (store s') k = None /\ L s' k = None /\ ~ In (d, k) (pending s').
Proof.
  intros F Hin Hd. assert (E : due_in (now s) (pending s) k = true) by (apply due_in_true; exists d; auto).
  pose proof (fired_lookup_cache s s' k F) as Hc. pose proof (fired_lookup_store s s' k F) as Hs.
  rewrite E in Hc, Hs. split; [exact Hc|]. split; [exact Hs|]. split; [unfold L; rewrite Hc; exact Hs|].
  rewrite (fd_pending _ _ F). intro H. apply filter_In in H. destruct H as [_ H]. cbn [fst] in H.
  apply negb_true_iff in H. apply Z.leb_gt in H. lia.
Qed.

Lemma fired_L_None s s' k : fired s s' -> cache_ok s -> L s k = None -> L s' k = None.
Proof.
  intros F Hc H. destruct (StartLaws.L_None_lookups s k Hc H) as [H1 H2]. unfold L.
  rewrite (fired_lookup_cache s s' k F), (fired_lookup_store s s' k F), H1, H2.
  destruct (due_in _ _ _); reflexivity.
Qed.

Lemma fired_cache_sub s s' k o : fired s s' -> lookup (cache s') k = Some o -> lookup (cache s) k = Some o.
Proof. intros F H. rewrite (fired_lookup_cache s s' k F) in H. destruct (due_in _ _ _); [discriminate | exact H]. Qed.

Lemma fired_cache_ok s s' : fired s s' -> cache_ok s -> cache_ok s'.
Proof.
  intros F Hc k o H. apply (fired_cache_sub s s' k o F) in H. destruct (Hc k o H) as (ob & Ho & Hid).
  exists ob. split; [rewrite (fired_hget s s' o F); exact Ho | exact Hid].
Qed.

Lemma fired_nodup s s' : fired s s' -> nodup_ok s -> nodup_ok s'.
Proof.
  intros F [H1 H2]. split; [rewrite (fd_cache _ _ F) | rewrite (fd_store _ _ F)]; apply nodup_rm_due; assumption.
Qed.

Lemma fired_fresh s s' : fired s s' -> fresh_ok s -> fresh_ok s'.
Proof.
  intros F (F1 & F2 & F3 & F4). unfold fresh_ok, key_drawn. rewrite (fd_supply _ _ F). repeat split.
  - intros k v H. rewrite (fd_cache _ _ F) in H. apply In_rm_due in H. exact (F1 k v H).
  - rewrite (fd_store _ _ F) in H. apply In_rm_due in H. exact (proj1 (F2 k r H)).
  - rewrite (fd_store _ _ F) in H. apply In_rm_due in H. exact (proj2 (F2 k r H)).
  - rewrite (fired_hget s s' o F) in H. exact (proj1 (F3 o ob H)).
  - rewrite (fired_hget s s' o F) in H. exact (proj2 (F3 o ob H)).
  - intros d k H. rewrite (fd_pending _ _ F) in H. apply filter_In in H. exact (F4 d k (proj1 H)).
Qed.

Lemma fired_ref_wf s s' : fired s s' -> cache_ok s -> ref_wf s -> ref_wf s'.
Proof.
  intros F Hc Hw k r t HL Hr. rewrite (fd_supply _ _ F).
  assert (E : L s k = Some r).
  { unfold L in HL. rewrite (fired_lookup_cache s s' k F), (fired_lookup_store s s' k F) in HL.
    destruct (due_in _ _ _) eqn:Ed.
    - discriminate.
    - unfold L. destruct (lookup (cache s) k); [rewrite (fired_hget s s' _ F) in HL|]; exact HL. }
  exact (Hw k r t E Hr).
Qed.
